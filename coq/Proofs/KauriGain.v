(* C08 — proofs about the KAURI gain formulas, the top-2 pair selection, the brute-force arg-max and the
   telescoping of the score.  Real-number instance [Rops] of the model Model/KauriGain.v; the formulas proved
   correct are the ones regenerated from the .pyx in Gen/KauriFormulas.v. *)
From Coq Require Import Reals Lra Lia List Bool Arith ZArith Permutation.
From GV Require Import Common.Num Common.NumR Model.KauriGain Gen.KauriFormulas.
Import ListNotations.
Local Open Scope R_scope.

(* ------------------------------------------------------------------ sums and stocks over R *)
Notation sig := (sigma Rops).
Notation rterm := (term Rops).
Definition rsuml (l : list R) : R := lsum Rops l.

Lemma rsuml_nil : rsuml [] = 0. Proof. reflexivity. Qed.
Lemma rsuml_cons x l : rsuml (x :: l) = x + rsuml l. Proof. reflexivity. Qed.
Lemma rsuml_app a b : rsuml (a ++ b) = rsuml a + rsuml b.
Proof. induction a as [|x a IH]; simpl app; rewrite ?rsuml_nil, ?rsuml_cons, ?IH; lra. Qed.
Lemma rsuml_map_plus {A} (f g : A -> R) l :
  rsuml (map (fun x => f x + g x) l) = rsuml (map f l) + rsuml (map g l).
Proof. induction l as [|x l IH]; simpl map; rewrite ?rsuml_nil, ?rsuml_cons, ?IH; lra. Qed.
Lemma rsuml_map_ext {A} (f g : A -> R) l : (forall x, In x l -> f x = g x) -> rsuml (map f l) = rsuml (map g l).
Proof.
  induction l as [|x l IH]; intros H; simpl map; [reflexivity|].
  rewrite !rsuml_cons, IH, (H x); [reflexivity | now left | intros y Hy; apply H; now right].
Qed.
Lemma rsuml_map_swap {A B} (f : A -> B -> R) la lb :
  rsuml (map (fun a => rsuml (map (fun b => f a b) lb)) la) =
  rsuml (map (fun b => rsuml (map (fun a => f a b) la)) lb).
Proof.
  induction la as [|a la IH]; simpl map.
  - rewrite rsuml_nil. induction lb as [|b lb IHb]; simpl map; rewrite ?rsuml_nil, ?rsuml_cons, <- ?IHb; lra.
  - rewrite rsuml_cons, IH.
    rewrite <- rsuml_map_plus. apply rsuml_map_ext. intros b _. reflexivity.
Qed.

Lemma sig_unfold kap a b : sig kap a b = rsuml (map (fun i => rsuml (map (fun j => kap i j) b)) a).
Proof. reflexivity. Qed.
Lemma sig_nil_l kap b : sig kap [] b = 0. Proof. reflexivity. Qed.
Lemma sig_nil_r kap a : sig kap a [] = 0.
Proof.
  induction a as [|x a IH]; [reflexivity|].
  change (sig kap (x :: a) []) with (0 + sig kap a []). rewrite IH; lra.
Qed.
Lemma sig_app_l kap a a' b : sig kap (a ++ a') b = sig kap a b + sig kap a' b.
Proof. rewrite !sig_unfold, map_app, rsuml_app. reflexivity. Qed.
Lemma sig_app_r kap a b b' : sig kap a (b ++ b') = sig kap a b + sig kap a b'.
Proof.
  rewrite !sig_unfold, <- rsuml_map_plus. apply rsuml_map_ext. intros i _.
  now rewrite map_app, rsuml_app.
Qed.

Definition symmetric (kap : nat -> nat -> R) : Prop := forall i j, kap i j = kap j i.

(* sigma(a, b) = sigma(b, a) for every symmetric kernel, PSD or not *)
Lemma sig_sym kap a b : symmetric kap -> sig kap a b = sig kap b a.
Proof.
  intros H. rewrite !sig_unfold, rsuml_map_swap. apply rsuml_map_ext. intros j _.
  apply rsuml_map_ext. intros i _. apply H.
Qed.

Lemma rterm_ne kap C : C <> [] -> rterm kap C = sig kap C C / INR (length C).
Proof. destruct C; [congruence | reflexivity]. Qed.
Lemma rterm_nil kap : rterm kap [] = 0. Proof. reflexivity. Qed.

Lemma len_pos {A} (l : list A) : l <> [] -> 0 < INR (length l).
Proof. destruct l; [congruence|]. intros _. apply lt_0_INR. simpl. lia. Qed.
Lemma len_nonneg {A} (l : list A) : 0 <= INR (length l).
Proof. apply pos_INR. Qed.

Lemma app_ne_l {A} (a b : list A) : a <> [] -> a ++ b <> [].
Proof. destruct a; [congruence | discriminate]. Qed.
Lemma app_ne_r {A} (a b : list A) : b <> [] -> a ++ b <> [].
Proof. destruct a; [now simpl | discriminate]. Qed.

Ltac rops :=
  change (nadd Rops) with Rplus in *; change (nsub Rops) with Rminus in *; change (nmul Rops) with Rmult in *;
  change (ndiv Rops) with Rdiv in *; change (n1 Rops) with 1 in *; change (n0 Rops) with 0 in *;
  change (nofnat Rops) with INR in *; change (nltb Rops) with Rltb in *; change (nleb Rops) with Rleb in *;
  change (neqb Rops) with Reqb in *.

(* ------------------------------------------------------------------ layer A: the regenerated formulas *)
Section Formulas.
Variable kap : nat -> nat -> R.
Hypothesis Hsym : symmetric kap.

(* The stocks compute_all_splits receives when leaf N = Sl ++ Sr (left part, right part) belongs to
   cluster C_k = Sl ++ Sr ++ O (O = the other leaves of the cluster), P = the members of cluster k_prime and
   f = feature_id.  sl_clusters[k] = sum_{i in Sl} omega[k, i] = sigma(C_k, Sl), etc. *)
Definition stocks_of (Sl Sr O P : list nat) (f : nat) : stocks :=
  let Ck := Sl ++ Sr ++ O in
  let Nl := Sl ++ Sr in
  {| sl_square := sig kap Sl Sl; sr_square := sig kap Sr Sr; leaf_square := sig kap Nl Nl;
     sl_clusters_k := sig kap Ck Sl; sr_clusters_k := sig kap Ck Sr;
     sl_clusters_k_prime := sig kap P Sl; sr_clusters_k_prime := sig kap P Sr;
     gamma_k_k := sig kap Ck Ck; gamma_k_prime_k_prime := sig kap P P;
     omega_k_feature_id := sig kap Ck [f];
     n_leaf := INR (length Nl); split_size := INR (length Sl);
     cluster_sizes_k := INR (length Ck); cluster_sizes_k_prime := INR (length P) |}.

Ltac sig_norm Sl Sr O P :=
  repeat rewrite ?sig_app_l, ?sig_app_r;
  rewrite ?(sig_sym kap Sr Sl Hsym), ?(sig_sym kap O Sl Hsym), ?(sig_sym kap O Sr Hsym),
          ?(sig_sym kap P Sl Hsym), ?(sig_sym kap P Sr Hsym), ?(sig_sym kap P O Hsym);
  rewrite ?app_length, ?plus_INR.

Lemma left_star_is_gain Sl Sr O P f : Sl <> [] -> Sr ++ O <> [] ->
  left_star (stocks_of Sl Sr O P f) =
  rterm kap Sl + rterm kap (Sr ++ O) - rterm kap (Sl ++ Sr ++ O).
Proof.
  intros Hl Hr.
  rewrite (rterm_ne kap Sl Hl), (rterm_ne kap (Sr ++ O) Hr), (rterm_ne kap (Sl ++ Sr ++ O) (app_ne_l _ _ Hl)).
  cbv beta iota zeta delta [left_star stocks_of].
  sig_norm Sl Sr O P.
  pose proof (len_pos Sl Hl) as Pl. pose proof (len_pos _ Hr) as Pr. rewrite app_length, plus_INR in Pr.
  field. lra.
Qed.

Lemma right_star_is_gain Sl Sr O P f : Sr <> [] -> Sl ++ O <> [] ->
  right_star (stocks_of Sl Sr O P f) =
  rterm kap Sr + rterm kap (Sl ++ O) - rterm kap (Sl ++ Sr ++ O).
Proof.
  intros Hr Hl.
  rewrite (rterm_ne kap Sr Hr), (rterm_ne kap (Sl ++ O) Hl), (rterm_ne kap (Sl ++ Sr ++ O) (app_ne_r _ _ (app_ne_l _ _ Hr))).
  cbv beta iota zeta delta [right_star stocks_of].
  sig_norm Sl Sr O P.
  pose proof (len_pos Sr Hr) as Pr. pose proof (len_pos _ Hl) as Pl. rewrite app_length, plus_INR in Pl.
  pose proof (len_nonneg Sl). pose proof (len_nonneg O).
  field. lra.
Qed.

Lemma left_switch_is_gain Sl Sr O P f : Sl <> [] -> Sr ++ O <> [] -> P <> [] ->
  left_switch (stocks_of Sl Sr O P f) =
  rterm kap (P ++ Sl) + rterm kap (Sr ++ O) - rterm kap P - rterm kap (Sl ++ Sr ++ O).
Proof.
  intros Hl Hr Hp.
  rewrite (rterm_ne kap (P ++ Sl) (app_ne_l _ _ Hp)), (rterm_ne kap (Sr ++ O) Hr), (rterm_ne kap P Hp),
          (rterm_ne kap (Sl ++ Sr ++ O) (app_ne_l _ _ Hl)).
  cbv beta iota zeta delta [left_switch stocks_of].
  sig_norm Sl Sr O P.
  pose proof (len_pos Sl Hl) as Pl. pose proof (len_pos _ Hr) as Pr. rewrite app_length, plus_INR in Pr.
  pose proof (len_pos P Hp) as Pp.
  field. lra.
Qed.

Lemma right_switch_is_gain Sl Sr O P f : Sr <> [] -> Sl ++ O <> [] -> P <> [] ->
  right_switch (stocks_of Sl Sr O P f) =
  rterm kap (P ++ Sr) + rterm kap (Sl ++ O) - rterm kap P - rterm kap (Sl ++ Sr ++ O).
Proof.
  intros Hr Hl Hp.
  rewrite (rterm_ne kap (P ++ Sr) (app_ne_l _ _ Hp)), (rterm_ne kap (Sl ++ O) Hl), (rterm_ne kap P Hp),
          (rterm_ne kap (Sl ++ Sr ++ O) (app_ne_r _ _ (app_ne_l _ _ Hr))).
  cbv beta iota zeta delta [right_switch stocks_of].
  sig_norm Sl Sr O P.
  pose proof (len_pos Sr Hr) as Pr. pose proof (len_pos _ Hl) as Pl. rewrite app_length, plus_INR in Pl.
  pose proof (len_pos P Hp) as Pp. pose proof (len_nonneg Sl). pose proof (len_nonneg O).
  field. lra.
Qed.

(* reallocation: the left part joins cluster P, the right part joins cluster Q, the rest O of C_k stays:
   gain = left_switch(P) + right_switch(Q) + corrective_term *)
Lemma realloc_is_gain Sl Sr O P Q f : Sl <> [] -> Sr <> [] -> O <> [] -> P <> [] -> Q <> [] ->
  left_switch (stocks_of Sl Sr O P f) + right_switch (stocks_of Sl Sr O Q f) + corrective_term (stocks_of Sl Sr O P f) =
  rterm kap (P ++ Sl) + rterm kap (Q ++ Sr) + rterm kap O
  - rterm kap P - rterm kap Q - rterm kap (Sl ++ Sr ++ O).
Proof.
  intros Hl Hr Ho Hp Hq.
  rewrite (rterm_ne kap (P ++ Sl) (app_ne_l _ _ Hp)), (rterm_ne kap (Q ++ Sr) (app_ne_l _ _ Hq)), (rterm_ne kap O Ho),
          (rterm_ne kap P Hp), (rterm_ne kap Q Hq), (rterm_ne kap (Sl ++ Sr ++ O) (app_ne_l _ _ Hl)).
  cbv beta iota zeta delta [left_switch right_switch corrective_term stocks_of].
  sig_norm Sl Sr O P.
  rewrite ?(sig_sym kap Q Sl Hsym), ?(sig_sym kap Q Sr Hsym), ?(sig_sym kap Q O Hsym).
  pose proof (len_pos Sl Hl). pose proof (len_pos Sr Hr). pose proof (len_pos O Ho).
  pose proof (len_pos P Hp). pose proof (len_pos Q Hq).
  field. lra.
Qed.

(* the double-star gain with both errors repaired (Model.double_star_f with fix7 = true) *)
Lemma double_star_corrected_is_gain Sl Sr O om : Sl <> [] -> Sr <> [] -> O <> [] ->
  let Ck := Sl ++ Sr ++ O in let Nl := Sl ++ Sr in
  double_star_f Rops true (sig kap Sl Sl) (sig kap Sr Sr) (sig kap Nl Nl) (sig kap Ck Ck) (sig kap Ck Sl) (sig kap Ck Sr) om
                (length Ck) (length Nl) (length Sl) =
  rterm kap Sl + rterm kap Sr + rterm kap O - rterm kap (Sl ++ Sr ++ O).
Proof.
  intros Hl Hr Ho Ck Nl. subst Ck Nl.
  rewrite (rterm_ne kap Sl Hl), (rterm_ne kap Sr Hr), (rterm_ne kap O Ho), (rterm_ne kap (Sl ++ Sr ++ O) (app_ne_l _ _ Hl)).
  unfold double_star_f, n2; rops.
  replace (length (Sl ++ Sr ++ O) - length (Sl ++ Sr))%nat with (length O) by (rewrite !app_length; lia).
  replace (length (Sl ++ Sr) - length Sl)%nat with (length Sr) by (rewrite !app_length; lia).
  sig_norm Sl Sr O (@nil nat).
  pose proof (len_pos Sl Hl). pose proof (len_pos Sr Hr). pose proof (len_pos O Ho).
  field. lra.
Qed.
End Formulas.

(* ------------------------------------------------------------------ the as-is model's formulas ARE the regenerated ones *)
(* Whatever the stocks, and for sizes split_size <= n_leaf <= |C_k| as naturals, the formula functions
   called by Model.compute_all_splits (fix7 = false) compute exactly the expressions regenerated from the .pyx. *)
Lemma asis_formulas_regenerated :
  forall (sl sr lf slck srck slcp srcp gkk gpp om : R) (n s c p : nat), (s <= n)%nat -> (n <= c)%nat ->
  let st := {| sl_square := sl; sr_square := sr; leaf_square := lf; sl_clusters_k := slck; sr_clusters_k := srck;
               sl_clusters_k_prime := slcp; sr_clusters_k_prime := srcp; gamma_k_k := gkk; gamma_k_prime_k_prime := gpp;
               omega_k_feature_id := om; n_leaf := INR n; split_size := INR s; cluster_sizes_k := INR c;
               cluster_sizes_k_prime := INR p |} in
  star_f Rops sl gkk slck c s = left_star st /\
  star_f Rops sr gkk srck c (n - s) = right_star st /\
  left_switch_f Rops sl gkk gpp slck slcp c p s = left_switch st /\
  left_switch_f Rops sr gkk gpp srck srcp c p (n - s) = right_switch st /\
  corrective_f Rops sl sr lf gkk slck srck c n s = corrective_term st /\
  double_star_f Rops false sl sr lf gkk slck srck om c n s = double_star_gain st.
Proof.
  intros sl sr lf slck srck slcp srcp gkk gpp om n s c p Hsn Hnc st. subst st.
  cbv beta iota zeta delta [left_star right_star left_switch right_switch corrective_term double_star_gain].
  unfold star_f, left_switch_f, corrective_f, double_star_f, n2; rops.
  rewrite ?plus_INR. repeat (rewrite minus_INR by lia). rewrite ?plus_INR.
  replace (1 + 1) with 2 by lra.
  repeat split; reflexivity.
Qed.

(* ------------------------------------------------------------------ F7: the double-star gain as written is not the increase *)
Definition kid (i j : nat) : R := if Nat.eqb i j then 1 else 0.
Lemma kid_sym : symmetric kid.
Proof. intros i j. unfold kid. rewrite (Nat.eqb_sym i j). reflexivity. Qed.

(* identity kernel, leaf {0,1} split into {0} | {1}, cluster C_k = {0,1,2}, feature_id = 0:
   reported 5, real increase 2 *)
Lemma double_star_asis_refuted :
  exists (kap : nat -> nat -> R) (Sl Sr O P : list nat) (f : nat),
    symmetric kap /\ Sl <> [] /\ Sr <> [] /\ O <> [] /\
    double_star_gain (stocks_of kap Sl Sr O P f) <>
    rterm kap Sl + rterm kap Sr + rterm kap O - rterm kap (Sl ++ Sr ++ O).
Proof.
  exists kid, [0%nat], [1%nat], [2%nat], (@nil nat), 0%nat.
  split; [exact kid_sym|]. repeat (split; [discriminate|]).
  cbv beta iota zeta delta [double_star_gain stocks_of].
  unfold term, sigma; simpl; rops; unfold kid; simpl. lra.
Qed.

(* the same witness on the executable as-is model: what Model.double_star_f false returns *)
Lemma double_star_asis_model_refuted :
  double_star_f Rops false (sig kid [0%nat] [0%nat]) (sig kid [1%nat] [1%nat]) (sig kid [0;1]%nat [0;1]%nat)
                (sig kid [0;1;2]%nat [0;1;2]%nat) (sig kid [0;1;2]%nat [0%nat]) (sig kid [0;1;2]%nat [1%nat])
                (sig kid [0;1;2]%nat [0%nat]) 3 2 1 = 5 /\
  rterm kid [0%nat] + rterm kid [1%nat] + rterm kid [2%nat] - rterm kid [0;1;2]%nat = 2.
Proof.
  unfold double_star_f, n2, term, sigma; simpl; rops; unfold kid; simpl. split; lra.
Qed.

(* ------------------------------------------------------------------ the as-is model's branch tests ARE the regenerated ones *)
Ltac zspec :=
  repeat match goal with
  | |- context [Z.ltb ?a ?b] => destruct (Z.ltb_spec a b)
  | |- context [Z.leb ?a ?b] => destruct (Z.leb_spec a b)
  | |- context [Z.eqb ?a ?b] => destruct (Z.eqb_spec a b)
  | |- context [Nat.ltb ?a ?b] => destruct (Nat.ltb_spec a b)
  | |- context [Nat.leb ?a ?b] => destruct (Nat.leb_spec a b)
  | |- context [Nat.eqb ?a ?b] => destruct (Nat.eqb_spec a b)
  end; simpl; try reflexivity; try lia.

Lemma asis_guards_regenerated : forall nc kmax nl cs : nat,
  let z := Z.of_nat in
  guard_double_star (z nc) (z kmax) (z nl) (z cs) = g_double_star nc kmax nl cs /\
  guard_star (z nc) (z kmax) (z nl) (z cs) = g_star nc kmax /\
  guard_switch (z nc) (z kmax) (z nl) (z cs) = g_switch nc /\
  guard_realloc (z nc) (z kmax) (z nl) (z cs) = (g_switch nc && g_realloc nc nl cs)%bool /\
  (forall k k' : nat, skip_cluster (z k) (z k') = (k =? k')%nat) /\
  (forall a b : nat, pair_distinct (z a) (z b) = negb (eq_optnat (Some a) (Some b))).
Proof.
  intros nc kmax nl cs z. subst z.
  unfold guard_double_star, guard_star, guard_switch, guard_realloc, skip_cluster, pair_distinct,
         g_double_star, g_star, g_switch, g_realloc, eq_optnat.
  repeat split; intros; zspec.
Qed.

Lemma asis_tests_regenerated : forall (g l r b rf c ls rs tl sl tr sr : R),
  upd_double_star g b = t_gt Rops g b /\
  upd_star l r b = (t_gt Rops l b || t_gt Rops r b)%bool /\
  pick_star l r = t_gt Rops l r /\
  upd_switch l r b = (t_ge Rops l b || t_ge Rops r b)%bool /\
  pick_switch l r = t_gt Rops l r /\
  upd_realloc rf c b = t_gt Rops (rf + c) b /\
  pair_choice ls rs tl sl tr sr = gt_opt Rops (add_opt Rops (Some tl) (Some sr)) (add_opt Rops (Some tr) (Some sl)) /\
  track_top_left ls rs tl sl tr sr = ge_opt Rops ls (Some tl) /\
  track_second_left ls rs tl sl tr sr = ge_opt Rops ls (Some sl) /\
  track_top_right ls rs tl sl tr sr = ge_opt Rops rs (Some tr) /\
  (* F8 as written: the elif of the right-hand tracker tests left_switch *)
  track_second_right ls rs tl sl tr sr = ge_opt Rops (if false then rs else ls) (Some sr).
Proof. intros. repeat split; reflexivity. Qed.

(* ------------------------------------------------------------------ top-2 tracking and the choice of the pair *)
(* an entry = (k_prime, left_switch, right_switch) *)
Definition entry : Type := (nat * (R * R))%type.
Definition e_id (e : entry) : nat := fst e.
Definition e_gl (e : entry) : R := fst (snd e).
Definition e_gr (e : entry) : R := snd (snd e).

Definition track_left_from (t : @track R) (es : list entry) : @track R :=
  fold_left (fun t e => upd_track Rops t (e_gl e) (e_gl e) (e_id e)) es t.
Definition track_right_from (fix8 : bool) (t : @track R) (es : list entry) : @track R :=
  fold_left (fun t e => upd_track Rops t (e_gr e) (if fix8 then e_gr e else e_gl e) (e_id e)) es t.
Definition track_left es := track_left_from track0 es.
Definition track_right fix8 es := track_right_from fix8 track0 es.

(* one-sided tracker whose elif tests the value it stores (the repaired text) *)
Definition upd1 (t : @track R) (p : nat * R) : @track R := upd_track Rops t (snd p) (snd p) (fst p).

Definition tinv (t : @track R) (vs : list (nat * R)) : Prop :=
  match top_g t, top_k t, sec_g t, sec_k t with
  | None, None, None, None => vs = []
  | Some g, Some k, None, None => vs = [(k, g)]
  | Some g, Some k, Some g2, Some k2 =>
      In (k, g) vs /\ In (k2, g2) vs /\ k2 <> k /\
      (forall p, In p vs -> snd p <= g) /\ (forall p, In p vs -> fst p <> k -> snd p <= g2)
  | _, _, _, _ => False
  end.

Lemma tinv_step t vs p : tinv t vs -> ~ In (fst p) (map fst vs) -> tinv (upd1 t p) (vs ++ [p]).
Proof.
  destruct p as [k' g]. destruct t as [[tg|] [tk|] [sg|] [sk|]]; unfold tinv; simpl; try contradiction; intros Hi Hn.
  - (* top and second known *)
    destruct Hi as (Ht & Hs & Hne & Hall & Hoth).
    assert (Hk' : forall q, In q vs -> fst q <> k').
    { intros q Hq E. apply Hn. rewrite <- E. now apply in_map. }
    unfold upd1, upd_track, ge_opt; simpl; rops; unfold Rleb.
    destruct (Rle_dec tg g) as [H1|H1]; simpl.
    + repeat split.
      * apply in_or_app; right; now left.
      * apply in_or_app; now left.
      * exact (Hk' _ Ht).
      * intros q Hq. apply in_app_or in Hq. destruct Hq as [Hq|[<-|[]]]; simpl; [specialize (Hall _ Hq); lra | lra].
      * intros q Hq Hd. apply in_app_or in Hq. destruct Hq as [Hq|[<-|[]]]; simpl in *; [exact (Hall _ Hq) | congruence].
    + destruct (Rle_dec sg g) as [H2|H2]; simpl.
      * repeat split.
        -- apply in_or_app; now left.
        -- apply in_or_app; right; now left.
        -- intros E. exact (Hk' _ Ht (eq_sym E)).
        -- intros q Hq. apply in_app_or in Hq. destruct Hq as [Hq|[<-|[]]]; simpl; [exact (Hall _ Hq) | lra].
        -- intros q Hq Hd. apply in_app_or in Hq. destruct Hq as [Hq|[<-|[]]]; simpl in *; [specialize (Hoth _ Hq Hd); lra | lra].
      * repeat split.
        -- apply in_or_app; now left.
        -- apply in_or_app; now left.
        -- exact Hne.
        -- intros q Hq. apply in_app_or in Hq. destruct Hq as [Hq|[<-|[]]]; simpl; [exact (Hall _ Hq) | lra].
        -- intros q Hq Hd. apply in_app_or in Hq. destruct Hq as [Hq|[<-|[]]]; simpl in *; [exact (Hoth _ Hq Hd) | lra].
  - (* only the top known: vs = [(tk, tg)] *)
    subst vs. simpl in Hn.
    unfold upd1, upd_track, ge_opt; simpl; rops; unfold Rleb.
    destruct (Rle_dec tg g) as [H1|H1]; simpl.
    + repeat split; [now right; left | now left | intros E; apply Hn; now left | |].
      * intros q [<-|[<-|[]]]; simpl; lra.
      * intros q [<-|[<-|[]]] Hd; simpl in *; [lra | congruence].
    + repeat split; [now left | now right; left | intros E; apply Hn; left; congruence | |].
      * intros q [<-|[<-|[]]]; simpl; lra.
      * intros q [<-|[<-|[]]] Hd; simpl in *; [congruence | lra].
  - (* nothing known *)
    subst vs. reflexivity.
Qed.

Lemma tinv_fold vs : forall pre t, tinv t pre -> NoDup (map fst (pre ++ vs)) ->
  tinv (fold_left upd1 vs t) (pre ++ vs).
Proof.
  induction vs as [|p vs IH]; intros pre t Hi Hnd; simpl.
  - now rewrite app_nil_r.
  - replace (pre ++ p :: vs) with ((pre ++ [p]) ++ vs) in * by (rewrite <- app_assoc; reflexivity).
    apply IH; [|exact Hnd].
    apply tinv_step; [exact Hi|].
    rewrite !map_app in Hnd. simpl in Hnd. rewrite <- app_assoc in Hnd. simpl in Hnd.
    apply NoDup_remove_2 in Hnd. intros Hin. apply Hnd. apply in_or_app. now left.
Qed.

Lemma tinv0 : tinv track0 []. Proof. reflexivity. Qed.

Lemma fold_left_map {A B C} (f : A -> C -> A) (g : B -> C) l a :
  fold_left f (map g l) a = fold_left (fun a b => f a (g b)) l a.
Proof. revert a; induction l; simpl; auto. Qed.

Lemma track_left_inv es : NoDup (map e_id es) -> tinv (track_left es) (map (fun e => (e_id e, e_gl e)) es).
Proof.
  intros Hnd.
  assert (E : track_left es = fold_left upd1 (map (fun e => (e_id e, e_gl e)) es) track0)
    by (rewrite fold_left_map; reflexivity).
  rewrite E. apply (tinv_fold _ [] track0 tinv0). simpl. now rewrite map_map.
Qed.
Lemma track_right_inv es : NoDup (map e_id es) -> tinv (track_right true es) (map (fun e => (e_id e, e_gr e)) es).
Proof.
  intros Hnd.
  assert (E : track_right true es = fold_left upd1 (map (fun e => (e_id e, e_gr e)) es) track0)
    by (rewrite fold_left_map; reflexivity).
  rewrite E. apply (tinv_fold _ [] track0 tinv0). simpl. now rewrite map_map.
Qed.

(* With the repaired tracker, "choose the best pair of top switches" returns the best ordered pair of two
   DISTINCT clusters: left part to cluster a, right part to cluster b. *)
Lemma top2_pair_optimal : forall es : list entry, NoDup (map e_id es) -> (2 <= length es)%nat ->
  exists r a b, pair_select Rops (track_left es) (track_right true es) = (Some r, Some a, Some b) /\ a <> b /\
    (exists ea eb, In ea es /\ In eb es /\ e_id ea = a /\ e_id eb = b /\ r = e_gl ea + e_gr eb) /\
    (forall e1 e2, In e1 es -> In e2 es -> e_id e1 <> e_id e2 -> e_gl e1 + e_gr e2 <= r).
Proof.
  intros es Hnd Hlen.
  pose proof (track_left_inv es Hnd) as HL. pose proof (track_right_inv es Hnd) as HR.
  destruct (track_left es) as [[gL|] [kL|] [gL2|] [kL2|]]; unfold tinv in HL; simpl in HL; try contradiction;
    try (apply (f_equal (@length _)) in HL; rewrite map_length in HL; simpl in HL; lia).
  destruct (track_right true es) as [[gR|] [kR|] [gR2|] [kR2|]]; unfold tinv in HR; simpl in HR; try contradiction;
    try (apply (f_equal (@length _)) in HR; rewrite map_length in HR; simpl in HR; lia).
  destruct HL as (L1 & L2 & Lne & Lall & Loth). destruct HR as (R1 & R2 & Rne & Rall & Roth).
  assert (Lall' : forall e, In e es -> e_gl e <= gL).
  { intros e He. apply (Lall (e_id e, e_gl e)). apply in_map_iff. now exists e. }
  assert (Loth' : forall e, In e es -> e_id e <> kL -> e_gl e <= gL2).
  { intros e He Hd. apply (Loth (e_id e, e_gl e)); [apply in_map_iff; now exists e | exact Hd]. }
  assert (Rall' : forall e, In e es -> e_gr e <= gR).
  { intros e He. apply (Rall (e_id e, e_gr e)). apply in_map_iff. now exists e. }
  assert (Roth' : forall e, In e es -> e_id e <> kR -> e_gr e <= gR2).
  { intros e He Hd. apply (Roth (e_id e, e_gr e)); [apply in_map_iff; now exists e | exact Hd]. }
  apply in_map_iff in L1; destruct L1 as (eL & EL & InL). apply in_map_iff in L2; destruct L2 as (eL2 & EL2 & InL2).
  apply in_map_iff in R1; destruct R1 as (eR & ER & InR). apply in_map_iff in R2; destruct R2 as (eR2 & ER2 & InR2).
  inversion EL; inversion EL2; inversion ER; inversion ER2; subst; clear EL EL2 ER ER2.
  unfold pair_select, eq_optnat, add_opt, gt_opt; simpl; rops; unfold Rltb.
  assert (Hopt : forall r, e_gl eL2 + e_gr eR <= r -> e_gl eL + e_gr eR2 <= r -> e_id eL = e_id eR ->
            forall e1 e2, In e1 es -> In e2 es -> e_id e1 <> e_id e2 -> e_gl e1 + e_gr e2 <= r).
  { intros r H1 H2 E e1 e2 I1 I2 Hd. destruct (Nat.eq_dec (e_id e1) (e_id eL)) as [E1|D1].
    - assert (e_id e2 <> e_id eR) by congruence.
      pose proof (Lall' e1 I1). pose proof (Roth' e2 I2 H). lra.
    - pose proof (Loth' e1 I1 D1). pose proof (Rall' e2 I2). lra. }
  destruct (Nat.eqb_spec (e_id eL) (e_id eR)) as [E|D]; simpl.
  - match goal with |- context [Rlt_dec ?x ?y] => destruct (Rlt_dec x y) as [C|C] end; simpl.
    + exists (e_gl eL + e_gr eR2), (e_id eL), (e_id eR2). repeat split.
      * congruence.
      * exists eL, eR2. repeat split; assumption.
      * apply Hopt; [lra | lra | exact E].
    + exists (e_gr eR + e_gl eL2), (e_id eL2), (e_id eR). repeat split.
      * congruence.
      * exists eL2, eR. repeat split; try assumption. lra.
      * apply Hopt; [lra | lra | exact E].
  - exists (e_gl eL + e_gr eR), (e_id eL), (e_id eR). repeat split.
    + exact D.
    + exists eL, eR. repeat split; assumption.
    + intros e1 e2 I1 I2 _. pose proof (Lall' e1 I1). pose proof (Rall' e2 I2). lra.
Qed.

(* F8: with the text as written (`elif left_switch >= second_gain_right`) the second-best right switch can be
   missed: three other clusters 1, 2, 3 with (left_switch, right_switch) = (10,10), (5,1), (-5,8).
   Cluster 1 is the top on both sides, the as-is tracker keeps right second = 1 (cluster 2) although cluster 3
   offers 8, and the pair returned is worth 15 while left->1, right->3 is worth 18. *)
Definition f8_witness : list entry := [(1%nat, (10, 10)); (2%nat, (5, 1)); (3%nat, (-5, 8))].
Lemma second_right_asis_refuted :
  NoDup (map e_id f8_witness) /\
  pair_select Rops (track_left f8_witness) (track_right false f8_witness) = (Some 15, Some 2%nat, Some 1%nat) /\
  (exists e1 e2, In e1 f8_witness /\ In e2 f8_witness /\ e_id e1 <> e_id e2 /\ 15 < e_gl e1 + e_gr e2) /\
  (* and the regenerated test itself is not the intended one *)
  (exists ls rs tl sl tr sr, track_second_right ls rs tl sl tr sr <> ge_opt Rops rs (Some sr)).
Proof.
  split; [|split; [|split]].
  - simpl. repeat constructor; simpl; intuition discriminate.
  - unfold f8_witness, track_left, track_right, track_left_from, track_right_from, pair_select; simpl.
    unfold upd_track, ge_opt, e_gl, e_gr, e_id; simpl; rops; unfold Rleb.
    repeat (match goal with |- context [Rle_dec ?x ?y] => destruct (Rle_dec x y); try lra end; simpl).
    unfold gt_opt, add_opt; simpl; rops; unfold Rltb.
    repeat (match goal with |- context [Rlt_dec ?x ?y] => destruct (Rlt_dec x y); try lra end; simpl).
    repeat f_equal; lra.
  - exists (1%nat, (10, 10)), (3%nat, (-5, 8)). unfold f8_witness, e_id, e_gl, e_gr; simpl.
    repeat split; [now left | now right; right; left | discriminate | lra].
  - exists 0, 5, 0, 0, 0, 3. unfold track_second_right, ge_opt; rops; unfold Rleb.
    destruct (Rle_dec 3 0); destruct (Rle_dec 3 5); try lra; try discriminate.
Qed.

(* the trackers inside Model.switch_step are the folds studied above *)
Section SwitchFold.
Variables (fix8 : bool) (sl_square sr_square : R) (slc src : nat -> R) (cs : nat -> nat) (gamma : nat -> nat -> R)
          (n_leaf k leaf_id split_size feat : nat) (thr : R).
Definition entries_of (ks : list nat) : list entry :=
  flat_map (fun k' => if (k =? k')%nat then [] else
    [(k', (left_switch_f Rops sl_square (gamma k k) (gamma k' k') (slc k) (slc k') (cs k) (cs k') split_size,
           left_switch_f Rops sr_square (gamma k k) (gamma k' k') (src k) (src k') (cs k) (cs k') (n_leaf - split_size)))]) ks.

Lemma switch_fold_tracks ks : forall best tl tr,
  let res := fold_left (switch_step Rops fix8 sl_square sr_square slc src cs gamma n_leaf k leaf_id split_size feat thr)
                       ks (best, tl, tr) in
  snd (fst res) = track_left_from tl (entries_of ks) /\ snd res = track_right_from fix8 tr (entries_of ks).
Proof.
  induction ks as [|k' ks IH]; intros best tl tr; simpl.
  - split; reflexivity.
  - unfold switch_step at 2. destruct (k =? k')%nat eqn:E; simpl.
    + apply IH.
    + unfold track_left_from, track_right_from in *. simpl. apply IH.
Qed.

Lemma entries_of_ids nc : NoDup (map e_id (entries_of (seq 0 nc))).
Proof.
  assert (H : forall l, NoDup l -> NoDup (map e_id (entries_of l)) /\ (forall x, In x (map e_id (entries_of l)) -> In x l)).
  { induction l as [|x l IH]; intros Hnd; simpl; [split; [constructor | tauto]|].
    inversion Hnd as [|? ? Hx Hl]; subst. destruct (IH Hl) as [IH1 IH2].
    destruct (k =? x)%nat; simpl.
    - split; [exact IH1 | intros y Hy; right; now apply IH2].
    - split; [constructor; [intros Hin; apply Hx; now apply IH2 | exact IH1]
             | intros y [<-|Hy]; [now left | right; now apply IH2]]. }
  apply H, seq_NoDup.
Qed.
End SwitchFold.

(* ------------------------------------------------------------------ brute-force arg-max *)
Lemma argmax_fold {A} (f : A -> R) rest : forall acc, fst acc = f (snd acc) ->
  let r := fold_left (argmax_step Rops f) rest acc in
  fst r = f (snd r) /\ fst acc <= fst r /\ (forall x, In x rest -> f x <= fst r) /\ (snd r = snd acc \/ In (snd r) rest).
Proof.
  induction rest as [|x rest IH]; intros acc Hacc; simpl.
  - repeat split; [exact Hacc | lra | tauto | now left].
  - set (acc' := argmax_step Rops f acc x).
    assert (H' : fst acc' = f (snd acc') /\ fst acc <= fst acc' /\ f x <= fst acc' /\ (snd acc' = snd acc \/ snd acc' = x)).
    { unfold acc', argmax_step; rops; unfold Rltb. destruct (Rlt_dec (fst acc) (f x)); simpl; repeat split; try lra; auto. }
    destruct H' as (H1 & H2 & H3 & H4). destruct (IH acc' H1) as (I1 & I2 & I3 & I4).
    repeat split; [exact I1 | lra | |].
    + intros y [<-|Hy]; [lra | now apply I3].
    + destruct I4 as [I4|I4]; [rewrite I4; destruct H4 as [H4|H4]; [now left | right; left; now rewrite H4] | right; now right].
Qed.

Lemma best_spec_is_argmax : forall (st : @kstate R) (c : @cand R),
  In c (candidates Rops st) -> gain Rops st c <= gain Rops st (best_spec Rops st).
Proof.
  intros st c Hin. unfold best_spec, best_spec_pair.
  destruct (candidates Rops st) as [|c0 r]; [contradiction|].
  unfold argmax_from.
  destruct (argmax_fold (gain Rops st) r (gain Rops st c0, c0) eq_refl) as (H1 & H2 & H3 & _).
  simpl in *. rewrite <- H1. destruct Hin as [<-|Hin]; [exact H2 | now apply H3].
Qed.

Lemma best_spec_is_candidate : forall (st : @kstate R),
  candidates Rops st <> [] -> In (best_spec Rops st) (candidates Rops st).
Proof.
  intros st Hne. unfold best_spec, best_spec_pair.
  destruct (candidates Rops st) as [|c0 r]; [congruence|].
  unfold argmax_from.
  destruct (argmax_fold (gain Rops st) r (gain Rops st c0, c0) eq_refl) as (_ & _ & _ & H4).
  simpl in *. destruct H4 as [->|H4]; [now left | now right].
Qed.

(* ------------------------------------------------------------------ telescoping *)
Lemma score_is_root_plus_gains : forall (cs : list (@cand R)) (st : @kstate R),
  objective Rops (run_splits Rops st cs) = objective Rops st + rsuml (gains_along Rops st cs).
Proof.
  induction cs as [|c cs IH]; intros st.
  - change (objective Rops st = objective Rops st + 0). lra.
  - change (objective Rops (run_splits Rops (apply_split Rops st c) cs) =
            objective Rops st + (gain Rops st c + rsuml (gains_along Rops (apply_split Rops st c) cs))).
    rewrite IH. unfold gain; rops. lra.
Qed.

(* ------------------------------------------------------------------ layer B: the model's [gain] in terms of cluster terms *)
Lemma rsuml_perm l l' : Permutation l l' -> rsuml l = rsuml l'.
Proof. induction 1; rewrite ?rsuml_cons in *; try lra; reflexivity. Qed.
Lemma sig_perm_l kap a a' b : Permutation a a' -> sig kap a b = sig kap a' b.
Proof. intros H. rewrite !sig_unfold. apply rsuml_perm. now apply Permutation_map. Qed.
Lemma sig_perm_r kap a b b' : Permutation b b' -> sig kap a b = sig kap a b'.
Proof.
  intros H. rewrite !sig_unfold. apply rsuml_map_ext. intros i _. apply rsuml_perm. now apply Permutation_map.
Qed.
Lemma rterm_perm kap C C' : Permutation C C' -> rterm kap C = rterm kap C'.
Proof.
  intros H. destruct C as [|x C].
  - apply Permutation_nil in H. now subst.
  - destruct C' as [|y C']; [apply Permutation_sym, Permutation_nil in H; discriminate|].
    rewrite !rterm_ne by discriminate.
    rewrite (sig_perm_l kap _ _ _ H), (sig_perm_r kap _ _ _ H), (Permutation_length H). reflexivity.
Qed.

Lemma rsuml_map_minus {A} (f g : A -> R) l :
  rsuml (map f l) - rsuml (map g l) = rsuml (map (fun x => f x - g x) l).
Proof. induction l as [|x l IH]; simpl map; rewrite ?rsuml_nil, ?rsuml_cons; [lra | rewrite <- IH; lra]. Qed.

Lemma filter_partition_perm {A} (p : A -> bool) l :
  Permutation (filter p l ++ filter (fun x => negb (p x)) l) l.
Proof.
  induction l as [|x l IH]; simpl; [constructor|].
  destruct (p x); simpl.
  - now constructor.
  - apply Permutation_sym, Permutation_cons_app, Permutation_sym, IH.
Qed.

Lemma set_nth_length {A} j (x : A) l : length (set_nth j x l) = length l.
Proof. revert j; induction l as [|y l IH]; intros [|j]; simpl; auto. Qed.
Lemma set_nth_nth {A} j (d : A) l : set_nth j (nth j l d) l = l.
Proof. revert j; induction l as [|y l IH]; intros [|j]; simpl; auto. now rewrite IH. Qed.
Lemma nth_set_nth {A} j (x d : A) l : (j < length l)%nat -> nth j (set_nth j x l) d = x.
Proof. revert j; induction l as [|y l IH]; intros [|j] H; simpl in *; try lia; auto. apply IH. lia. Qed.

(* members of cluster k' once leaf j has been emptied *)
Definition others (cls : list nat) (lvs : list (list nat)) (j k' : nat) : list nat :=
  members cls (set_nth j [] lvs) k'.

Lemma members_set_perm : forall cls lvs j (L : list nat) k', (j < length lvs)%nat -> length cls = length lvs ->
  Permutation (members cls (set_nth j L lvs) k') ((if (nth j cls 0 =? k')%nat then L else []) ++ others cls lvs j k').
Proof.
  unfold others. induction cls as [|c cs IH]; intros [|l ls] j L k' Hj Hlen; simpl in *; try lia.
  destruct j as [|j]; simpl.
  - destruct (c =? k')%nat; simpl; apply Permutation_refl.
  - specialize (IH ls j L k' ltac:(lia) ltac:(lia)).
    eapply Permutation_trans; [apply Permutation_app_head, IH|].
    rewrite !app_assoc. apply Permutation_app_tail, Permutation_app_comm.
Qed.

Lemma members_setcl_empty : forall cls lvs j a k',
  members (set_nth j a cls) (set_nth j [] lvs) k' = members cls (set_nth j [] lvs) k'.
Proof.
  induction cls as [|c cs IH]; intros [|l ls] [|j] a k'; simpl; auto.
  - destruct (a =? k')%nat, (c =? k')%nat; reflexivity.
  - now rewrite IH.
Qed.

Lemma members_app_single : forall cls lvs b (Rr : list nat) k', length cls = length lvs ->
  members (cls ++ [b]) (lvs ++ [Rr]) k' = members cls lvs k' ++ (if (b =? k')%nat then Rr else []).
Proof.
  induction cls as [|c cs IH]; intros [|l ls] b Rr k' Hlen; simpl in *; try lia.
  - now rewrite app_nil_r.
  - rewrite IH by lia. now rewrite app_assoc.
Qed.

Lemma members_other_leaf : forall cls lvs j (X : list nat) k', nth j cls 0%nat <> k' -> (j < length cls)%nat ->
  members cls (set_nth j X lvs) k' = members cls lvs k'.
Proof.
  induction cls as [|c cs IH]; intros [|l ls] [|j] X k' Hne Hj; simpl in *; try lia; auto.
  - destruct (Nat.eqb_spec c k'); [contradiction | reflexivity].
  - rewrite IH; auto. lia.
Qed.

Lemma members_none : forall cls lvs k', Forall (fun c => c <> k') cls -> members cls lvs k' = [].
Proof.
  induction cls as [|c cs IH]; intros [|l ls] k' H; simpl; auto.
  inversion H as [|? ? Hc Hcs]; subst. destruct (Nat.eqb_spec c k'); [contradiction|]. simpl. now apply IH.
Qed.

(* sums over cluster indices whose summand vanishes outside a few indices *)
Lemma rsuml_seq_zero (d : nat -> R) K : (forall k', (k' < K)%nat -> d k' = 0) -> rsuml (map d (seq 0 K)) = 0.
Proof.
  induction K as [|K IH]; intros H; [reflexivity|].
  rewrite seq_S, map_app, rsuml_app, IH by (intros; apply H; lia). simpl map. rewrite rsuml_cons, rsuml_nil, H by lia. lra.
Qed.
Lemma rsuml_seq_single (d : nat -> R) K a : (a < K)%nat -> (forall k', (k' < K)%nat -> k' <> a -> d k' = 0) ->
  rsuml (map d (seq 0 K)) = d a.
Proof.
  induction K as [|K IH]; intros Ha H; [lia|].
  rewrite seq_S, map_app, rsuml_app. simpl map. rewrite rsuml_cons, rsuml_nil.
  destruct (Nat.eq_dec a K) as [->|Hne].
  - rewrite rsuml_seq_zero by (intros; apply H; lia). simpl. lra.
  - rewrite IH by (try lia; intros; apply H; lia). simpl. rewrite (H K) by lia. lra.
Qed.
Lemma rsuml_seq_peel (d : nat -> R) K a : (a < K)%nat ->
  rsuml (map d (seq 0 K)) = d a + rsuml (map (fun k' => if (k' =? a)%nat then 0 else d k') (seq 0 K)).
Proof.
  intros Ha.
  assert (E : rsuml (map (fun k' => if (k' =? a)%nat then d a else 0) (seq 0 K)) = d a).
  { rewrite (rsuml_seq_single _ K a Ha).
    - now rewrite Nat.eqb_refl.
    - intros k' _ Hne. destruct (Nat.eqb_spec k' a); [contradiction | reflexivity]. }
  rewrite <- E at 1. rewrite <- rsuml_map_plus. apply rsuml_map_ext.
  intros k' _. destruct (Nat.eqb_spec k' a); [subst|]; lra.
Qed.

Section GainDecomposition.
Variable st : @kstate R.
Variable c : @cand R.
Let kap := ks_kernel st.
Let cls := ks_cl st.
Let lvs := ks_leaves st.
Let j := c_leaf c.
Let a := c_left c.
Let b := c_right c.
Let k := nth j cls 0%nat.
Let L := left_part Rops st j (c_feat c) (c_thr c).
Let Rr := right_part Rops st j (c_feat c) (c_thr c).
Hypothesis Hlen : length cls = length lvs.
Hypothesis Hj : (j < length lvs)%nat.

Definition after_list (k' : nat) : list nat :=
  (if (a =? k')%nat then L else []) ++ others cls lvs j k' ++ (if (b =? k')%nat then Rr else []).
Definition before_list (k' : nat) : list nat :=
  (if (k =? k')%nat then L ++ Rr else []) ++ others cls lvs j k'.

Lemma members_after k' :
  Permutation (members (ks_cl (apply_split Rops st c)) (ks_leaves (apply_split Rops st c)) k') (after_list k').
Proof.
  unfold apply_split; simpl. fold j a b L Rr cls lvs.
  rewrite members_app_single by (rewrite !set_nth_length; exact Hlen).
  unfold after_list. rewrite app_assoc. apply Permutation_app_tail.
  pose proof (members_set_perm (set_nth j a cls) lvs j L k' Hj ltac:(rewrite set_nth_length; exact Hlen)) as H.
  rewrite nth_set_nth in H by lia. unfold others in *. rewrite members_setcl_empty in H. exact H.
Qed.

Lemma members_before k' : Permutation (members cls lvs k') (before_list k').
Proof.
  pose proof (members_set_perm cls lvs j (nth j lvs []) k' Hj Hlen) as H.
  rewrite set_nth_nth in H. fold k in H. unfold before_list.
  eapply Permutation_trans; [exact H|]. apply Permutation_app_tail.
  destruct (k =? k')%nat; [|constructor].
  apply Permutation_sym. unfold L, Rr, left_part, right_part. fold lvs. apply filter_partition_perm.
Qed.

Lemma gain_decomp :
  gain Rops st c = rsuml (map (fun k' => rterm kap (after_list k') - rterm kap (before_list k')) (seq 0 (ks_kmax st))).
Proof.
  unfold gain, objective, obj_upto; rops.
  change (ks_kernel (apply_split Rops st c)) with kap. change (ks_kmax (apply_split Rops st c)) with (ks_kmax st).
  fold kap cls lvs. change (lsum Rops) with rsuml. rewrite rsuml_map_minus.
  apply rsuml_map_ext. intros k' _.
  rewrite (rterm_perm kap _ _ (members_after k')), (rterm_perm kap _ _ (members_before k')). reflexivity.
Qed.

Lemma unaffected k' : k' <> a -> k' <> b -> k' <> k -> rterm kap (after_list k') - rterm kap (before_list k') = 0.
Proof.
  intros Ha Hb Hk. unfold after_list, before_list.
  destruct (Nat.eqb_spec a k'); [congruence|]. destruct (Nat.eqb_spec b k'); [congruence|].
  destruct (Nat.eqb_spec k k'); [congruence|]. simpl. rewrite app_nil_r. lra.
Qed.

(* ---- the six families, under the structural facts every reachable state satisfies ---- *)
Hypothesis Hsym : symmetric kap.
Hypothesis Hcl : Forall (fun x => (x < ks_nc st)%nat) cls.       (* cluster ids in use are < n_clusters *)
Let nc := ks_nc st.
Let K := ks_kmax st.
Let O := others cls lvs j k.

Lemma k_lt_nc : (k < nc)%nat.
Proof.
  unfold k. rewrite Forall_forall in Hcl. apply Hcl. apply nth_In. fold cls in Hlen. rewrite Hlen. exact Hj.
Qed.
Lemma others_fresh k' : (nc <= k')%nat -> others cls lvs j k' = [].
Proof.
  intros H. apply members_none. rewrite Forall_forall in *. intros x Hx. specialize (Hcl x Hx). unfold nc in *. lia.
Qed.

Ltac eval_lists :=
  unfold after_list, before_list;
  repeat match goal with
  | |- context [(?x =? ?y)%nat] => destruct (Nat.eqb_spec x y); try lia; try congruence
  end; simpl app; rewrite ?app_nil_r.

Ltac two_points p q :=
  rewrite gain_decomp; fold K;
  rewrite (rsuml_seq_peel _ K p) by lia; rewrite (rsuml_seq_peel _ K q) by lia;
  rewrite rsuml_seq_zero by
    (intros k' Hk'; destruct (Nat.eqb_spec k' q); [reflexivity|]; destruct (Nat.eqb_spec k' p); [reflexivity|];
     apply unaffected; congruence).
Ltac three_points p q r :=
  rewrite gain_decomp; fold K;
  rewrite (rsuml_seq_peel _ K p) by lia; rewrite (rsuml_seq_peel _ K q) by lia; rewrite (rsuml_seq_peel _ K r) by lia;
  rewrite rsuml_seq_zero by
    (intros k' Hk'; destruct (Nat.eqb_spec k' r); [reflexivity|]; destruct (Nat.eqb_spec k' q); [reflexivity|];
     destruct (Nat.eqb_spec k' p); [reflexivity|]; apply unaffected; congruence).

Lemma left_star_gain_full P f : a = nc -> b = k -> (nc < K)%nat -> L <> [] -> Rr <> [] ->
  left_star (stocks_of kap L Rr O P f) = gain Rops st c.
Proof.
  intros Ha Hb HK HL HR. pose proof k_lt_nc as Hk.
  rewrite (left_star_is_gain kap Hsym L Rr O P f HL (app_ne_l _ _ HR)).
  two_points nc k.
  destruct (Nat.eqb_spec k nc); [lia|].
  eval_lists. rewrite (others_fresh nc) by lia. fold O. simpl app. rewrite rterm_nil.
  rewrite (rterm_perm kap (O ++ Rr) (Rr ++ O)) by apply Permutation_app_comm.
  rewrite <- app_assoc, ?app_nil_r. lra.
Qed.

Lemma right_star_gain_full P f : a = k -> b = nc -> (nc < K)%nat -> L <> [] -> Rr <> [] ->
  right_star (stocks_of kap L Rr O P f) = gain Rops st c.
Proof.
  intros Ha Hb HK HL HR. pose proof k_lt_nc as Hk.
  rewrite (right_star_is_gain kap Hsym L Rr O P f HR (app_ne_l _ _ HL)).
  two_points nc k.
  destruct (Nat.eqb_spec k nc); [lia|].
  eval_lists. rewrite (others_fresh nc) by lia. fold O. simpl app. rewrite rterm_nil.
  rewrite <- app_assoc, ?app_nil_r. lra.
Qed.

(* P = the members of the other cluster k1 (leaf j is not one of its leaves) *)
Lemma others_other k1 : k1 <> k -> others cls lvs j k1 = members cls lvs k1.
Proof.
  intros H. unfold others. apply members_other_leaf; [fold k; congruence | fold cls in Hlen; rewrite Hlen; exact Hj].
Qed.

Lemma left_switch_gain_full k1 f : a = k1 -> b = k -> (k1 < nc)%nat -> k1 <> k -> (nc <= K)%nat ->
  L <> [] -> Rr <> [] -> members cls lvs k1 <> [] ->
  left_switch (stocks_of kap L Rr O (members cls lvs k1) f) = gain Rops st c.
Proof.
  intros Ha Hb H1 Hne HK HL HR HP. pose proof k_lt_nc as Hk.
  rewrite (left_switch_is_gain kap Hsym L Rr O _ f HL (app_ne_l _ _ HR) HP).
  two_points k1 k.
  destruct (Nat.eqb_spec k k1); [congruence|].
  eval_lists. rewrite (others_other k1) by congruence. fold O.
  rewrite (rterm_perm kap (O ++ Rr) (Rr ++ O)) by apply Permutation_app_comm.
  rewrite (rterm_perm kap (L ++ members cls lvs k1) (members cls lvs k1 ++ L)) by apply Permutation_app_comm.
  rewrite <- app_assoc, ?app_nil_r. lra.
Qed.

Lemma right_switch_gain_full k1 f : a = k -> b = k1 -> (k1 < nc)%nat -> k1 <> k -> (nc <= K)%nat ->
  L <> [] -> Rr <> [] -> members cls lvs k1 <> [] ->
  right_switch (stocks_of kap L Rr O (members cls lvs k1) f) = gain Rops st c.
Proof.
  intros Ha Hb H1 Hne HK HL HR HP. pose proof k_lt_nc as Hk.
  rewrite (right_switch_is_gain kap Hsym L Rr O _ f HR (app_ne_l _ _ HL) HP).
  two_points k1 k.
  destruct (Nat.eqb_spec k k1); [congruence|].
  eval_lists. rewrite (others_other k1) by congruence. fold O.
  rewrite <- app_assoc, ?app_nil_r. lra.
Qed.

Lemma realloc_gain_full k1 k2 f : a = k1 -> b = k2 -> (k1 < nc)%nat -> (k2 < nc)%nat -> k1 <> k -> k2 <> k -> k1 <> k2 ->
  (nc <= K)%nat -> L <> [] -> Rr <> [] -> O <> [] -> members cls lvs k1 <> [] -> members cls lvs k2 <> [] ->
  left_switch (stocks_of kap L Rr O (members cls lvs k1) f) + right_switch (stocks_of kap L Rr O (members cls lvs k2) f)
  + corrective_term (stocks_of kap L Rr O (members cls lvs k1) f) = gain Rops st c.
Proof.
  intros Ha Hb H1 H2 Hn1 Hn2 H12 HK HL HR HO HP HQ. pose proof k_lt_nc as Hk.
  rewrite (realloc_is_gain kap Hsym L Rr O _ _ f HL HR HO HP HQ).
  three_points k1 k2 k.
  destruct (Nat.eqb_spec k2 k1); [congruence|]. destruct (Nat.eqb_spec k k2); [congruence|].
  destruct (Nat.eqb_spec k k1); [congruence|].
  eval_lists. rewrite (others_other k1), (others_other k2) by congruence. fold O.
  rewrite (rterm_perm kap (L ++ members cls lvs k1) (members cls lvs k1 ++ L)) by apply Permutation_app_comm.
  rewrite <- app_assoc, ?app_nil_r. lra.
Qed.

Lemma double_star_corrected_gain_full om : a = nc -> b = S nc -> (S nc < K)%nat -> L <> [] -> Rr <> [] -> O <> [] ->
  double_star_f Rops true (sig kap L L) (sig kap Rr Rr) (sig kap (L ++ Rr) (L ++ Rr))
                (sig kap (L ++ Rr ++ O) (L ++ Rr ++ O)) (sig kap (L ++ Rr ++ O) L) (sig kap (L ++ Rr ++ O) Rr) om
                (length (L ++ Rr ++ O)) (length (L ++ Rr)) (length L) = gain Rops st c.
Proof.
  intros Ha Hb HK HL HR HO. pose proof k_lt_nc as Hk.
  rewrite (double_star_corrected_is_gain kap Hsym L Rr O om HL HR HO).
  three_points nc (S nc) k.
  destruct (Nat.eqb_spec (S nc) nc); [lia|]. destruct (Nat.eqb_spec k (S nc)); [lia|].
  destruct (Nat.eqb_spec k nc); [lia|].
  eval_lists. rewrite (others_fresh nc), (others_fresh (S nc)) by lia. fold O. simpl app. rewrite rterm_nil.
  rewrite <- app_assoc, ?app_nil_r. lra.
Qed.
End GainDecomposition.

(* ------------------------------------------------------------------ readable wrappers for Props/C08.v *)
(* what a candidate does to a state: Lp / Rp = left / right part of its leaf, Op = the other samples of the
   leaf's cluster, leaf_cluster = k *)
Definition Lp (st : @kstate R) (c : @cand R) : list nat := left_part Rops st (c_leaf c) (c_feat c) (c_thr c).
Definition Rp (st : @kstate R) (c : @cand R) : list nat := right_part Rops st (c_leaf c) (c_feat c) (c_thr c).
Definition leaf_cluster (st : @kstate R) (c : @cand R) : nat := nth (c_leaf c) (ks_cl st) 0%nat.
Definition Op (st : @kstate R) (c : @cand R) : list nat := others (ks_cl st) (ks_leaves st) (c_leaf c) (leaf_cluster st c).
Definition Cl (st : @kstate R) (k' : nat) : list nat := members (ks_cl st) (ks_leaves st) k'.
Definition cand_stocks (st : @kstate R) (c : @cand R) (P : list nat) (f : nat) : stocks :=
  stocks_of (ks_kernel st) (Lp st c) (Rp st c) (Op st c) P f.
(* structural facts of every state find_best_split is called on: symmetric kernel, Y and Z describe the same
   leaves, the leaf exists, cluster ids in use are below n_clusters *)
Definition wf_state (st : @kstate R) (c : @cand R) : Prop :=
  symmetric (ks_kernel st) /\ length (ks_cl st) = length (ks_leaves st) /\
  (c_leaf c < length (ks_leaves st))%nat /\ Forall (fun x => (x < ks_nc st)%nat) (ks_cl st).

Lemma left_star_gain st c P f : wf_state st c ->
  c_left c = ks_nc st -> c_right c = leaf_cluster st c -> (ks_nc st < ks_kmax st)%nat -> Lp st c <> [] -> Rp st c <> [] ->
  left_star (cand_stocks st c P f) = gain Rops st c.
Proof. intros (H1 & H2 & H3 & H4). now apply left_star_gain_full. Qed.
Lemma right_star_gain st c P f : wf_state st c ->
  c_left c = leaf_cluster st c -> c_right c = ks_nc st -> (ks_nc st < ks_kmax st)%nat -> Lp st c <> [] -> Rp st c <> [] ->
  right_star (cand_stocks st c P f) = gain Rops st c.
Proof. intros (H1 & H2 & H3 & H4). now apply right_star_gain_full. Qed.
Lemma left_switch_gain st c f : wf_state st c ->
  (c_left c < ks_nc st)%nat -> c_left c <> leaf_cluster st c -> c_right c = leaf_cluster st c -> (ks_nc st <= ks_kmax st)%nat ->
  Lp st c <> [] -> Rp st c <> [] -> Cl st (c_left c) <> [] ->
  left_switch (cand_stocks st c (Cl st (c_left c)) f) = gain Rops st c.
Proof. intros (H1 & H2 & H3 & H4) **. now apply left_switch_gain_full. Qed.
Lemma right_switch_gain st c f : wf_state st c ->
  (c_right c < ks_nc st)%nat -> c_right c <> leaf_cluster st c -> c_left c = leaf_cluster st c -> (ks_nc st <= ks_kmax st)%nat ->
  Lp st c <> [] -> Rp st c <> [] -> Cl st (c_right c) <> [] ->
  right_switch (cand_stocks st c (Cl st (c_right c)) f) = gain Rops st c.
Proof. intros (H1 & H2 & H3 & H4) **. now apply right_switch_gain_full. Qed.
Lemma realloc_gain st c f : wf_state st c ->
  (c_left c < ks_nc st)%nat -> (c_right c < ks_nc st)%nat -> c_left c <> leaf_cluster st c -> c_right c <> leaf_cluster st c ->
  c_left c <> c_right c -> (ks_nc st <= ks_kmax st)%nat ->
  Lp st c <> [] -> Rp st c <> [] -> Op st c <> [] -> Cl st (c_left c) <> [] -> Cl st (c_right c) <> [] ->
  left_switch (cand_stocks st c (Cl st (c_left c)) f) + right_switch (cand_stocks st c (Cl st (c_right c)) f)
  + corrective_term (cand_stocks st c (Cl st (c_left c)) f) = gain Rops st c.
Proof. intros (H1 & H2 & H3 & H4) **. now apply realloc_gain_full. Qed.
Lemma double_star_corrected_gain st c om : wf_state st c ->
  c_left c = ks_nc st -> c_right c = S (ks_nc st) -> (S (ks_nc st) < ks_kmax st)%nat ->
  Lp st c <> [] -> Rp st c <> [] -> Op st c <> [] ->
  let Ck := Lp st c ++ Rp st c ++ Op st c in let Nl := Lp st c ++ Rp st c in
  double_star_f Rops true (sig (ks_kernel st) (Lp st c) (Lp st c)) (sig (ks_kernel st) (Rp st c) (Rp st c))
                (sig (ks_kernel st) Nl Nl) (sig (ks_kernel st) Ck Ck) (sig (ks_kernel st) Ck (Lp st c))
                (sig (ks_kernel st) Ck (Rp st c)) om (length Ck) (length Nl) (length (Lp st c)) = gain Rops st c.
Proof. intros (H1 & H2 & H3 & H4) **. now apply double_star_corrected_gain_full. Qed.

(* ------------------------------------------------------------------ every admissible candidate falls in one of the six families *)
Definition state_ok (st : @kstate R) : Prop :=
  symmetric (ks_kernel st) /\ length (ks_cl st) = length (ks_leaves st) /\
  Forall (fun x => (x < ks_nc st)%nat) (ks_cl st) /\ Forall (fun j => (j < length (ks_leaves st))%nat) (ks_explore st) /\
  (ks_nc st <= ks_kmax st)%nat /\ (forall k', (k' < ks_nc st)%nat -> Cl st k' <> []).

Lemma csize_split (st : @kstate R) j : length (ks_cl st) = length (ks_leaves st) -> (j < length (ks_leaves st))%nat ->
  csize st (nth j (ks_cl st) 0%nat) =
  (length (nth j (ks_leaves st) []) + length (others (ks_cl st) (ks_leaves st) j (nth j (ks_cl st) 0%nat)))%nat.
Proof.
  intros Hlen Hj. unfold csize.
  pose proof (members_set_perm (ks_cl st) (ks_leaves st) j (nth j (ks_leaves st) []) (nth j (ks_cl st) 0%nat) Hj Hlen) as H.
  rewrite set_nth_nth, Nat.eqb_refl in H. rewrite (Permutation_length H), app_length. reflexivity.
Qed.

Definition family_formula (st : @kstate R) (c : @cand R) : Prop :=
  let k := leaf_cluster st c in let nc := ks_nc st in
  (c_left c = nc /\ c_right c = k /\ forall P f, gain Rops st c = left_star (cand_stocks st c P f)) \/
  (c_left c = k /\ c_right c = nc /\ forall P f, gain Rops st c = right_star (cand_stocks st c P f)) \/
  (c_left c = nc /\ c_right c = S nc /\ forall om,
     gain Rops st c =
     double_star_f Rops true (sig (ks_kernel st) (Lp st c) (Lp st c)) (sig (ks_kernel st) (Rp st c) (Rp st c))
       (sig (ks_kernel st) (Lp st c ++ Rp st c) (Lp st c ++ Rp st c))
       (sig (ks_kernel st) (Lp st c ++ Rp st c ++ Op st c) (Lp st c ++ Rp st c ++ Op st c))
       (sig (ks_kernel st) (Lp st c ++ Rp st c ++ Op st c) (Lp st c))
       (sig (ks_kernel st) (Lp st c ++ Rp st c ++ Op st c) (Rp st c)) om
       (length (Lp st c ++ Rp st c ++ Op st c)) (length (Lp st c ++ Rp st c)) (length (Lp st c))) \/
  ((c_left c < nc)%nat /\ c_left c <> k /\ c_right c = k /\
     forall f, gain Rops st c = left_switch (cand_stocks st c (Cl st (c_left c)) f)) \/
  ((c_right c < nc)%nat /\ c_right c <> k /\ c_left c = k /\
     forall f, gain Rops st c = right_switch (cand_stocks st c (Cl st (c_right c)) f)) \/
  ((c_left c < nc)%nat /\ (c_right c < nc)%nat /\ c_left c <> k /\ c_right c <> k /\ c_left c <> c_right c /\
     forall f, gain Rops st c =
       left_switch (cand_stocks st c (Cl st (c_left c)) f) + right_switch (cand_stocks st c (Cl st (c_right c)) f)
       + corrective_term (cand_stocks st c (Cl st (c_left c)) f)).

Lemma candidates_covered : forall st c, state_ok st -> In c (candidates Rops st) -> family_formula st c.
Proof.
  intros st c (Hsym & Hlen & Hcl & Hex & Hnk & Hne) Hin.
  unfold candidates in Hin.
  apply in_flat_map in Hin; destruct Hin as (j & Hj & Hin).
  apply in_flat_map in Hin; destruct Hin as (f & Hf & Hin).
  apply in_flat_map in Hin; destruct Hin as (i & Hi & Hin).
  destruct (split_ok Rops st j f (ks_X st i f)) eqn:Hok; [|contradiction].
  apply in_map_iff in Hin; destruct Hin as ([a b] & Hc & Hab). cbn [fst snd] in Hc.
  rewrite Forall_forall in Hex. specialize (Hex j Hj).
  set (t := ks_X st i f) in *. subst c.
  set (c := {| c_leaf := j; c_feat := f; c_thr := t; c_left := a; c_right := b |}).
  assert (Hwf : wf_state st c) by (repeat split; assumption).
  unfold split_ok in Hok. apply andb_prop in Hok; destruct Hok as [HokL HokR].
  apply Nat.leb_le in HokL, HokR.
  assert (HL : Lp st c <> []).
  { unfold Lp, c; cbn [c_leaf c_feat c_thr]. intros E. rewrite E in HokL. cbn [length] in HokL. lia. }
  assert (HR : Rp st c <> []).
  { unfold Rp, c; cbn [c_leaf c_feat c_thr]. intros E. rewrite E in HokR. cbn [length] in HokR. lia. }
  assert (HO : negb (length (nth j (ks_leaves st) []) =? csize st (nth j (ks_cl st) 0%nat))%nat = true -> Op st c <> []).
  { intros Hflag. unfold Op, leaf_cluster, c; cbn [c_leaf].
    rewrite (csize_split st j Hlen Hex) in Hflag. intros E. rewrite E in Hflag. cbn [length] in Hflag.
    rewrite Nat.add_0_r, Nat.eqb_refl in Hflag. discriminate. }
  unfold family_formula.
  change (leaf_cluster st c) with (nth j (ks_cl st) 0%nat) in *.
  change (c_left c) with a in *. change (c_right c) with b in *.
  unfold target_pairs in Hab.
  apply in_app_or in Hab; destruct Hab as [Hab|Hab].
  { (* star *)
    destruct (Nat.ltb_spec (ks_nc st) (ks_kmax st)) as [Hlt|]; [|contradiction].
    destruct Hab as [E|[E|[]]]; inversion E; subst a b.
    - left. repeat split; auto. intros P f0. symmetry. apply left_star_gain; auto.
    - right; left. repeat split; auto. intros P f0. symmetry. apply right_star_gain; auto. }
  apply in_app_or in Hab; destruct Hab as [Hab|Hab].
  { (* double star *)
    destruct ((S (ks_nc st) <? ks_kmax st)%nat && _)%bool eqn:Hg in Hab; [|contradiction].
    apply andb_prop in Hg; destruct Hg as [Hg1 Hg2]. apply Nat.ltb_lt in Hg1.
    destruct Hab as [E|[]]; inversion E; subst a b.
    right; right; left. repeat split; auto. intros om. symmetry.
    apply (double_star_corrected_gain st c om Hwf); auto. }
  apply in_app_or in Hab; destruct Hab as [Hab|Hab].
  { (* switch *)
    destruct (2 <=? ks_nc st)%nat; [|contradiction].
    apply in_flat_map in Hab; destruct Hab as (k' & Hk' & Hab). apply in_seq in Hk'.
    destruct (Nat.eqb_spec k' (nth j (ks_cl st) 0%nat)) as [|Hne']; [contradiction|].
    destruct Hab as [E|[E|[]]]; inversion E; subst a b.
    - right; right; right; left. repeat split; auto; try lia. intros f0. symmetry.
      apply left_switch_gain; unfold leaf_cluster; subst c; cbn [c_left c_right c_leaf]; auto; try lia. apply Hne; lia.
    - right; right; right; right; left. repeat split; auto; try lia. intros f0. symmetry.
      apply right_switch_gain; unfold leaf_cluster; subst c; cbn [c_left c_right c_leaf]; auto; try lia. apply Hne; lia. }
  { (* reallocation *)
    destruct ((3 <=? ks_nc st)%nat && _)%bool eqn:Hg in Hab; [|contradiction].
    apply andb_prop in Hg; destruct Hg as [_ Hg2].
    apply in_flat_map in Hab; destruct Hab as (a' & Ha' & Hab). apply in_seq in Ha'.
    apply in_flat_map in Hab; destruct Hab as (b' & Hb' & Hab). apply in_seq in Hb'.
    destruct (Nat.eqb_spec a' (nth j (ks_cl st) 0%nat)); [contradiction|].
    destruct (Nat.eqb_spec b' (nth j (ks_cl st) 0%nat)); [contradiction|].
    destruct (Nat.eqb_spec a' b'); [contradiction|]. cbn [orb] in Hab.
    destruct Hab as [E|[]]; inversion E; subst a b.
    right; right; right; right; right. repeat split; auto; try lia. intros f0. symmetry.
    apply realloc_gain; unfold leaf_cluster; subst c; cbn [c_left c_right c_leaf]; auto; try lia; apply Hne; lia. }
Qed.

(* ------------------------------------------------------------------ the incremental stocks of the scan are the direct stocks *)
Definition dir_stocks (omega : nat -> nat -> R) (nc : nat) (S : list nat) : list R :=
  map (fun a => rsuml (map (fun i => omega a i) S)) (seq 0 nc).

(* the same loop, but every visit receives the stocks computed directly from the index sets *)
Fixpoint scan_direct {B : Type} (kap omega : nat -> nat -> R) (nc : nat)
         (visit : B -> list nat -> nat -> list nat -> R -> R -> list R -> list R -> B)
         (pre rest : list nat) (acc : B) : B :=
  match rest with
  | x :: ((_ :: _) as rest') =>
      let Sl := pre ++ [x] in
      let acc := visit acc pre x rest' (sig kap Sl Sl) (sig kap rest' rest') (dir_stocks omega nc Sl) (dir_stocks omega nc rest') in
      scan_direct kap omega nc visit Sl rest' acc
  | _ => acc
  end.

Lemma sig_single_l kap x b : sig kap [x] b = rsuml (map (fun z => kap x z) b).
Proof. rewrite sig_unfold. simpl map. rewrite rsuml_cons, rsuml_nil. lra. Qed.

Lemma vadd_maps {A} (f g : A -> R) l : vadd Rops (map f l) (map g l) = map (fun a => f a + g a) l.
Proof. unfold vadd. induction l as [|x l IH]; simpl; [reflexivity|]. f_equal. exact IH. Qed.
Lemma vsub_maps {A} (f g : A -> R) l : vsub Rops (map f l) (map g l) = map (fun a => f a - g a) l.
Proof. unfold vsub. induction l as [|x l IH]; simpl; [reflexivity|]. f_equal. exact IH. Qed.

Lemma incremental_stocks_correct {B : Type} kap omega nc
      (visit : B -> list nat -> nat -> list nat -> R -> R -> list R -> list R -> B) :
  symmetric kap -> forall rest pre acc,
  scan_gen Rops kap omega nc visit pre rest (sig kap pre pre) (sig kap rest rest)
           (dir_stocks omega nc pre) (dir_stocks omega nc rest) acc
  = scan_direct kap omega nc visit pre rest acc.
Proof.
  intros Hsym. induction rest as [|x rest' IH]; intros pre acc; [reflexivity|].
  destruct rest' as [|y r]; [reflexivity|].
  cbn [scan_gen scan_direct]. unfold n2; rops. change (lsum Rops) with rsuml.
  assert (E1 : sig kap pre pre + ((1 + 1) * rsuml (map (fun z => kap x z) pre) + kap x x) = sig kap (pre ++ [x]) (pre ++ [x])).
  { rewrite sig_app_l, !sig_app_r, (sig_sym kap pre [x] Hsym), !sig_single_l.
    change (rsuml (map (fun z => kap x z) [x])) with (kap x x + 0). lra. }
  assert (E2 : sig kap (x :: y :: r) (x :: y :: r) - ((1 + 1) * rsuml (map (fun z => kap x z) (y :: r)) + kap x x) = sig kap (y :: r) (y :: r)).
  { change (x :: y :: r) with ([x] ++ (y :: r)).
    rewrite sig_app_l, !sig_app_r, (sig_sym kap (y :: r) [x] Hsym), !sig_single_l.
    change (rsuml (map (fun z => kap x z) [x])) with (kap x x + 0). lra. }
  assert (E3 : vadd Rops (dir_stocks omega nc pre) (map (fun a => omega a x) (seq 0 nc)) = dir_stocks omega nc (pre ++ [x])).
  { unfold dir_stocks. rewrite vadd_maps. apply map_ext. intros a. rewrite map_app, rsuml_app. simpl map. rewrite rsuml_cons, rsuml_nil. lra. }
  assert (E4 : vsub Rops (dir_stocks omega nc (x :: y :: r)) (map (fun a => omega a x) (seq 0 nc)) = dir_stocks omega nc (y :: r)).
  { unfold dir_stocks. rewrite vsub_maps. apply map_ext. intros a. simpl map. rewrite !rsuml_cons. lra. }
  rewrite E1, E2, E3, E4. apply IH.
Qed.

(* the initial values of the loop in find_best: leaf_square = sigma(N, N) for the sorted leaf nu as well *)
Lemma insert_by_perm key x l : Permutation (insert_by Rops key x l) (x :: l).
Proof.
  induction l as [|y l IH]; simpl; [apply Permutation_refl|].
  rops. destruct (Rleb (key x) (key y)); [apply Permutation_refl|].
  eapply Permutation_trans; [apply perm_skip, IH | apply perm_swap].
Qed.
Lemma sort_by_perm key l : Permutation (sort_by Rops key l) l.
Proof.
  unfold sort_by. induction l as [|x l IH]; simpl; [constructor|].
  eapply Permutation_trans; [apply insert_by_perm | now constructor].
Qed.
Lemma leaf_square_is_stock (st : @kstate R) j key : symmetric (ks_kernel st) ->
  let leaf := nth j (ks_leaves st) [] in
  rsuml (map (fun i => Lambda_of Rops st j i) leaf) = sig (ks_kernel st) (sort_by Rops key leaf) (sort_by Rops key leaf).
Proof.
  intros Hsym leaf.
  rewrite (sig_perm_l _ _ _ _ (sort_by_perm key leaf)), (sig_perm_r _ _ _ _ (sort_by_perm key leaf)).
  unfold Lambda_of. fold leaf. change (lsum Rops) with rsuml. rewrite sig_unfold.
  apply rsuml_map_ext. intros i _. apply rsuml_map_ext. intros i' _. apply Hsym.
Qed.

(* ------------------------------------------------------------------ a concrete state meeting every hypothesis *)
Definition ex_state : @kstate R :=
  {| ks_kernel := kid; ks_X := fun i _ => INR i; ks_leaves := [[0; 1]; [2]]%nat; ks_cl := [0; 0]%nat; ks_nc := 1;
     ks_kmax := 3; ks_minleaf := 1; ks_explore := [0%nat]; ks_feats := [0%nat] |}.
Definition ex_cand : @cand R := {| c_leaf := 0; c_feat := 0; c_thr := 0; c_left := 1; c_right := 2 |}.

Lemma ex_state_ok :
  state_ok ex_state /\ wf_state ex_state ex_cand /\
  Lp ex_state ex_cand = [0%nat] /\ Rp ex_state ex_cand = [1%nat] /\ Op ex_state ex_cand = [2%nat] /\
  c_left ex_cand = ks_nc ex_state /\ c_right ex_cand = S (ks_nc ex_state) /\ (S (ks_nc ex_state) < ks_kmax ex_state)%nat /\
  In ex_cand (candidates Rops ex_state).
Proof.
  assert (HL : Lp ex_state ex_cand = [0%nat]).
  { unfold Lp, left_part; simpl; rops; unfold Rleb.
    destruct (Rle_dec 0 0); [|lra]. destruct (Rle_dec 1 0); [lra|]. reflexivity. }
  assert (HR : Rp ex_state ex_cand = [1%nat]).
  { unfold Rp, right_part; simpl; rops; unfold Rleb.
    destruct (Rle_dec 0 0); [|lra]. destruct (Rle_dec 1 0); [lra|]. reflexivity. }
  repeat split; try exact HL; try exact HR; try reflexivity; simpl; try lia.
  - exact kid_sym.
  - repeat constructor.
  - repeat constructor.
  - intros k' Hk'. assert (k' = 0%nat) by lia. subst. discriminate.
  - exact kid_sym.
  - repeat constructor.
  - (* the double-star candidate is enumerated *)
    unfold candidates; simpl. rewrite !app_nil_r.
    assert (Hok : split_ok Rops ex_state 0 0 0 = true).
    { unfold split_ok.
      change (left_part Rops ex_state 0 0 0) with (Lp ex_state ex_cand).
      change (right_part Rops ex_state 0 0 0) with (Rp ex_state ex_cand). rewrite HL, HR. reflexivity. }
    rewrite Hok. apply in_or_app. left. right; right; left. reflexivity.
Qed.

(* ------------------------------------------------------------------ one split position: the repaired compute_all_splits keeps the maximum *)
Section Position.
Variables (sl sr lf : R) (slc src : nat -> R) (cs : nat -> nat) (gamma omega : nat -> nat -> R).
Variables (n_leaf nc kmax k leaf_id split_size feat : nat) (thr : R).

Definition valued : Type := (R * (nat * nat))%type.
Let es := entries_of sl sr slc src cs gamma n_leaf k split_size (seq 0 nc).
Let corr := corrective_f Rops sl sr lf (gamma k k) (slc k) (src k) (cs k) n_leaf split_size.

(* every (value, targets) the repaired text evaluates at this position *)
Definition vals_dstar : list valued :=
  if g_double_star nc kmax n_leaf (cs k)
  then [(double_star_f Rops true sl sr lf (gamma k k) (slc k) (src k) (omega k feat) (cs k) n_leaf split_size, (nc, S nc))] else [].
Definition vals_star : list valued :=
  if g_star nc kmax
  then [(star_f Rops sl (gamma k k) (slc k) (cs k) split_size, (nc, k));
        (star_f Rops sr (gamma k k) (src k) (cs k) (n_leaf - split_size), (k, nc))] else [].
Definition vals_switch_of (l : list entry) : list valued :=
  flat_map (fun e => [(e_gl e, (e_id e, k)); (e_gr e, (k, e_id e))]) l.
Definition vals_switch : list valued := if g_switch nc then vals_switch_of es else [].
Definition vals_realloc : list valued :=
  if (g_switch nc && g_realloc nc n_leaf (cs k))%bool
  then flat_map (fun e1 => flat_map (fun e2 => if (e_id e1 =? e_id e2)%nat then [] else [(e_gl e1 + e_gr e2 + corr, (e_id e1, e_id e2))]) es) es
  else [].
Definition pos_values : list valued := vals_dstar ++ vals_star ++ vals_switch ++ vals_realloc.

Definition mk (v : R) (t : nat * nat) : @split R := set_split v leaf_id feat thr (fst t) (snd t).
Definition covers (vals : list valued) (b0 b : @split R) : Prop :=
  sp_gain b0 <= sp_gain b /\ (forall v t, In (v, t) vals -> v <= sp_gain b) /\
  (b = b0 \/ exists v t, In (v, t) vals /\ b = mk v t).

Lemma covers_nil b : covers [] b b.
Proof. repeat split; [lra | intros ? ? [] | now left]. Qed.
Lemma covers_app v1 v2 b0 b1 b2 : covers v1 b0 b1 -> covers v2 b1 b2 -> covers (v1 ++ v2) b0 b2.
Proof.
  intros (A1 & A2 & A3) (B1 & B2 & B3). repeat split.
  - lra.
  - intros v t Hin. apply in_app_or in Hin. destruct Hin as [Hin|Hin]; [specialize (A2 _ _ Hin); lra | exact (B2 _ _ Hin)].
  - destruct B3 as [->|(v & t & Hin & ->)].
    + destruct A3 as [->|(v & t & Hin & ->)]; [now left | right; exists v, t; split; [apply in_or_app; now left | reflexivity]].
    + right; exists v, t; split; [apply in_or_app; now right | reflexivity].
Qed.

Lemma step_gt b v t : covers [(v, t)] b (if t_gt Rops v (sp_gain b) then mk v t else b).
Proof.
  unfold t_gt; rops; unfold Rltb. destruct (Rlt_dec (sp_gain b) v); repeat split; simpl; try lra.
  - intros v' t' [E|[]]. inversion E; subst. lra.
  - right. exists v, t. split; [now left | reflexivity].
  - intros v' t' [E|[]]. inversion E; subst. lra.
  - now left.
Qed.

(* the two-sided updates: "if l ? best or r ? best: if l > r: set l else: set r" with ? = > (star) or >= (switch) *)
Lemma step_pair (strict : bool) b l r tl tr :
  covers [(l, tl); (r, tr)] b
    (if ((if strict then t_gt Rops l (sp_gain b) else t_ge Rops l (sp_gain b)) ||
         (if strict then t_gt Rops r (sp_gain b) else t_ge Rops r (sp_gain b)))%bool
     then if t_gt Rops l r then mk l tl else mk r tr else b).
Proof.
  unfold t_gt, t_ge; rops; unfold Rltb, Rleb.
  destruct strict; repeat (match goal with |- context [Rlt_dec ?x ?y] => destruct (Rlt_dec x y) | |- context [Rle_dec ?x ?y] => destruct (Rle_dec x y) end);
    simpl; repeat split; simpl; try lra;
    try (intros v' t' [E|[E|[]]]; inversion E; subst; lra);
    try (now left);
    try (right; exists l, tl; split; [now left | reflexivity]);
    try (right; exists r, tr; split; [right; now left | reflexivity]).
Qed.

Lemma covers_dstar b :
  covers vals_dstar b
    (if g_double_star nc kmax n_leaf (cs k)
     then let g := double_star_f Rops true sl sr lf (gamma k k) (slc k) (src k) (omega k feat) (cs k) n_leaf split_size in
          if t_gt Rops g (sp_gain b) then set_split g leaf_id feat thr nc (S nc) else b
     else b).
Proof.
  unfold vals_dstar. destruct (g_double_star nc kmax n_leaf (cs k)); [|apply covers_nil].
  cbv zeta. apply (step_gt b _ (nc, S nc)).
Qed.

Lemma covers_star b :
  covers vals_star b
    (if g_star nc kmax
     then let left_star := star_f Rops sl (gamma k k) (slc k) (cs k) split_size in
          let right_star := star_f Rops sr (gamma k k) (src k) (cs k) (n_leaf - split_size) in
          if (t_gt Rops left_star (sp_gain b) || t_gt Rops right_star (sp_gain b))%bool
          then if t_gt Rops left_star right_star then set_split left_star leaf_id feat thr nc k
               else set_split right_star leaf_id feat thr k nc
          else b
     else b).
Proof.
  unfold vals_star. destruct (g_star nc kmax); [|apply covers_nil].
  cbv zeta. apply (step_pair true b _ _ (nc, k) (k, nc)).
Qed.

Definition ls_of (k' : nat) : R := left_switch_f Rops sl (gamma k k) (gamma k' k') (slc k) (slc k') (cs k) (cs k') split_size.
Definition rs_of (k' : nat) : R := left_switch_f Rops sr (gamma k k) (gamma k' k') (src k) (src k') (cs k) (cs k') (n_leaf - split_size).
Lemma switch_step_unfold fix8 b tl tr k' :
  switch_step Rops fix8 sl sr slc src cs gamma n_leaf k leaf_id split_size feat thr (b, tl, tr) k' =
  if (k =? k')%nat then (b, tl, tr) else
  (if (t_ge Rops (ls_of k') (sp_gain b) || t_ge Rops (rs_of k') (sp_gain b))%bool
   then if t_gt Rops (ls_of k') (rs_of k') then mk (ls_of k') (k', k) else mk (rs_of k') (k, k') else b,
   upd_track Rops tl (ls_of k') (ls_of k') k',
   upd_track Rops tr (rs_of k') (if fix8 then rs_of k' else ls_of k') k').
Proof. reflexivity. Qed.
Lemma entries_of_cons k' ks :
  entries_of sl sr slc src cs gamma n_leaf k split_size (k' :: ks) =
  (if (k =? k')%nat then [] else [(k', (ls_of k', rs_of k'))]) ++ entries_of sl sr slc src cs gamma n_leaf k split_size ks.
Proof. reflexivity. Qed.

Lemma covers_switch_fold ks : forall b tl tr,
  covers (vals_switch_of (entries_of sl sr slc src cs gamma n_leaf k split_size ks)) b
    (fst (fst (fold_left (switch_step Rops true sl sr slc src cs gamma n_leaf k leaf_id split_size feat thr) ks (b, tl, tr)))).
Proof.
  induction ks as [|k' ks IH]; intros b tl tr.
  - apply covers_nil.
  - cbn [fold_left]. rewrite switch_step_unfold, entries_of_cons. destruct (k =? k')%nat eqn:E.
    + apply IH.
    + unfold vals_switch_of in *. cbn [app flat_map]. 
      change ((e_gl (k', (ls_of k', rs_of k')), (e_id (k', (ls_of k', rs_of k')), k))
              :: (e_gr (k', (ls_of k', rs_of k')), (k, e_id (k', (ls_of k', rs_of k'))))
              :: flat_map (fun e => [(e_gl e, (e_id e, k)); (e_gr e, (k, e_id e))]) (entries_of sl sr slc src cs gamma n_leaf k split_size ks))
        with ([(ls_of k', (k', k)); (rs_of k', (k, k'))] ++
              flat_map (fun e => [(e_gl e, (e_id e, k)); (e_gr e, (k, e_id e))]) (entries_of sl sr slc src cs gamma n_leaf k split_size ks)).
      eapply covers_app; [|apply IH].
      apply (step_pair false b _ _ (k', k) (k, k')).
Qed.
Lemma entries_of_length ks :
  (length (entries_of sl sr slc src cs gamma n_leaf k split_size ks) + count_occ Nat.eq_dec ks k = length ks)%nat.
Proof.
  induction ks as [|k' ks IH]; [reflexivity|].
  rewrite entries_of_cons, app_length.
  destruct (Nat.eqb_spec k k') as [E|Hne].
  - rewrite (count_occ_cons_eq Nat.eq_dec ks (eq_sym E)). cbn [length]. unfold entry in *. lia.
  - rewrite (count_occ_cons_neq Nat.eq_dec ks (fun H => Hne (eq_sym H))). cbn [length]. unfold entry in *. lia.
Qed.

Lemma covers_realloc b :
  let tl := track_left es in let tr := track_right true es in
  covers vals_realloc b
    (if (g_switch nc && g_realloc nc n_leaf (cs k))%bool
     then match pair_select Rops tl tr with
          | (Some r, Some a, Some b') => if t_gt Rops (r + corr) (sp_gain b) then set_split (r + corr) leaf_id feat thr a b' else b
          | _ => b
          end
     else b).
Proof.
  intros tl tr. unfold vals_realloc.
  destruct (g_switch nc && g_realloc nc n_leaf (cs k))%bool eqn:G; [|apply covers_nil].
  assert (Hnd : NoDup (map e_id es)) by apply entries_of_ids.
  assert (Hlen : (2 <= length es)%nat).
  { apply andb_prop in G. destruct G as [_ G]. unfold g_realloc in G. apply andb_prop in G. destruct G as [G _].
    apply Nat.leb_le in G. pose proof (entries_of_length (seq 0 nc)) as H. rewrite seq_length in H. fold es in H.
    pose proof (proj1 (NoDup_count_occ Nat.eq_dec (seq 0 nc)) (seq_NoDup nc 0) k). lia. }
  destruct (top2_pair_optimal es Hnd Hlen) as (r & a & b' & Hsel & Hab & (ea & eb & Iea & Ieb & Ea & Eb & Er) & Hopt).
  fold tl tr in Hsel. rewrite Hsel.
  assert (Hin : In (r + corr, (a, b')) (flat_map (fun e1 => flat_map (fun e2 => if (e_id e1 =? e_id e2)%nat then [] else [(e_gl e1 + e_gr e2 + corr, (e_id e1, e_id e2))]) es) es)).
  { apply in_flat_map. exists ea. split; [exact Iea|]. apply in_flat_map. exists eb. split; [exact Ieb|].
    destruct (Nat.eqb_spec (e_id ea) (e_id eb)); [congruence|]. left. rewrite Ea, Eb, Er. reflexivity. }
  assert (Hall : forall v t, In (v, t) (flat_map (fun e1 => flat_map (fun e2 => if (e_id e1 =? e_id e2)%nat then [] else [(e_gl e1 + e_gr e2 + corr, (e_id e1, e_id e2))]) es) es) -> v <= r + corr).
  { intros v t Hv. apply in_flat_map in Hv. destruct Hv as (e1 & I1 & Hv). apply in_flat_map in Hv. destruct Hv as (e2 & I2 & Hv).
    destruct (Nat.eqb_spec (e_id e1) (e_id e2)); [contradiction|]. destruct Hv as [E|[]]. inversion E; subst.
    pose proof (Hopt e1 e2 I1 I2 n). lra. }
  unfold t_gt; rops; unfold Rltb. destruct (Rlt_dec (sp_gain b) (r + corr)); repeat split; simpl; try lra.
  - intros v t Hv. specialize (Hall v t Hv). lra.
  - right. exists (r + corr), (a, b'). split; [exact Hin | reflexivity].
  - intros v t Hv. specialize (Hall v t Hv). lra.
  - now left.
Qed.

(* the repaired compute_all_splits returns the running best updated with the maximum over every target pair
   evaluated at this position, and the split it returns carries exactly the value it was compared with *)
Lemma compute_all_splits_fixed_covers best :
  covers pos_values best
    (compute_all_splits Rops true true best sl sr lf slc src cs gamma omega n_leaf nc kmax k leaf_id split_size feat thr).
Proof.
  unfold compute_all_splits, pos_values.
  eapply covers_app; [apply covers_dstar|]. set (b1 := if g_double_star nc kmax n_leaf (cs k) then _ else best).
  eapply covers_app; [apply covers_star|]. set (b2 := if g_star nc kmax then _ else b1).
  unfold vals_switch, vals_realloc.
  destruct (g_switch nc) eqn:Gs.
  - pose proof (covers_switch_fold (seq 0 nc) b2 track0 track0) as Hsw.
    pose proof (switch_fold_tracks true sl sr slc src cs gamma n_leaf k leaf_id split_size feat thr (seq 0 nc) b2 track0 track0) as [Htl Htr].
    destruct (fold_left _ (seq 0 nc) (b2, track0, track0)) as [[b3 tl] tr]. simpl fst in *. simpl snd in *.
    eapply covers_app; [exact Hsw|].
    pose proof (covers_realloc b3) as Hre. unfold vals_realloc in Hre. rewrite Gs in Hre. cbn [andb] in *.
    subst tl tr. fold es. fold corr.
    destruct (g_realloc nc n_leaf (cs k)); exact Hre.
  - cbn [andb app]. apply covers_nil.
Qed.
End Position.


(* ================================================================== the repaired scan returns the arg-max *)
(* ------------------------------------------------------------------ the repaired scan returns the arg-max *)
(* --- sortedness of the argsort model --- *)
Fixpoint srt (key : nat -> R) (l : list nat) : Prop :=
  match l with [] => True | x :: r => (forall y, In y r -> key x <= key y) /\ srt key r end.

Lemma insert_by_in key x l y : In y (insert_by Rops key x l) <-> y = x \/ In y l.
Proof.
  split; intros H.
  - apply (Permutation_in _ (insert_by_perm key x l)) in H. destruct H; auto.
  - apply (Permutation_in _ (Permutation_sym (insert_by_perm key x l))). destruct H; [left; auto | now right].
Qed.

Lemma insert_by_srt key x l : srt key l -> srt key (insert_by Rops key x l).
Proof.
  induction l as [|y l IH]; intros Hs; simpl.
  - split; [intros ? [] | exact I].
  - rops. unfold Rleb. destruct Hs as [Hy Hl]. destruct (Rle_dec (key x) (key y)) as [Hle|Hgt].
    + split; [|split; assumption]. intros z [<-|Hz]; [exact Hle | specialize (Hy z Hz); lra].
    + split; [|now apply IH]. intros z Hz. apply insert_by_in in Hz. destruct Hz as [->|Hz]; [lra | now apply Hy].
Qed.

Lemma sort_by_srt key l : srt key (sort_by Rops key l).
Proof. unfold sort_by. induction l as [|x l IH]; simpl; [exact I | now apply insert_by_srt]. Qed.

Lemma srt_app key l1 l2 : srt key (l1 ++ l2) ->
  srt key l2 /\ forall a b, In a l1 -> In b l2 -> key a <= key b.
Proof.
  induction l1 as [|x l1 IH]; simpl; intros H.
  - split; [exact H | intros ? ? []].
  - destruct H as [Hx Hs]. destruct (IH Hs) as [H2 H12]. split; [exact H2|].
    intros a b [<-|Ha] Hb; [apply Hx, in_or_app; now right | now apply H12].
Qed.

Lemma filter_all {A} (p : A -> bool) l : (forall a, In a l -> p a = true) -> filter p l = l.
Proof. induction l as [|x l IH]; intros H; simpl; [reflexivity|]. rewrite (H x) by now left. f_equal. apply IH. intros; apply H; now right. Qed.
Lemma filter_none {A} (p : A -> bool) l : (forall a, In a l -> p a = false) -> filter p l = [].
Proof. induction l as [|x l IH]; intros H; simpl; [reflexivity|]. rewrite (H x) by now left. apply IH. intros; apply H; now right. Qed.
Lemma filter_perm {A} (p : A -> bool) l l' : Permutation l l' -> Permutation (filter p l) (filter p l').
Proof.
  induction 1; simpl.
  - constructor.
  - destruct (p x); [now constructor | assumption].
  - destruct (p x), (p y); try apply Permutation_refl. apply perm_swap.
  - eapply Permutation_trans; eassumption.
Qed.

(* at a boundary x | y of the sorted leaf with key x < key y, "key <= key x" cuts exactly there *)
Lemma boundary_filters key pre x rest :
  srt key (pre ++ x :: rest) -> (forall z, In z rest -> key x < key z) ->
  filter (fun i => Rleb (key i) (key x)) (pre ++ x :: rest) = pre ++ [x] /\
  filter (fun i => negb (Rleb (key i) (key x))) (pre ++ x :: rest) = rest.
Proof.
  intros Hs Hlt. destruct (srt_app key pre (x :: rest) Hs) as [_ Hpre].
  assert (Hle : forall a, In a (pre ++ [x]) -> Rleb (key a) (key x) = true).
  { intros a Ha. unfold Rleb. destruct (Rle_dec (key a) (key x)) as [|n]; [reflexivity|]. exfalso. apply n.
    apply in_app_or in Ha. destruct Ha as [Ha|[<-|[]]]; [apply Hpre; [exact Ha | now left] | lra]. }
  assert (Hgt : forall a, In a rest -> Rleb (key a) (key x) = false).
  { intros a Ha. unfold Rleb. destruct (Rle_dec (key a) (key x)) as [l|]; [|reflexivity]. specialize (Hlt a Ha). lra. }
  replace (pre ++ x :: rest) with ((pre ++ [x]) ++ rest) by (rewrite <- app_assoc; reflexivity).
  rewrite (filter_app (fun i => Rleb (key i) (key x)) (pre ++ [x]) rest), (filter_app (fun i => negb (Rleb (key i) (key x))) (pre ++ [x]) rest). split.
  - rewrite (filter_all _ _ Hle), (filter_none _ _ Hgt). now rewrite app_nil_r.
  - rewrite filter_none, filter_all; [reflexivity | |].
    + intros a Ha. now rewrite (Hgt a Ha).
    + intros a Ha. now rewrite (Hle a Ha).
Qed.

(* --- what membership in [candidates] means --- *)
Definition mkc (j f : nat) (t : R) (a b : nat) : @cand R :=
  {| c_leaf := j; c_feat := f; c_thr := t; c_left := a; c_right := b |}.

Lemma cand_elim (st : @kstate R) c : In c (candidates Rops st) ->
  In (c_leaf c) (ks_explore st) /\ In (c_feat c) (ks_feats st) /\
  (exists i, In i (nth (c_leaf c) (ks_leaves st) []) /\ c_thr c = ks_X st i (c_feat c)) /\
  split_ok Rops st (c_leaf c) (c_feat c) (c_thr c) = true /\
  In (c_left c, c_right c) (target_pairs st (c_leaf c)).
Proof.
  intros Hin. unfold candidates in Hin.
  apply in_flat_map in Hin; destruct Hin as (j & Hj & Hin).
  apply in_flat_map in Hin; destruct Hin as (f & Hf & Hin).
  apply in_flat_map in Hin; destruct Hin as (i & Hi & Hin).
  destruct (split_ok Rops st j f (ks_X st i f)) eqn:Hok; [|contradiction].
  apply in_map_iff in Hin; destruct Hin as ([a b] & Hc & Hab). subst c. cbn [c_leaf c_feat c_thr c_left c_right fst snd].
  repeat split; auto. exists i. split; auto.
Qed.

Lemma cand_intro (st : @kstate R) j f i a b :
  In j (ks_explore st) -> In f (ks_feats st) -> In i (nth j (ks_leaves st) []) ->
  split_ok Rops st j f (ks_X st i f) = true -> In (a, b) (target_pairs st j) ->
  In (mkc j f (ks_X st i f) a b) (candidates Rops st).
Proof.
  intros Hj Hf Hi Hok Hab. unfold candidates.
  apply in_flat_map. exists j. split; [exact Hj|].
  apply in_flat_map. exists f. split; [exact Hf|].
  apply in_flat_map. exists i. split; [exact Hi|].
  rewrite Hok. apply in_map_iff. exists (a, b). split; [reflexivity | exact Hab].
Qed.

Lemma cand_eta (c : @cand R) : c = mkc (c_leaf c) (c_feat c) (c_thr c) (c_left c) (c_right c).
Proof. destruct c; reflexivity. Qed.

(* --- the precomputed matrices of find_best_split are stocks --- *)
Lemma omega_sum (st : @kstate R) c S :
  rsuml (map (fun i => omega_of Rops st c i) S) = sig (ks_kernel st) (Cl st c) S.
Proof.
  unfold omega_of, Cl. change (lsum Rops) with rsuml. rewrite sig_unfold.
  apply (rsuml_map_swap (fun i i' => ks_kernel st i' i)).
Qed.
Lemma gamma_sig (st : @kstate R) c c' : gamma_of Rops st c c' = sig (ks_kernel st) (Cl st c) (Cl st c').
Proof. unfold gamma_of. change (lsum Rops) with rsuml. apply omega_sum. Qed.
Lemma nth_map_seq {A} (f : nat -> A) n d k' : (k' < n)%nat -> nth k' (map f (seq 0 n)) d = f k'.
Proof.
  intros H. rewrite (nth_indep _ d (f 0%nat)) by (rewrite map_length, seq_length; exact H).
  rewrite (map_nth f (seq 0 n) 0%nat k'), seq_nth by exact H. reflexivity.
Qed.
Lemma vget_dir omega nc S k' : (k' < nc)%nat ->
  vget Rops (dir_stocks omega nc S) k' = rsuml (map (fun i => omega k' i) S).
Proof.
  intros H. unfold vget, dir_stocks. now rewrite nth_map_seq.
Qed.

(* the model's formula functions on canonical stocks are the regenerated formulas on [stocks_of] *)
Lemma formulas_at_canon kap L Rr O P f0 :
  let Ck := L ++ Rr ++ O in let Nl := L ++ Rr in
  let s := stocks_of kap L Rr O P f0 in
  star_f Rops (sig kap L L) (sig kap Ck Ck) (sig kap Ck L) (length Ck) (length L) = left_star s /\
  star_f Rops (sig kap Rr Rr) (sig kap Ck Ck) (sig kap Ck Rr) (length Ck) (length Nl - length L) = right_star s /\
  left_switch_f Rops (sig kap L L) (sig kap Ck Ck) (sig kap P P) (sig kap Ck L) (sig kap P L) (length Ck) (length P) (length L) = left_switch s /\
  left_switch_f Rops (sig kap Rr Rr) (sig kap Ck Ck) (sig kap P P) (sig kap Ck Rr) (sig kap P Rr) (length Ck) (length P) (length Nl - length L) = right_switch s /\
  corrective_f Rops (sig kap L L) (sig kap Rr Rr) (sig kap Nl Nl) (sig kap Ck Ck) (sig kap Ck L) (sig kap Ck Rr) (length Ck) (length Nl) (length L) = corrective_term s.
Proof.
  intros Ck Nl s.
  destruct (asis_formulas_regenerated (sig kap L L) (sig kap Rr Rr) (sig kap Nl Nl) (sig kap Ck L) (sig kap Ck Rr)
              (sig kap P L) (sig kap P Rr) (sig kap Ck Ck) (sig kap P P) (sig kap Ck [f0])
              (length Nl) (length L) (length Ck) (length P)) as (H1 & H2 & H3 & H4 & H5 & _).
  - unfold Nl. rewrite app_length. lia.
  - unfold Nl, Ck. rewrite !app_length. lia.
  - repeat split; assumption.
Qed.

Lemma in_entries_of sl sr slc src cs gamma n_leaf k split_size ks e :
  In e (entries_of sl sr slc src cs gamma n_leaf k split_size ks) <->
  exists k', In k' ks /\ k' <> k /\ e = (k', (ls_of sl slc cs gamma k split_size k', rs_of sr src cs gamma n_leaf k split_size k')).
Proof.
  induction ks as [|k0 ks IH].
  - simpl. split; [intros [] | intros (k' & [] & _)].
  - rewrite entries_of_cons. split.
    + intros H. apply in_app_or in H. destruct H as [H|H].
      * destruct (Nat.eqb_spec k k0); [contradiction|]. destruct H as [<-|[]]. exists k0. repeat split; [now left | congruence].
      * apply IH in H. destruct H as (k' & H1 & H2 & H3). exists k'. repeat split; auto. now right.
    + intros (k' & [<-|H1] & H2 & H3).
      * apply in_or_app. left. destruct (Nat.eqb_spec k k0); [congruence|]. left. now rewrite H3.
      * apply in_or_app. right. apply IH. exists k'. auto.
Qed.

(* --- one split position: the values evaluated there are the gains of the candidates with that threshold --- *)
Ltac pinj E v a b :=
  apply pair_equal_spec in E; destruct E as [?Ev E]; apply pair_equal_spec in E; destruct E as [?Ea ?Eb]; subst v a b.

Section PositionGain.
Variable st : @kstate R.
Hypothesis Hok : state_ok st.
Variables j f : nat.
Hypothesis Hj : (j < length (ks_leaves st))%nat.
Let kap := ks_kernel st.
Let cls := ks_cl st.
Let lvs := ks_leaves st.
Let leaf := nth j lvs [].
Let k := nth j cls 0%nat.
Let nc := ks_nc st.
Let kmax := ks_kmax st.
Variables (Sl Sr : list nat) (t lf : R) (slc src : nat -> R).
Let L := left_part Rops st j f t.
Let Rr := right_part Rops st j f t.
Let O := others cls lvs j k.
Let Ck := L ++ Rr ++ O.
Hypothesis PL : Permutation Sl L.
Hypothesis PR : Permutation Sr Rr.
Hypothesis HL : L <> [].
Hypothesis HR : Rr <> [].
Hypothesis Hlf : lf = sig kap (Sl ++ Sr) (Sl ++ Sr).
Hypothesis Hslc : forall k', (k' < nc)%nat -> slc k' = rsuml (map (fun i => omega_of Rops st k' i) Sl).
Hypothesis Hsrc : forall k', (k' < nc)%nat -> src k' = rsuml (map (fun i => omega_of Rops st k' i) Sr).
Let SL := sig kap Sl Sl.
Let SR := sig kap Sr Sr.
Let n_leaf := length leaf.
Let split_size := length Sl.
Let PV := pos_values SL SR lf slc src (csize st) (gamma_of Rops st) (omega_of Rops st) n_leaf nc kmax k split_size f.

Let Hsym : symmetric kap := proj1 Hok.
Let Hlen : length cls = length lvs := proj1 (proj2 Hok).
Let Hcl : Forall (fun x => (x < nc)%nat) cls := proj1 (proj2 (proj2 Hok)).
Let Hnk : (nc <= kmax)%nat := proj1 (proj2 (proj2 (proj2 (proj2 Hok)))).
Let Hne : forall k', (k' < nc)%nat -> Cl st k' <> [] := proj2 (proj2 (proj2 (proj2 (proj2 Hok)))).

Lemma pg_k_lt : (k < nc)%nat.
Proof. unfold k. rewrite Forall_forall in Hcl. apply Hcl, nth_In. rewrite Hlen. exact Hj. Qed.

Lemma pg_leaf_perm : Permutation leaf (L ++ Rr).
Proof. apply Permutation_sym. unfold L, Rr, left_part, right_part. apply filter_partition_perm. Qed.

Lemma pg_Ck_perm : Permutation (Cl st k) Ck.
Proof.
  pose proof (members_before st (mkc j f t 0 0) Hlen Hj k) as H.
  unfold before_list in H. cbn [c_leaf c_feat c_thr mkc] in H. fold cls lvs k in H. rewrite Nat.eqb_refl in H.
  fold L Rr O in H. unfold Ck. rewrite app_assoc. exact H.
Qed.

Lemma pg_wf a b : wf_state st (mkc j f t a b).
Proof. repeat split; assumption. Qed.

Lemma pg_canon :
  SL = sig kap L L /\ SR = sig kap Rr Rr /\ lf = sig kap (L ++ Rr) (L ++ Rr) /\
  gamma_of Rops st k k = sig kap Ck Ck /\ slc k = sig kap Ck L /\ src k = sig kap Ck Rr /\
  csize st k = length Ck /\ n_leaf = length (L ++ Rr) /\ split_size = length L /\
  (forall k1, (k1 < nc)%nat -> slc k1 = sig kap (Cl st k1) L /\ src k1 = sig kap (Cl st k1) Rr).
Proof.
  pose proof pg_k_lt as Hk. pose proof pg_Ck_perm as PC.
  assert (PN : Permutation (Sl ++ Sr) (L ++ Rr)) by (apply Permutation_app; assumption).
  repeat split.
  - unfold SL. now rewrite (sig_perm_l kap _ _ _ PL), (sig_perm_r kap _ _ _ PL).
  - unfold SR. now rewrite (sig_perm_l kap _ _ _ PR), (sig_perm_r kap _ _ _ PR).
  - rewrite Hlf. now rewrite (sig_perm_l kap _ _ _ PN), (sig_perm_r kap _ _ _ PN).
  - rewrite gamma_sig. fold kap. now rewrite (sig_perm_l kap _ _ _ PC), (sig_perm_r kap _ _ _ PC).
  - rewrite (Hslc k Hk), omega_sum. fold kap. now rewrite (sig_perm_l kap _ _ _ PC), (sig_perm_r kap _ _ _ PL).
  - rewrite (Hsrc k Hk), omega_sum. fold kap. now rewrite (sig_perm_l kap _ _ _ PC), (sig_perm_r kap _ _ _ PR).
  - unfold csize. exact (Permutation_length PC).
  - unfold n_leaf. exact (Permutation_length pg_leaf_perm).
  - unfold split_size. exact (Permutation_length PL).
  - rewrite (Hslc k1 H), omega_sum. fold kap. now rewrite (sig_perm_r kap _ _ _ PL).
  - rewrite (Hsrc k1 H), omega_sum. fold kap. now rewrite (sig_perm_r kap _ _ _ PR).
Qed.

Lemma pg_O_ne : negb (n_leaf =? csize st k)%nat = true -> O <> [].
Proof.
  intros Hflag. unfold n_leaf, leaf, k, cls, lvs in Hflag. rewrite (csize_split st j Hlen Hj) in Hflag.
  intros E. unfold O, k, cls, lvs in E. rewrite E in Hflag. cbn [length] in Hflag.
  rewrite Nat.add_0_r, Nat.eqb_refl in Hflag. discriminate.
Qed.

(* the switch values of cluster k1 *)
Lemma pg_ls k1 f0 : (k1 < nc)%nat ->
  ls_of SL slc (csize st) (gamma_of Rops st) k split_size k1 = left_switch (stocks_of kap L Rr O (Cl st k1) f0) /\
  rs_of SR src (csize st) (gamma_of Rops st) n_leaf k split_size k1 = right_switch (stocks_of kap L Rr O (Cl st k1) f0).
Proof.
  intros H1. destruct pg_canon as (E1 & E2 & E3 & E4 & E5 & E6 & E7 & E8 & E9 & E10). destruct (E10 k1 H1) as [E11 E12].
  unfold Ck in *. unfold ls_of, rs_of. rewrite E1, E2, E4, E5, E6, E7, E8, E9, E11, E12, gamma_sig. fold kap.
  change (csize st k1) with (length (Cl st k1)).
  destruct (formulas_at_canon kap L Rr O (Cl st k1) f0) as (_ & _ & F3 & F4 & _). split; assumption.
Qed.

Lemma pg_corr P f0 :
  corrective_f Rops SL SR lf (gamma_of Rops st k k) (slc k) (src k) (csize st k) n_leaf split_size
  = corrective_term (stocks_of kap L Rr O P f0).
Proof.
  destruct pg_canon as (E1 & E2 & E3 & E4 & E5 & E6 & E7 & E8 & E9 & _).
  unfold Ck in *. rewrite E1, E2, E3, E4, E5, E6, E7, E8, E9.
  destruct (formulas_at_canon kap L Rr O P f0) as (_ & _ & _ & _ & F5). exact F5.
Qed.

Lemma pos_values_sound v a b : In (v, (a, b)) PV -> In (a, b) (target_pairs st j) /\ v = gain Rops st (mkc j f t a b).
Proof.
  intros Hin. pose proof pg_k_lt as Hk.
  destruct pg_canon as (E1 & E2 & E3 & E4 & E5 & E6 & E7 & E8 & E9 & E10).
  unfold Ck in *. unfold PV, pos_values in Hin. unfold target_pairs. fold cls lvs k nc kmax leaf n_leaf.
  apply in_app_or in Hin; destruct Hin as [Hin|Hin].
  { (* double star *)
    unfold vals_dstar in Hin. destruct (g_double_star nc kmax n_leaf (csize st k)) eqn:G; [|contradiction].
    destruct Hin as [E|[]]. pinj E v a b.
    unfold g_double_star in G. apply andb_prop in G. destruct G as [G1 G2]. apply Nat.ltb_lt in G1.
    split.
    - apply in_or_app; right. apply in_or_app; left.
      replace (S nc <? kmax)%nat with true by (symmetry; apply Nat.ltb_lt; lia). rewrite G2. now left.
    - rewrite E1, E2, E3, E4, E5, E6, E7, E8, E9.
      apply (double_star_corrected_gain st (mkc j f t nc (S nc)) (omega_of Rops st k f) (pg_wf _ _)); try reflexivity; try assumption.
      + fold kmax nc. lia.
      + apply pg_O_ne. exact G2. }
  apply in_app_or in Hin; destruct Hin as [Hin|Hin].
  { (* star *)
    unfold vals_star in Hin. destruct (g_star nc kmax) eqn:G; [|contradiction]. unfold g_star in G.
    destruct (formulas_at_canon kap L Rr O [] 0%nat) as (F1 & F2 & _).
    destruct Hin as [E|[E|[]]]; pinj E v a b.
    - split; [apply in_or_app; left; rewrite G; now left|].
      rewrite E1, E4, E5, E7, E9, F1. apply (left_star_gain st (mkc j f t nc k) [] 0%nat (pg_wf _ _)); try reflexivity; try assumption.
      apply Nat.ltb_lt in G. exact G.
    - split; [apply in_or_app; left; rewrite G; right; now left|].
      rewrite E2, E4, E6, E7, E8, E9, F2. apply (right_star_gain st (mkc j f t k nc) [] 0%nat (pg_wf _ _)); try reflexivity; try assumption.
      apply Nat.ltb_lt in G. exact G. }
  apply in_app_or in Hin; destruct Hin as [Hin|Hin].
  { (* switch *)
    unfold vals_switch in Hin. destruct (g_switch nc) eqn:G; [|contradiction]. unfold g_switch in G.
    unfold vals_switch_of in Hin. apply in_flat_map in Hin. destruct Hin as (e & He & Hin).
    apply in_entries_of in He. destruct He as (k1 & Hk1 & Hne1 & ->). apply in_seq in Hk1.
    destruct (pg_ls k1 0%nat ltac:(lia)) as [Fl Fr].
    assert (Hsw : In (k1, k) (flat_map (fun k' => if (k' =? k)%nat then [] else [(k', k); (k, k')]) (seq 0 nc)) /\
                  In (k, k1) (flat_map (fun k' => if (k' =? k)%nat then [] else [(k', k); (k, k')]) (seq 0 nc))).
    { split; apply in_flat_map; exists k1; (split; [apply in_seq; lia|]);
        (destruct (Nat.eqb_spec k1 k); [congruence|]); [now left | right; now left]. }
    destruct Hin as [E|[E|[]]]; pinj E v a b; cbn [e_gl e_gr e_id fst snd].
    - split; [apply in_or_app; right; apply in_or_app; right; apply in_or_app; left; rewrite G; apply Hsw|].
      rewrite Fl. apply (left_switch_gain st (mkc j f t k1 k) 0%nat (pg_wf _ _)); try reflexivity; try assumption; cbn [c_left mkc]; try (fold nc; lia).
      apply Hne. lia.
    - split; [apply in_or_app; right; apply in_or_app; right; apply in_or_app; left; rewrite G; apply Hsw|].
      rewrite Fr. apply (right_switch_gain st (mkc j f t k k1) 0%nat (pg_wf _ _)); try reflexivity; try assumption; cbn [c_right mkc]; try (fold nc; lia).
      apply Hne. lia. }
  { (* reallocation *)
    unfold vals_realloc in Hin. destruct (g_switch nc && g_realloc nc n_leaf (csize st k))%bool eqn:G; [|contradiction].
    apply andb_prop in G. destruct G as [_ G]. unfold g_realloc in G. apply andb_prop in G. destruct G as [G1 G2].
    apply in_flat_map in Hin. destruct Hin as (e1 & He1 & Hin). apply in_flat_map in Hin. destruct Hin as (e2 & He2 & Hin).
    apply in_entries_of in He1. destruct He1 as (k1 & Hk1 & Hne1 & ->). apply in_seq in Hk1.
    apply in_entries_of in He2. destruct He2 as (k2 & Hk2 & Hne2 & ->). apply in_seq in Hk2.
    cbn [e_id e_gl e_gr fst snd] in Hin.
    destruct (Nat.eqb_spec k1 k2) as [|Hd]; [contradiction|]. destruct Hin as [E|[]]. pinj E v a b.
    destruct (pg_ls k1 0%nat ltac:(lia)) as [Fl _]. destruct (pg_ls k2 0%nat ltac:(lia)) as [_ Fr].
    split.
    - apply in_or_app; right; apply in_or_app; right; apply in_or_app; right. rewrite G1, G2. cbn [andb].
      apply in_flat_map. exists k1. split; [apply in_seq; lia|]. apply in_flat_map. exists k2. split; [apply in_seq; lia|].
      destruct (Nat.eqb_spec k1 k); [congruence|]. destruct (Nat.eqb_spec k2 k); [congruence|].
      destruct (Nat.eqb_spec k1 k2); [congruence|]. now left.
    - rewrite Fl, Fr, (pg_corr (Cl st k1) 0%nat).
      apply (realloc_gain st (mkc j f t k1 k2) 0%nat (pg_wf _ _)); try reflexivity; try assumption; cbn [c_left c_right mkc]; try (fold nc; lia).
      + apply pg_O_ne. exact G2.
      + apply Hne. lia.
      + apply Hne. lia. }
Qed.
Lemma pos_values_complete a b : In (a, b) (target_pairs st j) -> exists v, In (v, (a, b)) PV.
Proof.
  intros Hab. unfold target_pairs in Hab. fold cls lvs k nc kmax leaf n_leaf in Hab.
  unfold PV, pos_values.
  set (ent := fun k1 => (k1, (ls_of SL slc (csize st) (gamma_of Rops st) k split_size k1,
                              rs_of SR src (csize st) (gamma_of Rops st) n_leaf k split_size k1)) : entry).
  assert (Hent : forall k1, (k1 < nc)%nat -> k1 <> k ->
            In (ent k1) (entries_of SL SR slc src (csize st) (gamma_of Rops st) n_leaf k split_size (seq 0 nc))).
  { intros k1 H1 H2. apply in_entries_of. exists k1. repeat split; [apply in_seq; lia | exact H2]. }
  apply in_app_or in Hab; destruct Hab as [Hab|Hab].
  { destruct (nc <? kmax)%nat eqn:G; [|contradiction].
    destruct Hab as [E|[E|[]]]; apply pair_equal_spec in E; destruct E as [<- <-];
      eexists; apply in_or_app; right; apply in_or_app; left; unfold vals_star, g_star; rewrite G; [left | right; left]; reflexivity. }
  apply in_app_or in Hab; destruct Hab as [Hab|Hab].
  { destruct ((S nc <? kmax)%nat && negb (n_leaf =? csize st k)%nat)%bool eqn:G; [|contradiction].
    apply andb_prop in G. destruct G as [G1 G2]. apply Nat.ltb_lt in G1.
    destruct Hab as [E|[]]. apply pair_equal_spec in E; destruct E as [<- <-].
    eexists. apply in_or_app; left. unfold vals_dstar, g_double_star.
    replace (nc <? kmax - 1)%nat with true by (symmetry; apply Nat.ltb_lt; lia). rewrite G2. left; reflexivity. }
  apply in_app_or in Hab; destruct Hab as [Hab|Hab].
  { destruct (2 <=? nc)%nat eqn:G; [|contradiction].
    apply in_flat_map in Hab. destruct Hab as (k1 & Hk1 & Hab). apply in_seq in Hk1.
    destruct (Nat.eqb_spec k1 k) as [|Hne1]; [contradiction|].
    destruct Hab as [E|[E|[]]]; apply pair_equal_spec in E; destruct E as [<- <-];
      eexists; apply in_or_app; right; apply in_or_app; right; apply in_or_app; left;
      unfold vals_switch, g_switch; rewrite G; unfold vals_switch_of; apply in_flat_map; exists (ent k1);
      (split; [apply Hent; lia|]); [left | right; left]; reflexivity. }
  { destruct ((3 <=? nc)%nat && negb (n_leaf =? csize st k)%nat)%bool eqn:G; [|contradiction].
    apply andb_prop in G. destruct G as [G1 G2].
    apply in_flat_map in Hab. destruct Hab as (k1 & Hk1 & Hab). apply in_seq in Hk1.
    apply in_flat_map in Hab. destruct Hab as (k2 & Hk2 & Hab). apply in_seq in Hk2.
    destruct (Nat.eqb_spec k1 k); [contradiction|]. destruct (Nat.eqb_spec k2 k); [contradiction|].
    destruct (Nat.eqb_spec k1 k2); [contradiction|]. cbn [orb] in Hab.
    destruct Hab as [E|[]]. apply pair_equal_spec in E; destruct E as [<- <-].
    eexists. apply in_or_app; right; apply in_or_app; right; apply in_or_app; right.
    unfold vals_realloc, g_switch, g_realloc. rewrite G1, G2.
    replace (2 <=? nc)%nat with true by (symmetry; apply Nat.leb_le; apply Nat.leb_le in G1; lia). cbn [andb].
    apply in_flat_map. exists (ent k1). split; [apply Hent; lia|].
    apply in_flat_map. exists (ent k2). split; [apply Hent; lia|].
    cbn [e_id ent fst]. destruct (Nat.eqb_spec k1 k2); [congruence|]. left; reflexivity. }
Qed.
End PositionGain.

(* --- the invariant carried by the running best through the whole search --- *)
Definition Inv (st : @kstate R) (Cov : @cand R -> Prop) (b : @split R) : Prop :=
  0 <= sp_gain b /\
  (forall c, In c (candidates Rops st) -> Cov c -> gain Rops st c <= sp_gain b) /\
  match sp_cand b with
  | None => sp_gain b = 0
  | Some c => In c (candidates Rops st) /\ sp_gain b = gain Rops st c
  end.

Lemma Inv_weaken st (Cov Cov' : @cand R -> Prop) b :
  Inv st Cov b -> (forall c, In c (candidates Rops st) -> Cov' c -> Cov c) -> Inv st Cov' b.
Proof. intros (H1 & H2 & H3) H. repeat split; auto. Qed.

Section ScanLeafFeature.
Variable st : @kstate R.
Hypothesis Hok : state_ok st.
Variables j f : nat.
Hypothesis Hjex : In j (ks_explore st).
Hypothesis Hfin : In f (ks_feats st).
Let kap := ks_kernel st.
Let leaf := nth j (ks_leaves st) [].
Let k := nth j (ks_cl st) 0%nat.
Let key := fun i => ks_X st i f.
Let nu := sort_by Rops key leaf.
Let n_leaf := length leaf.
Let nc := ks_nc st.
Let omega := omega_of Rops st.
Variable lsq : R.
Hypothesis Hlsq : lsq = sig kap nu nu.
Variable Cov0 : @cand R -> Prop.

Let Hj : (j < length (ks_leaves st))%nat.
Proof. destruct Hok as (_ & _ & _ & Hex & _). rewrite Forall_forall in Hex. exact (Hex j Hjex). Qed.

Definition CovRest (rest : list nat) (c : @cand R) : Prop :=
  c_leaf c = j /\ c_feat c = f /\ forall z, In z rest -> c_thr c < key z.
Definition JF (c : @cand R) : Prop := c_leaf c = j /\ c_feat c = f.

Let visit := scan_visit Rops true true st (gamma_of Rops st) omega j k f n_leaf lsq.

Lemma nu_perm : Permutation nu leaf. Proof. apply sort_by_perm. Qed.
Lemma nu_srt : srt key nu. Proof. apply sort_by_srt. Qed.

(* a boundary pre ++ [x] | rest' of the sorted leaf with key x < every key of rest' *)
Lemma boundary_parts pre x rest' : nu = pre ++ x :: rest' -> (forall z, In z rest' -> key x < key z) ->
  Permutation (pre ++ [x]) (left_part Rops st j f (key x)) /\ Permutation rest' (right_part Rops st j f (key x)).
Proof.
  intros Hnu Hlt. pose proof nu_srt as Hs. rewrite Hnu in Hs.
  destruct (boundary_filters key pre x rest' Hs Hlt) as [F1 F2].
  unfold left_part, right_part. fold leaf. rops. split.
  - rewrite <- F1, <- Hnu. apply filter_perm, nu_perm.
  - rewrite <- F2, <- Hnu. apply filter_perm, nu_perm.
Qed.

(* a candidate on (j, f) whose threshold is below every key of rest' but not below key x sits exactly at x *)
Lemma new_cand pre x rest' c : nu = pre ++ x :: rest' -> In c (candidates Rops st) ->
  CovRest rest' c -> ~ c_thr c < key x -> rest' <> [] ->
  c_thr c = key x /\ (forall z, In z rest' -> key x < key z).
Proof.
  intros Hnu Hc (Hcj & Hcf & Hlt) Hnlt Hne.
  destruct (cand_elim st c Hc) as (_ & _ & (i & Hi & Hthr) & _ & _).
  rewrite Hcj, Hcf in *. fold leaf in Hi. fold (key i) in Hthr.
  assert (Hinu : In i nu) by (apply (Permutation_in _ (Permutation_sym nu_perm)); exact Hi).
  rewrite Hnu in Hinu. pose proof nu_srt as Hs. rewrite Hnu in Hs. destruct (srt_app key pre (x :: rest') Hs) as [_ Hpre].
  assert (Hle : key i <= key x).
  { apply in_app_or in Hinu. destruct Hinu as [Hp|[<-|Hr]].
    - apply Hpre; [exact Hp | now left].
    - lra.
    - specialize (Hlt i Hr). lra. }
  assert (E : c_thr c = key x) by lra. split; [exact E|]. intros z Hz. rewrite <- E. now apply Hlt.
Qed.

Lemma split_ok_lengths pre x rest' : nu = pre ++ x :: rest' -> (forall z, In z rest' -> key x < key z) ->
  split_ok Rops st j f (key x) =
  ((Nat.max 1 (ks_minleaf st) <=? S (length pre))%nat && (Nat.max 1 (ks_minleaf st) <=? length rest')%nat)%bool /\
  n_leaf = (length pre + 1 + length rest')%nat.
Proof.
  intros Hnu Hlt. destruct (boundary_parts pre x rest' Hnu Hlt) as [P1 P2]. unfold split_ok.
  rewrite <- (Permutation_length P1), <- (Permutation_length P2), app_length. cbn [length].
  replace (length pre + 1)%nat with (S (length pre)) by lia. split; [reflexivity|].
  unfold n_leaf. rewrite <- (Permutation_length nu_perm), Hnu, app_length. cbn [length]. lia.
Qed.

Lemma visit_step pre x y r acc : nu = pre ++ x :: y :: r ->
  Inv st (fun c => CovRest (x :: y :: r) c \/ Cov0 c) acc ->
  Inv st (fun c => CovRest (y :: r) c \/ Cov0 c)
      (visit acc pre x (y :: r) (sig kap (pre ++ [x]) (pre ++ [x])) (sig kap (y :: r) (y :: r))
             (dir_stocks omega nc (pre ++ [x])) (dir_stocks omega nc (y :: r))).
Proof.
  intros Hnu HI. unfold visit, scan_visit. cbn [hd]. fold (key x) (key y). set (rest' := y :: r) in *.
  assert (Hsk : forall c, In c (candidates Rops st) -> CovRest rest' c \/ Cov0 c ->
                 (CovRest (x :: rest') c \/ Cov0 c) \/ (CovRest rest' c /\ c_thr c = key x /\ forall z, In z rest' -> key x < key z)).
  { intros c Hc [HC|H0]; [|left; now right].
    destruct (Rlt_dec (c_thr c) (key x)) as [Hl|Hnl].
    - left; left. destruct HC as (A & B & C). repeat split; auto. intros z [<-|Hz]; auto.
    - right. destruct (new_cand pre x rest' c Hnu Hc HC Hnl ltac:(discriminate)) as [E Hlt]. auto. }
  (* skipped positions keep the invariant because no candidate sits there *)
  assert (Hskip : (forall c, In c (candidates Rops st) -> CovRest rest' c -> c_thr c = key x ->
                    (forall z, In z rest' -> key x < key z) -> False) ->
                  Inv st (fun c => CovRest rest' c \/ Cov0 c) acc).
  { intros Hno. apply (Inv_weaken st _ _ acc HI). intros c Hc Hcov.
    destruct (Hsk c Hc Hcov) as [H|(H1 & H2 & H3)]; [exact H | exfalso; eapply Hno; eauto]. }
  destruct ((S (length pre) <? ks_minleaf st)%nat || (n_leaf <? length pre + ks_minleaf st + 1)%nat)%bool eqn:Tm.
  { apply Hskip. intros c Hc HC E Hlt.
    destruct (split_ok_lengths pre x rest' Hnu Hlt) as [Eok En].
    destruct (cand_elim st c Hc) as (_ & _ & _ & Hsok & _). destruct HC as (A & B & _). rewrite A, B, E in Hsok.
    rewrite Eok in Hsok. apply andb_prop in Hsok. destruct Hsok as [S1 S2]. apply Nat.leb_le in S1, S2.
    apply orb_prop in Tm. destruct Tm as [T|T]; apply Nat.ltb_lt in T; lia. }
  rops. unfold Reqb. destruct (Req_EM_T (key x) (key y)) as [Eq|Neq].
  { apply Hskip. intros c Hc HC E Hlt. specialize (Hlt y (or_introl eq_refl)). lra. }
  (* a visited position *)
  pose proof nu_srt as Hs. rewrite Hnu in Hs. destruct (srt_app key pre (x :: rest') Hs) as [[Hx Hr] _].
  assert (Hlt : forall z, In z rest' -> key x < key z).
  { intros z [<-|Hz].
    - specialize (Hx y (or_introl eq_refl)). lra.
    - destruct Hr as [Hy _]. specialize (Hx y (or_introl eq_refl)). specialize (Hy z Hz). lra. }
  destruct (boundary_parts pre x rest' Hnu Hlt) as [P1 P2].
  destruct (split_ok_lengths pre x rest' Hnu Hlt) as [Eok En].
  assert (Hsok : split_ok Rops st j f (key x) = true).
  { rewrite Eok. apply orb_false_elim in Tm. destruct Tm as [T1 T2]. apply Nat.ltb_ge in T1, T2.
    apply andb_true_intro. split; apply Nat.leb_le; unfold rest' in *; cbn [length] in *; lia. }
  assert (HLne : left_part Rops st j f (key x) <> []).
  { intros E. rewrite E in P1. apply Permutation_sym, Permutation_nil in P1. destruct pre; discriminate. }
  assert (HRne : right_part Rops st j f (key x) <> []).
  { intros E. rewrite E in P2. apply Permutation_sym, Permutation_nil in P2. discriminate. }
  assert (Hxleaf : In x leaf).
  { apply (Permutation_in _ nu_perm). rewrite Hnu. apply in_or_app. right. now left. }
  set (Sl := pre ++ [x]) in *.
  set (slc := vget Rops (dir_stocks omega nc Sl)). set (src := vget Rops (dir_stocks omega nc rest')).
  assert (Hlf : lsq = sig kap (Sl ++ rest') (Sl ++ rest')).
  { rewrite Hlsq, Hnu. unfold Sl. rewrite <- app_assoc. reflexivity. }
  assert (Hslc : forall k', (k' < ks_nc st)%nat -> slc k' = rsuml (map (fun i => omega_of Rops st k' i) Sl))
    by (intros; unfold slc; now apply vget_dir).
  assert (Hsrc : forall k', (k' < ks_nc st)%nat -> src k' = rsuml (map (fun i => omega_of Rops st k' i) rest'))
    by (intros; unfold src; now apply vget_dir).
  replace (S (length pre)) with (length Sl) by (unfold Sl; rewrite app_length; cbn [length]; lia).
  pose proof (compute_all_splits_fixed_covers (sig kap Sl Sl) (sig kap rest' rest') lsq slc src (csize st) (gamma_of Rops st) omega
                n_leaf (ks_nc st) (ks_kmax st) k j (length Sl) f (key x) acc) as Hcov.
  set (acc' := compute_all_splits Rops true true acc _ _ _ _ _ _ _ _ _ _ _ _ _ _ _ _) in *.
  pose proof (pos_values_sound st Hok j f Hj Sl rest' (key x) lsq slc src P1 P2 HLne HRne Hlf Hslc Hsrc) as Hsound.
  pose proof (pos_values_complete st Hok j f Hj Sl rest' lsq slc src) as Hcompl.
  fold kap k leaf n_leaf omega in Hsound, Hcompl.
  destruct HI as (I1 & I2 & I3). destruct Hcov as (C1 & C2 & C3).
  repeat split.
  - lra.
  - intros c Hc Hcv. destruct (Hsk c Hc Hcv) as [H|(HC & E & _)].
    + specialize (I2 c Hc H). lra.
    + destruct HC as (A & B & _). destruct (cand_elim st c Hc) as (_ & _ & _ & _ & Hab). rewrite A in Hab.
      destruct (Hcompl _ _ Hab) as (v & Hv). destruct (Hsound v _ _ Hv) as [_ Ev].
      rewrite (cand_eta c), A, B, E, <- Ev. exact (C2 v _ Hv).
  - destruct C3 as [->|(v & [a b] & Hv & ->)]; [exact I3|].
    destruct (Hsound v a b Hv) as [Hab Ev]. cbn [mk set_split sp_cand sp_gain fst snd]. split; [|exact Ev].
    apply (cand_intro st j f x a b Hjex Hfin Hxleaf Hsok Hab).
Qed.

Lemma scan_inv rest : forall pre acc, nu = pre ++ rest ->
  Inv st (fun c => CovRest rest c \/ Cov0 c) acc ->
  Inv st (fun c => JF c \/ Cov0 c) (scan_direct kap omega nc visit pre rest acc).
Proof.
  induction rest as [|x rest IH]; intros pre acc Hnu HI.
  - apply (Inv_weaken st _ _ acc HI). intros c _ [[A B]|H]; [left; repeat split; auto; intros ? [] | now right].
  - destruct rest as [|y r].
    + cbn [scan_direct]. apply (Inv_weaken st _ _ acc HI). intros c Hc [[A B]|H]; [|now right]. left. repeat split; auto.
      intros z [Ez|[]]. subst z.
      destruct (cand_elim st c Hc) as (_ & _ & _ & Hsok & _). rewrite A, B in Hsok. unfold split_ok in Hsok.
      apply andb_prop in Hsok. destruct Hsok as [_ S2]. apply Nat.leb_le in S2.
      destruct (right_part Rops st j f (c_thr c)) as [|i R'] eqn:ER; [cbn [length] in S2; lia|].
      assert (Hi : In i (right_part Rops st j f (c_thr c))) by (rewrite ER; now left).
      unfold right_part in Hi. apply filter_In in Hi. destruct Hi as [Hil Hik]. fold leaf in Hil. rops. unfold Rleb in Hik.
      fold (key i) in Hik. destruct (Rle_dec (key i) (c_thr c)) as [|Hgt]; [discriminate|].
      assert (Hinu : In i nu) by (apply (Permutation_in _ (Permutation_sym nu_perm)); exact Hil).
      rewrite Hnu in Hinu. pose proof nu_srt as Hs. rewrite Hnu in Hs. destruct (srt_app key pre [x] Hs) as [_ Hpre].
      apply in_app_or in Hinu. destruct Hinu as [Hp|[<-|[]]]; [specialize (Hpre i x Hp (or_introl eq_refl)); lra | lra].
    + cbn [scan_direct]. apply IH.
      * rewrite Hnu, <- app_assoc. reflexivity.
      * apply visit_step; assumption.
Qed.
End ScanLeafFeature.

Lemma fold_inv {A} st (step : @split R -> A -> @split R) (P : A -> @cand R -> Prop) (l : list A) :
  (forall a b Cov, In a l -> Inv st Cov b -> Inv st (fun c => P a c \/ Cov c) (step b a)) ->
  forall b Cov, Inv st Cov b -> Inv st (fun c => (exists a, In a l /\ P a c) \/ Cov c) (fold_left step l b).
Proof.
  induction l as [|a l IH]; intros Hstep b Cov HI; cbn [fold_left].
  - apply (Inv_weaken st _ _ b HI). intros c _ [(a & [] & _)|H]; exact H.
  - pose proof (Hstep a b Cov (or_introl eq_refl) HI) as H1.
    pose proof (IH (fun a' b' Cov' Hin => Hstep a' b' Cov' (or_intror Hin)) _ _ H1) as H2.
    apply (Inv_weaken st _ _ _ H2). intros c _ [(a' & [<-|Hin] & Hp)|H].
    + right. now left.
    + left. exists a'. split; assumption.
    + right. now right.
Qed.

(* the loop of find_best on one (leaf, feature) is the loop on directly computed stocks *)
Lemma inner_scan_direct (st : @kstate R) j f B (visit : R -> B -> list nat -> nat -> list nat -> R -> R -> list R -> list R -> B) best :
  symmetric (ks_kernel st) ->
  let leaf := nth j (ks_leaves st) [] in
  let nu := sort_by Rops (fun i => ks_X st i f) leaf in
  let omega := omega_of Rops st in
  let lsq := lsum Rops (map (fun i => Lambda_of Rops st j i) leaf) in
  scan_gen Rops (ks_kernel st) omega (ks_nc st) (visit lsq) [] nu (n0 Rops) lsq
           (map (fun _ => n0 Rops) (seq 0 (ks_nc st)))
           (map (fun c => lsum Rops (map (fun i => omega c i) leaf)) (seq 0 (ks_nc st))) best
  = scan_direct (ks_kernel st) omega (ks_nc st) (visit lsq) [] nu best /\ lsq = sig (ks_kernel st) nu nu.
Proof.
  intros Hsym leaf nu omega lsq.
  assert (El : lsq = sig (ks_kernel st) nu nu) by (apply (leaf_square_is_stock st j (fun i => ks_X st i f) Hsym)).
  split; [|exact El].
  rewrite <- (incremental_stocks_correct (ks_kernel st) omega (ks_nc st) (visit lsq) Hsym nu [] best).
  rewrite <- El. f_equal.
  unfold dir_stocks. apply map_ext. intros c. change (lsum Rops) with rsuml. apply rsuml_perm, Permutation_map, Permutation_sym, sort_by_perm.
Qed.

Definition argmax_result (st : @kstate R) (r : @split R) : Prop :=
  0 <= sp_gain r /\
  (forall c, In c (candidates Rops st) -> gain Rops st c <= sp_gain r) /\
  match sp_cand r with
  | None => sp_gain r = 0
  | Some c => In c (candidates Rops st) /\ sp_gain r = gain Rops st c
  end.

Lemma find_best_repaired_is_argmax : forall st : @kstate R, state_ok st -> argmax_result st (find_best Rops true true st).
Proof.
  intros st Hok.
  assert (H0 : Inv st (fun _ => False) (split0 Rops)).
  { repeat split; simpl; try lra. intros ? _ []. }
  unfold find_best.
  pose proof (fold_inv st
    (fun best j =>
       let leaf := nth j (ks_leaves st) [] in
       let k := nth j (ks_cl st) 0%nat in
       let n_leaf := length leaf in
       fold_left (fun best f =>
         let nu := sort_by Rops (fun i => ks_X st i f) leaf in
         let leaf_square := lsum Rops (map (fun i => Lambda_of Rops st j i) leaf) in
         let src0 := map (fun c => lsum Rops (map (fun i => omega_of Rops st c i) leaf)) (seq 0 (ks_nc st)) in
         let slc0 := map (fun _ => n0 Rops) (seq 0 (ks_nc st)) in
         scan_gen Rops (ks_kernel st) (omega_of Rops st) (ks_nc st)
                  (scan_visit Rops true true st (gamma_of Rops st) (omega_of Rops st) j k f n_leaf leaf_square)
                  [] nu (n0 Rops) leaf_square slc0 src0 best) (ks_feats st) best)
    (fun j c => exists f, In f (ks_feats st) /\ JF j f c) (ks_explore st)) as Hfold.
  cbv zeta in Hfold.
  assert (Hres : Inv st (fun c => (exists j, In j (ks_explore st) /\ exists f, In f (ks_feats st) /\ JF j f c) \/ False)
                   (find_best Rops true true st)).
  { apply Hfold; [|exact H0]. clear Hfold H0.
    intros j b Cov Hj HI.
    apply (fold_inv st _ (fun f c => JF j f c) (ks_feats st)); [|exact HI]. clear HI b Cov.
    intros f b Cov Hf HI.
    destruct (inner_scan_direct st j f _
                (fun lsq => scan_visit Rops true true st (gamma_of Rops st) (omega_of Rops st) j (nth j (ks_cl st) 0%nat) f
                                       (length (nth j (ks_leaves st) [])) lsq) b (proj1 Hok)) as [Eq Elsq].
    cbv zeta in Eq, Elsq. rewrite Eq.
    apply (scan_inv st Hok j f Hj Hf _ Elsq Cov (sort_by Rops (fun i => ks_X st i f) (nth j (ks_leaves st) [])) [] b eq_refl).
    apply (Inv_weaken st _ _ b HI). intros c Hc [(A & B & Hlt)|H]; [exfalso | exact H].
    destruct (cand_elim st c Hc) as (_ & _ & (i & Hi & Hthr) & _ & _). rewrite A, B in *.
    assert (Hin : In i (sort_by Rops (fun i0 => ks_X st i0 f) (nth j (ks_leaves st) [])))
      by (apply (Permutation_in _ (Permutation_sym (sort_by_perm _ _))); exact Hi).
    specialize (Hlt i Hin). cbv beta in Hlt. lra. }
  destruct Hres as (R1 & R2 & R3). repeat split; [exact R1 | | exact R3].
  intros c Hc. apply (R2 c Hc). left.
  destruct (cand_elim st c Hc) as (Hj & Hf & _). exists (c_leaf c). split; [exact Hj|]. exists (c_feat c). split; [exact Hf|]. split; reflexivity.
Qed.

(* --- where the as-is search coincides with the repaired one --- *)
Lemma track_right_fix8_irrelevant (es : list entry) : (length es <= 2)%nat ->
  track_right_from false track0 es = track_right_from true track0 es.
Proof.
  destruct es as [|e1 [|e2 [|e3 es]]]; intros H; cbn [length] in H; try lia; reflexivity.
Qed.

Lemma switch_fold_fix8 sl sr slc src cs gamma n_leaf k leaf_id split_size feat thr ks : forall b tl tr1 tr2,
  let r1 := fold_left (switch_step Rops false sl sr slc src cs gamma n_leaf k leaf_id split_size feat thr) ks (b, tl, tr1) in
  let r2 := fold_left (switch_step Rops true sl sr slc src cs gamma n_leaf k leaf_id split_size feat thr) ks (b, tl, tr2) in
  fst r1 = fst r2.
Proof.
  induction ks as [|k' ks IH]; intros b tl tr1 tr2; cbn [fold_left]; [reflexivity|].
  rewrite !switch_step_unfold. destruct (k =? k')%nat; apply IH.
Qed.

Lemma cas_asis_eq_repaired best sl sr lf slc src cs gamma omega n_leaf nc kmax k leaf_id split_size feat thr :
  g_double_star nc kmax n_leaf (cs k) = false ->
  (g_realloc nc n_leaf (cs k) = false \/ ((nc <= 3)%nat /\ (k < nc)%nat)) ->
  compute_all_splits Rops false false best sl sr lf slc src cs gamma omega n_leaf nc kmax k leaf_id split_size feat thr =
  compute_all_splits Rops true true best sl sr lf slc src cs gamma omega n_leaf nc kmax k leaf_id split_size feat thr.
Proof.
  intros Gd Gr. unfold compute_all_splits. rewrite Gd.
  set (b2 := if g_star nc kmax then _ else best).
  destruct (g_switch nc); [|reflexivity].
  pose proof (switch_fold_fix8 sl sr slc src cs gamma n_leaf k leaf_id split_size feat thr (seq 0 nc) b2 track0 track0 track0) as Hf.
  pose proof (switch_fold_tracks false sl sr slc src cs gamma n_leaf k leaf_id split_size feat thr (seq 0 nc) b2 track0 track0) as [_ Ht1].
  pose proof (switch_fold_tracks true sl sr slc src cs gamma n_leaf k leaf_id split_size feat thr (seq 0 nc) b2 track0 track0) as [_ Ht2].
  cbv zeta in Hf.
  destruct (fold_left (switch_step Rops false _ _ _ _ _ _ _ _ _ _ _ _) (seq 0 nc) (b2, track0, track0)) as [[b3 tl] tr].
  destruct (fold_left (switch_step Rops true _ _ _ _ _ _ _ _ _ _ _ _) (seq 0 nc) (b2, track0, track0)) as [[b3' tl'] tr'].
  cbn [fst snd] in *. injection Hf as -> ->.
  destruct (g_realloc nc n_leaf (cs k)) eqn:G; [|reflexivity].
  destruct Gr as [Gr|[Hnc Hk]]; [discriminate|].
  assert (Hlen : (length (entries_of sl sr slc src cs gamma n_leaf k split_size (seq 0 nc)) <= 2)%nat).
  { pose proof (entries_of_length sl sr slc src cs gamma n_leaf k split_size (seq 0 nc)) as H. rewrite seq_length in H.
    assert (Hin : In k (seq 0 nc)) by (apply in_seq; lia).
    apply (count_occ_In Nat.eq_dec) in Hin. unfold entry in *. lia. }
  rewrite Ht1, Ht2, (track_right_fix8_irrelevant _ Hlen). reflexivity.
Qed.

Lemma scan_gen_ext {B} kap omega nc (v1 v2 : B -> list nat -> nat -> list nat -> R -> R -> list R -> list R -> B) :
  (forall acc pre x rest' a b c d, v1 acc pre x rest' a b c d = v2 acc pre x rest' a b c d) ->
  forall rest pre sl sr slc src acc,
  scan_gen Rops kap omega nc v1 pre rest sl sr slc src acc = scan_gen Rops kap omega nc v2 pre rest sl sr slc src acc.
Proof.
  intros H. induction rest as [|x rest IH]; intros; [reflexivity|].
  destruct rest as [|y r]; [reflexivity|]. cbn [scan_gen]. rewrite H. apply IH.
Qed.

Lemma fold_left_ext_in {A B} (f g : A -> B -> A) l : (forall b, In b l -> forall a, f a b = g a b) ->
  forall a, fold_left f l a = fold_left g l a.
Proof.
  induction l as [|b l IH]; intros H a; [reflexivity|]. cbn [fold_left].
  rewrite (H b (or_introl eq_refl)). apply IH. intros b' Hb'. apply H. now right.
Qed.

(* no explorable leaf can evaluate a double star (F7), and the right-hand second tracker (F8) is never consulted
   with three or more other clusters *)
Definition asis_safe (st : @kstate R) : Prop :=
  forall j, In j (ks_explore st) ->
    let nl := length (nth j (ks_leaves st) []) in
    let k := nth j (ks_cl st) 0%nat in
    g_double_star (ks_nc st) (ks_kmax st) nl (csize st k) = false /\
    (g_realloc (ks_nc st) nl (csize st k) = false \/ (ks_nc st <= 3)%nat).

Lemma find_best_asis_eq_repaired : forall st : @kstate R, state_ok st -> asis_safe st ->
  find_best_asis Rops st = find_best Rops true true st.
Proof.
  intros st Hok Hsafe. unfold find_best_asis, find_best.
  apply fold_left_ext_in. intros j Hj best.
  destruct (Hsafe j Hj) as [Gd Gr]. cbv zeta in Gd, Gr.
  assert (Hk : (nth j (ks_cl st) 0%nat < ks_nc st)%nat).
  { destruct Hok as (_ & Hlen & Hcl & Hex & _). rewrite Forall_forall in Hcl, Hex. apply Hcl, nth_In. rewrite Hlen. now apply Hex. }
  apply fold_left_ext_in. intros f _ best'.
  apply scan_gen_ext. intros acc pre x rest' a b c d. unfold scan_visit.
  destruct (_ || _)%bool; [reflexivity|]. destruct (neqb Rops _ _); [reflexivity|].
  apply cas_asis_eq_repaired; [exact Gd|]. destruct Gr as [Gr|Gr]; [now left | right; split; assumption].
Qed.

Lemma find_best_asis_is_argmax : forall st : @kstate R, state_ok st -> asis_safe st ->
  argmax_result st (find_best_asis Rops st).
Proof. intros st Hok Hs. rewrite (find_best_asis_eq_repaired st Hok Hs). now apply find_best_repaired_is_argmax. Qed.

(* simple sufficient conditions: at most one more cluster may be created (no double star) and at most 3 clusters exist *)
Lemma asis_safe_simple (st : @kstate R) : (ks_kmax st <= S (ks_nc st))%nat -> (ks_nc st <= 3)%nat -> asis_safe st.
Proof.
  intros H1 H2 j _. cbv zeta. split; [|now right].
  unfold g_double_star. replace (ks_nc st <? ks_kmax st - 1)%nat with false by (symmetry; apply Nat.ltb_ge; lia). reflexivity.
Qed.
(* every explorable leaf is a whole cluster: neither the double star nor the reallocation is ever evaluated *)
Lemma asis_safe_whole (st : @kstate R) :
  (forall j, In j (ks_explore st) -> length (nth j (ks_leaves st) []) = csize st (nth j (ks_cl st) 0%nat)) -> asis_safe st.
Proof.
  intros H j Hj. cbv zeta. unfold g_double_star, g_realloc. rewrite (H j Hj), Nat.eqb_refl. cbn [negb].
  rewrite !andb_false_r. split; [reflexivity | now left].
Qed.

(* ------------------------------------------------------------------ why the greedy loop stops *)
Lemma fit_loop_stops_only (fix7 fix8 : bool) (good : @kstate R -> Prop) :
  (forall st, good st -> argmax_result st (find_best Rops fix7 fix8 st)) ->
  forall fuel max_leaves next (st st' : @kstate R) s,
  fit_loop Rops fix7 fix8 fuel max_leaves next st = (st', s) ->
  match s with
  | StopNoGain => good st' -> forall c, In c (candidates Rops st') -> gain Rops st' c <= 0
  | StopMaxLeaves => (max_leaves <= length (ks_leaves st'))%nat
  | StopNoLeaf => ks_explore st' = []
  | OutOfFuel => True
  end.
Proof.
  intros Harg. induction fuel as [|fu IH]; intros max_leaves next st st' s H; cbn [fit_loop] in H.
  - injection H as <- <-. exact I.
  - destruct (length (ks_leaves st) <? max_leaves)%nat eqn:Gl; cbn [negb] in H.
    + destruct (ks_explore st) eqn:Ge; [injection H as <- <-; exact Ge|].
      rops. unfold Rltb in H. destruct (Rlt_dec 0 (sp_gain (find_best Rops fix7 fix8 st))) as [Hpos|Hnpos].
      * destruct (sp_cand (find_best Rops fix7 fix8 st)) eqn:Ec; [exact (IH _ _ _ _ _ H)|].
        injection H as <- <-. intros Hg. destruct (Harg st Hg) as (_ & _ & A3). rewrite Ec in A3. lra.
      * injection H as <- <-. intros Hg c Hc. destruct (Harg st Hg) as (_ & A2 & _). specialize (A2 c Hc). lra.
    + injection H as <- <-. apply Nat.ltb_ge in Gl. exact Gl.
Qed.

(* a state on which the as-is search is provably the arg-max: same data as ex_state, K_max = n_clusters + 1 *)
Definition ex_state_safe : @kstate R :=
  {| ks_kernel := kid; ks_X := fun i _ => INR i; ks_leaves := [[0; 1]; [2]]%nat; ks_cl := [0; 0]%nat; ks_nc := 1;
     ks_kmax := 2; ks_minleaf := 1; ks_explore := [0%nat]; ks_feats := [0%nat] |}.
Lemma ex_state_safe_ok : state_ok ex_state_safe /\ asis_safe ex_state_safe.
Proof.
  split; [|apply asis_safe_simple; simpl; lia].
  repeat split; simpl; try lia.
  - exact kid_sym.
  - repeat constructor.
  - repeat constructor.
  - intros k' Hk'. assert (k' = 0%nat) by lia. subst. discriminate.
Qed.
