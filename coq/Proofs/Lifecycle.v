(* C12 — proofs about the estimator life cycle model (Model/Lifecycle.v) and the finite data-flow
   facts of the regenerated table (Gen/AttrFlow.v). *)
From Coq Require Import List String Ascii Bool Arith Lia.
From GV Require Import Model.Lifecycle Gen.AttrFlow.
Import ListNotations.
Open Scope string_scope.

Scheme event_mut := Induction for event Sort Prop
  with events_mut := Induction for events Sort Prop.
Combined Scheme event_events_ind from event_mut, events_mut.

(* ------------------------------------------------------------------------------------------ lists of names *)
Lemma mem_In : forall a l, mem a l = true <-> In a l.
Proof.
  intros a l. unfold mem. rewrite existsb_exists. split.
  - intros (x & Hin & Hx). apply String.eqb_eq in Hx. subst. exact Hin.
  - intros Hin. exists a. split; [exact Hin | apply String.eqb_refl].
Qed.

Lemma mem_cons : forall a b l, mem a (b :: l) = String.eqb a b || mem a l.
Proof. reflexivity. Qed.

Lemma mem_app : forall a x y, mem a (x ++ y) = mem a x || mem a y.
Proof. intros a x y. unfold mem. apply existsb_app. Qed.

Lemma mem_inter : forall a x y, mem a (inter x y) = mem a x && mem a y.
Proof.
  intros a x y. unfold inter. induction x as [|b x IH]; [reflexivity|].
  cbn [filter]. destruct (mem b y) eqn:Hb.
  - rewrite !mem_cons, IH. destruct (String.eqb a b) eqn:Hab; [|reflexivity].
    apply String.eqb_eq in Hab. subst. rewrite Hb. reflexivity.
  - rewrite mem_cons, IH. destruct (String.eqb a b) eqn:Hab; [|reflexivity].
    apply String.eqb_eq in Hab. subst. rewrite Hb. cbn. rewrite andb_false_r. reflexivity.
Qed.

Lemma mem_filter : forall (f : string -> bool) a l, mem a (filter f l) = mem a l && f a.
Proof.
  intros f a l. induction l as [|b l IH]; [reflexivity|].
  cbn [filter]. destruct (f b) eqn:Hb.
  - rewrite !mem_cons, IH. destruct (String.eqb a b) eqn:Hab; [|reflexivity].
    apply String.eqb_eq in Hab. subst. rewrite Hb. cbn. reflexivity.
  - rewrite mem_cons, IH. destruct (String.eqb a b) eqn:Hab; [|reflexivity].
    apply String.eqb_eq in Hab. subst. rewrite Hb. cbn. rewrite andb_false_r. reflexivity.
Qed.

Lemma subset_mem : forall x y, subset x y = true -> forall a, mem a x = true -> mem a y = true.
Proof.
  intros x y H a Ha. unfold subset in H. rewrite forallb_forall in H. apply H. apply mem_In. exact Ha.
Qed.

Lemma forallb_mem : forall (f : string -> bool) l, forallb f l = true -> forall a, mem a l = true -> f a = true.
Proof. intros f l H a Ha. rewrite forallb_forall in H. apply H. apply mem_In. exact Ha. Qed.

(* ------------------------------------------------------------------------------------------ the must-written analysis is monotone *)
Lemma check_mono :
  (forall e hp dm W W', check1 hp dm e W = Some W' -> forall a, mem a W = true -> mem a W' = true) /\
  (forall es hp dm W W', check hp dm es W = Some W' -> forall a, mem a W = true -> mem a W' = true).
Proof.
  apply event_events_ind; cbn [check1 check]; intros.
  - destruct (mem a hp || mem a W); inversion H; subst; assumption.
  - destruct (mem a hp || mem a W); inversion H; subst; assumption.
  - inversion H; subst. rewrite mem_cons, H0. apply orb_true_r.
  - inversion H; subst. rewrite mem_cons, H0. apply orb_true_r.
  - destruct (mem a hp || mem a W); inversion H; subst; assumption.
  - inversion H; subst; assumption.
  - destruct (forallb _ _); inversion H; subst; assumption.
  - discriminate.
  - discriminate.
  - discriminate.
  - destruct (check hp dm a W) eqn:Ha; [|discriminate]. destruct (check hp dm b W) eqn:Hb; [|discriminate].
    inversion H1; subst. rewrite mem_inter. rewrite (H _ _ _ _ Ha _ H2), (H0 _ _ _ _ Hb _ H2). reflexivity.
  - destruct (check hp dm body W); inversion H0; subst; assumption.
  - destruct (check hp dm body W) eqn:Hb; [|discriminate]. destruct (check hp dm fin W); [|discriminate].
    eapply H0; [exact H1|]. eapply H; [exact Hb|assumption].
  - discriminate.
  - inversion H; subst; assumption.
  - destruct (check1 hp dm e W) eqn:He; [|discriminate].
    eapply H0; [exact H1|]. eapply H; [exact He|assumption].
Qed.

(* ------------------------------------------------------------------------------------------ abstract execution *)
Section Exec.
Context {V : Type}.
Context (I : interp V).
Context (hp dm : list string).

Notation ex1 := (exec1 I hp dm).
Notation exs := (execs I hp dm).

Lemma exec1_Branch : forall a b c, ex1 (Branch a b) c =
  if c_ab c then c else if i_abort I (c_pc c) (c_obs c) then set_ab c true else
  if i_choose I (c_pc c) (c_obs c) then exs a (tick c) else exs b (tick c).
Proof. reflexivity. Qed.
Lemma exec1_Loop : forall b c, ex1 (Loop b) c =
  if c_ab c then c else if i_abort I (c_pc c) (c_obs c) then set_ab c true else
  Nat.iter (i_iters I (c_pc c) (c_obs c)) (exs b) (tick c).
Proof. reflexivity. Qed.
Lemma exec1_Finally : forall b f c, ex1 (Finally b f) c =
  if c_ab c then c else if i_abort I (c_pc c) (c_obs c) then set_ab c true else
  set_ab (exs f (set_ab (exs b (tick c)) false)) (c_ab (exs b (tick c)) || c_ab (exs f (set_ab (exs b (tick c)) false))).
Proof. reflexivity. Qed.
Lemma exec1_Save : forall a c, ex1 (Save a) c =
  if c_ab c then c else if i_abort I (c_pc c) (c_obs c) then set_ab c true else save c a.
Proof. reflexivity. Qed.
Lemma execs_ECons : forall e r c, exs (ECons e r) c = exs r (ex1 e c).
Proof. reflexivity. Qed.

Lemma exec1_aborted : forall e c, c_ab c = true -> ex1 e c = c.
Proof. intros e c H. destruct e; cbn [exec1 execs]; rewrite H; reflexivity. Qed.

Lemma execs_aborted : forall es c, c_ab c = true -> exs es c = c.
Proof.
  induction es as [|e r IH]; intros c H; cbn [execs]; [reflexivity|].
  rewrite exec1_aborted by exact H. apply IH. exact H.
Qed.

Lemma upd_other : forall (d : dict V) a b v, String.eqb a b = false -> upd d b v a = d a.
Proof. intros d a b v H. unfold upd. rewrite H. reflexivity. Qed.

Lemma upd_same : forall (d : dict V) a v, upd d a v a = v.
Proof. intros d a v. unfold upd. rewrite String.eqb_refl. reflexivity. Qed.

(* ---- frame: attributes that are not stored anywhere in the tree keep their value *)
Lemma iter_inv : forall (P : cfg V -> Prop) (f : cfg V -> cfg V), (forall c, P c -> P (f c)) ->
  forall n c, P c -> P (Nat.iter n f c).
Proof. intros P f Hf n. induction n as [|n IH]; intros c Hc; cbn; [exact Hc|]. apply Hf. apply IH. exact Hc. Qed.

Lemma frame :
  (forall e c a, mem a (wr1 e) = false -> c_at (ex1 e c) a = c_at c a) /\
  (forall es c a, mem a (wrs es) = false -> c_at (exs es c) a = c_at c a).
Proof.
  apply event_events_ind; cbn [wr1 wrs exec1 execs]; intros;
    try (destruct (c_ab c); [reflexivity|]); try (destruct (i_abort I (c_pc c) (c_obs c)); [reflexivity|]);
    try reflexivity.
  - cbn. rewrite mem_cons, orb_false_r in H. apply upd_other. exact H.
  - cbn. rewrite mem_cons, orb_false_r in H. apply upd_other. exact H.
  - cbn. rewrite mem_cons, orb_false_r in H. apply upd_other. exact H.
  - rewrite mem_app in H1. apply orb_false_elim in H1. destruct H1 as [Ha Hb].
    destruct (i_choose I (c_pc c) (c_obs c)); [rewrite H by exact Ha | rewrite H0 by exact Hb]; reflexivity.
  - apply (iter_inv (fun x => c_at x a = c_at c a)); [|reflexivity].
    intros x Hx. rewrite H by exact H0. exact Hx.
  - rewrite mem_app in H1. apply orb_false_elim in H1. destruct H1 as [Ha Hb].
    cbn. rewrite H0 by exact Hb. cbn. rewrite H by exact Ha. reflexivity.
  - rewrite mem_app in H1. apply orb_false_elim in H1. destruct H1 as [Ha Hb].
    rewrite H0 by exact Hb. apply H. exact Ha.
Qed.

(* ---- agreement of two runs *)
Definition agree (W : list string) (c1 c2 : cfg V) : Prop :=
  c_obs c1 = c_obs c2 /\ c_pc c1 = c_pc c2 /\ c_ab c1 = c_ab c2 /\
  (forall a, c_saved c1 a = c_saved c2 a) /\
  (forall a, mem a hp = true -> c_at c1 a = c_at c2 a) /\
  (forall a, mem a W = true -> c_at c1 a = c_at c2 a).

Lemma agree_weaken : forall W1 W2 c1 c2, (forall a, mem a W2 = true -> mem a W1 = true) ->
  agree W1 c1 c2 -> agree W2 c1 c2.
Proof.
  intros W1 W2 c1 c2 Hs (H1 & H2 & H3 & H4 & H5 & H6). repeat split; auto.
Qed.

Lemma agree_at : forall W c1 c2 a, agree W c1 c2 -> mem a hp || mem a W = true -> c_at c1 a = c_at c2 a.
Proof.
  intros W c1 c2 a (_ & _ & _ & _ & H5 & H6) H. apply orb_true_iff in H. destruct H; auto.
Qed.

Lemma agree_set_ab : forall W c1 c2 b1 b2, b1 = b2 -> agree W c1 c2 -> agree W (set_ab c1 b1) (set_ab c2 b2).
Proof. intros W c1 c2 b1 b2 Hb (H1 & H2 & H3 & H4 & H5 & H6). subst. repeat split; cbn; auto. Qed.

Lemma agree_tick : forall W c1 c2, agree W c1 c2 -> agree W (tick c1) (tick c2).
Proof. intros W c1 c2 (H1 & H2 & H3 & H4 & H5 & H6). repeat split; cbn; auto. Qed.

Lemma agree_observe : forall W c1 c2 o1 o2, o1 = o2 -> agree W c1 c2 -> agree W (observe c1 o1) (observe c2 o2).
Proof.
  intros W c1 c2 o1 o2 Ho (H1 & H2 & H3 & H4 & H5 & H6). subst. repeat split; cbn; auto. rewrite H1. reflexivity.
Qed.

Lemma agree_store : forall W c1 c2 a v1 v2, v1 = v2 -> agree W c1 c2 ->
  agree (a :: W) (store c1 a v1) (store c2 a v2).
Proof.
  intros W c1 c2 a v1 v2 Hv (H1 & H2 & H3 & H4 & H5 & H6). subst.
  repeat split; cbn [store c_at c_saved c_obs c_pc c_ab]; auto.
  - intros b Hb. unfold upd. destruct (String.eqb b a); auto.
  - intros b Hb. unfold upd. destruct (String.eqb b a) eqn:Hab; [reflexivity|].
    rewrite mem_cons, Hab in Hb. cbn [orb] in Hb. auto.
Qed.

Lemma agree_store_same : forall W c1 c2 a v1 v2, v1 = v2 -> agree W c1 c2 ->
  agree W (store c1 a v1) (store c2 a v2).
Proof.
  intros W c1 c2 a v1 v2 Hv H. eapply agree_weaken; [|apply agree_store; [exact Hv|exact H]].
  intros b Hb. rewrite mem_cons, Hb. apply orb_true_r.
Qed.

Definition both (W W' : list string) (r1 r2 : cfg V) : Prop :=
  agree W r1 r2 /\ (c_ab r1 = false -> agree W' r1 r2).

Lemma both_aborted : forall W W' c1 c2, agree W c1 c2 -> c_ab c1 = true -> both W W' c1 c2.
Proof. intros W W' c1 c2 H Hab. split; [exact H|]. intros Hf. rewrite Hab in Hf. discriminate. Qed.

Lemma exec_agree :
  (forall e W W' c1 c2, check1 hp dm e W = Some W' -> agree W c1 c2 -> both W W' (ex1 e c1) (ex1 e c2)) /\
  (forall es W W' c1 c2, check hp dm es W = Some W' -> agree W c1 c2 -> both W W' (exs es c1) (exs es c2)).
Proof.
  apply event_events_ind.
  (* atomic events: shared prologue *)
  all: try (intros a W W' c1 c2 Hc Hag; cbn [check1] in Hc; cbn [exec1 execs];
            pose proof Hag as (Ho & Hp & Hb & Hs & _ & _); rewrite <- Hb;
            destruct (c_ab c1) eqn:Hab1; [apply both_aborted; assumption|]).
  - (* Read *)
    destruct (mem a hp || mem a W) eqn:Hm; inversion Hc; subst. rewrite <- Hp, <- Ho.
    destruct (i_abort I (c_pc c1) (c_obs c1)).
    + apply both_aborted; [apply agree_set_ab; auto | reflexivity].
    + assert (Hx : agree W' (observe c1 [OV (c_at c1 a)]) (observe c2 [OV (c_at c2 a)])).
      { apply agree_observe; [|exact Hag]. rewrite (agree_at _ _ _ _ Hag Hm). reflexivity. }
      split; [exact Hx | intros _; exact Hx].
  - (* Save *)
    destruct (mem a hp || mem a W) eqn:Hm; inversion Hc; subst. rewrite <- Hp, <- Ho.
    destruct (i_abort I (c_pc c1) (c_obs c1)).
    + apply both_aborted; [apply agree_set_ab; auto | reflexivity].
    + pose proof (agree_at _ _ _ _ Hag Hm) as Hat.
      assert (Hx : agree W' (save c1 a) (save c2 a)).
      { destruct Hag as (H1 & H2 & H3 & H4 & H5 & H6). repeat split; cbn [save c_at c_saved c_obs c_pc c_ab]; auto.
        - rewrite Hat, H1. reflexivity.
        - intros b. unfold upd. destruct (String.eqb b a); auto. }
      split; [exact Hx | intros _; exact Hx].
  - (* Write *)
    inversion Hc; subst. rewrite <- Hp, <- Ho.
    destruct (i_abort I (c_pc c1) (c_obs c1)).
    + apply both_aborted; [apply agree_set_ab; auto | reflexivity].
    + split; [apply agree_store_same; auto | intros _; apply agree_store; auto].
  - (* Restore *)
    inversion Hc; subst.
    split; [apply agree_store_same; auto | intros _; apply agree_store; auto].
  - (* Mut *)
    destruct (mem a hp || mem a W) eqn:Hm; inversion Hc; subst. rewrite <- Hp, <- Ho.
    destruct (i_abort I (c_pc c1) (c_obs c1)).
    + apply both_aborted; [apply agree_set_ab; auto | reflexivity].
    + pose proof (agree_at _ _ _ _ Hag Hm) as Hat.
      assert (Hx : agree W' (store c1 a (Some (i_mut I (c_pc c1) (c_obs c1) (c_at c1 a))))
                            (store c2 a (Some (i_mut I (c_pc c1) (c_obs c1) (c_at c2 a))))).
      { apply agree_store_same; [rewrite Hat; reflexivity | exact Hag]. }
      split; [exact Hx | intros _; exact Hx].
  - (* ReadParams *)
    intros W W' c1 c2 Hc Hag. cbn [check1] in Hc. inversion Hc; subst. cbn [exec1 execs].
    pose proof Hag as (Ho & Hp & Hb & Hs & Hh & _). rewrite <- Hb.
    destruct (c_ab c1) eqn:Hab1; [apply both_aborted; assumption|]. rewrite <- Hp, <- Ho.
    destruct (i_abort I (c_pc c1) (c_obs c1)).
    + apply both_aborted; [apply agree_set_ab; auto | reflexivity].
    + assert (Hx : agree W' (observe c1 (map (fun a => OV (c_at c1 a)) hp)) (observe c2 (map (fun a => OV (c_at c2 a)) hp))).
      { apply agree_observe; [|exact Hag]. apply map_ext_in. intros a Ha. rewrite Hh; [reflexivity|]. apply mem_In. exact Ha. }
      split; [exact Hx | intros _; exact Hx].
  - (* CheckFitted *)
    intros W W' c1 c2 Hc Hag. cbn [check1] in Hc.
    destruct (forallb (fun a => mem a hp || mem a W) (filter last_is_us dm)) eqn:Hall; inversion Hc; subst. cbn [exec1 execs].
    pose proof Hag as (Ho & Hp & Hb & Hs & _ & _). rewrite <- Hb.
    destruct (c_ab c1) eqn:Hab1; [apply both_aborted; assumption|]. rewrite <- Hp, <- Ho.
    destruct (i_abort I (c_pc c1) (c_obs c1)).
    + apply both_aborted; [apply agree_set_ab; auto | reflexivity].
    + assert (Hx : agree W' (observe c1 [OB (existsb (fun a => is_some (c_at c1 a)) (filter last_is_us dm))])
                            (observe c2 [OB (existsb (fun a => is_some (c_at c2 a)) (filter last_is_us dm))])).
      { apply agree_observe; [|exact Hag]. f_equal. f_equal.
        rewrite forallb_forall in Hall. clear Hc.
        induction (filter last_is_us dm) as [|x l IH]; [reflexivity|]. cbn [existsb].
        rewrite (agree_at _ _ _ _ Hag (Hall x (or_introl eq_refl))). f_equal. apply IH.
        intros y Hy. apply Hall. right. exact Hy. }
      split; [exact Hx | intros _; exact Hx].
  - intros; discriminate.
  - intros; discriminate.
  - intros; discriminate.
  - (* Branch *)
    intros a IHa b IHb W W' c1 c2 Hc Hag. cbn [check1] in Hc.
    destruct (check hp dm a W) as [Wa|] eqn:Ha; [|discriminate]. destruct (check hp dm b W) as [Wb|] eqn:Hb'; [|discriminate].
    inversion Hc; subst. rewrite !exec1_Branch.
    pose proof Hag as (Ho & Hp & Hb & Hs & _ & _). rewrite <- Hb.
    destruct (c_ab c1) eqn:Hab1; [apply both_aborted; assumption|]. rewrite <- Hp, <- Ho.
    destruct (i_abort I (c_pc c1) (c_obs c1)).
    + apply both_aborted; [apply agree_set_ab; auto | reflexivity].
    + destruct (i_choose I (c_pc c1) (c_obs c1)).
      * destruct (IHa _ _ _ _ Ha (agree_tick _ _ _ Hag)) as [H1 H2]. split; [exact H1|].
        intros Hn. eapply agree_weaken; [|apply H2; exact Hn]. intros x Hx. rewrite mem_inter in Hx.
        apply andb_true_iff in Hx. tauto.
      * destruct (IHb _ _ _ _ Hb' (agree_tick _ _ _ Hag)) as [H1 H2]. split; [exact H1|].
        intros Hn. eapply agree_weaken; [|apply H2; exact Hn]. intros x Hx. rewrite mem_inter in Hx.
        apply andb_true_iff in Hx. tauto.
  - (* Loop *)
    intros b IHb W W' c1 c2 Hc Hag. cbn [check1] in Hc.
    destruct (check hp dm b W) as [Wb|] eqn:Hb'; [|discriminate]. inversion Hc; subst. rewrite !exec1_Loop.
    pose proof Hag as (Ho & Hp & Hb & Hs & _ & _). rewrite <- Hb.
    destruct (c_ab c1) eqn:Hab1; [apply both_aborted; assumption|]. rewrite <- Hp, <- Ho.
    destruct (i_abort I (c_pc c1) (c_obs c1)).
    + apply both_aborted; [apply agree_set_ab; auto | reflexivity].
    + assert (Hx : forall n x1 x2, agree W' x1 x2 -> agree W' (Nat.iter n (exs b) x1) (Nat.iter n (exs b) x2)).
      { induction n as [|n IHn]; intros x1 x2 Hx; cbn; [exact Hx|].
        destruct (IHb _ _ _ _ Hb' (IHn _ _ Hx)) as [H1 _]. exact H1. }
      split; [|intros _]; apply Hx; apply agree_tick; exact Hag.
  - (* Finally *)
    intros b IHb f IHf W W' c1 c2 Hc Hag. cbn [check1] in Hc.
    destruct (check hp dm b W) as [Wb|] eqn:Hb'; [|discriminate].
    destruct (check hp dm f W) as [Wf0|] eqn:Hf0; [|discriminate]. rewrite !exec1_Finally.
    pose proof Hag as (Ho & Hp & Hb & Hs & _ & _). rewrite <- Hb.
    destruct (c_ab c1) eqn:Hab1; [apply both_aborted; assumption|]. rewrite <- Hp, <- Ho.
    destruct (i_abort I (c_pc c1) (c_obs c1)).
    + apply both_aborted; [apply agree_set_ab; auto | reflexivity].
    +
      destruct (IHb _ _ _ _ Hb' (agree_tick _ _ _ Hag)) as [B1 B2].
      set (m1 := exs b (tick c1)) in *. set (m2 := exs b (tick c2)) in *.
      pose proof B1 as (_ & _ & Bab & _).
      destruct (c_ab m1) eqn:Habm.
      * (* the body was interrupted: the handler runs on states agreeing on W *)
        destruct (IHf _ _ _ _ Hf0 (agree_set_ab _ _ _ false false eq_refl B1)) as [F1 _].
        pose proof F1 as (_ & _ & Fab & _).
        rewrite <- Bab. cbn [orb].
        apply both_aborted; [apply agree_set_ab; [reflexivity|exact F1] | reflexivity].
      * destruct (IHf _ _ _ _ Hc (agree_set_ab _ _ _ false false eq_refl (B2 eq_refl))) as [F1 F2].
        pose proof F1 as (_ & _ & Fab & _).
        rewrite <- Bab. cbn [orb].
        split.
        -- apply agree_set_ab; [exact Fab|]. eapply agree_weaken; [|exact F1].
           intros x Hx. eapply (proj2 check_mono); [exact Hb'|exact Hx].
        -- cbn. intros Hn. apply agree_set_ab; [exact Fab|]. apply F2. exact Hn.
  - intros; discriminate.
  - (* ENil *)
    intros W W' c1 c2 Hc Hag. cbn in Hc. inversion Hc; subst. cbn. split; [exact Hag | intros _; exact Hag].
  - (* ECons *)
    intros e IHe r IHr W W' c1 c2 Hc Hag. cbn [check] in Hc.
    destruct (check1 hp dm e W) as [W1|] eqn:He; [|discriminate]. rewrite !execs_ECons.
    destruct (IHe _ _ _ _ He Hag) as [E1 E2].
    destruct (c_ab (ex1 e c1)) eqn:Hab.
    + pose proof E1 as (_ & _ & Eab & _).
      rewrite !execs_aborted by (try exact Hab; rewrite <- Eab; exact Hab).
      apply both_aborted; assumption.
    + destruct (IHr _ _ _ _ Hc (E2 eq_refl)) as [R1 R2]. split; [|exact R2].
      eapply agree_weaken; [|exact R1]. intros x Hx. eapply (proj1 check_mono); [exact He|exact Hx].
Qed.

(* ---- hyper-parameters survive a protected region *)
Lemma only_sound : forall x,
  (forall e, only1 hp x e = true -> forall c,
     (forall a, mem a hp = true -> String.eqb a x = false -> c_at (ex1 e c) a = c_at c a) /\
     c_saved (ex1 e c) x = c_saved c x) /\
  (forall es, only hp x es = true -> forall c,
     (forall a, mem a hp = true -> String.eqb a x = false -> c_at (exs es c) a = c_at c a) /\
     c_saved (exs es c) x = c_saved c x).
Proof.
  intros x. apply event_events_ind; cbn [only1 only exec1 execs]; intros;
    try (destruct (c_ab c); [split; reflexivity|]); try (destruct (i_abort I (c_pc c) (c_obs c)); [split; reflexivity|]);
    try (split; reflexivity); try discriminate.
  - (* Save *)
    split; [reflexivity|]. cbn. apply upd_other. rewrite String.eqb_sym. apply negb_true_iff. exact H.
  - (* Write *)
    split; [|reflexivity]. intros b Hb Hbx. cbn. apply upd_other.
    apply orb_true_iff in H. destruct H as [H|H].
    + destruct (String.eqb b a) eqn:Hba; [|reflexivity]. apply String.eqb_eq in Hba. subst.
      rewrite Hb in H. discriminate.
    + apply String.eqb_eq in H. subst. exact Hbx.
  - (* Restore *)
    split; [|reflexivity]. intros b Hb Hbx. cbn. apply upd_other.
    destruct (String.eqb b a) eqn:Hba; [|reflexivity]. apply String.eqb_eq in Hba. subst. rewrite Hb in H. discriminate.
  - (* Mut *)
    split; [|reflexivity]. intros b Hb Hbx. cbn. apply upd_other.
    destruct (String.eqb b a) eqn:Hba; [|reflexivity]. apply String.eqb_eq in Hba. subst. rewrite Hb in H. discriminate.
  - (* Branch *)
    apply andb_true_iff in H1. destruct H1 as [Ha Hb].
    destruct (i_choose I (c_pc c) (c_obs c)); [destruct (H Ha (tick c)) | destruct (H0 Hb (tick c))]; split; assumption.
  - (* Loop *)
    apply (iter_inv (fun y => (forall a, mem a hp = true -> String.eqb a x = false -> c_at y a = c_at c a) /\ c_saved y x = c_saved c x)).
    + intros y [Y1 Y2]. destruct (H H0 y) as [Z1 Z2]. split; [|transitivity (c_saved y x); [exact Z2|exact Y2]].
      intros a Ha Hax. transitivity (c_at y a); [apply Z1; assumption | apply Y1; assumption].
    + split; reflexivity.
  - (* Finally *)
    apply andb_true_iff in H1. destruct H1 as [Ha Hb].
    destruct (H Ha (tick c)) as [B1 B2]. destruct (H0 Hb (set_ab (exs body (tick c)) false)) as [F1 F2].
    split.
    + intros a Ha' Hax. transitivity (c_at (set_ab (exs body (tick c)) false) a);
        [exact (F1 a Ha' Hax) | exact (B1 a Ha' Hax)].
    + transitivity (c_saved (set_ab (exs body (tick c)) false) x); [exact F2 | exact B2].
  - (* ECons *)
    apply andb_true_iff in H1. destruct H1 as [He Hr].
    destruct (H He c) as [E1 E2]. destruct (H0 Hr (ex1 e c)) as [R1 R2]. split.
    + intros a Ha Hax. transitivity (c_at (ex1 e c) a); [apply R1; assumption | apply E1; assumption].
    + transitivity (c_saved (ex1 e c) x); [exact R2 | exact E2].
Qed.

Definition saved_ok (sv : option string) (c : cfg V) : Prop :=
  forall a, sv = Some a -> c_ab c = false -> c_saved c a = c_at c a.

Lemma pres_sound :
  (forall e, pres1 hp e = true -> forall c a, mem a hp = true -> c_at (ex1 e c) a = c_at c a) /\
  (forall es sv, presS hp sv es = true -> forall c, saved_ok sv c -> forall a, mem a hp = true -> c_at (exs es c) a = c_at c a).
Proof.
  apply event_events_ind; cbn [pres1 presS exec1 execs]; intros;
    try (destruct (c_ab c) eqn:Hab; [reflexivity|]); try (destruct (i_abort I (c_pc c) (c_obs c)) eqn:Habort; [reflexivity|]);
    try reflexivity; try discriminate.
  - (* Write *)
    cbn. apply upd_other. destruct (String.eqb a0 a) eqn:E; [|reflexivity]. apply String.eqb_eq in E. subst.
    rewrite H0 in H. discriminate.
  - (* Restore *)
    cbn. apply upd_other. destruct (String.eqb a0 a) eqn:E; [|reflexivity]. apply String.eqb_eq in E. subst.
    rewrite H0 in H. discriminate.
  - (* Mut *)
    cbn. apply upd_other. destruct (String.eqb a0 a) eqn:E; [|reflexivity]. apply String.eqb_eq in E. subst.
    rewrite H0 in H. discriminate.
  - (* Branch *)
    apply andb_true_iff in H1. destruct H1 as [Ha Hb].
    destruct (i_choose I (c_pc c) (c_obs c)).
    + rewrite (H None Ha (tick c)); [reflexivity | intros x Hx; discriminate | assumption].
    + rewrite (H0 None Hb (tick c)); [reflexivity | intros x Hx; discriminate | assumption].
  - (* Loop *)
    apply (iter_inv (fun y => c_at y a = c_at c a)); [|reflexivity].
    intros y Hy. rewrite (H None H0 y); [exact Hy | intros x Hx; discriminate | assumption].
  - (* Finally *)
    apply andb_true_iff in H1. destruct H1 as [Ha Hb]. cbn.
    rewrite (H0 None Hb); [|intros x Hx; discriminate | assumption]. cbn.
    rewrite (H None Ha); [reflexivity | intros x Hx; discriminate | assumption].
  - (* ECons *)
    apply andb_true_iff in H1. destruct H1 as [He Hr].
    assert (Hstep : c_at (ex1 e c) a = c_at c a).
    { destruct sv as [x|]; [|apply H; assumption].
      destruct e; try (apply H; assumption).
      destruct fin as [|e0 fin0]; [apply H; assumption|].
      destruct e0; try (apply H; assumption).
      destruct fin0; [|apply H; assumption].
      apply orb_true_iff in He. destruct He as [He|He]; [|apply H; assumption].
      apply andb_true_iff in He. destruct He as [Hxa Hon]. apply String.eqb_eq in Hxa. subst a0.
      (* v = self.x; try: body finally: self.x = v *)
      rewrite exec1_Finally.
      destruct (c_ab c) eqn:Hab; [reflexivity|].
      destruct (i_abort I (c_pc c) (c_obs c)); [reflexivity|].
      destruct (proj2 (only_sound x) _ Hon (tick c)) as [O1 O2].
      set (m := exs body (tick c)) in *.
      change (exs (ECons (Restore x) ENil) (set_ab m false)) with (store (set_ab m false) x (c_saved (set_ab m false) x)).
      cbn [set_ab store c_at c_saved]. unfold upd. destruct (String.eqb a x) eqn:Eax.
      - apply String.eqb_eq in Eax. subst a. transitivity (c_saved c x); [exact O2|]. apply H2; [reflexivity|exact Hab].
      - exact (O1 a H3 Eax). }
    rewrite (H0 _ Hr (ex1 e c)); [exact Hstep | | assumption].
    (* the saved copy is current right after a Save *)
    intros x Hx Habx. destruct e; cbn in Hx; try discriminate. inversion Hx; subst a0.
    rewrite exec1_Save in *. destruct (c_ab c) eqn:Hab; [congruence|].
    destruct (i_abort I (c_pc c) (c_obs c)); [cbn in Habx; discriminate|]. cbn. apply upd_same.
Qed.

End Exec.

(* ------------------------------------------------------------------------------------------ dom, support *)
Lemma wrs_in_dom : forall k m a, In m public_ops -> mem a (hps k) = false -> mem a (dom k) = false ->
  mem a (wrs (flow k m)) = false.
Proof.
  intros k m a Hm Hh Hd. unfold dom in Hd. rewrite mem_filter, Hh in Hd. cbn [negb] in Hd. rewrite andb_true_r in Hd.
  unfold public_ops in *. cbn [flat_map] in Hd. rewrite !mem_app in Hd.
  repeat (apply orb_false_elim in Hd; destruct Hd as [? Hd]).
  cbn in Hm. repeat (destruct Hm as [Hm|Hm]; [subst; assumption|]). contradiction.
Qed.

Section Ops.
Context {V : Type}.
Context (I : string -> nat -> interp V).
Context (k : klass).

Definition supp (s : dict V) : Prop := forall a, mem a (hps k) = false -> mem a (dom k) = false -> s a = None.

Lemma call_frame : forall m d s a, mem a (wrs (flow k m)) = false -> fst (call I k m d s) a = s a.
Proof. intros m d s a H. unfold call. cbn. rewrite (proj2 (frame (I m d) (hps k) (dom k))) by exact H. reflexivity. Qed.

Lemma call_supp : forall m d s, In m public_ops -> supp s -> supp (fst (call I k m d s)).
Proof.
  intros m d s Hm Hs a Hh Hd. rewrite call_frame; [apply Hs; assumption|]. apply wrs_in_dom; assumption.
Qed.

Lemma args_in_hps : stores_ok k = true -> forall a, mem a (k_args k) = true -> mem a (hps k) = true.
Proof.
  intros H a Ha. unfold stores_ok in H. apply andb_true_iff in H. destruct H as [H _].
  apply andb_true_iff in H. destruct H as [_ H].
  pose proof (forallb_mem _ _ H a Ha) as Hs. cbn beta in Hs. unfold store_of in Hs.
  destruct (filter (fun s => String.eqb (fst s) a) (k_stores k)) as [|x l] eqn:Hf; [discriminate|].
  assert (Hin : In x (filter (fun s => String.eqb (fst s) a) (k_stores k))) by (rewrite Hf; left; reflexivity).
  apply filter_In in Hin. destruct Hin as [Hin Hx]. apply String.eqb_eq in Hx. subst a.
  apply mem_In. unfold hps. apply in_map. exact Hin.
Qed.

Lemma set_params_supp : stores_ok k = true -> forall kv s, supp s -> supp (set_params k kv s).
Proof.
  intros Hok kv. unfold set_params. induction kv as [|x kv IH]; intros s Hs; cbn [fold_left]; [exact Hs|].
  apply IH. destruct (mem (fst x) (k_args k)) eqn:Hm; [|exact Hs].
  intros a Hh Hd. unfold upd. destruct (String.eqb a (fst x)) eqn:E; [|apply Hs; assumption].
  apply String.eqb_eq in E. subst a. rewrite (args_in_hps Hok _ Hm) in Hh. discriminate.
Qed.

Lemma fresh_supp : forall s, supp (fresh k s).
Proof. intros s a Hh _. unfold fresh. rewrite Hh. reflexivity. Qed.

Lemma apply_op_supp : stores_ok k = true -> forall o s, supp s -> supp (apply_op I k o s).
Proof.
  intros Hok o s Hs. destruct o; cbn [apply_op]; try (apply call_supp; [cbn; tauto | exact Hs]).
  - apply set_params_supp; assumption.
  - apply fresh_supp.
Qed.

Lemma run_supp : stores_ok k = true -> forall h s, supp s -> supp (run I k h s).
Proof.
  intros Hok h. unfold run. induction h as [|o h IH]; intros s Hs; cbn [fold_left]; [exact Hs|].
  apply IH. apply apply_op_supp; assumption.
Qed.

(* the result of a public call whose flow has no stale read and rewrites every fitted attribute the
   class can hold depends on the hyper-parameter part of the object only *)
Definition same_result (r1 r2 : dict V * bool) : Prop :=
  snd r1 = snd r2 /\ (snd r1 = false -> forall a, fst r1 a = fst r2 a).

Lemma call_history_independent : forall m W, In m public_ops ->
  check (hps k) (dom k) (flow k m) [] = Some W -> subset (dom k) W = true ->
  forall d s, supp s -> same_result (call I k m d s) (call I k m d (fresh k s)).
Proof.
  intros m W Hm Hc Hsub d s Hs. unfold same_result, call. cbn [fst snd].
  assert (Hag : agree (hps k) [] (start s) (start (fresh k s))).
  { unfold agree, start. cbn. repeat split; auto.
    - intros a Ha. unfold fresh. rewrite Ha. reflexivity.
    - intros a Ha. discriminate. }
  destruct (proj2 (exec_agree (I m d) (hps k) (dom k)) _ _ _ _ _ Hc Hag) as [A1 A2].
  pose proof A1 as (_ & _ & Hab & _). split; [exact Hab|].
  intros Hn a. destruct (A2 Hn) as (_ & _ & _ & _ & Hh & Hw).
  destruct (mem a (hps k)) eqn:Eh; [apply Hh; exact Eh|].
  destruct (mem a W) eqn:Ew; [apply Hw; exact Ew|].
  assert (Ed : mem a (dom k) = false).
  { destruct (mem a (dom k)) eqn:Ed; [|reflexivity]. rewrite (subset_mem _ _ Hsub a Ed) in Ew. discriminate. }
  pose proof (wrs_in_dom k m a Hm Eh Ed) as Hwr.
  rewrite !(proj2 (frame (I m d) (hps k) (dom k))) by exact Hwr. cbn.
  rewrite (Hs a Eh Ed). unfold fresh. rewrite Eh. reflexivity.
Qed.

Lemma fit_history_independent_k : no_stale_read k = true -> fit_overwrites_all k = true -> stores_ok k = true ->
  forall h s0 d, supp s0 ->
  let s := run I k h s0 in same_result (call I k "fit" d s) (call I k "fit" d (fresh k s)).
Proof.
  intros Hst Hov Hok h s0 d Hs0 s. unfold no_stale_read in Hst. apply andb_true_iff in Hst. destruct Hst as [_ Hst].
  unfold fit_overwrites_all, fit_must in Hov. unfold fit_flow in *.
  destruct (check (hps k) (dom k) (flow k "fit") []) as [W|] eqn:Hc; [|discriminate].
  eapply call_history_independent; [cbn; tauto | exact Hc | exact Hov | apply run_supp; assumption].
Qed.

Lemma path_history_independent_k : has_method k "path" = true -> path_no_stale_read k = true -> stores_ok k = true ->
  forall h s0 d, supp s0 ->
  let s := run I k h s0 in same_result (call I k "path" d s) (call I k "path" d (fresh k s)).
Proof.
  intros Hm Hp Hok h s0 d Hs0 s. unfold path_no_stale_read in Hp. rewrite Hm in Hp. cbn [negb orb] in Hp.
  apply andb_true_iff in Hp. destruct Hp as [_ Hp].
  destruct (check (hps k) (dom k) (flow k "path") []) as [W|] eqn:Hc; [|discriminate].
  eapply call_history_independent; [cbn; tauto | exact Hc | exact Hp | apply run_supp; assumption].
Qed.

Lemma fit_preserves_params_k : no_hyperparam_write k = true ->
  forall d s a, mem a (hps k) = true -> fst (call I k "fit" d s) a = s a.
Proof.
  intros H d s a Ha. apply call_frame. unfold no_hyperparam_write, fit_flow in H.
  destruct (mem a (wrs (flow k "fit"))) eqn:E; [|reflexivity].
  pose proof (forallb_mem _ _ H a E) as Hn. cbn beta in Hn. rewrite Ha in Hn. discriminate.
Qed.

Lemma predict_writes_nothing_k : predict_methods_write_nothing k = true ->
  forall m, In m ["predict"; "predict_proba"; "score"] -> forall d s a, fst (call I k m d s) a = s a.
Proof.
  intros H m Hm d s a. apply call_frame. unfold predict_methods_write_nothing in H. rewrite forallb_forall in H.
  specialize (H m Hm). destruct (wrs (flow k m)); [reflexivity|discriminate].
Qed.

Lemma path_preserves_params_k : path_restores_params k = true ->
  forall d s a, mem a (hps k) = true -> fst (call I k "path" d s) a = s a.
Proof.
  intros H d s a Ha. unfold path_restores_params in H. apply orb_true_iff in H. destruct H as [H|H].
  - apply call_frame. unfold has_method in H. unfold flow. destruct (find_method k "path"); [discriminate|]. reflexivity.
  - unfold call. cbn [fst]. unfold pres in H.
    apply (proj2 (pres_sound (I "path" d) (hps k) (dom k)) _ None H); [intros x Hx; discriminate | exact Ha].
Qed.
End Ops.

(* ------------------------------------------------------------------------------------------ constructor / get_params / set_params / clone *)
Section Params.
Context {V : Type}.
Context (k : klass).
Context (cv : string -> V).

Definition val (args : string -> V) (s : string * option string) : V :=
  match snd s with Some p => args p | None => cv (fst s) end.

Lemma construct_spec : forall args a,
  construct k cv args a =
  match rev (store_of k a) with s :: _ => Some (val args s) | [] => None end.
Proof.
  intros args a. unfold construct, store_of.
  assert (G : forall l (d : dict V),
    fold_left (fun d s => upd d (fst s) (Some (match snd s with Some p => args p | None => cv (fst s) end))) l d a =
    match rev (filter (fun s => String.eqb (fst s) a) l) with s :: _ => Some (val args s) | [] => d a end).
  { induction l as [|x l IH]; intros d; [reflexivity|]. cbn [fold_left filter]. rewrite IH.
    destruct (String.eqb (fst x) a) eqn:E.
    - cbn [rev]. destruct (rev (filter (fun s => String.eqb (fst s) a) l)); [|reflexivity].
      cbn. unfold upd. rewrite String.eqb_sym, E. reflexivity.
    - destruct (rev (filter (fun s => String.eqb (fst s) a) l)); [|reflexivity].
      unfold upd. rewrite String.eqb_sym, E. reflexivity. }
  rewrite G. reflexivity.
Qed.

Lemma construct_arg : stores_ok k = true -> forall args a, mem a (k_args k) = true ->
  construct k cv args a = Some (args a).
Proof.
  intros H args a Ha. rewrite construct_spec. unfold stores_ok in H.
  apply andb_true_iff in H. destruct H as [H _]. apply andb_true_iff in H. destruct H as [_ H].
  pose proof (forallb_mem _ _ H a Ha) as Hs. cbn beta in Hs.
  destruct (store_of k a) as [|[x [src|]] [|y l]]; try discriminate.
  apply String.eqb_eq in Hs. subst. reflexivity.
Qed.

Lemma construct_ext : stores_ok k = true -> forall args1 args2,
  (forall p, mem p (k_args k) = true -> args1 p = args2 p) -> forall a, construct k cv args1 a = construct k cv args2 a.
Proof.
  intros H args1 args2 Hext a. rewrite !construct_spec.
  destruct (rev (store_of k a)) as [|s l] eqn:E; [reflexivity|]. f_equal. unfold val.
  destruct (snd s) as [p|] eqn:Es; [|reflexivity]. apply Hext.
  unfold stores_ok in H. apply andb_true_iff in H. destruct H as [_ H].
  assert (Hin : In s (k_stores k)).
  { assert (Hr : In s (rev (store_of k a))) by (rewrite E; left; reflexivity).
    apply in_rev in Hr. unfold store_of in Hr. apply filter_In in Hr. tauto. }
  rewrite forallb_forall in H. specialize (H s Hin). rewrite Es in H. exact H.
Qed.

Lemma args_of_get : forall (d : dict V) dflt a v, mem a (k_args k) = true -> d a = Some v ->
  args_of (get_params k d) dflt a = v.
Proof.
  intros d dflt a v Ha Hd. unfold args_of, get_params.
  induction (k_args k) as [|b l IH]; [discriminate|]. cbn [map find fst].
  destruct (String.eqb b a) eqn:E.
  - apply String.eqb_eq in E. subst. rewrite Hd. reflexivity.
  - apply IH. rewrite mem_cons in Ha. rewrite String.eqb_sym, E in Ha. exact Ha.
Qed.

(* get_params after the constructor returns the arguments; a clone carries the same hyper-parameter part *)
Lemma params_roundtrip_k : stores_ok k = true -> forall args dflt,
  get_params k (construct k cv args) = map (fun a => (a, Some (args a))) (k_args k) /\
  (forall a, clone k cv dflt (construct k cv args) a = construct k cv args a) /\
  (forall a, mem a (k_args k) = true -> construct k cv args a = Some (args a)).
Proof.
  intros H args dflt. split; [|split].
  - unfold get_params. apply map_ext_in. intros a Ha. rewrite construct_arg; [reflexivity|exact H|apply mem_In; exact Ha].
  - intros a. unfold clone. apply construct_ext; [exact H|]. intros p Hp.
    apply args_of_get; [exact Hp|]. apply construct_arg; assumption.
  - intros a Ha. apply construct_arg; assumption.
Qed.

Definition present (l : list (string * option V)) : list (string * V) :=
  flat_map (fun x => match snd x with Some v => [(fst x, v)] | None => [] end) l.

Lemma set_get_identity : forall (d : dict V) a, set_params k (present (get_params k d)) d a = d a.
Proof.
  intros d a. unfold set_params.
  assert (G : forall l (s : dict V), (forall x v, In (x, v) l -> d x = Some v) -> (forall b, s b = d b) ->
             fold_left (fun s x => if mem (fst x) (k_args k) then upd s (fst x) (Some (snd x)) else s) l s a = d a).
  { induction l as [|x l IH]; intros s Hl Hs; cbn [fold_left]; [apply Hs|].
    apply IH; [intros y v Hy; apply Hl; right; exact Hy|].
    intros b. destruct (mem (fst x) (k_args k)); [|apply Hs].
    unfold upd. destruct (String.eqb b (fst x)) eqn:E; [|apply Hs].
    apply String.eqb_eq in E. subst b. symmetry. apply Hl. left. destruct x; reflexivity. }
  apply G; [|reflexivity].
  intros x v Hin. unfold present, get_params in Hin. apply in_flat_map in Hin. destruct Hin as ([y o] & Hy & Hin).
  apply in_map_iff in Hy. destruct Hy as (b & Hb & _). inversion Hb as [[Hyb Ho]]. cbn [fst snd] in Hin.
  subst y o. destruct (d b) as [w|] eqn:E; cbn in Hin; [|contradiction]. destruct Hin as [Hin|[]].
  inversion Hin; subst. exact E.
Qed.
End Params.

(* ------------------------------------------------------------------------------------------ the finite facts, on the regenerated table *)
Lemma table_all_facts : forallb all_facts table = true.
Proof. vm_compute. reflexivity. Qed.

Lemma table_fact : forall k, In k table -> all_facts k = true.
Proof. intros k Hk. pose proof table_all_facts as H. rewrite forallb_forall in H. apply H. exact Hk. Qed.

Ltac split_facts H :=
  unfold all_facts in H; do 8 (apply andb_true_iff in H; let H' := fresh "F" in destruct H as [H H']).

Lemma facts_of : forall k, In k table ->
  no_stale_read k = true /\ fit_overwrites_all k = true /\ no_hyperparam_write k = true /\
  predict_methods_write_nothing k = true /\ path_restores_params k = true /\ path_no_stale_read k = true /\
  resolved k = true /\ classified k = true /\ stores_ok k = true.
Proof. intros k Hk. pose proof (table_fact k Hk) as H. split_facts H. repeat split; assumption. Qed.

Lemma table_classes :
  map k_name (filter k_concrete table) =
  ["LinearModel"; "LinearMMD"; "LinearWasserstein"; "RIM"; "KernelRIM"; "MLPModel"; "MLPMMD"; "MLPWasserstein";
   "SparseLinearModel"; "SparseLinearMMD"; "SparseLinearMI"; "SparseMLPModel"; "SparseMLPMMD";
   "CategoricalModel"; "CategoricalMMD"; "CategoricalWasserstein"; "Douglas"; "Kauri"].
Proof. vm_compute. reflexivity. Qed.

(* ------------------------------------------------------------------------------------------ the statements of Props/C12.v *)
Lemma fit_history_independent : forall k, In k table ->
  forall (V : Type) (I : string -> nat -> interp V) (h : list (op V)) (s0 : dict V) (d : nat),
  (forall a, mem a (hps k) = false -> mem a (dom k) = false -> s0 a = None) ->
  let s := run I k h s0 in
  let r1 := call I k "fit" d s in
  let r2 := call I k "fit" d (fresh k s) in
  snd r1 = snd r2 /\ (snd r1 = false -> forall a, fst r1 a = fst r2 a).
Proof.
  intros k Hk V I h s0 d Hs. destruct (facts_of k Hk) as (F1 & F2 & _ & _ & _ & _ & _ & _ & F9).
  exact (fit_history_independent_k I k F1 F2 F9 h s0 d Hs).
Qed.

Lemma path_history_independent : forall k, In k table -> has_method k "path" = true ->
  forall (V : Type) (I : string -> nat -> interp V) (h : list (op V)) (s0 : dict V) (d : nat),
  (forall a, mem a (hps k) = false -> mem a (dom k) = false -> s0 a = None) ->
  let s := run I k h s0 in
  let r1 := call I k "path" d s in
  let r2 := call I k "path" d (fresh k s) in
  snd r1 = snd r2 /\ (snd r1 = false -> forall a, fst r1 a = fst r2 a).
Proof.
  intros k Hk Hm V I h s0 d Hs. destruct (facts_of k Hk) as (_ & _ & _ & _ & _ & F6 & _ & _ & F9).
  exact (path_history_independent_k I k Hm F6 F9 h s0 d Hs).
Qed.

Lemma fit_preserves_params : forall k, In k table ->
  forall (V : Type) (I : string -> nat -> interp V) (d : nat) (s : dict V) (a : string),
  mem a (hps k) = true -> fst (call I k "fit" d s) a = s a.
Proof.
  intros k Hk V I d s a Ha. destruct (facts_of k Hk) as (_ & _ & F3 & _).
  exact (fit_preserves_params_k I k F3 d s a Ha).
Qed.

Lemma path_preserves_params : forall k, In k table ->
  forall (V : Type) (I : string -> nat -> interp V) (d : nat) (s : dict V) (a : string),
  mem a (hps k) = true -> fst (call I k "path" d s) a = s a.
Proof.
  intros k Hk V I d s a Ha. destruct (facts_of k Hk) as (_ & _ & _ & _ & F5 & _).
  exact (path_preserves_params_k I k F5 d s a Ha).
Qed.

Lemma predict_changes_nothing : forall k, In k table ->
  forall m, In m ["predict"; "predict_proba"; "score"] ->
  forall (V : Type) (I : string -> nat -> interp V) (d : nat) (s : dict V) (a : string),
  fst (call I k m d s) a = s a.
Proof.
  intros k Hk m Hm V I d s a. destruct (facts_of k Hk) as (_ & _ & _ & F4 & _).
  exact (predict_writes_nothing_k I k F4 m Hm d s a).
Qed.

Lemma params_roundtrip : forall k, In k table ->
  forall (V : Type) (cv args : string -> V) (dflt : V),
  get_params k (construct k cv args) = map (fun a => (a, Some (args a))) (k_args k) /\
  (forall a, mem a (k_args k) = true -> construct k cv args a = Some (args a)) /\
  (forall a, clone k cv dflt (construct k cv args) a = construct k cv args a) /\
  (forall (s : dict V) a, set_params k (present (get_params k s)) s a = s a).
Proof.
  intros k Hk V cv args dflt. destruct (facts_of k Hk) as (_ & _ & _ & _ & _ & _ & _ & _ & F9).
  destruct (params_roundtrip_k k cv F9 args dflt) as (R1 & R2 & R3).
  repeat split; [exact R1 | exact R3 | exact R2 | intros s a; apply set_get_identity].
Qed.

(* ------------------------------------------------------------------------------------------ non-vacuity witness *)
Definition nv_interp (m : string) (d : nat) : interp nat :=
  {| i_write := fun pc _ => pc + d; i_mut := fun pc _ _ => pc; i_choose := fun pc _ => Nat.even pc;
     i_iters := fun _ _ => 1; i_abort := fun _ _ => false |}.
Definition nv_start : dict nat := fresh k_SparseMLPModel (fun _ => Some 0).
Definition nv_history : list (op nat) := [OFit 0; OSetParams [("alpha", 7)]; OPath 1; OPredict 0].

Lemma nonvacuous :
  In k_SparseMLPModel table /\ has_method k_SparseMLPModel "path" = true /\
  (forall a, mem a (hps k_SparseMLPModel) = false -> mem a (dom k_SparseMLPModel) = false -> nv_start a = None) /\
  snd (call nv_interp k_SparseMLPModel "path" 1 (run nv_interp k_SparseMLPModel [OFit 0; OSetParams [("alpha", 7)]] nv_start)) = false /\
  let r := call nv_interp k_SparseMLPModel "fit" 2 (run nv_interp k_SparseMLPModel nv_history nv_start) in
  snd r = false /\ fst r "W_skip_" <> None /\ fst r "alpha" = Some 7.
Proof.
  split; [unfold table; repeat (first [left; reflexivity | right])|]. split; [vm_compute; reflexivity|].
  split; [intros a Ha _; unfold nv_start, fresh; rewrite Ha; reflexivity|].
  split; [vm_compute; reflexivity|].
  vm_compute. repeat split; discriminate.
Qed.
