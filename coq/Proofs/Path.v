(* C07 — proofs about the model of the regularisation path (Model/Path.v, rules Gen/PathRules.v).
   Part 1 is generic in the number system and in the rules record; part 2 is over R with the
   regenerated rules [path_rules Rops]. *)
From Coq Require Import List Bool Arith ZArith Lia Reals Lra.
From GV Require Import Common.Num Common.NumR Model.Path Gen.PathRules.
Import ListNotations.

(* ------------------------------------------------------------------ list helpers *)
Lemma map_seq_nth : forall (A : Type) (f : nat -> A) (l : list A) n k d,
  l = map f (seq 0 n) -> k < n -> nth k l d = f k.
Proof.
  intros A f l n k d Hl Hk. subst l.
  rewrite (nth_indep _ d (f 0)) by (rewrite map_length, seq_length; exact Hk).
  rewrite map_nth. rewrite seq_nth by exact Hk. reflexivity.
Qed.

Lemma map_seq_nth_error : forall (A : Type) (f : nat -> A) (l : list A) n k,
  l = map f (seq 0 n) -> k < n -> nth_error l k = Some (f k).
Proof.
  intros A f l n k Hl Hk. subst l.
  rewrite nth_error_map. rewrite nth_error_nth' with (d := 0) by (rewrite seq_length; exact Hk).
  rewrite seq_nth by exact Hk. reflexivity.
Qed.

Lemma map_seq_last : forall (A : Type) (f : nat -> A) n d, last (map f (seq 0 (S n))) d = f n.
Proof.
  intros A f n d. rewrite seq_S, map_app. cbn [map]. apply last_last.
Qed.

Lemma map_Some_inj : forall (A : Type) (l1 l2 : list A), map Some l1 = map Some l2 -> l1 = l2.
Proof.
  intros A l1. induction l1 as [|x l1 IH]; intros [|y l2] H; cbn in H; try discriminate; [reflexivity|].
  injection H as Hx Hl. subst y. f_equal. apply IH. exact Hl.
Qed.

(* ================================================================== part 1: generic *)
Section Generic.
Context {T : Type} (o : NumOps T) (R : PathRules T) (a : Args T) (orc : Oracle T).

Notation inner := (inner o R a orc).
Notation outer := (outer o R a orc).

(* ---- inner loop ---- *)
Lemma inner_spec : forall rem t alpha i pat vs vl1 last n ob',
  inner rem t alpha i pat vs vl1 last = (n, ob') ->
  i <= n <= i + rem /\ (n = i -> ob' = last) /\ (i < n -> ob' = Some (or_epoch orc t alpha (n - 1))).
Proof.
  induction rem as [|r IH]; intros t alpha i pat vs vl1 last n ob' H; cbn [Path.inner] in H.
  - injection H as Hn Ho. subst. split; [lia|]. split; [intros _; reflexivity|intros Hlt; lia].
  - destruct (Z.ltb pat (a_patience a)) eqn:Hp.
    + apply IH in H. destruct H as (Hr & H0 & H1). split; [lia|]. split; [intros He; lia|].
      intros Hlt. destruct (Nat.eq_dec n (S i)) as [He|Hne].
      * rewrite (H0 He). subst n. replace (S i - 1) with i by lia. reflexivity.
      * apply H1. lia.
    + injection H as Hn Ho. subst. split; [lia|]. split; [intros _; reflexivity|intros Hlt; lia].
Qed.

(* the body runs at least once when max_iter - i >= 1 and patience < max_patience *)
Lemma inner_progress : forall rem t alpha i pat vs vl1 last,
  1 <= rem -> (pat < a_patience a)%Z -> i < fst (inner rem t alpha i pat vs vl1 last).
Proof.
  intros [|r] t alpha i pat vs vl1 last Hr Hp; [lia|]. cbn [Path.inner].
  apply Z.ltb_lt in Hp. rewrite Hp.
  destruct (inner r t alpha (S i) _ _ _ (Some (or_epoch orc t alpha i))) as [n ob'] eqn:E.
  apply inner_spec in E. cbn [fst]. lia.
Qed.

Lemma inner_some : forall rem t alpha i pat vs vl1 n ob,
  inner rem t alpha i pat vs vl1 None = (n, Some ob) -> i < n /\ ob = or_epoch orc t alpha (n - 1).
Proof.
  intros rem t alpha i pat vs vl1 n ob H. apply inner_spec in H. destruct H as (Hr & H0 & H1).
  destruct (Nat.eq_dec n i) as [He|Hne]; [specialize (H0 He); discriminate|].
  assert (Hlt : i < n) by lia. specialize (H1 Hlt). injection H1 as H1. split; assumption.
Qed.

(* the body never runs when the guard is false at the start *)
Lemma inner_zero : forall rem t alpha i pat vs vl1 last,
  rem = 0 \/ (a_patience a <= pat)%Z -> inner rem t alpha i pat vs vl1 last = (i, last).
Proof.
  intros [|r] t alpha i pat vs vl1 last H; cbn [Path.inner]; [reflexivity|].
  destruct H as [H|H]; [discriminate|]. apply Z.ltb_ge in H. rewrite H. reflexivity.
Qed.

(* a NaN score ends the loop at once: every epoch before the last one run had a proper score *)
Lemma inner_nan_stops : forall rem t alpha i pat vs vl1 last n ob',
  inner rem t alpha i pat vs vl1 last = (n, ob') ->
  forall j, i <= j -> S j < n -> ob_score (or_epoch orc t alpha j) <> None.
Proof.
  induction rem as [|r IH]; intros t alpha i pat vs vl1 last n ob' H j Hij Hjn; cbn [Path.inner] in H.
  - injection H as Hn _. lia.
  - destruct (Z.ltb pat (a_patience a)) eqn:Hp.
    + destruct (Nat.eq_dec j i) as [He|Hne].
      * subst j. intros Hnan. rewrite Hnan in H. cbn [oisnan] in H.
        rewrite inner_zero in H by (right; lia). injection H as Hn _. lia.
      * eapply IH; [exact H| |exact Hjn]. lia.
    + injection H as Hn _. lia.
Qed.

(* ---- closed forms: what step t does only depends on t ---- *)
Fixpoint alpha_seq (t : nat) : T :=
  match t with O => a_alpha a | S k => r_alpha_next R (alpha_seq k) (eff_mult R a) end.
Definition step_res (t : nat) : nat * option (Obs T) :=
  let alpha := alpha_seq t in let vv := or_val orc t alpha in
  inner (a_max_iter a) t alpha 0 0%Z (fst vv) (weighted o (snd vv) alpha) None.
Definition step_ob (t : nat) : Obs T := or_epoch orc t (alpha_seq t) (fst (step_res t) - 1).
Definition score_at (t : nat) : option T := ob_score (step_ob t).
Definition nsel_before (t : nat) : nat :=
  match t with O => ob_nsel (or_init orc) | S k => ob_nsel (step_ob k) end.
Fixpoint best_at (t : nat) : option T :=
  match t with
  | O => ob_score (or_init orc)
  | S k => if r_best_update R (score_at k) (best_at k) (ob_nsel (step_ob k)) (a_d a) then score_at k else best_at k
  end.
Fixpoint bidx_at (t : nat) : option nat :=
  match t with
  | O => None
  | S k => if r_keep_test R (score_at k) (eff_keep R a) (best_at (S k)) then Some k else bidx_at k
  end.
Definition guard (nsel : nat) : bool := Z.ltb (eff_minf R a) (Z.of_nat nsel).
(* step k was entered, ran at least one epoch and ended on a proper score *)
Definition completed (k : nat) : Prop :=
  guard (nsel_before k) = true /\
  exists n g, step_res k = (n, Some (step_ob k)) /\ 1 <= n <= a_max_iter a /\ score_at k = Some g.

Lemma step_res_shape : forall t n ob, step_res t = (n, Some ob) ->
  1 <= n <= a_max_iter a /\ ob = step_ob t.
Proof.
  intros t n ob H. unfold step_ob. rewrite H. cbn [fst]. unfold step_res in H.
  apply inner_spec in H. destruct H as (Hr & H0 & H1).
  destruct (Nat.eq_dec n 0) as [He|Hne].
  - specialize (H0 He). discriminate.
  - assert (Hlt : 0 < n) by lia. specialize (H1 Hlt). injection H1 as H1. split; [lia|exact H1].
Qed.

(* everything the state holds, as a function of the number of completed steps *)
Definition Core (st : St T) : Prop :=
  let n := s_t st in
  s_alpha st = alpha_seq n /\ s_best st = best_at n /\ s_bidx st = bidx_at n /\
  s_alphas st = map alpha_seq (seq 0 n) /\
  s_nfeat st = map (fun k => ob_nsel (step_ob k)) (seq 0 n) /\
  map Some (s_gem st) = map score_at (seq 0 n) /\
  s_pens st = map (fun k => ob_pen (step_ob k)) (seq 0 n) /\
  (forall k, k < n -> completed k).
Definition Inv (st : St T) : Prop :=
  Core st /\ s_nsel st = nsel_before (s_t st) /\ s_epochs st = map (fun k => fst (step_res k)) (seq 0 (s_t st)).

Definition Post (r : Res T) : Prop :=
  match r with
  | Returned st false => Inv st /\ guard (s_nsel st) = false
  | Returned st true =>
      Core st /\ guard (nsel_before (s_t st)) = true /\
      s_epochs st = map (fun k => fst (step_res k)) (seq 0 (S (s_t st))) /\
      (exists n, step_res (s_t st) = (n, Some (step_ob (s_t st))) /\ 1 <= n <= a_max_iter a) /\
      score_at (s_t st) = None /\ s_nsel st = ob_nsel (step_ob (s_t st))
  | Unbound st => Inv st /\ guard (s_nsel st) = true /\ snd (step_res (s_t st)) = None
  | OutOfFuel st => Inv st /\ guard (s_nsel st) = true
  end.

Lemma outer_post : forall fuel st, Inv st -> Post (outer fuel st).
Proof.
  induction fuel as [|f IH]; intros st HI.
  - cbn [Path.outer]. fold (guard (s_nsel st)). destruct (guard (s_nsel st)) eqn:Hg; cbn [Post]; auto.
  - cbn [Path.outer]. fold (guard (s_nsel st)). destruct (guard (s_nsel st)) eqn:Hg; [|cbn [Post]; auto].
    destruct HI as (HC & Hns & Hep). pose proof HC as HC0.
    destruct HC as (Ha & Hb & Hi & Hal & Hnf & Hgm & Hpn & Hcp).
    assert (Hsr : inner (a_max_iter a) (s_t st) (s_alpha st) 0 0%Z (fst (or_val orc (s_t st) (s_alpha st)))
                    (weighted o (snd (or_val orc (s_t st) (s_alpha st))) (s_alpha st)) None = step_res (s_t st)).
    { unfold step_res. rewrite Ha. reflexivity. }
    rewrite Hsr. destruct (step_res (s_t st)) as [n [ob|]] eqn:Hres.
    + destruct (step_res_shape _ _ _ Hres) as (Hn & Hob). subst ob.
      fold (score_at (s_t st)). destruct (score_at (s_t st)) as [g|] eqn:Hsc.
      * apply IH. unfold Inv, Core. cbn [s_t s_alpha s_nsel s_best s_bidx s_alphas s_nfeat s_gem s_pens s_epochs].
        rewrite !seq_S, !map_app. cbn [map plus nsel_before alpha_seq best_at bidx_at].
        rewrite Ha, Hb, Hi, Hal, Hnf, Hgm, Hpn, Hep, Hres, Hsc. cbn [fst].
        split; [|split; reflexivity]. repeat (split; [reflexivity|]).
        intros k Hk. destruct (Nat.eq_dec k (s_t st)) as [He|Hne].
        -- subst k. split; [rewrite <- Hns; exact Hg|]. exists n, g. split; [exact Hres|]. split; [exact Hn|exact Hsc].
        -- apply Hcp. lia.
      * cbn [Post]. cbn [s_t s_alpha s_nsel s_best s_bidx s_alphas s_nfeat s_gem s_pens s_epochs].
        split; [exact HC0|]. split; [rewrite <- Hns; exact Hg|]. split.
        { rewrite seq_S, map_app. cbn [map plus]. rewrite Hep, Hres. reflexivity. }
        split; [exists n; split; [exact Hres|exact Hn]|]. split; [exact Hsc|reflexivity].
    + cbn [Post]. split; [split; [exact HC0|split; assumption]|]. split; [exact Hg|]. rewrite Hres. reflexivity.
Qed.

Lemma init_inv : Inv (init_state a orc).
Proof.
  unfold Inv, Core, init_state. cbn. split; [|split; reflexivity]. repeat (split; [reflexivity|]). intros k Hk. lia.
Qed.

Lemma path_post : forall fuel, Post (path o R a orc fuel).
Proof. intros fuel. unfold path. apply outer_post. apply init_inv. Qed.

Lemma core_lengths : forall st, Core st ->
  length (s_alphas st) = s_t st /\ length (s_nfeat st) = s_t st /\ length (s_gem st) = s_t st /\ length (s_pens st) = s_t st.
Proof.
  intros st (Ha & Hb & Hi & Hal & Hnf & Hgm & Hpn & Hcp).
  rewrite Hal, Hnf, Hpn. rewrite !map_length, !seq_length.
  repeat split; try reflexivity.
  rewrite <- (map_length Some), Hgm, map_length, seq_length. reflexivity.
Qed.

Lemma post_core : forall st nan, Post (Returned st nan) -> Core st.
Proof. intros st [|] H; cbn [Post] in H; [tauto|]. destruct H as ((HC & _) & _). exact HC. Qed.

(* ---- the four histories have the same length ---- *)
Lemma histories_same_length : forall fuel st nan, path o R a orc fuel = Returned st nan ->
  length (s_gem st) = length (s_alphas st) /\ length (s_pens st) = length (s_alphas st) /\
  length (s_nfeat st) = length (s_alphas st) /\
  length (s_epochs st) = length (s_alphas st) + (if nan then 1 else 0).
Proof.
  intros fuel st nan H. pose proof (path_post fuel) as HP. rewrite H in HP.
  pose proof (core_lengths st (post_core st nan HP)) as (L1 & L2 & L3 & L4).
  rewrite L1, L2, L3, L4. repeat split; try reflexivity.
  destruct nan; cbn [Post] in HP.
  - destruct HP as (_ & _ & He & _). rewrite He, map_length, seq_length. lia.
  - destruct HP as ((_ & _ & He) & _). rewrite He, map_length, seq_length. lia.
Qed.

(* ---- alphas: start at clf.alpha, each next one is the update rule applied to the previous;
        clf.alpha is restored ---- *)
Lemma alphas_recurrence : forall fuel st nan, path o R a orc fuel = Returned st nan ->
  (forall t, t < length (s_alphas st) -> nth_error (s_alphas st) t = Some (alpha_seq t)) /\
  s_alpha st = alpha_seq (length (s_alphas st)) /\
  alpha_after a (Returned st nan) = a_alpha a.
Proof.
  intros fuel st nan H. pose proof (path_post fuel) as HP. rewrite H in HP.
  pose proof (post_core st nan HP) as HC. pose proof (core_lengths st HC) as (L1 & _).
  destruct HC as (Ha & Hb & Hi & Hal & _). rewrite L1. repeat split; try assumption; try reflexivity.
  intros t Ht. apply map_seq_nth_error with (n := s_t st); assumption.
Qed.

(* ---- every recorded count / penalty / score is the oracle's observation after the last epoch of
        that step, run with that step's alpha; the epochs of a step are between 1 and max_iter ---- *)
Lemma counts_are_model_counts : forall fuel st nan, path o R a orc fuel = Returned st nan ->
  forall t, t < length (s_alphas st) ->
  exists alpha n g, nth_error (s_alphas st) t = Some alpha /\ nth_error (s_epochs st) t = Some n /\
    1 <= n <= a_max_iter a /\
    let ob := or_epoch orc t alpha (n - 1) in
    nth_error (s_nfeat st) t = Some (ob_nsel ob) /\ nth_error (s_pens st) t = Some (ob_pen ob) /\
    nth_error (s_gem st) t = Some g /\ ob_score ob = Some g /\
    (forall j, S j < n -> ob_score (or_epoch orc t alpha j) <> None).
Proof.
  intros fuel st nan H t Ht. pose proof (path_post fuel) as HP. rewrite H in HP.
  pose proof (post_core st nan HP) as HC. pose proof (core_lengths st HC) as (L1 & L2 & L3 & L4).
  rewrite L1 in Ht.
  assert (Hep : nth_error (s_epochs st) t = Some (fst (step_res t))).
  { destruct nan; cbn [Post] in HP.
    - destruct HP as (_ & _ & He & _). apply (map_seq_nth_error _ (fun k => fst (step_res k))) with (n := S (s_t st)); [exact He|lia].
    - destruct HP as ((_ & _ & He) & _). apply (map_seq_nth_error _ (fun k => fst (step_res k))) with (n := s_t st); [exact He|lia]. }
  destruct HC as (Ha & Hb & Hi & Hal & Hnf & Hgm & Hpn & Hcp).
  destruct (Hcp t Ht) as (Hg & n & g & Hres & Hn & Hsc).
  exists (alpha_seq t), n, g.
  assert (Hfst : fst (step_res t) = n) by (rewrite Hres; reflexivity).
  split; [apply map_seq_nth_error with (n := s_t st); assumption|].
  split; [rewrite Hep, Hfst; reflexivity|]. split; [exact Hn|].
  assert (Hob : or_epoch orc t (alpha_seq t) (n - 1) = step_ob t) by (unfold step_ob; rewrite Hfst; reflexivity).
  cbn zeta. rewrite Hob.
  split; [apply (map_seq_nth_error _ (fun k => ob_nsel (step_ob k))) with (n := s_t st); assumption|].
  split; [apply (map_seq_nth_error _ (fun k => ob_pen (step_ob k))) with (n := s_t st); assumption|].
  assert (Hg2 : nth_error (map Some (s_gem st)) t = Some (score_at t))
    by (apply map_seq_nth_error with (n := s_t st); assumption).
  rewrite nth_error_map in Hg2. destruct (nth_error (s_gem st) t) as [g'|] eqn:Eg; cbn in Hg2; [|discriminate].
  injection Hg2 as Hg2. rewrite Hsc in Hg2. injection Hg2 as Hg2. subst g'.
  split; [reflexivity|]. split; [exact Hsc|].
  intros j Hj. unfold step_res in Hres. eapply inner_nan_stops; [exact Hres|lia|exact Hj].
Qed.

(* ---- stop rule ---- *)
(* normal end: the count of the current weights (last recorded count, or the initial fit's when no
   step ran) is <= min_features; every step that was recorded had been entered with a count > min_features *)
Lemma last_count_le_min_features : forall fuel st, path o R a orc fuel = Returned st false ->
  (Z.of_nat (last (s_nfeat st) (ob_nsel (or_init orc))) <= eff_minf R a)%Z /\
  (forall t, t < length (s_nfeat st) ->
     (eff_minf R a < Z.of_nat (nth t (ob_nsel (or_init orc) :: s_nfeat st) 0%nat))%Z).
Proof.
  intros fuel st H. pose proof (path_post fuel) as HP. rewrite H in HP. cbn [Post] in HP.
  destruct HP as ((HC & Hns & Hep) & Hg). pose proof (core_lengths st HC) as (L1 & L2 & L3 & L4).
  destruct HC as (Ha & Hb & Hi & Hal & Hnf & Hgm & Hpn & Hcp).
  assert (Hnb : forall k, k <= s_t st -> nth k (ob_nsel (or_init orc) :: s_nfeat st) 0 = nsel_before k).
  { intros [|k] Hk; [reflexivity|]. cbn [nth nsel_before].
    apply (map_seq_nth _ (fun k => ob_nsel (step_ob k))) with (n := s_t st); [exact Hnf|lia]. }
  split.
  - unfold guard in Hg. apply Z.ltb_ge in Hg. rewrite Hns in Hg.
    destruct (s_t st) as [|k] eqn:Et.
    + rewrite Hnf. cbn. exact Hg.
    + rewrite Hnf, map_seq_last. exact Hg.
  - intros t Ht. rewrite L2 in Ht. rewrite Hnb by lia. destruct (Hcp t Ht) as (Hgt & _).
    unfold guard in Hgt. apply Z.ltb_lt in Hgt. exact Hgt.
Qed.

(* NaN abort: the step after the recorded ones had been entered, its last epoch (number n <= max_iter)
   returned a NaN score, every earlier epoch of it a proper one; nothing of that step is recorded *)
Lemma nan_abort_shape : forall fuel st, path o R a orc fuel = Returned st true ->
  let t := length (s_alphas st) in
  (eff_minf R a < Z.of_nat (last (s_nfeat st) (ob_nsel (or_init orc))))%Z /\
  exists n, nth_error (s_epochs st) t = Some n /\ 1 <= n <= a_max_iter a /\
    ob_score (or_epoch orc t (s_alpha st) (n - 1)) = None /\
    (forall j, S j < n -> ob_score (or_epoch orc t (s_alpha st) j) <> None).
Proof.
  intros fuel st H. pose proof (path_post fuel) as HP. rewrite H in HP. cbn [Post] in HP.
  destruct HP as (HC & Hg & Hep & (n & Hres & Hn) & Hsc & Hns).
  pose proof (core_lengths st HC) as (L1 & L2 & L3 & L4).
  destruct HC as (Ha & Hb & Hi & Hal & Hnf & Hgm & Hpn & Hcp).
  cbn zeta. rewrite L1. split.
  - unfold guard in Hg. apply Z.ltb_lt in Hg. destruct (s_t st) as [|k] eqn:Et.
    + rewrite Hnf. cbn. exact Hg.
    + rewrite Hnf, map_seq_last. exact Hg.
  - exists n. assert (Hfst : fst (step_res (s_t st)) = n) by (rewrite Hres; reflexivity).
    split; [rewrite (map_seq_nth_error _ (fun k => fst (step_res k)) _ (S (s_t st)) (s_t st) Hep) by lia; rewrite Hfst; reflexivity|].
    split; [exact Hn|]. rewrite Ha. split.
    + unfold score_at, step_ob in Hsc. rewrite Hfst in Hsc. exact Hsc.
    + intros j Hj. unfold step_res in Hres. eapply inner_nan_stops; [exact Hres|lia|exact Hj].
Qed.

Lemma last_count_le_min_features_or_nan : forall fuel st nan, path o R a orc fuel = Returned st nan ->
  (nan = false ->
     (Z.of_nat (last (s_nfeat st) (ob_nsel (or_init orc))) <= eff_minf R a)%Z /\
     (forall t, t < length (s_nfeat st) ->
        (eff_minf R a < Z.of_nat (nth t (ob_nsel (or_init orc) :: s_nfeat st) 0%nat))%Z)) /\
  (nan = true ->
     let t := length (s_alphas st) in
     (eff_minf R a < Z.of_nat (last (s_nfeat st) (ob_nsel (or_init orc))))%Z /\
     exists n, nth_error (s_epochs st) t = Some n /\ 1 <= n <= a_max_iter a /\
       ob_score (or_epoch orc t (s_alpha st) (n - 1)) = None /\
       (forall j, S j < n -> ob_score (or_epoch orc t (s_alpha st) j) <> None)).
Proof.
  intros fuel st nan H. split; intros E; subst nan.
  - apply (last_count_le_min_features fuel st H).
  - apply (nan_abort_shape fuel st H).
Qed.

(* ---- inner loop bounded ---- *)
Lemma inner_loop_bounded : forall fuel st nan, path o R a orc fuel = Returned st nan ->
  Forall (fun n => 1 <= n <= a_max_iter a) (s_epochs st).
Proof.
  intros fuel st nan H. pose proof (path_post fuel) as HP. rewrite H in HP.
  pose proof (post_core st nan HP) as HC.
  destruct HC as (Ha & Hb & Hi & Hal & Hnf & Hgm & Hpn & Hcp).
  assert (Hk : forall k, k < s_t st -> 1 <= fst (step_res k) <= a_max_iter a).
  { intros k Hk. destruct (Hcp k Hk) as (_ & n & g & Hres & Hn & _). rewrite Hres. exact Hn. }
  destruct nan; cbn [Post] in HP.
  - destruct HP as (_ & _ & He & (n & Hres & Hn) & _). rewrite He. apply Forall_forall.
    intros x Hx. apply in_map_iff in Hx. destruct Hx as (k & Hx & Hin). apply in_seq in Hin. subst x.
    destruct (Nat.eq_dec k (s_t st)) as [E|E]; [subst k; rewrite Hres; exact Hn|apply Hk; lia].
  - destruct HP as ((_ & _ & He) & _). rewrite He. apply Forall_forall.
    intros x Hx. apply in_map_iff in Hx. destruct Hx as (k & Hx & Hin). apply in_seq in Hin. subst x. apply Hk. lia.
Qed.

(* ---- the UnboundLocalError (finding F12b): raised exactly when the outer loop is entered and the
        inner guard `i < max_iter and patience < max_patience` is false at once ---- *)
Lemma no_unbound : 1 <= a_max_iter a -> (0 < a_patience a)%Z ->
  forall fuel st st', outer fuel st <> Unbound st'.
Proof.
  intros Hm Hp. induction fuel as [|f IH]; intros st st'; cbn [Path.outer]; destruct (Z.ltb _ _); try discriminate.
  match goal with |- context [Path.inner o R a orc ?r ?t ?al ?i ?p ?vs ?vl ?l] =>
    pose proof (inner_progress r t al i p vs vl l Hm Hp) as Hpr;
    destruct (Path.inner o R a orc r t al i p vs vl l) as [n ob'] eqn:E end.
  cbn [fst] in Hpr. apply inner_spec in E. destruct E as (_ & _ & E1). rewrite (E1 Hpr).
  destruct (ob_score _); [apply IH|discriminate].
Qed.

Lemma unbound_first_step : guard (ob_nsel (or_init orc)) = true ->
  a_max_iter a = 0 \/ (a_patience a <= 0)%Z ->
  forall fuel, path o R a orc (S fuel) = Unbound (init_state a orc).
Proof.
  intros Hg Hz fuel. unfold path. cbn [Path.outer]. unfold guard in Hg.
  cbn [init_state s_nsel s_t s_alpha]. rewrite Hg. rewrite inner_zero by exact Hz. reflexivity.
Qed.

Lemma no_step : guard (ob_nsel (or_init orc)) = false ->
  forall fuel, path o R a orc fuel = Returned (init_state a orc) false.
Proof.
  intros Hg fuel. unfold path, guard in *. destruct fuel; cbn [Path.outer init_state s_nsel]; rewrite Hg; reflexivity.
Qed.

(* ---- more fuel never changes a result that is not OutOfFuel ---- *)
Lemma fuel_mono_S : forall fuel st, (forall st', outer fuel st <> OutOfFuel st') -> outer (S fuel) st = outer fuel st.
Proof.
  induction fuel as [|f IH]; intros st H.
  - cbn [Path.outer] in *. destruct (Z.ltb _ _); [exfalso; eapply H; reflexivity|reflexivity].
  - remember (S f) as f1 eqn:Hf1. cbn [Path.outer]. rewrite Hf1 in *. cbn [Path.outer] in H |- *.
    destruct (Z.ltb _ _); [|reflexivity].
    destruct (Path.inner _ _ _ _ _ _ _ _ _ _ _ _) as [n [ob|]]; [|reflexivity].
    destruct (ob_score ob); [|reflexivity]. apply IH. exact H.
Qed.

Lemma fuel_mono : forall fuel fuel' st, (forall st', outer fuel st <> OutOfFuel st') -> fuel <= fuel' ->
  outer fuel' st = outer fuel st.
Proof.
  intros fuel fuel' st H Hle. induction Hle as [|m Hle IH]; [reflexivity|].
  rewrite fuel_mono_S; [exact IH|]. intros st'. rewrite IH. apply H.
Qed.

Lemma path_fuel_mono : forall fuel fuel', (forall st', path o R a orc fuel <> OutOfFuel st') -> fuel <= fuel' ->
  path o R a orc fuel' = path o R a orc fuel.
Proof. intros fuel fuel' H Hle. unfold path. apply fuel_mono; assumption. Qed.

Lemma unbound_exactly : forall fuel,
  (1 <= a_max_iter a -> (0 < a_patience a)%Z -> forall st, path o R a orc fuel <> Unbound st) /\
  (guard (ob_nsel (or_init orc)) = true -> a_max_iter a = 0 \/ (a_patience a <= 0)%Z ->
     path o R a orc (S fuel) = Unbound (init_state a orc)) /\
  (guard (ob_nsel (or_init orc)) = false -> path o R a orc fuel = Returned (init_state a orc) false).
Proof.
  intros fuel. split; [|split].
  - intros Hm Hp st. unfold path. apply no_unbound; assumption.
  - intros Hg Hz. apply unbound_first_step; assumption.
  - intros Hg. apply no_step. exact Hg.
Qed.

(* ---- the index held by best_weights is the last step that passed the keep test ---- *)
Definition keep_ok (k : nat) : bool := r_keep_test R (score_at k) (eff_keep R a) (best_at (S k)).
Lemma bidx_at_spec : forall n,
  match bidx_at n with
  | Some t => t < n /\ keep_ok t = true /\ (forall t', t < t' < n -> keep_ok t' = false)
  | None => forall t', t' < n -> keep_ok t' = false
  end.
Proof.
  induction n as [|n IH]; [cbn; intros; lia|].
  cbn [bidx_at]. fold (keep_ok n). destruct (keep_ok n) eqn:Hk.
  - split; [lia|]. split; [exact Hk|intros; lia].
  - destruct (bidx_at n) as [t|].
    + destruct IH as (H1 & H2 & H3). split; [lia|]. split; [exact H2|].
      intros t' Ht'. destruct (Nat.eq_dec t' n) as [E|E]; [subst; exact Hk|apply H3; lia].
    + intros t' Ht'. destruct (Nat.eq_dec t' n) as [E|E]; [subst; exact Hk|apply IH; lia].
Qed.
End Generic.

(* ---- the path() wrappers: the estimator ends with the best weights iff restore_best_weights and not dynamic ---- *)
Lemma restore_rule : forall (T : Type) (restore dynamic : bool) (st : St T),
  (restore = true -> dynamic = false -> weights_after restore dynamic st = Some (s_bidx st)) /\
  (restore = false \/ dynamic = true -> weights_after restore dynamic st = None) /\
  (wrapper_warn_restore_dynamic restore dynamic = true <-> restore = true /\ dynamic = true).
Proof.
  intros T restore dynamic st. unfold weights_after, wrapper_restores, wrapper_warn_restore_dynamic.
  destruct restore, dynamic; cbn; repeat split; intros; try reflexivity; try discriminate; try tauto;
    try (destruct H; discriminate); try (destruct H; assumption).
Qed.

(* ================================================================== part 2: over R, regenerated rules *)
Section Reals.
Local Open Scope R_scope.
Notation RR := (path_rules Rops).

Lemma Rltb_true : forall x y, Rltb x y = true <-> x < y.
Proof. intros x y. unfold Rltb. destruct (Rlt_dec x y); split; intros; try discriminate; try reflexivity; tauto. Qed.
Lemma Rltb_false : forall x y, Rltb x y = false <-> y <= x.
Proof. intros x y. unfold Rltb. destruct (Rlt_dec x y); split; intros; try discriminate; try reflexivity; lra. Qed.
Lemma Rleb_true : forall x y, Rleb x y = true <-> x <= y.
Proof. intros x y. unfold Rleb. destruct (Rle_dec x y); split; intros; try discriminate; try reflexivity; tauto. Qed.
Lemma Rleb_false : forall x y, Rleb x y = false <-> y < x.
Proof. intros x y. unfold Rleb. destruct (Rle_dec x y); split; intros; try discriminate; try reflexivity; lra. Qed.

Ltac rules := unfold eff_mult, eff_keep, eff_minf, arg_warnings, path_rules, mult_bad, mult_default, keep_bad, keep_default,
  minf_bad, minf_default, minf_warn, sig_mult, sig_keep, sig_minf, sig_esf, sig_patience, ngtb, ngeb;
  cbn [r_mult_bad r_mult_default r_keep_bad r_keep_default r_minf_bad r_minf_default r_minf_warn r_sig_mult r_sig_minf
       r_sig_keep r_sig_esf r_sig_patience w_mult w_keep w_minf w_minf_ge_d nleb nltb n0 n1 ndiv nofnat Rops].

(* ---- argument defaults ---- *)
Lemma default_values : r_mult_default RR = 105/100 /\ r_keep_default RR = 9/10 /\ r_minf_default RR = 2%Z /\
  r_mult_default RR = r_sig_mult RR /\ r_keep_default RR = r_sig_keep RR /\ r_minf_default RR = r_sig_minf RR /\
  r_sig_esf RR = 99/100 /\ r_sig_patience RR = 10%Z.
Proof. rules. repeat split; try reflexivity; simpl INR; lra. Qed.

Lemma defaults_on_bad_arguments : forall a : Args R,
  (a_mult a <= 1 -> eff_mult RR a = r_mult_default RR /\ w_mult (arg_warnings RR a) = true) /\
  (1 < a_mult a -> eff_mult RR a = a_mult a /\ w_mult (arg_warnings RR a) = false) /\
  (a_keep a < 0 \/ 1 < a_keep a -> eff_keep RR a = r_keep_default RR /\ w_keep (arg_warnings RR a) = true) /\
  (0 <= a_keep a <= 1 -> eff_keep RR a = a_keep a /\ w_keep (arg_warnings RR a) = false) /\
  ((a_minf a <= 0)%Z -> eff_minf RR a = r_minf_default RR /\ w_minf (arg_warnings RR a) = true /\
                        w_minf_ge_d (arg_warnings RR a) = false) /\
  ((0 < a_minf a)%Z -> eff_minf RR a = a_minf a /\ w_minf (arg_warnings RR a) = false /\
                       (w_minf_ge_d (arg_warnings RR a) = true <-> (Z.of_nat (a_d a) <= a_minf a)%Z)).
Proof.
  intros a. rules. repeat split.
  - apply Rleb_true in H. rewrite H. reflexivity.
  - apply Rleb_true in H. rewrite H. reflexivity.
  - assert (E : Rleb (a_mult a) 1 = false) by (apply Rleb_false; lra). rewrite E. reflexivity.
  - assert (E : Rleb (a_mult a) 1 = false) by (apply Rleb_false; lra). rewrite E. reflexivity.
  - destruct H as [H|H]; [apply Rltb_true in H; rewrite H; reflexivity|].
    apply Rltb_true in H. rewrite H. rewrite orb_true_r. reflexivity.
  - destruct H as [H|H]; [apply Rltb_true in H; rewrite H; reflexivity|].
    apply Rltb_true in H. rewrite H. rewrite orb_true_r. reflexivity.
  - assert (E1 : Rltb (a_keep a) 0 = false) by (apply Rltb_false; lra).
    assert (E2 : Rltb 1 (a_keep a) = false) by (apply Rltb_false; lra). rewrite E1, E2. reflexivity.
  - assert (E1 : Rltb (a_keep a) 0 = false) by (apply Rltb_false; lra).
    assert (E2 : Rltb 1 (a_keep a) = false) by (apply Rltb_false; lra). rewrite E1, E2. reflexivity.
  - apply Z.leb_le in H. rewrite H. reflexivity.
  - apply Z.leb_le in H. rewrite H. reflexivity.
  - apply Z.leb_le in H. rewrite H. reflexivity.
  - assert (E : Z.leb (a_minf a) 0 = false) by (apply Z.leb_gt; lia). rewrite E. reflexivity.
  - assert (E : Z.leb (a_minf a) 0 = false) by (apply Z.leb_gt; lia). rewrite E. reflexivity.
  - assert (E : Z.leb (a_minf a) 0 = false) by (apply Z.leb_gt; lia). rewrite E.
    rewrite Z.geb_leb. intros H1. apply Z.leb_le in H1. exact H1.
  - assert (E : Z.leb (a_minf a) 0 = false) by (apply Z.leb_gt; lia). rewrite E.
    rewrite Z.geb_leb. intros H1. apply Z.leb_le. exact H1.
Qed.

Lemma defaults_full : forall a : Args R,
  ((a_mult a <= 1 -> eff_mult RR a = 105/100 /\ w_mult (arg_warnings RR a) = true) /\
   (1 < a_mult a -> eff_mult RR a = a_mult a /\ w_mult (arg_warnings RR a) = false) /\
   (a_keep a < 0 \/ 1 < a_keep a -> eff_keep RR a = 9/10 /\ w_keep (arg_warnings RR a) = true) /\
   (0 <= a_keep a <= 1 -> eff_keep RR a = a_keep a /\ w_keep (arg_warnings RR a) = false) /\
   ((a_minf a <= 0)%Z -> eff_minf RR a = 2%Z /\ w_minf (arg_warnings RR a) = true /\
                         w_minf_ge_d (arg_warnings RR a) = false) /\
   ((0 < a_minf a)%Z -> eff_minf RR a = a_minf a /\ w_minf (arg_warnings RR a) = false /\
                        (w_minf_ge_d (arg_warnings RR a) = true <-> (Z.of_nat (a_d a) <= a_minf a)%Z))) /\
  (r_mult_default RR = r_sig_mult RR /\ r_keep_default RR = r_sig_keep RR /\ r_minf_default RR = r_sig_minf RR /\
   r_sig_esf RR = 99/100 /\ r_sig_patience RR = 10%Z).
Proof.
  intros a. destruct default_values as (D1 & D2 & D3 & D4 & D5 & D6 & D7 & D8).
  destruct (defaults_on_bad_arguments a) as (H1 & H2 & H3 & H4 & H5 & H6).
  rewrite D1 in H1. rewrite D2 in H3. rewrite D3 in H5.
  split; [repeat split; try tauto; try (apply H6; assumption)|repeat split; assumption].
Qed.

Lemma eff_mult_gt_1 : forall a : Args R, 1 < eff_mult RR a.
Proof.
  intros a. destruct (Rle_dec (a_mult a) 1) as [H|H].
  - destruct (defaults_on_bad_arguments a) as (H1 & _). rewrite (proj1 (H1 H)).
    rewrite (proj1 default_values). lra.
  - destruct (defaults_on_bad_arguments a) as (_ & H1 & _). rewrite (proj1 (H1 ltac:(lra))). lra.
Qed.

Lemma eff_minf_pos : forall a : Args R, (0 < eff_minf RR a)%Z.
Proof.
  intros a. destruct (Z_le_gt_dec (a_minf a) 0) as [H|H].
  - destruct (defaults_on_bad_arguments a) as (_ & _ & _ & _ & H1 & _). rewrite (proj1 (H1 H)).
    destruct default_values as (_ & _ & E & _). rewrite E. lia.
  - destruct (defaults_on_bad_arguments a) as (_ & _ & _ & _ & _ & H1). rewrite (proj1 (H1 ltac:(lia))). lia.
Qed.

(* ---- geometric alphas ---- *)
Lemma alpha_seq_pow : forall (a : Args R) t, alpha_seq RR a t = a_alpha a * eff_mult RR a ^ t.
Proof.
  intros a t. induction t as [|t IH]; cbn [alpha_seq pow]; [lra|].
  rewrite IH. unfold path_rules at 1, alpha_next. cbn [r_alpha_next nmul Rops]. ring.
Qed.

Lemma alphas_geometric : forall (a : Args R) orc fuel st nan, path Rops RR a orc fuel = Returned st nan ->
  (forall t, (t < length (s_alphas st))%nat -> nth t (s_alphas st) 0 = a_alpha a * eff_mult RR a ^ t) /\
  1 < eff_mult RR a /\ alpha_after a (Returned st nan) = a_alpha a.
Proof.
  intros a orc fuel st nan H. destruct (alphas_recurrence Rops RR a orc fuel st nan H) as (H1 & _ & H3).
  split; [|split; [apply eff_mult_gt_1|exact H3]].
  intros t Ht. specialize (H1 t Ht). apply nth_error_nth with (d := 0) in H1. rewrite H1. apply alpha_seq_pow.
Qed.

(* ---- best-weights rule ---- *)
(* specification: the best score seen up to and including step t among the steps that still had all
   d features selected, the initial fit (b0) included *)
Fixpoint best_seen (d : nat) (b0 : R) (gs : list R) (ns : list nat) (t : nat) : R :=
  let prev := match t with O => b0 | S k => best_seen d b0 gs ns k end in
  if Nat.eqb (nth t ns 0%nat) d then Rmax prev (nth t gs 0) else prev.

Definition prev_best (d : nat) (b0 : R) (gs : list R) (ns : list nat) (k : nat) : R :=
  match k with O => b0 | S j => best_seen d b0 gs ns j end.
Lemma best_seen_eq : forall d b0 gs ns t, best_seen d b0 gs ns t =
  if Nat.eqb (nth t ns 0%nat) d then Rmax (prev_best d b0 gs ns t) (nth t gs 0) else prev_best d b0 gs ns t.
Proof. intros d b0 gs ns [|t]; reflexivity. Qed.

Lemma best_seen_is_max : forall d b0 gs ns t,
  let B := best_seen d b0 gs ns t in
  b0 <= B /\ (forall j, (j <= t)%nat -> nth j ns 0%nat = d -> nth j gs 0 <= B) /\
  (B = b0 \/ exists j, (j <= t)%nat /\ nth j ns 0%nat = d /\ B = nth j gs 0).
Proof.
  intros d b0 gs ns t. cbn zeta. induction t as [|t IH].
  - cbn [best_seen]. destruct (Nat.eqb (nth 0 ns 0%nat) d) eqn:E.
    + apply Nat.eqb_eq in E. unfold Rmax. destruct (Rle_dec b0 (nth 0 gs 0)) as [H|H].
      * split; [exact H|]. split; [intros j Hj Hd; replace j with 0%nat by lia; lra|].
        right. exists 0%nat. repeat split; [lia|exact E].
      * split; [lra|]. split; [intros j Hj Hd; replace j with 0%nat by lia; lra|]. left. reflexivity.
    + apply Nat.eqb_neq in E. split; [lra|]. split; [|left; reflexivity].
      intros j Hj Hd. replace j with 0%nat in Hd by lia. contradiction.
  - destruct IH as (I1 & I2 & I3). cbn [best_seen]. set (P := best_seen d b0 gs ns t) in *.
    destruct (Nat.eqb (nth (S t) ns 0%nat) d) eqn:E.
    + apply Nat.eqb_eq in E. unfold Rmax. destruct (Rle_dec P (nth (S t) gs 0)) as [H|H].
      * split; [lra|]. split.
        -- intros j Hj Hd. destruct (Nat.eq_dec j (S t)) as [Ej|Ej]; [subst j; lra|].
           assert (nth j gs 0 <= P) by (apply I2; [lia|exact Hd]). lra.
        -- right. exists (S t). repeat split; [lia|exact E].
      * split; [exact I1|]. split.
        -- intros j Hj Hd. destruct (Nat.eq_dec j (S t)) as [Ej|Ej]; [subst j; lra|]. apply I2; [lia|exact Hd].
        -- destruct I3 as [I3|(j & Hj & Hd & Hv)]; [left; exact I3|]. right. exists j. repeat split; [lia|exact Hd|exact Hv].
    + apply Nat.eqb_neq in E. split; [exact I1|]. split.
      * intros j Hj Hd. destruct (Nat.eq_dec j (S t)) as [Ej|Ej]; [subst j; contradiction|]. apply I2; [lia|exact Hd].
      * destruct I3 as [I3|(j & Hj & Hd & Hv)]; [left; exact I3|]. right. exists j. repeat split; [lia|exact Hd|exact Hv].
Qed.

Section BestLink.
Context (a : Args R) (orc : Oracle R) (b0 : R) (gs : list R) (ns : list nat) (n : nat).
Context (Hb0 : ob_score (or_init orc) = Some b0).
Context (Hs : forall k, (k < n)%nat -> score_at Rops RR a orc k = Some (nth k gs 0)).
Context (Hn : forall k, (k < n)%nat -> ob_nsel (step_ob Rops RR a orc k) = nth k ns 0%nat).

Lemma best_at_seen : forall k, (k <= n)%nat -> best_at Rops RR a orc k = Some (prev_best (a_d a) b0 gs ns k).
Proof.
  induction k as [|k IH]; intros Hk; [exact Hb0|].
  cbn [best_at]. rewrite IH by lia. rewrite Hs, Hn by lia.
  cbn [prev_best]. rewrite best_seen_eq.
  unfold path_rules at 1, best_update. cbn [r_best_update].
  unfold ogeb, oleb, ocmp. cbn [nleb Rops].
  destruct (Nat.eqb (nth k ns 0%nat) (a_d a)); [|rewrite andb_false_r; reflexivity].
  rewrite andb_true_r. unfold Rmax, Rleb. destruct (Rle_dec (prev_best (a_d a) b0 gs ns k) (nth k gs 0)); reflexivity.
Qed.

Lemma keep_ok_iff : forall k, (k < n)%nat ->
  (keep_ok Rops RR a orc k = true <-> eff_keep RR a * best_seen (a_d a) b0 gs ns k <= nth k gs 0).
Proof.
  intros k Hk. unfold keep_ok. rewrite best_at_seen by lia. rewrite Hs by lia. cbn [prev_best].
  unfold path_rules at 1, keep_test. cbn [r_keep_test].
  unfold ogeb, oleb, omul, olift2, ocmp. cbn [nleb nmul Rops]. apply Rleb_true.
Qed.
End BestLink.

Lemma bidx_nan_init : forall (a : Args R) orc, ob_score (or_init orc) = None ->
  forall n, best_at Rops RR a orc n = None /\ bidx_at Rops RR a orc n = None.
Proof.
  intros a orc H0. induction n as [|n (IH1 & IH2)]; [split; [exact H0|reflexivity]|].
  assert (E : best_at Rops RR a orc (S n) = None).
  { cbn [best_at]. rewrite IH1. unfold path_rules at 1, best_update. cbn [r_best_update].
    unfold ogeb, oleb, ocmp. reflexivity. }
  split; [exact E|]. cbn [bidx_at]. rewrite E.
  unfold path_rules at 1, keep_test. cbn [r_keep_test]. unfold ogeb, oleb, omul, olift2, ocmp.
  destruct (score_at Rops RR a orc n); exact IH2.
Qed.

Lemma best_weights_rule : forall (a : Args R) orc fuel st nan, path Rops RR a orc fuel = Returned st nan ->
  (forall b0, ob_score (or_init orc) = Some b0 ->
     let ok t := eff_keep RR a * best_seen (a_d a) b0 (s_gem st) (s_nfeat st) t <= nth t (s_gem st) 0 in
     match s_bidx st with
     | Some t => (t < length (s_gem st))%nat /\ ok t /\ (forall t', (t < t' < length (s_gem st))%nat -> ~ ok t')
     | None => forall t', (t' < length (s_gem st))%nat -> ~ ok t'
     end) /\
  (ob_score (or_init orc) = None -> s_bidx st = None).
Proof.
  intros a orc fuel st nan H. pose proof (path_post Rops RR a orc fuel) as HP. rewrite H in HP.
  pose proof (post_core Rops RR a orc st nan HP) as HC.
  pose proof (core_lengths Rops RR a orc st HC) as (L1 & L2 & L3 & L4).
  destruct HC as (Ha & Hb & Hi & Hal & Hnf & Hgm & Hpn & Hcp).
  split.
  - intros b0 Hb0. cbn zeta. rewrite L3, Hi.
    assert (Hs : forall k, (k < s_t st)%nat -> score_at Rops RR a orc k = Some (nth k (s_gem st) 0)).
    { intros k Hk. pose proof (map_seq_nth_error _ (score_at Rops RR a orc) _ _ k Hgm Hk) as E.
      rewrite nth_error_map in E. destruct (nth_error (s_gem st) k) as [g|] eqn:Eg; cbn in E; [|discriminate].
      injection E as E. rewrite <- E. f_equal. symmetry. apply nth_error_nth. exact Eg. }
    assert (Hn : forall k, (k < s_t st)%nat -> ob_nsel (step_ob Rops RR a orc k) = nth k (s_nfeat st) 0%nat).
    { intros k Hk. symmetry. apply (map_seq_nth _ (fun k => ob_nsel (step_ob Rops RR a orc k))) with (n := s_t st); assumption. }
    pose proof (bidx_at_spec Rops RR a orc (s_t st)) as HB.
    pose proof (keep_ok_iff a orc b0 (s_gem st) (s_nfeat st) (s_t st) Hb0 Hs Hn) as HK.
    destruct (bidx_at Rops RR a orc (s_t st)) as [t|].
    + destruct HB as (H1 & H2 & H3). split; [exact H1|]. split; [apply HK; assumption|].
      intros t' Ht' Hok. apply HK in Hok; [|lia]. rewrite H3 in Hok by lia. discriminate.
    + intros t' Ht' Hok. apply HK in Hok; [|lia]. rewrite HB in Hok by lia. discriminate.
  - intros H0. rewrite Hi. apply bidx_nan_init. exact H0.
Qed.

(* ---- termination when alpha0 > 0 (the effective multiplier is > 1 by the default rule) ---- *)
Lemma terminates_from : forall (a : Args R) orc B,
  (forall t alpha i, B < alpha -> (Z.of_nat (ob_nsel (or_epoch orc t alpha i)) <= eff_minf RR a)%Z) ->
  forall k st, B < s_alpha st * eff_mult RR a ^ k ->
  forall st', outer Rops RR a orc (S (S k)) st <> OutOfFuel st'.
Proof.
  intros a orc B Hdrop. induction k as [|k IH]; intros st Hb st'.
  - remember 1%nat as f eqn:Hf. cbn [Path.outer]. destruct (Z.ltb _ _); [|discriminate].
    destruct (Path.inner _ _ _ _ _ _ _ _ _ _ _ _) as [n [ob|]] eqn:E; [|discriminate].
    destruct (ob_score ob); [|discriminate].
    apply inner_some in E. destruct E as (_ & E). subst f. cbn [Path.outer s_nsel].
    assert (Hle : (Z.of_nat (ob_nsel ob) <= eff_minf RR a)%Z) by (rewrite E; apply Hdrop; cbn [pow] in Hb; lra).
    apply Z.ltb_ge in Hle. rewrite Hle. discriminate.
  - remember (S (S k)) as f eqn:Hf. cbn [Path.outer]. destruct (Z.ltb _ _); [|discriminate].
    destruct (Path.inner _ _ _ _ _ _ _ _ _ _ _ _) as [n [ob|]] eqn:E; [|discriminate].
    destruct (ob_score ob); [|discriminate]. subst f. apply IH. cbn [s_alpha].
    unfold path_rules at 1, alpha_next. cbn [r_alpha_next nmul Rops]. cbn [pow] in Hb. lra.
Qed.

Lemma terminates_if_alpha_positive : forall (a : Args R) orc B, 0 < a_alpha a ->
  (forall t alpha i, B < alpha -> (Z.of_nat (ob_nsel (or_epoch orc t alpha i)) <= eff_minf RR a)%Z) ->
  exists fuel, (forall st', path Rops RR a orc fuel <> OutOfFuel st') /\
               (forall fuel', (fuel <= fuel')%nat -> path Rops RR a orc fuel' = path Rops RR a orc fuel).
Proof.
  intros a orc B Ha Hdrop. pose proof (eff_mult_gt_1 a) as Hm.
  destruct (Pow_x_infinity (eff_mult RR a) ltac:(rewrite Rabs_pos_eq; lra) (B / a_alpha a + 1)) as (N & HN).
  specialize (HN N ltac:(lia)). rewrite Rabs_pos_eq in HN by (apply pow_le; lra).
  assert (Hb : B < a_alpha a * eff_mult RR a ^ N).
  { assert (E : a_alpha a * (B / a_alpha a + 1) = B + a_alpha a) by (field; lra).
    assert (a_alpha a * (B / a_alpha a + 1) <= a_alpha a * eff_mult RR a ^ N) by (apply Rmult_le_compat_l; lra). lra. }
  exists (S (S N)). assert (H : forall st', path Rops RR a orc (S (S N)) <> OutOfFuel st').
  { intros st'. unfold path. apply (terminates_from a orc B Hdrop). exact Hb. }
  split; [exact H|]. intros fuel' Hle. unfold path. apply fuel_mono; [exact H|exact Hle].
Qed.

(* ---- finding F12a: alpha0 = 0 stays 0, and an oracle that keeps its features at alpha = 0 never stops ---- *)
Lemma alpha_zero_diverges_from : forall (a : Args R) orc, (1 <= a_max_iter a)%nat -> (0 < a_patience a)%Z ->
  (forall t i, ob_score (or_epoch orc t 0 i) <> None /\ (eff_minf RR a < Z.of_nat (ob_nsel (or_epoch orc t 0%R i)))%Z) ->
  forall fuel st, s_alpha st = 0 -> (eff_minf RR a < Z.of_nat (s_nsel st))%Z ->
  exists st', outer Rops RR a orc fuel st = OutOfFuel st' /\ s_alpha st' = 0 /\ s_t st' = (s_t st + fuel)%nat.
Proof.
  intros a orc Hm Hp Hor. induction fuel as [|f IH]; intros st Ha Hg; cbn [Path.outer];
    pose proof Hg as Hg'; apply Z.ltb_lt in Hg'; rewrite Hg'.
  - exists st. repeat split; [exact Ha|lia].
  - match goal with |- context [Path.inner Rops RR a orc ?r ?t ?al ?i ?p ?vs ?vl ?l] =>
      pose proof (inner_progress Rops RR a orc r t al i p vs vl l Hm Hp) as Hpr;
      destruct (Path.inner Rops RR a orc r t al i p vs vl l) as [n ob'] eqn:E end.
    cbn [fst] in Hpr. apply inner_spec in E. destruct E as (_ & _ & E1). rewrite (E1 Hpr). rewrite Ha.
    destruct (Hor (s_t st) (n - 1)%nat) as (Hsc & Hns).
    destruct (ob_score (or_epoch orc (s_t st) 0 (n - 1))) as [g|]; [|contradiction].
    match goal with |- exists st', Path.outer _ _ _ _ f ?s = _ /\ _ => destruct (IH s) as (st' & H1 & H2 & H3) end.
    + cbn [s_alpha]. unfold path_rules at 1, alpha_next. cbn [r_alpha_next nmul Rops]. ring.
    + cbn [s_nsel]. exact Hns.
    + exists st'. split; [exact H1|]. split; [exact H2|]. rewrite H3. cbn [s_t]. lia.
Qed.

Lemma alpha_zero_diverges : forall (a : Args R) orc, a_alpha a = 0 -> (1 <= a_max_iter a)%nat -> (0 < a_patience a)%Z ->
  (eff_minf RR a < Z.of_nat (ob_nsel (or_init orc)))%Z ->
  (forall t i, ob_score (or_epoch orc t 0 i) <> None /\ (eff_minf RR a < Z.of_nat (ob_nsel (or_epoch orc t 0%R i)))%Z) ->
  forall fuel, exists st, path Rops RR a orc fuel = OutOfFuel st /\ s_alpha st = 0 /\ s_t st = fuel.
Proof.
  intros a orc Ha Hm Hp Hi Hor fuel. unfold path.
  destruct (alpha_zero_diverges_from a orc Hm Hp Hor fuel (init_state a orc) Ha Hi) as (st & H1 & H2 & H3).
  exists st. repeat split; assumption.
Qed.

(* the witness: an honest-looking oracle (all features kept while alpha <= 1, all dropped above) *)
Definition wit_oracle : Oracle R :=
  {| or_init := {| ob_score := Some 0; ob_pen := 1; ob_nsel := 2 |};
     or_val := fun _ _ => (Some 0, 1);
     or_epoch := fun _ alpha _ => {| ob_score := Some 0; ob_pen := 1; ob_nsel := if Rltb 1 alpha then 0 else 2 |} |}.
Definition wit_args (alpha0 : R) (patience : Z) : Args R :=
  {| a_alpha := alpha0; a_mult := 2; a_minf := 1%Z; a_keep := 9/10; a_esf := 99/100; a_patience := patience;
     a_max_iter := 1; a_d := 2 |}.

Lemma wit_minf : forall al p, eff_minf RR (wit_args al p) = 1%Z.
Proof. intros. reflexivity. Qed.

Lemma wit_drop : forall al p t alpha i, 1 < alpha ->
  (Z.of_nat (ob_nsel (or_epoch wit_oracle t alpha i)) <= eff_minf RR (wit_args al p))%Z.
Proof.
  intros al p t alpha i H. rewrite wit_minf. cbn [wit_oracle or_epoch ob_nsel].
  apply Rltb_true in H. rewrite H. cbn. lia.
Qed.

Lemma alpha_zero_diverges_refuted : exists (a : Args R) (orc : Oracle R) (B : R),
  a_alpha a = 0 /\ 1 < a_mult a /\ (0 < a_minf a < Z.of_nat (a_d a))%Z /\ (0 < a_patience a)%Z /\ (1 <= a_max_iter a)%nat /\
  (forall t alpha i, B < alpha -> (Z.of_nat (ob_nsel (or_epoch orc t alpha i)) <= eff_minf RR a)%Z) /\
  forall fuel, exists st, path Rops RR a orc fuel = OutOfFuel st /\ s_t st = fuel /\ s_alpha st = 0.
Proof.
  exists (wit_args 0 1), wit_oracle, 1. cbn [wit_args a_alpha a_mult a_minf a_patience a_max_iter a_d].
  split; [reflexivity|]. split; [lra|]. split; [cbn; lia|]. split; [lia|]. split; [lia|].
  split; [intros t alpha i H; apply wit_drop; exact H|].
  intros fuel. destruct (alpha_zero_diverges (wit_args 0 1) wit_oracle) with (fuel := fuel) as (st & H1 & H2 & H3);
    try reflexivity; try (cbn; lia).
  - intros t i. split; [cbn; discriminate|]. rewrite wit_minf. cbn [wit_oracle or_epoch ob_nsel].
    assert (E : Rltb 1 0 = false) by (apply Rltb_false; lra). rewrite E. cbn. lia.
  - exists st. repeat split; assumption.
Qed.

(* the same oracle with alpha0 = 1/2 > 0 does return: the premises of the theorems about returned
   paths are satisfiable over R *)
Lemma wit_returns : exists fuel st nan, path Rops RR (wit_args (1/2) 1) wit_oracle fuel = Returned st nan.
Proof.
  destruct (terminates_if_alpha_positive (wit_args (1/2) 1) wit_oracle 1) as (fuel & H & _).
  - cbn. lra.
  - intros t alpha i Hb. apply wit_drop. exact Hb.
  - exists fuel. destruct (path Rops RR (wit_args (1 / 2) 1) wit_oracle fuel) as [st nan|st|st] eqn:E.
    + exists st, nan. reflexivity.
    + exfalso. unfold path in E. eapply (no_unbound Rops RR (wit_args (1/2) 1) wit_oracle); [cbn; lia|cbn; lia|exact E].
    + exfalso. eapply H. reflexivity.
Qed.

(* ---- finding F12b: max_patience = 0 (accepted without a warning) raises UnboundLocalError ---- *)
Lemma max_patience_zero_unbound_refuted : exists (a : Args R) (orc : Oracle R),
  a_patience a = 0%Z /\ 0 < a_alpha a /\ 1 < a_mult a /\ (0 < a_minf a < Z.of_nat (a_d a))%Z /\ (1 <= a_max_iter a)%nat /\
  forall fuel, path Rops RR a orc (S fuel) = Unbound (init_state a orc).
Proof.
  exists (wit_args (1/2) 0), wit_oracle. cbn [wit_args a_alpha a_mult a_minf a_patience a_max_iter a_d].
  split; [reflexivity|]. split; [lra|]. split; [lra|]. split; [cbn; lia|]. split; [lia|].
  apply unbound_first_step; [reflexivity|right; cbn; lia].
Qed.
End Reals.

(* ================================================================== a computable instance (non-vacuity) *)
Definition Zops : NumOps Z :=
  {| n0 := 0%Z; n1 := 1%Z; nadd := Z.add; nsub := Z.sub; nmul := Z.mul; ndiv := Z.div;
     nsqrt := Z.sqrt; nln := Z.log2; nexp := Z.pow 2; nabs := Z.abs;
     nltb := Z.ltb; nleb := Z.leb; neqb := Z.eqb; nofnat := Z.of_nat |}.
(* three steps with scores 13 (3 features), 13 (2 features), 5 (1 feature); keep_threshold 1: the weights of
   step 1 are the ones kept; each step stops after max_patience = 2 epochs without improvement *)
Definition ex_oracle : Oracle Z :=
  {| or_init := {| ob_score := Some 10%Z; ob_pen := 9%Z; ob_nsel := 3 |};
     or_val := fun t _ => (Some (nth t [10; 12; 11] 0)%Z, 9%Z);
     or_epoch := fun t alpha i =>
       {| ob_score := Some (nth t [12; 12; 4] 0 + Z.of_nat (Nat.min i 1))%Z; ob_pen := (9 - Z.of_nat t)%Z; ob_nsel := 3 - t |} |}.
Definition ex_args : Args Z :=
  {| a_alpha := 1%Z; a_mult := 2%Z; a_minf := 1%Z; a_keep := 1%Z; a_esf := 1%Z; a_patience := 2%Z; a_max_iter := 5; a_d := 3 |}.
Lemma ex_run : exists st, path Zops (path_rules Zops) ex_args ex_oracle 10 = Returned st false /\
  s_alphas st = [1; 2; 4]%Z /\ s_nfeat st = [3; 2; 1] /\ s_gem st = [13; 13; 5]%Z /\ s_bidx st = Some 1 /\ s_epochs st = [4; 4; 4].
Proof. eexists. vm_compute. repeat split. Qed.
