(* C03 — the directions computed by `_compute_grads` are minus the gradient of the (regularised,
   possibly constraint-decorated) objective.
   Part A: softmax (normalised exponentials, derivative along any differentiable curve of logits).
   Part B: adjoint identities, pure algebra, all shapes:  <g, JVP(dtheta)> = - <grads, dtheta>.
   Part C: derivatives  t |-> <g, infer(theta + t dtheta)>  (chain rule), penalties.
   Part D: must-link / cannot-link decoration.   Part E: row discipline, uniqueness of the direction. *)
From Coq Require Import Reals Lra Lia Psatz List.
From Coquelicot Require Import Coquelicot.
From GV Require Import Common.Num Common.NumR Model.Forward Model.Mlcl Model.Backprop.
From GV Require Import Proofs.RSumLib Proofs.GeminiDefs.
Open Scope R_scope.

(* ================================================================== generic facts (every number system) *)
Section GenericExt.
Context {T : Type} (o : NumOps T).
Lemma bsum_ext n (f g : nat -> T) : (forall i, (i < n)%nat -> f i = g i) -> bsum o n f = bsum o n g.
Proof. induction n as [|n IH]; intros H; [reflexivity|]. cbn [bsum]. rewrite IH, H; auto. Qed.
Lemma vmax_ext K (z z' : nat -> T) : (forall c, z c = z' c) -> vmax o K z = vmax o K z'.
Proof.
  intros H. induction K as [|K IH]; [reflexivity|]. cbn [vmax]. destruct K; [apply H|]. rewrite IH, H. reflexivity.
Qed.
Lemma softmax_row_ext K (z z' : nat -> T) k : (forall c, z c = z' c) -> softmax_row o K z k = softmax_row o K z' k.
Proof.
  intros H. unfold softmax_row. rewrite (vmax_ext K z z' H), (H k). f_equal.
  apply bsum_ext. intros c _. rewrite (H c). reflexivity.
Qed.
End GenericExt.

(* ================================================================== real-number reading of the model's primitives *)
Lemma bsum_rsum n f : bsum Rops n f = rsum n f. Proof. reflexivity. Qed.
Lemma nneg_R x : nneg Rops x = - x. Proof. unfold nneg. cbn [nsub n0 Rops]. lra. Qed.
Lemma mneg_R (M : mat) i k : mneg Rops M i k = - M i k. Proof. unfold mneg. apply nneg_R. Qed.
Lemma vneg_R (v : nat -> R) k : vneg Rops v k = - v k. Proof. unfold vneg. apply nneg_R. Qed.
Lemma n2_R : n2 Rops = 2. Proof. unfold n2. cbn [nadd n1 Rops]. lra. Qed.
Lemma tau_hat_R K (Y G : mat) i k :
  tau_hat Rops K Y G i k = Y i k * (G i k - rsum K (fun c => Y i c * G i c)).
Proof. reflexivity. Qed.
Lemma tmatmul_R n (A B : mat) j k : tmatmul Rops n A B j k = rsum n (fun i => A i j * B i k).
Proof. reflexivity. Qed.
Lemma colsum_R n (A : mat) k : colsum Rops n A k = rsum n (fun i => A i k).
Proof. reflexivity. Qed.
Lemma affine_R d (X W : mat) b i k : affine Rops d X W b i k = rsum d (fun j => X i j * W j k) + b k.
Proof. reflexivity. Qed.
Lemma matmul_R d (X W : mat) i k : matmul Rops d X W i k = rsum d (fun j => X i j * W j k).
Proof. reflexivity. Qed.

Definition inner_vec (c : nat) (a b : nat -> R) : R := rsum c (fun k => a k * b k).
Lemma inner_ext n K (A A' B B' : mat) :
  (forall i k, (i < n)%nat -> (k < K)%nat -> A i k = A' i k) ->
  (forall i k, (i < n)%nat -> (k < K)%nat -> B i k = B' i k) -> inner n K A B = inner n K A' B'.
Proof. intros HA HB. unfold inner. apply rsum_ext. intros i Hi. apply rsum_ext. intros k Hk. rewrite HA, HB; auto. Qed.
Lemma inner_neg_l n K (A B : mat) : inner n K (fun i k => - A i k) B = - inner n K A B.
Proof.
  unfold inner. rewrite <- rsum_opp. apply rsum_ext. intros i Hi. rewrite <- rsum_opp. apply rsum_ext. intros k Hk. ring.
Qed.
Lemma inner_plus_r n K (A B C : mat) : inner n K A (fun i k => B i k + C i k) = inner n K A B + inner n K A C.
Proof.
  unfold inner. rewrite <- rsum_plus. apply rsum_ext. intros i Hi. rewrite <- rsum_plus. apply rsum_ext. intros k Hk. ring.
Qed.
Lemma inner_plus_l n K (A B C : mat) : inner n K (fun i k => A i k + B i k) C = inner n K A C + inner n K B C.
Proof.
  unfold inner. rewrite <- rsum_plus. apply rsum_ext. intros i Hi. rewrite <- rsum_plus. apply rsum_ext. intros k Hk. ring.
Qed.
Lemma inner_scal_l n K c (A B : mat) : inner n K (fun i k => c * A i k) B = c * inner n K A B.
Proof.
  unfold inner. rewrite <- rsum_scal. apply rsum_ext. intros i Hi. rewrite <- rsum_scal. apply rsum_ext. intros k Hk. ring.
Qed.
Lemma inner_sym n K (A B : mat) : inner n K A B = inner n K B A.
Proof. unfold inner. apply rsum_ext. intros i Hi. apply rsum_ext. intros k Hk. ring. Qed.
Lemma inner_vec_neg_l c (a b : nat -> R) : inner_vec c (fun k => - a k) b = - inner_vec c a b.
Proof. unfold inner_vec. rewrite <- rsum_opp. apply rsum_ext. intros k Hk. ring. Qed.
(* <A, row-constant v> = <column sums of A, v> *)
Lemma inner_rowconst n K (A : mat) (v : nat -> R) :
  inner n K A (fun _ k => v k) = inner_vec K (fun k => rsum n (fun i => A i k)) v.
Proof.
  unfold inner, inner_vec. rewrite rsum_swap. apply rsum_ext. intros k Hk. rewrite rsum_scal_r. reflexivity.
Qed.
(* <tau, A B> = <A^T tau, B> *)
Lemma matmul_adjoint n d K (tau A B : mat) :
  inner n K tau (fun i k => rsum d (fun j => A i j * B j k))
  = inner d K (fun j k => rsum n (fun i => A i j * tau i k)) B.
Proof.
  unfold inner.
  rewrite (rsum_ext n _ (fun i => rsum d (fun j => rsum K (fun k => A i j * tau i k * B j k)))).
  2:{ intros i Hi. rewrite rsum_swap. apply rsum_ext. intros k Hk. rewrite <- rsum_scal. apply rsum_ext. intros j Hj. ring. }
  rewrite rsum_swap. apply rsum_ext. intros j Hj. rewrite rsum_swap. apply rsum_ext. intros k Hk.
  rewrite rsum_scal_r. reflexivity.
Qed.
(* <tau, B A^T> = <tau A, B> : back-propagation through a right factor *)
Lemma matmul_adjoint_r n h K (tau Dm W : mat) :
  inner n K tau (fun i k => rsum h (fun j => Dm i j * W j k))
  = inner n h (fun i j => rsum K (fun k => tau i k * W j k)) Dm.
Proof.
  unfold inner. apply rsum_ext. intros i Hi.
  rewrite (rsum_ext K _ (fun k => rsum h (fun j => tau i k * W j k * Dm i j))).
  2:{ intros k Hk. rewrite <- rsum_scal. apply rsum_ext. intros j Hj. ring. }
  rewrite rsum_swap. apply rsum_ext. intros j Hj. rewrite rsum_scal_r. reflexivity.
Qed.
(* one-hot directions pick out one entry *)
Definition unit_mat (a b : nat) : mat := fun i k => if (Nat.eqb i a && Nat.eqb k b)%bool then 1 else 0.
Definition unit_vec (b : nat) : nat -> R := fun k => if Nat.eqb k b then 1 else 0.
Lemma inner_unit n K (A : mat) a b : (a < n)%nat -> (b < K)%nat -> inner n K A (unit_mat a b) = A a b.
Proof.
  intros Ha Hb. unfold inner, unit_mat.
  rewrite (rsum_single n a); [rewrite (rsum_single K b); auto|auto|].
  - rewrite !Nat.eqb_refl. cbn. ring.
  - intros k Hk Hne. rewrite Nat.eqb_refl. destruct (Nat.eqb_spec k b); [contradiction|]. cbn. ring.
  - intros i Hi Hne. apply rsum_zero. intros k Hk. destruct (Nat.eqb_spec i a); [contradiction|]. cbn. ring.
Qed.
Lemma inner_vec_unit K (v : nat -> R) b : (b < K)%nat -> inner_vec K v (unit_vec b) = v b.
Proof.
  intros Hb. unfold inner_vec, unit_vec. rewrite (rsum_single K b); auto.
  - rewrite Nat.eqb_refl. ring.
  - intros k Hk Hne. destruct (Nat.eqb_spec k b); [contradiction|]. ring.
Qed.
Lemma inner_zero_r n K (A : mat) : inner n K A (fun _ _ => 0) = 0.
Proof. unfold inner. apply rsum_zero. intros i Hi. apply rsum_zero. intros k Hk. ring. Qed.
Lemma inner_vec_zero_r K (v : nat -> R) : inner_vec K v (fun _ => 0) = 0.
Proof. unfold inner_vec. apply rsum_zero. intros k Hk. ring. Qed.

(* ================================================================== Part A: softmax *)
(* the row maximum subtracted by sklearn's softmax cancels *)
Lemma softmax_row_eq K (z : nat -> R) k : (0 < K)%nat ->
  softmax_row Rops K z k = exp (z k) / rsum K (fun c => exp (z c)).
Proof.
  intros HK. unfold softmax_row. cbn [nexp nsub ndiv Rops]. rewrite bsum_rsum.
  set (m := vmax Rops K z).
  assert (E : forall c, exp (z c - m) = exp (z c) * exp (- m)).
  { intros c. unfold Rminus. apply exp_plus. }
  rewrite (rsum_ext K _ (fun c => exp (z c) * exp (- m))) by (intros; apply E).
  rewrite rsum_scal_r, E.
  assert (0 < rsum K (fun c => exp (z c))) by (apply rsum_pos; [exact HK | intros; apply exp_pos]).
  pose proof (exp_pos (- m)). field. split; lra.
Qed.
Lemma softmax_row_pos K (z : nat -> R) k : (0 < K)%nat -> 0 < softmax_row Rops K z k.
Proof.
  intros HK. rewrite softmax_row_eq by exact HK. apply Rdiv_lt_0_compat; [apply exp_pos|].
  apply rsum_pos; [exact HK | intros; apply exp_pos].
Qed.
Lemma softmax_row_sum K (z : nat -> R) : (0 < K)%nat -> rsum K (fun k => softmax_row Rops K z k) = 1.
Proof.
  intros HK. rewrite (rsum_ext K _ (fun k => exp (z k) / rsum K (fun c => exp (z c)))) by (intros; apply softmax_row_eq; exact HK).
  rewrite rsum_divc. field.
  assert (0 < rsum K (fun c => exp (z c))) by (apply rsum_pos; [exact HK | intros; apply exp_pos]). lra.
Qed.

Lemma dR_exp (f : R -> R) x a : is_derive f x a -> is_derive (fun t : R => exp (f t)) x (a * exp (f x)).
Proof.
  intros Hf. exact (is_derive_comp exp f x (exp (f x)) a (is_derive_exp (f x)) Hf).
Qed.

(* the Jacobian-vector product of a row softmax: y o (dz - <y, dz>) *)
Definition smjvp_row (K : nat) (y dz : nat -> R) (k : nat) : R := y k * (dz k - rsum K (fun c => y c * dz c)).
Definition smjvp (K : nat) (Y dZ : mat) : mat := fun i k => smjvp_row K (Y i) (dZ i) k.

(* derivative of softmax along any differentiable curve of logits, every K >= 1 *)
Lemma softmax_row_derive K (z : nat -> R -> R) (dz : nat -> R) k : (0 < K)%nat -> (k < K)%nat ->
  (forall c, (c < K)%nat -> is_derive (z c) 0 (dz c)) ->
  is_derive (fun t : R => softmax_row Rops K (fun c => z c t) k) 0
            (smjvp_row K (softmax_row Rops K (fun c => z c 0)) dz k).
Proof.
  intros HK Hk Hz.
  apply (dR_ext (fun t : R => exp (z k t) / rsum K (fun c => exp (z c t)))).
  { intros t. symmetry. apply (softmax_row_eq K (fun c => z c t) k HK). }
  set (S0 := rsum K (fun c => exp (z c 0))).
  assert (HS : 0 < S0) by (apply rsum_pos; [exact HK | intros; apply exp_pos]).
  assert (Hnum : is_derive (fun t : R => exp (z k t)) 0 (dz k * exp (z k 0))) by (apply dR_exp, Hz, Hk).
  assert (Hden : is_derive (fun t : R => rsum K (fun c => exp (z c t))) 0 (rsum K (fun c => dz c * exp (z c 0)))).
  { apply (dR_rsum K (fun c t => exp (z c t))). intros c Hc. apply dR_exp, Hz, Hc. }
  assert (Hnz : (fun t : R => rsum K (fun c => exp (z c t))) 0 <> 0) by (cbn beta; fold S0; lra).
  eapply dR_val; [|exact (dR_div _ _ 0 _ _ Hnum Hden Hnz)].
  cbn beta. fold S0. unfold smjvp_row.
  rewrite (rsum_ext K (fun c => softmax_row Rops K (fun c0 => z c0 0) c * dz c) (fun c => dz c * exp (z c 0) / S0)).
  2:{ intros c Hc. rewrite (softmax_row_eq K (fun c0 => z c0 0) c HK). fold S0. field. lra. }
  rewrite rsum_divc. rewrite (softmax_row_eq K (fun c0 => z c0 0) k HK). fold S0.
  set (Q := rsum K (fun c => dz c * exp (z c 0))). clearbody Q. clear Hnz Hden. clearbody S0.
  match goal with |- ?a = ?b => change (@eq R a b) end. field. lra.
Qed.
Ltac eqR := match goal with |- ?a = ?b => change (@eq R a b) end.

(* C03 (a): derivative of softmax_row K (z + t dz) at 0, every K >= 1 *)
Theorem softmax_jvp K (z dz : nat -> R) k : (0 < K)%nat -> (k < K)%nat ->
  is_derive (fun t : R => softmax_row Rops K (fun c => z c + t * dz c) k) 0
            (softmax_row Rops K z k * (dz k - rsum K (fun c => softmax_row Rops K z c * dz c))).
Proof.
  intros HK Hk.
  pose proof (softmax_row_derive K (fun c t => z c + t * dz c) dz k HK Hk (fun c _ => dR_lin (z c) (dz c) 0)) as H.
  cbn beta in H. unfold smjvp_row in H.
  rewrite (softmax_row_ext Rops K (fun c => z c + 0 * dz c) z k) in H by (intros; ring).
  erewrite (rsum_ext K (fun c => softmax_row Rops K (fun c0 => z c0 + 0 * dz c0) c * dz c)) in H.
  2:{ intros c Hc. rewrite (softmax_row_ext Rops K (fun c0 => z c0 + 0 * dz c0) z c) by (intros; ring). reflexivity. }
  exact H.
Qed.

(* ================================================================== Part B: adjoint identities (pure algebra) *)
(* the softmax Jacobian is symmetric: <g, y o (dz - <y,dz>)> = <y o (g - <y,g>), dz> — for ANY y *)
Lemma softmax_adjoint_row K (y g dz : nat -> R) :
  rsum K (fun k => g k * smjvp_row K y dz k) = rsum K (fun k => (y k * (g k - rsum K (fun c => y c * g c))) * dz k).
Proof.
  unfold smjvp_row.
  set (S := rsum K (fun c => y c * dz c)). set (Tt := rsum K (fun c => y c * g c)).
  rewrite (rsum_ext K _ (fun k => g k * y k * dz k - (y k * g k) * S)) by (intros; ring).
  rewrite (rsum_ext K (fun k => y k * (g k - Tt) * dz k) (fun k => g k * y k * dz k - Tt * (y k * dz k))) by (intros; ring).
  rewrite !rsum_minus, rsum_scal_r, rsum_scal. fold S Tt. ring.
Qed.
Lemma softmax_adjoint n K (Y g dZ : mat) :
  inner n K g (smjvp K Y dZ) = inner n K (tau_hat Rops K Y g) dZ.
Proof.
  unfold inner. apply rsum_ext. intros i Hi. unfold smjvp. rewrite (softmax_adjoint_row K (Y i) (g i) (dZ i)).
  apply rsum_ext. intros k Hk. rewrite tau_hat_R. reflexivity.
Qed.

(* <tau, X dW + 1 db> = <X^T tau, dW> + <colsum tau, db> *)
Lemma affine_adjoint n d K (tau X dW : mat) (db : nat -> R) :
  inner n K tau (fun i k => rsum d (fun j => X i j * dW j k) + db k)
  = inner d K (tmatmul Rops n X tau) dW + inner_vec K (colsum Rops n tau) db.
Proof.
  rewrite (inner_plus_r n K tau (fun i k => rsum d (fun j => X i j * dW j k)) (fun _ k => db k)).
  rewrite matmul_adjoint, inner_rowconst. reflexivity.
Qed.

(* ------------------------------------------------------------------ linear family *)
Definition inner_lin (d K : nat) (g dth : @LinP R) : R :=
  inner d K (lW g) (lW dth) + inner_vec K (lb g) (lb dth).
(* differential of the logits X W + b in the direction dth *)
Definition lin_dlogits (d : nat) (X : mat) (dth : @LinP R) : mat :=
  fun i k => rsum d (fun j => X i j * lW dth j k) + lb dth k.
(* forward-mode differential of the predictions softmax(X W + b) *)
Definition linear_jvp (d K : nat) (X : mat) (th dth : @LinP R) : mat :=
  smjvp K (linear_infer_p Rops d K th X) (lin_dlogits d X dth).

(* the algebra holds for whatever matrix is passed as y_pred *)
Lemma linear_adjoint_any n d K (X Y g : mat) (dth : @LinP R) :
  inner n K g (smjvp K Y (lin_dlogits d X dth)) = - inner_lin d K (linear_compute_grads Rops n K X Y g) dth.
Proof.
  rewrite softmax_adjoint. unfold lin_dlogits. rewrite affine_adjoint.
  unfold inner_lin, linear_compute_grads. cbn [lW lb].
  rewrite (inner_ext d K (mneg Rops (tmatmul Rops n X (tau_hat Rops K Y g))) (fun j k => - tmatmul Rops n X (tau_hat Rops K Y g) j k)
             (lW dth) (lW dth)) by (intros; try apply mneg_R; reflexivity).
  rewrite inner_neg_l.
  unfold inner_vec at 2. rewrite (rsum_ext K _ (fun k => - (colsum Rops n (tau_hat Rops K Y g) k * lb dth k))) by (intros; rewrite vneg_R; ring).
  rewrite rsum_opp. unfold inner_vec. ring.
Qed.
Theorem linear_adjoint n d K X th g dth :
  inner n K g (linear_jvp d K X th dth) = - inner_lin d K (linear_step_grads Rops n d K th X g) dth.
Proof. apply linear_adjoint_any. Qed.

(* RIM / KernelRIM: the direction is the linear one plus the penalty term on W *)
Lemma rim_grads_split d K reg (th g dth : @LinP R) :
  inner_lin d K (rim_update_grads Rops reg th g) dth
  = inner_lin d K g dth + inner d K (fun j k => 2 * reg * lW th j k) (lW dth).
Proof.
  unfold inner_lin, rim_update_grads. cbn [lW lb].
  rewrite (inner_ext d K _ (fun j k => lW g j k + 2 * reg * lW th j k) (lW dth) (lW dth)).
  2:{ intros j k _ _. cbn [nadd nmul Rops]. rewrite n2_R. ring. } 2:{ reflexivity. }
  rewrite inner_plus_l. ring.
Qed.
Lemma kernel_rim_grads_split n nt K reg (Kt : mat) (th : @LinP R) (X Y g : mat) dth :
  inner_lin nt K (kernel_rim_compute_grads Rops n nt K reg Kt th X Y g) dth
  = inner_lin nt K (linear_compute_grads Rops n K X Y g) dth
    + inner nt K (fun j k => 2 * reg * rsum nt (fun l => Kt j l * lW th l k)) (lW dth).
Proof.
  unfold inner_lin, kernel_rim_compute_grads. cbn [lW lb].
  rewrite (inner_ext nt K _ (fun j k => lW (linear_compute_grads Rops n K X Y g) j k + 2 * reg * rsum nt (fun l => Kt j l * lW th l k))
             (lW dth) (lW dth)).
  2:{ intros j k _ _. cbn [nadd nmul Rops]. rewrite n2_R, matmul_R. reflexivity. } 2:{ reflexivity. }
  rewrite inner_plus_l. ring.
Qed.

(* ------------------------------------------------------------------ MLP *)
Definition inner_mlp (d h K : nat) (g dth : @MlpP R) : R :=
  inner d h (mW1 g) (mW1 dth) + inner h K (mW2 g) (mW2 dth) + inner_vec h (mb1 g) (mb1 dth) + inner_vec K (mb2 g) (mb2 dth).
(* pre-activations X W1 + b1 *)
Definition preact (d : nat) (X : mat) (th : @MlpP R) : mat := affine Rops d X (mW1 th) (mb1 th).
Definition relu_off_kink (n h : nat) (A : mat) : Prop := forall i j, (i < n)%nat -> (j < h)%nat -> A i j <> 0.
(* derivative of the ReLU off the kink: 1 on positive pre-activations, 0 on negative ones *)
Definition dmask (A : mat) : mat := fun i j => if Rlt_dec 0 (A i j) then 1 else 0.
Definition mlp_dhidden (d : nat) (X : mat) (th dth : @MlpP R) : mat :=
  fun i j => dmask (preact d X th) i j * (rsum d (fun j' => X i j' * mW1 dth j' j) + mb1 dth j).
(* differential of the logits H W2 + b2 *)
Definition mlp_dlogits (d h : nat) (X : mat) (th dth : @MlpP R) : mat :=
  fun i k => rsum h (fun j => mlp_dhidden d X th dth i j * mW2 th j k)
           + (rsum h (fun j => mlp_hidden Rops d h (mW1 th) (mb1 th) X i j * mW2 dth j k) + mb2 dth k).
Definition mlp_jvp (n d h K : nat) (X : mat) (th dth : @MlpP R) : mat :=
  smjvp K (mlp_infer_p Rops d h K th X) (mlp_dlogits d h X th dth).

(* the code's mask `H > 0` on the retained hidden layer is the derivative of the ReLU at the pre-activation *)
Lemma relu_R x : relu Rops x = if Rlt_dec x 0 then 0 else x.
Proof. unfold relu, nmax. cbn [nltb n0 Rops]. unfold Rltb. destruct (Rlt_dec x 0); reflexivity. Qed.
Lemma relu_mask_is_dmask d h (X : mat) (th : @MlpP R) i j :
  relu_mask Rops (mlp_hidden Rops d h (mW1 th) (mb1 th) X) i j = dmask (preact d X th) i j.
Proof.
  unfold relu_mask, dmask, mlp_hidden, preact. rewrite relu_R. cbn [nltb n0 n1 Rops]. unfold Rltb.
  set (a := affine Rops d X (mW1 th) (mb1 th) i j).
  destruct (Rlt_dec a 0); destruct (Rlt_dec 0 a); destruct (Rlt_dec 0 0); try reflexivity; lra.
Qed.

(* back-propagation through the hidden layer, for any tau, any output weights W2 and any mask *)
Lemma hidden_adjoint n d h K (tau X W2 Mk dW1 : mat) (db1 : nat -> R) :
  inner n K tau (fun i k => rsum h (fun j => (Mk i j * (rsum d (fun j' => X i j' * dW1 j' j) + db1 j)) * W2 j k))
  = let bp := fun i j => rsum K (fun k => tau i k * W2 j k) * Mk i j in
    inner d h (fun j' j => rsum n (fun i => X i j' * bp i j)) dW1 + inner_vec h (fun j => rsum n (fun i => bp i j)) db1.
Proof.
  cbv zeta.
  rewrite (matmul_adjoint_r n h K tau (fun i j => Mk i j * (rsum d (fun j' => X i j' * dW1 j' j) + db1 j)) W2).
  transitivity (inner n h (fun i j => rsum K (fun k => tau i k * W2 j k) * Mk i j) (fun i j => rsum d (fun j' => X i j' * dW1 j' j) + db1 j)).
  { unfold inner. apply rsum_ext. intros i Hi. apply rsum_ext. intros j Hj. ring. }
  exact (affine_adjoint n d h (fun i j => rsum K (fun k => tau i k * W2 j k) * Mk i j) X dW1 db1).
Qed.

Lemma mlp_adjoint_any n d h K (X Y g : mat) (th dth : @MlpP R) :
  inner n K g (smjvp K Y (mlp_dlogits d h X th dth))
  = - inner_mlp d h K (mlp_compute_grads Rops n K (mW2 th) (mlp_hidden Rops d h (mW1 th) (mb1 th) X) X Y g) dth.
Proof.
  rewrite softmax_adjoint. set (tau := tau_hat Rops K Y g). set (H := mlp_hidden Rops d h (mW1 th) (mb1 th) X).
  unfold mlp_dlogits. fold H.
  rewrite (inner_plus_r n K tau (fun i k => rsum h (fun j => mlp_dhidden d X th dth i j * mW2 th j k))
             (fun i k => rsum h (fun j => H i j * mW2 dth j k) + mb2 dth k)).
  rewrite (affine_adjoint n h K tau H (mW2 dth) (mb2 dth)).
  unfold mlp_dhidden.
  rewrite (hidden_adjoint n d h K tau X (mW2 th) (dmask (preact d X th)) (mW1 dth) (mb1 dth)). cbv zeta.
  unfold inner_mlp, mlp_compute_grads. cbn [mW1 mW2 mb1 mb2]. fold tau.
  rewrite (inner_ext d h (mneg Rops (tmatmul Rops n X (mlp_backprop Rops K tau (mW2 th) H)))
             (fun j' j => - rsum n (fun i => X i j' * (rsum K (fun k => tau i k * mW2 th j k) * dmask (preact d X th) i j)))
             (mW1 dth) (mW1 dth)).
  2:{ intros j' j _ _. rewrite mneg_R, tmatmul_R. f_equal. apply rsum_ext. intros i Hi. unfold mlp_backprop.
      unfold H. rewrite relu_mask_is_dmask. reflexivity. } 2:{ reflexivity. }
  rewrite inner_neg_l.
  rewrite (inner_ext h K (mneg Rops (tmatmul Rops n H tau)) (fun j k => - tmatmul Rops n H tau j k) (mW2 dth) (mW2 dth))
    by (intros; try apply mneg_R; reflexivity).
  rewrite inner_neg_l.
  unfold inner_vec.
  rewrite (rsum_ext h (fun k => vneg Rops (colsum Rops n (mlp_backprop Rops K tau (mW2 th) H)) k * mb1 dth k)
             (fun j => - (rsum n (fun i => rsum K (fun k => tau i k * mW2 th j k) * dmask (preact d X th) i j) * mb1 dth j))).
  2:{ intros j Hj. rewrite vneg_R, colsum_R.
      rewrite (rsum_ext n (fun i => mlp_backprop Rops K tau (mW2 th) H i j) (fun i => rsum K (fun k => tau i k * mW2 th j k) * dmask (preact d X th) i j)).
      2:{ intros i Hi. unfold mlp_backprop, H. rewrite relu_mask_is_dmask. reflexivity. } ring. }
  rewrite (rsum_ext K (fun k => vneg Rops (colsum Rops n tau) k * mb2 dth k) (fun k => - (colsum Rops n tau k * mb2 dth k)))
    by (intros; rewrite vneg_R; ring).
  rewrite !rsum_opp. ring.
Qed.
(* DESIGN Appendix A, verbatim shape (the algebra does not even need the off-kink hypothesis) *)
Theorem mlp_adjoint n d h K X th g dth : relu_off_kink n h (preact d X th) ->
  inner n K g (mlp_jvp n d h K X th dth) = - inner_mlp d h K (mlp_step_grads Rops n d h K th X g) dth.
Proof. intros _. apply mlp_adjoint_any. Qed.
