(* C03 — the directions computed by `_compute_grads` are minus the gradient of the (regularised,
   possibly constraint-decorated) objective.
   Part A: softmax (normalised exponentials, derivative along any differentiable curve of logits).
   Part B: adjoint identities, pure algebra, all shapes:  <g, JVP(dtheta)> = - <grads, dtheta>.
   Part C: derivatives  t |-> <g, infer(theta + t dtheta)>  (chain rule), penalties.
   Part D: must-link / cannot-link decoration.   Part E: row discipline, uniqueness of the direction. *)
From Coq Require Import Reals Lra Lia Psatz List Bool Arith.
From Coquelicot Require Import Coquelicot.
From GV Require Import Common.Num Common.NumR Model.Forward Model.Mlcl Model.Backprop.
From GV Require Import Proofs.RSumLib Proofs.GeminiDefs Proofs.Mlcl.
Import ListNotations.
Open Scope R_scope.

(* ================================================================== generic facts (every number system) *)
Section GenericExt.
Context {T : Type} (o : NumOps T).
Lemma bsum_ext n (f g : nat -> T) : (forall i, (i < n)%nat -> f i = g i) -> bsum o n f = bsum o n g.
Proof. induction n as [|n IH]; intros H; [reflexivity|]. cbn [bsum]. rewrite IH, H; auto. Qed.
Lemma vmax_ext K (z z' : nat -> T) : (forall c, z c = z' c) -> vmax o K z = vmax o K z'.
Proof.
  intros H. induction K as [|K IH]; [reflexivity|]. cbn [vmax]. destruct K; [apply H|]. rewrite IH, H. reflexivity.
Qed.
Lemma softmax_row_ext K (z z' : nat -> T) k : (forall c, z c = z' c) -> softmax_row o K z k = softmax_row o K z' k.
Proof.
  intros H. unfold softmax_row. rewrite (vmax_ext K z z' H), (H k). f_equal.
  apply bsum_ext. intros c _. rewrite (H c). reflexivity.
Qed.
End GenericExt.

(* ================================================================== real-number reading of the model's primitives *)
Lemma bsum_rsum n f : bsum Rops n f = rsum n f. Proof. reflexivity. Qed.
Lemma nneg_R x : nneg Rops x = - x. Proof. unfold nneg. cbn [nsub n0 Rops]. lra. Qed.
Lemma mneg_R (M : mat) i k : mneg Rops M i k = - M i k. Proof. unfold mneg. apply nneg_R. Qed.
Lemma vneg_R (v : nat -> R) k : vneg Rops v k = - v k. Proof. unfold vneg. apply nneg_R. Qed.
Lemma n2_R : n2 Rops = 2. Proof. unfold n2. cbn [nadd n1 Rops]. lra. Qed.
Lemma tau_hat_R K (Y G : mat) i k :
  tau_hat Rops K Y G i k = Y i k * (G i k - rsum K (fun c => Y i c * G i c)).
Proof. reflexivity. Qed.
Lemma tmatmul_R n (A B : mat) j k : tmatmul Rops n A B j k = rsum n (fun i => A i j * B i k).
Proof. reflexivity. Qed.
Lemma colsum_R n (A : mat) k : colsum Rops n A k = rsum n (fun i => A i k).
Proof. reflexivity. Qed.
Lemma affine_R d (X W : mat) b i k : affine Rops d X W b i k = rsum d (fun j => X i j * W j k) + b k.
Proof. reflexivity. Qed.
Lemma matmul_R d (X W : mat) i k : matmul Rops d X W i k = rsum d (fun j => X i j * W j k).
Proof. reflexivity. Qed.

Definition inner_vec (c : nat) (a b : nat -> R) : R := rsum c (fun k => a k * b k).
Lemma inner_ext n K (A A' B B' : mat) :
  (forall i k, (i < n)%nat -> (k < K)%nat -> A i k = A' i k) ->
  (forall i k, (i < n)%nat -> (k < K)%nat -> B i k = B' i k) -> inner n K A B = inner n K A' B'.
Proof. intros HA HB. unfold inner. apply rsum_ext. intros i Hi. apply rsum_ext. intros k Hk. rewrite HA, HB; auto. Qed.
Lemma inner_neg_l n K (A B : mat) : inner n K (fun i k => - A i k) B = - inner n K A B.
Proof.
  unfold inner. rewrite <- rsum_opp. apply rsum_ext. intros i Hi. rewrite <- rsum_opp. apply rsum_ext. intros k Hk. ring.
Qed.
Lemma inner_plus_r n K (A B C : mat) : inner n K A (fun i k => B i k + C i k) = inner n K A B + inner n K A C.
Proof.
  unfold inner. rewrite <- rsum_plus. apply rsum_ext. intros i Hi. rewrite <- rsum_plus. apply rsum_ext. intros k Hk. ring.
Qed.
Lemma inner_plus_l n K (A B C : mat) : inner n K (fun i k => A i k + B i k) C = inner n K A C + inner n K B C.
Proof.
  unfold inner. rewrite <- rsum_plus. apply rsum_ext. intros i Hi. rewrite <- rsum_plus. apply rsum_ext. intros k Hk. ring.
Qed.
Lemma inner_scal_l n K c (A B : mat) : inner n K (fun i k => c * A i k) B = c * inner n K A B.
Proof.
  unfold inner. rewrite <- rsum_scal. apply rsum_ext. intros i Hi. rewrite <- rsum_scal. apply rsum_ext. intros k Hk. ring.
Qed.
Lemma inner_sym n K (A B : mat) : inner n K A B = inner n K B A.
Proof. unfold inner. apply rsum_ext. intros i Hi. apply rsum_ext. intros k Hk. ring. Qed.
Lemma inner_vec_neg_l c (a b : nat -> R) : inner_vec c (fun k => - a k) b = - inner_vec c a b.
Proof. unfold inner_vec. rewrite <- rsum_opp. apply rsum_ext. intros k Hk. ring. Qed.
(* <A, row-constant v> = <column sums of A, v> *)
Lemma inner_rowconst n K (A : mat) (v : nat -> R) :
  inner n K A (fun _ k => v k) = inner_vec K (fun k => rsum n (fun i => A i k)) v.
Proof.
  unfold inner, inner_vec. rewrite rsum_swap. apply rsum_ext. intros k Hk. rewrite rsum_scal_r. reflexivity.
Qed.
(* <tau, A B> = <A^T tau, B> *)
Lemma matmul_adjoint n d K (tau A B : mat) :
  inner n K tau (fun i k => rsum d (fun j => A i j * B j k))
  = inner d K (fun j k => rsum n (fun i => A i j * tau i k)) B.
Proof.
  unfold inner.
  rewrite (rsum_ext n _ (fun i => rsum d (fun j => rsum K (fun k => A i j * tau i k * B j k)))).
  2:{ intros i Hi. rewrite rsum_swap. apply rsum_ext. intros k Hk. rewrite <- rsum_scal. apply rsum_ext. intros j Hj. ring. }
  rewrite rsum_swap. apply rsum_ext. intros j Hj. rewrite rsum_swap. apply rsum_ext. intros k Hk.
  rewrite rsum_scal_r. reflexivity.
Qed.
(* <tau, B A^T> = <tau A, B> : back-propagation through a right factor *)
Lemma matmul_adjoint_r n h K (tau Dm W : mat) :
  inner n K tau (fun i k => rsum h (fun j => Dm i j * W j k))
  = inner n h (fun i j => rsum K (fun k => tau i k * W j k)) Dm.
Proof.
  unfold inner. apply rsum_ext. intros i Hi.
  rewrite (rsum_ext K _ (fun k => rsum h (fun j => tau i k * W j k * Dm i j))).
  2:{ intros k Hk. rewrite <- rsum_scal. apply rsum_ext. intros j Hj. ring. }
  rewrite rsum_swap. apply rsum_ext. intros j Hj. rewrite rsum_scal_r. reflexivity.
Qed.
(* one-hot directions pick out one entry *)
Definition unit_mat (a b : nat) : mat := fun i k => if (Nat.eqb i a && Nat.eqb k b)%bool then 1 else 0.
Definition unit_vec (b : nat) : nat -> R := fun k => if Nat.eqb k b then 1 else 0.
Lemma inner_unit n K (A : mat) a b : (a < n)%nat -> (b < K)%nat -> inner n K A (unit_mat a b) = A a b.
Proof.
  intros Ha Hb. unfold inner, unit_mat.
  rewrite (rsum_single n a); [rewrite (rsum_single K b); auto|auto|].
  - rewrite !Nat.eqb_refl. cbn. ring.
  - intros k Hk Hne. rewrite Nat.eqb_refl. destruct (Nat.eqb_spec k b); [contradiction|]. cbn. ring.
  - intros i Hi Hne. apply rsum_zero. intros k Hk. destruct (Nat.eqb_spec i a); [contradiction|]. cbn. ring.
Qed.
Lemma inner_vec_unit K (v : nat -> R) b : (b < K)%nat -> inner_vec K v (unit_vec b) = v b.
Proof.
  intros Hb. unfold inner_vec, unit_vec. rewrite (rsum_single K b); auto.
  - rewrite Nat.eqb_refl. ring.
  - intros k Hk Hne. destruct (Nat.eqb_spec k b); [contradiction|]. ring.
Qed.
Lemma inner_zero_r n K (A : mat) : inner n K A (fun _ _ => 0) = 0.
Proof. unfold inner. apply rsum_zero. intros i Hi. apply rsum_zero. intros k Hk. ring. Qed.
Lemma inner_vec_zero_r K (v : nat -> R) : inner_vec K v (fun _ => 0) = 0.
Proof. unfold inner_vec. apply rsum_zero. intros k Hk. ring. Qed.

(* ================================================================== Part A: softmax *)
(* the row maximum subtracted by sklearn's softmax cancels *)
Lemma softmax_row_eq K (z : nat -> R) k : (0 < K)%nat ->
  softmax_row Rops K z k = exp (z k) / rsum K (fun c => exp (z c)).
Proof.
  intros HK. unfold softmax_row. cbn [nexp nsub ndiv Rops]. rewrite bsum_rsum.
  set (m := vmax Rops K z).
  assert (E : forall c, exp (z c - m) = exp (z c) * exp (- m)).
  { intros c. unfold Rminus. apply exp_plus. }
  rewrite (rsum_ext K _ (fun c => exp (z c) * exp (- m))) by (intros; apply E).
  rewrite rsum_scal_r, E.
  assert (0 < rsum K (fun c => exp (z c))) by (apply rsum_pos; [exact HK | intros; apply exp_pos]).
  pose proof (exp_pos (- m)). field. split; lra.
Qed.
Lemma softmax_row_pos K (z : nat -> R) k : (0 < K)%nat -> 0 < softmax_row Rops K z k.
Proof.
  intros HK. rewrite softmax_row_eq by exact HK. apply Rdiv_lt_0_compat; [apply exp_pos|].
  apply rsum_pos; [exact HK | intros; apply exp_pos].
Qed.
Lemma softmax_row_sum K (z : nat -> R) : (0 < K)%nat -> rsum K (fun k => softmax_row Rops K z k) = 1.
Proof.
  intros HK. rewrite (rsum_ext K _ (fun k => exp (z k) / rsum K (fun c => exp (z c)))) by (intros; apply softmax_row_eq; exact HK).
  rewrite rsum_divc. field.
  assert (0 < rsum K (fun c => exp (z c))) by (apply rsum_pos; [exact HK | intros; apply exp_pos]). lra.
Qed.

Lemma dR_exp (f : R -> R) x a : is_derive f x a -> is_derive (fun t : R => exp (f t)) x (a * exp (f x)).
Proof.
  intros Hf. exact (is_derive_comp exp f x (exp (f x)) a (is_derive_exp (f x)) Hf).
Qed.

(* the Jacobian-vector product of a row softmax: y o (dz - <y, dz>) *)
Definition smjvp_row (K : nat) (y dz : nat -> R) (k : nat) : R := y k * (dz k - rsum K (fun c => y c * dz c)).
Definition smjvp (K : nat) (Y dZ : mat) : mat := fun i k => smjvp_row K (Y i) (dZ i) k.

(* derivative of softmax along any differentiable curve of logits, every K >= 1 *)
Lemma softmax_row_derive K (z : nat -> R -> R) (dz : nat -> R) k : (0 < K)%nat -> (k < K)%nat ->
  (forall c, (c < K)%nat -> is_derive (z c) 0 (dz c)) ->
  is_derive (fun t : R => softmax_row Rops K (fun c => z c t) k) 0
            (smjvp_row K (softmax_row Rops K (fun c => z c 0)) dz k).
Proof.
  intros HK Hk Hz.
  apply (dR_ext (fun t : R => exp (z k t) / rsum K (fun c => exp (z c t)))).
  { intros t. symmetry. apply (softmax_row_eq K (fun c => z c t) k HK). }
  set (S0 := rsum K (fun c => exp (z c 0))).
  assert (HS : 0 < S0) by (apply rsum_pos; [exact HK | intros; apply exp_pos]).
  assert (Hnum : is_derive (fun t : R => exp (z k t)) 0 (dz k * exp (z k 0))) by (apply dR_exp, Hz, Hk).
  assert (Hden : is_derive (fun t : R => rsum K (fun c => exp (z c t))) 0 (rsum K (fun c => dz c * exp (z c 0)))).
  { apply (dR_rsum K (fun c t => exp (z c t))). intros c Hc. apply dR_exp, Hz, Hc. }
  assert (Hnz : (fun t : R => rsum K (fun c => exp (z c t))) 0 <> 0) by (cbn beta; fold S0; lra).
  eapply dR_val; [|exact (dR_div _ _ 0 _ _ Hnum Hden Hnz)].
  cbn beta. fold S0. unfold smjvp_row.
  rewrite (rsum_ext K (fun c => softmax_row Rops K (fun c0 => z c0 0) c * dz c) (fun c => dz c * exp (z c 0) / S0)).
  2:{ intros c Hc. rewrite (softmax_row_eq K (fun c0 => z c0 0) c HK). fold S0. field. lra. }
  rewrite rsum_divc. rewrite (softmax_row_eq K (fun c0 => z c0 0) k HK). fold S0.
  set (Q := rsum K (fun c => dz c * exp (z c 0))). clearbody Q. clear Hnz Hden. clearbody S0.
  match goal with |- ?a = ?b => change (@eq R a b) end. field. lra.
Qed.
Ltac eqR := match goal with |- ?a = ?b => change (@eq R a b) end.

(* C03 (a): derivative of softmax_row K (z + t dz) at 0, every K >= 1 *)
Theorem softmax_jvp K (z dz : nat -> R) k : (0 < K)%nat -> (k < K)%nat ->
  is_derive (fun t : R => softmax_row Rops K (fun c => z c + t * dz c) k) 0
            (softmax_row Rops K z k * (dz k - rsum K (fun c => softmax_row Rops K z c * dz c))).
Proof.
  intros HK Hk.
  pose proof (softmax_row_derive K (fun c t => z c + t * dz c) dz k HK Hk (fun c _ => dR_lin (z c) (dz c) 0)) as H.
  cbn beta in H. unfold smjvp_row in H.
  rewrite (softmax_row_ext Rops K (fun c => z c + 0 * dz c) z k) in H by (intros; ring).
  erewrite (rsum_ext K (fun c => softmax_row Rops K (fun c0 => z c0 + 0 * dz c0) c * dz c)) in H.
  2:{ intros c Hc. rewrite (softmax_row_ext Rops K (fun c0 => z c0 + 0 * dz c0) z c) by (intros; ring). reflexivity. }
  exact H.
Qed.

(* ================================================================== Part B: adjoint identities (pure algebra) *)
(* the softmax Jacobian is symmetric: <g, y o (dz - <y,dz>)> = <y o (g - <y,g>), dz> — for ANY y *)
Lemma softmax_adjoint_row K (y g dz : nat -> R) :
  rsum K (fun k => g k * smjvp_row K y dz k) = rsum K (fun k => (y k * (g k - rsum K (fun c => y c * g c))) * dz k).
Proof.
  unfold smjvp_row.
  set (S := rsum K (fun c => y c * dz c)). set (Tt := rsum K (fun c => y c * g c)).
  rewrite (rsum_ext K _ (fun k => g k * y k * dz k - (y k * g k) * S)) by (intros; ring).
  rewrite (rsum_ext K (fun k => y k * (g k - Tt) * dz k) (fun k => g k * y k * dz k - Tt * (y k * dz k))) by (intros; ring).
  rewrite !rsum_minus, rsum_scal_r, rsum_scal. fold S Tt. ring.
Qed.
Lemma softmax_adjoint n K (Y g dZ : mat) :
  inner n K g (smjvp K Y dZ) = inner n K (tau_hat Rops K Y g) dZ.
Proof.
  unfold inner. apply rsum_ext. intros i Hi. unfold smjvp. rewrite (softmax_adjoint_row K (Y i) (g i) (dZ i)).
  apply rsum_ext. intros k Hk. rewrite tau_hat_R. reflexivity.
Qed.

(* <tau, X dW + 1 db> = <X^T tau, dW> + <colsum tau, db> *)
Lemma affine_adjoint n d K (tau X dW : mat) (db : nat -> R) :
  inner n K tau (fun i k => rsum d (fun j => X i j * dW j k) + db k)
  = inner d K (tmatmul Rops n X tau) dW + inner_vec K (colsum Rops n tau) db.
Proof.
  rewrite (inner_plus_r n K tau (fun i k => rsum d (fun j => X i j * dW j k)) (fun _ k => db k)).
  rewrite matmul_adjoint, inner_rowconst. reflexivity.
Qed.

(* ------------------------------------------------------------------ linear family *)
Definition inner_lin (d K : nat) (g dth : @LinP R) : R :=
  inner d K (lW g) (lW dth) + inner_vec K (lb g) (lb dth).
(* differential of the logits X W + b in the direction dth *)
Definition lin_dlogits (d : nat) (X : mat) (dth : @LinP R) : mat :=
  fun i k => rsum d (fun j => X i j * lW dth j k) + lb dth k.
(* forward-mode differential of the predictions softmax(X W + b) *)
Definition linear_jvp (d K : nat) (X : mat) (th dth : @LinP R) : mat :=
  smjvp K (linear_infer_p Rops d K th X) (lin_dlogits d X dth).

(* the algebra holds for whatever matrix is passed as y_pred *)
Lemma linear_adjoint_any n d K (X Y g : mat) (dth : @LinP R) :
  inner n K g (smjvp K Y (lin_dlogits d X dth)) = - inner_lin d K (linear_compute_grads Rops n K X Y g) dth.
Proof.
  rewrite softmax_adjoint. unfold lin_dlogits. rewrite affine_adjoint.
  unfold inner_lin, linear_compute_grads. cbn [lW lb].
  rewrite (inner_ext d K (mneg Rops (tmatmul Rops n X (tau_hat Rops K Y g))) (fun j k => - tmatmul Rops n X (tau_hat Rops K Y g) j k)
             (lW dth) (lW dth)) by (intros; try apply mneg_R; reflexivity).
  rewrite inner_neg_l.
  unfold inner_vec at 2. rewrite (rsum_ext K _ (fun k => - (colsum Rops n (tau_hat Rops K Y g) k * lb dth k))) by (intros; rewrite vneg_R; ring).
  rewrite rsum_opp. unfold inner_vec. ring.
Qed.
Theorem linear_adjoint n d K X th g dth :
  inner n K g (linear_jvp d K X th dth) = - inner_lin d K (linear_step_grads Rops n d K th X g) dth.
Proof. apply linear_adjoint_any. Qed.

(* RIM / KernelRIM: the direction is the linear one plus the penalty term on W *)
Lemma rim_grads_split d K reg (th g dth : @LinP R) :
  inner_lin d K (rim_update_grads Rops reg th g) dth
  = inner_lin d K g dth + inner d K (fun j k => 2 * reg * lW th j k) (lW dth).
Proof.
  unfold inner_lin, rim_update_grads. cbn [lW lb].
  rewrite (inner_ext d K _ (fun j k => lW g j k + 2 * reg * lW th j k) (lW dth) (lW dth)).
  2:{ intros j k _ _. cbn [nadd nmul Rops]. rewrite n2_R. ring. } 2:{ reflexivity. }
  rewrite inner_plus_l. ring.
Qed.
Lemma kernel_rim_grads_split n nt K reg (Kt : mat) (th : @LinP R) (X Y g : mat) dth :
  inner_lin nt K (kernel_rim_compute_grads Rops n nt K reg Kt th X Y g) dth
  = inner_lin nt K (linear_compute_grads Rops n K X Y g) dth
    + inner nt K (fun j k => 2 * reg * rsum nt (fun l => Kt j l * lW th l k)) (lW dth).
Proof.
  unfold inner_lin, kernel_rim_compute_grads. cbn [lW lb].
  rewrite (inner_ext nt K _ (fun j k => lW (linear_compute_grads Rops n K X Y g) j k + 2 * reg * rsum nt (fun l => Kt j l * lW th l k))
             (lW dth) (lW dth)).
  2:{ intros j k _ _. cbn [nadd nmul Rops]. rewrite n2_R, matmul_R. reflexivity. } 2:{ reflexivity. }
  rewrite inner_plus_l. ring.
Qed.

(* ------------------------------------------------------------------ MLP *)
Definition inner_mlp (d h K : nat) (g dth : @MlpP R) : R :=
  inner d h (mW1 g) (mW1 dth) + inner h K (mW2 g) (mW2 dth) + inner_vec h (mb1 g) (mb1 dth) + inner_vec K (mb2 g) (mb2 dth).
(* pre-activations X W1 + b1 *)
Definition preact (d : nat) (X : mat) (th : @MlpP R) : mat := affine Rops d X (mW1 th) (mb1 th).
Definition relu_off_kink (n h : nat) (A : mat) : Prop := forall i j, (i < n)%nat -> (j < h)%nat -> A i j <> 0.
(* derivative of the ReLU off the kink: 1 on positive pre-activations, 0 on negative ones *)
Definition dmask (A : mat) : mat := fun i j => if Rlt_dec 0 (A i j) then 1 else 0.
Definition mlp_dhidden (d : nat) (X : mat) (th dth : @MlpP R) : mat :=
  fun i j => dmask (preact d X th) i j * (rsum d (fun j' => X i j' * mW1 dth j' j) + mb1 dth j).
(* differential of the logits H W2 + b2 *)
Definition mlp_dlogits (d h : nat) (X : mat) (th dth : @MlpP R) : mat :=
  fun i k => rsum h (fun j => mlp_dhidden d X th dth i j * mW2 th j k)
           + (rsum h (fun j => mlp_hidden Rops d h (mW1 th) (mb1 th) X i j * mW2 dth j k) + mb2 dth k).
Definition mlp_jvp (n d h K : nat) (X : mat) (th dth : @MlpP R) : mat :=
  smjvp K (mlp_infer_p Rops d h K th X) (mlp_dlogits d h X th dth).

(* the code's mask `H > 0` on the retained hidden layer is the derivative of the ReLU at the pre-activation *)
Lemma relu_R x : relu Rops x = if Rlt_dec x 0 then 0 else x.
Proof. unfold relu, nmax. cbn [nltb n0 Rops]. unfold Rltb. destruct (Rlt_dec x 0); reflexivity. Qed.
Lemma relu_mask_is_dmask d h (X : mat) (th : @MlpP R) i j :
  relu_mask Rops (mlp_hidden Rops d h (mW1 th) (mb1 th) X) i j = dmask (preact d X th) i j.
Proof.
  unfold relu_mask, dmask, mlp_hidden, preact. rewrite relu_R. cbn [nltb n0 n1 Rops]. unfold Rltb.
  set (a := affine Rops d X (mW1 th) (mb1 th) i j).
  destruct (Rlt_dec a 0); destruct (Rlt_dec 0 a); destruct (Rlt_dec 0 0); try reflexivity; lra.
Qed.

(* back-propagation through the hidden layer, for any tau, any output weights W2 and any mask *)
Lemma hidden_adjoint n d h K (tau X W2 Mk dW1 : mat) (db1 : nat -> R) :
  inner n K tau (fun i k => rsum h (fun j => (Mk i j * (rsum d (fun j' => X i j' * dW1 j' j) + db1 j)) * W2 j k))
  = let bp := fun i j => rsum K (fun k => tau i k * W2 j k) * Mk i j in
    inner d h (fun j' j => rsum n (fun i => X i j' * bp i j)) dW1 + inner_vec h (fun j => rsum n (fun i => bp i j)) db1.
Proof.
  cbv zeta.
  rewrite (matmul_adjoint_r n h K tau (fun i j => Mk i j * (rsum d (fun j' => X i j' * dW1 j' j) + db1 j)) W2).
  transitivity (inner n h (fun i j => rsum K (fun k => tau i k * W2 j k) * Mk i j) (fun i j => rsum d (fun j' => X i j' * dW1 j' j) + db1 j)).
  { unfold inner. apply rsum_ext. intros i Hi. apply rsum_ext. intros j Hj. ring. }
  exact (affine_adjoint n d h (fun i j => rsum K (fun k => tau i k * W2 j k) * Mk i j) X dW1 db1).
Qed.

Lemma mlp_adjoint_any n d h K (X Y g : mat) (th dth : @MlpP R) :
  inner n K g (smjvp K Y (mlp_dlogits d h X th dth))
  = - inner_mlp d h K (mlp_compute_grads Rops n K (mW2 th) (mlp_hidden Rops d h (mW1 th) (mb1 th) X) X Y g) dth.
Proof.
  rewrite softmax_adjoint. set (tau := tau_hat Rops K Y g). set (H := mlp_hidden Rops d h (mW1 th) (mb1 th) X).
  unfold mlp_dlogits. fold H.
  rewrite (inner_plus_r n K tau (fun i k => rsum h (fun j => mlp_dhidden d X th dth i j * mW2 th j k))
             (fun i k => rsum h (fun j => H i j * mW2 dth j k) + mb2 dth k)).
  rewrite (affine_adjoint n h K tau H (mW2 dth) (mb2 dth)).
  unfold mlp_dhidden.
  rewrite (hidden_adjoint n d h K tau X (mW2 th) (dmask (preact d X th)) (mW1 dth) (mb1 dth)). cbv zeta.
  unfold inner_mlp, mlp_compute_grads. cbn [mW1 mW2 mb1 mb2]. fold tau.
  rewrite (inner_ext d h (mneg Rops (tmatmul Rops n X (mlp_backprop Rops K tau (mW2 th) H)))
             (fun j' j => - rsum n (fun i => X i j' * (rsum K (fun k => tau i k * mW2 th j k) * dmask (preact d X th) i j)))
             (mW1 dth) (mW1 dth)).
  2:{ intros j' j _ _. rewrite mneg_R, tmatmul_R. f_equal. apply rsum_ext. intros i Hi. unfold mlp_backprop.
      unfold H. rewrite relu_mask_is_dmask. reflexivity. } 2:{ reflexivity. }
  rewrite inner_neg_l.
  rewrite (inner_ext h K (mneg Rops (tmatmul Rops n H tau)) (fun j k => - tmatmul Rops n H tau j k) (mW2 dth) (mW2 dth))
    by (intros; try apply mneg_R; reflexivity).
  rewrite inner_neg_l.
  unfold inner_vec.
  rewrite (rsum_ext h (fun k => vneg Rops (colsum Rops n (mlp_backprop Rops K tau (mW2 th) H)) k * mb1 dth k)
             (fun j => - (rsum n (fun i => rsum K (fun k => tau i k * mW2 th j k) * dmask (preact d X th) i j) * mb1 dth j))).
  2:{ intros j Hj. rewrite vneg_R, colsum_R.
      rewrite (rsum_ext n (fun i => mlp_backprop Rops K tau (mW2 th) H i j) (fun i => rsum K (fun k => tau i k * mW2 th j k) * dmask (preact d X th) i j)).
      2:{ intros i Hi. unfold mlp_backprop, H. rewrite relu_mask_is_dmask. reflexivity. } ring. }
  rewrite (rsum_ext K (fun k => vneg Rops (colsum Rops n tau) k * mb2 dth k) (fun k => - (colsum Rops n tau k * mb2 dth k)))
    by (intros; rewrite vneg_R; ring).
  rewrite !rsum_opp. ring.
Qed.
(* DESIGN Appendix A, verbatim shape (the algebra does not even need the off-kink hypothesis) *)
Theorem mlp_adjoint n d h K X th g dth : relu_off_kink n h (preact d X th) ->
  inner n K g (mlp_jvp n d h K X th dth) = - inner_mlp d h K (mlp_step_grads Rops n d h K th X g) dth.
Proof. intros _. apply mlp_adjoint_any. Qed.

(* ------------------------------------------------------------------ sparse MLP (skip connection) *)
Definition smlp_core (p : @SMlpP R) : @MlpP R := {| mW1 := sW1 p; mW2 := sW2 p; mb1 := sb1 p; mb2 := sb2 p |}.
Definition inner_smlp (d h K : nat) (g dth : @SMlpP R) : R :=
  inner_mlp d h K (smlp_core g) (smlp_core dth) + inner d K (sWskip g) (sWskip dth).
Definition smlp_dlogits (d h : nat) (X : mat) (th dth : @SMlpP R) : mat :=
  fun i k => mlp_dlogits d h X (smlp_core th) (smlp_core dth) i k + rsum d (fun j => X i j * sWskip dth j k).
Definition sparse_mlp_jvp (n d h K : nat) (X : mat) (th dth : @SMlpP R) : mat :=
  smjvp K (sparse_mlp_infer_p Rops d h K th X) (smlp_dlogits d h X th dth).

Lemma sparse_mlp_adjoint_any n d h K (X Y g : mat) (th dth : @SMlpP R) :
  inner n K g (smjvp K Y (smlp_dlogits d h X th dth))
  = - inner_smlp d h K (sparse_mlp_compute_grads Rops n K (sW2 th) (mlp_hidden Rops d h (sW1 th) (sb1 th) X) X Y g) dth.
Proof.
  rewrite softmax_adjoint. unfold smlp_dlogits.
  rewrite (inner_plus_r n K (tau_hat Rops K Y g) (mlp_dlogits d h X (smlp_core th) (smlp_core dth))
             (fun i k => rsum d (fun j => X i j * sWskip dth j k))).
  rewrite <- softmax_adjoint, (mlp_adjoint_any n d h K X Y g (smlp_core th) (smlp_core dth)).
  rewrite matmul_adjoint.
  unfold inner_smlp. cbn [smlp_core mW1 mW2 mb1 mb2 sW1 sW2 sb1 sb2].
  replace (inner d K (sWskip (sparse_mlp_compute_grads Rops n K (sW2 th) (mlp_hidden Rops d h (sW1 th) (sb1 th) X) X Y g)) (sWskip dth))
    with (- inner d K (fun j k => rsum n (fun i => X i j * tau_hat Rops K Y g i k)) (sWskip dth)).
  2:{ rewrite <- inner_neg_l. apply inner_ext; [|reflexivity]. intros j k _ _.
      unfold sparse_mlp_compute_grads. cbn [sWskip]. rewrite mneg_R, tmatmul_R. reflexivity. }
  unfold inner_mlp, mlp_compute_grads, sparse_mlp_compute_grads, smlp_core. cbn [mW1 mW2 mb1 mb2 sW1 sW2 sb1 sb2]. ring.
Qed.
Theorem sparse_mlp_adjoint n d h K X th g dth :
  inner n K g (sparse_mlp_jvp n d h K X th dth) = - inner_smlp d h K (sparse_mlp_step_grads Rops n d h K th X g) dth.
Proof. apply sparse_mlp_adjoint_any. Qed.

(* ------------------------------------------------------------------ categorical: the parameters are the logits *)
Lemma categorical_adjoint_any n K (Y g dL : mat) :
  inner n K g (smjvp K Y dL) = - inner n K (categorical_compute_grads Rops K Y g) dL.
Proof.
  rewrite softmax_adjoint, <- inner_neg_l. apply inner_ext; [|reflexivity].
  intros i k _ _. unfold categorical_compute_grads. rewrite mneg_R. ring.
Qed.
Definition categorical_jvp (K : nat) (L dL : mat) : mat := smjvp K (categorical_infer Rops K L) dL.
Theorem categorical_adjoint n K L g dL :
  inner n K g (categorical_jvp K L dL) = - inner n K (categorical_step_grads Rops K L g) dL.
Proof. apply categorical_adjoint_any. Qed.

(* ================================================================== Part C: derivatives (chain rule) *)
Lemma dR_inner n K (g : mat) (Y : R -> mat) (dY : mat) :
  (forall i k, (i < n)%nat -> (k < K)%nat -> is_derive (fun t : R => Y t i k) 0 (dY i k)) ->
  is_derive (fun t : R => inner n K g (Y t)) 0 (inner n K g dY).
Proof.
  intros H. unfold inner.
  apply (dR_rsum n (fun i t => rsum K (fun k => g i k * Y t i k))). intros i Hi.
  apply (dR_rsum K (fun k t => g i k * Y t i k)). intros k Hk. apply dR_scal, H; assumption.
Qed.
(* softmax of a differentiable curve of logit matrices; Z0 is any presentation of the logits at t = 0 *)
Lemma dR_softmax n K (Z : R -> mat) (Z0 dZ : mat) : (0 < K)%nat ->
  (forall i c, Z 0 i c = Z0 i c) ->
  (forall i k, (i < n)%nat -> (k < K)%nat -> is_derive (fun t : R => Z t i k) 0 (dZ i k)) ->
  forall i k, (i < n)%nat -> (k < K)%nat ->
    is_derive (fun t : R => softmax Rops K (Z t) i k) 0 (smjvp K (softmax Rops K Z0) dZ i k).
Proof.
  intros HK H0 HZ i k Hi Hk. unfold softmax, smjvp.
  pose proof (softmax_row_derive K (fun c t => Z t i c) (dZ i) k HK Hk (fun c Hc => HZ i c Hi Hc)) as H.
  cbn beta in H. eapply dR_val; [|exact H]. eqR. unfold smjvp_row.
  rewrite (softmax_row_ext Rops K (fun c => Z 0 i c) (Z0 i) k (H0 i)). f_equal. f_equal.
  apply rsum_ext. intros c Hc. rewrite (softmax_row_ext Rops K (fun c0 => Z 0 i c0) (Z0 i) c (H0 i)). reflexivity.
Qed.
Lemma dR_lin_scal (a w dw x : R) : is_derive (fun t : R => a * (w + t * dw)) x (a * dw).
Proof. apply dR_scal, dR_lin. Qed.
Lemma dR_mult0 (f g : R -> R) a b f0 g0 : is_derive f 0 a -> is_derive g 0 b -> f 0 = f0 -> g 0 = g0 ->
  is_derive (fun t : R => f t * g t) 0 (a * g0 + f0 * b).
Proof. intros Hf Hg <- <-. apply dR_mult; assumption. Qed.
(* affine map with perturbed weights: X (W + t dW) + (b + t db) *)
Lemma dR_affine d (X W dW : mat) (b db : nat -> R) i k :
  is_derive (fun t : R => affine Rops d X (fun j c => W j c + t * dW j c) (fun c => b c + t * db c) i k) 0
            (rsum d (fun j => X i j * dW j k) + db k).
Proof.
  apply (dR_ext (fun t : R => rsum d (fun j => X i j * (W j k + t * dW j k)) + (b k + t * db k))).
  { intros t. reflexivity. }
  apply dR_plus; [|apply dR_lin].
  apply (dR_rsum d (fun j t => X i j * (W j k + t * dW j k))). intros j Hj. apply dR_lin_scal.
Qed.
Lemma affine_pert0 d (X W dW : mat) (b db : nat -> R) i k :
  affine Rops d X (fun j c => W j c + 0 * dW j c) (fun c => b c + 0 * db c) i k = affine Rops d X W b i k.
Proof. rewrite !affine_R. f_equal; [apply rsum_ext; intros; ring | ring]. Qed.

(* ------------------------------------------------------------------ linear *)
Definition lin_pert (th dth : @LinP R) (t : R) : @LinP R :=
  {| lW := fun j k => lW th j k + t * lW dth j k; lb := fun k => lb th k + t * lb dth k |}.

Lemma linear_infer_derive n d K (X : mat) (th dth : @LinP R) : (0 < K)%nat ->
  forall i k, (i < n)%nat -> (k < K)%nat ->
    is_derive (fun t : R => linear_infer_p Rops d K (lin_pert th dth t) X i k) 0 (linear_jvp d K X th dth i k).
Proof.
  intros HK i k Hi Hk. unfold linear_infer_p, linear_infer, linear_jvp, lin_pert. cbn [lW lb].
  apply (dR_softmax n K (fun t => affine Rops d X (fun j c => lW th j c + t * lW dth j c) (fun c => lb th c + t * lb dth c))
           (affine Rops d X (lW th) (lb th)) (lin_dlogits d X dth) HK); try assumption.
  - intros i' c. apply affine_pert0.
  - intros i' k' _ _. apply dR_affine.
Qed.
(* C03 (b), linear family: the direction handed to the optimiser is minus the gradient of t |-> <g, infer(theta + t dtheta)> *)
Theorem linear_direction_is_gradient n d K (X : mat) (th dth : @LinP R) (g : mat) : (0 < K)%nat ->
  is_derive (fun t : R => inner n K g (linear_infer_p Rops d K (lin_pert th dth t) X)) 0
            (- inner_lin d K (linear_step_grads Rops n d K th X g) dth).
Proof.
  intros HK. rewrite <- linear_adjoint.
  apply (dR_inner n K g (fun t => linear_infer_p Rops d K (lin_pert th dth t) X)).
  intros i k Hi Hk. apply (linear_infer_derive n); assumption.
Qed.

(* ------------------------------------------------------------------ C03 (c): penalties *)
Definition sqnorm (d K : nat) (W : mat) : R := rsum d (fun j => rsum K (fun k => W j k * W j k)).
(* tr(W^T Kt W) with the full nt x nt training kernel *)
Definition trWKW (nt K : nat) (Kt W : mat) : R :=
  rsum K (fun k => rsum nt (fun j => rsum nt (fun l => W j k * Kt j l * W l k))).
Definition sym_on (nt : nat) (Kt : mat) : Prop := forall j l, (j < nt)%nat -> (l < nt)%nat -> Kt j l = Kt l j.

Theorem penalty_l2_derive d K reg (W dW : mat) :
  is_derive (fun t : R => reg * sqnorm d K (fun j k => W j k + t * dW j k)) 0
            (inner d K (fun j k => 2 * reg * W j k) dW).
Proof.
  assert (H : is_derive (fun t : R => reg * sqnorm d K (fun j k => W j k + t * dW j k)) 0
                (reg * rsum d (fun j => rsum K (fun k => dW j k * W j k + W j k * dW j k)))).
  { apply dR_scal. unfold sqnorm.
    apply (dR_rsum d (fun j t => rsum K (fun k => (W j k + t * dW j k) * (W j k + t * dW j k)))). intros j Hj.
    apply (dR_rsum K (fun k t => (W j k + t * dW j k) * (W j k + t * dW j k))). intros k Hk.
    apply dR_mult0; try apply dR_lin; ring. }
  eapply dR_val; [|exact H]. eqR. unfold inner.
  rewrite <- rsum_scal. apply rsum_ext. intros j Hj. rewrite <- rsum_scal. apply rsum_ext. intros k Hk. ring.
Qed.

Theorem penalty_kernel_derive nt K reg (Kt W dW : mat) : sym_on nt Kt ->
  is_derive (fun t : R => reg * trWKW nt K Kt (fun j k => W j k + t * dW j k)) 0
            (inner nt K (fun j k => 2 * reg * rsum nt (fun l => Kt j l * W l k)) dW).
Proof.
  intros Hsym.
  assert (H : is_derive (fun t : R => reg * trWKW nt K Kt (fun j k => W j k + t * dW j k)) 0
                (reg * rsum K (fun k => rsum nt (fun j => rsum nt (fun l =>
                   dW j k * Kt j l * W l k + W j k * Kt j l * dW l k))))).
  { apply dR_scal. unfold trWKW.
    apply (dR_rsum K (fun k t => rsum nt (fun j => rsum nt (fun l => (W j k + t * dW j k) * Kt j l * (W l k + t * dW l k))))). intros k Hk.
    apply (dR_rsum nt (fun j t => rsum nt (fun l => (W j k + t * dW j k) * Kt j l * (W l k + t * dW l k)))). intros j Hj.
    apply (dR_rsum nt (fun l t => (W j k + t * dW j k) * Kt j l * (W l k + t * dW l k))). intros l Hl.
    eapply dR_val; [|apply (dR_mult0 (fun t : R => (W j k + t * dW j k) * Kt j l) (fun t : R => W l k + t * dW l k)
                               (dW j k * Kt j l) (dW l k) (W j k * Kt j l) (W l k))].
    - eqR. ring.
    - apply (dR_ext (fun t : R => Kt j l * (W j k + t * dW j k))); [intros; ring|].
      eapply dR_val; [|apply dR_lin_scal]. eqR. ring.
    - apply dR_lin.
    - ring.
    - ring. }
  eapply dR_val; [|exact H]. eqR. unfold inner.
  rewrite (rsum_swap nt K). rewrite <- rsum_scal. apply rsum_ext. intros k Hk.
  (* per column k *)
  assert (E2 : rsum nt (fun j => rsum nt (fun l => W j k * Kt j l * dW l k))
             = rsum nt (fun j => rsum nt (fun l => W l k * Kt j l * dW j k))).
  { rewrite rsum_swap. apply rsum_ext. intros j Hj. apply rsum_ext. intros l Hl. rewrite (Hsym l j Hl Hj). reflexivity. }
  rewrite (rsum_ext nt (fun j => rsum nt (fun l => dW j k * Kt j l * W l k + W j k * Kt j l * dW l k))
             (fun j => rsum nt (fun l => dW j k * Kt j l * W l k) + rsum nt (fun l => W j k * Kt j l * dW l k)))
    by (intros; apply rsum_plus).
  rewrite rsum_plus, E2, <- rsum_plus, <- rsum_scal. apply rsum_ext. intros j Hj.
  rewrite <- rsum_plus.
  rewrite (rsum_ext nt (fun l => dW j k * Kt j l * W l k + W l k * Kt j l * dW j k) (fun l => (2 * dW j k) * (Kt j l * W l k))) by (intros; ring).
  rewrite rsum_scal. ring.
Qed.

(* ------------------------------------------------------------------ RIM: MI - reg ||W||^2 *)
Theorem rim_direction_is_gradient n d K reg (X : mat) (th dth : @LinP R) (g : mat) : (0 < K)%nat ->
  is_derive (fun t : R => inner n K g (linear_infer_p Rops d K (lin_pert th dth t) X)
                          - reg * sqnorm d K (lW (lin_pert th dth t))) 0
            (- inner_lin d K (rim_step_grads Rops n d K reg th X g) dth).
Proof.
  intros HK. unfold rim_step_grads. rewrite rim_grads_split.
  eapply dR_val; [|apply dR_minus; [apply (linear_direction_is_gradient n d K X th dth g HK)
                                   | apply (penalty_l2_derive d K reg (lW th) (lW dth))]].
  eqR. ring.
Qed.
(* KernelRIM: MI(batch rows of the kernel) - reg tr(W^T Kt W), Kt the whole (symmetric) training kernel;
   X is the batch's block of kernel rows, any n x nt matrix *)
Theorem kernel_rim_direction_is_gradient n nt K reg (Kt X : mat) (th dth : @LinP R) (g : mat) : (0 < K)%nat ->
  sym_on nt Kt ->
  is_derive (fun t : R => inner n K g (linear_infer_p Rops nt K (lin_pert th dth t) X)
                          - reg * trWKW nt K Kt (lW (lin_pert th dth t))) 0
            (- inner_lin nt K (kernel_rim_step_grads Rops n nt K reg Kt th X g) dth).
Proof.
  intros HK Hsym. unfold kernel_rim_step_grads. rewrite kernel_rim_grads_split.
  eapply dR_val; [|apply dR_minus; [apply (linear_direction_is_gradient n nt K X th dth g HK)
                                   | apply (penalty_kernel_derive nt K reg Kt (lW th) (lW dth) Hsym)]].
  eqR. unfold linear_step_grads. ring.
Qed.

(* ------------------------------------------------------------------ ReLU off the kink *)
Lemma dR_relu (f : R -> R) a a0 : is_derive f 0 a -> f 0 = a0 -> a0 <> 0 ->
  is_derive (fun t : R => relu Rops (f t)) 0 ((if Rlt_dec 0 a0 then 1 else 0) * a).
Proof.
  intros Hf H0 Hne.
  assert (Hc : continuous f 0) by (apply (ex_derive_continuous f); exists a; exact Hf).
  destruct (Rlt_dec 0 a0) as [Hp|Hn].
  - (* positive: relu is the identity nearby *)
    rewrite Rmult_1_l. apply (dR_ext_loc f); [|exact Hf].
    assert (HL : locally 0 (fun t => 0 < f t)).
    { apply (Hc (fun y => 0 < y)). apply (open_gt 0). rewrite H0. exact Hp. }
    revert HL. apply filter_imp. intros t Ht. rewrite relu_R. destruct (Rlt_dec (f t) 0); [lra | reflexivity].
  - (* negative: relu is 0 nearby *)
    rewrite Rmult_0_l. apply (dR_ext_loc (fun _ : R => 0)); [|apply dR_const].
    assert (HL : locally 0 (fun t => f t < 0)).
    { apply (Hc (fun y => y < 0)). apply (open_lt 0). rewrite H0. lra. }
    revert HL. apply filter_imp. intros t Ht. rewrite relu_R. destruct (Rlt_dec (f t) 0); [reflexivity | lra].
Qed.

(* ------------------------------------------------------------------ MLP *)
Definition mlp_pert (th dth : @MlpP R) (t : R) : @MlpP R :=
  {| mW1 := fun j' j => mW1 th j' j + t * mW1 dth j' j; mW2 := fun j k => mW2 th j k + t * mW2 dth j k;
     mb1 := fun j => mb1 th j + t * mb1 dth j; mb2 := fun k => mb2 th k + t * mb2 dth k |}.

Lemma mlp_hidden_derive n d h (X : mat) (W1 dW1 : mat) (b1 db1 : nat -> R) :
  relu_off_kink n h (affine Rops d X W1 b1) ->
  forall i j, (i < n)%nat -> (j < h)%nat ->
    is_derive (fun t : R => mlp_hidden Rops d h (fun j' c => W1 j' c + t * dW1 j' c) (fun c => b1 c + t * db1 c) X i j) 0
              ((if Rlt_dec 0 (affine Rops d X W1 b1 i j) then 1 else 0) * (rsum d (fun j' => X i j' * dW1 j' j) + db1 j)).
Proof.
  intros Hoff i j Hi Hj. unfold mlp_hidden.
  apply (dR_relu (fun t : R => affine Rops d X (fun j' c => W1 j' c + t * dW1 j' c) (fun c => b1 c + t * db1 c) i j)).
  - apply dR_affine.
  - apply affine_pert0.
  - apply Hoff; assumption.
Qed.

(* logits H(t) W2(t) + b2(t) [+ an extra differentiable term E(t), used for the skip connection] *)
Lemma mlp_logits_derive n d h (X W1 dW1 W2 dW2 : mat) (b1 db1 b2 db2 : nat -> R) :
  relu_off_kink n h (affine Rops d X W1 b1) ->
  forall i k, (i < n)%nat ->
    is_derive (fun t : R => affine Rops h (mlp_hidden Rops d h (fun j' c => W1 j' c + t * dW1 j' c) (fun c => b1 c + t * db1 c) X)
                              (fun j c => W2 j c + t * dW2 j c) (fun c => b2 c + t * db2 c) i k) 0
      (rsum h (fun j => ((if Rlt_dec 0 (affine Rops d X W1 b1 i j) then 1 else 0) * (rsum d (fun j' => X i j' * dW1 j' j) + db1 j)) * W2 j k)
       + (rsum h (fun j => mlp_hidden Rops d h W1 b1 X i j * dW2 j k) + db2 k)).
Proof.
  intros Hoff i k Hi.
  apply (dR_ext (fun t : R => rsum h (fun j => mlp_hidden Rops d h (fun j' c => W1 j' c + t * dW1 j' c) (fun c => b1 c + t * db1 c) X i j
                                               * (W2 j k + t * dW2 j k)) + (b2 k + t * db2 k))).
  { intros t. reflexivity. }
  rewrite <- Rplus_assoc. apply dR_plus; [|apply dR_lin].
  rewrite <- rsum_plus.
  apply (dR_rsum h (fun j t => mlp_hidden Rops d h (fun j' c => W1 j' c + t * dW1 j' c) (fun c => b1 c + t * db1 c) X i j
                               * (W2 j k + t * dW2 j k))).
  intros j Hj. apply dR_mult0.
  - apply (mlp_hidden_derive n); assumption.
  - apply dR_lin.
  - unfold mlp_hidden. f_equal. apply affine_pert0.
  - ring.
Qed.

Lemma mlp_infer_derive n d h K (X : mat) (th dth : @MlpP R) : (0 < K)%nat ->
  relu_off_kink n h (preact d X th) ->
  forall i k, (i < n)%nat -> (k < K)%nat ->
    is_derive (fun t : R => mlp_infer_p Rops d h K (mlp_pert th dth t) X i k) 0 (mlp_jvp n d h K X th dth i k).
Proof.
  intros HK Hoff i k Hi Hk. unfold mlp_infer_p, mlp_infer, mlp_jvp, mlp_pert. cbn [mW1 mW2 mb1 mb2].
  apply (dR_softmax n K
           (fun t => affine Rops h (mlp_hidden Rops d h (fun j' c => mW1 th j' c + t * mW1 dth j' c) (fun c => mb1 th c + t * mb1 dth c) X)
                       (fun j c => mW2 th j c + t * mW2 dth j c) (fun c => mb2 th c + t * mb2 dth c))
           (affine Rops h (mlp_hidden Rops d h (mW1 th) (mb1 th) X) (mW2 th) (mb2 th))
           (mlp_dlogits d h X th dth) HK); try assumption.
  - intros i' c. rewrite !affine_R. f_equal; [|ring]. apply rsum_ext. intros j Hj. f_equal; [|ring].
    unfold mlp_hidden. f_equal. apply affine_pert0.
  - intros i' k' Hi' _. unfold mlp_dlogits, mlp_dhidden, dmask, preact.
    apply (mlp_logits_derive n d h X (mW1 th) (mW1 dth) (mW2 th) (mW2 dth) (mb1 th) (mb1 dth) (mb2 th) (mb2 dth) Hoff i' k' Hi').
Qed.
(* C03 (b), MLP: off the ReLU kink the direction is minus the gradient *)
Theorem mlp_direction_is_gradient n d h K (X : mat) (th dth : @MlpP R) (g : mat) : (0 < K)%nat ->
  relu_off_kink n h (preact d X th) ->
  is_derive (fun t : R => inner n K g (mlp_infer_p Rops d h K (mlp_pert th dth t) X)) 0
            (- inner_mlp d h K (mlp_step_grads Rops n d h K th X g) dth).
Proof.
  intros HK Hoff. rewrite <- (mlp_adjoint n d h K X th g dth Hoff).
  apply (dR_inner n K g (fun t => mlp_infer_p Rops d h K (mlp_pert th dth t) X)).
  intros i k Hi Hk. apply mlp_infer_derive; assumption.
Qed.

(* ------------------------------------------------------------------ sparse MLP *)
Definition smlp_pert (th dth : @SMlpP R) (t : R) : @SMlpP R :=
  {| sW1 := fun j' j => sW1 th j' j + t * sW1 dth j' j; sW2 := fun j k => sW2 th j k + t * sW2 dth j k;
     sWskip := fun j k => sWskip th j k + t * sWskip dth j k;
     sb1 := fun j => sb1 th j + t * sb1 dth j; sb2 := fun k => sb2 th k + t * sb2 dth k |}.

Lemma sparse_mlp_infer_derive n d h K (X : mat) (th dth : @SMlpP R) : (0 < K)%nat ->
  relu_off_kink n h (preact d X (smlp_core th)) ->
  forall i k, (i < n)%nat -> (k < K)%nat ->
    is_derive (fun t : R => sparse_mlp_infer_p Rops d h K (smlp_pert th dth t) X i k) 0 (sparse_mlp_jvp n d h K X th dth i k).
Proof.
  intros HK Hoff i k Hi Hk. unfold sparse_mlp_infer_p, sparse_mlp_infer, sparse_mlp_jvp, smlp_pert. cbn [sW1 sW2 sWskip sb1 sb2].
  apply (dR_softmax n K
           (fun t i0 k0 => nadd Rops
              (affine Rops h (mlp_hidden Rops d h (fun j' c => sW1 th j' c + t * sW1 dth j' c) (fun c => sb1 th c + t * sb1 dth c) X)
                 (fun j c => sW2 th j c + t * sW2 dth j c) (fun c => sb2 th c + t * sb2 dth c) i0 k0)
              (matmul Rops d X (fun j c => sWskip th j c + t * sWskip dth j c) i0 k0))
           (fun i0 k0 => nadd Rops (affine Rops h (mlp_hidden Rops d h (sW1 th) (sb1 th) X) (sW2 th) (sb2 th) i0 k0)
                               (matmul Rops d X (sWskip th) i0 k0))
           (smlp_dlogits d h X th dth) HK); try assumption.
  - intros i' c. cbn [nadd Rops]. rewrite !affine_R, !matmul_R. f_equal.
    + f_equal; [|ring]. apply rsum_ext. intros j Hj. f_equal; [|ring]. unfold mlp_hidden. f_equal. apply affine_pert0.
    + apply rsum_ext. intros j Hj. ring.
  - intros i' k' Hi' _. cbn [nadd Rops]. unfold smlp_dlogits. apply dR_plus.
    + unfold mlp_dlogits, mlp_dhidden, dmask, preact, smlp_core. cbn [mW1 mW2 mb1 mb2].
      unfold preact, smlp_core in Hoff. cbn [mW1 mb1] in Hoff.
      apply (mlp_logits_derive n d h X (sW1 th) (sW1 dth) (sW2 th) (sW2 dth) (sb1 th) (sb1 dth) (sb2 th) (sb2 dth) Hoff i' k' Hi').
    + apply (dR_ext (fun t : R => rsum d (fun j => X i' j * (sWskip th j k' + t * sWskip dth j k')))); [intros; reflexivity|].
      apply (dR_rsum d (fun j t => X i' j * (sWskip th j k' + t * sWskip dth j k'))). intros j Hj. apply dR_lin_scal.
Qed.
Theorem sparse_mlp_direction_is_gradient n d h K (X : mat) (th dth : @SMlpP R) (g : mat) : (0 < K)%nat ->
  relu_off_kink n h (preact d X (smlp_core th)) ->
  is_derive (fun t : R => inner n K g (sparse_mlp_infer_p Rops d h K (smlp_pert th dth t) X)) 0
            (- inner_smlp d h K (sparse_mlp_step_grads Rops n d h K th X g) dth).
Proof.
  intros HK Hoff. rewrite <- sparse_mlp_adjoint.
  apply (dR_inner n K g (fun t => sparse_mlp_infer_p Rops d h K (smlp_pert th dth t) X)).
  intros i k Hi Hk. apply sparse_mlp_infer_derive; assumption.
Qed.

(* ------------------------------------------------------------------ categorical *)
Lemma categorical_infer_derive n K (L dL : mat) : (0 < K)%nat ->
  forall i k, (i < n)%nat -> (k < K)%nat ->
    is_derive (fun t : R => categorical_infer Rops K (fun i0 k0 => L i0 k0 + t * dL i0 k0) i k) 0 (categorical_jvp K L dL i k).
Proof.
  intros HK i k Hi Hk. unfold categorical_infer, categorical_jvp.
  apply (dR_softmax n K (fun t i0 k0 => L i0 k0 + t * dL i0 k0) L dL HK); try assumption.
  - intros; ring.
  - intros i' k' _ _. apply dR_lin.
Qed.
Theorem categorical_direction_is_gradient n K (L dL g : mat) : (0 < K)%nat ->
  is_derive (fun t : R => inner n K g (categorical_infer Rops K (fun i k => L i k + t * dL i k))) 0
            (- inner n K (categorical_step_grads Rops K L g) dL).
Proof.
  intros HK. rewrite <- categorical_adjoint.
  apply (dR_inner n K g (fun t => categorical_infer Rops K (fun i k => L i k + t * dL i k))).
  intros i k Hi Hk. apply (categorical_infer_derive n); assumption.
Qed.

(* ================================================================== Part D: must-link / cannot-link decoration *)
(* (factor/2) * sum over the pairs lying wholly inside the batch of ||y_a - y_b||^2, a and b being the
   positions of the two samples in the batch (first occurrence, as `list.index`) *)
Definition pair_term (f : R) (idx : list nat) (K : nat) (Y : mat) (pr : nat * nat) : R :=
  let (i, j) := pr in
  if (mem i idx && mem j idx)%bool
  then f / 2 * rsum K (fun k => (Y (index i idx) k - Y (index j idx) k) * (Y (index i idx) k - Y (index j idx) k))
  else 0.
Definition pair_pen (f : R) (idx : list nat) (K : nat) (Y : mat) (pairs : list (nat * nat)) : R :=
  fold_right (fun pr acc => pair_term f idx K Y pr + acc) 0 pairs.

Lemma nth_map_seq {A} (g : nat -> A) n p dflt : (p < n)%nat -> nth p (map g (seq 0 n)) dflt = g p.
Proof.
  intros Hp. rewrite (nth_indep _ dflt (g 0%nat)) by (rewrite map_length, seq_length; exact Hp).
  rewrite (map_nth g (seq 0 n) 0%nat p). rewrite seq_nth by exact Hp. reflexivity.
Qed.
Lemma ent_to_rows n K (M : mat) p k : (p < n)%nat -> (k < K)%nat -> ent (to_rows n K M) p k = M p k.
Proof.
  intros Hp Hk. unfold ent, to_rows. rewrite (nth_map_seq (fun i => map (fun k0 => M i k0) (seq 0 K)) n p [] Hp).
  apply (nth_map_seq (fun k0 => M p k0) K k 0 Hk).
Qed.
Lemma wf_to_rows n K (M : mat) : wf n K (to_rows n K M).
Proof.
  unfold wf, to_rows. split; [rewrite map_length, seq_length; reflexivity|].
  apply Forall_forall. intros r Hr. apply in_map_iff in Hr. destruct Hr as (i & <- & _).
  rewrite map_length, seq_length. reflexivity.
Qed.
Lemma of_rows_ent L i k : of_rows Rops L i k = ent L i k. Proof. reflexivity. Qed.

(* closed form of the decorated upstream gradient on the batch's entries (from Proofs/Mlcl.v::decorate_ent) *)
Lemma decorated_gradient_entry f idx n K (Y G : mat) ml cl p k : length idx = n -> (p < n)%nat -> (k < K)%nat ->
  decorated_gradient Rops f idx n K Y ml cl G p k
  = G p k + csum f idx (to_rows n K Y) cl p k - csum f idx (to_rows n K Y) ml p k.
Proof.
  intros Ln Hp Hk. unfold decorated_gradient. rewrite of_rows_ent.
  destruct (decorate_ent f idx (to_rows n K Y) ml cl (to_rows n K G) n K Ln (wf_to_rows n K Y) (wf_to_rows n K G)) as [_ E].
  rewrite (E p k Hp Hk), ent_to_rows by assumption. reflexivity.
Qed.

Lemma rsum_pick n a (u : R) (w : nat -> R) : (a < n)%nat ->
  rsum n (fun p => (if (p =? a)%nat then u else 0) * w p) = u * w a.
Proof.
  intros Ha. rewrite (rsum_single n a); auto.
  - rewrite Nat.eqb_refl. reflexivity.
  - intros p Hp Hne. destruct (Nat.eqb_spec p a); [contradiction|]. ring.
Qed.

(* derivative of one pair's term along any entrywise differentiable curve of predictions *)
Lemma pair_term_derive f idx n K (Yc : R -> mat) (Y0 D : mat) pr : length idx = n ->
  (forall i k, (i < n)%nat -> (k < K)%nat -> Yc 0 i k = Y0 i k) ->
  (forall i k, (i < n)%nat -> (k < K)%nat -> is_derive (fun t : R => Yc t i k) 0 (D i k)) ->
  is_derive (fun t : R => pair_term f idx K (Yc t) pr) 0
            (inner n K (fun p k => contrib f idx (to_rows n K Y0) pr p k) D).
Proof.
  intros Ln H0 HD. destruct pr as [i j]. unfold pair_term, contrib.
  destruct (mem i idx && mem j idx)%bool eqn:E.
  2:{ rewrite inner_sym, inner_zero_r. apply dR_const. }
  apply andb_true_iff in E. destruct E as [Ei Ej]. apply mem_In in Ei. apply mem_In in Ej.
  set (a := index i idx). set (b := index j idx).
  assert (Ha : (a < n)%nat) by (rewrite <- Ln; apply index_lt, Ei).
  assert (Hb : (b < n)%nat) by (rewrite <- Ln; apply index_lt, Ej).
  assert (H : is_derive (fun t : R => f / 2 * rsum K (fun k => (Yc t a k - Yc t b k) * (Yc t a k - Yc t b k))) 0
                (f / 2 * rsum K (fun k => (D a k - D b k) * (Y0 a k - Y0 b k) + (Y0 a k - Y0 b k) * (D a k - D b k)))).
  { apply dR_scal. apply (dR_rsum K (fun k t => (Yc t a k - Yc t b k) * (Yc t a k - Yc t b k))). intros k Hk.
    apply dR_mult0; try (apply dR_minus; apply HD; assumption); rewrite !H0 by assumption; reflexivity. }
  eapply dR_val; [|exact H]. eqR.
  unfold inner.
  rewrite (rsum_ext n _ (fun p => rsum K (fun k =>
             (if (p =? a)%nat then f * (Y0 a k - Y0 b k) else 0) * D p k + (if (p =? b)%nat then f * (Y0 b k - Y0 a k) else 0) * D p k))).
  2:{ intros p Hp. apply rsum_ext. intros k Hk. rewrite !ent_to_rows by assumption. ring. }
  rewrite rsum_swap. rewrite <- rsum_scal. apply rsum_ext. intros k Hk.
  rewrite rsum_plus.
  rewrite (rsum_pick n a (f * (Y0 a k - Y0 b k)) (fun p => D p k) Ha).
  rewrite (rsum_pick n b (f * (Y0 b k - Y0 a k)) (fun p => D p k) Hb). field.
Qed.
Lemma pair_pen_derive f idx n K (Yc : R -> mat) (Y0 D : mat) pairs : length idx = n ->
  (forall i k, (i < n)%nat -> (k < K)%nat -> Yc 0 i k = Y0 i k) ->
  (forall i k, (i < n)%nat -> (k < K)%nat -> is_derive (fun t : R => Yc t i k) 0 (D i k)) ->
  is_derive (fun t : R => pair_pen f idx K (Yc t) pairs) 0
            (inner n K (fun p k => csum f idx (to_rows n K Y0) pairs p k) D).
Proof.
  intros Ln H0 HD. induction pairs as [|pr r IH].
  - cbn [pair_pen fold_right csum]. rewrite inner_sym, inner_zero_r. apply dR_const.
  - cbn [pair_pen fold_right]. fold (pair_pen f idx K).
    eapply dR_val; [|apply dR_plus; [apply (pair_term_derive f idx n K Yc Y0 D pr Ln H0 HD) | exact IH]].
    eqR. rewrite <- inner_plus_l. apply inner_ext; [|reflexivity]. intros p k _ _. reflexivity.
Qed.

(* C03 (d): if G is the gradient of the objective w.r.t. the predictions (along the curve Yc), the decorated
   gradient is the gradient of   objective + (factor/2) sum_CL ||y_a - y_b||^2 - (factor/2) sum_ML ||y_a - y_b||^2
   restricted to the pairs inside the batch.  (_compute_grads then negates: the optimiser, which descends,
   increases the GEMINI, pushes cannot-link pairs apart and pulls must-link pairs together.) *)
Theorem mlcl_decorated_gradient f idx n K (obj : mat -> R) (Yc : R -> mat) (Y0 G D : mat) ml cl : length idx = n ->
  (forall i k, (i < n)%nat -> (k < K)%nat -> Yc 0 i k = Y0 i k) ->
  (forall i k, (i < n)%nat -> (k < K)%nat -> is_derive (fun t : R => Yc t i k) 0 (D i k)) ->
  is_derive (fun t : R => obj (Yc t)) 0 (inner n K G D) ->
  is_derive (fun t : R => obj (Yc t) + pair_pen f idx K (Yc t) cl - pair_pen f idx K (Yc t) ml) 0
            (inner n K (decorated_gradient Rops f idx n K Y0 ml cl G) D).
Proof.
  intros Ln H0 HD Hobj.
  eapply dR_val; [|apply dR_minus; [apply dR_plus; [exact Hobj | apply (pair_pen_derive f idx n K Yc Y0 D cl Ln H0 HD)]
                                   | apply (pair_pen_derive f idx n K Yc Y0 D ml Ln H0 HD)]].
  eqR.
  rewrite (inner_ext n K (decorated_gradient Rops f idx n K Y0 ml cl G)
             (fun p k => (G p k + csum f idx (to_rows n K Y0) cl p k) + - csum f idx (to_rows n K Y0) ml p k) D D).
  2:{ intros p k Hp Hk. rewrite decorated_gradient_entry by assumption. unfold Rminus. reflexivity. } 2:{ reflexivity. }
  rewrite inner_plus_l, inner_plus_l, inner_neg_l. unfold Rminus. reflexivity.
Qed.
(* straight-line special case: predictions perturbed as Y + t D *)
Corollary mlcl_decorated_gradient_line f idx n K (obj : mat -> R) (Y G D : mat) ml cl : length idx = n ->
  is_derive (fun t : R => obj (pert Y D t)) 0 (inner n K G D) ->
  is_derive (fun t : R => obj (pert Y D t) + pair_pen f idx K (pert Y D t) cl - pair_pen f idx K (pert Y D t) ml) 0
            (inner n K (decorated_gradient Rops f idx n K Y ml cl G) D).
Proof.
  intros Ln Hobj. apply (mlcl_decorated_gradient f idx n K obj (pert Y D) Y G D ml cl Ln); try assumption.
  - intros i k _ _. unfold pert. ring.
  - intros i k _ _. unfold pert. apply dR_lin.
Qed.

(* the decorated objective along a curve of predictions, with the linearised GEMINI <g, Y> *)
Lemma decorated_chain f idx n K (Yc : R -> mat) (Y0 D g : mat) ml cl : length idx = n ->
  (forall i k, (i < n)%nat -> (k < K)%nat -> Yc 0 i k = Y0 i k) ->
  (forall i k, (i < n)%nat -> (k < K)%nat -> is_derive (fun t : R => Yc t i k) 0 (D i k)) ->
  is_derive (fun t : R => inner n K g (Yc t) + pair_pen f idx K (Yc t) cl - pair_pen f idx K (Yc t) ml) 0
            (inner n K (decorated_gradient Rops f idx n K Y0 ml cl g) D).
Proof.
  intros Ln H0 HD.
  apply (mlcl_decorated_gradient f idx n K (fun Y => inner n K g Y) Yc Y0 g D ml cl Ln H0 HD).
  apply (dR_inner n K g Yc D HD).
Qed.

Lemma linear_infer_pert0 d K (X : mat) (th dth : @LinP R) i k :
  linear_infer_p Rops d K (lin_pert th dth 0) X i k = linear_infer_p Rops d K th X i k.
Proof.
  unfold linear_infer_p, linear_infer, softmax, lin_pert. cbn [lW lb]. apply softmax_row_ext. intros c. apply affine_pert0.
Qed.
Lemma mlp_hidden_pert0 d h (X W1 dW1 : mat) (b1 db1 : nat -> R) i j :
  mlp_hidden Rops d h (fun j' c => W1 j' c + 0 * dW1 j' c) (fun c => b1 c + 0 * db1 c) X i j = mlp_hidden Rops d h W1 b1 X i j.
Proof. unfold mlp_hidden. f_equal. apply affine_pert0. Qed.
Lemma mlp_logits_pert0 d h (X W1 dW1 W2 dW2 : mat) (b1 db1 b2 db2 : nat -> R) i k :
  affine Rops h (mlp_hidden Rops d h (fun j' c => W1 j' c + 0 * dW1 j' c) (fun c => b1 c + 0 * db1 c) X)
         (fun j c => W2 j c + 0 * dW2 j c) (fun c => b2 c + 0 * db2 c) i k
  = affine Rops h (mlp_hidden Rops d h W1 b1 X) W2 b2 i k.
Proof.
  rewrite !affine_R. f_equal; [|ring]. apply rsum_ext. intros j Hj. rewrite mlp_hidden_pert0. ring.
Qed.
Lemma mlp_infer_pert0 d h K (X : mat) (th dth : @MlpP R) i k :
  mlp_infer_p Rops d h K (mlp_pert th dth 0) X i k = mlp_infer_p Rops d h K th X i k.
Proof.
  unfold mlp_infer_p, mlp_infer, softmax, mlp_pert. cbn [mW1 mW2 mb1 mb2]. apply softmax_row_ext. intros c. apply mlp_logits_pert0.
Qed.
Lemma sparse_mlp_infer_pert0 d h K (X : mat) (th dth : @SMlpP R) i k :
  sparse_mlp_infer_p Rops d h K (smlp_pert th dth 0) X i k = sparse_mlp_infer_p Rops d h K th X i k.
Proof.
  unfold sparse_mlp_infer_p, sparse_mlp_infer, softmax, smlp_pert. cbn [sW1 sW2 sWskip sb1 sb2]. apply softmax_row_ext. intros c.
  cbn [nadd Rops]. rewrite mlp_logits_pert0. f_equal. rewrite !matmul_R. apply rsum_ext. intros j Hj. ring.
Qed.

(* C03 (d) composed with the backward passes: with the decoration the direction handed to the optimiser is
   minus the gradient of   <g, Y> + (f/2) sum_CL ||y_a - y_b||^2 - (f/2) sum_ML ||y_a - y_b||^2   in the parameters *)
Theorem linear_decorated_direction_is_gradient n d K f idx (X : mat) (th dth : @LinP R) (g : mat) ml cl :
  (0 < K)%nat -> length idx = n ->
  is_derive (fun t : R => inner n K g (linear_infer_p Rops d K (lin_pert th dth t) X)
                          + pair_pen f idx K (linear_infer_p Rops d K (lin_pert th dth t) X) cl
                          - pair_pen f idx K (linear_infer_p Rops d K (lin_pert th dth t) X) ml) 0
            (- inner_lin d K (linear_step_grads Rops n d K th X
                                (decorated_gradient Rops f idx n K (linear_infer_p Rops d K th X) ml cl g)) dth).
Proof.
  intros HK Ln. rewrite <- linear_adjoint.
  apply (decorated_chain f idx n K (fun t => linear_infer_p Rops d K (lin_pert th dth t) X)
           (linear_infer_p Rops d K th X) (linear_jvp d K X th dth) g ml cl Ln).
  - intros i k _ _. apply linear_infer_pert0.
  - intros i k Hi Hk. apply (linear_infer_derive n); assumption.
Qed.
Theorem mlp_decorated_direction_is_gradient n d h K f idx (X : mat) (th dth : @MlpP R) (g : mat) ml cl :
  (0 < K)%nat -> length idx = n -> relu_off_kink n h (preact d X th) ->
  is_derive (fun t : R => inner n K g (mlp_infer_p Rops d h K (mlp_pert th dth t) X)
                          + pair_pen f idx K (mlp_infer_p Rops d h K (mlp_pert th dth t) X) cl
                          - pair_pen f idx K (mlp_infer_p Rops d h K (mlp_pert th dth t) X) ml) 0
            (- inner_mlp d h K (mlp_step_grads Rops n d h K th X
                                  (decorated_gradient Rops f idx n K (mlp_infer_p Rops d h K th X) ml cl g)) dth).
Proof.
  intros HK Ln Hoff. rewrite <- (mlp_adjoint n d h K X th _ dth Hoff).
  apply (decorated_chain f idx n K (fun t => mlp_infer_p Rops d h K (mlp_pert th dth t) X)
           (mlp_infer_p Rops d h K th X) (mlp_jvp n d h K X th dth) g ml cl Ln).
  - intros i k _ _. apply mlp_infer_pert0.
  - intros i k Hi Hk. apply mlp_infer_derive; assumption.
Qed.
Theorem sparse_mlp_decorated_direction_is_gradient n d h K f idx (X : mat) (th dth : @SMlpP R) (g : mat) ml cl :
  (0 < K)%nat -> length idx = n -> relu_off_kink n h (preact d X (smlp_core th)) ->
  is_derive (fun t : R => inner n K g (sparse_mlp_infer_p Rops d h K (smlp_pert th dth t) X)
                          + pair_pen f idx K (sparse_mlp_infer_p Rops d h K (smlp_pert th dth t) X) cl
                          - pair_pen f idx K (sparse_mlp_infer_p Rops d h K (smlp_pert th dth t) X) ml) 0
            (- inner_smlp d h K (sparse_mlp_step_grads Rops n d h K th X
                                   (decorated_gradient Rops f idx n K (sparse_mlp_infer_p Rops d h K th X) ml cl g)) dth).
Proof.
  intros HK Ln Hoff. rewrite <- sparse_mlp_adjoint.
  apply (decorated_chain f idx n K (fun t => sparse_mlp_infer_p Rops d h K (smlp_pert th dth t) X)
           (sparse_mlp_infer_p Rops d h K th X) (sparse_mlp_jvp n d h K X th dth) g ml cl Ln).
  - intros i k _ _. apply sparse_mlp_infer_pert0.
  - intros i k Hi Hk. apply sparse_mlp_infer_derive; assumption.
Qed.
Theorem categorical_decorated_direction_is_gradient n K f idx (L dL g : mat) ml cl :
  (0 < K)%nat -> length idx = n ->
  is_derive (fun t : R => inner n K g (categorical_infer Rops K (fun i k => L i k + t * dL i k))
                          + pair_pen f idx K (categorical_infer Rops K (fun i k => L i k + t * dL i k)) cl
                          - pair_pen f idx K (categorical_infer Rops K (fun i k => L i k + t * dL i k)) ml) 0
            (- inner n K (categorical_step_grads Rops K L
                            (decorated_gradient Rops f idx n K (categorical_infer Rops K L) ml cl g)) dL).
Proof.
  intros HK Ln. rewrite <- categorical_adjoint.
  apply (decorated_chain f idx n K (fun t => categorical_infer Rops K (fun i k => L i k + t * dL i k))
           (categorical_infer Rops K L) (categorical_jvp K L dL) g ml cl Ln).
  - intros i k _ _. unfold categorical_infer, softmax. apply softmax_row_ext. intros c. ring.
  - intros i k Hi Hk. apply (categorical_infer_derive n); assumption.
Qed.

(* ================================================================== Part E: row discipline (every number system) *)
(* Matrices are total functions; the batch is the rows 0..n-1.  Changing the data X or the upstream gradient G on
   any other row leaves every direction unchanged: each direction is a sum over the batch's rows only. *)
Section RowDiscipline.
Context {T : Type} (o : NumOps T).
Definition rows_agree (n : nat) (A B : nat -> nat -> T) : Prop := forall i, (i < n)%nat -> forall k, A i k = B i k.

Lemma tau_hat_rows n K Y Y' G G' : rows_agree n Y Y' -> rows_agree n G G' ->
  rows_agree n (tau_hat o K Y G) (tau_hat o K Y' G').
Proof.
  intros HY HG i Hi k. unfold tau_hat. rewrite (HY i Hi k), (HG i Hi k). f_equal. f_equal.
  apply bsum_ext. intros c _. rewrite (HY i Hi c), (HG i Hi c). reflexivity.
Qed.
Lemma tmatmul_rows n A A' B B' : rows_agree n A A' -> rows_agree n B B' ->
  forall j k, tmatmul o n A B j k = tmatmul o n A' B' j k.
Proof. intros HA HB j k. unfold tmatmul. apply bsum_ext. intros i Hi. rewrite (HA i Hi j), (HB i Hi k). reflexivity. Qed.
Lemma colsum_rows n A A' : rows_agree n A A' -> forall k, colsum o n A k = colsum o n A' k.
Proof. intros HA k. unfold colsum. apply bsum_ext. intros i Hi. apply HA, Hi. Qed.
Lemma affine_rows n d X X' W b : rows_agree n X X' -> rows_agree n (affine o d X W b) (affine o d X' W b).
Proof. intros HX i Hi k. unfold affine. f_equal. apply bsum_ext. intros j _. rewrite (HX i Hi j). reflexivity. Qed.
Lemma matmul_rows n d X X' W : rows_agree n X X' -> rows_agree n (matmul o d X W) (matmul o d X' W).
Proof. intros HX i Hi k. unfold matmul. apply bsum_ext. intros j _. rewrite (HX i Hi j). reflexivity. Qed.
Lemma softmax_rows_agree n K Z Z' : rows_agree n Z Z' -> rows_agree n (softmax o K Z) (softmax o K Z').
Proof. intros HZ i Hi k. unfold softmax. apply softmax_row_ext. intros c. apply HZ, Hi. Qed.
Lemma mlp_hidden_rows n d h W1 b1 X X' : rows_agree n X X' -> rows_agree n (mlp_hidden o d h W1 b1 X) (mlp_hidden o d h W1 b1 X').
Proof. intros HX i Hi j. unfold mlp_hidden. f_equal. apply (affine_rows n d X X' W1 b1 HX i Hi j). Qed.
Lemma mlp_backprop_rows n K tau tau' W2 H H' : rows_agree n tau tau' -> rows_agree n H H' ->
  rows_agree n (mlp_backprop o K tau W2 H) (mlp_backprop o K tau' W2 H').
Proof.
  intros Ht HH i Hi j. unfold mlp_backprop, relu_mask. rewrite (HH i Hi j). f_equal.
  apply bsum_ext. intros k _. rewrite (Ht i Hi k). reflexivity.
Qed.

Theorem linear_row_discipline n d K (p : @LinP T) X X' G G' : rows_agree n X X' -> rows_agree n G G' ->
  (forall j k, lW (linear_step_grads o n d K p X G) j k = lW (linear_step_grads o n d K p X' G') j k) /\
  (forall k, lb (linear_step_grads o n d K p X G) k = lb (linear_step_grads o n d K p X' G') k).
Proof.
  intros HX HG. unfold linear_step_grads, linear_compute_grads, linear_infer_p, linear_infer. cbn [lW lb].
  assert (Ht : rows_agree n (tau_hat o K (softmax o K (affine o d X (lW p) (lb p))) G)
                          (tau_hat o K (softmax o K (affine o d X' (lW p) (lb p))) G')).
  { apply tau_hat_rows; [apply softmax_rows_agree, affine_rows, HX | exact HG]. }
  split; intros; unfold mneg, vneg; f_equal; [apply tmatmul_rows | apply colsum_rows]; assumption.
Qed.
Theorem rim_row_discipline n d K reg (p : @LinP T) X X' G G' : rows_agree n X X' -> rows_agree n G G' ->
  (forall j k, lW (rim_step_grads o n d K reg p X G) j k = lW (rim_step_grads o n d K reg p X' G') j k) /\
  (forall k, lb (rim_step_grads o n d K reg p X G) k = lb (rim_step_grads o n d K reg p X' G') k).
Proof.
  intros HX HG. destruct (linear_row_discipline n d K p X X' G G' HX HG) as [HW Hb].
  unfold rim_step_grads, rim_update_grads. cbn [lW lb]. split; intros; [rewrite HW; reflexivity | apply Hb].
Qed.
Theorem kernel_rim_row_discipline n nt K reg Kt (p : @LinP T) X X' G G' : rows_agree n X X' -> rows_agree n G G' ->
  (forall j k, lW (kernel_rim_step_grads o n nt K reg Kt p X G) j k = lW (kernel_rim_step_grads o n nt K reg Kt p X' G') j k) /\
  (forall k, lb (kernel_rim_step_grads o n nt K reg Kt p X G) k = lb (kernel_rim_step_grads o n nt K reg Kt p X' G') k).
Proof.
  intros HX HG. destruct (linear_row_discipline n nt K p X X' G G' HX HG) as [HW Hb].
  unfold kernel_rim_step_grads, kernel_rim_compute_grads. cbn [lW lb].
  unfold linear_step_grads in HW, Hb. split; intros; [rewrite HW; reflexivity | apply Hb].
Qed.
Theorem mlp_row_discipline n d h K (p : @MlpP T) X X' G G' : rows_agree n X X' -> rows_agree n G G' ->
  let a := mlp_step_grads o n d h K p X G in let b := mlp_step_grads o n d h K p X' G' in
  (forall j' j, mW1 a j' j = mW1 b j' j) /\ (forall j k, mW2 a j k = mW2 b j k) /\
  (forall j, mb1 a j = mb1 b j) /\ (forall k, mb2 a k = mb2 b k).
Proof.
  intros HX HG. cbv zeta. unfold mlp_step_grads, mlp_compute_grads, mlp_infer_p, mlp_infer. cbn [mW1 mW2 mb1 mb2].
  pose proof (mlp_hidden_rows n d h (mW1 p) (mb1 p) X X' HX) as HH.
  assert (Ht : rows_agree n (tau_hat o K (softmax o K (affine o h (mlp_hidden o d h (mW1 p) (mb1 p) X) (mW2 p) (mb2 p))) G)
                          (tau_hat o K (softmax o K (affine o h (mlp_hidden o d h (mW1 p) (mb1 p) X') (mW2 p) (mb2 p))) G')).
  { apply tau_hat_rows; [apply softmax_rows_agree, affine_rows, HH | exact HG]. }
  pose proof (mlp_backprop_rows n K _ _ (mW2 p) _ _ Ht HH) as Hb.
  repeat split; intros; unfold mneg, vneg; f_equal; try apply tmatmul_rows; try apply colsum_rows; assumption.
Qed.
Theorem sparse_mlp_row_discipline n d h K (p : @SMlpP T) X X' G G' : rows_agree n X X' -> rows_agree n G G' ->
  let a := sparse_mlp_step_grads o n d h K p X G in let b := sparse_mlp_step_grads o n d h K p X' G' in
  (forall j' j, sW1 a j' j = sW1 b j' j) /\ (forall j k, sW2 a j k = sW2 b j k) /\ (forall j k, sWskip a j k = sWskip b j k) /\
  (forall j, sb1 a j = sb1 b j) /\ (forall k, sb2 a k = sb2 b k).
Proof.
  intros HX HG. cbv zeta. unfold sparse_mlp_step_grads, sparse_mlp_compute_grads, sparse_mlp_infer_p, sparse_mlp_infer.
  cbn [sW1 sW2 sWskip sb1 sb2].
  pose proof (mlp_hidden_rows n d h (sW1 p) (sb1 p) X X' HX) as HH.
  assert (Ht : rows_agree n
     (tau_hat o K (softmax o K (fun i k => nadd o (affine o h (mlp_hidden o d h (sW1 p) (sb1 p) X) (sW2 p) (sb2 p) i k) (matmul o d X (sWskip p) i k))) G)
     (tau_hat o K (softmax o K (fun i k => nadd o (affine o h (mlp_hidden o d h (sW1 p) (sb1 p) X') (sW2 p) (sb2 p) i k) (matmul o d X' (sWskip p) i k))) G')).
  { apply tau_hat_rows; [|exact HG]. apply softmax_rows_agree. intros i Hi k.
    rewrite (affine_rows n h _ _ (sW2 p) (sb2 p) HH i Hi k), (matmul_rows n d X X' (sWskip p) HX i Hi k). reflexivity. }
  pose proof (mlp_backprop_rows n K _ _ (sW2 p) _ _ Ht HH) as Hb.
  repeat split; intros; unfold mneg, vneg; f_equal; try apply tmatmul_rows; try apply colsum_rows; assumption.
Qed.
(* categorical: the direction of sample i's logits involves row i only *)
Theorem categorical_row_discipline n K L L' G G' : rows_agree n L L' -> rows_agree n G G' ->
  rows_agree n (categorical_step_grads o K L G) (categorical_step_grads o K L' G').
Proof.
  intros HL HG i Hi k. unfold categorical_step_grads, categorical_compute_grads, mneg, categorical_infer. f_equal.
  apply (tau_hat_rows n K _ _ G G'); [apply softmax_rows_agree, HL | exact HG | exact Hi].
Qed.
End RowDiscipline.

(* the adjoint identity pins every entry of the direction down: whatever satisfies it for every parameter
   direction IS the model's direction (in particular no parameter's direction can depend on another
   parameter's gradient) *)
Theorem linear_direction_unique n d K (X : mat) (th cand : @LinP R) (g : mat) :
  (forall dth, inner n K g (linear_jvp d K X th dth) = - inner_lin d K cand dth) ->
  (forall j k, (j < d)%nat -> (k < K)%nat -> lW cand j k = lW (linear_step_grads Rops n d K th X g) j k) /\
  (forall k, (k < K)%nat -> lb cand k = lb (linear_step_grads Rops n d K th X g) k).
Proof.
  intros H. split.
  - intros j k Hj Hk. pose (dth := {| lW := unit_mat j k; lb := fun _ => 0 |} : @LinP R).
    pose proof (H dth) as H1. rewrite (linear_adjoint n d K X th g dth) in H1. unfold inner_lin, dth in H1. cbn [lW lb] in H1.
    rewrite !inner_unit, !inner_vec_zero_r in H1 by assumption. lra.
  - intros k Hk. pose (dth := {| lW := fun _ _ => 0; lb := unit_vec k |} : @LinP R).
    pose proof (H dth) as H1. rewrite (linear_adjoint n d K X th g dth) in H1. unfold inner_lin, dth in H1. cbn [lW lb] in H1.
    rewrite !inner_vec_unit, !inner_zero_r in H1 by assumption. lra.
Qed.
Theorem mlp_direction_unique n d h K (X : mat) (th cand : @MlpP R) (g : mat) :
  (forall dth, inner n K g (mlp_jvp n d h K X th dth) = - inner_mlp d h K cand dth) ->
  let m := mlp_step_grads Rops n d h K th X g in
  (forall j' j, (j' < d)%nat -> (j < h)%nat -> mW1 cand j' j = mW1 m j' j) /\
  (forall j k, (j < h)%nat -> (k < K)%nat -> mW2 cand j k = mW2 m j k) /\
  (forall j, (j < h)%nat -> mb1 cand j = mb1 m j) /\ (forall k, (k < K)%nat -> mb2 cand k = mb2 m k).
Proof.
  intros H. cbv zeta.
  assert (E : forall dth, inner_mlp d h K cand dth = inner_mlp d h K (mlp_step_grads Rops n d h K th X g) dth).
  { intros dth. pose proof (H dth) as H1. unfold mlp_jvp in H1. rewrite (mlp_adjoint_any n d h K X _ g th dth) in H1.
    unfold mlp_step_grads. lra. }
  repeat split.
  - intros j' j Hj' Hj. pose proof (E {| mW1 := unit_mat j' j; mW2 := fun _ _ => 0; mb1 := fun _ => 0; mb2 := fun _ => 0 |}) as H1.
    unfold inner_mlp in H1. cbn [mW1 mW2 mb1 mb2] in H1. rewrite !inner_unit, !inner_vec_zero_r, !inner_zero_r in H1 by assumption. lra.
  - intros j k Hj Hk. pose proof (E {| mW1 := fun _ _ => 0; mW2 := unit_mat j k; mb1 := fun _ => 0; mb2 := fun _ => 0 |}) as H1.
    unfold inner_mlp in H1. cbn [mW1 mW2 mb1 mb2] in H1. rewrite !inner_unit, !inner_vec_zero_r, !inner_zero_r in H1 by assumption. lra.
  - intros j Hj. pose proof (E {| mW1 := fun _ _ => 0; mW2 := fun _ _ => 0; mb1 := unit_vec j; mb2 := fun _ => 0 |}) as H1.
    unfold inner_mlp in H1. cbn [mW1 mW2 mb1 mb2] in H1. rewrite !inner_vec_unit, !inner_vec_zero_r, !inner_zero_r in H1 by assumption. lra.
  - intros k Hk. pose proof (E {| mW1 := fun _ _ => 0; mW2 := fun _ _ => 0; mb1 := fun _ => 0; mb2 := unit_vec k |}) as H1.
    unfold inner_mlp in H1. cbn [mW1 mW2 mb1 mb2] in H1. rewrite !inner_vec_unit, !inner_vec_zero_r, !inner_zero_r in H1 by assumption. lra.
Qed.

(* ================================================================== Douglas *)
(* ---- leaf scores: the logits are leaf @ S, linear in S *)
Theorem douglas_leaf_adjoint n L K (leafm S Y g dS : mat) :
  inner n K g (smjvp K Y (fun i k => rsum L (fun l => leafm i l * dS l k)))
  = - inner L K (mneg Rops (tmatmul Rops n leafm (tau_hat Rops K Y g))) dS.
Proof.
  rewrite softmax_adjoint, matmul_adjoint, <- inner_neg_l. apply inner_ext; [|reflexivity].
  intros l k _ _. rewrite mneg_R, tmatmul_R. ring.
Qed.

(* ---- cut points of one feature f.  B = c + 1 bins, bin = self._all_binnings[f], order = self._all_orders[f] *)
(* b = cumsum([0, -sorted cuts]): entry m is -(sum of the m smallest cuts); sorted[q] = cuts[order[q]] *)
Definition dg_dbias (order : list nat) (dc : nat -> R) (m : nat) : R := - rsum m (fun q => dc (nth q order 0%nat)).
(* differential of the binning softmax((x W + b) / temperature) *)
Definition dg_dbin (B : nat) (temp : R) (bin : mat) (order : list nat) (dc : nat -> R) : mat :=
  fun i m => smjvp_row B (bin i) (fun m' => dg_dbias order dc m' / temp) m.
(* differential of the leaf memberships: only the factor of feature f moves; `rest` is the product of the other factors *)
Definition dg_dleaf (F B f : nat) (dbin rest : mat) : mat := fun i l => dbin i (digit F B f l) * rest i l.
Definition dg_cut_jvp (F c L K f : nat) (temp : R) (S bin rest : mat) (order : list nat) (Y : mat) (dc : nat -> R) : mat :=
  smjvp K Y (fun i k => rsum L (fun l => dg_dleaf F (c + 1) f (dg_dbin (c + 1) temp bin order dc) rest i l * S l k)).

(* grouping a sum over leaves by the bin of feature f *)
Lemma rsum_group L B (dgt : nat -> nat) (phi : nat -> R) (psi : nat -> R) : (forall l, (l < L)%nat -> (dgt l < B)%nat) ->
  rsum L (fun l => phi (dgt l) * psi l) = rsum B (fun m => phi m * rsum L (fun l => if (dgt l =? m)%nat then psi l else 0)).
Proof.
  intros Hd.
  rewrite (rsum_ext B _ (fun m => rsum L (fun l => if (dgt l =? m)%nat then phi (dgt l) * psi l else 0))).
  2:{ intros m Hm. rewrite <- rsum_scal. apply rsum_ext. intros l Hl. destruct (Nat.eqb_spec (dgt l) m) as [->|]; ring. }
  rewrite rsum_swap. apply rsum_ext. intros l Hl. symmetry.
  rewrite (rsum_single B (dgt l)); [rewrite Nat.eqb_refl; reflexivity | apply Hd, Hl |].
  intros m Hm Hne. destruct (Nat.eqb_spec (dgt l) m); [congruence | reflexivity].
Qed.
(* first term peeled off *)
Lemma rsum_peel k (u : nat -> R) : rsum (S k) u = u 0%nat + rsum k (fun r => u (S r)).
Proof. induction k as [|k IHk]; [rewrite !rsum_S, !rsum_0; ring|]. rewrite rsum_S, IHk, rsum_S. ring. Qed.
(* reversed partial sums: sum_{r < c-q} f(c-1-r) = sum_{q <= m < c} f m *)
Lemma rsum_rev_tail c q (f : nat -> R) :
  rsum (c - q) (fun r => f (c - 1 - r)%nat) = rsum c (fun m => if (q <=? m)%nat then f m else 0).
Proof.
  induction c as [|c IH]; [reflexivity|].
  rewrite (rsum_S c). destruct (Nat.leb_spec q c) as [Hle|Hgt].
  - replace (S c - q)%nat with (S (c - q)) by lia. rewrite rsum_peel, <- IH.
    replace (S c - 1 - 0)%nat with c by lia.
    rewrite (rsum_ext (c - q) (fun r => f (S c - 1 - S r)%nat) (fun r => f (c - 1 - r)%nat)); [ring|].
    intros r Hr. f_equal. lia.
  - replace (S c - q)%nat with 0%nat by lia. rewrite rsum_0.
    rewrite rsum_zero; [ring|]. intros m Hm. destruct (Nat.leb_spec q m); [lia | reflexivity].
Qed.

(* `order` lists 0..c-1 in some order; then np.argsort(order) is its inverse (pos_in) *)
Definition is_order (c : nat) (order : list nat) : Prop :=
  length order = c /\ NoDup order /\ forall p, In p order -> (p < c)%nat.
Lemma pos_in_nth order q : NoDup order -> (q < length order)%nat -> pos_in (nth q order 0%nat) order = q.
Proof.
  revert q. induction order as [|x r IH]; intros q Hnd Hq; [cbn in Hq; lia|].
  inversion Hnd as [|? ? Hx Hnd']; subst. destruct q as [|q]; cbn [nth pos_in].
  - rewrite Nat.eqb_refl. reflexivity.
  - cbn [length] in Hq. destruct (Nat.eqb_spec x (nth q r 0%nat)) as [E|_].
    + exfalso. apply Hx. rewrite E. apply nth_In. lia.
    + rewrite IH; [reflexivity | exact Hnd' | lia].
Qed.
Lemma is_order_perm_on c order : is_order c order -> perm_on c (fun q => nth q order 0%nat).
Proof.
  intros (Hl & Hnd & Hr). split.
  - intros q Hq. apply Hr, nth_In. lia.
  - intros q q' Hq Hq' E. rewrite <- (pos_in_nth order q Hnd), <- (pos_in_nth order q' Hnd) by lia. rewrite E. reflexivity.
Qed.

Theorem douglas_cut_adjoint n F c L K f temp (Sc leafm bin rest : mat) (order : list nat) (Y g : mat) (dc : nat -> R) :
  temp <> 0 -> is_order c order ->
  (forall l, (l < L)%nat -> (digit F (c + 1) f l < c + 1)%nat) ->
  (forall i l, (i < n)%nat -> (l < L)%nat -> leafm i l = bin i (digit F (c + 1) f l) * rest i l) ->
  inner n K g (dg_cut_jvp F c L K f temp Sc bin rest order Y dc)
  = - inner_vec c (dg_cut_direction Rops n F c L K f temp Sc leafm bin order (tau_hat Rops K Y g)) dc.
Proof.
  intros Htemp Hord Hdig Hleaf. unfold dg_cut_jvp. rewrite softmax_adjoint.
  set (tau := tau_hat Rops K Y g). set (B := (c + 1)%nat) in *.
  set (ts := fun i l => rsum K (fun k => tau i k * Sc l k)).
  set (dbin := dg_dbin B temp bin order dc).
  set (R0 := fun i m => rsum L (fun l => if (digit F B f l =? m)%nat then rest i l * ts i l else 0)).
  (* step 1: <tau, dleaf S> = sum_i sum_m dbin i m * R0 i m *)
  assert (E1 : inner n K tau (fun i k => rsum L (fun l => dg_dleaf F B f dbin rest i l * Sc l k))
             = rsum n (fun i => rsum B (fun m => dbin i m * R0 i m))).
  { rewrite (matmul_adjoint_r n L K tau (dg_dleaf F B f dbin rest) Sc). unfold inner. apply rsum_ext. intros i Hi.
    unfold R0. rewrite <- (rsum_group L B (digit F B f) (fun m => dbin i m) (fun l => rest i l * ts i l) Hdig).
    apply rsum_ext. intros l Hl. unfold dg_dleaf, ts. ring. }
  rewrite E1. clear E1.
  (* step 2: the model's bin_grad in terms of R0 (the guarded division cancels against the factor bin) *)
  set (bb := dg_binning_backprop Rops K tau Sc leafm).
  set (sg := dg_softmax_grad Rops F B L f bb bin).
  assert (Esg : forall i m, (i < n)%nat -> bin i m * sg i m = bin i m * R0 i m).
  { intros i m Hi. unfold sg, dg_softmax_grad. cbn [neqb n0 ndiv Rops]. rewrite bsum_rsum.
    assert (Es : rsum L (fun l => if (digit F B f l =? m)%nat then bb i l else 0) = bin i m * R0 i m).
    { unfold R0. rewrite <- rsum_scal. apply rsum_ext. intros l Hl.
      destruct (Nat.eqb_spec (digit F B f l) m) as [E|_]; [|ring].
      unfold bb, dg_binning_backprop. cbn [nmul Rops]. rewrite bsum_rsum. fold (ts i l).
      rewrite (Hleaf i l Hi Hl), E. ring. }
    rewrite Es. unfold Reqb. destruct (Req_EM_T (bin i m) 0) as [Ez|Hnz]; [rewrite Ez; ring | field; exact Hnz]. }
  set (bg := dg_bin_grad Rops B temp bin sg).
  assert (Ebg : forall i m, (i < n)%nat -> bg i m = bin i m * (R0 i m - rsum B (fun c' => bin i c' * R0 i c')) / temp).
  { intros i m Hi. unfold bg, dg_bin_grad. cbn [ndiv nmul nsub Rops]. rewrite bsum_rsum.
    rewrite (rsum_ext B (fun c' => bin i c' * sg i c') (fun c' => bin i c' * R0 i c')) by (intros; apply Esg, Hi).
    f_equal. rewrite Rmult_minus_distr_l, (Esg i m Hi). ring. }
  (* step 3: softmax adjoint on the bins, then collect over the samples *)
  assert (E2 : rsum n (fun i => rsum B (fun m => dbin i m * R0 i m))
             = rsum B (fun m => rsum n (fun i => bg i m) * dg_dbias order dc m)).
  { transitivity (rsum n (fun i => rsum B (fun m => bg i m * dg_dbias order dc m))).
    2:{ rewrite rsum_swap. apply rsum_ext. intros m Hm. apply rsum_scal_r. }
    apply rsum_ext. intros i Hi.
    rewrite (rsum_ext B (fun m => dbin i m * R0 i m) (fun m => R0 i m * smjvp_row B (bin i) (fun m' => dg_dbias order dc m' / temp) m))
      by (intros; unfold dbin, dg_dbin; ring).
    rewrite (softmax_adjoint_row B (bin i) (R0 i) (fun m' => dg_dbias order dc m' / temp)).
    apply rsum_ext. intros m Hm. rewrite (Ebg i m Hi). field. exact Htemp. }
  rewrite E2. clear E2.
  (* step 4: the constant bin 0 has no bias; cumulative sums; un-permutation *)
  assert (EB : B = S c) by (unfold B; lia).
  rewrite EB at 1. rewrite rsum_peel. unfold dg_dbias at 1. rewrite rsum_0, Ropp_0, Rmult_0_r, Rplus_0_l.
  set (bias_grad := dg_bias_grad Rops n bg).
  rewrite (rsum_ext c _ (fun m' => rsum c (fun q => if (q <=? m')%nat then - (bias_grad m' * dc (nth q order 0%nat)) else 0))).
  2:{ intros m' Hm'. unfold dg_dbias. unfold bias_grad, dg_bias_grad. change (bsum Rops n) with (rsum n).
      replace (rsum (S m') (fun q => dc (nth q order 0%nat))) with (rsum c (fun q => if (q <=? m')%nat then dc (nth q order 0%nat) else 0)).
      2:{ clear - Hm'. revert m' Hm'. induction c as [|c IH]; intros m' Hm'; [lia|]. rewrite rsum_S.
          destruct (Nat.eq_dec m' c) as [->|Hne].
          - rewrite Nat.leb_refl. rewrite rsum_S. f_equal. apply rsum_ext. intros q Hq. destruct (Nat.leb_spec q c); [reflexivity | lia].
          - destruct (Nat.leb_spec c m'); [lia|]. rewrite IH by lia. ring. }
      set (A := rsum n (fun i => bg i (S m'))).
      rewrite (rsum_ext c (fun q => if (q <=? m')%nat then - (A * dc (nth q order 0%nat)) else 0)
                 (fun q => (- A) * (if (q <=? m')%nat then dc (nth q order 0%nat) else 0)))
        by (intros q Hq; destruct (q <=? m')%nat; ring).
      rewrite rsum_scal. ring. }
  rewrite rsum_swap.
  set (cg := dg_cumsum_grad Rops c bias_grad).
  rewrite (rsum_ext c _ (fun q => dc (nth q order 0%nat) * cg q)).
  2:{ intros q Hq. unfold cg, dg_cumsum_grad. rewrite nneg_R. change (bsum Rops (c - q)) with (rsum (c - q)). rewrite rsum_rev_tail.
      rewrite <- rsum_opp, <- rsum_scal. apply rsum_ext. intros m' Hm'. destruct (q <=? m')%nat; ring. }
  destruct Hord as (Hl & Hnd & Hr).
  rewrite (rsum_ext c _ (fun q => (fun p => dc p * cg (pos_in p order)) (nth q order 0%nat))).
  2:{ intros q Hq. cbn beta. rewrite pos_in_nth by (try exact Hnd; lia). reflexivity. }
  rewrite (rsum_perm c (fun q => nth q order 0%nat) (fun p => dc p * cg (pos_in p order)) (is_order_perm_on c order (conj Hl (conj Hnd Hr)))).
  unfold inner_vec. rewrite <- rsum_opp. apply rsum_ext. intros p Hp.
  unfold dg_cut_direction. rewrite nneg_R. fold tau. fold B. replace (c + 1)%nat with B by reflexivity.
  fold bb. fold sg. fold bg. fold bias_grad. fold cg. ring.
Qed.

(* ---- the leaf memberships are the Kronecker product of the per-feature binnings (row-major leaf index) *)
Fixpoint prod_bins (F : nat) (g : nat -> R) : R := match F with O => 1 | S m => prod_bins m g * g m end.
Definition leaf_prod (F B : nat) (bins : nat -> mat) : mat :=
  fun i l => prod_bins F (fun f' => bins f' i (digit F B f' l)).
Definition rest_prod (F B f : nat) (bins : nat -> mat) : mat :=
  fun i l => prod_bins F (fun f' => if (f' =? f)%nat then 1 else bins f' i (digit F B f' l)).
Lemma prod_bins_ext F g g' : (forall f, (f < F)%nat -> g f = g' f) -> prod_bins F g = prod_bins F g'.
Proof. induction F as [|F IH]; intros H; [reflexivity|]. cbn [prod_bins]. rewrite IH, H; auto. Qed.
Lemma prod_bins_split F f g : (f < F)%nat ->
  prod_bins F g = g f * prod_bins F (fun f' => if (f' =? f)%nat then 1 else g f').
Proof.
  induction F as [|F IH]; intros Hf; [lia|]. cbn [prod_bins].
  destruct (Nat.eq_dec f F) as [->|Hne].
  - rewrite Nat.eqb_refl.
    rewrite (prod_bins_ext F (fun f' => if (f' =? F)%nat then 1 else g f') g).
    2:{ intros f' Hf'. destruct (Nat.eqb_spec f' F); [lia | reflexivity]. } ring.
  - rewrite IH by lia. destruct (Nat.eqb_spec F f); [lia|]. ring.
Qed.
Lemma leaf_prod_split F B f bins i l : (f < F)%nat ->
  leaf_prod F B bins i l = bins f i (digit F B f l) * rest_prod F B f bins i l.
Proof. intros Hf. unfold leaf_prod, rest_prod. apply (prod_bins_split F f (fun f' => bins f' i (digit F B f' l)) Hf). Qed.
Lemma digit_lt F c f l : (digit F (c + 1) f l < c + 1)%nat.
Proof. unfold digit. apply Nat.mod_upper_bound. lia. Qed.

Lemma inner_rsum_r n K F (A : mat) (M : nat -> mat) :
  inner n K A (fun i k => rsum F (fun f => M f i k)) = rsum F (fun f => inner n K A (M f)).
Proof.
  induction F as [|F IH].
  - rewrite rsum_0. apply inner_zero_r.
  - rewrite rsum_S, <- IH, <- inner_plus_r. apply inner_ext; [reflexivity|]. intros i k _ _. apply (rsum_S F (fun f => M f i k)).
Qed.
Lemma smjvp_plus K (Y A Bm : mat) i k :
  smjvp K Y (fun i k => A i k + Bm i k) i k = smjvp K Y A i k + smjvp K Y Bm i k.
Proof.
  unfold smjvp, smjvp_row.
  rewrite (rsum_ext K (fun c => Y i c * (A i c + Bm i c)) (fun c => Y i c * A i c + Y i c * Bm i c)) by (intros; ring).
  rewrite rsum_plus. ring.
Qed.

(* Differential of Douglas's logits leaf(cuts) @ S for a simultaneous direction (dS, dcs 0, ..., dcs (F-1)):
   the sum of the partial differentials (product rule over the features' factors) *)
Definition douglas_dlogits (F c K : nat) (temp : R) (Sc leafm : mat) (bins : nat -> mat) (orders : nat -> list nat)
  (dS : mat) (dcs : nat -> nat -> R) : mat :=
  fun i k => rsum ((c + 1) ^ F) (fun l => leafm i l * dS l k)
           + rsum F (fun f => rsum ((c + 1) ^ F) (fun l =>
               dg_dleaf F (c + 1) f (dg_dbin (c + 1) temp (bins f) (orders f) (dcs f)) (rest_prod F (c + 1) f bins) i l * Sc l k)).
Definition douglas_jvp (F c K : nat) (temp : R) (Sc leafm : mat) (bins : nat -> mat) (orders : nat -> list nat) (Y : mat)
  (dS : mat) (dcs : nat -> nat -> R) : mat := smjvp K Y (douglas_dlogits F c K temp Sc leafm bins orders dS dcs).

(* C03 (b), Douglas: adjoint identity for the leaf scores and every feature's cut points, any n_cuts, any sort
   order (the argsort un-permutation), with the guarded division by the bin memberships *)
Theorem douglas_adjoint n F c K temp (Sc leafm : mat) (bins : nat -> mat) (orders : nat -> list nat) (Y g dS : mat)
  (dcs : nat -> nat -> R) :
  temp <> 0 -> (forall f, (f < F)%nat -> is_order c (orders f)) ->
  (forall i l, (i < n)%nat -> (l < (c + 1) ^ F)%nat -> leafm i l = leaf_prod F (c + 1) bins i l) ->
  let grads := douglas_compute_grads Rops n F c K temp Sc leafm bins orders Y g in
  inner n K g (douglas_jvp F c K temp Sc leafm bins orders Y dS dcs)
  = - (inner ((c + 1) ^ F) K (fst grads) dS + rsum F (fun f => inner_vec c (snd grads f) (dcs f))).
Proof.
  intros Htemp Hord Hleaf. cbv zeta. unfold douglas_jvp, douglas_dlogits.
  set (L := ((c + 1) ^ F)%nat) in *.
  rewrite softmax_adjoint.
  rewrite (inner_plus_r n K (tau_hat Rops K Y g) (fun i k => rsum L (fun l => leafm i l * dS l k))).
  rewrite <- softmax_adjoint, (douglas_leaf_adjoint n L K leafm Sc Y g dS).
  rewrite (inner_rsum_r n K F (tau_hat Rops K Y g)).
  rewrite (rsum_ext F _ (fun f => - inner_vec c (snd (douglas_compute_grads Rops n F c K temp Sc leafm bins orders Y g) f) (dcs f))).
  2:{ intros f Hf. rewrite <- softmax_adjoint.
      pose proof (douglas_cut_adjoint n F c L K f temp Sc leafm (bins f) (rest_prod F (c + 1) f bins) (orders f) Y g (dcs f)
                    Htemp (Hord f Hf) (fun l _ => digit_lt F c f l)) as H.
      unfold dg_cut_jvp in H. rewrite H.
      - reflexivity.
      - intros i l Hi Hl. rewrite (Hleaf i l Hi Hl). apply leaf_prod_split, Hf. }
  rewrite rsum_opp. unfold douglas_compute_grads. cbn [fst snd]. fold L. ring.
Qed.

(* derivative in the leaf scores (the logits are linear in them) *)
Theorem douglas_leaf_direction_is_gradient n F c K temp (Sc dS leafm : mat) (bins : nat -> mat) (orders : nat -> list nat) (g : mat) :
  (0 < K)%nat ->
  is_derive (fun t : R => inner n K g (softmax Rops K (matmul Rops ((c + 1) ^ F) leafm (fun l k => Sc l k + t * dS l k)))) 0
            (- inner ((c + 1) ^ F) K
                 (fst (douglas_compute_grads Rops n F c K temp Sc leafm bins orders
                         (softmax Rops K (matmul Rops ((c + 1) ^ F) leafm Sc)) g)) dS).
Proof.
  intros HK. set (L := ((c + 1) ^ F)%nat). unfold douglas_compute_grads. cbn [fst]. fold L.
  rewrite <- (douglas_leaf_adjoint n L K leafm Sc).
  apply (dR_inner n K g (fun t => softmax Rops K (matmul Rops L leafm (fun l k => Sc l k + t * dS l k)))).
  apply (dR_softmax n K (fun t => matmul Rops L leafm (fun l k => Sc l k + t * dS l k)) (matmul Rops L leafm Sc)
           (fun i k => rsum L (fun l => leafm i l * dS l k)) HK).
  - intros i c0. rewrite !matmul_R. apply rsum_ext. intros l Hl. ring.
  - intros i k _ _. apply (dR_ext (fun t : R => rsum L (fun l => leafm i l * (Sc l k + t * dS l k)))); [intros; reflexivity|].
    apply (dR_rsum L (fun l t => leafm i l * (Sc l k + t * dS l k))). intros l Hl. apply dR_lin_scal.
Qed.

(* ---- derivative in one feature's cut points, the sort order being held fixed.
   (The order returned by argsort is locally constant when the cut points are pairwise distinct; that
   step is not proved here, hence the theorem built on this lemma is named _partial.) *)
Definition dg_bin_logit (temp x : R) (order : list nat) (cuts : nat -> R) (m : nat) : R :=
  (x * INR (m + 1) + - rsum m (fun q => cuts (nth q order 0%nat))) / temp.
Definition dg_bins_fixed (B : nat) (temp : R) (x : nat -> R) (order : list nat) (cuts : nat -> R) : mat :=
  fun i m => softmax_row Rops B (dg_bin_logit temp (x i) order cuts) m.

Lemma dg_bin_logit_derive temp x order (cuts dc : nat -> R) m :
  is_derive (fun t : R => dg_bin_logit temp x order (fun p => cuts p + t * dc p) m) 0 (dg_dbias order dc m / temp).
Proof.
  unfold dg_bin_logit, dg_dbias. apply dR_divc.
  eapply dR_val; [|apply dR_plus; [apply (dR_const (x * INR (m + 1)) 0)
                                   | apply dR_opp, (dR_rsum m (fun q t => cuts (nth q order 0%nat) + t * dc (nth q order 0%nat)));
                                     intros q Hq; apply dR_lin]].
  eqR. ring.
Qed.
Lemma dg_bin_logit_pert0 temp x order (cuts dc : nat -> R) m :
  dg_bin_logit temp x order (fun p => cuts p + 0 * dc p) m = dg_bin_logit temp x order cuts m.
Proof. unfold dg_bin_logit. f_equal. f_equal. f_equal. apply rsum_ext. intros q Hq. ring. Qed.

Theorem douglas_cut_direction_is_gradient_fixed_order n F c K f temp (Sc rest : mat) (x : nat -> R) (order : list nat)
  (cuts dc : nat -> R) (g : mat) :
  (0 < K)%nat -> temp <> 0 -> is_order c order ->
  let B := (c + 1)%nat in let L := (B ^ F)%nat in
  let binf := fun cu => dg_bins_fixed B temp x order cu in
  let leaff := fun cu i l => binf cu i (digit F B f l) * rest i l in
  let Yf := fun cu => softmax Rops K (matmul Rops L (leaff cu) Sc) in
  is_derive (fun t : R => inner n K g (Yf (fun p => cuts p + t * dc p))) 0
            (- inner_vec c (dg_cut_direction Rops n F c L K f temp Sc (leaff cuts) (binf cuts) order (tau_hat Rops K (Yf cuts) g)) dc).
Proof.
  intros HK Htemp Hord. cbv beta zeta. set (B := (c + 1)%nat). set (L := (B ^ F)%nat).
  set (bin0 := dg_bins_fixed B temp x order cuts).
  set (leaf0 := fun i l => bin0 i (digit F B f l) * rest i l).
  set (Y0 := softmax Rops K (matmul Rops L leaf0 Sc)).
  rewrite <- (douglas_cut_adjoint n F c L K f temp Sc leaf0 bin0 rest order Y0 g dc Htemp Hord
                (fun l _ => digit_lt F c f l) (fun i l _ _ => eq_refl)).
  unfold dg_cut_jvp. fold B.
  apply (dR_inner n K g (fun t => softmax Rops K (matmul Rops L
            (fun i l => dg_bins_fixed B temp x order (fun p => cuts p + t * dc p) i (digit F B f l) * rest i l) Sc))).
  apply (dR_softmax n K
           (fun t => matmul Rops L (fun i l => dg_bins_fixed B temp x order (fun p => cuts p + t * dc p) i (digit F B f l) * rest i l) Sc)
           (matmul Rops L leaf0 Sc)
           (fun i k => rsum L (fun l => dg_dleaf F B f (dg_dbin B temp bin0 order dc) rest i l * Sc l k)) HK).
  - intros i k. rewrite !matmul_R. apply rsum_ext. intros l Hl. unfold leaf0, bin0, dg_bins_fixed.
    rewrite (softmax_row_ext Rops B _ (dg_bin_logit temp (x i) order cuts) (digit F B f l)) by (intros; apply dg_bin_logit_pert0).
    reflexivity.
  - intros i k Hi _.
    apply (dR_ext (fun t : R => rsum L (fun l => (dg_bins_fixed B temp x order (fun p => cuts p + t * dc p) i (digit F B f l) * rest i l) * Sc l k)));
      [intros; reflexivity|].
    apply (dR_rsum L (fun l t => (dg_bins_fixed B temp x order (fun p => cuts p + t * dc p) i (digit F B f l) * rest i l) * Sc l k)).
    intros l Hl. unfold dg_dleaf.
    apply (dR_ext (fun t : R => (rest i l * Sc l k) * dg_bins_fixed B temp x order (fun p => cuts p + t * dc p) i (digit F B f l))); [intros; ring|].
    eapply dR_val; [|apply dR_scal].
    2:{ unfold dg_bins_fixed.
        apply (softmax_row_derive B (fun m t => dg_bin_logit temp (x i) order (fun p => cuts p + t * dc p) m)
                 (fun m => dg_dbias order dc m / temp) (digit F B f l)); [unfold B; lia | apply digit_lt |].
        intros m Hm. apply dg_bin_logit_derive. }
    eqR. unfold dg_dbin, bin0, dg_bins_fixed, smjvp_row.
    rewrite (softmax_row_ext Rops B (fun c0 => dg_bin_logit temp (x i) order (fun p => cuts p + 0 * dc p) c0)
               (dg_bin_logit temp (x i) order cuts) (digit F B f l)) by (intros; apply dg_bin_logit_pert0).
    rewrite (rsum_ext B (fun c0 => softmax_row Rops B (fun c1 => dg_bin_logit temp (x i) order (fun p => cuts p + 0 * dc p) c1) c0 * (dg_dbias order dc c0 / temp))
               (fun c0 => softmax_row Rops B (dg_bin_logit temp (x i) order cuts) c0 * (dg_dbias order dc c0 / temp))).
    2:{ intros c0 Hc0. rewrite (softmax_row_ext Rops B (fun c1 => dg_bin_logit temp (x i) order (fun p => cuts p + 0 * dc p) c1)
                                   (dg_bin_logit temp (x i) order cuts) c0) by (intros; apply dg_bin_logit_pert0). reflexivity. }
    ring.
Qed.

(* ================================================================== statements used by Props/C03.v *)
Lemma rim_adjoint n d K reg (X : mat) (th : @LinP R) (g : mat) (dth : @LinP R) :
  inner n K g (linear_jvp d K X th dth) - inner d K (fun j k => 2 * reg * lW th j k) (lW dth)
  = - inner_lin d K (rim_step_grads Rops n d K reg th X g) dth.
Proof. unfold rim_step_grads. rewrite rim_grads_split, (linear_adjoint n d K X th g dth). ring. Qed.
Lemma kernel_rim_adjoint n nt K reg (Kt X : mat) (th : @LinP R) (g : mat) (dth : @LinP R) :
  inner n K g (linear_jvp nt K X th dth)
  - inner nt K (fun j k => 2 * reg * rsum nt (fun l => Kt j l * lW th l k)) (lW dth)
  = - inner_lin nt K (kernel_rim_step_grads Rops n nt K reg Kt th X g) dth.
Proof.
  unfold kernel_rim_step_grads. rewrite kernel_rim_grads_split. unfold linear_jvp.
  rewrite (linear_adjoint_any n nt K X (linear_infer_p Rops nt K th X) g dth). ring.
Qed.

(* The formula the code used before the repair "back-propagate MLP gradients through the output weights W2_,
   not through their gradient": backprop_grad = tau_hat_grad @ W2_grad.T.  It violates the adjoint identity —
   the identity is not vacuous, it is exactly what that defect broke. *)
Definition mlp_compute_grads_prefix (n K : nat) (H X Y G : mat) : @MlpP R :=
  let tau := tau_hat Rops K Y G in
  let W2g := tmatmul Rops n H tau in
  let bp := mlp_backprop Rops K tau W2g H in
  {| mW1 := mneg Rops (tmatmul Rops n X bp); mW2 := mneg Rops W2g;
     mb1 := vneg Rops (colsum Rops n bp); mb2 := vneg Rops (colsum Rops n tau) |}.
Definition prefix_mlp_formula_violates_adjoint : Prop :=
  exists n d h K (X Y g : mat) (th dth : @MlpP R),
    inner n K g (smjvp K Y (mlp_dlogits d h X th dth))
    <> - inner_mlp d h K (mlp_compute_grads_prefix n K (mlp_hidden Rops d h (mW1 th) (mb1 th) X) X Y g) dth.

Lemma prefix_violates : prefix_mlp_formula_violates_adjoint.
Proof.
  exists 1%nat, 1%nat, 1%nat, 2%nat, (fun _ _ => 1), (fun _ _ => /2), (fun _ k => match k with O => 1 | _ => 0 end),
    {| mW1 := fun _ _ => 1; mW2 := fun _ k => match k with O => 1 | _ => 0 end; mb1 := fun _ => 0; mb2 := fun _ => 0 |},
    {| mW1 := fun _ _ => 1; mW2 := fun _ _ => 0; mb1 := fun _ => 0; mb2 := fun _ => 0 |}.
  rewrite mlp_adjoint_any. intros E. apply Ropp_eq_compat in E. rewrite !Ropp_involutive in E. revert E.
  unfold inner_mlp, mlp_compute_grads, mlp_compute_grads_prefix, inner, inner_vec, mlp_backprop, relu_mask, mlp_hidden, relu, nmax,
    tmatmul, colsum, mneg, vneg, nneg, tau_hat, affine, rsum.
  cbn [bsum mW1 mW2 mb1 mb2 nadd nsub nmul n0 n1 nltb Rops].
  unfold Rltb. repeat (destruct (Rlt_dec _ _); try lra).
Qed.

Lemma nonvacuous_witness :
  (let X : mat := fun i _ => match i with O => 1 | _ => -2 end in
   let th : @MlpP R := {| mW1 := fun _ j => match j with O => 1 | _ => -1 end; mW2 := fun _ _ => 1;
                          mb1 := fun _ => /2; mb2 := fun _ => 0 |} in
   relu_off_kink 2 2 (preact 1 X th)) /\
  is_order 2 [1; 0]%nat /\ sym_on 2 (fun j l => INR (j + l)) /\ length [7; 3; 11]%nat = 3%nat /\
  prefix_mlp_formula_violates_adjoint.
Proof.
  split; [|split; [|split; [|split; [reflexivity | exact prefix_violates]]]].
  - cbv zeta. intros i j Hi Hj. unfold preact, affine. cbn [bsum mW1 mb1 nadd nmul n0 Rops].
    destruct i as [|[|i]]; [| |lia]; (destruct j as [|[|j]]; [| |lia]); lra.
  - split; [reflexivity|]. split.
    + repeat constructor; cbn; intuition discriminate.
    + intros p [<-|[<-|[]]]; lia.
  - intros j l _ _. rewrite Nat.add_comm. reflexivity.
Qed.

(* ================================================================== the genuine (not linearised) objective *)
(* obj is differentiable at the predictions Y0 with gradient g along every differentiable curve through Y0
   (Hadamard differentiability on the n x K block; what C02 establishes along straight lines is the case Yc = Y0 + t D) *)
Definition curve_differentiable (n K : nat) (obj : mat -> R) (Y0 g : mat) : Prop :=
  forall (Yc : R -> mat) (D : mat),
    (forall i k, (i < n)%nat -> (k < K)%nat -> Yc 0 i k = Y0 i k) ->
    (forall i k, (i < n)%nat -> (k < K)%nat -> is_derive (fun t : R => Yc t i k) 0 (D i k)) ->
    is_derive (fun t : R => obj (Yc t)) 0 (inner n K g D).
(* not vacuous: linear functionals are, and the decorated objective is as soon as the objective is *)
Lemma curve_differentiable_linear n K (g Y0 : mat) : curve_differentiable n K (fun Y => inner n K g Y) Y0 g.
Proof. intros Yc D _ HD. apply (dR_inner n K g Yc D HD). Qed.
Lemma curve_differentiable_decorated f idx n K (obj : mat -> R) (Y0 g : mat) ml cl : length idx = n ->
  curve_differentiable n K obj Y0 g ->
  curve_differentiable n K (fun Y => obj Y + pair_pen f idx K Y cl - pair_pen f idx K Y ml) Y0
    (decorated_gradient Rops f idx n K Y0 ml cl g).
Proof.
  intros Ln Hobj Yc D H0 HD.
  apply (mlcl_decorated_gradient f idx n K obj Yc Y0 g D ml cl Ln H0 HD). apply Hobj; assumption.
Qed.

Theorem linear_objective_direction_is_gradient n d K (obj : mat -> R) (X : mat) (th dth : @LinP R) (g : mat) : (0 < K)%nat ->
  curve_differentiable n K obj (linear_infer_p Rops d K th X) g ->
  is_derive (fun t : R => obj (linear_infer_p Rops d K (lin_pert th dth t) X)) 0
            (- inner_lin d K (linear_step_grads Rops n d K th X g) dth).
Proof.
  intros HK Hobj. rewrite <- linear_adjoint.
  apply (Hobj (fun t => linear_infer_p Rops d K (lin_pert th dth t) X) (linear_jvp d K X th dth)).
  - intros i k _ _. apply linear_infer_pert0.
  - intros i k Hi Hk. apply (linear_infer_derive n); assumption.
Qed.
Theorem mlp_objective_direction_is_gradient n d h K (obj : mat -> R) (X : mat) (th dth : @MlpP R) (g : mat) : (0 < K)%nat ->
  relu_off_kink n h (preact d X th) ->
  curve_differentiable n K obj (mlp_infer_p Rops d h K th X) g ->
  is_derive (fun t : R => obj (mlp_infer_p Rops d h K (mlp_pert th dth t) X)) 0
            (- inner_mlp d h K (mlp_step_grads Rops n d h K th X g) dth).
Proof.
  intros HK Hoff Hobj. rewrite <- (mlp_adjoint n d h K X th g dth Hoff).
  apply (Hobj (fun t => mlp_infer_p Rops d h K (mlp_pert th dth t) X) (mlp_jvp n d h K X th dth)).
  - intros i k _ _. apply mlp_infer_pert0.
  - intros i k Hi Hk. apply mlp_infer_derive; assumption.
Qed.

(* RIM / KernelRIM with the decoration: MI + constraint terms - penalty *)
Theorem rim_decorated_direction_is_gradient n d K reg f idx (X : mat) (th dth : @LinP R) (g : mat) ml cl :
  (0 < K)%nat -> length idx = n ->
  is_derive (fun t : R => inner n K g (linear_infer_p Rops d K (lin_pert th dth t) X)
                          + pair_pen f idx K (linear_infer_p Rops d K (lin_pert th dth t) X) cl
                          - pair_pen f idx K (linear_infer_p Rops d K (lin_pert th dth t) X) ml
                          - reg * sqnorm d K (lW (lin_pert th dth t))) 0
            (- inner_lin d K (rim_step_grads Rops n d K reg th X
                                (decorated_gradient Rops f idx n K (linear_infer_p Rops d K th X) ml cl g)) dth).
Proof.
  intros HK Ln. unfold rim_step_grads. rewrite rim_grads_split.
  eapply dR_val; [|apply dR_minus; [apply (linear_decorated_direction_is_gradient n d K f idx X th dth g ml cl HK Ln)
                                   | apply (penalty_l2_derive d K reg (lW th) (lW dth))]].
  eqR. ring.
Qed.
Theorem kernel_rim_decorated_direction_is_gradient n nt K reg f idx (Kt X : mat) (th dth : @LinP R) (g : mat) ml cl :
  (0 < K)%nat -> length idx = n -> sym_on nt Kt ->
  is_derive (fun t : R => inner n K g (linear_infer_p Rops nt K (lin_pert th dth t) X)
                          + pair_pen f idx K (linear_infer_p Rops nt K (lin_pert th dth t) X) cl
                          - pair_pen f idx K (linear_infer_p Rops nt K (lin_pert th dth t) X) ml
                          - reg * trWKW nt K Kt (lW (lin_pert th dth t))) 0
            (- inner_lin nt K (kernel_rim_step_grads Rops n nt K reg Kt th X
                                 (decorated_gradient Rops f idx n K (linear_infer_p Rops nt K th X) ml cl g)) dth).
Proof.
  intros HK Ln Hsym. unfold kernel_rim_step_grads. rewrite kernel_rim_grads_split.
  eapply dR_val; [|apply dR_minus; [apply (linear_decorated_direction_is_gradient n nt K f idx X th dth g ml cl HK Ln)
                                   | apply (penalty_kernel_derive nt K reg Kt (lW th) (lW dth) Hsym)]].
  eqR. unfold linear_step_grads. ring.
Qed.
