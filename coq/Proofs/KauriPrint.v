(* C19 — proofs about the printer / reader model of Model/KauriPrint.v.  Axiom-free. *)
From Coq Require Import List Arith ZArith Bool Lia.
From GV Require Import Model.KauriPrint.
Import ListNotations.

(* ------------------------------------------------------------------ list helpers *)
Lemma set_nth_length {A} (v : A) : forall l i, length (set_nth i v l) = length l.
Proof. induction l as [|a l IH]; intros [|i]; cbn [set_nth length]; try reflexivity. rewrite IH. reflexivity. Qed.

Lemma set_nth_same {A} (v : A) : forall l i, i < length l -> nth_error (set_nth i v l) i = Some v.
Proof.
  induction l as [|a l IH]; intros [|i] Hi; cbn [length] in Hi; try lia; cbn [set_nth nth_error]; [reflexivity|].
  apply IH. lia.
Qed.

Lemma set_nth_other {A} (v : A) : forall l i j, i <> j -> nth_error (set_nth i v l) j = nth_error l j.
Proof.
  induction l as [|a l IH]; intros [|i] [|j] Hij; cbn [set_nth nth_error]; try reflexivity; try lia.
  apply IH. lia.
Qed.

(* l ++ [a; b] looked up anywhere *)
Lemma nth_error_app2_two {A} (l : list A) (a b : A) n i : length l = n ->
  nth_error (l ++ [a; b]) i =
  if i <? n then nth_error l i else if i =? n then Some a else if i =? S n then Some b else None.
Proof.
  intros Hn. destruct (i <? n) eqn:E1.
  - apply Nat.ltb_lt in E1. apply nth_error_app1. lia.
  - apply Nat.ltb_ge in E1. rewrite nth_error_app2 by lia. rewrite Hn.
    destruct (i =? n) eqn:E2; [apply Nat.eqb_eq in E2; subst i; rewrite Nat.sub_diag; reflexivity|].
    apply Nat.eqb_neq in E2. destruct (i =? S n) eqn:E3.
    + apply Nat.eqb_eq in E3. subst i. replace (S n - n) with 1 by lia. reflexivity.
    + apply Nat.eqb_neq in E3. apply nth_error_None. cbn [length]. lia.
Qed.

(* the list after  l[f] = v; l += [a, b] *)
Lemma nth_error_upd_two {A} (l : list A) (v a b : A) n f i : length l = n -> f < n ->
  nth_error (set_nth f v l ++ [a; b]) i =
  if i =? f then Some v else
  if i <? n then nth_error l i else if i =? n then Some a else if i =? S n then Some b else None.
Proof.
  intros Hn Hf. rewrite (nth_error_app2_two _ a b n i) by (rewrite set_nth_length; exact Hn).
  destruct (i =? f) eqn:E.
  - apply Nat.eqb_eq in E. subst i. assert (f <? n = true) as -> by (apply Nat.ltb_lt; exact Hf).
    apply set_nth_same. lia.
  - apply Nat.eqb_neq in E. destruct (i <? n); [|reflexivity]. apply set_nth_other. lia.
Qed.

Lemma store_some {A} (i : nat) (v : A) (l l' : list A) :
  store i v l = Some l' -> i < length l /\ l' = set_nth i v l.
Proof.
  unfold store. destruct (i <? length l) eqn:E; [|discriminate]. intros H. injection H as <-.
  apply Nat.ltb_lt in E. split; [exact E | reflexivity].
Qed.

Lemma in_list_max : forall l, l <> [] -> In (list_max l) l.
Proof.
  induction l as [|a l IH]; intros Hne; [congruence|].
  change (list_max (a :: l)) with (Nat.max a (list_max l)).
  destruct l as [|b l].
  - cbn [list_max fold_right]. rewrite Nat.max_0_r. left. reflexivity.
  - destruct (Nat.max_spec a (list_max (b :: l))) as [[_ ->]|[_ ->]].
    + right. apply IH. discriminate.
    + left. reflexivity.
Qed.

Lemma le_list_max : forall l x, In x l -> x <= list_max l.
Proof.
  intros l x Hx. assert (H : list_max l <= list_max l) by lia.
  apply list_max_le in H. rewrite Forall_forall in H. apply H. exact Hx.
Qed.

Lemma bind_some {A B} (o : option A) (f : A -> option B) b :
  bind o f = Some b -> exists a, o = Some a /\ f a = Some b.
Proof. destruct o as [a|]; cbn [bind]; [intros H; exists a; split; [reflexivity|exact H] | discriminate]. Qed.

Section Proofs.
Context {T N : Type}.

(* ------------------------------------------------------------------ well-formedness *)
(* what _add_child produces: parallel lists of one length; every node has a depth and a target;
   a node is either a leaf (both children -1) or a split whose two children are LATER nodes, in
   range, one level deeper, and which has a feature and a threshold *)
Definition wf_node (t : tree T) (i : nat) : Prop :=
  exists d c, nth_error (depths t) i = Some d /\ nth_error (target t) i = Some c /\
  ((nth_error (children_left t) i = Some (-1)%Z /\ nth_error (children_right t) i = Some (-1)%Z)
   \/ exists l r f th,
        nth_error (children_left t) i = Some (Z.of_nat l) /\ nth_error (children_right t) i = Some (Z.of_nat r) /\
        i < l < n_nodes t /\ i < r < n_nodes t /\
        nth_error (features t) i = Some (Some f) /\ nth_error (thresholds t) i = Some (Some th) /\
        nth_error (depths t) l = Some (S d) /\ nth_error (depths t) r = Some (S d)).

Record wf (t : tree T) : Prop := {
  wf_len_cl : length (children_left t) = n_nodes t;
  wf_len_cr : length (children_right t) = n_nodes t;
  wf_len_ft : length (features t) = n_nodes t;
  wf_len_th : length (thresholds t) = n_nodes t;
  wf_len_tg : length (target t) = n_nodes t;
  wf_len_dp : length (depths t) = n_nodes t;
  wf_pos : 1 <= n_nodes t;
  wf_root : nth_error (depths t) 0 = Some 0;
  wf_nodes : forall i, i < n_nodes t -> wf_node t i }.

(* every tree obtained from Tree() by any sequence of _add_child calls that do not raise.
   (Kauri.fit only ever splits a current leaf; the invariant does not even need that.) *)
Inductive built : tree T -> Prop :=
| built_empty : built empty_tree
| built_add t father s t' : built t -> add_child t father s = Some t' -> built t'.

Lemma empty_wf : wf (@empty_tree T).
Proof.
  constructor; try reflexivity; try (cbn; lia).
  intros i Hi. cbn [empty_tree n_nodes] in Hi. assert (i = 0) by lia. subst i.
  exists 0, 0. split; [reflexivity|]. split; [reflexivity|]. left. split; reflexivity.
Qed.

Lemma add_child_wf (t t' : tree T) father s : wf t -> add_child t father s = Some t' -> wf t'.
Proof.
  intros W H. unfold add_child in H.
  apply bind_some in H. destruct H as (cl & Hcl & H). apply store_some in Hcl. destruct Hcl as [_ ->].
  apply bind_some in H. destruct H as (cr & Hcr & H). apply store_some in Hcr. destruct Hcr as [_ ->].
  apply bind_some in H. destruct H as (th0 & Hth0 & H). apply store_some in Hth0. destruct Hth0 as [_ ->].
  apply bind_some in H. destruct H as (ft0 & Hft0 & H). apply store_some in Hft0. destruct Hft0 as [_ ->].
  apply bind_some in H. destruct H as (d & Hd & H).
  injection H as <-. destruct W as [Lcl Lcr Lft Lth Ltg Ldp Hpos Hroot Hnodes].
  set (n := n_nodes t) in *.
  assert (Hf : father < n). { rewrite <- Ldp. apply nth_error_Some. rewrite Hd. discriminate. }
  constructor; cbn [children_left children_right features thresholds target depths n_nodes].
  1-6: rewrite app_length, ?set_nth_length; cbn [length]; lia.
  - lia.
  - rewrite (nth_error_app2_two _ _ _ n 0 Ldp). assert (0 <? n = true) as -> by (apply Nat.ltb_lt; lia). exact Hroot.
  - intros i Hi. unfold wf_node.
    cbn [children_left children_right features thresholds target depths n_nodes].
    (* normal forms of every lookup in the new tree *)
    assert (Rdp : forall j, nth_error (depths t ++ [d + 1; d + 1]) j =
                  if j <? n then nth_error (depths t) j else if j =? n then Some (d + 1) else if j =? S n then Some (d + 1) else None)
      by (intros j; apply nth_error_app2_two; exact Ldp).
    rewrite !Rdp.
    rewrite (nth_error_app2_two (target t) _ _ n i Ltg).
    rewrite (nth_error_upd_two (children_left t) _ _ _ n father i Lcl Hf).
    rewrite (nth_error_upd_two (children_right t) _ _ _ n father i Lcr Hf).
    rewrite (nth_error_upd_two (features t) _ _ _ n father i Lft Hf).
    rewrite (nth_error_upd_two (thresholds t) _ _ _ n father i Lth Hf).
    destruct (i =? father) eqn:Eif.
    + (* the father becomes a split with children n, n+1 *)
      apply Nat.eqb_eq in Eif. subst i.
      assert (father <? n = true) as -> by (apply Nat.ltb_lt; exact Hf).
      destruct (Hnodes father Hf) as (d0 & c0 & Hd0 & Hc0 & _).
      assert (d0 = d) by congruence. subst d0.
      exists d, c0. split; [exact Hd|]. split; [exact Hc0|]. right.
      exists n, (n + 1), (s_feature s), (s_threshold s).
      repeat split; try reflexivity; try lia.
      * rewrite Rdp. assert (n <? n = false) as -> by (apply Nat.ltb_ge; lia).
        rewrite Nat.eqb_refl. rewrite Nat.add_1_r. reflexivity.
      * rewrite Rdp. assert (n + 1 <? n = false) as -> by (apply Nat.ltb_ge; lia).
        assert (n + 1 =? n = false) as -> by (apply Nat.eqb_neq; lia).
        assert (n + 1 =? S n = true) as -> by (apply Nat.eqb_eq; lia).
        rewrite Nat.add_1_r. reflexivity.
    + apply Nat.eqb_neq in Eif. destruct (i <? n) eqn:Ein.
      * (* an old node other than the father: unchanged *)
        apply Nat.ltb_lt in Ein. destruct (Hnodes i Ein) as (d0 & c0 & Hd0 & Hc0 & Hk).
        exists d0, c0. split; [exact Hd0|]. split; [exact Hc0|].
        destruct Hk as [Hleaf | (l & r & f & th & Hl & Hr & Hlb & Hrb & Hft & Hth & Hdl & Hdr)]; [left; exact Hleaf|].
        right. exists l, r, f, th. rewrite !Rdp.
        assert (l <? n = true) as -> by (apply Nat.ltb_lt; lia).
        assert (r <? n = true) as -> by (apply Nat.ltb_lt; lia).
        repeat split; try assumption; lia.
      * (* one of the two new leaves *)
        apply Nat.ltb_ge in Ein. destruct (i =? n) eqn:E1.
        -- exists (d + 1), (s_left s). split; [reflexivity|]. split; [reflexivity|]. left. split; reflexivity.
        -- apply Nat.eqb_neq in E1. assert (i =? S n = true) as -> by (apply Nat.eqb_eq; lia).
           exists (d + 1), (s_right s). split; [reflexivity|]. split; [reflexivity|]. left. split; reflexivity.
Qed.

Lemma built_wf (t : tree T) : built t -> wf t.
Proof. induction 1 as [|t father s t' _ IH H]; [apply empty_wf | exact (add_child_wf t t' father s IH H)]. Qed.

Lemma build_from_built : forall ops (t t' : tree T), built t -> build_from t ops = Some t' -> built t'.
Proof.
  induction ops as [|[father s] ops IH]; intros t t' Hb H; cbn [build_from] in H.
  - injection H as <-. exact Hb.
  - apply bind_some in H. destruct H as (t1 & H1 & H2). apply (IH t1 t'); [|exact H2].
    exact (built_add t father s t1 Hb H1).
Qed.

Lemma build_built ops (t : tree T) : build ops = Some t -> built t.
Proof. apply build_from_built. constructor. Qed.

(* ------------------------------------------------------------------ names *)
(* every feature index stored in the arrays has a printable label *)
Definition names_cover (t : tree T) (names : option (list N)) : Prop :=
  forall f, In f (used_features t) -> exists lab, label_of names f = Some lab.
(* the reader's valuation of printed labels agrees with the point on the features the tree uses *)
Definition val_agrees (t : tree T) (names : option (list N)) (val : label N -> T) (x : nat -> T) : Prop :=
  forall f lab, In f (used_features t) -> label_of names f = Some lab -> val lab = x f.

Lemma used_in (t : tree T) i f : nth_error (features t) i = Some (Some f) -> In f (used_features t).
Proof.
  intros H. unfold used_features. apply in_flat_map. exists (Some f). split; [|left; reflexivity].
  apply nth_error_In with i. exact H.
Qed.

Lemma names_cover_absent (t : tree T) : names_cover t None.
Proof. intros f _. exists (LIdx f). reflexivity. Qed.

(* the guard as implemented rejects exactly when some used feature index has no name *)
Lemma guard_spec (t : tree T) (ns : list N) :
  names_guard_rejects t ns = true <-> exists f, In f (used_features t) /\ nth_error ns f = None.
Proof.
  unfold names_guard_rejects. split.
  - intros H. apply andb_true_iff in H. destruct H as [H1 H2].
    apply Nat.ltb_lt in H1. apply Nat.leb_le in H2.
    exists (list_max (used_features t)). split.
    + apply in_list_max. intros E. rewrite E in H1. cbn [length] in H1. lia.
    + apply nth_error_None. exact H2.
  - intros (f & Hf & Hn). apply nth_error_None in Hn. apply andb_true_iff. split.
    + apply Nat.ltb_lt. destruct (used_features t); [destruct Hf | cbn [length]; lia].
    + apply Nat.leb_le. pose proof (le_list_max _ _ Hf). lia.
Qed.

Lemma guard_pass_cover (t : tree T) (ns : list N) : names_guard_rejects t ns = false -> names_cover t (Some ns).
Proof.
  intros H f Hf. cbn [label_of]. destruct (nth_error ns f) as [nm|] eqn:E; [exists (LName nm); reflexivity|].
  exfalso. assert (names_guard_rejects t ns = true) by (apply guard_spec; exists f; split; assumption). congruence.
Qed.

Lemma val_default_agrees (t : tree T) x dflt : val_agrees t None (val_default x dflt) x.
Proof. intros f lab _ H. cbn [label_of] in H. injection H as <-. reflexivity. Qed.

Lemma index_of_sound (eqb : N -> N -> bool) (Heqb : forall a b, eqb a b = true -> a = b) nm :
  forall ns k, index_of eqb nm ns = Some k -> nth_error ns k = Some nm.
Proof.
  induction ns as [|a ns IH]; intros k H; cbn [index_of] in H; [discriminate|].
  destruct (eqb nm a) eqn:E.
  - injection H as <-. apply Heqb in E. subst. reflexivity.
  - destruct (index_of eqb nm ns) as [k'|] eqn:E'; [|discriminate]. injection H as <-. cbn [nth_error]. apply IH. reflexivity.
Qed.

Lemma index_of_complete (eqb : N -> N -> bool) (Hrefl : forall a, eqb a a = true) nm :
  forall ns f, nth_error ns f = Some nm -> exists k, index_of eqb nm ns = Some k.
Proof.
  induction ns as [|a ns IH]; intros [|f] H; cbn [nth_error] in H; try discriminate; cbn [index_of].
  - injection H as ->. rewrite Hrefl. exists 0. reflexivity.
  - destruct (eqb nm a); [exists 0; reflexivity|]. destruct (IH f H) as (k & ->). exists (S k). reflexivity.
Qed.

(* with user names: finding the column by its name is right as soon as the name of a used
   feature is not also the name of another column *)
Lemma val_names_agrees (t : tree T) (eqb : N -> N -> bool) ns x dflt :
  (forall a b, eqb a b = true <-> a = b) ->
  (forall f g nm, In f (used_features t) -> nth_error ns f = Some nm -> nth_error ns g = Some nm -> g = f) ->
  val_agrees t (Some ns) (val_names eqb ns x dflt) x.
Proof.
  intros Heqb Huniq f lab Hf H. cbn [label_of] in H.
  destruct (nth_error ns f) as [nm|] eqn:E; [|discriminate]. injection H as <-. cbn [val_names].
  destruct (index_of_complete eqb (fun a => proj2 (Heqb a a) eq_refl) nm ns f E) as (k & Hk).
  rewrite Hk. pose proof (index_of_sound eqb (fun a b => proj1 (Heqb a b)) nm ns k Hk) as Hk'.
  rewrite (Huniq f k nm Hf E Hk'). reflexivity.
Qed.

(* ------------------------------------------------------------------ the master induction *)
Lemma eqb_child_false l : Z.eqb (Z.of_nat l) (-1) = false.
Proof. apply Z.eqb_neq. lia. Qed.

Lemma range_guard_false n i : i < n -> (i <? 0) || (n <? i) = false.
Proof.
  intros H. apply orb_false_iff. split; [apply Nat.ltb_ge; lia | apply Nat.ltb_ge; lia].
Qed.

Lemma node_master (leb : T -> T -> bool) (t : tree T) names : wf t -> names_cover t names ->
  forall fuel i, i < n_nodes t -> n_nodes t - i <= fuel ->
  exists toks r d,
    render_node fuel t names i = Some toks /\
    abs_node fuel t names i = Some r /\
    nth_error (depths t) i = Some d /\
    (forall fuel2 rest, length toks <= fuel2 -> parse_node fuel2 d (toks ++ rest) = Some (r, rest)) /\
    (forall x val, val_agrees t names val x ->
       exists c, predict_node leb fuel t x i = Some c /\ eval_rules leb val r = Some c).
Proof.
  intros W Hcov. induction fuel as [|fuel IH]; intros i Hi Hfuel; [lia|].
  destruct (wf_nodes t W i Hi) as (d & c & Hd & Hc & Hk).
  destruct Hk as [[Hl Hr] | (l & r & f & th & Hl & Hr & Hlb & Hrb & Hft & Hth & Hdl & Hdr)].
  - (* leaf *)
    exists [TNode d i; TCluster d c], (RLeaf i c), d.
    split; [cbn [render_node]; rewrite Hd, Hl, Hr, Hc; reflexivity|].
    split; [cbn [abs_node]; rewrite Hl, Hr, Hc; reflexivity|].
    split; [exact Hd|]. split.
    + intros fuel2 rest Hlen. cbn [length] in Hlen. destruct fuel2 as [|fuel2]; [lia|].
      cbn [app parse_node]. rewrite Nat.eqb_refl. reflexivity.
    + intros x val _. exists c. split; [|reflexivity].
      cbn [predict_node]. rewrite (range_guard_false _ _ Hi), Hl, Hc. reflexivity.
  - (* split *)
    destruct (Hcov f (used_in t i f Hft)) as (lab & Hlab).
    destruct (IH l ltac:(lia) ltac:(lia)) as (Lo & Lr & dl & HLo & HLr & HdL & HpL & HeL).
    destruct (IH r ltac:(lia) ltac:(lia)) as (Ro & Rr & dr & HRo & HRr & HdR & HpR & HeR).
    assert (dl = S d) by congruence. assert (dr = S d) by congruence. subst dl dr.
    exists (TNode d i :: TRule d lab th LE :: Lo ++ TRule d lab th GT :: Ro), (RSplit i lab th Lr lab th Rr), d.
    split.
    { cbn [render_node]. rewrite Hd, Hl, Hr, Hft, Hth. cbn [bind]. rewrite eqb_child_false, Hlab. cbn [bind].
      rewrite !Nat2Z.id, HLo, HRo. reflexivity. }
    split.
    { cbn [abs_node]. rewrite Hl, Hr, Hft, Hth. cbn [bind]. rewrite eqb_child_false, Hlab. cbn [bind].
      rewrite !Nat2Z.id, HLr, HRr. reflexivity. }
    split; [exact Hd|]. split.
    + intros fuel2 rest Hlen. cbn [length] in Hlen. rewrite app_length in Hlen. cbn [length] in Hlen.
      destruct fuel2 as [|fuel2]; [lia|].
      cbn [app parse_node]. rewrite Nat.eqb_refl. cbn [negb].
      rewrite <- app_assoc. cbn [app].
      rewrite (HpL fuel2 (TRule d lab th GT :: Ro ++ rest)) by lia.
      rewrite Nat.eqb_refl. cbn [negb].
      rewrite (HpR fuel2 rest) by lia. reflexivity.
    + intros x val Hval. pose proof (Hval f lab (used_in t i f Hft) Hlab) as Hv.
      destruct (HeL x val Hval) as (cl & HpredL & HevL). destruct (HeR x val Hval) as (cr & HpredR & HevR).
      cbn [predict_node eval_rules]. rewrite (range_guard_false _ _ Hi), Hl, Hr, Hft, Hth. cbn [bind]. rewrite eqb_child_false, Hv, !Nat2Z.id.
      destruct (leb (x f) th); cbn [negb].
      * exists cl. split; assumption.
      * exists cr. split; assumption.
Qed.

(* ------------------------------------------------------------------ the statements *)
Lemma parse_render_roundtrip (t : tree T) names : wf t -> names_cover t names ->
  exists toks r, render t names = Some toks /\ abs_tree t names = Some r /\ parse toks = Some r.
Proof.
  intros W Hcov.
  destruct (node_master (fun _ _ => true) t names W Hcov (n_nodes t) 0 (wf_pos t W) ltac:(lia))
    as (toks & r & d & Hr & Ha & Hd & Hp & _).
  assert (d = 0) by (pose proof (wf_root t W); congruence). subst d.
  exists toks, r. split; [exact Hr|]. split; [exact Ha|].
  unfold parse. specialize (Hp (length toks) [] (le_n _)). rewrite app_nil_r in Hp. rewrite Hp. reflexivity.
Qed.

Lemma eval_abs_is_predict (leb : T -> T -> bool) (t : tree T) names r x val :
  wf t -> names_cover t names -> abs_tree t names = Some r -> val_agrees t names val x ->
  exists c, predict leb t x = Some c /\ eval_rules leb val r = Some c.
Proof.
  intros W Hcov Habs Hval.
  destruct (node_master leb t names W Hcov (n_nodes t) 0 (wf_pos t W) ltac:(lia))
    as (toks & r' & d & _ & Ha & _ & _ & He).
  unfold abs_tree in Habs. assert (r' = r) by congruence. subst r'.
  exact (He x val Hval).
Qed.

(* print, read back, apply = predict *)
Lemma read_back_is_predict (leb : T -> T -> bool) (t : tree T) names x val :
  wf t -> names_cover t names -> val_agrees t names val x ->
  exists c, predict leb t x = Some c /\ read_back leb t names val = Some c.
Proof.
  intros W Hcov Hval. destruct (parse_render_roundtrip t names W Hcov) as (toks & r & Hr & Ha & Hp).
  destruct (eval_abs_is_predict leb t names r x val W Hcov Ha Hval) as (c & Hc1 & Hc2).
  exists c. split; [exact Hc1|]. unfold read_back. rewrite Hr. cbn [bind]. rewrite Hp. cbn [bind]. exact Hc2.
Qed.

(* every rule line that is printed belongs to a node of the arrays: its depth, its threshold, and
   as label the entry of the user's list at that node's feature index (or the index itself) *)
Lemma render_rule_tokens (t : tree T) (names : option (list N)) : forall fuel i toks, render_node fuel t names i = Some toks ->
  forall d lab th c, In (TRule d lab th c) toks ->
  exists node f, nth_error (features t) node = Some (Some f) /\ nth_error (thresholds t) node = Some (Some th) /\
                 nth_error (depths t) node = Some d /\ label_of names f = Some lab.
Proof.
  induction fuel as [|fuel IH]; intros i toks H d lab th c Hin; [discriminate|].
  cbn [render_node] in H.
  apply bind_some in H. destruct H as (d0 & Hd0 & H).
  apply bind_some in H. destruct H as (l & Hl & H).
  apply bind_some in H. destruct H as (r & Hr & H).
  destruct (Z.eqb l (-1)).
  - apply bind_some in H. destruct H as (c0 & Hc0 & H). injection H as <-.
    destruct Hin as [Hin|[Hin|[]]]; discriminate.
  - apply bind_some in H. destruct H as (fo & Hfo & H).
    apply bind_some in H. destruct H as (tho & Htho & H).
    apply bind_some in H. destruct H as (f & -> & H).
    apply bind_some in H. destruct H as (th0 & -> & H).
    apply bind_some in H. destruct H as (lab0 & Hlab0 & H).
    apply bind_some in H. destruct H as (Lo & HLo & H).
    apply bind_some in H. destruct H as (Ro & HRo & H). injection H as <-.
    cbn [app] in Hin. destruct Hin as [Hin|[Hin|Hin]]; [discriminate| |].
    + injection Hin as <- <- <- _. exists i, f. repeat split; assumption.
    + apply in_app_or in Hin. destruct Hin as [Hin|[Hin|Hin]].
      * exact (IH _ _ HLo d lab th c Hin).
      * injection Hin as <- <- <- _. exists i, f. repeat split; assumption.
      * exact (IH _ _ HRo d lab th c Hin).
Qed.

Lemma names_label_used_features (t : tree T) (ns : list N) toks :
  print_kauri_tree (Fitted t) (NList ns) = Printed toks ->
  forall d lab th c, In (TRule d lab th c) toks ->
  exists node f nm, nth_error (features t) node = Some (Some f) /\ nth_error (thresholds t) node = Some (Some th) /\
                    nth_error (depths t) node = Some d /\ nth_error ns f = Some nm /\ lab = LName nm.
Proof.
  intros H d lab th c Hin. cbn [print_kauri_tree] in H.
  destruct (names_guard_rejects t ns); [discriminate|].
  destruct (render t (Some ns)) as [toks'|] eqn:E; [|discriminate]. injection H as ->.
  destruct (render_rule_tokens t (Some ns) _ _ _ E d lab th c Hin) as (node & f & H1 & H2 & H3 & H4).
  cbn [label_of] in H4. destruct (nth_error ns f) as [nm|] eqn:En; [|discriminate]. injection H4 as <-.
  exists node, f, nm. repeat split; assumption.
Qed.

Lemma default_labels (t : tree T) toks :
  print_kauri_tree (Fitted t) (@NAbsent N) = Printed toks ->
  forall d lab th c, In (TRule d lab th c) toks ->
  exists node f, nth_error (features t) node = Some (Some f) /\ nth_error (thresholds t) node = Some (Some th) /\
                 nth_error (depths t) node = Some d /\ lab = LIdx f.
Proof.
  intros H d lab th c Hin. cbn [print_kauri_tree] in H.
  destruct (render t (@None (list N))) as [toks'|] eqn:E; [|discriminate]. injection H as ->.
  destruct (render_rule_tokens t None _ _ _ E d lab th c Hin) as (node & f & H1 & H2 & H3 & H4).
  cbn [label_of] in H4. injection H4 as <-. exists node, f. repeat split; assumption.
Qed.

(* too few names: rejected before anything is printed; otherwise the whole tree is printed *)
Lemma too_few_names_rejected (t : tree T) (ns : list N) : wf t ->
  ((exists f, In f (used_features t) /\ nth_error ns f = None) ->
     print_kauri_tree (Fitted t) (NList ns) = ErrNames) /\
  (~ (exists f, In f (used_features t) /\ nth_error ns f = None) ->
     exists toks r, print_kauri_tree (Fitted t) (NList ns) = Printed toks /\
                    abs_tree t (Some ns) = Some r /\ parse toks = Some r).
Proof.
  intros W. split.
  - intros H. apply guard_spec in H. cbn [print_kauri_tree]. rewrite H. reflexivity.
  - intros H. destruct (names_guard_rejects t ns) eqn:E; [exfalso; apply H; apply guard_spec; exact E|].
    destruct (parse_render_roundtrip t (Some ns) W (guard_pass_cover t ns E)) as (toks & r & Hr & Ha & Hp).
    exists toks, r. cbn [print_kauri_tree]. rewrite E, Hr. repeat split; assumption.
Qed.

Lemma absent_names_printed (t : tree T) : wf t ->
  exists toks r, print_kauri_tree (Fitted t) (@NAbsent N) = Printed toks /\ abs_tree t None = Some r /\ parse toks = Some r.
Proof.
  intros W. destruct (parse_render_roundtrip t None W (@names_cover_absent t)) as (toks & r & Hr & Ha & Hp).
  exists toks, r. cbn [print_kauri_tree]. rewrite Hr. repeat split; assumption.
Qed.

(* guards: something is printed only for a fitted Kauri and an acceptable names argument *)
Lemma guards (o : obj T) (na : names_arg N) :
  (o = Foreign -> print_kauri_tree o na = ErrParam) /\
  (na = NBad -> print_kauri_tree o na = ErrParam) /\
  (o = Unfitted -> na <> NBad -> print_kauri_tree o na = ErrNotFitted) /\
  (forall toks, print_kauri_tree o na = Printed toks -> exists t, o = Fitted t /\ na <> NBad).
Proof.
  split; [intros ->; reflexivity|]. split; [intros ->; destruct o; reflexivity|].
  split; [intros -> H; destruct na; [reflexivity|reflexivity|congruence]|].
  intros toks H. destruct o as [| |t]; [discriminate | destruct na; discriminate |].
  exists t. split; [reflexivity|]. intros ->. discriminate.
Qed.

(* on a built tree the printer never dies half-way *)
Lemma no_crash (t : tree T) (na : names_arg N) : wf t -> print_kauri_tree (Fitted t) na <> ErrIndex.
Proof.
  intros W. destruct na as [|ns|]; cbn [print_kauri_tree]; [| |discriminate].
  - destruct (parse_render_roundtrip t None W (@names_cover_absent t)) as (toks & r & -> & _). discriminate.
  - destruct (names_guard_rejects t ns) eqn:E; [discriminate|].
    destruct (parse_render_roundtrip t (Some ns) W (guard_pass_cover t ns E)) as (toks & r & -> & _). discriminate.
Qed.
End Proofs.
