(* C10 — the REGENERATED rules (Gen/BatchRules.v, produced by translator/tr_batch.py from the Python AST)
   against (a) a hand-written documented copy and (b) the semantic conditions of Proofs/Batch.v, and the
   theorems of the reference model carried over to the code model instantiated with the regenerated rules.
   The proofs unfold the generated definitions: a changed rule breaks the lemma that reads it. *)
From Coq Require Import List Arith Lia ZArith Reals.
From GV Require Import Common.Num Common.NumR Model.Batch Gen.BatchRules Proofs.Batch Proofs.BatchVal.
Import ListNotations.

(* ---------------------------------------------------------------- (a) the documented copy (hand-written) *)
Definition documented_batch_rules : BatchRules := {|
  r_perm_len := fun n => n;                                                 (* permutation(len(X)) *)
  r_bs := fun n opt => match opt with None => n | Some given => given end;  (* len(X) if self.batch_size is None else self.batch_size *)
  r_start := 0%Z;                                                           (* j = 0 *)
  r_guard := fun j n => Z.ltb j n;                                          (* while j < len(X) *)
  r_lo := fun j batch_size => j;                                            (* all_indices[j : j + batch_size] *)
  r_hi := fun j batch_size => (j + batch_size)%Z;
  r_rows := fun batch_indices => batch_indices;                             (* X[batch_indices] *)
  r_aff_rows := fun batch_indices => batch_indices;                         (* affinity_matrix[batch_indices][:, batch_indices] *)
  r_aff_cols := fun batch_indices => batch_indices;
  r_step := fun j batch_size => (j + batch_size)%Z                          (* j += batch_size *)
|}.
Definition documented_step_rules : StepRules :=                              (* _infer(X_batch); gemini(y_pred, affinity_batch, ..); *)
  {| s_infer_x := SrcBatch; s_gemini_aff := SrcBatch; s_grads_x := SrcBatch |}.   (* _compute_grads(X_batch, y_pred, grads) *)
Definition documented_fit_rules : FitRules := {|
  f_epochs := fun max_iter => max_iter;                                     (* for i in range(self.max_iter) *)
  f_iter := IterLazy;                                                       (* for X_batch, affinity_batch in self._batchify(..) *)
  f_n_iter := fun max_iter => max_iter;                                     (* self.n_iter_ = self.max_iter *)
  f_step := documented_step_rules |}.
Definition documented_deco_rules : DecoRules := {|
  d_arange := fun n => n;                                                   (* indices = np.arange(len(X)) *)
  d_recorded := fun subset => subset;                                       (* disguise_batch.indices = subset.tolist() *)
  d_rows := fun subset => subset                                            (* yield X[subset], affinity_batch *)
|}.
Definition documented_val_rules {T} (o : NumOps T) : ValRules (T := T) := {|
  v_init := n0 o;                                                           (* validation_gemini = 0 *)
  v_start := 0%Z;                                                           (* j = 0 *)
  v_guard := fun j n => Z.ltb j n;                                          (* while j < len(X) *)
  v_step := fun j batch_size => (j + batch_size)%Z;                         (* j += batch_size *)
  v_x_lo := fun j batch_size => j;                                          (* X[j:j + batch_size] *)
  v_x_hi := fun j batch_size => (j + batch_size)%Z;
  v_yr_lo := fun j batch_size => j;                                         (* y[j:j+batch_size][:,j:j+batch_size] *)
  v_yr_hi := fun j batch_size => (j + batch_size)%Z;
  v_yc_lo := fun j batch_size => j;
  v_yc_hi := fun j batch_size => (j + batch_size)%Z;
  (* validation_gemini += gemini_objective(y_pred, affinity) * len(X_batch) *)
  v_acc := fun validation_gemini score len_batch n => nadd o validation_gemini (nmul o score (nofnat o len_batch));
  v_norm := fun validation_gemini n => ndiv o validation_gemini (nofnat o n);   (* validation_gemini /= len(X) *)
  v_path_bs := fun n opt => match opt with None => n | Some given => given end  (* clf.batch_size if not None else len(X) *)
|}.

(* ---------------------------------------------------------------- (b) the semantic conditions, rule by rule *)
Lemma regenerated_batchify_permutation_length : forall n, r_perm_len batch_rules n = n.
Proof. intros n. unfold batch_rules, bf_perm_len. cbn [r_perm_len]. reflexivity. Qed.
Lemma regenerated_batchify_none_default : none_default_ok (r_bs batch_rules).
Proof. intros n o. unfold batch_rules, bf_bs. cbn [r_bs]. reflexivity. Qed.
Lemma regenerated_batchify_start : r_start batch_rules = 0%Z.
Proof. unfold batch_rules, bf_start. cbn [r_start]. reflexivity. Qed.
Lemma regenerated_batchify_guard : forall j n, r_guard batch_rules j n = (j <? n)%Z.
Proof. intros j n. unfold batch_rules, bf_guard. cbn [r_guard]. reflexivity. Qed.
Lemma regenerated_batchify_slice : forall j b, r_lo batch_rules j b = j /\ r_hi batch_rules j b = (j + b)%Z.
Proof. intros j b. unfold batch_rules, bf_lo, bf_hi. cbn [r_lo r_hi]. split; reflexivity. Qed.
Lemma regenerated_batchify_rows : forall b, r_rows batch_rules b = b.
Proof. intros b. unfold batch_rules, bf_rows. cbn [r_rows]. reflexivity. Qed.
Lemma regenerated_batchify_affinity_block : forall b, r_aff_rows batch_rules b = b /\ r_aff_cols batch_rules b = b.
Proof. intros b. unfold batch_rules, bf_aff_rows, bf_aff_cols. cbn [r_aff_rows r_aff_cols]. split; reflexivity. Qed.
Lemma regenerated_batchify_step : forall j b, r_step batch_rules j b = (j + b)%Z.
Proof. intros j b. unfold batch_rules, bf_step. cbn [r_step]. reflexivity. Qed.

Lemma regenerated_batch_rules_ok : batch_rules_ok batch_rules.
Proof.
  unfold batch_rules_ok.
  split; [exact regenerated_batchify_permutation_length|].
  split; [exact regenerated_batchify_none_default|].
  split; [exact regenerated_batchify_start|].
  split; [exact regenerated_batchify_guard|].
  split; [intros j b; apply regenerated_batchify_slice|].
  split; [intros j b; apply regenerated_batchify_slice|].
  split; [exact regenerated_batchify_rows|].
  split; [intros b; apply regenerated_batchify_affinity_block|].
  split; [intros b; apply regenerated_batchify_affinity_block|].
  exact regenerated_batchify_step.
Qed.

Lemma regenerated_fit_step_reads_batch : step_rules_ok fit_step_rules.
Proof. unfold step_rules_ok, fit_step_rules. cbn [s_infer_x s_gemini_aff s_grads_x]. split; [reflexivity|]. split; reflexivity. Qed.
Lemma regenerated_path_step_reads_batch : step_rules_ok path_step_rules.
Proof. unfold step_rules_ok, path_step_rules. cbn [s_infer_x s_gemini_aff s_grads_x]. split; [reflexivity|]. split; reflexivity. Qed.
Lemma regenerated_fit_epochs : forall m, f_epochs fit_rules m = m.
Proof. intros m. unfold fit_rules, fit_epochs. cbn [f_epochs]. reflexivity. Qed.
Lemma regenerated_fit_n_iter : forall m, f_n_iter fit_rules m = m.
Proof. intros m. unfold fit_rules, fit_n_iter. cbn [f_n_iter]. reflexivity. Qed.
Lemma regenerated_fit_iterates_lazily : f_iter fit_rules = IterLazy.
Proof. unfold fit_rules, fit_iter. cbn [f_iter]. reflexivity. Qed.
Lemma regenerated_fit_rules_ok : fit_rules_ok fit_rules.
Proof.
  split; [exact regenerated_fit_epochs|]. split; [exact regenerated_fit_n_iter|].
  split; [unfold fit_rules; cbn [f_step]; exact regenerated_fit_step_reads_batch | exact regenerated_fit_iterates_lazily].
Qed.

Lemma regenerated_decorate_arange : forall n, d_arange deco_rules n = n.
Proof. intros n. unfold deco_rules, dc_arange. cbn [d_arange]. reflexivity. Qed.
Lemma regenerated_decorate_recorded : forall s, d_recorded deco_rules s = s.
Proof. intros s. unfold deco_rules, dc_recorded. cbn [d_recorded]. reflexivity. Qed.
Lemma regenerated_decorate_rows : forall s, d_rows deco_rules s = s.
Proof. intros s. unfold deco_rules, dc_rows. cbn [d_rows]. reflexivity. Qed.
Lemma regenerated_deco_rules_ok : deco_rules_ok deco_rules.
Proof.
  split; [exact regenerated_decorate_arange|]. split; [exact regenerated_decorate_recorded | exact regenerated_decorate_rows].
Qed.

Lemma regenerated_val_loop : forall (T : Type) (o : NumOps T),
  v_start (val_rules o) = 0%Z /\ (forall j n, v_guard (val_rules o) j n = (j <? n)%Z) /\
  (forall j b, v_step (val_rules o) j b = (j + b)%Z).
Proof. intros T o. unfold val_rules, vs_start, vs_guard, vs_step. cbn [v_start v_guard v_step]. split; [reflexivity|]. split; intros; reflexivity. Qed.
Lemma regenerated_val_x_slice : forall (T : Type) (o : NumOps T) j b,
  v_x_lo (val_rules o) j b = j /\ v_x_hi (val_rules o) j b = (j + b)%Z.
Proof. intros T o j b. unfold val_rules, vs_x_lo, vs_x_hi. cbn [v_x_lo v_x_hi]. split; reflexivity. Qed.
Lemma regenerated_val_y_block : forall (T : Type) (o : NumOps T) j b,
  (v_yr_lo (val_rules o) j b = j /\ v_yr_hi (val_rules o) j b = (j + b)%Z) /\
  (v_yc_lo (val_rules o) j b = j /\ v_yc_hi (val_rules o) j b = (j + b)%Z).
Proof.
  intros T o j b. unfold val_rules, vs_yr_lo, vs_yr_hi, vs_yc_lo, vs_yc_hi. cbn [v_yr_lo v_yr_hi v_yc_lo v_yc_hi].
  split; split; reflexivity.
Qed.
Lemma regenerated_path_none_default : forall (T : Type) (o : NumOps T), none_default_ok (v_path_bs (val_rules o)).
Proof. intros T o n opt. unfold val_rules, vs_path_bs. cbn [v_path_bs]. reflexivity. Qed.
Lemma regenerated_val_idx_ok : forall (T : Type) (o : NumOps T), val_idx_ok (val_rules o).
Proof.
  intros T o. destruct (regenerated_val_loop T o) as (H0 & Hg & Hs).
  split; [exact H0|]. split; [exact Hg|]. split; [exact Hs|].
  split; [intros j b; apply regenerated_val_x_slice|]. split; [intros j b; apply regenerated_val_x_slice|].
  split; [intros j b; apply regenerated_val_y_block|]. split; [intros j b; apply regenerated_val_y_block|].
  split; [intros j b; apply regenerated_val_y_block|]. split; [intros j b; apply regenerated_val_y_block|].
  apply regenerated_path_none_default.
Qed.
(* the weighting: acc + score * len(X_batch), then / len(X) *)
Lemma regenerated_val_weighting : val_arith_ok (val_rules Rops).
Proof.
  unfold val_arith_ok, val_rules, vs_init, vs_acc, vs_norm. cbn [v_init v_acc v_norm n0 nadd nmul ndiv nofnat Rops].
  split; [reflexivity|]. split; intros; [ring | reflexivity].
Qed.

(* ---------------------------------------------------------------- the theorems, for the regenerated instantiation *)
Notation GB := batch_rules.

Lemma gen_batchify_is_batches n bs P : 1 <= eff_bs n bs -> length (P (Z.of_nat n)) = n ->
  code_batchify GB n bs P = Some (map dup3 (batches (eff_bs n bs) (P (Z.of_nat n)))).
Proof. intros. apply (code_batchify_ok GB regenerated_batch_rules_ok); assumption. Qed.

Lemma gen_partition n bs P : 1 <= eff_bs n bs -> is_perm_of_range n (P (Z.of_nat n)) ->
  exists Y, code_batchify GB n bs P = Some Y /\
    let Bs := map fst Y in
    concat Bs = P (Z.of_nat n) /\
    Forall (fun b => 1 <= length b <= eff_bs n bs) Bs /\
    length Bs = (n + eff_bs n bs - 1) / eff_bs n bs /\
    (forall i, i < n -> exists! j, j < length Bs /\ In i (nth j Bs [])).
Proof.
  intros Hbs Hp. pose proof Hp as (_ & Hlen & _).
  exists (map dup3 (batches (eff_bs n bs) (P (Z.of_nat n)))). split; [apply gen_batchify_is_batches; assumption|].
  cbn zeta. rewrite map_map. cbn [dup3 fst]. rewrite map_id.
  exact (batches_partition n (eff_bs n bs) (P (Z.of_nat n)) Hbs Hp).
Qed.

Lemma nth_map_dup3 j ls : nth j (map dup3 ls) ([], ([], [])) = dup3 (nth j ls []).
Proof. exact (map_nth dup3 ls [] j). Qed.

Lemma gen_full_batches n bs P Y j : 1 <= eff_bs n bs -> length (P (Z.of_nat n)) = n ->
  code_batchify GB n bs P = Some Y -> S j < length Y ->
  length (fst (nth j Y ([], ([], [])))) = eff_bs n bs.
Proof.
  intros Hbs Hlen HY Hj. rewrite gen_batchify_is_batches in HY by assumption. injection HY as <-.
  rewrite map_length in Hj. rewrite nth_map_dup3. cbn [dup3 fst]. apply batches_all_but_last_full; assumption.
Qed.

(* rows, affinity rows and affinity columns of batch j are all the same index list, and its element a is
   element j*bs+a of the permutation *)
Lemma gen_alignment (T : Type) (A : nat -> nat -> T) (X : nat -> T) (d : T) n bs P Y j a b :
  1 <= eff_bs n bs -> length (P (Z.of_nat n)) = n -> code_batchify GB n bs P = Some Y -> j < length Y ->
  let y := nth j Y ([], ([], [])) in
  let perm := P (Z.of_nat n) in
  a < length (fst y) -> b < length (fst y) ->
  length (fst (snd y)) = length (fst y) /\ length (snd (snd y)) = length (fst y) /\
  nth a (rows X (fst y)) d = X (nth (j * eff_bs n bs + a) perm 0) /\
  block2 A (fst (snd y)) (snd (snd y)) a b
    = A (nth (j * eff_bs n bs + a) perm 0) (nth (j * eff_bs n bs + b) perm 0).
Proof.
  intros Hbs Hlen HY Hj. rewrite gen_batchify_is_batches in HY by assumption. injection HY as <-.
  rewrite map_length in Hj. cbn zeta. rewrite nth_map_dup3. cbn [dup3 fst snd]. intros Ha Hb.
  split; [reflexivity|]. split; [reflexivity|]. split.
  - apply rows_alignment; assumption.
  - exact (block_alignment A (eff_bs n bs) (P (Z.of_nat n)) j a b Hbs Hj Ha Hb).
Qed.

Lemma gen_steps max_iter n bs (P : nat -> Z -> list nat) : 1 <= eff_bs n bs ->
  (forall e, e < max_iter -> is_perm_of_range n (P e (Z.of_nat n))) ->
  exists tr, code_fit_trace GB fit_rules max_iter n bs P = Some tr /\
    length tr = max_iter * ((n + eff_bs n bs - 1) / eff_bs n bs) /\
    tr = concat (map (fun e => map reads_of (batches (eff_bs n bs) (P e (Z.of_nat n)))) (seq 0 max_iter)).
Proof.
  intros Hbs HP. eexists. split.
  - apply (code_fit_trace_ok GB fit_rules regenerated_batch_rules_ok regenerated_fit_rules_ok); [exact Hbs|].
    intros e He. destruct (HP e He) as (_ & Hl & _). exact Hl.
  - split; [|reflexivity].
    rewrite (length_concat_map_epochs reads_of n bs (fun e => P e (Z.of_nat n)) max_iter).
    apply fit_steps_count; assumption.
Qed.

Lemma gen_n_iter max_iter : code_n_iter fit_rules max_iter = max_iter.
Proof. unfold code_n_iter. apply regenerated_fit_n_iter. Qed.

Lemma gen_path_epoch n bs P : 1 <= eff_bs n bs -> length (P (Z.of_nat n)) = n ->
  code_path_epoch GB path_step_rules n bs P = Some (map reads_of (batches (eff_bs n bs) (P (Z.of_nat n)))).
Proof. intros. apply (code_path_epoch_ok GB path_step_rules regenerated_batch_rules_ok regenerated_path_step_reads_batch); assumption. Qed.

Lemma gen_decorated n bs P : 1 <= eff_bs n bs -> is_perm_of_range n (P (Z.of_nat n)) ->
  code_decorated GB deco_rules n bs P = Some (map dup4 (batches (eff_bs n bs) (P (Z.of_nat n)))).
Proof. intros. apply (code_decorated_ok GB deco_rules regenerated_batch_rules_ok regenerated_deco_rules_ok); assumption. Qed.

Lemma gen_decorated_indices n bs P : 1 <= eff_bs n bs -> is_perm_of_range n (P (Z.of_nat n)) ->
  exists Y, code_decorated GB deco_rules n bs P = Some Y /\
    map (fun p => fst (snd p)) Y = batches (eff_bs n bs) (P (Z.of_nat n)) /\
    Forall (fun p => fst p = fst (snd p) /\ fst (snd (snd p)) = fst p /\ snd (snd (snd p)) = fst p) Y.
Proof.
  intros Hbs Hp. eexists. split; [apply gen_decorated; assumption|]. split.
  - rewrite map_map. cbn [dup4 fst snd]. apply map_id.
  - apply Forall_forall. intros p Hin. apply in_map_iff in Hin. destruct Hin as (b & <- & _).
    cbn [dup4 fst snd]. repeat split; reflexivity.
Qed.

Lemma gen_decorated_visible n bs P : 1 <= eff_bs n bs -> is_perm_of_range n (P (Z.of_nat n)) ->
  code_decorated_visible GB deco_rules fit_rules n bs P = Some (map (fun b => (b, b)) (batches (eff_bs n bs) (P (Z.of_nat n)))).
Proof.
  intros. apply (code_decorated_visible_ok GB deco_rules fit_rules regenerated_batch_rules_ok regenerated_deco_rules_ok
                   regenerated_fit_iterates_lazily); assumption.
Qed.

Lemma gen_val_blocks (T : Type) (o : NumOps T) n bs : 1 <= bs ->
  code_val_blocks (val_rules o) n (Z.of_nat bs) = Some (map dup3 (val_blocks n bs)).
Proof. intros. apply code_val_blocks_ok; [apply regenerated_val_idx_ok | assumption]. Qed.

Lemma gen_val_score n bs g : 1 <= bs ->
  code_val_score (val_rules Rops) n (Z.of_nat bs) g = Some (weighted_mean n bs g).
Proof. intros. apply code_val_score_weighted_mean; [apply regenerated_val_idx_ok | exact regenerated_val_weighting | assumption]. Qed.

Lemma gen_path_val_score n bs g : 1 <= eff_bs n bs ->
  code_path_val_score (val_rules Rops) n bs g = Some (weighted_mean n (eff_bs n bs) g).
Proof.
  intros Hbs. unfold code_path_val_score.
  rewrite (none_default_eff_bs _ n bs (regenerated_path_none_default R Rops)). apply gen_val_score. exact Hbs.
Qed.

(* ---------------------------------------------------------------- (a') regenerated = documented *)
(* last in the file, so that a changed rule is first reported by the lemma that reads it *)
Lemma regenerated_rules_are_documented :
  batch_rules = documented_batch_rules /\ fit_rules = documented_fit_rules /\
  path_step_rules = documented_step_rules /\ deco_rules = documented_deco_rules /\
  (forall (T : Type) (o : NumOps T), val_rules o = documented_val_rules o).
Proof. repeat split; reflexivity. Qed.
