(* Shared real-analysis library: finite sums over R (the Rops instance of bsum), derivative wrappers
   stated purely over R (Coquelicot), interior of the clipped simplex and its local stability. *)
From Coq Require Import Reals Lra Lia Psatz List.
From Coquelicot Require Import Coquelicot.
From GV Require Import Common.Num Common.NumR.
Open Scope R_scope.

Definition rsum (n : nat) (f : nat -> R) : R := bsum Rops n f.
Lemma rsum_S n f : rsum (S n) f = rsum n f + f n. Proof. reflexivity. Qed.
Lemma rsum_0 f : rsum 0 f = 0. Proof. reflexivity. Qed.
Lemma rsum_ext n f g : (forall i, (i < n)%nat -> f i = g i) -> rsum n f = rsum n g.
Proof. induction n as [|n IH]; intros H; [reflexivity|]. rewrite !rsum_S, IH, H; auto. Qed.
Lemma rsum_plus n f g : rsum n (fun i => f i + g i) = rsum n f + rsum n g.
Proof. induction n as [|n IH]; rewrite ?rsum_0, ?rsum_S; [lra|]. rewrite IH. lra. Qed.
Lemma rsum_minus n f g : rsum n (fun i => f i - g i) = rsum n f - rsum n g.
Proof. induction n as [|n IH]; rewrite ?rsum_0, ?rsum_S; [lra|]. rewrite IH. lra. Qed.
Lemma rsum_opp n f : rsum n (fun i => - f i) = - rsum n f.
Proof. induction n as [|n IH]; rewrite ?rsum_0, ?rsum_S; [lra|]. rewrite IH. lra. Qed.
Lemma rsum_scal n c f : rsum n (fun i => c * f i) = c * rsum n f.
Proof. induction n as [|n IH]; rewrite ?rsum_0, ?rsum_S; [lra|]. rewrite IH. lra. Qed.
Lemma rsum_scal_r n c f : rsum n (fun i => f i * c) = rsum n f * c.
Proof. induction n as [|n IH]; rewrite ?rsum_0, ?rsum_S; [lra|]. rewrite IH. lra. Qed.
Lemma rsum_divc n c f : rsum n (fun i => f i / c) = rsum n f / c.
Proof. unfold Rdiv. apply rsum_scal_r. Qed.
Lemma rsum_const n c : rsum n (fun _ => c) = INR n * c.
Proof. induction n as [|n IH]; [simpl; lra|]. rewrite rsum_S, IH, S_INR. lra. Qed.
Lemma rsum_zero n f : (forall i, (i < n)%nat -> f i = 0) -> rsum n f = 0.
Proof. intros H. rewrite (rsum_ext n f (fun _ => 0) H), rsum_const. lra. Qed.
Lemma rsum_swap n m (f : nat -> nat -> R) :
  rsum n (fun i => rsum m (fun k => f i k)) = rsum m (fun k => rsum n (fun i => f i k)).
Proof.
  induction n as [|n IH]; rewrite ?rsum_S.
  - rewrite rsum_0. symmetry. apply rsum_zero. reflexivity.
  - rewrite IH. rewrite <- rsum_plus. reflexivity.
Qed.
Lemma rsum_nonneg n f : (forall i, (i < n)%nat -> 0 <= f i) -> 0 <= rsum n f.
Proof. induction n as [|n IH]; intros H; [rewrite rsum_0; lra|]. rewrite rsum_S.
  assert (0 <= rsum n f) by (apply IH; intros; apply H; lia). specialize (H n ltac:(lia)). lra. Qed.
Lemma rsum_pos n f : (0 < n)%nat -> (forall i, (i < n)%nat -> 0 < f i) -> 0 < rsum n f.
Proof.
  intros Hn H. destruct n as [|n]; [lia|]. rewrite rsum_S.
  assert (0 <= rsum n f) by (apply rsum_nonneg; intros; apply Rlt_le, H; lia).
  specialize (H n ltac:(lia)). lra.
Qed.
Lemma rsum_le n f g : (forall i, (i < n)%nat -> f i <= g i) -> rsum n f <= rsum n g.
Proof. induction n as [|n IH]; intros H; [rewrite !rsum_0; lra|]. rewrite !rsum_S.
  assert (rsum n f <= rsum n g) by (apply IH; intros; apply H; lia). specialize (H n ltac:(lia)). lra. Qed.
Lemma rsum_abs_le n f : Rabs (rsum n f) <= rsum n (fun i => Rabs (f i)).
Proof. induction n as [|n IH]; [rewrite !rsum_0, Rabs_R0; lra|]. rewrite !rsum_S.
  eapply Rle_trans; [apply Rabs_triang|]. lra. Qed.
(* one distinguished index *)
Lemma rsum_single n j (f : nat -> R) : (j < n)%nat -> (forall i, (i < n)%nat -> i <> j -> f i = 0) -> rsum n f = f j.
Proof.
  induction n as [|n IH]; intros Hj H; [lia|]. rewrite rsum_S.
  destruct (Nat.eq_dec j n) as [->|Hne].
  - rewrite rsum_zero; [lra|]. intros i Hi. apply H; lia.
  - rewrite IH; [| lia | intros i Hi Hij; apply H; lia]. rewrite (H n); [lra | lia | lia].
Qed.

(* ---- derivative wrappers over R ---- *)
Lemma dR_const (c x : R) : is_derive (fun _ : R => c) x 0.
Proof. auto_derive; [trivial | reflexivity]. Qed.
Lemma dR_id (x : R) : is_derive (fun t : R => t) x 1.
Proof. auto_derive; [trivial | reflexivity]. Qed.
Lemma dR_plus (f g : R -> R) x a b : is_derive f x a -> is_derive g x b -> is_derive (fun t : R => f t + g t) x (a + b).
Proof. intros Hf Hg. exact (is_derive_plus f g x a b Hf Hg). Qed.
Lemma dR_minus (f g : R -> R) x a b : is_derive f x a -> is_derive g x b -> is_derive (fun t : R => f t - g t) x (a - b).
Proof. intros Hf Hg. exact (is_derive_minus f g x a b Hf Hg). Qed.
Lemma dR_opp (f : R -> R) x a : is_derive f x a -> is_derive (fun t : R => - f t) x (- a).
Proof. intros Hf. exact (is_derive_opp f x a Hf). Qed.
Lemma dR_scal (f : R -> R) x a c : is_derive f x a -> is_derive (fun t : R => c * f t) x (c * a).
Proof. intros Hf. exact (is_derive_scal f x c a Hf). Qed.
Lemma dR_mult (f g : R -> R) x a b : is_derive f x a -> is_derive g x b ->
  is_derive (fun t : R => f t * g t) x (a * g x + f x * b).
Proof. intros Hf Hg. exact (is_derive_mult f g x a b Hf Hg Rmult_comm). Qed.
Lemma dR_div (f g : R -> R) x a b : is_derive f x a -> is_derive g x b -> g x <> 0 ->
  is_derive (fun t : R => f t / g t) x ((a * g x - f x * b) / (g x ^ 2)).
Proof. intros Hf Hg Hn. exact (is_derive_div f g x a b Hf Hg Hn). Qed.
Lemma dR_divc (f : R -> R) x a c : is_derive f x a -> is_derive (fun t : R => f t / c) x (a / c).
Proof.
  intros Hf. apply (is_derive_ext (fun t : R => / c * f t)). { intros t. unfold Rdiv. apply Rmult_comm. }
  replace (a / c) with (/ c * a) by (unfold Rdiv; apply Rmult_comm).
  exact (is_derive_scal f x (/ c) a Hf).
Qed.
Lemma dR_ln (f : R -> R) x a : is_derive f x a -> 0 < f x -> is_derive (fun t : R => ln (f t)) x (a / f x).
Proof.
  intros Hf Hp. replace (a / f x) with (scal a (/ f x)) by (unfold scal; simpl; unfold mult; simpl; field; lra).
  exact (is_derive_comp ln f x (/ f x) a (is_derive_ln (f x) Hp) Hf).
Qed.
Lemma dR_sqrt (f : R -> R) x a : is_derive f x a -> 0 < f x -> is_derive (fun t : R => sqrt (f t)) x (a / (2 * sqrt (f x))).
Proof. intros Hf Hp. exact (is_derive_sqrt f x a Hf Hp). Qed.
Lemma dR_abs (f : R -> R) x a : is_derive f x a -> f x <> 0 -> is_derive (fun t : R => Rabs (f t)) x (sign (f x) * a).
Proof. intros Hf Hn. exact (is_derive_Rabs f x a Hf Hn). Qed.
Lemma dR_lin (a b x : R) : is_derive (fun t : R => a + t * b) x b.
Proof. auto_derive; [trivial | ring]. Qed.
Lemma dR_rsum n (f : nat -> R -> R) (f' : nat -> R) (x : R) :
  (forall i, (i < n)%nat -> is_derive (f i) x (f' i)) ->
  is_derive (fun t : R => rsum n (fun i => f i t)) x (rsum n f').
Proof.
  induction n as [|n IH]; intros H.
  - apply (is_derive_ext (fun _ : R => 0)); [intros; reflexivity | apply dR_const].
  - apply (is_derive_ext (fun t : R => rsum n (fun i => f i t) + f n t)); [intros; reflexivity|].
    rewrite rsum_S. apply dR_plus; [apply IH; intros i Hi; apply H; lia | apply H; lia].
Qed.
Lemma dR_ext (f g : R -> R) x a : (forall t, f t = g t) -> is_derive f x a -> is_derive g x a.
Proof. intros H Hf. exact (is_derive_ext f g x a H Hf). Qed.
Lemma dR_ext_loc (f g : R -> R) x a : locally x (fun t => f t = g t) -> is_derive f x a -> is_derive g x a.
Proof. intros H Hf. exact (is_derive_ext_loc f g x a H Hf). Qed.
Lemma dR_val (f : R -> R) x a b : a = b -> is_derive f x a -> is_derive f x b.
Proof. intros ->. trivial. Qed.

(* ---- matrices, perturbation along a direction, interior of the clipped simplex ---- *)
Definition mat := nat -> nat -> R.
Definition pert (P D : mat) (t : R) : mat := fun i k => P i k + t * D i k.
Definition interior (eps : R) (n K : nat) (P : mat) : Prop :=
  forall i k, (i < n)%nat -> (k < K)%nat -> eps < P i k < 1 - eps.

Lemma locally_forall_lt (n : nat) (Q : nat -> R -> Prop) (x : R) :
  (forall i, (i < n)%nat -> locally x (Q i)) -> locally x (fun t => forall i, (i < n)%nat -> Q i t).
Proof.
  induction n as [|n IH]; intros H.
  - exists (mkposreal 1 Rlt_0_1). intros y _ i Hi. lia.
  - assert (H1 : locally x (fun t => forall i, (i < n)%nat -> Q i t)) by (apply IH; intros; apply H; lia).
    assert (H2 : locally x (Q n)) by (apply H; lia).
    generalize (filter_and _ _ H1 H2). apply filter_imp. intros t [Ha Hb] i Hi.
    destruct (Nat.eq_dec i n) as [->|Hne]; [exact Hb | apply Ha; lia].
Qed.

Lemma interior_locally eps n K P D : interior eps n K P ->
  locally 0 (fun t => interior eps n K (pert P D t)).
Proof.
  intros HI. unfold interior.
  assert (HL : locally 0 (fun t => forall i, (i < n)%nat -> forall k, (k < K)%nat -> eps < pert P D t i k < 1 - eps)).
  { apply (locally_forall_lt n (fun i t => forall k, (k < K)%nat -> eps < pert P D t i k < 1 - eps)).
    intros i Hi.
    apply (locally_forall_lt K (fun k t => eps < pert P D t i k < 1 - eps)). intros k Hk.
    specialize (HI i k Hi Hk). unfold pert.
    assert (Hc : continuous (fun t : R => P i k + t * D i k) 0).
    { apply (ex_derive_continuous (fun t : R => P i k + t * D i k)). exists (D i k). apply dR_lin. }
    assert (Ho : open (fun y : R => eps < y < 1 - eps)).
    { apply open_and; [apply open_gt | apply open_lt]. }
    apply (Hc (fun y => eps < y < 1 - eps)). apply Ho. rewrite Rmult_0_l, Rplus_0_r. exact HI. }
  revert HL. apply filter_imp. intros t Ht i k Hi Hk. apply Ht; assumption.
Qed.

(* clipping and the mask are inactive in the interior *)
Lemma Rltb_true x y : x < y -> Rltb x y = true. Proof. intros H. unfold Rltb. destruct (Rlt_dec x y); [reflexivity | contradiction]. Qed.
Lemma Rltb_false x y : ~ x < y -> Rltb x y = false. Proof. intros H. unfold Rltb. destruct (Rlt_dec x y); [contradiction | reflexivity]. Qed.
Lemma nclip_interior eps x : eps < x < 1 - eps -> nclip Rops eps (1 - eps) x = x.
Proof.
  intros [H1 H2]. unfold nclip, nmin, nmax. cbn [nltb Rops].
  rewrite (Rltb_false x eps) by lra. rewrite (Rltb_false (1 - eps) x) by lra. reflexivity.
Qed.

(* ---- reindexing a finite sum by a permutation of [0,n) ---- *)
From Coq Require Import Permutation.
Import ListNotations.
Fixpoint lsumR (l : list R) : R := match l with nil => 0 | x :: r => x + lsumR r end.
Lemma lsumR_app a b : lsumR (a ++ b) = lsumR a + lsumR b.
Proof. induction a as [|x a IH]; simpl; [lra | rewrite IH; lra]. Qed.
Lemma rsum_as_list n f : rsum n f = lsumR (map f (seq 0 n)).
Proof.
  induction n as [|n IH]; [reflexivity|]. rewrite rsum_S, IH, seq_S, map_app, lsumR_app. simpl. lra.
Qed.
Lemma lsumR_perm a b : Permutation a b -> lsumR a = lsumR b.
Proof. induction 1; simpl; lra. Qed.
(* sigma maps [0,n) into itself injectively *)
Definition perm_on (n : nat) (s : nat -> nat) : Prop :=
  (forall i, (i < n)%nat -> (s i < n)%nat) /\ (forall i j, (i < n)%nat -> (j < n)%nat -> s i = s j -> i = j).
Lemma perm_on_seq n s : perm_on n s -> Permutation (map s (seq 0 n)) (seq 0 n).
Proof.
  intros [Hr Hi]. apply NoDup_Permutation_bis.
  - assert (G : forall l, NoDup l -> (forall x, In x l -> (x < n)%nat) -> NoDup (map s l)).
    { induction l as [|x l IH]; intros Hnd Hl; [constructor|]. inversion Hnd as [|? ? Hx Hnd']; subst. simpl. constructor.
      - intros Hin. apply in_map_iff in Hin. destruct Hin as (y & Hy & Hyl). apply Hx.
        assert (y = x) by (apply Hi; [apply Hl; right; exact Hyl | apply Hl; left; reflexivity | exact Hy]). subst. exact Hyl.
      - apply IH; [exact Hnd' | intros y Hy; apply Hl; right; exact Hy]. }
    apply G; [apply seq_NoDup | intros x Hx; apply in_seq in Hx; lia].
  - rewrite map_length. lia.
  - intros x Hx. apply in_map_iff in Hx. destruct Hx as (y & <- & Hy). apply in_seq in Hy. apply in_seq. specialize (Hr y). lia.
Qed.
Lemma rsum_perm n s f : perm_on n s -> rsum n (fun i => f (s i)) = rsum n f.
Proof.
  intros Hs. rewrite !rsum_as_list. rewrite <- (map_map s f). apply lsumR_perm. apply Permutation_map. apply perm_on_seq. exact Hs.
Qed.
