(* C14 — proofs about Model/Mlcl.v (validation of must-link / cannot-link lists, gradient decoration). *)
From Coq Require Import List Arith Bool Lia Relations Permutation.
From GV Require Import Common.Num Model.Mlcl.
Import ListNotations.

(* ------------------------------------------------------------------ specification vocabulary *)
(* the undirected must-link graph on sample indices *)
Definition edge (ml : list (nat * nat)) (a b : nat) : Prop := In (a, b) ml \/ In (b, a) ml.

(* ------------------------------------------------------------------ list helpers *)
Lemma mem_In x l : mem x l = true <-> In x l.
Proof.
  unfold mem. rewrite existsb_exists. split.
  - intros (y & Hy & He). apply Nat.eqb_eq in He. subst. exact Hy.
  - intros H. exists x. split; [exact H | apply Nat.eqb_refl].
Qed.

Lemma mem_false x l : mem x l = false <-> ~ In x l.
Proof. rewrite <- mem_In. destruct (mem x l); split; intros H; congruence. Qed.

Lemma index_lt x l : In x l -> index x l < length l.
Proof.
  induction l as [|y r IH]; intros H; [destruct H|]. cbn [index length].
  destruct (x =? y) eqn:E; [lia|]. apply Nat.eqb_neq in E.
  destruct H as [H|H]; [congruence|]. specialize (IH H). lia.
Qed.

Lemma nth_index x l d : In x l -> nth (index x l) l d = x.
Proof.
  induction l as [|y r IH]; intros H; [destruct H|]. cbn [index].
  destruct (x =? y) eqn:E.
  - apply Nat.eqb_eq in E. subst. reflexivity.
  - apply Nat.eqb_neq in E. destruct H as [H|H]; [congruence|]. cbn [nth]. apply IH, H.
Qed.

Lemma index_inj x y l : In x l -> In y l -> index x l = index y l -> x = y.
Proof.
  intros Hx Hy E. rewrite <- (nth_index x l 0 Hx), <- (nth_index y l 0 Hy), E. reflexivity.
Qed.

Lemma index_nth_NoDup l d : NoDup l -> forall p, p < length l -> index (nth p l d) l = p.
Proof.
  induction 1 as [|y r Hy Hr IH]; intros p Hp; [simpl in Hp; lia|].
  destruct p as [|p]; cbn [nth index].
  - rewrite Nat.eqb_refl. reflexivity.
  - cbn [length] in Hp. assert (Hp' : p < length r) by lia.
    destruct (nth p r d =? y) eqn:E.
    + apply Nat.eqb_eq in E. exfalso. apply Hy. rewrite <- E. apply nth_In, Hp'.
    + rewrite IH by exact Hp'. reflexivity.
Qed.

Lemma dedup_In x l : In x (dedup l) <-> In x l.
Proof.
  induction l as [|y r IH]; [reflexivity|]. cbn [dedup].
  destruct (mem y r) eqn:E.
  - rewrite IH. apply mem_In in E. split; [intros H; right; exact H|].
    intros [H|H]; [subst; exact E | exact H].
  - cbn [In]. rewrite IH. reflexivity.
Qed.

Lemma dedup_NoDup l : NoDup (dedup l).
Proof.
  induction l as [|y r IH]; [constructor|]. cbn [dedup].
  destruct (mem y r) eqn:E; [exact IH|]. constructor; [|exact IH].
  rewrite dedup_In. apply mem_false, E.
Qed.

Lemma length_set_nth {A} n (x : A) l : length (set_nth n x l) = length l.
Proof. revert n. induction l as [|y r IH]; intros [|n]; cbn [set_nth length]; try reflexivity. rewrite IH. reflexivity. Qed.

Lemma nth_set_nth_eq {A} n (x d : A) l : n < length l -> nth n (set_nth n x l) d = x.
Proof.
  revert n. induction l as [|y r IH]; intros [|n] H; cbn [length] in H; try lia; cbn [set_nth nth]; [reflexivity|].
  apply IH. lia.
Qed.

Lemma nth_set_nth_neq {A} n m (x d : A) l : n <> m -> nth m (set_nth n x l) d = nth m l d.
Proof.
  revert n m. induction l as [|y r IH]; intros [|n] [|m] H; cbn [set_nth nth]; try reflexivity; try lia.
  apply IH. lia.
Qed.

Lemma remove_first_In_other x y l : In y l -> y <> x -> In y (remove_first x l).
Proof.
  induction l as [|z r IH]; intros H Hn; [destruct H|]. cbn [remove_first].
  destruct (x =? z) eqn:E.
  - apply Nat.eqb_eq in E. subst z. destruct H as [H|H]; [congruence | exact H].
  - destruct H as [H|H]; [left; exact H | right; apply IH; assumption].
Qed.

Lemma remove_first_subset x y l : In y (remove_first x l) -> In y l.
Proof.
  induction l as [|z r IH]; intros H; [destruct H|]. cbn [remove_first] in H.
  destruct (x =? z); [right; exact H|]. destruct H as [H|H]; [left; exact H | right; apply IH, H].
Qed.

Lemma remove_first_length_le x l : length (remove_first x l) <= length l.
Proof.
  induction l as [|z r IH]; [simpl; lia|]. cbn [remove_first]. destruct (x =? z); cbn [length]; lia.
Qed.

Lemma remove_first_length_In x l : In x l -> S (length (remove_first x l)) = length l.
Proof.
  induction l as [|z r IH]; intros H; [destruct H|]. cbn [remove_first].
  destruct (x =? z) eqn:E; [reflexivity|]. apply Nat.eqb_neq in E.
  destruct H as [H|H]; [congruence|]. cbn [length]. rewrite IH by exact H. reflexivity.
Qed.

Definition remove_all (nodes todo : list nat) : list nat := fold_left (fun t node => remove_first node t) nodes todo.

Lemma remove_all_keeps nodes : forall todo y, In y todo -> ~ In y nodes -> In y (remove_all nodes todo).
Proof.
  induction nodes as [|n ns IH]; intros todo y Hy Hn; [exact Hy|]. cbn [remove_all fold_left].
  apply IH.
  - apply remove_first_In_other; [exact Hy|]. intros E. apply Hn. left. symmetry. exact E.
  - intros H. apply Hn. right. exact H.
Qed.

Lemma remove_all_subset nodes : forall todo y, In y (remove_all nodes todo) -> In y todo.
Proof.
  induction nodes as [|n ns IH]; intros todo y Hy; [exact Hy|]. cbn [remove_all fold_left] in Hy.
  apply IH in Hy. eapply remove_first_subset, Hy.
Qed.

Lemma remove_all_length_le nodes : forall todo, length (remove_all nodes todo) <= length todo.
Proof.
  induction nodes as [|n ns IH]; intros todo; [simpl; lia|]. cbn [remove_all fold_left].
  etransitivity; [apply IH | apply remove_first_length_le].
Qed.

Lemma remove_all_length_lt nodes : forall todo s, In s nodes -> In s todo ->
  length (remove_all nodes todo) < length todo.
Proof.
  induction nodes as [|n ns IH]; intros todo s Hs Ht; [destruct Hs|]. cbn [remove_all fold_left].
  destruct (Nat.eq_dec n s) as [E|E].
  - subst n. pose proof (remove_first_length_In s todo Ht). pose proof (remove_all_length_le ns (remove_first s todo)).
    unfold remove_all in *. lia.
  - destruct Hs as [Hs|Hs]; [congruence|].
    pose proof (IH (remove_first n todo) s Hs (remove_first_In_other n s todo Ht (fun H => E (eq_sym H)))).
    pose proof (remove_first_length_le n todo). unfold remove_all in *. lia.
Qed.

Lemma combos_In l : forall x y, In (x, y) (combos l) -> In x l /\ In y l.
Proof.
  induction l as [|z r IH]; intros x y H; [destruct H|]. cbn [combos] in H.
  apply in_app_or in H. destruct H as [H|H].
  - apply in_map_iff in H. destruct H as (w & E & Hw). inversion E; subst. split; [left; reflexivity | right; exact Hw].
  - apply IH in H. destruct H. split; right; assumption.
Qed.

Lemma combos_complete l : forall x y, x <> y -> In x l -> In y l -> In (x, y) (combos l) \/ In (y, x) (combos l).
Proof.
  induction l as [|z r IH]; intros x y Hn Hx Hy; [destruct Hx|]. cbn [combos].
  destruct Hx as [Hx|Hx], Hy as [Hy|Hy].
  - congruence.
  - subst z. left. apply in_or_app. left. apply in_map, Hy.
  - subst z. right. apply in_or_app. left. apply in_map, Hx.
  - destruct (IH x y Hn Hx Hy) as [H|H]; [left | right]; apply in_or_app; right; exact H.
Qed.

(* ------------------------------------------------------------------ connectivity *)
Lemma edge_sym ml a b : edge ml a b -> edge ml b a.
Proof. unfold edge. tauto. Qed.

Lemma conn_sym ml a b : clos_refl_trans nat (edge ml) a b -> clos_refl_trans nat (edge ml) b a.
Proof.
  induction 1 as [a b H| a | a b c _ IH1 _ IH2].
  - apply rt_step, edge_sym, H.
  - apply rt_refl.
  - eapply rt_trans; eassumption.
Qed.

Lemma conn_mono ml p a b : clos_refl_trans nat (edge ml) a b -> clos_refl_trans nat (edge (p :: ml)) a b.
Proof.
  induction 1 as [a b H| a | a b c _ IH1 _ IH2].
  - apply rt_step. destruct H as [H|H]; [left | right]; right; exact H.
  - apply rt_refl.
  - eapply rt_trans; eassumption.
Qed.

(* the relabelling computes exactly the reflexive-symmetric-transitive closure of the edge list *)
Lemma label_spec es : forall x y, label es x = label es y <-> clos_refl_trans nat (edge es) x y.
Proof.
  induction es as [|[a b] r IH]; intros x y.
  - cbn [label]. split.
    + intros ->. apply rt_refl.
    + induction 1 as [x y H| x | x y z _ IH1 _ IH2]; [destruct H as [[]|[]] | reflexivity | congruence].
  - cbn [label].
    assert (Hab : clos_refl_trans nat (edge ((a, b) :: r)) a b) by (apply rt_step; left; left; reflexivity).
    assert (Hup : forall u v, label r u = label r v -> clos_refl_trans nat (edge ((a, b) :: r)) u v)
      by (intros u v E; apply conn_mono, IH, E).
    split.
    + intros E.
      destruct (label r x =? label r b) eqn:Ex, (label r y =? label r b) eqn:Ey;
        try apply Nat.eqb_eq in Ex; try apply Nat.eqb_eq in Ey.
      * apply Hup. congruence.
      * (* x ~ b, a ~ y *)
        eapply rt_trans; [apply Hup, Ex|]. eapply rt_trans; [apply conn_sym, Hab|]. apply Hup, E.
      * eapply rt_trans; [apply Hup, E|]. eapply rt_trans; [apply Hab|]. apply Hup. symmetry. exact Ey.
      * apply Hup, E.
    + induction 1 as [x y H| x | x y z _ IH1 _ IH2]; [| reflexivity | congruence].
      assert (Hr : forall u v, In (u, v) r -> label r u = label r v)
        by (intros u v Huv; apply IH, rt_step; left; exact Huv).
      assert (Hl : (x = a /\ y = b) \/ (x = b /\ y = a) \/ label r x = label r y).
      { destruct H as [[H|H]|[H|H]].
        - inversion H; subst. left. split; reflexivity.
        - right. right. apply Hr, H.
        - inversion H; subst. right. left. split; reflexivity.
        - right. right. symmetry. apply Hr, H. }
      destruct Hl as [[-> ->]|[[-> ->]|E]].
      * rewrite Nat.eqb_refl. destruct (label r a =? label r b); reflexivity.
      * rewrite Nat.eqb_refl. destruct (label r a =? label r b); reflexivity.
      * rewrite E. reflexivity.
Qed.

(* ------------------------------------------------------------------ positions <-> sample indices *)
Lemma uniq_In ml a b : In (a, b) ml -> In a (uniq ml) /\ In b (uniq ml).
Proof.
  intros H. unfold uniq. rewrite !dedup_In. split; apply in_or_app.
  - left. change a with (fst (a, b)). apply in_map, H.
  - right. change b with (snd (a, b)). apply in_map, H.
Qed.

Lemma conn_members ml x y : clos_refl_trans nat (edge ml) x y -> x = y \/ (In x (uniq ml) /\ In y (uniq ml)).
Proof.
  induction 1 as [x y H| x | x y z _ IH1 _ IH2].
  - right. destruct H as [H|H]; apply uniq_In in H; tauto.
  - left. reflexivity.
  - destruct IH1 as [->|[H1 H2]]; [exact IH2|]. destruct IH2 as [<-|[H3 H4]]; right; tauto.
Qed.

Lemma conn_nil x y : clos_refl_trans nat (edge []) x y -> x = y.
Proof. intros H. apply (label_spec [] x y) in H. exact H. Qed.

Lemma pos_conn_fwd U ml x y : clos_refl_trans nat (edge ml) x y ->
  clos_refl_trans nat (edge (pos_edges U ml)) (index x U) (index y U).
Proof.
  induction 1 as [x y H| x | x y z _ IH1 _ IH2].
  - apply rt_step. unfold pos_edges.
    destruct H as [H|H]; [left | right].
    + apply (in_map (fun p => (index (fst p) U, index (snd p) U)) _ _ H).
    + apply (in_map (fun p => (index (fst p) U, index (snd p) U)) _ _ H).
  - apply rt_refl.
  - eapply rt_trans; eassumption.
Qed.

Lemma pos_conn_bwd U ml p q : (forall a b, In (a, b) ml -> In a U /\ In b U) ->
  clos_refl_trans nat (edge (pos_edges U ml)) p q ->
  clos_refl_trans nat (edge ml) (nth p U 0) (nth q U 0).
Proof.
  intros HU. induction 1 as [p q H| p | p q r _ IH1 _ IH2].
  - apply rt_step. unfold pos_edges in H.
    destruct H as [H|H]; apply in_map_iff in H; destruct H as ([a b] & E & Hab); cbn [fst snd] in E;
      inversion E; subst; destruct (HU a b Hab) as [Ha Hb]; rewrite !nth_index by assumption.
    + left. exact Hab.
    + right. exact Hab.
  - apply rt_refl.
  - eapply rt_trans; eassumption.
Qed.

(* ------------------------------------------------------------------ the exploration loop *)
Lemma reach_In m lab s p : In p (reach m lab s) <-> p < m /\ lab p = lab s.
Proof.
  unfold reach. rewrite filter_In, in_seq, Nat.eqb_eq. lia.
Qed.

Lemma hits_spec cl i j : hits cl (i, j) = true <-> In (i, j) cl \/ In (j, i) cl.
Proof.
  unfold hits. rewrite existsb_exists. cbn [fst snd]. split.
  - intros ([a b] & Hin & H). cbn [fst snd] in H. apply orb_true_iff in H.
    destruct H as [H|H]; apply andb_true_iff in H; destruct H as [H1 H2];
      apply Nat.eqb_eq in H1; apply Nat.eqb_eq in H2; subst; tauto.
  - intros [H|H].
    + exists (i, j). split; [exact H|]. cbn [fst snd]. rewrite !Nat.eqb_refl. reflexivity.
    + exists (j, i). split; [exact H|]. cbn [fst snd]. rewrite !Nat.eqb_refl. apply orb_true_r.
Qed.

Lemma hits_sym cl i j : hits cl (i, j) = hits cl (j, i).
Proof.
  destruct (hits cl (i, j)) eqn:E1, (hits cl (j, i)) eqn:E2; try reflexivity.
  - apply hits_spec in E1. assert (H : hits cl (j, i) = true) by (apply hits_spec; tauto). congruence.
  - apply hits_spec in E2. assert (H : hits cl (i, j) = true) by (apply hits_spec; tauto). congruence.
Qed.

Lemma existsb_false_In {A} (f : A -> bool) l x : existsb f l = false -> In x l -> f x = false.
Proof.
  intros H Hx. destruct (f x) eqn:E; [|reflexivity].
  assert (existsb f l = true) by (apply existsb_exists; exists x; tauto). congruence.
Qed.

Lemma explore_sound U lab cl : NoDup U -> forall fuel todo,
  explore fuel U lab cl todo = Some true ->
  forall p q, In p todo -> p < length U -> q < length U -> lab q = lab p -> p <> q ->
  hits cl (nth p U 0, nth q U 0) = false.
Proof.
  intros HU. induction fuel as [|f IH]; intros todo He p q Hp Hpm Hqm Hl Hpq.
  - destruct todo; [destruct Hp | discriminate He].
  - destruct todo as [|s t]; [destruct Hp|]. cbn [explore] in He.
    destruct (existsb (hits cl) (combos (map (fun node => nth node U 0) (reach (length U) lab s)))) eqn:Ex; [discriminate He|].
    destruct (Nat.eq_dec (lab p) (lab s)) as [Es|Es].
    + assert (Hne : nth p U 0 <> nth q U 0).
      { intros E. apply Hpq. apply (proj1 (NoDup_nth U 0) HU p q Hpm Hqm E). }
      assert (Hip : In (nth p U 0) (map (fun node => nth node U 0) (reach (length U) lab s)))
        by (apply (in_map (fun node => nth node U 0)), reach_In; split; [exact Hpm | exact Es]).
      assert (Hiq : In (nth q U 0) (map (fun node => nth node U 0) (reach (length U) lab s)))
        by (apply (in_map (fun node => nth node U 0)), reach_In; split; [exact Hqm | congruence]).
      destruct (combos_complete _ _ _ Hne Hip Hiq) as [H|H].
      * apply (existsb_false_In _ _ _ Ex H).
      * rewrite hits_sym. apply (existsb_false_In _ _ _ Ex H).
    + apply (IH _ He p q); try assumption.
      apply remove_all_keeps; [exact Hp|]. intros H. apply reach_In in H. apply Es, H.
Qed.

Lemma explore_complete U lab cl :
  (forall p q, p < length U -> q < length U -> lab p = lab q -> hits cl (nth p U 0, nth q U 0) = false) ->
  forall fuel todo, (forall p, In p todo -> p < length U) -> length todo <= fuel ->
  explore fuel U lab cl todo = Some true.
Proof.
  intros Hno. induction fuel as [|f IH]; intros todo Hsub Hlen.
  - destruct todo; [reflexivity | simpl in Hlen; lia].
  - destruct todo as [|s t]; [reflexivity|]. cbn [explore].
    destruct (existsb (hits cl) (combos (map (fun node => nth node U 0) (reach (length U) lab s)))) eqn:Ex.
    + exfalso. apply existsb_exists in Ex. destruct Ex as ([i j] & Hin & Hh).
      apply combos_In in Hin. destruct Hin as [Hi Hj].
      apply in_map_iff in Hi. destruct Hi as (p & <- & Hp). apply in_map_iff in Hj. destruct Hj as (q & <- & Hq).
      apply reach_In in Hp. apply reach_In in Hq.
      rewrite (Hno p q) in Hh; [discriminate | tauto | tauto | ]. destruct Hp, Hq. congruence.
    + apply IH.
      * intros p Hp. apply Hsub. eapply remove_all_subset, Hp.
      * assert (Hs : s < length U) by (apply Hsub; left; reflexivity).
        pose proof (remove_all_length_lt (reach (length U) lab s) (s :: t) s
                      (proj2 (reach_In _ _ _ _) (conj Hs eq_refl)) (or_introl eq_refl)) as Hlt.
        unfold remove_all in Hlt. lia.
Qed.

Lemma explore_terminates U lab cl : forall fuel todo, (forall p, In p todo -> p < length U) -> length todo <= fuel ->
  explore fuel U lab cl todo <> None.
Proof.
  induction fuel as [|f IH]; intros todo Hsub Hlen.
  - destruct todo; [discriminate | simpl in Hlen; lia].
  - destruct todo as [|s t]; [discriminate|]. cbn [explore].
    destruct (existsb (hits cl) _); [discriminate|]. apply IH.
    + intros p Hp. apply Hsub. eapply remove_all_subset, Hp.
    + assert (Hs : s < length U) by (apply Hsub; left; reflexivity).
      pose proof (remove_all_length_lt (reach (length U) lab s) (s :: t) s
                    (proj2 (reach_In _ _ _ _) (conj Hs eq_refl)) (or_introl eq_refl)) as Hlt.
      unfold remove_all in Hlt. lia.
Qed.

(* the while loop of _check_structural_constraint always ends (fuel = number of graph nodes suffices) *)
Lemma structural_terminates ml cl : structural ml cl <> None.
Proof.
  unfold structural. apply explore_terminates.
  - intros p Hp. apply in_seq in Hp. lia.
  - rewrite seq_length. lia.
Qed.

(* the structural check passes iff no cannot-link pair (of distinct samples) is connected by must-links *)
Lemma structural_spec ml cl : (forall a b, In (a, b) cl -> a <> b) ->
  (structural ml cl = Some true <-> forall a b, In (a, b) cl -> ~ clos_refl_trans nat (edge ml) a b).
Proof.
  intros Hself. unfold structural. set (U := uniq ml). set (lab := label (pos_edges U ml)).
  assert (HU : NoDup U) by apply dedup_NoDup.
  assert (HUin : forall a b, In (a, b) ml -> In a U /\ In b U) by (intros a b; apply uniq_In).
  split.
  - intros He a b Hab Hc.
    pose proof (Hself a b Hab) as Hne.
    destruct (conn_members ml a b Hc) as [E|[Ha Hb]]; [congruence|]. fold U in Ha, Hb.
    assert (Hh : hits cl (nth (index a U) U 0, nth (index b U) U 0) = false).
    { apply (explore_sound U lab cl HU _ _ He).
      - apply in_seq. pose proof (index_lt a U Ha). lia.
      - apply index_lt, Ha.
      - apply index_lt, Hb.
      - unfold lab. apply label_spec, pos_conn_fwd, conn_sym, Hc.
      - intros E. apply Hne. apply (index_inj a b U Ha Hb E). }
    rewrite !nth_index in Hh by assumption.
    assert (hits cl (a, b) = true) by (apply hits_spec; left; exact Hab). congruence.
  - intros Hspec. apply explore_complete.
    + intros p q Hp Hq El. destruct (hits cl (nth p U 0, nth q U 0)) eqn:Eh; [|reflexivity].
      exfalso. apply hits_spec in Eh.
      assert (Hc : clos_refl_trans nat (edge ml) (nth p U 0) (nth q U 0))
        by (apply pos_conn_bwd; [exact HUin | apply label_spec, El]).
      destruct Eh as [Eh|Eh]; [apply (Hspec _ _ Eh Hc) | apply (Hspec _ _ Eh (conn_sym _ _ _ Hc))].
    + intros p Hp. apply in_seq in Hp. lia.
    + rewrite seq_length. lia.
Qed.

Lemma no_self_spec l : no_self l = true <-> forall a b, In (a, b) l -> a <> b.
Proof.
  unfold no_self. rewrite forallb_forall. split.
  - intros H a b Hab. specialize (H _ Hab). cbn [fst snd] in H. apply negb_true_iff, Nat.eqb_neq in H. exact H.
  - intros H [a b] Hab. cbn [fst snd]. apply negb_true_iff, Nat.eqb_neq, H, Hab.
Qed.

Lemma valid_iff_spec ml cl : valid ml cl = true <->
  (forall a b, In (a, b) ml -> a <> b) /\ (forall a b, In (a, b) cl -> a <> b) /\
  (forall a b, In (a, b) cl -> ~ clos_refl_trans nat (edge ml) a b).
Proof.
  unfold valid. rewrite !andb_true_iff, !no_self_spec.
  split.
  - intros [[H1 H2] H3]. split; [exact H1|]. split; [exact H2|].
    destruct ml as [|p ml]; [|destruct cl as [|c cl]].
    + intros a b Hab Hc. apply (H2 a b Hab), conn_nil, Hc.
    + intros a b [].
    + cbn [nonempty andb] in H3. apply structural_spec; [exact H2|].
      destruct (structural (p :: ml) (c :: cl)) as [[|]|]; [reflexivity | discriminate | discriminate].
  - intros (H1 & H2 & H3). split; [split; assumption|].
    destruct (nonempty ml && nonempty cl); [|reflexivity].
    rewrite (proj2 (structural_spec ml cl H2) H3). reflexivity.
Qed.

(* ------------------------------------------------------------------ shape checks *)
Definition row2 (p : nat * nat) : list nat := [fst p; snd p].
(* a well-shaped python list of index pairs ([] for the empty list) *)
Definition raw_of_pairs (l : list (nat * nat)) : raw := RRows (map row2 l).

(* inputs the property calls malformed: scalars, non-empty flat lists, 2-D inputs with fewer than
   two columns in some row (single-column arrays, [[]]) *)
Definition malformed (r : raw) : Prop :=
  match r with
  | RNone => False
  | RScalar _ => True
  | RFlat l => l <> []
  | RRows rows => exists r, In r rows /\ length r < 2
  end.

Lemma shape_of_pairs l : shape_of (raw_of_pairs l) = match l with [] => ShAbsent | _ => ShPairs 2 l end.
Proof.
  destruct l as [|p l]; [reflexivity|]. unfold raw_of_pairs. cbn [map shape_of row2 length].
  assert (H : forallb (fun r : list nat => length r =? 2) (map row2 l) = true).
  { apply forallb_forall. intros r Hr. apply in_map_iff in Hr. destruct Hr as (q & <- & _). reflexivity. }
  rewrite H. cbn [andb Nat.leb].
  f_equal. change (first2 [fst p; snd p] :: map first2 (map row2 l) = p :: l).
  f_equal; [destruct p; reflexivity|]. rewrite map_map. rewrite <- (map_id l) at 2.
  apply map_ext. intros [a b]. reflexivity.
Qed.

Lemma valid_nil_l cl : valid [] cl = no_self cl.
Proof. unfold valid. cbn [no_self forallb nonempty andb]. apply andb_true_r. Qed.
Lemma valid_nil_r ml : valid ml [] = no_self ml.
Proof. unfold valid. cbn [no_self forallb nonempty]. rewrite andb_false_r, !andb_true_r. reflexivity. Qed.

(* on well-shaped lists of pairs (including empty lists) raw acceptance is [valid] *)
Lemma accept_raw_pairs ml cl : accept_raw (raw_of_pairs ml) (raw_of_pairs cl) = valid ml cl.
Proof.
  unfold accept_raw. rewrite !shape_of_pairs.
  destruct ml as [|p ml], cl as [|c cl]; try reflexivity.
  - symmetry. apply valid_nil_l.
  - symmetry. apply valid_nil_r.
Qed.

(* None behaves like the empty list *)
Lemma accept_raw_none_l cl : accept_raw RNone (raw_of_pairs cl) = valid [] cl.
Proof. unfold accept_raw. rewrite shape_of_pairs, valid_nil_l. destruct cl; reflexivity. Qed.
Lemma accept_raw_none_r ml : accept_raw (raw_of_pairs ml) RNone = valid ml [].
Proof. unfold accept_raw. rewrite shape_of_pairs, valid_nil_r. destruct ml; reflexivity. Qed.

Lemma malformed_reject r : malformed r -> shape_of r = ShReject.
Proof.
  destruct r as [|x|l|rows]; cbn [malformed shape_of]; intros H.
  - destruct H.
  - reflexivity.
  - destruct l; [congruence | reflexivity].
  - destruct H as (r & Hin & Hlen). destruct rows as [|r0 rs]; [destruct Hin|].
    destruct (forallb (fun r1 : list nat => length r1 =? length r0) rs && (2 <=? length r0)) eqn:E; [|reflexivity].
    exfalso. apply andb_true_iff in E. destruct E as [E1 E2]. apply Nat.leb_le in E2.
    destruct Hin as [<-|Hin]; [lia|].
    rewrite forallb_forall in E1. specialize (E1 _ Hin). apply Nat.eqb_eq in E1. lia.
Qed.

Lemma accept_raw_malformed r x : malformed r -> accept_raw r x = false /\ accept_raw x r = false.
Proof.
  intros H. apply malformed_reject in H. unfold accept_raw. rewrite H. split; [reflexivity|].
  destruct (shape_of x); reflexivity.
Qed.

(* ------------------------------------------------------------------ gradient decoration, any number system *)
Section GradsGeneric.
Context {T : Type} (o : NumOps T).

Definition lookup (s : nat) (idx : list nat) (M : list (list T)) : list T := nth (index s idx) M [].

(* a sample is touched when it belongs to a pair whose two samples are both in the batch *)
Definition touched (ml cl : list (nat * nat)) (idx : list nat) (s : nat) : Prop :=
  exists i j, In (i, j) (cl ++ ml) /\ In i idx /\ In j idx /\ (s = i \/ s = j).

Lemma apply_pair_length op f idx Y G pr : length (apply_pair o op f idx Y G pr) = length G.
Proof.
  unfold apply_pair. destruct pr as [i j]. destruct (mem i idx && mem j idx); [|reflexivity].
  rewrite !length_set_nth. reflexivity.
Qed.

Lemma fold_apply_length op f idx Y pairs : forall G,
  length (fold_left (apply_pair o op f idx Y) pairs G) = length G.
Proof. induction pairs as [|pr r IH]; intros G; [reflexivity|]. cbn [fold_left]. rewrite IH. apply apply_pair_length. Qed.

Lemma decorate_length f idx Y ml cl G : length (decorate_grads o f idx Y ml cl G) = length G.
Proof. unfold decorate_grads. rewrite !fold_apply_length. reflexivity. Qed.

Lemma apply_pair_other op f idx Y G i j p d :
  (In i idx -> In j idx -> p <> index i idx /\ p <> index j idx) ->
  nth p (apply_pair o op f idx Y G (i, j)) d = nth p G d.
Proof.
  intros H. unfold apply_pair. destruct (mem i idx && mem j idx) eqn:E; [|reflexivity].
  apply andb_true_iff in E. destruct E as [Ei Ej]. apply mem_In in Ei. apply mem_In in Ej.
  destruct (H Ei Ej) as [H1 H2].
  rewrite nth_set_nth_neq by congruence. rewrite nth_set_nth_neq by congruence. reflexivity.
Qed.

Lemma fold_apply_other op f idx Y p d pairs : forall G,
  (forall i j, In (i, j) pairs -> In i idx -> In j idx -> p <> index i idx /\ p <> index j idx) ->
  nth p (fold_left (apply_pair o op f idx Y) pairs G) d = nth p G d.
Proof.
  induction pairs as [|[i j] r IH]; intros G H; [reflexivity|]. cbn [fold_left].
  rewrite IH by (intros a b Hab; apply H; right; exact Hab).
  apply apply_pair_other. apply H. left. reflexivity.
Qed.

(* rows of samples outside every active pair are returned unchanged (in any number system: bit-identical) *)
Lemma decorate_untouched f idx Y ml cl G p d : p < length idx ->
  ~ touched ml cl idx (nth p idx 0) ->
  nth p (decorate_grads o f idx Y ml cl G) d = nth p G d.
Proof.
  intros Hp Hn. unfold decorate_grads.
  assert (H : forall i j, In (i, j) (cl ++ ml) -> In i idx -> In j idx -> p <> index i idx /\ p <> index j idx).
  { intros i j Hij Hi Hj. split; intros E; apply Hn; exists i, j; repeat split; try assumption.
    - left. rewrite E. apply nth_index, Hi.
    - right. rewrite E. apply nth_index, Hj. }
  rewrite fold_apply_other by (intros i j Hij; apply H, in_or_app; right; exact Hij).
  apply fold_apply_other. intros i j Hij. apply H, in_or_app. left. exact Hij.
Qed.

(* ---- the result attached to each true sample index does not depend on the order of the batch ---- *)
Section Order.
Variables (idx idx' : list nat) (Y Y' : list (list T)).
Hypothesis Hmem : forall s, In s idx <-> In s idx'.
Hypothesis HY : forall s, In s idx -> lookup s idx Y = lookup s idx' Y'.

Definition agree (G G' : list (list T)) : Prop :=
  length G = length idx /\ length G' = length idx' /\ forall s, In s idx -> lookup s idx G = lookup s idx' G'.

Lemma mem_same s : mem s idx = mem s idx'.
Proof.
  destruct (mem s idx) eqn:E1, (mem s idx') eqn:E2; try reflexivity.
  - apply mem_In, Hmem, mem_In in E1. congruence.
  - apply mem_In, Hmem, mem_In in E2. congruence.
Qed.

Lemma set_agree G G' i r : agree G G' -> In i idx ->
  agree (set_nth (index i idx) r G) (set_nth (index i idx') r G').
Proof.
  intros (L1 & L2 & HG) Hi. split; [|split]; try (rewrite length_set_nth; assumption).
  intros s Hs. unfold lookup. destruct (Nat.eq_dec s i) as [->|Hne].
  - rewrite !nth_set_nth_eq; [reflexivity | rewrite L2; apply index_lt, Hmem, Hi | rewrite L1; apply index_lt, Hi].
  - rewrite !nth_set_nth_neq.
    + apply HG, Hs.
    + intros E. apply Hne. symmetry. apply (index_inj i s idx'); [apply Hmem, Hi | apply Hmem, Hs | exact E].
    + intros E. apply Hne. symmetry. apply (index_inj i s idx Hi Hs E).
Qed.

Lemma apply_pair_agree op f G G' pr : agree G G' ->
  agree (apply_pair o op f idx Y G pr) (apply_pair o op f idx' Y' G' pr).
Proof.
  intros HA. unfold apply_pair. destruct pr as [i j]. rewrite <- !mem_same.
  destruct (mem i idx && mem j idx) eqn:E; [|exact HA].
  apply andb_true_iff in E. destruct E as [Ei Ej]. apply mem_In in Ei. apply mem_In in Ej.
  pose proof (HY i Ei) as Yi. pose proof (HY j Ej) as Yj. unfold lookup in Yi, Yj.
  assert (R1 : nth (index i idx) G [] = nth (index i idx') G' []) by (destruct HA as (_ & _ & HG); apply (HG i Ei)).
  rewrite <- Yi, <- Yj, <- R1.
  set (r1 := upd_row o op f (nth (index i idx) G []) (nth (index i idx) Y []) (nth (index j idx) Y [])).
  pose proof (set_agree G G' i r1 HA Ei) as HA1.
  assert (R2 : nth (index j idx) (set_nth (index i idx) r1 G) [] = nth (index j idx') (set_nth (index i idx') r1 G') [])
    by (destruct HA1 as (_ & _ & HG1); apply (HG1 j Ej)).
  rewrite <- R2. apply set_agree; assumption.
Qed.

Lemma fold_apply_agree op f pairs : forall G G', agree G G' ->
  agree (fold_left (apply_pair o op f idx Y) pairs G) (fold_left (apply_pair o op f idx' Y') pairs G').
Proof.
  induction pairs as [|pr r IH]; intros G G' HA; [exact HA|]. cbn [fold_left]. apply IH, apply_pair_agree, HA.
Qed.

Lemma decorate_agree f ml cl G G' : agree G G' ->
  agree (decorate_grads o f idx Y ml cl G) (decorate_grads o f idx' Y' ml cl G').
Proof. intros HA. unfold decorate_grads. apply fold_apply_agree, fold_apply_agree, HA. Qed.
End Order.

(* batch order irrelevance, sample-wise: two presentations of the same batch (same samples, same
   prediction and gradient row attached to each sample) give every sample the same new gradient row *)
Lemma decorate_order_irrelevant f idx idx' Y Y' ml cl G G' :
  (forall s, In s idx <-> In s idx') ->
  length G = length idx -> length G' = length idx' ->
  (forall s, In s idx -> lookup s idx Y = lookup s idx' Y' /\ lookup s idx G = lookup s idx' G') ->
  forall s, In s idx ->
    lookup s idx (decorate_grads o f idx Y ml cl G) = lookup s idx' (decorate_grads o f idx' Y' ml cl G').
Proof.
  intros Hmem L1 L2 H s Hs.
  assert (HA : agree idx idx' G G') by (split; [exact L1 | split; [exact L2 | intros t Ht; apply H, Ht]]).
  pose proof (decorate_agree idx idx' Y Y' Hmem (fun t Ht => proj1 (H t Ht)) f ml cl G G' HA) as (_ & _ & HG).
  apply HG, Hs.
Qed.

(* ---- equivariance under a permutation of the batch ---- *)
Definition permute {A} (d : A) (perm : list nat) (l : list A) : list A := map (fun p => nth p l d) perm.

Lemma map_nth_seq {A} (d : A) l : map (fun p => nth p l d) (seq 0 (length l)) = l.
Proof.
  induction l as [|x r IH]; [reflexivity|]. cbn [length seq map nth]. f_equal.
  rewrite <- seq_shift, map_map. exact IH.
Qed.

Lemma nth_permute {A} (d : A) perm l q : q < length perm -> nth q (permute d perm l) d = nth (nth q perm 0) l d.
Proof.
  intros Hq. unfold permute.
  rewrite (nth_indep _ d (nth 0 l d)) by (rewrite map_length; exact Hq).
  apply (map_nth (fun p => nth p l d) perm 0 q).
Qed.

Lemma decorate_permutation_equivariant f idx Y ml cl G perm :
  NoDup idx -> length Y = length idx -> length G = length idx ->
  Permutation perm (seq 0 (length idx)) ->
  decorate_grads o f (permute 0 perm idx) (permute [] perm Y) ml cl (permute [] perm G)
  = permute [] perm (decorate_grads o f idx Y ml cl G).
Proof.
  intros Hnd LY LG HP.
  set (n := length idx) in *.
  assert (Lp : length perm = n) by (rewrite (Permutation_length HP), seq_length; reflexivity).
  assert (Hlt : forall q, q < n -> nth q perm 0 < n).
  { intros q Hq. assert (Hin : In (nth q perm 0) perm) by (apply nth_In; lia).
    apply (Permutation_in _ HP), in_seq in Hin. lia. }
  assert (Pidx : Permutation (permute 0 perm idx) idx).
  { unfold permute. pose proof (Permutation_map (fun p => nth p idx 0) HP) as H.
    unfold n in H. rewrite map_nth_seq in H. exact H. }
  assert (Hnd' : NoDup (permute 0 perm idx)) by (apply (Permutation_NoDup (Permutation_sym Pidx)), Hnd).
  assert (Lidx' : length (permute 0 perm idx) = n) by (unfold permute; rewrite map_length; exact Lp).
  assert (Hmem : forall s, In s (permute 0 perm idx) <-> In s idx).
  { intros s. split; apply Permutation_in; [exact Pidx | apply Permutation_sym, Pidx]. }
  (* for q < n: sample at position q of the permuted batch, its position in the original batch *)
  assert (Hpos : forall q, q < n ->
            index (nth q (permute 0 perm idx) 0) (permute 0 perm idx) = q /\
            index (nth q (permute 0 perm idx) 0) idx = nth q perm 0).
  { intros q Hq. split.
    - apply index_nth_NoDup; [exact Hnd' | lia].
    - rewrite nth_permute by lia. apply index_nth_NoDup; [exact Hnd | apply Hlt, Hq]. }
  assert (Hrows : forall (M : list (list T)) s, In s (permute 0 perm idx) ->
            lookup s (permute 0 perm idx) (permute [] perm M) = lookup s idx M).
  { intros M s Hs. destruct (In_nth _ _ 0 Hs) as (q & Hq & <-). rewrite Lidx' in Hq.
    destruct (Hpos q Hq) as [E1 E2]. unfold lookup. rewrite E1, E2. apply nth_permute. lia. }
  apply (nth_ext _ _ [] []).
  - rewrite decorate_length. unfold permute. rewrite !map_length. reflexivity.
  - intros q Hq. rewrite decorate_length in Hq. unfold permute in Hq at 1. rewrite map_length, Lp in Hq.
    rewrite nth_permute by lia.
    destruct (Hpos q Hq) as [E1 E2].
    set (s := nth q (permute 0 perm idx) 0) in *.
    assert (Hs : In s (permute 0 perm idx)) by (apply nth_In; lia).
    pose proof (decorate_order_irrelevant f (permute 0 perm idx) idx (permute [] perm Y) Y ml cl (permute [] perm G) G
                  Hmem) as H.
    specialize (H ltac:(unfold permute; rewrite !map_length; reflexivity) LG).
    specialize (H (fun t Ht => conj (Hrows Y t Ht) (Hrows G t Ht)) s Hs).
    unfold lookup in H. rewrite E1, E2 in H. exact H.
Qed.
End GradsGeneric.

(* ------------------------------------------------------------------ row arithmetic *)
Section RowOps.
Context {T : Type} (o : NumOps T).

Lemma upd_row_length op f : forall g yi yj, length yi = length g -> length yj = length g ->
  length (upd_row o op f g yi yj) = length g.
Proof.
  induction g as [|x g IH]; intros [|a yi] [|b yj] H1 H2; cbn [length] in *; try lia; cbn [upd_row length]; [reflexivity|].
  rewrite IH by lia. reflexivity.
Qed.

Lemma upd_row_nth op f d : forall g yi yj k, length yi = length g -> length yj = length g -> k < length g ->
  nth k (upd_row o op f g yi yj) d = op (nth k g d) (nmul o f (nsub o (nth k yi d) (nth k yj d))).
Proof.
  induction g as [|x g IH]; intros [|a yi] [|b yj] k H1 H2 Hk; cbn [length] in *; try lia.
  destruct k as [|k]; cbn [upd_row nth]; [reflexivity|]. apply IH; lia.
Qed.
End RowOps.

Lemma Forall_set_nth {A} (P : A -> Prop) x : forall l n, Forall P l -> P x -> Forall P (set_nth n x l).
Proof.
  induction l as [|y r IH]; intros n Hl Hx; [destruct n; constructor|]. inversion Hl; subst.
  destruct n as [|n]; cbn [set_nth]; constructor; try assumption. apply IH; assumption.
Qed.

(* ------------------------------------------------------------------ gradient decoration over the reals *)
From Coq Require Import Reals Lra.
From GV Require Import Common.NumR.

Section GradsR.
Local Open Scope R_scope.

(* n rows of K columns *)
Definition wf (n K : nat) (M : list (list R)) : Prop := length M = n /\ Forall (fun r => length r = K) M.
(* entry (p, k) *)
Definition ent (M : list (list R)) (p k : nat) : R := nth k (nth p M []) 0.

(* what one pair (i, j) contributes to entry (p, k): factor * (y_i - y_j) on the row of i, the
   opposite on the row of j, provided both samples are in the batch *)
Definition contrib (f : R) (idx : list nat) (Y : list (list R)) (pr : nat * nat) (p k : nat) : R :=
  let (i, j) := pr in
  if mem i idx && mem j idx then
    (if (p =? index i idx)%nat then f * (ent Y (index i idx) k - ent Y (index j idx) k) else 0) +
    (if (p =? index j idx)%nat then f * (ent Y (index j idx) k - ent Y (index i idx) k) else 0)
  else 0.
Definition csum (f : R) idx Y (pairs : list (nat * nat)) (p k : nat) : R :=
  fold_right (fun pr acc => contrib f idx Y pr p k + acc) 0 pairs.

Lemma wf_nth n K M p : wf n K M -> (p < n)%nat -> length (nth p M []) = K.
Proof. intros [L F] Hp. rewrite Forall_forall in F. apply F, nth_In. lia. Qed.

Lemma wf_set n K M p r : wf n K M -> length r = K -> wf n K (set_nth p r M).
Proof. intros [L F] Hr. split; [rewrite length_set_nth; exact L | apply Forall_set_nth; assumption]. Qed.

Lemma apply_pair_ent op sgn f idx Y G pr n K :
  (forall x y, op x y = x + sgn * y) -> length idx = n -> wf n K Y -> wf n K G ->
  wf n K (apply_pair Rops op f idx Y G pr) /\
  forall p k, (p < n)%nat -> (k < K)%nat ->
    ent (apply_pair Rops op f idx Y G pr) p k = ent G p k + sgn * contrib f idx Y pr p k.
Proof.
  intros Hop Ln WY WG. unfold apply_pair, contrib. destruct pr as [i j].
  destruct (mem i idx && mem j idx) eqn:E; [|split; [exact WG | intros; lra]].
  apply andb_true_iff in E. destruct E as [Ei Ej]. apply mem_In in Ei. apply mem_In in Ej.
  set (a := index i idx). set (b := index j idx).
  assert (Ha : (a < n)%nat) by (rewrite <- Ln; apply index_lt, Ei).
  assert (Hb : (b < n)%nat) by (rewrite <- Ln; apply index_lt, Ej).
  pose proof (wf_nth n K Y a WY Ha) as LYa. pose proof (wf_nth n K Y b WY Hb) as LYb.
  pose proof (wf_nth n K G a WG Ha) as LGa.
  set (r1 := upd_row Rops op f (nth a G []) (nth a Y []) (nth b Y [])).
  assert (Lr1 : length r1 = K) by (unfold r1; rewrite upd_row_length; congruence).
  set (G1 := set_nth a r1 G).
  assert (WG1 : wf n K G1) by (apply wf_set; assumption).
  pose proof (wf_nth n K G1 b WG1 Hb) as LG1b.
  set (r2 := upd_row Rops op f (nth b G1 []) (nth b Y []) (nth a Y [])).
  assert (Lr2 : length r2 = K) by (unfold r2; rewrite upd_row_length; congruence).
  split; [apply wf_set; assumption|].
  intros p k Hp Hk. unfold ent.
  assert (N1 : forall q, (q < n)%nat -> nth k (nth q G1 []) 0 =
             if (q =? a)%nat then nth k (nth a G []) 0 + sgn * (f * (nth k (nth a Y []) 0 - nth k (nth b Y []) 0))
             else nth k (nth q G []) 0).
  { intros q Hq. unfold G1. destruct (q =? a)%nat eqn:Eq.
    - apply Nat.eqb_eq in Eq. subst q. rewrite nth_set_nth_eq by (destruct WG; lia).
      unfold r1. rewrite upd_row_nth by (try congruence; lia). rewrite Hop. reflexivity.
    - apply Nat.eqb_neq in Eq. rewrite nth_set_nth_neq by congruence. reflexivity. }
  destruct (p =? b)%nat eqn:Epb.
  - apply Nat.eqb_eq in Epb. subst p. rewrite nth_set_nth_eq by (destruct WG1; lia).
    unfold r2. rewrite upd_row_nth by (try congruence; lia). rewrite Hop. rewrite (N1 b Hb).
    cbn [nmul nsub Rops]. destruct (b =? a)%nat eqn:Eba.
    + apply Nat.eqb_eq in Eba. rewrite Eba. lra.
    + lra.
  - apply Nat.eqb_neq in Epb. rewrite nth_set_nth_neq by congruence. rewrite (N1 p Hp).
    cbn [nmul nsub Rops]. destruct (p =? a)%nat eqn:Epa; [apply Nat.eqb_eq in Epa; rewrite Epa|]; lra.
Qed.

Lemma fold_apply_ent op sgn f idx Y n K pairs :
  (forall x y, op x y = x + sgn * y) -> length idx = n -> wf n K Y -> forall G, wf n K G ->
  wf n K (fold_left (apply_pair Rops op f idx Y) pairs G) /\
  forall p k, (p < n)%nat -> (k < K)%nat ->
    ent (fold_left (apply_pair Rops op f idx Y) pairs G) p k = ent G p k + sgn * csum f idx Y pairs p k.
Proof.
  intros Hop Ln WY. induction pairs as [|pr r IH]; intros G WG.
  - split; [exact WG|]. intros. cbn [fold_left csum fold_right]. lra.
  - cbn [fold_left]. destruct (apply_pair_ent op sgn f idx Y G pr n K Hop Ln WY WG) as [W1 E1].
    destruct (IH _ W1) as [W2 E2]. split; [exact W2|]. intros p k Hp Hk.
    rewrite E2, E1 by assumption. cbn [csum fold_right]. fold (csum f idx Y r p k). lra.
Qed.

(* closed form of the injected gradient: every entry of the gradient handed to the wrapped
   _compute_grads is the incoming entry plus the cannot-link contributions minus the must-link ones *)
Lemma decorate_ent f idx Y ml cl G n K : length idx = n -> wf n K Y -> wf n K G ->
  wf n K (decorate_grads Rops f idx Y ml cl G) /\
  forall p k, (p < n)%nat -> (k < K)%nat ->
    ent (decorate_grads Rops f idx Y ml cl G) p k
    = ent G p k + csum f idx Y cl p k - csum f idx Y ml p k.
Proof.
  intros Ln WY WG. unfold decorate_grads.
  destruct (fold_apply_ent Rplus 1 f idx Y n K cl ltac:(intros; cbn [nadd Rops]; lra) Ln WY G WG) as [W1 E1].
  destruct (fold_apply_ent Rminus (-1) f idx Y n K ml ltac:(intros; cbn [nsub Rops]; lra) Ln WY _ W1) as [W2 E2].
  split; [exact W2|]. intros p k Hp Hk. cbn [nadd nsub Rops]. rewrite E2, E1 by assumption. lra.
Qed.

Lemma contrib_single f idx Y i j k : In i idx -> In j idx -> i <> j ->
  contrib f idx Y (i, j) (index i idx) k = f * (ent Y (index i idx) k - ent Y (index j idx) k) /\
  contrib f idx Y (i, j) (index j idx) k = f * (ent Y (index j idx) k - ent Y (index i idx) k).
Proof.
  intros Hi Hj Hne. unfold contrib.
  rewrite (proj2 (mem_In i idx) Hi), (proj2 (mem_In j idx) Hj). cbn [andb].
  rewrite !Nat.eqb_refl.
  assert (E1 : (index i idx =? index j idx)%nat = false)
    by (apply Nat.eqb_neq; intros E; apply Hne, (index_inj i j idx Hi Hj E)).
  assert (E2 : (index j idx =? index i idx)%nat = false) by (rewrite Nat.eqb_sym; exact E1).
  rewrite E1, E2. split; lra.
Qed.

(* one must-link pair in the batch: row(i) receives -factor*(y_i - y_j), row(j) the opposite *)
Lemma decorate_single_ml f idx Y G n K i j k : length idx = n -> wf n K Y -> wf n K G ->
  In i idx -> In j idx -> i <> j -> (k < K)%nat ->
  ent (decorate_grads Rops f idx Y [(i, j)] [] G) (index i idx) k
    = ent G (index i idx) k + - (f * (ent Y (index i idx) k - ent Y (index j idx) k)) /\
  ent (decorate_grads Rops f idx Y [(i, j)] [] G) (index j idx) k
    = ent G (index j idx) k + (f * (ent Y (index i idx) k - ent Y (index j idx) k)).
Proof.
  intros Ln WY WG Hi Hj Hne Hk.
  destruct (decorate_ent f idx Y [(i, j)] [] G n K Ln WY WG) as [_ E].
  destruct (contrib_single f idx Y i j k Hi Hj Hne) as [C1 C2].
  rewrite !E by (try exact Hk; rewrite <- Ln; apply index_lt; assumption).
  cbn [csum fold_right]. rewrite C1, C2. split; lra.
Qed.

(* one cannot-link pair in the batch: row(i) receives +factor*(y_i - y_j), row(j) the opposite *)
Lemma decorate_single_cl f idx Y G n K i j k : length idx = n -> wf n K Y -> wf n K G ->
  In i idx -> In j idx -> i <> j -> (k < K)%nat ->
  ent (decorate_grads Rops f idx Y [] [(i, j)] G) (index i idx) k
    = ent G (index i idx) k + (f * (ent Y (index i idx) k - ent Y (index j idx) k)) /\
  ent (decorate_grads Rops f idx Y [] [(i, j)] G) (index j idx) k
    = ent G (index j idx) k + - (f * (ent Y (index i idx) k - ent Y (index j idx) k)).
Proof.
  intros Ln WY WG Hi Hj Hne Hk.
  destruct (decorate_ent f idx Y [] [(i, j)] G n K Ln WY WG) as [_ E].
  destruct (contrib_single f idx Y i j k Hi Hj Hne) as [C1 C2].
  rewrite !E by (try exact Hk; rewrite <- Ln; apply index_lt; assumption).
  cbn [csum fold_right]. rewrite C1, C2. split; lra.
Qed.

(* a pair with a sample outside the batch contributes nothing anywhere *)
Lemma contrib_outside f idx Y i j p k : ~ (In i idx /\ In j idx) -> contrib f idx Y (i, j) p k = 0.
Proof.
  intros H. unfold contrib. destruct (mem i idx && mem j idx) eqn:E; [|reflexivity].
  exfalso. apply H. apply andb_true_iff in E. destruct E as [E1 E2]. split; apply mem_In; assumption.
Qed.
End GradsR.
