(* Static tie between the hand-written Douglas model (Model/Douglas.v) and the source: Gen/DouglasRules.v is
   regenerated on every build by translator/tr_douglas.py from the AST of gemclus/tree/douglas.py
   (_leaf_binning, _merge_leaf, _infer, _init_params, find_active_points).
   Part 1: every generated definition equals the hand-written model, for ALL number systems (any NumOps T)
           and all inputs.  If one of these stops compiling, the code and the model no longer compute the
           same thing (a changed comparison, bound, sign, index, order of the Kronecker product ...).
   Part 2: golden copies of the regenerated definitions (what the code said when the proofs were written).
   Part 3: the C15 theorems restated on the regenerated definitions (instance Rops). *)
From Coq Require Import Reals Lra Lia List Bool Arith Sorted Permutation.
From Coquelicot Require Import Coquelicot.
From GV Require Import Common.Num Common.NumR Model.Forward Model.Douglas Gen.DouglasRules Proofs.RSumLib Proofs.Douglas.
Import ListNotations.

(* ---------------------------------------------------------------------------------------------------- *)
(* Part 1: generated = model, all NumOps *)
Section GenEq.
Context {T : Type} (o : NumOps T).

(* cut_points[np.argsort(cut_points)] = the sorted cut points *)
Lemma insert_p_snd_gen x l : map snd (insert_p o x l) = insert o (snd x) (map snd l).
Proof.
  induction l as [|h t IH]; [reflexivity|]. cbn [insert_p insert map].
  destruct (nleb o (snd x) (snd h)); [reflexivity|]. cbn [map]. rewrite IH. reflexivity.
Qed.
Lemma sort_pairs_snd_gen l : map snd (sort_pairs o l) = sort_cuts o (map snd l).
Proof. induction l as [|x l IH]; [reflexivity|]. cbn [sort_pairs sort_cuts map]. rewrite insert_p_snd_gen, IH. reflexivity. Qed.
Lemma combine_seq_snd (l : list T) : forall s, map snd (combine (seq s (length l)) l) = l.
Proof. induction l as [|a l IH]; intros s; [reflexivity|]. cbn [length seq combine map snd]. rewrite IH. reflexivity. Qed.
Lemma argsort_pairs_sorted_gen cuts : map snd (argsort_pairs o cuts) = sort_cuts o cuts.
Proof. unfold argsort_pairs. rewrite sort_pairs_snd_gen, combine_seq_snd. reflexivity. Qed.
Lemma insert_p_forall (P : nat * T -> Prop) x l : P x -> List.Forall P l -> List.Forall P (insert_p o x l).
Proof.
  intros Hx Hl. induction Hl as [|h t Hh Ht IH]; cbn [insert_p]; [repeat constructor; exact Hx|].
  destruct (nleb o (snd x) (snd h)); repeat constructor; assumption.
Qed.
Lemma sort_pairs_forall (P : nat * T -> Prop) l : List.Forall P l -> List.Forall P (sort_pairs o l).
Proof. induction 1 as [|x l Hx Hl IH]; cbn [sort_pairs]; [constructor | apply insert_p_forall; assumption]. Qed.
Lemma combine_seq_ok (d : T) (l : list T) : forall pre,
  List.Forall (fun p => nth (fst p) (pre ++ l) d = snd p) (combine (seq (length pre) (length l)) l).
Proof.
  induction l as [|a l IH]; intros pre; [constructor|]. cbn [length seq combine]. constructor.
  - cbn [fst snd]. apply nth_middle.
  - specialize (IH (pre ++ [a])). rewrite <- app_assoc, app_length in IH. cbn [length app] in IH.
    rewrite Nat.add_1_r in IH. exact IH.
Qed.
Lemma take_argsort cuts : np_take o cuts (np_argsort o cuts) = sort_cuts o cuts.
Proof.
  unfold np_take, np_argsort, argsort. rewrite map_map, <- argsort_pairs_sorted_gen. apply map_ext_in.
  intros p Hp. pose proof (sort_pairs_forall _ _ (combine_seq_ok (n0 o) cuts [])) as H.
  rewrite Forall_forall in H. exact (H p Hp).
Qed.

(* np.cumsum(concatenate([zeros(1), -sorted])) = the cumulative bias *)
Lemma cumsum_from_bias s : forall acc, cumsum_from o acc (map (fun e_ => nneg o e_) s) = cumbias o acc s.
Proof. induction s as [|c r IH]; intros acc; [reflexivity|]. cbn [map cumsum_from cumbias]. rewrite IH. reflexivity. Qed.

(* X @ W + b with W = 1..n+1 = the bin logits *)
Lemma zip_logits x bs : forall s m, (length bs <= m)%nat ->
  zip_with (nadd o) (map (fun e_ => nmul o x e_) (map (fun j => nofnat o (S j)) (seq s m))) bs = logits_from o s x bs.
Proof.
  induction bs as [|b r IH]; intros s m Hm.
  - cbn [logits_from]. destruct (map _ _); reflexivity.
  - destruct m as [|m]; [simpl in Hm; lia|]. cbn [seq map zip_with logits_from]. rewrite IH by (simpl in Hm; lia). reflexivity.
Qed.

Lemma gen_leaf_binning_logits_eq temp x cuts : gen_leaf_binning_logits o temp x cuts = bin_logits o x cuts.
Proof.
  unfold gen_leaf_binning_logits. cbv zeta. rewrite take_argsort.
  cbn [np_zeros repeat concat app]. rewrite app_nil_r. cbn [np_cumsum]. rewrite cumsum_from_bias.
  unfold bin_logits, bias, np_linspace_unit. apply (zip_logits x (cumbias o (n0 o) (sort_cuts o cuts)) 0 (length cuts + 1)).
  rewrite cumbias_length_gen, sort_cuts_length_gen. lia.
Qed.
Lemma gen_leaf_binning_eq temp x cuts : gen_leaf_binning o temp x cuts = (bins o temp x cuts, argsort o cuts).
Proof.
  change (gen_leaf_binning o temp x cuts)
    with (sk_softmax o (map (fun e_ => ndiv o e_ temp) (gen_leaf_binning_logits o temp x cuts)), np_argsort o cuts).
  rewrite gen_leaf_binning_logits_eq. reflexivity.
Qed.

(* einsum + reshape = the row-major Kronecker product *)
Lemma gen_merge_leaf_eq a b : gen_merge_leaf o a b = merge o a b.
Proof. unfold gen_merge_leaf, merge. symmetry. apply flat_map_concat_map. Qed.

Lemma fold_left_ext {A B : Type} (f g : A -> B -> A) : (forall a b, f a b = g a b) ->
  forall l a, fold_left f l a = fold_left g l a.
Proof. intros H. induction l as [|b l IH]; intros a; [reflexivity|]. cbn [fold_left]. rewrite H. apply IH. Qed.
Lemma py_reduce_merge bs : py_reduce (gen_merge_leaf o) bs = leaf_of_bins o bs.
Proof. destruct bs as [|b r]; [reflexivity|]. cbn [py_reduce leaf_of_bins]. f_equal. apply fold_left_ext, gen_merge_leaf_eq. Qed.
Lemma gen_all_bins temp cpl x :
  map (fun x0 => fst x0) (map (fun z : nat * list T => gen_leaf_binning o temp (x (fst z)) (snd z)) cpl) = all_bins o temp cpl x.
Proof. rewrite map_map. unfold all_bins. apply map_ext. intros z. rewrite gen_leaf_binning_eq. reflexivity. Qed.
Lemma gen_all_orders temp cpl x :
  map (fun x0 => snd x0) (map (fun z : nat * list T => gen_leaf_binning o temp (x (fst z)) (snd z)) cpl) = map (fun fc => argsort o (snd fc)) cpl.
Proof. rewrite map_map. apply map_ext. intros z. rewrite gen_leaf_binning_eq. reflexivity. Qed.
Lemma gen_infer_row_eq temp cpl K S x : gen_infer_row o temp cpl K S x = infer_row o temp cpl K S x.
Proof.
  unfold gen_infer_row. cbv zeta. rewrite gen_all_bins, py_reduce_merge. unfold infer_row, leaf.
  destruct (leaf_of_bins o (all_bins o temp cpl x)); reflexivity.
Qed.
Lemma gen_infer_state_eq temp cpl K S x : gen_infer_state o temp cpl K S x =
  option_map (fun lf => (lf, map (fun fc => argsort o (snd fc)) cpl, all_bins o temp cpl x)) (leaf o temp cpl x).
Proof.
  unfold gen_infer_state. cbv zeta. rewrite gen_all_bins, gen_all_orders, py_reduce_merge. unfold leaf.
  destruct (leaf_of_bins o (all_bins o temp cpl x)); reflexivity.
Qed.

(* _init_params *)
Lemma gen_init_params_eq d n_cuts K mask (draw : nat -> list T) :
  gen_init_params d n_cuts K mask draw = option_map (fun cpl => (cpl, n_cuts, (num_leaf n_cuts cpl, K))) (init_cuts d mask draw).
Proof.
  unfold gen_init_params, init_cuts, used_features, num_leaf, py_comp_draw, np_any. destruct mask as [m|]; cbv zeta.
  - destruct (length m =? d)%nat; cbn [negb option_map]; [|reflexivity].
    destruct (existsb (fun b : bool => b) m); cbn [negb option_map]; [|reflexivity].
    rewrite map_id, Nat.add_1_r. reflexivity.
  - cbn [option_map]. rewrite map_id, Nat.add_1_r. rewrite combine_length, map_length, !seq_length, Nat.min_id. reflexivity.
Qed.

(* find_active_points *)
Lemma existsb_zip (f g : T -> bool) l :
  existsb (fun b : bool => b) (zip_with andb (map f l) (map g l)) = existsb (fun c => f c && g c) l.
Proof. induction l as [|c l IH]; [reflexivity|]. cbn [map zip_with existsb]. rewrite IH. reflexivity. Qed.
Lemma forallb_map {A B : Type} (p : B -> bool) (f : A -> B) l : forallb p (map f l) = forallb (fun a => p (f a)) l.
Proof. induction l as [|a l IH]; [reflexivity|]. cbn [map forallb]. rewrite IH. reflexivity. Qed.
Lemma gen_find_active_points_eq nrows ncols X cpl :
  gen_find_active_points o nrows ncols X cpl = find_active_points o nrows ncols X cpl.
Proof.
  unfold gen_find_active_points, find_active_points, sk_check_array_rejects, np_columns_ok.
  destruct ((nrows =? 0) || (ncols =? 0))%nat; [reflexivity|].
  change (map (fun it_ : nat * list T => fst it_) cpl) with (map fst cpl).
  destruct (py_max_nat (map fst cpl)) as [mx|]; [|reflexivity].
  change (Nat.leb ncols mx) with (ncols <=? mx)%nat. destruct (ncols <=? mx)%nat; [reflexivity|].
  cbv zeta. change (map (fun it_ : nat * list T => fst it_) cpl) with (map fst cpl). rewrite forallb_map.
  destruct (forallb (fun a : nat * list T => (fst a <? ncols)%nat) cpl); [|reflexivity].
  f_equal. change (fun it_ : nat * list T => fst it_) with (@fst nat (list T)). f_equal.
  apply filter_ext. intros fc. unfold active_feature, np_any, np_min, np_max. cbv zeta. apply existsb_zip.
Qed.
End GenEq.

(* ---------------------------------------------------------------------------------------------------- *)
(* Part 2: golden copies — the regenerated definitions as they were when these proofs were written; compared
   by conversion in Props/C15.v (C15_regenerated_rules_are_documented), so any drift of the translated source
   is visible as a failing obligation even where it would not change the model's value *)
Section Golden.
Context {T : Type} (o : NumOps T).
Definition golden_leaf_binning (temperature x : T) (cut_points : list T) : list T * list nat :=
  let n := length cut_points in
  let W := np_linspace_unit o 1 (n + 1) in
  let order := np_argsort o cut_points in
  let sorted_cut_points := np_take o cut_points order in
  let b := np_cumsum o (concat [np_zeros o 1; map (fun c => nneg o c) sorted_cut_points]) in
  let logits := zip_with (nadd o) (map (fun w => nmul o x w) W) b in
  (sk_softmax o (map (fun l => ndiv o l temperature) logits), order).
Definition golden_merge_leaf (a b : list T) : list T := concat (map (fun aj => map (fun bk => nmul o aj bk) b) a).
Definition golden_infer_row (temperature : T) (cpl : list (nat * list T)) (K : nat) (S : nat -> nat -> T) (x : nat -> T) : option (nat -> T) :=
  match py_reduce (gen_merge_leaf o) (map (fun r => fst r) (map (fun z => gen_leaf_binning o temperature (x (fst z)) (snd z)) cpl)) with
  | None => None
  | Some leaf => Some (sk_softmax_fn o K (np_vecmat o leaf S))
  end.
Definition golden_infer_state (temperature : T) (cpl : list (nat * list T)) (K : nat) (S : nat -> nat -> T) (x : nat -> T)
  : option (list T * list (list nat) * list (list T)) :=
  let res := map (fun z => gen_leaf_binning o temperature (x (fst z)) (snd z)) cpl in
  match py_reduce (gen_merge_leaf o) (map (fun r => fst r) res) with
  | None => None
  | Some leaf => Some (leaf, map (fun r => snd r) res, map (fun r => fst r) res)
  end.
Definition golden_init_params (d n_cuts n_clusters : nat) (mask : option (list bool)) (draw : nat -> list T)
  : option (list (nat * list T) * nat * (nat * nat)) :=
  match mask with
  | None => let cpl := py_comp_draw (map (fun i => i) (seq 0 d)) draw in Some (cpl, n_cuts, (Nat.pow (n_cuts + 1) d, n_clusters))
  | Some m =>
      if negb (Nat.eqb (length m) d) then None else
      if negb (np_any m) then None else
      let cpl := py_comp_draw (map (fun i => i) (filter (fun i => nth i m false) (seq 0 d))) draw in
      Some (cpl, n_cuts, (Nat.pow (n_cuts + 1) (length cpl), n_clusters))
  end.
Definition golden_find_active_points (nrows ncols : nat) (X : nat -> nat -> T) (cpl : list (nat * list T)) : fap_result :=
  if sk_check_array_rejects nrows ncols then FapValueError else
  match py_max_nat (map (fun it => fst it) cpl) with
  | None => FapValueError
  | Some mx =>
    if Nat.leb ncols mx then FapValueError else
    if np_columns_ok ncols (map (fun it => fst it) cpl) then
      FapOk (map (fun it => fst it)
        (filter (fun it => let feature := fun r => X r (fst it) in
                           np_any (zip_with andb (map (fun c => nltb o (np_min o nrows feature) c) (snd it))
                                                 (map (fun c => nltb o c (np_max o nrows feature)) (snd it)))) cpl))
    else FapIndexError
  end.
End Golden.

(* ---------------------------------------------------------------------------------------------------- *)
(* Part 3: the C15 theorems on the regenerated definitions (Rops) *)
Open Scope R_scope.
Definition gbins (temp x : R) (cuts : list R) : list R := fst (gen_leaf_binning Rops temp x cuts).
Definition gorder (temp x : R) (cuts : list R) : list nat := snd (gen_leaf_binning Rops temp x cuts).
Definition glogits (x : R) (cuts : list R) : list R := gen_leaf_binning_logits Rops 1 x cuts.
Lemma gbins_eq temp x cuts : gbins temp x cuts = bins Rops temp x cuts.
Proof. unfold gbins. rewrite gen_leaf_binning_eq. reflexivity. Qed.
Lemma gorder_eq temp x cuts : gorder temp x cuts = argsort Rops cuts.
Proof. unfold gorder. rewrite gen_leaf_binning_eq. reflexivity. Qed.
Lemma glogits_eq x cuts : glogits x cuts = bin_logits Rops x cuts.
Proof. apply gen_leaf_binning_logits_eq. Qed.
(* the value of the local variable `logits` does not depend on the temperature *)
Lemma glogits_any_temp temp x cuts : gen_leaf_binning_logits Rops temp x cuts = glogits x cuts.
Proof. unfold glogits. rewrite !gen_leaf_binning_logits_eq. reflexivity. Qed.

(* _leaf_binning: cut_points[order] is sorted and a permutation of the cut points *)
Lemma g_sorted_cuts temp x (cuts : list R) :
  let s := map (fun i => nth i cuts 0) (gorder temp x cuts) in Permutation s cuts /\ StronglySorted Rle s.
Proof.
  cbv zeta. rewrite gorder_eq. change (map (fun i => nth i cuts 0) (argsort Rops cuts)) with (np_take Rops cuts (np_argsort Rops cuts)).
  rewrite take_argsort. split; [apply sort_cuts_perm | apply sort_cuts_sorted].
Qed.
Lemma g_bins_simplex temp x cuts :
  length (gbins temp x cuts) = S (length cuts) /\ List.Forall (fun v => 0 < v) (gbins temp x cuts) /\ lsumR (gbins temp x cuts) = 1.
Proof. rewrite gbins_eq. apply bins_simplex. Qed.
Lemma g_argmax cuts x : (forall c, In c cuts -> c <> x) ->
  length (glogits x cuts) = S (length cuts) /\ (count_below x cuts <= length cuts)%nat /\
  (forall j, (j <= length cuts)%nat -> j <> count_below x cuts -> nth j (glogits x cuts) 0 < nth (count_below x cuts) (glogits x cuts) 0) /\
  (forall temp, 0 < temp -> forall j, (j <= length cuts)%nat -> j <> count_below x cuts ->
     nth j (gbins temp x cuts) 0 < nth (count_below x cuts) (gbins temp x cuts) 0).
Proof.
  intros H. rewrite glogits_eq. destruct (argmax_logit cuts x H) as (A & B & C). split; [exact A|]. split; [exact B|]. split; [exact C|].
  intros temp HT j Hj Hne. rewrite gbins_eq. apply argmax_membership; assumption.
Qed.
Lemma g_membership_bound cuts x temp g : 0 < temp -> 0 < g -> (forall c, In c cuts -> g <= Rabs (x - c)) ->
  1 / (1 + INR (length cuts) * exp (- g / temp)) <= nth (count_below x cuts) (gbins temp x cuts) 0 /\
  1 - INR (length cuts) * (temp / g) <= nth (count_below x cuts) (gbins temp x cuts) 0 <= 1.
Proof. intros HT Hg H. rewrite gbins_eq. exact (conj (membership_bound cuts x temp g HT Hg H) (membership_rate cuts x temp g HT Hg H)). Qed.
Lemma g_membership_limit cuts x : (forall c, In c cuts -> c <> x) ->
  filterlim (fun temp : R => nth (count_below x cuts) (gbins temp x cuts) 0) (at_right 0) (locally 1).
Proof.
  intros H. apply (filterlim_ext (fun temp : R => nth (count_below x cuts) (bins Rops temp x cuts) 0)).
  - intros temp. rewrite gbins_eq. reflexivity.
  - apply membership_limit. exact H.
Qed.

(* _merge_leaf / _infer *)
Lemma g_merge_simplex a b : prob_vec a -> prob_vec b -> prob_vec (gen_merge_leaf Rops a b).
Proof.
  intros [Ha1 Ha2] [Hb1 Hb2]. rewrite gen_merge_leaf_eq. split; [apply merge_pos; assumption | rewrite merge_sum, Ha2, Hb2; lra].
Qed.
Lemma g_merge_kronecker (a b : list R) j k : (j < length a)%nat -> (k < length b)%nat ->
  length (gen_merge_leaf Rops a b) = (length a * length b)%nat /\
  nth (j * length b + k) (gen_merge_leaf Rops a b) 0 = nth j a 0 * nth k b 0.
Proof. intros Hj Hk. rewrite gen_merge_leaf_eq. split; [apply merge_length | apply merge_nth; assumption]. Qed.
Definition gleaf (temp : R) cpl (x : nat -> R) : option (list R) :=
  option_map (fun st => fst (fst st)) (gen_infer_state Rops temp cpl 0 (fun _ _ => 0) x).
Lemma gleaf_eq temp cpl x : gleaf temp cpl x = leaf Rops temp cpl x.
Proof. unfold gleaf. rewrite gen_infer_state_eq. destruct (leaf Rops temp cpl x); reflexivity. Qed.
Lemma g_leaf_simplex temp cpl x lf : gleaf temp cpl x = Some lf -> prob_vec lf.
Proof. rewrite gleaf_eq. apply leaf_simplex. Qed.

Lemma g_masked_feature_inert (T : Type) (o : NumOps T) d (mask : list bool) (cpl : list (nat * list T)) temp K S (x x' : nat -> T) :
  used_features d (Some mask) = Some (map fst cpl) ->
  (forall f, (f < d)%nat -> nth f mask false = true -> x f = x' f) ->
  gen_infer_row o temp cpl K S x = gen_infer_row o temp cpl K S x'.
Proof.
  intros Hu H. rewrite !gen_infer_row_eq. apply infer_row_agree. intros f Hf.
  destruct (used_features_mask _ _ _ Hu) as [_ Hm]. apply Hm in Hf. destruct Hf as [A B]. apply H; assumption.
Qed.

(* _init_params: which features get cut points, sizes, leaf count *)
Lemma g_init_params (T : Type) d n_cuts K (mask : option (list bool)) (draw : nat -> list T) cpl sz shape :
  gen_init_params d n_cuts K mask draw = Some (cpl, sz, shape) -> (forall j, length (draw j) = n_cuts) ->
  sz = n_cuts /\ shape = ((S n_cuts ^ n_used d mask)%nat, K) /\ length cpl = n_used d mask /\
  List.Forall (fun fc => length (snd fc) = n_cuts) cpl /\
  match mask with
  | None => map fst cpl = seq 0 d
  | Some m => (length m = d /\ forall f, In f (map fst cpl) <-> (f < d)%nat /\ nth f m false = true) /\ cpl <> []
  end.
Proof.
  intros E Hd. rewrite gen_init_params_eq in E. destruct (init_cuts d mask draw) as [cpl'|] eqn:Hi; [|discriminate].
  cbn [option_map] in E. injection E as <- <- <-.
  pose proof (init_cuts_features d mask draw cpl' Hi) as Hu.
  pose proof (used_features_count d mask _ Hu) as Hc. rewrite map_length in Hc.
  split; [reflexivity|]. split; [unfold num_leaf; rewrite Hc; reflexivity|]. split; [exact Hc|].
  split; [exact (init_cuts_sizes d mask draw cpl' n_cuts Hi Hd)|].
  destruct mask as [m|]; [| cbn in Hu; congruence]. split; [exact (used_features_mask d m _ Hu)|].
  intros En. subst cpl'. exact (used_features_nonempty d m _ Hu eq_refl).
Qed.
Lemma g_init_params_rejects (T : Type) d n_cuts K (m : list bool) (draw : nat -> list T) :
  gen_init_params d n_cuts K (Some m) draw = None <-> length m <> d \/ (forall b, In b m -> b = false).
Proof.
  rewrite gen_init_params_eq. unfold init_cuts, used_features. destruct (length m =? d)%nat eqn:E.
  - apply Nat.eqb_eq in E. destruct (existsb (fun b : bool => b) m) eqn:Ex; cbn [option_map].
    + split; [discriminate|]. intros [H|H]; [contradiction|]. apply existsb_exists in Ex. destruct Ex as (b & Hb & ->).
      specialize (H true Hb). discriminate.
    + split; [|reflexivity]. intros _. right. intros b Hb. destruct b; [|reflexivity].
      assert (existsb (fun b : bool => b) m = true) by (apply existsb_exists; exists true; split; [exact Hb | reflexivity]). congruence.
  - apply Nat.eqb_neq in E. cbn [option_map]. split; [intros _; left; exact E | reflexivity].
Qed.

(* leaf count on the regenerated _infer *)
Lemma g_leaf_count (T : Type) (o : NumOps T) d mask (draw : nat -> list T) n_cuts K cpl sz shape temp S x :
  gen_init_params d n_cuts K mask draw = Some (cpl, sz, shape) -> (forall j, length (draw j) = n_cuts) ->
  match gen_infer_state o temp cpl K S x with
  | Some (lf, orders, binnings) => length lf = fst shape /\ length binnings = n_used d mask /\ length orders = n_used d mask
  | None => n_used d mask = 0%nat
  end.
Proof.
  intros E Hd. pose proof (g_init_params T d n_cuts K mask draw cpl sz shape E Hd) as (_ & Hs & Hl & _).
  rewrite gen_init_params_eq in E. destruct (init_cuts d mask draw) as [cpl'|] eqn:Hi; [|discriminate].
  cbn [option_map] in E. injection E as <- _ _. destruct (leaf_count o d mask draw n_cuts cpl' temp x Hi Hd) as (_ & _ & Hlf & Hn).
  rewrite gen_infer_state_eq. destruct (leaf o temp cpl' x) as [lf|] eqn:El; cbn [option_map].
  - rewrite Hs. cbn [fst]. split; [apply Hlf; reflexivity|]. unfold all_bins. rewrite !map_length. split; exact Hl.
  - apply Hn. reflexivity.
Qed.

(* grid cells and the limit, on the regenerated _infer *)
Lemma g_cell_prediction temp g M n cpl K (S : nat -> nat -> R) x : 0 < temp -> 0 < g -> cpl <> [] ->
  in_cell_gap g n cpl x ->
  (forall l k, (l < nleaves cpl)%nat -> (k < K)%nat -> Rabs (S l k) <= M) ->
  exists p, gen_infer_row Rops temp cpl K S x = Some p /\
    forall k, (k < K)%nat ->
      let e := exp (4 * M * (INR (length cpl) * INR n * exp (- g / temp))) in
      let c := softmax_row Rops K (S (cell_index cpl x)) k in
      p k <= e * c /\ c <= e * p k.
Proof.
  intros HT Hg Hne Hc HM. rewrite gen_infer_row_eq. apply cell_prediction; try assumption.
  intros lf Hlf l k Hl Hk. apply HM; [rewrite <- (leaf_length temp cpl x lf Hlf); exact Hl | exact Hk].
Qed.
Lemma g_cell_constant temp g M n cpl K (S : nat -> nat -> R) x x' : 0 < temp -> 0 < g -> cpl <> [] ->
  in_cell_gap g n cpl x -> in_cell_gap g n cpl x' -> map (kof x) cpl = map (kof x') cpl ->
  (forall l k, (l < nleaves cpl)%nat -> (k < K)%nat -> Rabs (S l k) <= M) ->
  exists p p', gen_infer_row Rops temp cpl K S x = Some p /\ gen_infer_row Rops temp cpl K S x' = Some p' /\
    forall k, (k < K)%nat -> p k <= exp (8 * M * (INR (length cpl) * INR n * exp (- g / temp))) * p' k.
Proof. rewrite !gen_infer_row_eq. apply cell_constant. Qed.
Definition gpred_at cpl K (S : nat -> nat -> R) (x : nat -> R) (k : nat) (temp : R) : R :=
  match gen_infer_row Rops temp cpl K S x with Some p => p k | None => 0 end.
Lemma g_prediction_limit cpl K (S : nat -> nat -> R) x k : cpl <> [] -> (k < K)%nat ->
  (forall fc, In fc cpl -> forall c, In c (snd fc) -> c <> x (fst fc)) ->
  filterlim (gpred_at cpl K S x k) (at_right 0) (locally (softmax_row Rops K (S (cell_index cpl x)) k)).
Proof.
  intros Hne Hk Hd. apply (filterlim_ext (pred_at cpl K S x k)).
  - intros temp. unfold gpred_at, pred_at. rewrite gen_infer_row_eq. reflexivity.
  - apply prediction_limit; assumption.
Qed.

(* find_active_points *)
Lemma g_active_points_spec nrows ncols (X : nat -> nat -> R) cpl : (0 < nrows)%nat -> cpl <> [] ->
  (forall fc, In fc cpl -> (fst fc < ncols)%nat) ->
  exists l, gen_find_active_points Rops nrows ncols X cpl = FapOk l /\
    (exists keep, l = map fst (filter keep cpl)) /\
    (forall f, In f l <-> exists cuts, In (f, cuts) cpl /\
        exists c, In c cuts /\ (exists i, (i < nrows)%nat /\ X i f < c) /\ (exists j, (j < nrows)%nat /\ c < X j f)).
Proof.
  intros Hn Hne Hlt. rewrite gen_find_active_points_eq.
  destruct (active_points_spec nrows ncols X cpl Hn Hne Hlt) as (l & E & El & Hl).
  exists l. split; [exact E|]. split; [exists (active_feature Rops nrows X); exact El | exact Hl].
Qed.
Lemma g_active_points_narrow nrows ncols (X : nat -> nat -> R) cpl :
  ((exists fc, In fc cpl /\ (ncols <= fst fc)%nat) -> gen_find_active_points Rops nrows ncols X cpl = FapValueError) /\
  gen_find_active_points Rops nrows ncols X cpl <> FapIndexError.
Proof.
  rewrite gen_find_active_points_eq. split; [apply active_points_narrow | apply active_points_never_index_error].
Qed.
