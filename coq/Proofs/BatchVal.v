(* C10 — the weighting of sparse._base_sparse.compute_val_score over the reals:
   for rules that accumulate `acc + score * len(X_batch)` and normalise by `/ len(X)` over the sequential
   blocks, the validation score is the len-weighted mean of the block scores.  Stated for an arbitrary rules
   record satisfying [val_idx_ok] / [val_arith_ok]; Proofs/BatchGen.v shows the regenerated record does. *)
From Coq Require Import List Arith Lia ZArith Reals Lra.
From GV Require Import Common.Num Common.NumR Model.Batch Proofs.Batch.
Import ListNotations.
Local Open Scope R_scope.

Definition rsum (l : list R) : R := fold_right Rplus 0 l.

(* the arithmetic part of compute_val_score's rules, at T = R *)
Definition val_arith_ok (V : ValRules (T := R)) : Prop :=
  v_init V = 0 /\ (forall acc s lb n, v_acc V acc s lb n = acc + s * INR lb) /\
  (forall acc n, v_norm V acc n = acc / INR n).

Lemma fold_left_acc {Y} (h : Y -> R) (l : list Y) (a : R) :
  fold_left (fun acc y => acc + h y) l a = a + rsum (map h l).
Proof.
  revert a. induction l as [|y l IH]; intros a; cbn [fold_left map rsum fold_right]; [lra|].
  rewrite IH. unfold rsum. lra.
Qed.

Lemma fold_left_ext {X Y} (f g : X -> Y -> X) l a : (forall x y, f x y = g x y) -> fold_left f l a = fold_left g l a.
Proof. intros H. revert a. induction l as [|y l IH]; intros a; [reflexivity|]. cbn [fold_left]. rewrite H. apply IH. Qed.

(* sum_b score_b * |b| / n over the sequential blocks *)
Definition weighted_mean (n bs : nat) (g : list nat -> list nat -> list nat -> R) : R :=
  rsum (map (fun b => g b b b * INR (length b)) (val_blocks n bs)) / INR n.

Lemma code_val_score_weighted_mean (V : ValRules (T := R)) : val_idx_ok V -> val_arith_ok V ->
  forall n bs g, (1 <= bs)%nat -> code_val_score V n (Z.of_nat bs) g = Some (weighted_mean n bs g).
Proof.
  intros HI (H0 & Hacc & Hnorm) n bs g Hbs. unfold code_val_score.
  rewrite (code_val_blocks_ok V HI) by exact Hbs. f_equal. rewrite Hnorm, H0. unfold weighted_mean. f_equal.
  rewrite (fold_left_ext _ (fun acc (y : Yield) => acc + g (fst y) (fst (snd y)) (snd (snd y)) * INR (length (fst y))))
    by (intros; apply Hacc).
  rewrite (fold_left_acc (fun y : Yield => g (fst y) (fst (snd y)) (snd (snd y)) * INR (length (fst y)))).
  rewrite map_map. unfold dup3. cbn [fst snd]. lra.
Qed.

(* the weights |b| / n sum to one *)
Lemma rsum_lengths (ls : list (list nat)) : rsum (map (fun b => INR (length b)) ls) = INR (length (concat ls)).
Proof.
  induction ls as [|b ls IH]; [reflexivity|]. cbn [map rsum fold_right concat].
  rewrite app_length, plus_INR. unfold rsum in IH. rewrite IH. reflexivity.
Qed.

Lemma val_weights_sum (n bs : nat) : (1 <= bs)%nat -> rsum (map (fun b => INR (length b)) (val_blocks n bs)) = INR n.
Proof.
  intros Hbs. rewrite rsum_lengths. unfold val_blocks.
  destruct (batches_partition n bs (seq 0 n) Hbs (seq_is_perm n)) as (-> & _). rewrite seq_length. reflexivity.
Qed.

Lemma rsum_scale (s : R) (l : list R) : rsum (map (fun x => s * x) l) = s * rsum l.
Proof. induction l as [|x l IH]; cbn [map rsum fold_right]; [lra|]. unfold rsum in *. rewrite IH. lra. Qed.

Lemma rsum_map_ext_in {Y} (f g : Y -> R) l : (forall y, In y l -> f y = g y) -> rsum (map f l) = rsum (map g l).
Proof. intros H. f_equal. apply map_ext_in. exact H. Qed.

(* hence equal block scores give that score, whatever the block sizes *)
Lemma weighted_mean_constant n bs g s : (1 <= bs)%nat -> (1 <= n)%nat ->
  (forall b, In b (val_blocks n bs) -> g b b b = s) -> weighted_mean n bs g = s.
Proof.
  intros Hbs Hn Hs. unfold weighted_mean.
  rewrite (rsum_map_ext_in _ (fun b => s * INR (length b))) by (intros b Hb; rewrite (Hs b Hb); reflexivity).
  rewrite <- (map_map (fun b => INR (length b)) (fun x => s * x)). rewrite rsum_scale, val_weights_sum by exact Hbs.
  field. apply not_0_INR. lia.
Qed.

(* and the mean lies between the smallest and the largest block score *)
Lemma weighted_mean_bounds n bs g lo hi : (1 <= bs)%nat -> (1 <= n)%nat ->
  (forall b, In b (val_blocks n bs) -> lo <= g b b b <= hi) -> lo <= weighted_mean n bs g <= hi.
Proof.
  intros Hbs Hn Hb. unfold weighted_mean.
  assert (Hpos : 0 < INR n) by (apply lt_0_INR; lia).
  assert (H : lo * rsum (map (fun b => INR (length b)) (val_blocks n bs))
              <= rsum (map (fun b => g b b b * INR (length b)) (val_blocks n bs))
              <= hi * rsum (map (fun b => INR (length b)) (val_blocks n bs))).
  { revert Hb. generalize (val_blocks n bs) as ls. induction ls as [|b ls IH]; intros Hb; cbn [map rsum fold_right]; [lra|].
    destruct (IH (fun c Hc => Hb c (or_intror Hc))) as (I1 & I2). unfold rsum in *.
    pose proof (Hb b (or_introl eq_refl)) as (B1 & B2). pose proof (pos_INR (length b)) as Hl.
    split; nra. }
  rewrite val_weights_sum in H by exact Hbs. destruct H as (H1 & H2).
  split.
  - apply (Rmult_le_reg_r (INR n)); [exact Hpos|]. unfold Rdiv. rewrite Rmult_assoc, Rinv_l by lra. lra.
  - apply (Rmult_le_reg_r (INR n)); [exact Hpos|]. unfold Rdiv. rewrite Rmult_assoc, Rinv_l by lra. lra.
Qed.
