(* Kernel MMD GEMINI (one-vs-all and one-vs-one), gemclus/gemini/_geomdistances.py::MMDGEMINI.evaluate:
   score = definition (C01), gradient = derivative of the score (C02), elementary facts (C13).
   The affinity A is a symmetric kernel matrix; it need not be positive semi-definite (the code clamps the
   squared distance with max(.,0)).  Structure: clean (unclipped) forms and their agreement with the model in the
   interior; the kernel bilinear form Bf and the identity "what is under the square root = Bf(w,w)"; derivative
   of Bf(w(t),w(t)); the two derivative theorems; model-level statements; permutation / sign / independence facts. *)
From Coq Require Import Reals Lra Lia Psatz FunctionalExtensionality.
From Coquelicot Require Import Coquelicot.
From GV Require Import Common.Num Common.NumR Model.Gemini Proofs.RSumLib Proofs.GeminiDefs.
Open Scope R_scope.

(* ------------------------------------------------------------------ clean (unclipped) forms *)
Definition pospart (x : R) : R := nmax Rops x 0.
Lemma pospart_pos x : 0 <= x -> pospart x = x.
Proof. intros H. unfold pospart, nmax. cbn [nltb Rops]. rewrite Rltb_false by lra. reflexivity. Qed.
Lemma pospart_neg x : x < 0 -> pospart x = 0.
Proof. intros H. unfold pospart, nmax. cbn [nltb Rops]. rewrite Rltb_true by lra. reflexivity. Qed.
Lemma pospart_nonneg x : 0 <= pospart x.
Proof. destruct (Rlt_dec x 0); [rewrite pospart_neg | rewrite pospart_pos]; lra. Qed.

Definition sym_on (n : nat) (A : mat) : Prop := forall i j, (i < n)%nat -> (j < n)%nat -> A i j = A j i.

Section Clean.
Variables (n : nat) (A : mat).
Definition ker (i j : nat) : R := A i j / (INR n * INR n).
Definition al (p : mat) (k i : nat) : R := p i k / pi0 n p k.
Definition ga (p : mat) (i k : nat) : R := rsum n (fun j => ker i j * al p k j).
Definition ca (p : mat) (k : nat) : R := rsum n (fun i => al p k i * ga p i k).
Definition cb (p : mat) (k : nat) : R := rsum n (fun i => ga p i k).
Definition cc : R := rsum n (fun i => rsum n (fun j => ker i j)).
Definition qova (p : mat) (k : nat) : R := ca p k + cc - 2 * cb p k.
Definition dova (p : mat) (k : nat) : R := sqrt (pospart (qova p k)).
Definition om (p : mat) (k k' : nat) : R := rsum n (fun i => al p k i * ga p i k').
Definition qovo (p : mat) (k k' : nat) : R := - 2 * om p k k' + om p k' k' + om p k k.
Definition dovo (p : mat) (k k' : nat) : R := sqrt (pospart (qovo p k k')).
Definition mmc (K : nat) (ovo : bool) (p : mat) : R :=
  if ovo then rsum K (fun k => rsum K (fun k' => pi0 n p k * dovo p k k' * pi0 n p k'))
  else rsum K (fun k => pi0 n p k * dova p k).
Definition lam (p : mat) (k k' : nat) : R :=
  if Nat.eqb k k' then 0 else if Reqb (dovo p k k') 0 then 0 else pi0 n p k * pi0 n p k' / dovo p k k'.
Definition mmc_grad (K : nat) (ovo : bool) (p : mat) (i k : nat) : R :=
  if ovo then
    let ls := fun c => rsum K (fun r => lam p r c) in
    let gl := fun i c => rsum K (fun r => ga p i r * lam p r c) in
    let g := ga p i k * ls k - gl i k - om p k k * ls k / INR n + rsum n (fun j => al p k j * gl j k) / INR n in
    2 * (g / pi0 n p k + rsum K (fun r => pi0 n p r * dovo p r k) / INR n)
  else
    let t := fun i => rsum n (fun j => ker i j * (al p k j - 1)) in
    let tau := t i - rsum n t / INR n in
    if Reqb (dova p k) 0 then 0 else tau / dova p k.
End Clean.

Section InteriorMMD.
Variables (eps : R) (n K : nat) (Y A : mat).
Hypothesis HI : interior eps n K Y.

Lemma mm_alpha_interior i k : (i < n)%nat -> (k < K)%nat -> mm_alpha Rops eps n Y i k = al n Y k i.
Proof.
  intros Hi Hk. unfold mm_alpha, al. cbn [ndiv Rops].
  rewrite (P_interior eps n K Y HI) by assumption. rewrite (pi_interior eps n K Y HI) by assumption. reflexivity.
Qed.
Lemma mm_gamma_interior i k : (k < K)%nat -> mm_gamma Rops eps n Y A i k = ga n A Y i k.
Proof.
  intros Hk. unfold mm_gamma, ga. fold (rsum n). apply rsum_ext. intros j Hj.
  rewrite mm_alpha_interior by assumption. reflexivity.
Qed.
Lemma mm_a_interior k : (k < K)%nat -> mm_a Rops eps n Y A k = ca n A Y k.
Proof.
  intros Hk. unfold mm_a, ca. fold (rsum n). apply rsum_ext. intros i Hi.
  rewrite mm_alpha_interior, mm_gamma_interior by assumption. reflexivity.
Qed.
Lemma mm_b_interior k : (k < K)%nat -> mm_b Rops eps n Y A k = cb n A Y k.
Proof.
  intros Hk. unfold mm_b, cb. fold (rsum n). apply rsum_ext. intros i Hi. apply mm_gamma_interior. exact Hk.
Qed.
Lemma mm_c_interior : mm_c Rops n A = cc n A.
Proof. reflexivity. Qed.
Lemma mm_omega_interior k k' : (k < K)%nat -> (k' < K)%nat -> mm_omega Rops eps n Y A k k' = om n A Y k k'.
Proof.
  intros Hk Hk'. unfold mm_omega, om. fold (rsum n). apply rsum_ext. intros i Hi.
  rewrite mm_alpha_interior, mm_gamma_interior by assumption. reflexivity.
Qed.
Lemma mm_delta_ova_interior k : (k < K)%nat -> mm_delta_ova Rops eps n Y A k = dova n A Y k.
Proof.
  intros Hk. unfold mm_delta_ova, dova, pospart, qova, two, n2.
  rewrite mm_a_interior, mm_b_interior, mm_c_interior by assumption.
  cbn [nsqrt nadd nsub nmul n0 n1 Rops]. reflexivity.
Qed.
Lemma mm_delta_ovo_interior k k' : (k < K)%nat -> (k' < K)%nat -> mm_delta_ovo Rops eps n Y A k k' = dovo n A Y k k'.
Proof.
  intros Hk Hk'. unfold mm_delta_ovo, dovo, pospart, qovo, two, n2, nneg.
  rewrite !mm_omega_interior by assumption.
  cbn [nsqrt nadd nsub nmul n0 n1 Rops]. do 2 f_equal; try ring.
Qed.
Lemma mmd_score_interior ovo : mmd_score Rops eps n K Y A ovo = mmc n A K ovo Y.
Proof.
  unfold mmd_score, mmc. fold (rsum K). destruct ovo; apply rsum_ext; intros k Hk.
  - apply rsum_ext. intros k' Hk'. cbn [nmul Rops].
    rewrite mm_delta_ovo_interior, !(pi_interior eps n K Y HI) by assumption. reflexivity.
  - cbn [nmul Rops]. rewrite mm_delta_ova_interior, (pi_interior eps n K Y HI) by assumption. reflexivity.
Qed.
Lemma mm_lambda_interior k k' : (k < K)%nat -> (k' < K)%nat -> mm_lambda Rops eps n Y A k k' = lam n A Y k k'.
Proof.
  intros Hk Hk'. unfold mm_lambda, lam. rewrite mm_delta_ovo_interior, !(pi_interior eps n K Y HI) by assumption.
  reflexivity.
Qed.
Lemma mmd_grad_interior ovo i k : (i < n)%nat -> (k < K)%nat ->
  mmd_grad Rops eps n K Y A ovo i k = mmc_grad n A K ovo Y i k.
Proof.
  intros Hi Hk. unfold mmd_grad, mmc_grad, mean, ofn, two, n2.
  rewrite (maskT_interior eps n K Y HI) by assumption.
  cbn [nadd nsub nmul ndiv nofnat n0 n1 neqb Rops]. fold (rsum K). fold (rsum n).
  rewrite Rmult_1_r. destruct ovo.
  - rewrite (pi_interior eps n K Y HI) by assumption.
    rewrite mm_gamma_interior, mm_omega_interior by assumption.
    assert (Els : rsum K (fun r => mm_lambda Rops eps n Y A r k) = rsum K (fun r => lam n A Y r k)).
    { apply rsum_ext. intros r Hr. apply mm_lambda_interior; assumption. }
    assert (Egl : forall j, rsum K (fun r => mm_gamma Rops eps n Y A j r * mm_lambda Rops eps n Y A r k)
                          = rsum K (fun r => ga n A Y j r * lam n A Y r k)).
    { intros j. apply rsum_ext. intros r Hr. rewrite mm_gamma_interior, mm_lambda_interior by assumption. reflexivity. }
    change (bsum Rops K) with (rsum K). change (bsum Rops n) with (rsum n). rewrite Els, Egl.
    replace (1 + 1) with 2 by ring. f_equal. f_equal.
    + f_equal. f_equal. f_equal. apply rsum_ext. intros j Hj. rewrite mm_alpha_interior, Egl by assumption. reflexivity.
    + f_equal. apply rsum_ext. intros r Hr.
      rewrite mm_delta_ovo_interior, (pi_interior eps n K Y HI) by assumption. reflexivity.
  - change (bsum Rops n) with (rsum n). rewrite mm_delta_ova_interior by assumption.
    assert (Et : forall i', rsum n (fun j => nk Rops n A i' j * (mm_alpha Rops eps n Y j k - 1))
                          = rsum n (fun j => ker n A i' j * (al n Y k j - 1))).
    { intros i'. apply rsum_ext. intros j Hj. rewrite mm_alpha_interior by assumption. reflexivity. }
    rewrite Et. rewrite (rsum_ext n _ _ (fun i' _ => Et i')). reflexivity.
Qed.
End InteriorMMD.

(* ------------------------------------------------------------------ the kernel bilinear form *)
Section Bilinear.
Variables (n : nat) (A : mat).
Definition Bf (u v : nat -> R) : R := rsum n (fun i => u i * rsum n (fun j => ker n A i j * v j)).
Definition one (i : nat) : R := 1.

Lemma Bf_ext u u' v v' : (forall i, (i < n)%nat -> u i = u' i) -> (forall i, (i < n)%nat -> v i = v' i) ->
  Bf u v = Bf u' v'.
Proof.
  intros Hu Hv. unfold Bf. apply rsum_ext. intros i Hi. rewrite Hu by assumption. f_equal.
  apply rsum_ext. intros j Hj. rewrite Hv by assumption. reflexivity.
Qed.
Lemma Bf_expand u v : Bf u v = rsum n (fun i => rsum n (fun j => u i * ker n A i j * v j)).
Proof.
  unfold Bf. apply rsum_ext. intros i Hi. rewrite <- rsum_scal. apply rsum_ext. intros j Hj. ring.
Qed.
Lemma Bf_minus_l u u' v : Bf (fun i => u i - u' i) v = Bf u v - Bf u' v.
Proof. unfold Bf. rewrite <- rsum_minus. apply rsum_ext. intros i Hi. ring. Qed.
Lemma Bf_minus_r u v v' : Bf u (fun i => v i - v' i) = Bf u v - Bf u v'.
Proof.
  unfold Bf. rewrite <- rsum_minus. apply rsum_ext. intros i Hi.
  rewrite (rsum_ext n _ (fun j => ker n A i j * v j - ker n A i j * v' j)) by (intros; ring).
  rewrite rsum_minus. ring.
Qed.
Lemma Bf_scal_l c u v : Bf (fun i => c * u i) v = c * Bf u v.
Proof. unfold Bf. rewrite <- rsum_scal. apply rsum_ext. intros i Hi. ring. Qed.
Lemma Bf_divc_l c u v : Bf (fun i => u i / c) v = Bf u v / c.
Proof. unfold Bf. rewrite <- rsum_divc. apply rsum_ext. intros i Hi. unfold Rdiv. ring. Qed.

Hypothesis Hsym : sym_on n A.
Lemma ker_sym i j : (i < n)%nat -> (j < n)%nat -> ker n A i j = ker n A j i.
Proof. intros Hi Hj. unfold ker. rewrite (Hsym i j Hi Hj). reflexivity. Qed.
Lemma Bf_sym u v : Bf u v = Bf v u.
Proof.
  rewrite !Bf_expand. rewrite rsum_swap. apply rsum_ext. intros i Hi. apply rsum_ext. intros j Hj.
  rewrite (ker_sym j i Hj Hi). ring.
Qed.
Lemma Bf_quad u v : Bf (fun i => u i - v i) (fun i => u i - v i) = Bf u u - 2 * Bf u v + Bf v v.
Proof. rewrite Bf_minus_l, !Bf_minus_r. rewrite (Bf_sym v u). ring. Qed.

(* the squared distances of the code are the kernel quadratic form of the difference of weights *)
Lemma ca_Bf p k : ca n A p k = Bf (al n p k) (al n p k).  Proof. reflexivity. Qed.
Lemma om_Bf p k k' : om n A p k k' = Bf (al n p k) (al n p k').  Proof. reflexivity. Qed.
Lemma cb_Bf p k : cb n A p k = Bf one (al n p k).
Proof. unfold cb, Bf, one, ga. apply rsum_ext. intros i Hi. ring. Qed.
Lemma cc_Bf : cc n A = Bf one one.
Proof. unfold cc, Bf, one. apply rsum_ext. intros i Hi. rewrite Rmult_1_l. apply rsum_ext. intros j Hj. ring. Qed.
Lemma qova_Bf p k : qova n A p k = Bf (fun i => al n p k i - one i) (fun i => al n p k i - one i).
Proof. rewrite Bf_quad. unfold qova. rewrite ca_Bf, cb_Bf, cc_Bf. rewrite (Bf_sym (al n p k) one). ring. Qed.
Lemma qovo_Bf p k k' : qovo n A p k k' = Bf (fun i => al n p k i - al n p k' i) (fun i => al n p k i - al n p k' i).
Proof. rewrite Bf_quad. unfold qovo. rewrite !om_Bf. ring. Qed.
Lemma qovo_sym p k k' : qovo n A p k k' = qovo n A p k' k.
Proof. unfold qovo. rewrite !om_Bf. rewrite (Bf_sym (al n p k') (al n p k)). ring. Qed.
Lemma qovo_diag p k : qovo n A p k k = 0.
Proof. unfold qovo. ring. Qed.

Lemma quad_as_Bf a b u v : INR n <> 0 -> (forall i, (i < n)%nat -> a i - b i = (u i - v i) / INR n) ->
  rsum n (fun i => rsum n (fun j => (a i - b i) * A i j * (a j - b j))) = Bf (fun i => u i - v i) (fun i => u i - v i).
Proof.
  intros HN H. rewrite Bf_expand. apply rsum_ext. intros i Hi. apply rsum_ext. intros j Hj.
  rewrite (H i Hi), (H j Hj). unfold ker. field. exact HN.
Qed.
Lemma MMD_as_Bf a b u v : INR n <> 0 -> (forall i, (i < n)%nat -> a i - b i = (u i - v i) / INR n) ->
  MMDdist n A a b = sqrt (Bf (fun i => u i - v i) (fun i => u i - v i)).
Proof. intros HN H. unfold MMDdist. rewrite (quad_as_Bf a b u v HN H). reflexivity. Qed.
End Bilinear.

(* ------------------------------------------------------------------ C01: score = definition *)
(* key identity: what the code puts under the square root (a_k + c - 2 b_k, resp. -2 w_kk' + w_k'k' + w_kk) is the
   kernel quadratic form of the difference of the two weight vectors; this is where the symmetry of A is used *)
Lemma qova_is_quadratic_form n K A p k : (0 < n)%nat -> (forall i k, (i < n)%nat -> (k < K)%nat -> 0 < p i k) ->
  sym_on n A -> (k < K)%nat ->
  qova n A p k = rsum n (fun i => rsum n (fun j => (cond n p k i - unif n i) * A i j * (cond n p k j - unif n j))).
Proof.
  intros Hn Hp Hs Hk. assert (HN : 0 < INR n) by (apply lt_0_INR; lia).
  assert (Hpi : 0 < pi0 n p k) by (apply (pi0_pos n K); auto).
  rewrite (quad_as_Bf n A (cond n p k) (unif n) (al n p k) one).
  - apply qova_Bf. exact Hs.
  - lra.
  - intros i Hi. unfold cond, unif, al, one. field. lra.
Qed.
Lemma qovo_is_quadratic_form n K A p k k' : (0 < n)%nat -> (forall i k, (i < n)%nat -> (k < K)%nat -> 0 < p i k) ->
  sym_on n A -> (k < K)%nat -> (k' < K)%nat ->
  qovo n A p k k' = rsum n (fun i => rsum n (fun j => (cond n p k i - cond n p k' i) * A i j * (cond n p k j - cond n p k' j))).
Proof.
  intros Hn Hp Hs Hk Hk'. assert (HN : 0 < INR n) by (apply lt_0_INR; lia).
  assert (Hpi : 0 < pi0 n p k) by (apply (pi0_pos n K); auto).
  assert (Hpi' : 0 < pi0 n p k') by (apply (pi0_pos n K); auto).
  rewrite (quad_as_Bf n A (cond n p k) (cond n p k') (al n p k) (al n p k')).
  - apply qovo_Bf. exact Hs.
  - lra.
  - intros i Hi. unfold cond, al. field. lra.
Qed.
Lemma mmc_ova_is_definition n K A p : (0 < n)%nat -> (forall i k, (i < n)%nat -> (k < K)%nat -> 0 < p i k) ->
  sym_on n A -> (forall k, (k < K)%nat -> 0 <= qova n A p k) ->
  mmc n A K false p = gemini_ova n K p (MMDdist n A).
Proof.
  intros Hn Hp Hs Hq. assert (HN : 0 < INR n) by (apply lt_0_INR; lia).
  unfold mmc, gemini_ova. apply rsum_ext. intros k Hk.
  assert (Hpi : 0 < pi0 n p k) by (apply (pi0_pos n K); auto).
  f_equal. unfold dova. rewrite pospart_pos by (apply Hq; exact Hk).
  rewrite (MMD_as_Bf n A (cond n p k) (unif n) (al n p k) one) .
  - rewrite (qova_Bf n A Hs). reflexivity.
  - lra.
  - intros i Hi. unfold cond, unif, al, one. field. lra.
Qed.
Lemma mmc_ovo_is_definition n K A p : (0 < n)%nat -> (forall i k, (i < n)%nat -> (k < K)%nat -> 0 < p i k) ->
  sym_on n A -> (forall k k', (k < K)%nat -> (k' < K)%nat -> 0 <= qovo n A p k k') ->
  mmc n A K true p = gemini_ovo n K p (MMDdist n A).
Proof.
  intros Hn Hp Hs Hq. assert (HN : 0 < INR n) by (apply lt_0_INR; lia).
  unfold mmc, gemini_ovo. apply rsum_ext. intros k Hk. apply rsum_ext. intros k' Hk'.
  assert (Hpi : 0 < pi0 n p k) by (apply (pi0_pos n K); auto).
  assert (Hpi' : 0 < pi0 n p k') by (apply (pi0_pos n K); auto).
  unfold dovo. rewrite pospart_pos by (apply Hq; assumption).
  rewrite (MMD_as_Bf n A (cond n p k) (cond n p k') (al n p k) (al n p k')).
  - rewrite (qovo_Bf n A Hs). ring.
  - lra.
  - intros i Hi. unfold cond, al. field. lra.
Qed.

(* The non-negativity hypothesis (always true for a PSD kernel) is what makes the textbook MMD a real number; in
   Coq sqrt of a negative number is 0, which happens to coincide with the clamp of the code, but the statement is
   deliberately guarded: the clamped case is described separately by mmd_clamped_uses_zero below. *)
Theorem mmd_score_is_definition eps n K P A (ovo : bool) : 0 <= eps -> (0 < n)%nat -> interior eps n K P -> sym_on n A ->
  (if ovo return Prop then forall k k', (k < K)%nat -> (k' < K)%nat -> 0 <= qovo n A P k k'
   else forall k, (k < K)%nat -> 0 <= qova n A P k) ->
  mmd_score Rops eps n K P A ovo = if ovo then gemini_ovo n K P (MMDdist n A) else gemini_ova n K P (MMDdist n A).
Proof.
  intros He Hn HI Hs Hq. pose proof (interior_pos eps n K P He HI) as Hp. rewrite (mmd_score_interior eps n K P A HI).
  destruct ovo; [apply mmc_ovo_is_definition | apply mmc_ova_is_definition]; assumption.
Qed.

(* the clamped case: a negative quadratic form (possible only for a kernel matrix that is not PSD) is replaced by 0 *)
Lemma mmd_clamped_uses_zero eps n P A :
  (forall k, mm_a Rops eps n P A k + mm_c Rops n A - 2 * mm_b Rops eps n P A k < 0 -> mm_delta_ova Rops eps n P A k = 0) /\
  (forall k k', - 2 * mm_omega Rops eps n P A k k' + mm_omega Rops eps n P A k' k' + mm_omega Rops eps n P A k k < 0 ->
                mm_delta_ovo Rops eps n P A k k' = 0).
Proof.
  split.
  - intros k H. unfold mm_delta_ova, two, n2. cbn [nsqrt nadd nsub nmul n0 n1 Rops].
    change (nmax Rops ?x 0) with (pospart x). rewrite pospart_neg; [apply sqrt_0 | lra].
  - intros k k' H. unfold mm_delta_ovo, two, n2, nneg. cbn [nsqrt nadd nsub nmul n0 n1 Rops].
    change (nmax Rops ?x 0) with (pospart x). rewrite pospart_neg; [apply sqrt_0 | lra].
Qed.
Lemma mmd_clamped_uses_zero_clean eps n K P A : interior eps n K P ->
  (forall k, (k < K)%nat -> qova n A P k < 0 -> mm_delta_ova Rops eps n P A k = 0) /\
  (forall k k', (k < K)%nat -> (k' < K)%nat -> qovo n A P k k' < 0 -> mm_delta_ovo Rops eps n P A k k' = 0).
Proof.
  intros HI. split.
  - intros k Hk H. rewrite (mm_delta_ova_interior eps n K P A HI) by assumption. unfold dova. rewrite pospart_neg by exact H. apply sqrt_0.
  - intros k k' Hk Hk' H. rewrite (mm_delta_ovo_interior eps n K P A HI) by assumption. unfold dovo. rewrite pospart_neg by exact H. apply sqrt_0.
Qed.

(* ------------------------------------------------------------------ C02: generic derivative facts *)
(* dR_val leaves its equation typed in Coquelicot's NormedModule carrier; retype it as R for ring *)
Ltac tyR := match goal with |- @eq _ ?a ?b => change (@eq R a b) end.
Lemma pert_0 P D : pert P D 0 = P.
Proof. extensionality i. extensionality k. unfold pert. ring. Qed.
Lemma Reqb_false x y : x <> y -> Reqb x y = false.
Proof. intros H. unfold Reqb. destruct (Req_EM_T x y); [contradiction | reflexivity]. Qed.
Lemma d_ratio (a b c e : R) : c <> 0 -> is_derive (fun t : R => (a + t * b) / (c + t * e)) 0 ((b - a / c * e) / c).
Proof.
  intros Hc. auto_derive.
  - rewrite Rmult_0_l, Rplus_0_r. exact Hc.
  - rewrite !Rmult_0_l, !Rplus_0_r. field. exact Hc.
Qed.
Lemma dR_sqrt_pospart (f : R -> R) (x a : R) : is_derive f x a -> 0 < f x ->
  is_derive (fun t : R => sqrt (pospart (f t))) x (a / (2 * sqrt (f x))).
Proof.
  intros Hf Hp. apply (dR_ext_loc (fun t : R => sqrt (f t))).
  - assert (Hc : continuous f x) by (apply (ex_derive_continuous f); exists a; exact Hf).
    assert (HL : locally x (fun t : R => 0 < f t)).
    { apply (Hc (fun y : R => 0 < y)). apply (open_gt 0). exact Hp. }
    revert HL. apply filter_imp. intros t Ht.
    rewrite pospart_pos by lra. reflexivity.
  - apply dR_sqrt; assumption.
Qed.
Lemma dR_Bf n A (u v : nat -> R -> R) (u' v' : nat -> R) (x : R) :
  (forall i, (i < n)%nat -> is_derive (u i) x (u' i)) -> (forall i, (i < n)%nat -> is_derive (v i) x (v' i)) ->
  is_derive (fun t : R => Bf n A (fun i => u i t) (fun i => v i t)) x
            (Bf n A u' (fun i => v i x) + Bf n A (fun i => u i x) v').
Proof.
  intros Hu Hv. unfold Bf. rewrite <- rsum_plus.
  apply (dR_rsum n (fun i t => u i t * rsum n (fun j => ker n A i j * v j t))).
  intros i Hi. apply (dR_mult (u i) (fun t : R => rsum n (fun j => ker n A i j * v j t))).
  - apply Hu; exact Hi.
  - apply (dR_rsum n (fun j t => ker n A i j * v j t)). intros j Hj. apply dR_scal. apply Hv; exact Hj.
Qed.
Lemma dR_Bf_quad n A (w : nat -> R -> R) (w' : nat -> R) (x : R) : sym_on n A ->
  (forall i, (i < n)%nat -> is_derive (w i) x (w' i)) ->
  is_derive (fun t : R => Bf n A (fun i => w i t) (fun i => w i t)) x (2 * Bf n A w' (fun i => w i x)).
Proof.
  intros Hs Hw. eapply dR_val; [| exact (dR_Bf n A w w w' w' x Hw Hw)].
  rewrite (Bf_sym n A Hs (fun i => w i x) w'). tyR. ring.
Qed.
Lemma d_al n p d k i : pi0 n p k <> 0 ->
  is_derive (fun t : R => al n (pert p d t) k i) 0 ((d i k - al n p k i * pi0 n d k) / pi0 n p k).
Proof.
  intros H. apply (dR_ext (fun t : R => (p i k + t * d i k) / (pi0 n p k + t * pi0 n d k))).
  { intros t. unfold al. rewrite pi0_pert. reflexivity. }
  unfold al. apply d_ratio. exact H.
Qed.
Lemma d_pi0 n p d k : is_derive (fun t : R => pi0 n (pert p d t) k) 0 (pi0 n d k).
Proof. apply (dR_ext (fun t : R => pi0 n p k + t * pi0 n d k)); [intros t; rewrite pi0_pert; reflexivity | apply dR_lin]. Qed.

(* ------------------------------------------------------------------ C02: derivative, one-vs-all *)
Theorem mmc_ova_derive n K A p d :
  (0 < n)%nat -> (forall i k, (i < n)%nat -> (k < K)%nat -> 0 < p i k) -> sym_on n A ->
  (forall k, (k < K)%nat -> 0 < qova n A p k) ->
  is_derive (fun t : R => mmc n A K false (pert p d t)) 0 (inner n K (mmc_grad n A K false p) d).
Proof.
  intros Hn Hp Hs Hq. assert (HN : 0 < INR n) by (apply lt_0_INR; lia).
  assert (Hpi : forall k, (k < K)%nat -> 0 < pi0 n p k) by (intros; apply (pi0_pos n K); auto).
  unfold mmc, inner.
  set (S1 := fun k => pi0 n d k).
  set (dal := fun k i => (d i k - al n p k i * S1 k) / pi0 n p k).
  set (w := fun k i => al n p k i - one i).
  assert (H : is_derive (fun t : R => rsum K (fun k => pi0 n (pert p d t) k * dova n A (pert p d t) k)) 0
     (rsum K (fun k => S1 k * dova n A p k
                       + pi0 n p k * (2 * Bf n A (dal k) (w k) / (2 * sqrt (qova n A p k)))))).
  { apply (dR_rsum K (fun k t => pi0 n (pert p d t) k * dova n A (pert p d t) k)). intros k Hk.
    pose proof (d_pi0 n p d k) as Ha. fold (S1 k) in Ha.
    assert (Hqd : is_derive (fun t : R => qova n A (pert p d t) k) 0 (2 * Bf n A (dal k) (w k))).
    { apply (dR_ext (fun t : R => Bf n A (fun i => al n (pert p d t) k i - one i) (fun i => al n (pert p d t) k i - one i))).
      { intros t. symmetry. apply qova_Bf; exact Hs. }
      eapply dR_val; [| apply (dR_Bf_quad n A (fun i t => al n (pert p d t) k i - one i) (dal k) 0 Hs)].
      - cbn beta. rewrite pert_0. reflexivity.
      - intros i Hi. eapply dR_val; [| apply dR_minus; [apply d_al | apply dR_const]].
        + unfold dal, S1. tyR. ring.
        + apply Rgt_not_eq. apply Hpi; exact Hk. }
    assert (Hb : is_derive (fun t : R => dova n A (pert p d t) k) 0
                   (2 * Bf n A (dal k) (w k) / (2 * sqrt (qova n A p k)))).
    { unfold dova.
      eapply dR_val; [| apply (dR_sqrt_pospart (fun t : R => qova n A (pert p d t) k) 0 _ Hqd)];
        cbn beta; rewrite pert_0; [reflexivity | apply Hq; exact Hk]. }
    eapply dR_val; [| exact (dR_mult _ _ 0 _ _ Ha Hb)]. cbn beta. rewrite !pert_0. reflexivity. }
  eapply dR_val; [| exact H].
  rewrite (rsum_swap n K). apply rsum_ext. intros k Hk.
  specialize (Hpi k Hk). specialize (Hq k Hk).
  assert (Edl : dova n A p k = sqrt (qova n A p k)) by (unfold dova; rewrite pospart_pos by lra; reflexivity).
  unfold mmc_grad. rewrite Edl.
  set (delta := sqrt (qova n A p k)).
  assert (Hdl : 0 < delta) by (apply sqrt_lt_R0; exact Hq).
  rewrite Reqb_false by lra.
  set (t := fun i => rsum n (fun j => ker n A i j * (al n p k j - 1))).
  set (T := rsum n t). set (U := rsum n (fun i => d i k * t i)). set (V := rsum n (fun i => al n p k i * t i)).
  assert (Hd2 : delta * delta = V - T).
  { unfold delta. rewrite sqrt_sqrt by lra. rewrite (qova_Bf n A Hs). unfold Bf, V, T.
    rewrite <- rsum_minus. apply rsum_ext. intros i Hi. unfold one. fold (t i). ring. }
  assert (EB : Bf n A (dal k) (w k) = (U - S1 k * V) / pi0 n p k).
  { unfold Bf, U, V, w, one. rewrite <- (rsum_scal n (S1 k)), <- rsum_minus, <- rsum_divc.
    apply rsum_ext. intros i Hi. fold (t i). unfold dal. field. lra. }
  assert (ER : rsum n (fun i => (t i - T / INR n) / delta * d i k) = (U - T * S1 k) / delta).
  { unfold U, S1, pi0. rewrite <- (rsum_divc n (INR n)), <- (rsum_scal n T), <- rsum_minus, <- rsum_divc.
    apply rsum_ext. intros i Hi. field. lra. }
  rewrite EB. transitivity ((U - T * S1 k) / delta); [| symmetry; exact ER].
  replace T with (V - delta * delta) by lra. field. lra.
Qed.

(* ------------------------------------------------------------------ C02: derivative, one-vs-one *)
Lemma dovo_diag n A p k : dovo n A p k k = 0.
Proof. unfold dovo. rewrite qovo_diag, pospart_pos by lra. apply sqrt_0. Qed.
Lemma lam_diag n A p k : lam n A p k k = 0.
Proof. unfold lam. rewrite Nat.eqb_refl. reflexivity. Qed.
Lemma dovo_sym n A p k k' : sym_on n A -> dovo n A p k k' = dovo n A p k' k.
Proof. intros Hs. unfold dovo. rewrite (qovo_sym n A Hs p k k'). reflexivity. Qed.
Lemma lam_sym n A p k k' : sym_on n A -> lam n A p k k' = lam n A p k' k.
Proof.
  intros Hs. unfold lam. rewrite (Nat.eqb_sym k' k), (dovo_sym n A p k' k Hs), (Rmult_comm (pi0 n p k') (pi0 n p k)). reflexivity.
Qed.

Theorem mmc_ovo_derive n K A p d :
  (0 < n)%nat -> (forall i k, (i < n)%nat -> (k < K)%nat -> 0 < p i k) -> sym_on n A ->
  (forall k k', (k < K)%nat -> (k' < K)%nat -> k <> k' -> 0 < qovo n A p k k') ->
  is_derive (fun t : R => mmc n A K true (pert p d t)) 0 (inner n K (mmc_grad n A K true p) d).
Proof.
  intros Hn Hp Hs Hq. assert (HN : 0 < INR n) by (apply lt_0_INR; lia).
  assert (Hpi : forall k, (k < K)%nat -> 0 < pi0 n p k) by (intros; apply (pi0_pos n K); auto).
  unfold mmc, inner.
  set (S1 := fun k => pi0 n d k). set (pk := fun k => pi0 n p k).
  set (dal := fun k i => (d i k - al n p k i * S1 k) / pk k).
  set (G := fun a b => Bf n A (dal a) (al n p b)).
  set (dl := fun a b => dovo n A p a b). set (lm := fun a b => lam n A p a b).
  set (F := fun a b => S1 a * dl a b * pk b + lm a b * (G a a - G a b)).
  assert (H : is_derive (fun t : R => rsum K (fun a => rsum K (fun b =>
                 pi0 n (pert p d t) a * dovo n A (pert p d t) a b * pi0 n (pert p d t) b))) 0
     (rsum K (fun a => rsum K (fun b => F a b + F b a)))).
  { apply (dR_rsum K (fun a t => rsum K (fun b => pi0 n (pert p d t) a * dovo n A (pert p d t) a b * pi0 n (pert p d t) b))).
    intros a Ha.
    apply (dR_rsum K (fun b t => pi0 n (pert p d t) a * dovo n A (pert p d t) a b * pi0 n (pert p d t) b)).
    intros b Hb. destruct (Nat.eq_dec a b) as [<-|Hab].
    - apply (dR_ext (fun _ : R => 0)). { intros t. rewrite dovo_diag. ring. }
      eapply dR_val; [| apply dR_const]. unfold F, dl, lm. rewrite dovo_diag, lam_diag. tyR. ring.
    - pose proof (d_pi0 n p d a) as Da. pose proof (d_pi0 n p d b) as Db. fold (S1 a) in Da. fold (S1 b) in Db.
      specialize (Hq a b Ha Hb Hab).
      assert (Hqd : is_derive (fun t : R => qovo n A (pert p d t) a b) 0
                      (2 * Bf n A (fun i => dal a i - dal b i) (fun i => al n p a i - al n p b i))).
      { apply (dR_ext (fun t : R => Bf n A (fun i => al n (pert p d t) a i - al n (pert p d t) b i)
                                            (fun i => al n (pert p d t) a i - al n (pert p d t) b i))).
        { intros t. symmetry. apply qovo_Bf; exact Hs. }
        eapply dR_val; [| apply (dR_Bf_quad n A (fun i t => al n (pert p d t) a i - al n (pert p d t) b i)
                                   (fun i => dal a i - dal b i) 0 Hs)].
        - cbn beta. rewrite pert_0. reflexivity.
        - intros i Hi. apply dR_minus; apply d_al; apply Rgt_not_eq; apply Hpi; assumption. }
      assert (Hdd : is_derive (fun t : R => dovo n A (pert p d t) a b) 0
                   (2 * Bf n A (fun i => dal a i - dal b i) (fun i => al n p a i - al n p b i) / (2 * sqrt (qovo n A p a b)))).
      { unfold dovo.
        eapply dR_val; [| apply (dR_sqrt_pospart (fun t : R => qovo n A (pert p d t) a b) 0 _ Hqd)];
          cbn beta; rewrite pert_0; [reflexivity | exact Hq]. }
      eapply dR_val; [| exact (dR_mult _ _ 0 _ _ (dR_mult _ _ 0 _ _ Da Hdd) Db)]. cbn beta. rewrite !pert_0.
      assert (Edl : dovo n A p a b = sqrt (qovo n A p a b)) by (unfold dovo; rewrite pospart_pos by lra; reflexivity).
      assert (Hdl : 0 < sqrt (qovo n A p a b)) by (apply sqrt_lt_R0; exact Hq).
      unfold F, dl, lm. rewrite <- (lam_sym n A p a b Hs), <- (dovo_sym n A p a b Hs).
      unfold lam. rewrite (proj2 (Nat.eqb_neq a b) Hab). rewrite Edl. rewrite Reqb_false by lra.
      rewrite Bf_minus_l, !Bf_minus_r. fold (G a a) (G a b) (G b a) (G b b). fold (pk a) (pk b).
      pose proof (Hpi a Ha). pose proof (Hpi b Hb). unfold pk in *. tyR. field. lra. }
  eapply dR_val; [| exact H]. 
  rewrite (rsum_ext K _ (fun a => rsum K (fun b => F a b) + rsum K (fun b => F b a))) by (intros; apply rsum_plus).
  rewrite rsum_plus. rewrite (rsum_swap K K (fun a b => F b a)).
  rewrite (rsum_swap n K). tyR.
  replace (rsum K (fun a => rsum K (fun b => F a b)) + rsum K (fun k => rsum K (fun i => F k i)))
    with (rsum K (fun k => 2 * rsum K (fun r => F k r))) by (rewrite rsum_scal; ring).
  apply rsum_ext. intros k Hk. pose proof (Hpi k Hk) as Hpk.
  subst lm dl pk. cbv beta in *.
  set (X := fun r => rsum n (fun i => d i k * ga n A p i r)).
  set (ls := rsum K (fun r => lam n A p r k)).
  set (LX := rsum K (fun r => lam n A p r k * X r)).
  set (LO := rsum K (fun r => lam n A p r k * om n A p k r)).
  set (Dk := rsum K (fun r => pi0 n p r * dovo n A p r k)).
  assert (EG : forall r, G k r = (X r - S1 k * om n A p k r) / pi0 n p k).
  { intros r. unfold G, Bf, X, om. rewrite <- (rsum_scal n (S1 k)), <- rsum_minus, <- rsum_divc.
    apply rsum_ext. intros i Hi. unfold dal, ga. field. lra. }
  assert (ERHS : rsum K (fun r => F k r)
                 = S1 k * Dk + (X k - S1 k * om n A p k k) / pi0 n p k * ls - (LX - S1 k * LO) / pi0 n p k).
  { rewrite (rsum_ext K _ (fun r => S1 k * (pi0 n p r * dovo n A p r k)
               + (X k - S1 k * om n A p k k) / pi0 n p k * lam n A p r k
               - / pi0 n p k * (lam n A p r k * X r) + S1 k / pi0 n p k * (lam n A p r k * om n A p k r))).
    2:{ intros r Hr. unfold F. rewrite !EG. rewrite (lam_sym n A p k r Hs), (dovo_sym n A p k r Hs). field. lra. }
    rewrite rsum_plus, rsum_minus, rsum_plus, !rsum_scal. fold Dk ls LX LO. field. lra. }
  assert (EW : rsum n (fun j => al n p k j * rsum K (fun r => ga n A p j r * lam n A p r k)) = LO).
  { rewrite (rsum_ext n _ (fun j => rsum K (fun r => al n p k j * (ga n A p j r * lam n A p r k))))
      by (intros; symmetry; apply rsum_scal).
    rewrite rsum_swap. apply rsum_ext. intros r Hr. unfold om. rewrite <- rsum_scal. apply rsum_ext. intros i Hi. ring. }
  assert (EGL : rsum n (fun i => rsum K (fun r => ga n A p i r * lam n A p r k) * d i k) = LX).
  { rewrite (rsum_ext n _ (fun i => rsum K (fun r => ga n A p i r * lam n A p r k * d i k)))
      by (intros; symmetry; apply rsum_scal_r).
    rewrite rsum_swap. apply rsum_ext. intros r Hr. unfold X. rewrite <- rsum_scal. apply rsum_ext. intros i Hi. ring. }
  rewrite ERHS. unfold mmc_grad. cbv beta iota zeta. fold ls. rewrite EW.
  rewrite (rsum_ext n _ (fun i => 2 * ls / pi0 n p k * (d i k * ga n A p i k)
             - 2 / pi0 n p k * (rsum K (fun r => ga n A p i r * lam n A p r k) * d i k)
             + (2 * (LO - om n A p k k * ls) / pi0 n p k + 2 * Dk) * (d i k / INR n)))
    by (intros i Hi; fold Dk; field; lra).
  rewrite rsum_plus, rsum_minus, !rsum_scal, rsum_divc, EGL. fold (X k). fold (pi0 n d k). fold (S1 k).
  field. lra.
Qed.

(* ------------------------------------------------------------------ final statements about the model *)
(* No tangent hypothesis on D is needed: the centring (I - 1/N) of the one-vs-all gradient and the
   "- omega_kk ls/N + mean(alpha * gamma Lambda)" terms of the one-vs-one gradient are exactly the
   dependence of alpha = p / pi on pi, so the identity holds for every direction D. *)
Theorem mmd_grad_is_derivative eps n K P A D (ovo : bool) : 0 <= eps -> (0 < n)%nat -> interior eps n K P -> sym_on n A ->
  (if ovo return Prop then forall k k', (k < K)%nat -> (k' < K)%nat -> k <> k' -> 0 < qovo n A P k k'
   else forall k, (k < K)%nat -> 0 < qova n A P k) ->
  is_derive (fun t : R => mmd_score Rops eps n K (pert P D t) A ovo) 0 (inner n K (mmd_grad Rops eps n K P A ovo) D).
Proof.
  intros He Hn HI Hs Hq. pose proof (interior_pos eps n K P He HI) as Hp.
  apply (lift_derivative (fun Y => mmd_score Rops eps n K Y A ovo) (mmc n A K ovo)
           (mmd_grad Rops eps n K P A ovo) (mmc_grad n A K ovo P) eps n K P D).
  - intros Y HY. apply mmd_score_interior. exact HY.
  - intros i k Hi Hk. apply mmd_grad_interior; assumption.
  - exact HI.
  - destruct ovo; [apply mmc_ovo_derive | apply mmc_ova_derive]; assumption.
Qed.
Corollary mmd_ova_grad_is_derivative eps n K P A D : 0 <= eps -> (0 < n)%nat -> interior eps n K P -> sym_on n A ->
  (forall k, (k < K)%nat -> 0 < qova n A P k) ->
  is_derive (fun t : R => mmd_score Rops eps n K (pert P D t) A false) 0 (inner n K (mmd_grad Rops eps n K P A false) D).
Proof. intros He Hn HI Hs Hq. apply (mmd_grad_is_derivative eps n K P A D false); assumption. Qed.

(* ------------------------------------------------------------------ C13: elementary facts *)
Lemma P_nonneg eps Y i k : 0 <= eps <= 1 -> 0 <= P Rops eps Y i k.
Proof.
  intros He. unfold P, nclip, nmin, nmax. cbn [nltb nsub n1 Rops]. unfold Rltb.
  destruct (Rlt_dec (Y i k) eps); destruct (Rlt_dec (1 - eps) _); lra.
Qed.
Lemma pi_nonneg eps n Y k : 0 <= eps <= 1 -> 0 <= pi Rops eps n Y k.
Proof.
  intros He. unfold pi, mean, ofn. cbn [ndiv nofnat Rops]. change (bsum Rops n) with (rsum n).
  destruct n as [|m]. { rewrite rsum_0. unfold Rdiv. rewrite Rmult_0_l. lra. }
  apply Rmult_le_pos; [apply rsum_nonneg; intros; apply P_nonneg; exact He |].
  left. apply Rinv_0_lt_compat. apply lt_0_INR. lia.
Qed.
(* holds for every prediction matrix (clipped or not) and every affinity *)
Theorem mmd_nonneg_clipped eps n K Y A ovo : 0 <= eps <= 1 -> 0 <= mmd_score Rops eps n K Y A ovo.
Proof.
  intros He. unfold mmd_score. change (bsum Rops K) with (rsum K). destruct ovo.
  - apply rsum_nonneg. intros k Hk. apply rsum_nonneg. intros k' Hk'. cbn [nmul Rops].
    apply Rmult_le_pos; [apply Rmult_le_pos |]; try (apply pi_nonneg; exact He). apply sqrt_pos.
  - apply rsum_nonneg. intros k Hk. cbn [nmul Rops]. apply Rmult_le_pos; [apply pi_nonneg; exact He | apply sqrt_pos].
Qed.
Theorem mmd_nonneg eps n K P A ovo : 0 <= eps -> (0 < n)%nat -> interior eps n K P -> 0 <= mmd_score Rops eps n K P A ovo.
Proof.
  intros He Hn HI. pose proof (interior_pos eps n K P He HI) as Hp.
  assert (Hpi : forall k, (k < K)%nat -> 0 < pi0 n P k) by (intros; apply (pi0_pos n K); auto).
  rewrite (mmd_score_interior eps n K P A HI). unfold mmc. destruct ovo.
  - apply rsum_nonneg. intros k Hk. apply rsum_nonneg. intros k' Hk'.
    apply Rmult_le_pos; [apply Rmult_le_pos |]; try (left; apply Hpi; assumption). apply sqrt_pos.
  - apply rsum_nonneg. intros k Hk. apply Rmult_le_pos; [left; apply Hpi; assumption | apply sqrt_pos].
Qed.

(* cluster assignment independent of the data (all rows equal): every cluster law is the data law *)
Theorem mmd_independent_zero eps n K P A ovo : 0 <= eps -> (0 < n)%nat -> interior eps n K P ->
  (forall i j k, (i < n)%nat -> (j < n)%nat -> (k < K)%nat -> P i k = P j k) ->
  mmd_score Rops eps n K P A ovo = 0.
Proof.
  intros He Hn HI Hrow. pose proof (interior_pos eps n K P He HI) as Hp.
  assert (HN : 0 < INR n) by (apply lt_0_INR; lia).
  rewrite (mmd_score_interior eps n K P A HI).
  assert (Hal : forall k i, (k < K)%nat -> (i < n)%nat -> al n P k i = 1).
  { intros k i Hk Hi. unfold al, pi0.
    rewrite (rsum_ext n _ (fun _ => P i k)) by (intros j Hj; apply Hrow; assumption).
    rewrite rsum_const. specialize (Hp i k Hi Hk). field. lra. }
  assert (Hga : forall k i, (k < K)%nat -> ga n A P i k = rsum n (fun j => ker n A i j)).
  { intros k i Hk. unfold ga. apply rsum_ext. intros j Hj. rewrite Hal by assumption. ring. }
  assert (Hom : forall k k', (k < K)%nat -> (k' < K)%nat -> om n A P k k' = cc n A).
  { intros k k' Hk Hk'. unfold om, cc. apply rsum_ext. intros i Hi. rewrite Hal, Hga by assumption. ring. }
  assert (Hcb : forall k, (k < K)%nat -> cb n A P k = cc n A).
  { intros k Hk. unfold cb, cc. apply rsum_ext. intros i Hi. apply Hga. exact Hk. }
  assert (Hz : sqrt (pospart 0) = 0) by (rewrite pospart_pos by lra; apply sqrt_0).
  unfold mmc. destruct ovo.
  - apply rsum_zero. intros k Hk. apply rsum_zero. intros k' Hk'. unfold dovo, qovo. rewrite !Hom by assumption.
    replace (- 2 * cc n A + cc n A + cc n A) with 0 by ring. rewrite Hz. ring.
  - apply rsum_zero. intros k Hk. unfold dova, qova. change (ca n A P k) with (om n A P k k).
    rewrite Hom, Hcb by assumption. replace (cc n A + cc n A - 2 * cc n A) with 0 by ring. rewrite Hz. ring.
Qed.

(* relabelling the samples (rows of the predictions, rows and columns of the affinity) *)
Section PermSamples.
Variables (eps : R) (n : nat) (Y A : mat) (s : nat -> nat).
Hypothesis Hs : perm_on n s.
Let Y' : mat := fun i k => Y (s i) k.
Let A' : mat := fun i j => A (s i) (s j).
Lemma pi_perm_s k : pi Rops eps n Y' k = pi Rops eps n Y k.
Proof.
  unfold pi, mean. cbn [ndiv Rops]. f_equal. change (bsum Rops n) with (rsum n).
  exact (rsum_perm n s (fun i => P Rops eps Y i k) Hs).
Qed.
Lemma alpha_perm_s i k : mm_alpha Rops eps n Y' i k = mm_alpha Rops eps n Y (s i) k.
Proof. unfold mm_alpha. rewrite pi_perm_s. reflexivity. Qed.
Lemma gamma_perm_s i k : mm_gamma Rops eps n Y' A' i k = mm_gamma Rops eps n Y A (s i) k.
Proof.
  unfold mm_gamma. change (bsum Rops n) with (rsum n).
  rewrite (rsum_ext n _ (fun j => (fun j' => nmul Rops (nk Rops n A (s i) j') (mm_alpha Rops eps n Y j' k)) (s j))).
  2:{ intros j Hj. cbv beta. rewrite alpha_perm_s. reflexivity. }
  exact (rsum_perm n s _ Hs).
Qed.
Lemma a_perm_s k : mm_a Rops eps n Y' A' k = mm_a Rops eps n Y A k.
Proof.
  unfold mm_a. change (bsum Rops n) with (rsum n).
  rewrite (rsum_ext n _ (fun i => (fun i' => nmul Rops (mm_alpha Rops eps n Y i' k) (mm_gamma Rops eps n Y A i' k)) (s i))).
  2:{ intros i Hi. cbv beta. rewrite alpha_perm_s, gamma_perm_s. reflexivity. }
  exact (rsum_perm n s _ Hs).
Qed.
Lemma b_perm_s k : mm_b Rops eps n Y' A' k = mm_b Rops eps n Y A k.
Proof.
  unfold mm_b. change (bsum Rops n) with (rsum n).
  rewrite (rsum_ext n _ (fun i => (fun i' => mm_gamma Rops eps n Y A i' k) (s i))).
  2:{ intros i Hi. cbv beta. apply gamma_perm_s. }
  exact (rsum_perm n s _ Hs).
Qed.
Lemma c_perm_s : mm_c Rops n A' = mm_c Rops n A.
Proof.
  unfold mm_c. change (bsum Rops n) with (rsum n).
  rewrite (rsum_ext n _ (fun i => (fun i' => rsum n (fun j => nk Rops n A i' j)) (s i))).
  2:{ intros i Hi. cbv beta. exact (rsum_perm n s (fun j => nk Rops n A (s i) j) Hs). }
  exact (rsum_perm n s _ Hs).
Qed.
Lemma omega_perm_s k k' : mm_omega Rops eps n Y' A' k k' = mm_omega Rops eps n Y A k k'.
Proof.
  unfold mm_omega. change (bsum Rops n) with (rsum n).
  rewrite (rsum_ext n _ (fun i => (fun i' => nmul Rops (mm_alpha Rops eps n Y i' k) (mm_gamma Rops eps n Y A i' k')) (s i))).
  2:{ intros i Hi. cbv beta. rewrite alpha_perm_s, gamma_perm_s. reflexivity. }
  exact (rsum_perm n s _ Hs).
Qed.
Theorem mmd_perm_samples_sec K ovo : mmd_score Rops eps n K Y' A' ovo = mmd_score Rops eps n K Y A ovo.
Proof.
  unfold mmd_score, mm_delta_ova, mm_delta_ovo. change (bsum Rops K) with (rsum K). destruct ovo.
  - apply rsum_ext. intros k Hk. apply rsum_ext. intros k' Hk'. rewrite !pi_perm_s, !omega_perm_s. reflexivity.
  - apply rsum_ext. intros k Hk. rewrite pi_perm_s, a_perm_s, b_perm_s, c_perm_s. reflexivity.
Qed.
End PermSamples.
Theorem mmd_perm_samples eps n K P A ovo s : perm_on n s ->
  mmd_score Rops eps n K (fun i k => P (s i) k) (fun i j => A (s i) (s j)) ovo = mmd_score Rops eps n K P A ovo.
Proof. intros Hs. apply mmd_perm_samples_sec. exact Hs. Qed.

(* relabelling the clusters (columns of the predictions) *)
Theorem mmd_perm_clusters eps n K P A ovo s : perm_on K s ->
  mmd_score Rops eps n K (fun i k => P i (s k)) A ovo = mmd_score Rops eps n K P A ovo.
Proof.
  intros Hs. unfold mmd_score. change (bsum Rops K) with (rsum K). destruct ovo.
  - set (g := fun a b => nmul Rops (nmul Rops (pi Rops eps n P a) (mm_delta_ovo Rops eps n P A a b)) (pi Rops eps n P b)).
    change (rsum K (fun k => rsum K (fun k' => g (s k) (s k'))) = rsum K (fun k => rsum K (fun k' => g k k'))).
    rewrite (rsum_perm K s (fun a => rsum K (fun k' => g a (s k'))) Hs).
    apply rsum_ext. intros a Ha. exact (rsum_perm K s (g a) Hs).
  - set (g := fun a => nmul Rops (pi Rops eps n P a) (mm_delta_ova Rops eps n P A a)).
    change (rsum K (fun k => g (s k)) = rsum K g). exact (rsum_perm K s g Hs).
Qed.
