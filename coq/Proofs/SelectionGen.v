(* C06 — the regenerated tie: the definitions that translator/tr_selection.py regenerates from the current sources of
   gemclus/sparse/_linear_sparse.py and _mlp_sparse.py (Gen/SelectionRules.v) are the hand-written model of
   Model/Selection.v.  Every proof unfolds the generated definitions: a changed rule (threshold factor, attribute read,
   order of the optimiser step and the proximal step, operator chosen per branch, copy-back target, axis, comparison,
   X.shape index, statement order of fit) breaks the corresponding lemma here. *)
From Coq Require Import String List.
From GV Require Import Common.Num Model.Forward Model.Selection Gen.SelectionRules.
Import ListNotations.

Section Generic.
Context {T : Type} (o : NumOps T).
Local Notation mat := (nat -> nat -> T).

(* ---- _update_weights ---- *)
Lemma gen_update_weights_linear_is_model : forall (St : Type)
    (update_params : St -> @lin_params T -> @lin_params T -> St * @lin_params T) (learning_rate : St -> T)
    (linear_prox_grad : mat -> T -> mat) (group_linear_prox_grad : list (list nat) -> mat -> T -> mat)
    groups_ alpha hp_learning_rate s weights gradients,
  gen_update_weights_linear o update_params learning_rate linear_prox_grad group_linear_prox_grad groups_ alpha hp_learning_rate s weights gradients
  = update_weights_linear o update_params learning_rate linear_prox_grad group_linear_prox_grad groups_ alpha s weights gradients.
Proof. intros. unfold gen_update_weights_linear, update_weights_linear, prox_threshold. destruct groups_; reflexivity. Qed.

Lemma gen_update_weights_mlp_is_model : forall (St : Type)
    (update_params : St -> @mlp_params T -> @mlp_params T -> St * @mlp_params T) (learning_rate : St -> T)
    (mlp_prox_grad : mat -> mat -> T -> T -> mat * mat) (group_mlp_prox_grad : list (list nat) -> mat -> mat -> T -> T -> mat * mat)
    groups_ alpha M hp_learning_rate s weights gradients,
  gen_update_weights_mlp o update_params learning_rate mlp_prox_grad group_mlp_prox_grad groups_ alpha M hp_learning_rate s weights gradients
  = update_weights_mlp o update_params learning_rate mlp_prox_grad group_mlp_prox_grad groups_ alpha M s weights gradients.
Proof. intros. unfold gen_update_weights_mlp, update_weights_mlp, prox_threshold. destruct groups_; reflexivity. Qed.

(* ---- get_selection / _n_selected_features / _group_lasso_penalty ---- *)
Lemma np_count_n_selected d K (W : mat) : np_count d (np_ne0 o (np_norm_axis1 o K W)) = n_selected o d K W.
Proof. induction d as [|d IH]; [reflexivity|]. cbn [np_count n_selected]. rewrite IH. reflexivity. Qed.

Lemma gen_get_selection_linear_is_model d K (w : @lin_params T) : gen_get_selection_linear o d K w = selection o d K (lW w).
Proof. reflexivity. Qed.
Lemma gen_n_selected_features_linear_is_model d K (w : @lin_params T) : gen_n_selected_features_linear o d K w = n_selected o d K (lW w).
Proof. unfold gen_n_selected_features_linear. apply np_count_n_selected. Qed.
Lemma gen_group_lasso_penalty_linear_is_model d K (w : @lin_params T) : gen_group_lasso_penalty_linear o d K w = group_lasso_penalty o d K (lW w).
Proof. reflexivity. Qed.

Lemma gen_get_selection_mlp_is_model d h K (w : @mlp_params T) : gen_get_selection_mlp o d h K w = selection o d K (mWskip w).
Proof. reflexivity. Qed.
Lemma gen_n_selected_features_mlp_is_model d h K (w : @mlp_params T) : gen_n_selected_features_mlp o d h K w = n_selected o d K (mWskip w).
Proof. unfold gen_n_selected_features_mlp. apply np_count_n_selected. Qed.
Lemma gen_group_lasso_penalty_mlp_is_model d h K (w : @mlp_params T) : gen_group_lasso_penalty_mlp o d h K w = group_lasso_penalty o d K (mWskip w).
Proof. reflexivity. Qed.
End Generic.

(* ---- fit: groups_ = check_groups(self.groups, X.shape[1]), after validation, before the parent's fit ---- *)
Lemma gen_fit_groups_linear_is_model : forall hp shape,
  fit_groups_with gen_fit_rules_linear hp shape = fit_groups (hp "groups"%string) (shape 1).
Proof. reflexivity. Qed.
Lemma gen_fit_groups_mlp_is_model : forall hp shape,
  fit_groups_with gen_fit_rules_mlp hp shape = fit_groups (hp "groups"%string) (shape 1).
Proof. reflexivity. Qed.

(* golden copy of the fit rules: hand-written, compared by reflexivity *)
Definition documented_fit_rules : fit_rules := {|
  fr_steps := ["_validate_params"; "validate_data"; "check_groups"; "super().fit"]%string;
  fr_groups_source := "groups"%string; fr_shape_axis := 1;
  fr_groups_target := "groups_"%string; fr_min_samples := "n_clusters"%string |}.
Lemma gen_fit_rules_documented : gen_fit_rules_linear = documented_fit_rules /\ gen_fit_rules_mlp = documented_fit_rules.
Proof. split; reflexivity. Qed.

(* ================================================================================ the C06 theorems about the regenerated definitions (R) *)
From Coq Require Import Reals Permutation Sorted.
From GV Require Import Common.NumR Proofs.Selection Proofs.SelectionProx.
Open Scope R_scope.
Local Notation rmat := (nat -> nat -> R).

Lemma regen_selection_is_nonzero_rows : forall d h K (wl : @lin_params R) (wm : @mlp_params R),
  (forall j, In j (gen_get_selection_linear Rops d K wl) <-> (j < d)%nat /\ exists k, (k < K)%nat /\ lW wl j k <> 0) /\
  StronglySorted lt (gen_get_selection_linear Rops d K wl) /\
  gen_n_selected_features_linear Rops d K wl = length (gen_get_selection_linear Rops d K wl) /\
  (forall j, In j (gen_get_selection_mlp Rops d h K wm) <-> (j < d)%nat /\ exists k, (k < K)%nat /\ mWskip wm j k <> 0) /\
  StronglySorted lt (gen_get_selection_mlp Rops d h K wm) /\
  gen_n_selected_features_mlp Rops d h K wm = length (gen_get_selection_mlp Rops d h K wm).
Proof.
  intros d h K wl wm.
  rewrite gen_n_selected_features_linear_is_model, gen_n_selected_features_mlp_is_model,
          gen_get_selection_linear_is_model, gen_get_selection_mlp_is_model.
  destruct (selection_is_nonzero_rows d K (lW wl)) as (_ & A1 & A2 & A3).
  destruct (selection_is_nonzero_rows d K (mWskip wm)) as (_ & B1 & B2 & B3).
  split; [exact A1|]. split; [exact A2|]. split; [exact A3|]. split; [exact B1|]. split; [exact B2 | exact B3].
Qed.

Lemma regen_update_is_prox_of_step :
  (forall (St : Type) (update_params : St -> @lin_params R -> @lin_params R -> St * @lin_params R) (learning_rate : St -> R)
          (linear_prox_grad : rmat -> R -> rmat) (group_linear_prox_grad : list (list nat) -> rmat -> R -> rmat)
          (groups_ : option (list (list nat))) (alpha hp_learning_rate : R) (s : St) (w g : @lin_params R),
     let stepped := update_params s w g in
     let thr := alpha * learning_rate (fst stepped) in
     let r := gen_update_weights_linear Rops update_params learning_rate linear_prox_grad group_linear_prox_grad groups_ alpha hp_learning_rate s w g in
     fst r = fst stepped /\ lb (snd r) = lb (snd stepped) /\
     lW (snd r) = match groups_ with None => linear_prox_grad (lW (snd stepped)) thr | Some gs => group_linear_prox_grad gs (lW (snd stepped)) thr end) /\
  (forall (St : Type) (update_params : St -> @mlp_params R -> @mlp_params R -> St * @mlp_params R) (learning_rate : St -> R)
          (mlp_prox_grad : rmat -> rmat -> R -> R -> rmat * rmat) (group_mlp_prox_grad : list (list nat) -> rmat -> rmat -> R -> R -> rmat * rmat)
          (groups_ : option (list (list nat))) (alpha M hp_learning_rate : R) (s : St) (w g : @mlp_params R),
     let stepped := update_params s w g in
     let thr := alpha * learning_rate (fst stepped) in
     let r := gen_update_weights_mlp Rops update_params learning_rate mlp_prox_grad group_mlp_prox_grad groups_ alpha M hp_learning_rate s w g in
     fst r = fst stepped /\
     mW2 (snd r) = mW2 (snd stepped) /\ mb1 (snd r) = mb1 (snd stepped) /\ mb2 (snd r) = mb2 (snd stepped) /\
     (mWskip (snd r), mW1 (snd r)) =
       match groups_ with
       | None => mlp_prox_grad (mWskip (snd stepped)) (mW1 (snd stepped)) thr M
       | Some gs => group_mlp_prox_grad gs (mWskip (snd stepped)) (mW1 (snd stepped)) thr M
       end).
Proof.
  split.
  - intros St up lr p gp groups_ alpha hp s w g. cbv zeta. rewrite gen_update_weights_linear_is_model.
    exact (update_linear_is_prox_of_step up lr p gp groups_ alpha s w g).
  - intros St up lr p gp groups_ alpha M hp s w g. cbv zeta. rewrite gen_update_weights_mlp_is_model.
    exact (update_mlp_is_prox_of_step up lr p gp groups_ alpha M s w g).
Qed.

Lemma regen_unselected_inert_linear : forall d K (w : @lin_params R) (X X' : rmat),
  (forall j, In j (gen_get_selection_linear Rops d K w) -> forall i, X i j = X' i j) ->
  forall i k, (k < K)%nat -> linear_infer Rops d K (lW w) (lb w) X i k = linear_infer Rops d K (lW w) (lb w) X' i k.
Proof. intros d K w X X' H. exact (unselected_inert_linear d K (lW w) (lb w) X X' H). Qed.

Lemma regen_unselected_inert_mlp_with_C05 :
  forall (St : Type) (update_params : St -> @mlp_params R -> @mlp_params R -> St * @mlp_params R) (learning_rate : St -> R) (d h K : nat)
         alpha M hp_learning_rate s w g,
  0 <= alpha * learning_rate (fst (update_params s w g)) -> 0 <= M ->
  (forall j, (j < d)%nat -> ~ row_zero K (mWskip (snd (update_params s w g))) j) ->
  let w' := snd (gen_update_weights_mlp Rops update_params learning_rate (mlp_prox_fn d h K) (gmlp_prox_fn d h K) None alpha M hp_learning_rate s w g) in
  forall X X' : rmat, (forall j, In j (gen_get_selection_mlp Rops d h K w') -> forall i, X i j = X' i j) ->
  forall i k, (k < K)%nat ->
    sparse_mlp_infer Rops d h K (mW1 w') (mb1 w') (mW2 w') (mb2 w') (mWskip w') X i k =
    sparse_mlp_infer Rops d h K (mW1 w') (mb1 w') (mW2 w') (mb2 w') (mWskip w') X' i k.
Proof.
  intros St up lr d h K alpha M hp s w g Hthr HM Hnz w'. subst w'. rewrite gen_update_weights_mlp_is_model.
  exact (update_unselected_inert_mlp_c05 St up lr d h K alpha M s w g Hthr HM Hnz).
Qed.

Lemma regen_groups_whole_and_inert_mlp_with_C05 :
  forall (St : Type) (update_params : St -> @mlp_params R -> @mlp_params R -> St * @mlp_params R) (learning_rate : St -> R) (d h K : nat)
         gs alpha M hp_learning_rate s w g,
  groups_wf d gs -> (forall j, (j < d)%nat -> exists g0, In g0 gs /\ In j g0) ->
  0 <= alpha * learning_rate (fst (update_params s w g)) -> 0 <= M ->
  (forall g0, In g0 gs -> forall j, In j g0 -> ~ row_zero K (mWskip (snd (update_params s w g))) j) ->
  let w' := snd (gen_update_weights_mlp Rops update_params learning_rate (mlp_prox_fn d h K) (gmlp_prox_fn d h K) (Some gs) alpha M hp_learning_rate s w g) in
  (forall g0, In g0 gs -> (forall j, In j g0 -> In j (gen_get_selection_mlp Rops d h K w')) \/
                          (forall j, In j g0 -> ~ In j (gen_get_selection_mlp Rops d h K w'))) /\
  forall X X' : rmat, (forall j, In j (gen_get_selection_mlp Rops d h K w') -> forall i, X i j = X' i j) ->
  forall i k, (k < K)%nat ->
    sparse_mlp_infer Rops d h K (mW1 w') (mb1 w') (mW2 w') (mb2 w') (mWskip w') X i k =
    sparse_mlp_infer Rops d h K (mW1 w') (mb1 w') (mW2 w') (mb2 w') (mWskip w') X' i k.
Proof.
  intros St up lr d h K gs alpha M hp s w g Hwf Hcov Hthr HM Hnz w'. subst w'. rewrite gen_update_weights_mlp_is_model.
  exact (update_groups_whole_and_inert_c05 St up lr d h K gs alpha M s w g Hwf Hcov Hthr HM Hnz).
Qed.

Lemma regen_groups_whole_linear_with_C05 :
  forall (St : Type) (update_params : St -> @lin_params R -> @lin_params R -> St * @lin_params R) (learning_rate : St -> R) (d K : nat)
         gs alpha hp_learning_rate s w g, groups_wf d gs ->
  (forall g0, In g0 gs -> forall j, In j g0 -> ~ row_zero K (lW (snd (update_params s w g))) j) ->
  let w' := snd (gen_update_weights_linear Rops update_params learning_rate (lin_prox_fn d K) (glin_prox_fn d K) (Some gs) alpha hp_learning_rate s w g) in
  forall g0, In g0 gs -> (forall j, In j g0 -> In j (gen_get_selection_linear Rops d K w')) \/
                         (forall j, In j g0 -> ~ In j (gen_get_selection_linear Rops d K w')).
Proof.
  intros St up lr d K gs alpha hp s w g Hwf Hnz w'. subst w'. rewrite gen_update_weights_linear_is_model.
  exact (update_groups_whole_linear_c05 St up lr d K gs alpha s w g Hwf Hnz).
Qed.

(* fit: the attribute named by the regenerated rules receives check_groups(self.groups, X.shape[1]); an accepted list is
   completed into a partition of the features; validation precedes it and the parent's fit (training) follows it *)
Lemma regen_fit_sets_groups : forall (rules : fit_rules), rules = gen_fit_rules_linear \/ rules = gen_fit_rules_mlp ->
  fr_groups_target rules = "groups_"%string /\
  fr_steps rules = ["_validate_params"; "validate_data"; "check_groups"; "super().fit"]%string /\
  forall hp shape,
    fit_groups_with rules hp shape = fit_groups (hp "groups"%string) (shape 1%nat) /\
    (hp "groups"%string = None -> fit_groups_with rules hp shape = Some None) /\
    (forall r, fit_groups_with rules hp shape = Some (Some r) ->
       exists gs, hp "groups"%string = Some gs /\ r = (gs ++ map (fun i => [i]) (missing (concat gs) (shape 1%nat)))%list /\
                  Permutation (concat r) (seq 0 (shape 1%nat)) /\ groups_wf (shape 1%nat) r).
Proof.
  intros rules [-> | ->]; (split; [reflexivity|]; split; [reflexivity|]; intros hp shape;
    (split; [reflexivity|]; split;
      [ intros E; unfold fit_groups_with; cbn [fr_groups_source fr_shape_axis gen_fit_rules_linear gen_fit_rules_mlp]; rewrite E; reflexivity
      | intros r; unfold fit_groups_with; cbn [fr_groups_source fr_shape_axis gen_fit_rules_linear gen_fit_rules_mlp];
        destruct (hp "groups"%string) as [gs|]; cbn [fit_groups]; [|discriminate];
        destruct (check_groups gs (shape 1%nat)) as [r0|] eqn:E; [|discriminate]; intros H; injection H as <-;
        exists gs; split; [reflexivity|];
        destruct (groups_completed_partition gs (shape 1%nat) r0 E) as (H1 & _ & _ & _ & H5 & _);
        split; [exact H1|]; split; [exact H5 | exact (Proofs.Selection.check_groups_wf gs (shape 1%nat) r0 E)] ])).
Qed.
