(* Static tie between the hand-written model of the proximal operators (Model/Prox.v) and the source:
   Gen/ProxGen.v is regenerated on every build by translator/tr_prox.py from gemclus/sparse/_prox_grad.py
   (soft_threshold, linear_prox_grad, mlp_prox_grad, group_linear_prox_grad, group_mlp_prox_grad, translated whole).
   Part 1: every generated definition equals the model for ALL number systems (any NumOps T: reals, IEEE doubles,
           option R ...) and all inputs, with no side condition.  The proofs are `reflexivity` (generated term and
           model are convertible: same operations, same grouping, same arguments, same order; they differ by
           let/definition unfolding and bound-variable names) except for the hierarchical row operator, where the
           source builds a_s and s as two arrays before combining them and the model combines the cumulative sums
           with their positions first: one generic list lemma (map_combine_maps_swap) bridges the two.
           If one of these stops compiling, the code no longer applies the model's operations.
   Part 2: the C05 theorems restated on the regenerated definitions (instance Rops). *)
From Coq Require Import Reals List Bool Arith.
From GV Require Import Common.Num Common.NumR Model.Prox Gen.ProxGen Proofs.Prox.
Import ListNotations.

(* ---------------------------------------------------------------------------------------------------- *)
(* Part 1 *)
Lemma map_combine_maps_swap {A B C D E : Type} (G : C * D -> E) (f : A -> C) (g : B -> D) :
  forall (la : list A) (lb : list B),
  map G (combine (map f la) (map g lb)) = map (fun q => G (f (snd q), g (fst q))) (combine lb la).
Proof.
  induction la as [|a la IH]; intros [|b lb]; cbn [map combine]; try reflexivity.
  cbn [fst snd]. rewrite IH. reflexivity.
Qed.

Lemma gen_soft_threshold_eq : forall T (o : NumOps T) thr x, gen_soft_threshold o thr x = soft_threshold o thr x.
Proof. intros. reflexivity. Qed.
Lemma gen_linear_prox_row_eq : forall T (o : NumOps T) w alpha, gen_linear_prox_row o w alpha = linear_prox_row o w alpha.
Proof. intros. reflexivity. Qed.
Lemma gen_linear_prox_eq : forall T (o : NumOps T) W alpha, gen_linear_prox o W alpha = linear_prox o W alpha.
Proof. intros. reflexivity. Qed.
Lemma gen_mlp_prox_row_eq : forall T (o : NumOps T) v u alpha M, gen_mlp_prox_row o v u alpha M = hier_prox_row o v u alpha M.
Proof.
  intros. unfold gen_mlp_prox_row, hier_prox_row. cbv zeta.
  rewrite map_combine_maps_swap. reflexivity.
Qed.
Lemma gen_mlp_prox_eq : forall T (o : NumOps T) V U alpha M, gen_mlp_prox o V U alpha M = mlp_prox o V U alpha M.
Proof.
  intros. unfold gen_mlp_prox, mlp_prox. cbv zeta.
  rewrite (map_ext _ (fun p : list T * list T => hier_prox_row o (fst p) (snd p) alpha M))
    by (intros p; apply gen_mlp_prox_row_eq).
  reflexivity.
Qed.
Lemma gen_group_linear_prox_eq : forall T (o : NumOps T) groups W alpha,
  gen_group_linear_prox o groups W alpha = group_linear_prox o groups W alpha.
Proof. intros. reflexivity. Qed.
Lemma fold_left_ext {A B} (f g : A -> B -> A) : (forall a b, f a b = g a b) -> forall l a, fold_left f l a = fold_left g l a.
Proof. intros H. induction l as [|b l IH]; intros a; cbn [fold_left]; [reflexivity|]. rewrite H. apply IH. Qed.
Lemma gen_group_mlp_prox_eq : forall T (o : NumOps T) groups V U alpha M,
  gen_group_mlp_prox o groups V U alpha M = group_mlp_prox o groups V U alpha M.
Proof.
  intros. unfold gen_group_mlp_prox, group_mlp_prox.
  destruct (forallb _ groups); [|reflexivity]. f_equal.
  apply fold_left_ext. intros acc g. rewrite gen_mlp_prox_row_eq. reflexivity.
Qed.

(* the regenerated module IS the model the correspondence runs (all number systems, floats included) *)
Lemma gen_is_model : forall T (o : NumOps T),
  (forall thr x, gen_soft_threshold o thr x = soft_threshold o thr x) /\
  (forall w alpha, gen_linear_prox_row o w alpha = linear_prox_row o w alpha) /\
  (forall W alpha, gen_linear_prox o W alpha = linear_prox o W alpha) /\
  (forall v u alpha M, gen_mlp_prox_row o v u alpha M = hier_prox_row o v u alpha M) /\
  (forall V U alpha M, gen_mlp_prox o V U alpha M = mlp_prox o V U alpha M) /\
  (forall groups W alpha, gen_group_linear_prox o groups W alpha = group_linear_prox o groups W alpha) /\
  (forall groups V U alpha M, gen_group_mlp_prox o groups V U alpha M = group_mlp_prox o groups V U alpha M).
Proof.
  intros T o.
  exact (conj (gen_soft_threshold_eq T o) (conj (gen_linear_prox_row_eq T o) (conj (gen_linear_prox_eq T o)
        (conj (gen_mlp_prox_row_eq T o) (conj (gen_mlp_prox_eq T o) (conj (gen_group_linear_prox_eq T o)
        (gen_group_mlp_prox_eq T o))))))).
Qed.

(* ---------------------------------------------------------------------------------------------------- *)
(* Part 2: the theorems of Proofs/Prox.v on the regenerated definitions *)
Open Scope R_scope.
Lemma gen_group_lasso_optimal_unique : forall w z alpha, 0 <= alpha -> length z = length w ->
  J_lasso alpha w z - J_lasso alpha w (gen_linear_prox_row Rops w alpha)
    >= / 2 * sqnorm (lsub z (gen_linear_prox_row Rops w alpha)).
Proof. intros w z alpha. rewrite gen_linear_prox_row_eq. apply group_lasso_optimal_unique. Qed.
Lemma gen_group_lasso_closed_form : forall w alpha,
  (rnorm w <= alpha -> gen_linear_prox_row Rops w alpha = repeat 0 (length w)) /\
  (alpha < rnorm w -> gen_linear_prox_row Rops w alpha = map (fun x => (1 - alpha / rnorm w) * x) w).
Proof. intros w alpha. rewrite gen_linear_prox_row_eq. apply group_lasso_closed_form. Qed.
Lemma gen_hier_prox_feasible_optimal : forall v u alpha M, 0 <= alpha -> 0 <= M -> 0 < rnorm v ->
  let '(bs, ts) := gen_mlp_prox_row Rops v u alpha M in
  feasible M bs ts /\
  forall beta theta, length beta = length v -> length theta = length u -> feasible M beta theta ->
    J_hier alpha v u bs ts <= J_hier alpha v u beta theta.
Proof. intros v u alpha M. rewrite gen_mlp_prox_row_eq. apply hier_prox_feasible_optimal. Qed.
Lemma gen_matrix_rows : forall W V U alpha M j,
  nth j (gen_linear_prox Rops W alpha) [] = gen_linear_prox_row Rops (nth j W []) alpha /\
  (length V = length U -> (j < length V)%nat ->
   (nth j (fst (gen_mlp_prox Rops V U alpha M)) [], nth j (snd (gen_mlp_prox Rops V U alpha M)) [])
   = gen_mlp_prox_row Rops (nth j V []) (nth j U []) alpha M).
Proof.
  intros. rewrite gen_linear_prox_eq, gen_mlp_prox_eq, gen_linear_prox_row_eq, gen_mlp_prox_row_eq.
  split; [apply linear_prox_rows | apply mlp_prox_rows].
Qed.
Lemma gen_group_linear_spec : forall groups W alpha h,
  Forall (fun r => length r = h) W -> groups_wf (length W) groups ->
  exists R, gen_group_linear_prox Rops groups W alpha = Some R /\ length R = length W /\
    (forall g, In g groups ->
       let star := gen_linear_prox_row Rops (flatten (gather W g)) alpha in
       map (fun i => nth i R None) g = map Some (unflatten (length g) h star) /\
       flatten (unflatten (length g) h star) = star /\
       exists c, forall i, In i g -> nth i R None = Some (map (Rmult c) (nth i W []))) /\
    (forall i, ~ In i (concat groups) -> nth i R None = None).
Proof. intros groups W alpha h. rewrite gen_group_linear_prox_eq. exact (group_linear_spec groups W alpha h). Qed.
Lemma gen_group_mlp_spec : forall groups V U alpha M hv hu, length V = length U ->
  Forall (fun r => length r = hv) V -> Forall (fun r => length r = hu) U -> groups_wf (length V) groups ->
  exists RV RU, gen_group_mlp_prox Rops groups V U alpha M = Some (RV, RU) /\
    length RV = length V /\ length RU = length U /\
    (forall g, In g groups ->
       let star := gen_mlp_prox_row Rops (flatten (gather V g)) (flatten (gather U g)) alpha M in
       map (fun i => nth i RV None) g = map Some (unflatten (length g) hv (fst star)) /\
       map (fun i => nth i RU None) g = map Some (unflatten (length g) hu (snd star)) /\
       flatten (unflatten (length g) hv (fst star)) = fst star /\
       flatten (unflatten (length g) hu (snd star)) = snd star /\
       exists x w, forall i, In i g ->
         nth i RV None = Some (map (Rmult x) (nth i V [])) /\ nth i RU None = Some (map (hclip w) (nth i U []))) /\
    (forall i, ~ In i (concat groups) -> nth i RV None = None /\ nth i RU None = None).
Proof.
  intros groups V U alpha M hv hu. rewrite gen_group_mlp_prox_eq.
  intros H1 H2 H3 H4. destruct (group_mlp_spec groups V U alpha M hv hu H1 H2 H3 H4) as (RV & RU & E & L1 & L2 & Hg & Hn).
  exists RV, RU. split; [exact E|]. split; [exact L1|]. split; [exact L2|]. split; [|exact Hn].
  intros g Hin. rewrite gen_mlp_prox_row_eq. exact (Hg g Hin).
Qed.
