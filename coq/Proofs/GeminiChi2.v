(* Pearson chi-square GEMINI (one-vs-all and one-vs-one): score = definition up to the family's fixed
   affine convention (chi2 + 1) / 2 (C01), gradient = derivative of the score (C02), and the C13 facts
   (lower bound 1/2, value 1/2 at independence, permutation invariance / equivariance). *)
From Coq Require Import Reals Lra Lia Psatz.
From Coquelicot Require Import Coquelicot.
From GV Require Import Common.Num Common.NumR Model.Gemini Proofs.RSumLib Proofs.GeminiDefs.
Open Scope R_scope.

(* ------------------------------------------------------------------ clean (unclipped) forms *)
(* alpha_i = sum_k p_ik^2 / pi_k ; beta_i = sum_k pi_k^2 / p_ik, written with the code's quotients *)
Definition ch_a (n K : nat) (p : mat) (i : nat) : R := rsum K (fun k => p i k * (p i k / pi0 n p k)).
Definition ch_b (n K : nat) (p : mat) (i : nat) : R := rsum K (fun k => pi0 n p k / (p i k / pi0 n p k)).
Definition chc (n K : nat) (p : mat) : R := / 2 * (rsum n (fun i => ch_a n K p i) / INR n).
Definition cho (n K : nat) (p : mat) : R := / 2 * (rsum n (fun i => ch_a n K p i * ch_b n K p i) / INR n).
Definition chc_grad (n K : nat) (p : mat) (i k : nat) : R :=
  / 2 * ((2 * (p i k / pi0 n p k)
          - rsum n (fun j => p j k / pi0 n p k * (p j k / pi0 n p k)) / INR n) / INR n).
Definition cho_grad (n K : nat) (p : mat) (i k : nat) : R :=
  / 2 * ((2 * (ch_b n K p i * (p i k / pi0 n p k)) - ch_a n K p i / (p i k / pi0 n p k) / (p i k / pi0 n p k)
          + rsum n (fun j => 2 * (ch_a n K p j / (p j k / pi0 n p k))
                             - ch_b n K p j * (p j k / pi0 n p k) * (p j k / pi0 n p k)) / INR n) / INR n).

Lemma half_R : half Rops = / 2.
Proof. unfold half, n2. cbn [ndiv nadd n1 Rops]. lra. Qed.
Lemma two_R : two Rops = 2.
Proof. unfold two, n2. cbn [nadd n1 Rops]. lra. Qed.

Section ChiInterior.
Variables (eps : R) (n K : nat) (Y : mat).
Hypothesis HI : interior eps n K Y.
Lemma chi_cwe_interior i k : (i < n)%nat -> (k < K)%nat -> chi_cwe Rops eps n Y i k = Y i k / pi0 n Y k.
Proof.
  intros Hi Hk. unfold chi_cwe. cbn [ndiv Rops].
  rewrite (P_interior eps n K Y HI) by assumption. rewrite (pi_interior eps n K Y HI) by assumption. reflexivity.
Qed.
Lemma chi_alpha_interior i : (i < n)%nat -> chi_alpha Rops eps n K Y i = ch_a n K Y i.
Proof.
  intros Hi. unfold chi_alpha, ch_a. fold (rsum K). apply rsum_ext. intros k Hk. cbn [nmul Rops].
  rewrite chi_cwe_interior by assumption. rewrite (P_interior eps n K Y HI) by assumption. reflexivity.
Qed.
Lemma chi_beta_interior i : (i < n)%nat -> chi_beta Rops eps n K Y i = ch_b n K Y i.
Proof.
  intros Hi. unfold chi_beta, ch_b. fold (rsum K). apply rsum_ext. intros k Hk. cbn [ndiv Rops].
  rewrite chi_cwe_interior by assumption. rewrite (pi_interior eps n K Y HI) by assumption. reflexivity.
Qed.
End ChiInterior.

Lemma chi_score_interior eps n K Y ovo : interior eps n K Y ->
  chi_score Rops eps n K Y ovo = if ovo then cho n K Y else chc n K Y.
Proof.
  intros HI. unfold chi_score, chc, cho, mean, ofn. rewrite half_R.
  cbn [nmul ndiv nofnat Rops]. fold (rsum n).
  destruct ovo; f_equal; f_equal; apply rsum_ext; intros i Hi.
  - rewrite (chi_alpha_interior eps n K Y HI), (chi_beta_interior eps n K Y HI) by assumption. reflexivity.
  - apply (chi_alpha_interior eps n K Y HI). exact Hi.
Qed.

Lemma chi_grad_interior eps n K Y ovo i k : interior eps n K Y -> (i < n)%nat -> (k < K)%nat ->
  chi_grad Rops eps n K Y ovo i k = if ovo then cho_grad n K Y i k else chc_grad n K Y i k.
Proof.
  intros HI Hi Hk. unfold chi_grad, chc_grad, cho_grad, mean, ofn.
  rewrite (maskT_interior eps n K Y HI) by assumption. rewrite half_R, two_R.
  cbn [nadd nsub nmul ndiv nofnat Rops]. fold (rsum n). rewrite Rmult_1_r.
  rewrite (chi_cwe_interior eps n K Y HI) by assumption.
  destruct ovo.
  - rewrite (chi_alpha_interior eps n K Y HI), (chi_beta_interior eps n K Y HI) by assumption.
    f_equal. f_equal. f_equal. f_equal. apply rsum_ext. intros j Hj.
    rewrite (chi_cwe_interior eps n K Y HI) by assumption.
    rewrite (chi_alpha_interior eps n K Y HI), (chi_beta_interior eps n K Y HI) by assumption. reflexivity.
  - f_equal. f_equal. f_equal. f_equal. apply rsum_ext. intros j Hj.
    rewrite (chi_cwe_interior eps n K Y HI) by assumption. reflexivity.
Qed.

(* ------------------------------------------------------------------ C02: derivative *)
Lemma d_sq_over (a b s r : R) : s <> 0 ->
  is_derive (fun t : R => (a + t * b) * ((a + t * b) / (s + t * r))) 0 (2 * a * b / s - a * a * r / (s * s)).
Proof.
  intros Hs. auto_derive.
  - rewrite Rmult_0_l, Rplus_0_r. exact Hs.
  - rewrite !Rmult_0_l, !Rplus_0_r. field. exact Hs.
Qed.
Lemma d_over_quot (a b s r : R) : a <> 0 -> s <> 0 ->
  is_derive (fun t : R => (s + t * r) / ((a + t * b) / (s + t * r))) 0 (2 * s * r / a - s * s * b / (a * a)).
Proof.
  intros Ha Hs. auto_derive.
  - rewrite !Rmult_0_l, !Rplus_0_r. repeat split; [exact Hs|].
    apply Rmult_integral_contrapositive_currified; [exact Ha | apply Rinv_neq_0_compat; exact Hs].
  - rewrite !Rmult_0_l, !Rplus_0_r. field. split; assumption.
Qed.

(* derivative of alpha_i and beta_i along the perturbation, and their values at t = 0 *)
Definition ch_a' (n K : nat) (p d : mat) (i : nat) : R :=
  rsum K (fun k => 2 * p i k * d i k / pi0 n p k - p i k * p i k * pi0 n d k / (pi0 n p k * pi0 n p k)).
Definition ch_b' (n K : nat) (p d : mat) (i : nat) : R :=
  rsum K (fun k => 2 * pi0 n p k * pi0 n d k / p i k - pi0 n p k * pi0 n p k * d i k / (p i k * p i k)).

Lemma ch_a_derive n K p d i : (forall k, (k < K)%nat -> pi0 n p k <> 0) ->
  is_derive (fun t : R => ch_a n K (pert p d t) i) 0 (ch_a' n K p d i).
Proof.
  intros Hs. unfold ch_a, ch_a'.
  apply (dR_rsum K (fun k t => pert p d t i k * (pert p d t i k / pi0 n (pert p d t) k))).
  intros k Hk.
  apply (dR_ext (fun t : R => (p i k + t * d i k) * ((p i k + t * d i k) / (pi0 n p k + t * pi0 n d k)))).
  { intros t. rewrite pi0_pert. reflexivity. }
  apply d_sq_over. apply Hs. exact Hk.
Qed.
Lemma ch_b_derive n K p d i : (forall k, (k < K)%nat -> pi0 n p k <> 0) -> (forall k, (k < K)%nat -> p i k <> 0) ->
  is_derive (fun t : R => ch_b n K (pert p d t) i) 0 (ch_b' n K p d i).
Proof.
  intros Hs Ha. unfold ch_b, ch_b'.
  apply (dR_rsum K (fun k t => pi0 n (pert p d t) k / (pert p d t i k / pi0 n (pert p d t) k))).
  intros k Hk.
  apply (dR_ext (fun t : R => (pi0 n p k + t * pi0 n d k) / ((p i k + t * d i k) / (pi0 n p k + t * pi0 n d k)))).
  { intros t. rewrite pi0_pert. reflexivity. }
  apply d_over_quot; [apply Ha | apply Hs]; exact Hk.
Qed.
Lemma ch_a_pert0 n K p d i : ch_a n K (pert p d 0) i = ch_a n K p i.
Proof.
  unfold ch_a. apply rsum_ext. intros k Hk. rewrite pi0_pert. unfold pert.
  rewrite !Rmult_0_l, !Rplus_0_r. reflexivity.
Qed.
Lemma ch_b_pert0 n K p d i : ch_b n K (pert p d 0) i = ch_b n K p i.
Proof.
  unfold ch_b. apply rsum_ext. intros k Hk. rewrite pi0_pert. unfold pert.
  rewrite !Rmult_0_l, !Rplus_0_r. reflexivity.
Qed.

(* the common shape of both gradients: a direct part U and a part V that acts through the column mean *)
Lemma grad_shape n (U V d : nat -> R) : INR n <> 0 ->
  rsum n (fun i => / 2 * ((U i + rsum n V / INR n) / INR n) * d i)
  = / 2 * (rsum n (fun i => U i * d i + rsum n d / INR n * V i) / INR n).
Proof.
  intros HN.
  rewrite (rsum_ext n _ (fun i => / 2 / INR n * (U i * d i) + / 2 / INR n * (rsum n V / INR n) * d i)).
  2:{ intros i Hi. field. exact HN. }
  rewrite rsum_plus, !rsum_scal.
  rewrite (rsum_plus n (fun i => U i * d i)), rsum_scal. field. exact HN.
Qed.

Theorem chc_derive n K p d :
  (0 < n)%nat -> (forall i k, (i < n)%nat -> (k < K)%nat -> 0 < p i k) ->
  is_derive (fun t : R => chc n K (pert p d t)) 0 (inner n K (chc_grad n K p) d).
Proof.
  intros Hn Hp. unfold chc, inner.
  assert (HN : 0 < INR n) by (apply lt_0_INR; lia).
  assert (HS0 : forall k, (k < K)%nat -> 0 < pi0 n p k) by (intros; apply (pi0_pos n K); auto).
  assert (H : is_derive (fun t : R => / 2 * (rsum n (fun i => ch_a n K (pert p d t) i) / INR n)) 0
                (/ 2 * (rsum n (fun i => ch_a' n K p d i) / INR n))).
  { apply dR_scal. apply dR_divc. apply (dR_rsum n (fun i t => ch_a n K (pert p d t) i)).
    intros i Hi. apply ch_a_derive. intros k Hk. specialize (HS0 k Hk). lra. }
  eapply dR_val; [|exact H].
  unfold ch_a'. rewrite !(rsum_swap n K).
  rewrite <- rsum_divc, <- rsum_scal. apply rsum_ext. intros k Hk. specialize (HS0 k Hk).
  unfold chc_grad.
  rewrite (rsum_ext n (fun i => / 2 * ((2 * (p i k / pi0 n p k)
             - rsum n (fun j => p j k / pi0 n p k * (p j k / pi0 n p k)) / INR n) / INR n) * d i k)
           (fun i => / 2 * ((2 * (p i k / pi0 n p k)
             + rsum n (fun j => - (p j k / pi0 n p k * (p j k / pi0 n p k))) / INR n) / INR n) * d i k)).
  2:{ intros i Hi. rewrite rsum_opp. field. lra. }
  rewrite (grad_shape n (fun i => 2 * (p i k / pi0 n p k)) (fun j => - (p j k / pi0 n p k * (p j k / pi0 n p k)))
             (fun i => d i k)) by lra.
  f_equal. f_equal. apply rsum_ext. intros i Hi. fold (pi0 n d k). field. lra.
Qed.

Theorem cho_derive n K p d :
  (0 < n)%nat -> (forall i k, (i < n)%nat -> (k < K)%nat -> 0 < p i k) ->
  is_derive (fun t : R => cho n K (pert p d t)) 0 (inner n K (cho_grad n K p) d).
Proof.
  intros Hn Hp. unfold cho, inner.
  assert (HN : 0 < INR n) by (apply lt_0_INR; lia).
  assert (HS0 : forall k, (k < K)%nat -> 0 < pi0 n p k) by (intros; apply (pi0_pos n K); auto).
  assert (H : is_derive (fun t : R => / 2 * (rsum n (fun i => ch_a n K (pert p d t) i * ch_b n K (pert p d t) i) / INR n)) 0
                (/ 2 * (rsum n (fun i => ch_a' n K p d i * ch_b n K p i + ch_a n K p i * ch_b' n K p d i) / INR n))).
  { apply dR_scal. apply dR_divc.
    apply (dR_rsum n (fun i t => ch_a n K (pert p d t) i * ch_b n K (pert p d t) i)).
    intros i Hi.
    assert (Ha : is_derive (fun t : R => ch_a n K (pert p d t) i) 0 (ch_a' n K p d i)).
    { apply ch_a_derive. intros k Hk. specialize (HS0 k Hk). lra. }
    assert (Hb : is_derive (fun t : R => ch_b n K (pert p d t) i) 0 (ch_b' n K p d i)).
    { apply ch_b_derive; intros k Hk; [specialize (HS0 k Hk) | specialize (Hp i k Hi Hk)]; lra. }
    eapply dR_val; [|exact (dR_mult _ _ 0 _ _ Ha Hb)].
    cbn beta. rewrite ch_a_pert0, ch_b_pert0. reflexivity. }
  eapply dR_val; [|exact H].
  (* bring both sides to sum_k sum_i *)
  rewrite (rsum_ext n (fun i => ch_a' n K p d i * ch_b n K p i + ch_a n K p i * ch_b' n K p d i)
    (fun i => rsum K (fun k =>
        (2 * p i k * d i k / pi0 n p k - p i k * p i k * pi0 n d k / (pi0 n p k * pi0 n p k)) * ch_b n K p i
      + ch_a n K p i * (2 * pi0 n p k * pi0 n d k / p i k - pi0 n p k * pi0 n p k * d i k / (p i k * p i k))))).
  2:{ intros i Hi. unfold ch_a', ch_b'. rewrite rsum_plus, rsum_scal_r, rsum_scal. reflexivity. }
  rewrite !(rsum_swap n K).
  rewrite <- rsum_divc, <- rsum_scal. apply rsum_ext. intros k Hk. specialize (HS0 k Hk).
  unfold cho_grad.
  rewrite (grad_shape n
             (fun i => 2 * (ch_b n K p i * (p i k / pi0 n p k)) - ch_a n K p i / (p i k / pi0 n p k) / (p i k / pi0 n p k))
             (fun j => 2 * (ch_a n K p j / (p j k / pi0 n p k)) - ch_b n K p j * (p j k / pi0 n p k) * (p j k / pi0 n p k))
             (fun i => d i k)) by lra.
  f_equal. f_equal. apply rsum_ext. intros i Hi. specialize (Hp i k Hi Hk).
  fold (pi0 n d k). field. lra.
Qed.

(* ------------------------------------------------------------------ C01: score = (chi2 GEMINI + 1) / 2 *)
Lemma rsum_mul n m (f g : nat -> R) : rsum n f * rsum m g = rsum n (fun a => rsum m (fun b => f a * g b)).
Proof. rewrite <- rsum_scal_r. apply rsum_ext. intros a Ha. rewrite rsum_scal. reflexivity. Qed.

Lemma col_sum n p k : INR n <> 0 -> rsum n (fun i => p i k) = INR n * pi0 n p k.
Proof. intros HN. unfold pi0. field. exact HN. Qed.

(* pi_k * chi2( p(x|y=k) || p(x) ) = (1/n) sum_i p_ik^2 / pi_k - pi_k *)
Lemma chi2_ova_term n K p k : (0 < n)%nat -> (forall i k, (i < n)%nat -> (k < K)%nat -> 0 < p i k) -> (k < K)%nat ->
  pi0 n p k * Chi2 n (cond n p k) (unif n) = rsum n (fun i => p i k * (p i k / pi0 n p k)) / INR n - pi0 n p k.
Proof.
  intros Hn Hp Hk. assert (HN : 0 < INR n) by (apply lt_0_INR; lia).
  assert (Hpi : 0 < pi0 n p k) by (apply (pi0_pos n K); auto).
  unfold Chi2.
  rewrite (rsum_ext n (fun i => (cond n p k i - unif n i) ^ 2 / unif n i)
            (fun i => (p i k * (p i k / pi0 n p k) * / pi0 n p k - 2 * / pi0 n p k * p i k + 1) / INR n)).
  2:{ intros i Hi. unfold cond, unif. field. lra. }
  rewrite rsum_divc, rsum_plus, rsum_minus, rsum_scal_r, rsum_scal, rsum_const.
  rewrite (col_sum n p k) by lra. field. lra.
Qed.

Lemma chc_is_definition n K p : (0 < n)%nat -> (forall i k, (i < n)%nat -> (k < K)%nat -> 0 < p i k) ->
  row_stochastic n K p ->
  chc n K p = (gemini_ova n K p (Chi2 n) + 1) / 2.
Proof.
  intros Hn Hp Hrow. assert (HN : 0 < INR n) by (apply lt_0_INR; lia).
  assert (Hsum : rsum K (fun k => pi0 n p k) = 1) by (apply pi0_sum_one; auto).
  unfold gemini_ova.
  rewrite (rsum_ext K _ (fun k => rsum n (fun i => p i k * (p i k / pi0 n p k)) / INR n - pi0 n p k)).
  2:{ intros k Hk. apply (chi2_ova_term n K); assumption. }
  rewrite (rsum_minus K _ (fun k => pi0 n p k)), Hsum, rsum_divc, <- (rsum_swap n K).
  unfold chc, ch_a. field. lra.
Qed.

(* pi_a pi_b chi2( p(x|y=a) || p(x|y=b) ) = (1/n) sum_i (p_ia^2/pi_a) (pi_b^2/p_ib) - pi_a pi_b *)
Lemma chi2_ovo_term n K p a b : (0 < n)%nat -> (forall i k, (i < n)%nat -> (k < K)%nat -> 0 < p i k) ->
  (a < K)%nat -> (b < K)%nat ->
  pi0 n p a * pi0 n p b * Chi2 n (cond n p a) (cond n p b)
  = rsum n (fun i => p i a * (p i a / pi0 n p a) * (pi0 n p b / (p i b / pi0 n p b))) / INR n - pi0 n p a * pi0 n p b.
Proof.
  intros Hn Hp Ha Hb. assert (HN : 0 < INR n) by (apply lt_0_INR; lia).
  assert (Hpa : 0 < pi0 n p a) by (apply (pi0_pos n K); auto).
  assert (Hpb : 0 < pi0 n p b) by (apply (pi0_pos n K); auto).
  unfold Chi2.
  rewrite (rsum_ext n (fun i => (cond n p a i - cond n p b i) ^ 2 / cond n p b i)
            (fun i => (/ (pi0 n p a * pi0 n p b) * (p i a * (p i a / pi0 n p a) * (pi0 n p b / (p i b / pi0 n p b)))
                       - 2 * / pi0 n p a * p i a + / pi0 n p b * p i b) / INR n)).
  2:{ intros i Hi. assert (0 < p i a) by (apply Hp; auto). assert (0 < p i b) by (apply Hp; auto).
      unfold cond. field. lra. }
  rewrite rsum_divc, rsum_plus, rsum_minus, !rsum_scal.
  rewrite (col_sum n p a), (col_sum n p b) by lra. field. lra.
Qed.

Lemma cho_is_definition n K p : (0 < n)%nat -> (forall i k, (i < n)%nat -> (k < K)%nat -> 0 < p i k) ->
  row_stochastic n K p ->
  cho n K p = (gemini_ovo n K p (Chi2 n) + 1) / 2.
Proof.
  intros Hn Hp Hrow. assert (HN : 0 < INR n) by (apply lt_0_INR; lia).
  assert (Hsum : rsum K (fun k => pi0 n p k) = 1) by (apply pi0_sum_one; auto).
  unfold gemini_ovo.
  rewrite (rsum_ext K _ (fun a => rsum K (fun b =>
     rsum n (fun i => p i a * (p i a / pi0 n p a) * (pi0 n p b / (p i b / pi0 n p b))) / INR n - pi0 n p a * pi0 n p b))).
  2:{ intros a Ha. apply rsum_ext. intros b Hb. apply (chi2_ovo_term n K); assumption. }
  assert (E1 : rsum K (fun a => rsum K (fun b => pi0 n p a * pi0 n p b)) = 1).
  { rewrite <- (rsum_mul K K (fun a => pi0 n p a) (fun b => pi0 n p b)), Hsum. lra. }
  assert (E2 : rsum K (fun a => rsum K (fun b =>
                 rsum n (fun i => p i a * (p i a / pi0 n p a) * (pi0 n p b / (p i b / pi0 n p b))) / INR n))
             = rsum n (fun i => ch_a n K p i * ch_b n K p i) / INR n).
  { rewrite <- rsum_divc. 
    rewrite (rsum_ext K _ (fun a => rsum n (fun i => rsum K (fun b =>
               p i a * (p i a / pi0 n p a) * (pi0 n p b / (p i b / pi0 n p b)) / INR n)))).
    2:{ intros a Ha. rewrite (rsum_swap n K). apply rsum_ext. intros b Hb. rewrite rsum_divc. reflexivity. }
    rewrite (rsum_swap K n). apply rsum_ext. intros i Hi.
    unfold ch_a, ch_b. unfold Rdiv at 5. rewrite rsum_mul, <- rsum_scal_r.
    apply rsum_ext. intros a Ha. rewrite <- rsum_scal_r. reflexivity. }
  rewrite (rsum_ext K _ (fun a => rsum K (fun b =>
      rsum n (fun i => p i a * (p i a / pi0 n p a) * (pi0 n p b / (p i b / pi0 n p b))) / INR n)
      - rsum K (fun b => pi0 n p a * pi0 n p b))).
  2:{ intros a Ha. rewrite rsum_minus. reflexivity. }
  rewrite rsum_minus, E1, E2. unfold cho. field. lra.
Qed.

(* ------------------------------------------------------------------ final statements about the model *)
(* No tangent hypothesis is needed: the code's gradient is the full (unconstrained) gradient of the
   score seen as a rational function of the n*K positive entries. *)
Theorem chi_grad_is_derivative eps n K P D ovo : 0 <= eps -> (0 < n)%nat -> interior eps n K P ->
  is_derive (fun t : R => chi_score Rops eps n K (pert P D t) ovo) 0 (inner n K (chi_grad Rops eps n K P ovo) D).
Proof.
  intros He Hn HI. pose proof (interior_pos eps n K P He HI) as Hp.
  apply (lift_derivative (fun Y => chi_score Rops eps n K Y ovo) (fun Y => if ovo then cho n K Y else chc n K Y)
           (chi_grad Rops eps n K P ovo) (if ovo then cho_grad n K P else chc_grad n K P) eps n K P D).
  - intros Y HY. apply chi_score_interior. exact HY.
  - intros i k Hi Hk. rewrite (chi_grad_interior eps n K P ovo i k HI Hi Hk). destruct ovo; reflexivity.
  - exact HI.
  - destruct ovo; [apply cho_derive | apply chc_derive]; assumption.
Qed.
Theorem chi_score_is_definition eps n K P ovo : 0 <= eps -> (0 < n)%nat -> interior eps n K P -> row_stochastic n K P ->
  chi_score Rops eps n K P ovo = ((if ovo then gemini_ovo n K P (Chi2 n) else gemini_ova n K P (Chi2 n)) + 1) / 2.
Proof.
  intros He Hn HI Hr. pose proof (interior_pos eps n K P He HI) as Hp. rewrite chi_score_interior by exact HI.
  destruct ovo; [apply cho_is_definition | apply chc_is_definition]; assumption.
Qed.

(* ------------------------------------------------------------------ C13: bounds *)
Lemma Chi2_nonneg n a b : (forall i, (i < n)%nat -> 0 < b i) -> 0 <= Chi2 n a b.
Proof.
  intros Hb. unfold Chi2. apply rsum_nonneg. intros i Hi. specialize (Hb i Hi).
  unfold Rdiv. apply Rmult_le_pos; [apply pow2_ge_0 | apply Rlt_le, Rinv_0_lt_compat; exact Hb].
Qed.
Lemma cond_pos n K p k i : (0 < n)%nat -> (forall i k, (i < n)%nat -> (k < K)%nat -> 0 < p i k) ->
  (k < K)%nat -> (i < n)%nat -> 0 < cond n p k i.
Proof.
  intros Hn Hp Hk Hi. unfold cond. apply Rdiv_lt_0_compat; [apply Hp; assumption|].
  apply Rmult_lt_0_compat; [apply lt_0_INR; lia | apply (pi0_pos n K); assumption].
Qed.
(* the underlying chi-square GEMINI is non-negative, i.e. the code's score is at least 1/2 *)
Theorem chi_ge_half eps n K P ovo : 0 <= eps -> (0 < n)%nat -> interior eps n K P -> row_stochastic n K P ->
  1 / 2 <= chi_score Rops eps n K P ovo.
Proof.
  intros He Hn HI Hr. pose proof (interior_pos eps n K P He HI) as Hp.
  rewrite (chi_score_is_definition eps n K P ovo He Hn HI Hr).
  assert (HN : 0 < INR n) by (apply lt_0_INR; lia).
  assert (Hpi : forall k, (k < K)%nat -> 0 < pi0 n P k) by (intros; apply (pi0_pos n K); auto).
  assert (G : 0 <= (if ovo then gemini_ovo n K P (Chi2 n) else gemini_ova n K P (Chi2 n))).
  { destruct ovo; unfold gemini_ovo, gemini_ova.
    - apply rsum_nonneg. intros a Ha. apply rsum_nonneg. intros b Hb.
      apply Rmult_le_pos; [apply Rmult_le_pos; apply Rlt_le, Hpi; assumption|].
      apply Chi2_nonneg. intros i Hi. apply (cond_pos n K); assumption.
    - apply rsum_nonneg. intros k Hk. apply Rmult_le_pos; [apply Rlt_le, Hpi; assumption|].
      apply Chi2_nonneg. intros i Hi. unfold unif. apply Rinv_0_lt_compat. exact HN. }
  lra.
Qed.

(* predictions that do not depend on the sample: the chi-square GEMINI vanishes, the score is 1/2 *)
Theorem chi_independent_half eps n K P ovo : 0 <= eps -> (0 < n)%nat -> interior eps n K P -> row_stochastic n K P ->
  (forall i j k, (i < n)%nat -> (j < n)%nat -> (k < K)%nat -> P i k = P j k) ->
  chi_score Rops eps n K P ovo = 1 / 2.
Proof.
  intros He Hn HI Hr Heq. pose proof (interior_pos eps n K P He HI) as Hp.
  rewrite chi_score_interior by exact HI.
  assert (HN : 0 < INR n) by (apply lt_0_INR; lia).
  assert (Hpi : forall i k, (i < n)%nat -> (k < K)%nat -> pi0 n P k = P i k).
  { intros i k Hi Hk. unfold pi0. rewrite (rsum_ext n _ (fun _ => P i k)) by (intros j Hj; apply Heq; assumption).
    rewrite rsum_const. field. lra. }
  assert (Ha : forall i, (i < n)%nat -> ch_a n K P i = 1).
  { intros i Hi. unfold ch_a. rewrite <- (Hr i Hi). apply rsum_ext. intros k Hk.
    rewrite (Hpi i k Hi Hk). specialize (Hp i k Hi Hk). field. lra. }
  assert (Hb : forall i, (i < n)%nat -> ch_b n K P i = 1).
  { intros i Hi. unfold ch_b. rewrite <- (Hr i Hi). apply rsum_ext. intros k Hk.
    rewrite (Hpi i k Hi Hk). specialize (Hp i k Hi Hk). field. lra. }
  destruct ovo; unfold cho, chc.
  - rewrite (rsum_ext n _ (fun _ => 1)) by (intros i Hi; rewrite Ha, Hb by assumption; lra).
    rewrite rsum_const. field. lra.
  - rewrite (rsum_ext n _ (fun _ => 1)) by (intros i Hi; apply Ha; assumption).
    rewrite rsum_const. field. lra.
Qed.

(* ------------------------------------------------------------------ C13: permutations (no interior needed) *)
Section PermSamples.
Variables (eps : R) (n K : nat) (Y : mat) (s : nat -> nat).
Hypothesis Hs : perm_on n s.
Let Ys : mat := fun i k => Y (s i) k.
Lemma pi_perm_samples k : pi Rops eps n Ys k = pi Rops eps n Y k.
Proof.
  unfold pi, mean. f_equal. fold (rsum n).
  exact (rsum_perm n s (fun i => P Rops eps Y i k) Hs).
Qed.
Lemma chi_cwe_perm_samples i k : chi_cwe Rops eps n Ys i k = chi_cwe Rops eps n Y (s i) k.
Proof. unfold chi_cwe. rewrite pi_perm_samples. reflexivity. Qed.
Lemma chi_alpha_perm_samples i : chi_alpha Rops eps n K Ys i = chi_alpha Rops eps n K Y (s i).
Proof.
  unfold chi_alpha. fold (rsum K). apply rsum_ext. intros k Hk. rewrite chi_cwe_perm_samples. reflexivity.
Qed.
Lemma chi_beta_perm_samples i : chi_beta Rops eps n K Ys i = chi_beta Rops eps n K Y (s i).
Proof.
  unfold chi_beta. fold (rsum K). apply rsum_ext. intros k Hk.
  rewrite chi_cwe_perm_samples, pi_perm_samples. reflexivity.
Qed.
Theorem chi_perm_samples ovo :
  chi_score Rops eps n K (fun i k => Y (s i) k) ovo = chi_score Rops eps n K Y ovo.
Proof.
  fold Ys. unfold chi_score, mean. f_equal. fold (rsum n). destruct ovo; f_equal.
  - rewrite (rsum_ext n _ (fun i => (fun j => nmul Rops (chi_alpha Rops eps n K Y j) (chi_beta Rops eps n K Y j)) (s i))).
    2:{ intros i Hi. rewrite chi_alpha_perm_samples, chi_beta_perm_samples. reflexivity. }
    exact (rsum_perm n s (fun j => nmul Rops (chi_alpha Rops eps n K Y j) (chi_beta Rops eps n K Y j)) Hs).
  - rewrite (rsum_ext n _ (fun i => chi_alpha Rops eps n K Y (s i))).
    2:{ intros i Hi. apply chi_alpha_perm_samples. }
    apply (rsum_perm n s (chi_alpha Rops eps n K Y)). exact Hs.
Qed.
(* the gradient rows are permuted accordingly *)
Theorem chi_grad_perm_samples ovo i k :
  chi_grad Rops eps n K (fun i k => Y (s i) k) ovo i k = chi_grad Rops eps n K Y ovo (s i) k.
Proof.
  fold Ys. unfold chi_grad, mean.
  change (maskT Rops eps Ys i k) with (maskT Rops eps Y (s i) k).
  f_equal. f_equal. f_equal. fold (rsum n). destruct ovo.
  - rewrite !chi_cwe_perm_samples, chi_alpha_perm_samples, chi_beta_perm_samples. f_equal. f_equal.
    rewrite (rsum_ext n _ (fun j => (fun j' =>
        nsub Rops (nmul Rops (two Rops) (ndiv Rops (chi_alpha Rops eps n K Y j') (chi_cwe Rops eps n Y j' k)))
                  (nmul Rops (nmul Rops (chi_beta Rops eps n K Y j') (chi_cwe Rops eps n Y j' k)) (chi_cwe Rops eps n Y j' k))) (s j))).
    2:{ intros j Hj. rewrite !chi_cwe_perm_samples, chi_alpha_perm_samples, chi_beta_perm_samples. reflexivity. }
    exact (rsum_perm n s (fun j' =>
        nsub Rops (nmul Rops (two Rops) (ndiv Rops (chi_alpha Rops eps n K Y j') (chi_cwe Rops eps n Y j' k)))
                  (nmul Rops (nmul Rops (chi_beta Rops eps n K Y j') (chi_cwe Rops eps n Y j' k)) (chi_cwe Rops eps n Y j' k))) Hs).
  - rewrite chi_cwe_perm_samples. f_equal. f_equal.
    rewrite (rsum_ext n _ (fun j => (fun j' => nmul Rops (chi_cwe Rops eps n Y j' k) (chi_cwe Rops eps n Y j' k)) (s j))).
    2:{ intros j Hj. rewrite !chi_cwe_perm_samples. reflexivity. }
    exact (rsum_perm n s (fun j' => nmul Rops (chi_cwe Rops eps n Y j' k) (chi_cwe Rops eps n Y j' k)) Hs).
Qed.
End PermSamples.

Section PermClusters.
Variables (eps : R) (n K : nat) (Y : mat) (s : nat -> nat).
Hypothesis Hs : perm_on K s.
Let Yc : mat := fun i k => Y i (s k).
(* P, pi, the mask and the cluster-wise estimates are column-wise: they commute with s by computation *)
Lemma chi_cwe_perm_clusters i k : chi_cwe Rops eps n Yc i k = chi_cwe Rops eps n Y i (s k).
Proof. reflexivity. Qed.
Lemma chi_alpha_perm_clusters i : chi_alpha Rops eps n K Yc i = chi_alpha Rops eps n K Y i.
Proof.
  unfold chi_alpha. fold (rsum K).
  exact (rsum_perm K s (fun k => nmul Rops (P Rops eps Y i k) (chi_cwe Rops eps n Y i k)) Hs).
Qed.
Lemma chi_beta_perm_clusters i : chi_beta Rops eps n K Yc i = chi_beta Rops eps n K Y i.
Proof.
  unfold chi_beta. fold (rsum K).
  exact (rsum_perm K s (fun k => ndiv Rops (pi Rops eps n Y k) (chi_cwe Rops eps n Y i k)) Hs).
Qed.
Theorem chi_perm_clusters ovo :
  chi_score Rops eps n K (fun i k => Y i (s k)) ovo = chi_score Rops eps n K Y ovo.
Proof.
  fold Yc. unfold chi_score, mean. f_equal. fold (rsum n). destruct ovo; f_equal; apply rsum_ext; intros i Hi.
  - rewrite chi_alpha_perm_clusters, chi_beta_perm_clusters. reflexivity.
  - apply chi_alpha_perm_clusters.
Qed.
(* the gradient columns are permuted accordingly *)
Theorem chi_grad_perm_clusters ovo i k :
  chi_grad Rops eps n K (fun i k => Y i (s k)) ovo i k = chi_grad Rops eps n K Y ovo i (s k).
Proof.
  fold Yc. unfold chi_grad, mean.
  change (maskT Rops eps Yc i k) with (maskT Rops eps Y i (s k)).
  f_equal. f_equal. f_equal. fold (rsum n). destruct ovo.
  - rewrite !chi_cwe_perm_clusters, chi_alpha_perm_clusters, chi_beta_perm_clusters. f_equal.
    f_equal. apply rsum_ext. intros j Hj.
    rewrite !chi_cwe_perm_clusters, chi_alpha_perm_clusters, chi_beta_perm_clusters. reflexivity.
  - reflexivity.
Qed.
End PermClusters.
