(* C04 — proofs: softmax rows are probability vectors, arg-max is an in-range first maximiser, and the
   output relations of a fitted model (labels_, predict_proba, predict, score, n_iter_, optimiser_)
   compose as the property says.  Real-number statements are about the Rops instance. *)
From Coq Require Import Reals Lra Lia List Bool Arith String.
From GV Require Import Common.Num Common.NumR Model.Forward Model.Coherence Proofs.RSumLib.
From GV Require Model.KauriTree Proofs.KauriTree.
Open Scope R_scope.

(* ------------------------------------------------------------------ booleans of the R instance *)
Lemma Rltb_true x y : Rltb x y = true <-> x < y.
Proof. unfold Rltb. destruct (Rlt_dec x y) as [H|H]; split; intros H'; try assumption; try reflexivity; [discriminate | contradiction]. Qed.
Lemma Rltb_false x y : Rltb x y = false <-> y <= x.
Proof. unfold Rltb. destruct (Rlt_dec x y) as [H|H]; split; intros H'; try reflexivity; try discriminate; lra. Qed.

(* ------------------------------------------------------------------ the row maximum *)
Lemma vmax_SS m (z : nat -> R) : vmax Rops (S (S m)) z = nmax Rops (vmax Rops (S m) z) (z (S m)).
Proof. reflexivity. Qed.
Lemma nmax_R a b : nmax Rops a b = Rmax a b.
Proof.
  unfold nmax. cbn [nltb Rops]. destruct (Rltb a b) eqn:E.
  - apply Rltb_true in E. rewrite Rmax_right; lra.
  - apply Rltb_false in E. rewrite Rmax_left; lra.
Qed.
Lemma vmax_ge m (z : nat -> R) : forall k, (k < S m)%nat -> z k <= vmax Rops (S m) z.
Proof.
  induction m as [|m IH]; intros k Hk.
  - assert (k = 0%nat) as -> by lia. cbn. lra.
  - rewrite vmax_SS, nmax_R. destruct (Nat.eq_dec k (S m)) as [->|Hne].
    + apply Rmax_r.
    + eapply Rle_trans; [apply IH; lia | apply Rmax_l].
Qed.
Lemma vmax_attained m (z : nat -> R) : exists k, (k < S m)%nat /\ vmax Rops (S m) z = z k.
Proof.
  induction m as [|m [k [Hk IH]]].
  - exists 0%nat. split; [lia | reflexivity].
  - rewrite vmax_SS, nmax_R. destruct (Rle_dec (vmax Rops (S m) z) (z (S m))) as [H|H].
    + exists (S m). split; [lia | apply Rmax_right; exact H].
    + exists k. split; [lia | rewrite Rmax_left; [exact IH | lra]].
Qed.

(* ------------------------------------------------------------------ softmax *)
Lemma rsum_ge_term n (f : nat -> R) j : (forall i, (i < n)%nat -> 0 <= f i) -> (j < n)%nat -> f j <= rsum n f.
Proof.
  induction n as [|n IH]; intros Hf Hj; [lia|]. rewrite rsum_S.
  assert (H0 : 0 <= rsum n f) by (apply rsum_nonneg; intros; apply Hf; lia).
  destruct (Nat.eq_dec j n) as [->|Hne]; [lra|].
  assert (f j <= rsum n f) by (apply IH; [intros; apply Hf; lia | lia]).
  specialize (Hf n ltac:(lia)). lra.
Qed.

Definition sm_e (K : nat) (z : nat -> R) (c : nat) : R := exp (z c - vmax Rops K z).
Definition sm_S (K : nat) (z : nat -> R) : R := rsum K (sm_e K z).

Lemma softmax_row_unfold K z k : softmax_row Rops K z k = sm_e K z k / sm_S K z.
Proof. reflexivity. Qed.
Lemma e_pos K z c : 0 < sm_e K z c. Proof. apply exp_pos. Qed.
Lemma S_pos K z : (1 <= K)%nat -> 0 < sm_S K z.
Proof. intros HK. apply rsum_pos; [lia | intros; apply e_pos]. Qed.
(* the exponent arguments are <= 0 and one of them is 0: every exponential lies in (0, 1], the
   normaliser in [1, K] — the reason the float computation neither overflows nor divides by ~0 *)
Lemma exponent_nonpos K z k : (k < K)%nat -> z k - vmax Rops K z <= 0.
Proof. intros Hk. destruct K as [|K']; [lia|]. pose proof (vmax_ge K' z k Hk). lra. Qed.
Lemma S_ge_one K z : (1 <= K)%nat -> 1 <= sm_S K z.
Proof.
  intros HK. destruct K as [|K']; [lia|]. destruct (vmax_attained K' z) as [k [Hk Hm]].
  eapply Rle_trans; [| apply (rsum_ge_term (S K') (sm_e (S K') z) k); [intros; apply Rlt_le, e_pos | exact Hk]].
  unfold sm_e. rewrite Hm. replace (z k - z k) with 0 by lra. rewrite exp_0. lra.
Qed.
Lemma S_le_K K z : sm_S K z <= INR K.
Proof.
  unfold sm_S. replace (INR K) with (rsum K (fun _ => 1)) by (rewrite rsum_const; lra).
  apply rsum_le. intros i Hi. unfold sm_e. rewrite <- exp_0.
  destruct (Rle_lt_or_eq_dec _ _ (exponent_nonpos K z i Hi)) as [H|H]; [apply Rlt_le, exp_increasing; exact H | rewrite H; lra].
Qed.
Lemma softmax_row_pos K z k : (1 <= K)%nat -> 0 < softmax_row Rops K z k.
Proof. intros HK. rewrite softmax_row_unfold. apply Rdiv_lt_0_compat; [apply e_pos | apply S_pos; exact HK]. Qed.
Lemma softmax_row_sum K z : (1 <= K)%nat -> rsum K (softmax_row Rops K z) = 1.
Proof.
  intros HK. rewrite (rsum_ext K _ (fun k => sm_e K z k / sm_S K z)) by (intros; apply softmax_row_unfold).
  rewrite rsum_divc. fold (sm_S K z). pose proof (S_pos K z HK). field. lra.
Qed.
Lemma softmax_row_le_one K z k : (k < K)%nat -> softmax_row Rops K z k <= 1.
Proof.
  intros Hk. rewrite softmax_row_unfold. assert (HS : 0 < sm_S K z) by (apply S_pos; lia).
  assert (Hle : sm_e K z k <= sm_S K z) by (apply rsum_ge_term; [intros; apply Rlt_le, e_pos | exact Hk]).
  apply (Rmult_le_reg_r (sm_S K z)); [exact HS|]. unfold Rdiv. rewrite Rmult_assoc, Rinv_l by lra. lra.
Qed.
Lemma rsum_ge_two n (f : nat -> R) k j : (forall i, 0 <= f i) -> (k < n)%nat -> (j < n)%nat -> j <> k -> f k + f j <= rsum n f.
Proof.
  intros Hf. induction n as [|n IH]; intros Hk Hj Hne; [lia|]. rewrite rsum_S.
  assert (H0 : 0 <= rsum n f) by (apply rsum_nonneg; intros; apply Hf).
  destruct (Nat.eq_dec k n) as [->|Hkn].
  - assert (f j <= rsum n f) by (apply rsum_ge_term; [intros; apply Hf | lia]). lra.
  - destruct (Nat.eq_dec j n) as [->|Hjn].
    + assert (f k <= rsum n f) by (apply rsum_ge_term; [intros; apply Hf | lia]). lra.
    + assert (f k + f j <= rsum n f) by (apply IH; lia). pose proof (Hf n). lra.
Qed.
Lemma softmax_row_lt_one K z k : (2 <= K)%nat -> (k < K)%nat -> softmax_row Rops K z k < 1.
Proof.
  intros H2 Hk. assert (HK : (1 <= K)%nat) by lia. pose proof (softmax_row_sum K z HK) as Hs.
  set (j := if Nat.eq_dec k 0 then 1%nat else 0%nat).
  assert (Hj : (j < K)%nat /\ j <> k) by (unfold j; destruct (Nat.eq_dec k 0); lia).
  pose proof (rsum_ge_two K (softmax_row Rops K z) k j (fun c => Rlt_le _ _ (softmax_row_pos K z c HK)) Hk (proj1 Hj) (proj2 Hj)).
  pose proof (softmax_row_pos K z j HK). lra.
Qed.

(* ------------------------------------------------------------------ arg-max (any number system for the range) *)
Section ArgmaxGeneric.
Context {T : Type} (o : NumOps T).
Lemma argmax_SS m (z : nat -> T) :
  argmax_row o (S (S m)) z = let a := argmax_row o (S m) z in if nltb o (z a) (z (S m)) then S m else a.
Proof. reflexivity. Qed.
Lemma argmax_lt m (z : nat -> T) : (argmax_row o (S m) z < S m)%nat.
Proof.
  induction m as [|m IH]; [cbn; lia|]. rewrite argmax_SS. cbn zeta.
  destruct (nltb o (z (argmax_row o (S m) z)) (z (S m))); lia.
Qed.
Lemma argmax_in_range K (z : nat -> T) : (1 <= K)%nat -> (argmax_row o K z < K)%nat.
Proof. intros HK. destruct K as [|m]; [lia | apply argmax_lt]. Qed.
End ArgmaxGeneric.

Lemma argmax_ge m (z : nat -> R) : forall k, (k < S m)%nat -> z k <= z (argmax_row Rops (S m) z).
Proof.
  induction m as [|m IH]; intros k Hk.
  - assert (k = 0%nat) as -> by lia. cbn. lra.
  - rewrite argmax_SS. cbn zeta. cbn [nltb Rops].
    destruct (Rltb (z (argmax_row Rops (S m) z)) (z (S m))) eqn:E.
    + apply Rltb_true in E. destruct (Nat.eq_dec k (S m)) as [->|Hne]; [lra|].
      pose proof (IH k ltac:(lia)). lra.
    + apply Rltb_false in E. destruct (Nat.eq_dec k (S m)) as [->|Hne]; [exact E|]. apply IH; lia.
Qed.
Lemma argmax_first m (z : nat -> R) : forall k, (k < argmax_row Rops (S m) z)%nat -> z k < z (argmax_row Rops (S m) z).
Proof.
  induction m as [|m IH]; intros k Hk.
  - cbn in Hk. lia.
  - revert Hk. rewrite argmax_SS. cbn zeta. cbn [nltb Rops].
    destruct (Rltb (z (argmax_row Rops (S m) z)) (z (S m))) eqn:E; intros Hk.
    + apply Rltb_true in E. pose proof (argmax_ge m z k ltac:(lia)). lra.
    + apply IH; exact Hk.
Qed.
Lemma argmax_is_max K (z : nat -> R) k : (k < K)%nat -> z k <= z (argmax_row Rops K z).
Proof. intros Hk. destruct K as [|m]; [lia | apply argmax_ge; exact Hk]. Qed.
Lemma argmax_first_on_ties K (z : nat -> R) k : (k < argmax_row Rops K z)%nat -> z k < z (argmax_row Rops K z).
Proof. intros Hk. destruct K as [|m]; [cbn in Hk; lia | apply argmax_first; exact Hk]. Qed.
(* the two properties determine the index: argmax_row is THE first maximiser *)
Lemma argmax_unique K (z : nat -> R) j : (j < K)%nat ->
  (forall k, (k < K)%nat -> z k <= z j) -> (forall k, (k < j)%nat -> z k < z j) -> argmax_row Rops K z = j.
Proof.
  intros Hj Hmax Hfirst. set (a := argmax_row Rops K z).
  assert (Ha : (a < K)%nat) by (apply argmax_in_range; lia).
  pose proof (argmax_is_max K z j Hj) as H1. pose proof (Hmax a Ha) as H2. fold a in H1.
  destruct (lt_eq_lt_dec a j) as [[Hlt|Heq]|Hgt]; [| exact Heq |].
  - pose proof (Hfirst a Hlt). lra.
  - pose proof (argmax_first_on_ties K z j Hgt). fold a in H. lra.
Qed.

(* ------------------------------------------------------------------ fitted-model relations *)
(* every forward pass is the softmax of some logits *)
Definition logits_of {T} (o : NumOps T) (K : nat) (p : params (T:=T)) (X : @Mat T) : @Mat T :=
  match p with
  | PLinear d W b => affine o d X W b
  | PMlp d h W1 b1 W2 b2 => affine o h (mlp_hidden o d h W1 b1 X) W2 b2
  | PSparseMlp d h W1 b1 W2 b2 Ws => fun i k => nadd o (affine o h (mlp_hidden o d h W1 b1 X) W2 b2 i k) (matmul o d X Ws i k)
  | PCategorical L => L
  | PKernelRim nt W b => affine o nt X W b
  | PLogits f => f X
  end.
Lemma infer_is_softmax {T} (o : NumOps T) K p X : infer o K p X = softmax o K (logits_of o K p X).
Proof. destruct p; reflexivity. Qed.

Lemma predict_is_argmax_of_proba {T} (o : NumOps T) K p X i :
  predict o K p X i = argmax_row o K (predict_proba o K p X i).
Proof. reflexivity. Qed.
Lemma labels_are_train_predict {T} (o : NumOps T) K p Xtrain i : fit_labels o K p Xtrain i = predict o K p Xtrain i.
Proof. reflexivity. Qed.
Lemma score_is_gemini_of_proba {T A} (o : NumOps T) (gemini : @Mat T -> A -> T) affinity K p X :
  score o gemini affinity K p X = gemini (predict_proba o K p X) (affinity X).
Proof. reflexivity. Qed.
Lemma labels_in_range {T} (o : NumOps T) K p X i : (1 <= K)%nat ->
  (fit_labels o K p X i < K)%nat /\ (predict o K p X i < K)%nat.
Proof. intros HK. split; apply argmax_in_range; exact HK. Qed.

Lemma proba_is_probability_vector K p X i : (1 <= K)%nat ->
  (forall k, 0 < predict_proba Rops K p X i k) /\
  rsum K (predict_proba Rops K p X i) = 1 /\
  (forall k, (k < K)%nat -> predict_proba Rops K p X i k <= 1).
Proof.
  intros HK. unfold predict_proba. rewrite infer_is_softmax. unfold softmax. split; [|split].
  - intros k. apply softmax_row_pos; exact HK.
  - apply softmax_row_sum; exact HK.
  - intros k Hk. apply softmax_row_le_one; exact Hk.
Qed.
(* the predicted cluster carries the largest probability of the row, the first such on ties *)
Lemma predict_most_probable K p X i : (1 <= K)%nat ->
  (forall k, (k < K)%nat -> predict_proba Rops K p X i k <= predict_proba Rops K p X i (predict Rops K p X i)) /\
  (forall k, (k < predict Rops K p X i)%nat -> predict_proba Rops K p X i k < predict_proba Rops K p X i (predict Rops K p X i)).
Proof.
  intros HK. split; intros k Hk.
  - apply (argmax_is_max K (predict_proba Rops K p X i) k Hk).
  - apply (argmax_first_on_ties K (predict_proba Rops K p X i) k Hk).
Qed.

(* ------------------------------------------------------------------ n_iter_ and the optimiser *)
Lemma epochs_run_id max_iter : epochs_run max_iter = max_iter.
Proof. induction max_iter as [|m IH]; [reflexivity | cbn [epochs_run]; rewrite IH; reflexivity]. Qed.
Lemma n_iter_is_max_iter max_iter : n_iter max_iter = max_iter /\ n_iter max_iter = epochs_run max_iter.
Proof. split; [reflexivity | rewrite epochs_run_id; reflexivity]. Qed.

Lemma optimiser_matches_solver : forall s, solver_accepted s = true ->
  (optimiser_of s = SGDOptimizer <-> s = "sgd"%string) /\ (optimiser_of s = AdamOptimizer <-> s = "adam"%string).
Proof.
  intros s Hs. unfold solver_accepted in Hs. unfold optimiser_of.
  destruct (String.eqb s "sgd") eqn:E1.
  - apply String.eqb_eq in E1. subst s. split; split; intros H; try reflexivity; discriminate.
  - cbn [orb] in Hs. apply String.eqb_eq in Hs. subst s. split; split; intros H; try reflexivity; discriminate.
Qed.
Lemma optimiser_else_branch : forall s, s <> "sgd"%string -> optimiser_of s = AdamOptimizer.
Proof. intros s Hs. unfold optimiser_of. destruct (String.eqb s "sgd") eqn:E; [apply String.eqb_eq in E; contradiction | reflexivity]. Qed.

(* ------------------------------------------------------------------ Kauri (corollary of the C09 development) *)
Lemma kauri_labels_lt_max_clusters :
  forall (P : GV.Model.KauriTree.params) d X choose st,
  GV.Proofs.KauriTree.valid P d X -> GV.Proofs.KauriTree.oracle_ok P d X choose ->
  GV.Model.KauriTree.fit P X choose = GV.Model.KauriTree.Done st ->
  (forall i, (i < List.length X)%nat -> (GV.Model.KauriTree.label_of P X st i < GV.Model.KauriTree.max_clusters P)%nat) /\
  (1 <= List.length (GV.Model.KauriTree.st_tree st))%nat.
Proof.
  intros P d X choose st V HO HF.
  destruct (GV.Proofs.KauriTree.fit_clusters P d X choose st V HO HF) as (Hnc & Hlab & _).
  split.
  - intros i Hi. specialize (Hlab i Hi). lia.
  - destruct (GV.Proofs.KauriTree.fit_leaves_nodes P d X choose st V HO HF) as (_ & Hlen & Hnl).
    pose proof (GV.Proofs.KauriTree.I_nl P d X st (GV.Proofs.KauriTree.fit_inv P d X choose st V HO HF)) as Hpos.
    lia.
Qed.
