(* Shared definitions for the GEMINI theorems (C01, C02, C13): the textbook quantities on finite
   weighted point sets and the facts that clipping / masking are inactive in the interior. *)
From Coq Require Import Reals Lra Lia Psatz.
From Coquelicot Require Import Coquelicot.
From GV Require Import Common.Num Common.NumR Model.Gemini Proofs.RSumLib.
Open Scope R_scope.

(* empirical cluster proportions of an (unclipped) prediction matrix *)
Definition pi0 (n : nat) (P : mat) (k : nat) : R := rsum n (fun i => P i k) / INR n.
(* empirical cluster-conditional p(x_i | y = k) proportional to P[i,k]; empirical data law 1/n *)
Definition cond (n : nat) (P : mat) (k i : nat) : R := P i k / (INR n * pi0 n P k).
Definition unif (n : nat) (i : nat) : R := / INR n.

(* the named distances between two weight vectors on the n sample points *)
Definition KLdiv (n : nat) (a b : nat -> R) : R := rsum n (fun i => a i * ln (a i / b i)).
Definition TVdist (n : nat) (a b : nat -> R) : R := / 2 * rsum n (fun i => Rabs (a i - b i)).
Definition Hell2 (n : nat) (a b : nat -> R) : R := 1 - rsum n (fun i => sqrt (a i * b i)).
Definition Chi2 (n : nat) (a b : nat -> R) : R := rsum n (fun i => (a i - b i) ^ 2 / b i).
Definition MMDdist (n : nat) (kap : mat) (a b : nat -> R) : R :=
  sqrt (rsum n (fun i => rsum n (fun j => (a i - b i) * kap i j * (a j - b j)))).

(* generalised mutual informations: p(y)-weighted averages of a distance D *)
Definition gemini_ova (n K : nat) (P : mat) (D : (nat -> R) -> (nat -> R) -> R) : R :=
  rsum K (fun k => pi0 n P k * D (cond n P k) (unif n)).
Definition gemini_ovo (n K : nat) (P : mat) (D : (nat -> R) -> (nat -> R) -> R) : R :=
  rsum K (fun a => rsum K (fun b => pi0 n P a * pi0 n P b * D (cond n P a) (cond n P b))).

Definition row_stochastic (n K : nat) (P : mat) : Prop := forall i, (i < n)%nat -> rsum K (fun k => P i k) = 1.
Definition tangent (n K : nat) (D : mat) : Prop := forall i, (i < n)%nat -> rsum K (fun k => D i k) = 0.
Definition inner (n K : nat) (G D : mat) : R := rsum n (fun i => rsum K (fun k => G i k * D i k)).

Section Interior.
Variables (eps : R) (n K : nat) (Y : mat).
Hypothesis HI : interior eps n K Y.

Lemma P_interior i k : (i < n)%nat -> (k < K)%nat -> P Rops eps Y i k = Y i k.
Proof. intros Hi Hk. unfold P. apply nclip_interior. apply HI; assumption. Qed.
Lemma pi_interior k : (k < K)%nat -> pi Rops eps n Y k = pi0 n Y k.
Proof.
  intros Hk. unfold pi, mean, pi0, ofn. cbn [ndiv nofnat Rops]. f_equal.
  apply rsum_ext. intros i Hi. apply P_interior; assumption.
Qed.
Lemma maskT_interior i k : (i < n)%nat -> (k < K)%nat -> maskT Rops eps Y i k = 1.
Proof.
  intros Hi Hk. unfold maskT, mask. cbn [nltb nsub n1 n0 Rops]. destruct (HI i k Hi Hk) as [H1 H2].
  rewrite (Rltb_true eps (Y i k) H1), (Rltb_true (Y i k) (1 - eps) H2). reflexivity.
Qed.
End Interior.

Lemma interior_pos eps n K P : 0 <= eps -> interior eps n K P -> forall i k, (i < n)%nat -> (k < K)%nat -> 0 < P i k.
Proof. intros He HI i k Hi Hk. destruct (HI i k Hi Hk). lra. Qed.
Lemma pi0_pos n K P : (0 < n)%nat -> (forall i k, (i < n)%nat -> (k < K)%nat -> 0 < P i k) ->
  forall k, (k < K)%nat -> 0 < pi0 n P k.
Proof.
  intros Hn Hp k Hk. unfold pi0. apply Rdiv_lt_0_compat; [|apply lt_0_INR; lia].
  apply rsum_pos; [exact Hn | intros i Hi; apply Hp; assumption].
Qed.
Lemma pi0_pert n P D k t : pi0 n (pert P D t) k = pi0 n P k + t * pi0 n D k.
Proof. unfold pi0, pert. rewrite rsum_plus, rsum_scal. unfold Rdiv. ring. Qed.
(* the proportions of a row-stochastic matrix sum to one *)
Lemma pi0_sum_one n K P : (0 < n)%nat -> row_stochastic n K P -> rsum K (fun k => pi0 n P k) = 1.
Proof.
  intros Hn Hr. unfold pi0. rewrite rsum_divc, rsum_swap.
  rewrite (rsum_ext n _ (fun _ => 1)) by (intros i Hi; apply Hr; exact Hi).
  rewrite rsum_const. field. apply not_0_INR. lia.
Qed.

(* glue: a derivative proved for the clean (unclipped) formulas transfers to the model with its
   clipping and mask, at every interior point *)
Lemma lift_derivative (score clean : mat -> R) (grad cgrad : mat) eps n K P D :
  (forall Y, interior eps n K Y -> score Y = clean Y) ->
  (forall i k, (i < n)%nat -> (k < K)%nat -> grad i k = cgrad i k) ->
  interior eps n K P ->
  is_derive (fun t : R => clean (pert P D t)) 0 (inner n K cgrad D) ->
  is_derive (fun t : R => score (pert P D t)) 0 (inner n K grad D).
Proof.
  intros Hs Hg HI Hd.
  apply (dR_ext_loc (fun t : R => clean (pert P D t))).
  - generalize (interior_locally eps n K P D HI). apply filter_imp. intros t Ht. symmetry. apply Hs. exact Ht.
  - eapply dR_val; [|exact Hd]. unfold inner. apply rsum_ext. intros i Hi. apply rsum_ext. intros k Hk.
    rewrite Hg by assumption. reflexivity.
Qed.
