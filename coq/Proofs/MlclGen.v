(* C14 — the regenerated tie.  Gen/MlclRules.v (written by translator/tr_mlcl.py from the AST of
   gemclus/mlcl.py) is compared with the hand-written golden copy [documented_rules]; the parameterised
   model of Model/Mlcl.v at the documented rules is the hand model; hence every theorem of Proofs/Mlcl.v
   holds for the model instantiated with the rules as the source states them now.  A changed rule breaks
   [rules_documented] and with it every theorem of Props/C14.v. *)
From Coq Require Import List Arith Bool Lia Relations Permutation Reals.
From GV Require Import Common.Num Common.NumR Model.Mlcl Gen.MlclRules Proofs.Mlcl.
Import ListNotations.

(* ------------------------------------------------------------------ regenerated = documented *)
Lemma rules_documented : mlcl_rules = documented_rules.
Proof. vm_compute. reflexivity. Qed.

(* ------------------------------------------------------------------ parameterised model at the documented rules = hand model *)
Lemma existsb_ext {A} (f g : A -> bool) l : (forall x, f x = g x) -> existsb f l = existsb g l.
Proof. intros H. induction l as [|x r IH]; [reflexivity|]. cbn [existsb]. rewrite H, IH. reflexivity. Qed.

Lemma fold_left_ext {A B} (f g : A -> B -> A) l : (forall a b, f a b = g a b) -> forall a, fold_left f l a = fold_left g l a.
Proof. intros H. induction l as [|x r IH]; intros a; [reflexivity|]. cbn [fold_left]. rewrite H. apply IH. Qed.

Lemma no_self_r_documented l : no_self_r (0, 1) l = no_self l.
Proof. reflexivity. Qed.

Lemma uniq_r_documented ml cl : uniq_r (mr_struct documented_rules) ml cl = uniq ml.
Proof.
  unfold uniq_r, uniq. cbn [mr_struct documented_rules s_uniq_list s_uniq_cols pick flat_map]. rewrite app_nil_r. reflexivity.
Qed.

Lemma hits_r_documented cl ij : hits_r (mr_struct documented_rules) cl ij = hits cl ij.
Proof.
  unfold hits_r, hits. apply existsb_ext. intros p.
  cbn [mr_struct documented_rules s_orients existsb fst snd col]. rewrite orb_false_r. reflexivity.
Qed.

Lemma explore_r_documented U lab cl : forall fuel todo,
  explore_r (mr_struct documented_rules) fuel U lab cl todo = explore fuel U lab cl todo.
Proof.
  induction fuel as [|f IH]; intros todo.
  - destruct todo; reflexivity.
  - destruct todo as [|s t]; [reflexivity|].
    cbn [explore_r explore mr_struct documented_rules s_loop s_start s_map_back ncmp_holds length Nat.leb nth].
    rewrite (existsb_ext _ _ _ (hits_r_documented cl)). rewrite IH. reflexivity.
Qed.

Lemma structural_r_documented ml cl : structural_r (mr_struct documented_rules) ml cl = structural ml cl.
Proof.
  unfold structural_r, structural. rewrite uniq_r_documented, explore_r_documented. reflexivity.
Qed.

Lemma guard_documented {A} (l : list A) : ncmp_holds (NGe 1) (length l) = nonempty l.
Proof. destruct l; reflexivity. Qed.

Lemma valid_r_documented ml cl : valid_r documented_rules ml cl = valid ml cl.
Proof.
  unfold valid_r, valid.
  cbn [mr_link documented_rules lr_ml lr_cl a_self documented_arg lr_guard_and lr_guard_ml lr_guard_cl].
  rewrite !guard_documented, structural_r_documented. reflexivity.
Qed.

Lemma shape_of_r_documented r : shape_of_r documented_arg r = shape_of r.
Proof. destruct r as [|x|[|y l]|[|r0 rs]]; reflexivity. Qed.

Lemma accept_raw_r_documented a b : accept_raw_r documented_rules a b = accept_raw a b.
Proof.
  unfold accept_raw_r, accept_raw. cbn [mr_link documented_rules lr_ml lr_cl]. rewrite !shape_of_r_documented.
  destruct (shape_of a) as [|wa ml|], (shape_of b) as [|wb cl|]; rewrite ?valid_r_documented; try reflexivity.
  - apply valid_nil_l.
  - apply valid_nil_r.
Qed.

Section GradsBridge.
Context {T : Type} (o : NumOps T).

Lemma upd_row_g_documented op f : forall g yi yj, upd_row_g o op (nmul o f) g yi yj = upd_row o op f g yi yj.
Proof.
  induction g as [|x g IH]; intros yi yj; [reflexivity|].
  destruct yi as [|a yi]; [reflexivity|]. destruct yj as [|b yj]; [reflexivity|].
  cbn [upd_row_g upd_row]. rewrite IH. reflexivity.
Qed.

Lemma apply_pair_r_documented (minus : bool) f idx Y G p :
  apply_pair_r o {| l_list := (if minus then WML else WCL); l_member_and := true; l_member := [SI; SJ];
                    l_updates := [ {| u_target := SI; u_minus := minus; u_scaled := true; u_lhs := SI; u_rhs := SJ |};
                                   {| u_target := SJ; u_minus := minus; u_scaled := true; u_lhs := SJ; u_rhs := SI |} ] |} f idx Y G p
  = apply_pair o (if minus then nsub o else nadd o) f idx Y G p.
Proof.
  destruct p as [i j]. unfold apply_pair_r, apply_pair.
  cbn [l_member_and l_member l_updates forallb sel fst snd]. rewrite andb_true_r.
  destruct (mem i idx && mem j idx); [|reflexivity].
  cbn [fold_left]. unfold apply_upd. cbn [u_target u_minus u_scaled u_lhs u_rhs sel fst snd].
  rewrite !upd_row_g_documented. reflexivity.
Qed.

Lemma decorate_grads_r_documented f idx Y ml cl G :
  decorate_grads_r o (mr_grads documented_rules) f idx Y ml cl G = decorate_grads o f idx Y ml cl G.
Proof.
  unfold decorate_grads_r, decorate_grads. cbn [mr_grads documented_rules fold_left l_list pick].
  rewrite (fold_left_ext _ _ cl (fun G p => apply_pair_r_documented false f idx Y G p)).
  rewrite (fold_left_ext _ _ ml (fun G p => apply_pair_r_documented true f idx Y G p)).
  reflexivity.
Qed.
End GradsBridge.

(* ------------------------------------------------------------------ the model at the regenerated rules *)
Definition valid_now : list (nat * nat) -> list (nat * nat) -> bool := valid_r mlcl_rules.
Definition structural_now : list (nat * nat) -> list (nat * nat) -> option bool := structural_r (mr_struct mlcl_rules).
Definition accept_raw_now : raw -> raw -> bool := accept_raw_r mlcl_rules.
Definition decorate_now {T} (o : NumOps T) := decorate_grads_r o (mr_grads mlcl_rules).

Lemma valid_now_eq ml cl : valid_now ml cl = valid ml cl.
Proof. unfold valid_now. rewrite rules_documented. apply valid_r_documented. Qed.
Lemma structural_now_eq ml cl : structural_now ml cl = structural ml cl.
Proof. unfold structural_now. rewrite rules_documented. apply structural_r_documented. Qed.
Lemma accept_raw_now_eq a b : accept_raw_now a b = accept_raw a b.
Proof. unfold accept_raw_now. rewrite rules_documented. apply accept_raw_r_documented. Qed.
Lemma decorate_now_eq {T} (o : NumOps T) f idx Y ml cl G : decorate_now o f idx Y ml cl G = decorate_grads o f idx Y ml cl G.
Proof. unfold decorate_now. rewrite rules_documented. apply decorate_grads_r_documented. Qed.

(* the regenerated instantiation is the executable hand model the correspondence runs (and C03 uses) *)
Lemma regenerated_model_is_hand_model :
  (forall ml cl, valid_now ml cl = valid ml cl) /\ (forall ml cl, structural_now ml cl = structural ml cl) /\
  (forall a b, accept_raw_now a b = accept_raw a b) /\
  (forall (T : Type) (o : NumOps T) f idx Y ml cl G, decorate_now o f idx Y ml cl G = decorate_grads o f idx Y ml cl G).
Proof. exact (conj valid_now_eq (conj structural_now_eq (conj accept_raw_now_eq (@decorate_now_eq)))). Qed.

(* ------------------------------------------------------------------ the theorems, for the regenerated instantiation *)
Lemma gen_valid_iff_spec ml cl : valid_now ml cl = true <->
  (forall a b, In (a, b) ml -> a <> b) /\ (forall a b, In (a, b) cl -> a <> b) /\
  (forall a b, In (a, b) cl -> ~ clos_refl_trans nat (edge ml) a b).
Proof. rewrite valid_now_eq. apply valid_iff_spec. Qed.

Lemma gen_structural_terminates ml cl : structural_now ml cl <> None.
Proof. rewrite structural_now_eq. apply structural_terminates. Qed.

Lemma gen_shape_well_formed ml cl :
  accept_raw_now (raw_of_pairs ml) (raw_of_pairs cl) = valid_now ml cl /\
  accept_raw_now RNone (raw_of_pairs cl) = valid_now [] cl /\
  accept_raw_now (raw_of_pairs ml) RNone = valid_now ml [].
Proof.
  rewrite !accept_raw_now_eq, !valid_now_eq.
  exact (conj (accept_raw_pairs ml cl) (conj (accept_raw_none_l cl) (accept_raw_none_r ml))).
Qed.

Lemma gen_accept_raw_malformed r x : malformed r -> accept_raw_now r x = false /\ accept_raw_now x r = false.
Proof. rewrite !accept_raw_now_eq. apply accept_raw_malformed. Qed.

Lemma gen_untouched (T : Type) (o : NumOps T) f idx Y ml cl G p d :
  length (decorate_now o f idx Y ml cl G) = length G /\
  (p < length idx -> ~ touched ml cl idx (nth p idx 0) -> nth p (decorate_now o f idx Y ml cl G) d = nth p G d).
Proof. rewrite decorate_now_eq. exact (conj (decorate_length o f idx Y ml cl G) (decorate_untouched o f idx Y ml cl G p d)). Qed.

Lemma gen_decorate_ent f idx Y ml cl G n K : length idx = n -> wf n K Y -> wf n K G ->
  wf n K (decorate_now Rops f idx Y ml cl G) /\
  forall p k, p < n -> k < K ->
    ent (decorate_now Rops f idx Y ml cl G) p k = (ent G p k + csum f idx Y cl p k - csum f idx Y ml p k)%R.
Proof. rewrite decorate_now_eq. apply decorate_ent. Qed.

Lemma gen_single_ml f idx Y G n K i j k : length idx = n -> wf n K Y -> wf n K G ->
  In i idx -> In j idx -> i <> j -> k < K ->
  ent (decorate_now Rops f idx Y [(i, j)] [] G) (index i idx) k
    = (ent G (index i idx) k + - (f * (ent Y (index i idx) k - ent Y (index j idx) k)))%R /\
  ent (decorate_now Rops f idx Y [(i, j)] [] G) (index j idx) k
    = (ent G (index j idx) k + (f * (ent Y (index i idx) k - ent Y (index j idx) k)))%R.
Proof. rewrite decorate_now_eq. apply decorate_single_ml. Qed.

Lemma gen_single_cl f idx Y G n K i j k : length idx = n -> wf n K Y -> wf n K G ->
  In i idx -> In j idx -> i <> j -> k < K ->
  ent (decorate_now Rops f idx Y [] [(i, j)] G) (index i idx) k
    = (ent G (index i idx) k + (f * (ent Y (index i idx) k - ent Y (index j idx) k)))%R /\
  ent (decorate_now Rops f idx Y [] [(i, j)] G) (index j idx) k
    = (ent G (index j idx) k + - (f * (ent Y (index i idx) k - ent Y (index j idx) k)))%R.
Proof. rewrite decorate_now_eq. apply decorate_single_cl. Qed.

Lemma gen_order_irrelevant (T : Type) (o : NumOps T) f idx idx' Y Y' ml cl G G' :
  (forall s, In s idx <-> In s idx') ->
  length G = length idx -> length G' = length idx' ->
  (forall s, In s idx -> lookup s idx Y = lookup s idx' Y' /\ lookup s idx G = lookup s idx' G') ->
  forall s, In s idx ->
    lookup s idx (decorate_now o f idx Y ml cl G) = lookup s idx' (decorate_now o f idx' Y' ml cl G').
Proof. rewrite !decorate_now_eq. apply decorate_order_irrelevant. Qed.

Lemma gen_permutation_equivariant (T : Type) (o : NumOps T) f idx Y ml cl G perm :
  NoDup idx -> length Y = length idx -> length G = length idx ->
  Permutation perm (seq 0 (length idx)) ->
  decorate_now o f (permute 0 perm idx) (permute [] perm Y) ml cl (permute [] perm G)
  = permute [] perm (decorate_now o f idx Y ml cl G).
Proof. rewrite !decorate_now_eq. apply decorate_permutation_equivariant. Qed.
