(* C19 — static tie between the hand-written model (Model/KauriPrint.v) and the source:
   Gen/KauriPrintRules.v is regenerated on every build by translator/tr_kauriprint.py from
   gemclus/tree/kauri.py (Tree.__init__, Tree._add_child, Tree.predict, print_kauri_tree / print_node).
   Part 1: every generated definition equals the hand model, for ALL inputs (any T, any comparison leb, any
           name type N, well-formed or not).  If one of these stops compiling, the code and the model no
           longer do the same thing; the name of the failing lemma says which function drifted.
   Part 2: the C19 lemmas of Proofs/KauriPrint.v restated on the regenerated definitions. *)
From Coq Require Import List Arith ZArith Bool Lia.
From GV Require Import Model.KauriPrint Gen.KauriPrintRules Proofs.KauriPrint.
Import ListNotations.

(* one step of case analysis on an atomic thing both sides are still blocked on (a list read, a store, an
   optional value, a recursive result, a test): the proofs below do not depend on the order in which the
   source performs its reads, only on what is computed from them *)
Ltac kp_step :=
  cbn [bind app];
  match goal with
  | |- ?a = ?a => reflexivity
  | |- context [nth_error ?l ?i] => destruct (nth_error l i)
  | |- context [store ?i ?v ?l] => destruct (store i v l)
  | |- context [bind ?o _] => is_var o; destruct o
  | |- context [match ?o with Some _ => _ | None => _ end] => is_var o; destruct o
  | |- context [render_node ?f ?t ?n ?i] => destruct (render_node f t n i)
  | |- context [if ?b then _ else _] => destruct b
  end.

Section Part1.
Context {T N : Type}.

(* ---- Tree.__init__ *)
Lemma gen_empty_tree_eq : @gen_empty_tree T = empty_tree.
Proof. reflexivity. Qed.

(* ---- Tree._add_child *)
Lemma gen_add_child_eq (t : tree T) father s : gen_add_child t father s = add_child t father s.
Proof. unfold gen_add_child, add_child. cbv zeta. repeat kp_step. Qed.

(* ---- Tree.predict *)
Lemma gen_predict_node_eq (leb : T -> T -> bool) : forall fuel (t : tree T) x node,
  gen_predict_node leb fuel t x node = predict_node leb fuel t x node.
Proof.
  induction fuel as [|fuel IH]; intros t x node; [reflexivity|].
  cbn [gen_predict_node predict_node]. rewrite ?(Z.eqb_sym (-1)%Z).
  repeat (try rewrite !IH; kp_step).
Qed.

Lemma gen_predict_eq (leb : T -> T -> bool) (t : tree T) x : gen_predict leb t x = predict leb t x.
Proof. apply gen_predict_node_eq. Qed.

(* ---- print_node *)
Lemma gen_render_node_eq : forall fuel (t : tree T) (names : option (list N)) node,
  gen_render_node fuel t names node = render_node fuel t names node.
Proof.
  induction fuel as [|fuel IH]; intros t names node; [reflexivity|].
  cbn [gen_render_node render_node]. unfold label_of, emit_all, emit. rewrite ?(Z.eqb_sym (-1)%Z).
  repeat (try rewrite !IH; try rewrite !app_nil_r; kp_step).
Qed.

Lemma gen_render_eq (t : tree T) (names : option (list N)) : gen_render t names = render t names.
Proof. apply gen_render_node_eq. Qed.

(* ---- print_kauri_tree: names guard and the guard cascade *)
Lemma gen_used_features_eq (t : tree T) : gen_used_features t = used_features t.
Proof. reflexivity. Qed.

Lemma gen_names_guard_rejects_eq (t : tree T) (ns : list N) : gen_names_guard_rejects t ns = names_guard_rejects t ns.
Proof. reflexivity. Qed.

Lemma gen_print_kauri_tree_eq (o : obj T) (na : names_arg N) : gen_print_kauri_tree o na = print_kauri_tree o na.
Proof.
  destruct o as [| |t]; try reflexivity. destruct na as [|ns|]; try reflexivity; cbn [gen_print_kauri_tree print_kauri_tree].
  - rewrite gen_render_eq. reflexivity.
  - rewrite gen_names_guard_rejects_eq, gen_render_eq. reflexivity.
Qed.

(* everything the translator regenerates, against the hand-written (documented) model, in one statement *)
Lemma regenerated_rules_are_documented :
  @gen_empty_tree T = empty_tree /\
  (forall (t : tree T) father s, gen_add_child t father s = add_child t father s) /\
  (forall leb fuel (t : tree T) x node, gen_predict_node leb fuel t x node = predict_node leb fuel t x node) /\
  (forall leb (t : tree T) x, gen_predict leb t x = predict leb t x) /\
  (forall fuel (t : tree T) (names : option (list N)) node, gen_render_node fuel t names node = render_node fuel t names node) /\
  (forall (t : tree T) (names : option (list N)), gen_render t names = render t names) /\
  (forall t : tree T, gen_used_features t = used_features t) /\
  (forall (t : tree T) (ns : list N), gen_names_guard_rejects t ns = names_guard_rejects t ns) /\
  (forall (o : obj T) (na : names_arg N), gen_print_kauri_tree o na = print_kauri_tree o na).
Proof.
  repeat split; intros.
  - apply gen_add_child_eq. - apply gen_predict_node_eq. - apply gen_predict_eq. - apply gen_render_node_eq.
  - apply gen_render_eq. - apply gen_print_kauri_tree_eq.
Qed.
End Part1.

(* ---------------------------------------------------------------------------------------------------- *)
Section Part2.
Context {T N : Type}.

(* every tree obtained from the regenerated Tree.__init__ by regenerated _add_child calls that do not raise *)
Inductive gen_built : tree T -> Prop :=
| gen_built_empty : gen_built gen_empty_tree
| gen_built_add t father s t' : gen_built t -> gen_add_child t father s = Some t' -> gen_built t'.

Lemma gen_built_built (t : tree T) : gen_built t -> built t.
Proof.
  induction 1 as [|t father s t' _ IH H]; [rewrite gen_empty_tree_eq; constructor|].
  rewrite gen_add_child_eq in H. exact (built_add t father s t' IH H).
Qed.

Lemma gen_built_wf (t : tree T) : gen_built t -> wf t.
Proof. intros H. apply built_wf, gen_built_built, H. Qed.

Lemma built_gen_built (t : tree T) : built t -> gen_built t.
Proof.
  induction 1 as [|t father s t' _ IH H]; [rewrite <- gen_empty_tree_eq; constructor|].
  rewrite <- gen_add_child_eq in H. exact (gen_built_add t father s t' IH H).
Qed.

Lemma build_gen_built ops (t : tree T) : build ops = Some t -> gen_built t.
Proof. intros H. apply built_gen_built, (build_built ops), H. Qed.

(* the reader's side, phrased with the regenerated used_features *)
Definition gen_names_cover (t : tree T) (names : option (list N)) : Prop :=
  forall f, In f (gen_used_features t) -> exists lab, label_of names f = Some lab.
Definition gen_val_agrees (t : tree T) (names : option (list N)) (val : label N -> T) (x : nat -> T) : Prop :=
  forall f lab, In f (gen_used_features t) -> label_of names f = Some lab -> val lab = x f.
Definition gen_read_back (leb : T -> T -> bool) (t : tree T) (names : option (list N)) (val : label N -> T) : option nat :=
  do toks <- gen_render t names; do r <- parse toks; eval_rules leb val r.

Lemma gen_val_default_agrees (t : tree T) x dflt : gen_val_agrees t (@None (list N)) (val_default x dflt) x.
Proof. exact (val_default_agrees t x dflt). Qed.

Lemma gen_val_names_agrees (t : tree T) (eqb : N -> N -> bool) ns x dflt :
  (forall a b, eqb a b = true <-> a = b) ->
  (forall f g nm, In f (gen_used_features t) -> nth_error ns f = Some nm -> nth_error ns g = Some nm -> g = f) ->
  gen_val_agrees t (Some ns) (val_names eqb ns x dflt) x.
Proof. exact (val_names_agrees t eqb ns x dflt). Qed.

Lemma gen_parse_render_roundtrip (t : tree T) (names : option (list N)) : wf t -> gen_names_cover t names ->
  exists toks r, gen_render t names = Some toks /\ abs_tree t names = Some r /\ parse toks = Some r.
Proof. intros W H. rewrite gen_render_eq. exact (parse_render_roundtrip t names W H). Qed.

Lemma gen_eval_abs_is_predict (leb : T -> T -> bool) (t : tree T) (names : option (list N)) r x val :
  wf t -> gen_names_cover t names -> abs_tree t names = Some r -> gen_val_agrees t names val x ->
  exists c, gen_predict leb t x = Some c /\ eval_rules leb val r = Some c.
Proof. intros W H Ha Hv. rewrite gen_predict_eq. exact (eval_abs_is_predict leb t names r x val W H Ha Hv). Qed.

Lemma gen_read_back_is_predict (leb : T -> T -> bool) (t : tree T) (names : option (list N)) x val :
  wf t -> gen_names_cover t names -> gen_val_agrees t names val x ->
  exists c, gen_predict leb t x = Some c /\ gen_read_back leb t names val = Some c.
Proof.
  intros W H Hv. unfold gen_read_back. rewrite gen_predict_eq, gen_render_eq.
  exact (read_back_is_predict leb t names x val W H Hv).
Qed.

Lemma gen_names_label_used_features (t : tree T) (ns : list N) toks :
  gen_print_kauri_tree (Fitted t) (NList ns) = Printed toks ->
  forall d lab th c, In (TRule d lab th c) toks ->
  exists node f nm, nth_error (features t) node = Some (Some f) /\ nth_error (thresholds t) node = Some (Some th) /\
                    nth_error (depths t) node = Some d /\ nth_error ns f = Some nm /\ lab = LName nm.
Proof. rewrite gen_print_kauri_tree_eq. apply names_label_used_features. Qed.

Lemma gen_default_labels (t : tree T) toks :
  gen_print_kauri_tree (Fitted t) (@NAbsent N) = Printed toks ->
  forall d lab th c, In (TRule d lab th c) toks ->
  exists node f, nth_error (features t) node = Some (Some f) /\ nth_error (thresholds t) node = Some (Some th) /\
                 nth_error (depths t) node = Some d /\ lab = LIdx f.
Proof. rewrite gen_print_kauri_tree_eq. apply default_labels. Qed.

Lemma gen_guard_spec (t : tree T) (ns : list N) :
  gen_names_guard_rejects t ns = true <-> exists f, In f (gen_used_features t) /\ nth_error ns f = None.
Proof. rewrite gen_names_guard_rejects_eq. apply guard_spec. Qed.

Lemma gen_too_few_names_rejected (t : tree T) (ns : list N) : wf t ->
  ((exists f, In f (gen_used_features t) /\ nth_error ns f = None) ->
     gen_print_kauri_tree (Fitted t) (NList ns) = ErrNames) /\
  (~ (exists f, In f (gen_used_features t) /\ nth_error ns f = None) ->
     exists toks r, gen_print_kauri_tree (Fitted t) (NList ns) = Printed toks /\
                    abs_tree t (Some ns) = Some r /\ parse toks = Some r).
Proof. intros W. rewrite gen_print_kauri_tree_eq. exact (too_few_names_rejected t ns W). Qed.

Lemma gen_absent_names_printed (t : tree T) : wf t ->
  exists toks r, gen_print_kauri_tree (Fitted t) (@NAbsent N) = Printed toks /\ abs_tree t None = Some r /\ parse toks = Some r.
Proof. intros W. rewrite gen_print_kauri_tree_eq. exact (absent_names_printed t W). Qed.

Lemma gen_no_crash (t : tree T) (na : names_arg N) : wf t -> gen_print_kauri_tree (Fitted t) na <> ErrIndex.
Proof. intros W. rewrite gen_print_kauri_tree_eq. exact (no_crash t na W). Qed.

Lemma gen_guards (o : obj T) (na : names_arg N) :
  (o = Foreign -> gen_print_kauri_tree o na = ErrParam) /\
  (na = NBad -> gen_print_kauri_tree o na = ErrParam) /\
  (o = Unfitted -> na <> NBad -> gen_print_kauri_tree o na = ErrNotFitted) /\
  (forall toks, gen_print_kauri_tree o na = Printed toks -> exists t, o = Fitted t /\ na <> NBad).
Proof. rewrite gen_print_kauri_tree_eq. apply guards. Qed.
End Part2.
