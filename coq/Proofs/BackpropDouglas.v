(* C03, Douglas cut points — closing the gap between the function-style forward pass used in
   Proofs/Backprop.v and the list-style model of gemclus/tree/douglas.py in Model/Douglas.v (the C15
   model, imported read-only together with Proofs/Douglas.v):
   Part 1  argsort as a sort of indices driven by the comparison table of the values;
   Part 2  local constancy of argsort for pairwise distinct cut points;
   Part 3  bins / leaf / prediction of Model/Douglas.v = the function-style ones;
   Part 4  the derivative of the real forward pass in one feature's cut points. *)
From Coq Require Import Reals Lra Lia Psatz List Bool Arith Sorted Permutation.
From Coquelicot Require Import Coquelicot.
From GV Require Import Common.Num Common.NumR Model.Forward Model.Mlcl Model.Backprop Model.Douglas.
From GV Require Import Proofs.RSumLib Proofs.GeminiDefs Proofs.Mlcl Proofs.Douglas Proofs.Backprop.
Import ListNotations.
Open Scope R_scope.

(* ================================================================== Part 1: argsort on indices *)
Section IdxSort.
Variable le : nat -> nat -> bool.
Fixpoint insert_idx (i : nat) (l : list nat) : list nat :=
  match l with
  | [] => [i]
  | h :: t => if le i h then i :: h :: t else h :: insert_idx i t
  end.
Fixpoint sort_idx (l : list nat) : list nat :=
  match l with [] => [] | i :: r => insert_idx i (sort_idx r) end.
Lemma insert_idx_perm i l : Permutation (insert_idx i l) (i :: l).
Proof.
  induction l as [|h t IH]; cbn [insert_idx]; [apply Permutation_refl|].
  destruct (le i h); [apply Permutation_refl|]. eapply perm_trans; [apply perm_skip, IH | apply perm_swap].
Qed.
Lemma sort_idx_perm l : Permutation (sort_idx l) l.
Proof.
  induction l as [|i r IH]; cbn [sort_idx]; [constructor|].
  eapply perm_trans; [apply insert_idx_perm | apply perm_skip, IH].
Qed.
End IdxSort.

Lemma insert_idx_ext (le le' : nat -> nat -> bool) i l :
  (forall b, In b l -> le i b = le' i b) -> insert_idx le i l = insert_idx le' i l.
Proof.
  induction l as [|h t IH]; intros H; [reflexivity|]. cbn [insert_idx].
  rewrite (H h (or_introl eq_refl)). destruct (le' i h); [reflexivity|]. f_equal. apply IH. intros b Hb. apply H. right. exact Hb.
Qed.
Lemma sort_idx_ext (le le' : nat -> nat -> bool) l :
  (forall a b, In a l -> In b l -> le a b = le' a b) -> sort_idx le l = sort_idx le' l.
Proof.
  induction l as [|i r IH]; intros H; [reflexivity|]. cbn [sort_idx].
  rewrite <- IH by (intros a b Ha Hb; apply H; right; assumption).
  apply insert_idx_ext. intros b Hb. apply H; [left; reflexivity|].
  right. apply (Permutation_in _ (sort_idx_perm le r) Hb).
Qed.

(* the model's argsort is the index sort driven by `cuts[a] <= cuts[b]` *)
Definition cut_le (cuts : list R) (a b : nat) : bool := Rleb (nth a cuts 0) (nth b cuts 0).
Definition mkp (cuts : list R) (i : nat) : nat * R := (i, nth i cuts 0).
Lemma insert_p_idx cuts i l :
  insert_p Rops (mkp cuts i) (map (mkp cuts) l) = map (mkp cuts) (insert_idx (cut_le cuts) i l).
Proof.
  induction l as [|h t IH]; [reflexivity|]. cbn [map insert_p insert_idx]. unfold cut_le at 1. cbn [snd mkp nleb Rops].
  destruct (Rleb (nth i cuts 0) (nth h cuts 0)); [reflexivity|]. cbn [map]. f_equal. exact IH.
Qed.
Lemma sort_pairs_idx cuts l : sort_pairs Rops (map (mkp cuts) l) = map (mkp cuts) (sort_idx (cut_le cuts) l).
Proof. induction l as [|i r IH]; [reflexivity|]. cbn [map sort_pairs sort_idx]. rewrite IH. apply insert_p_idx. Qed.
Lemma combine_seq_mkp (cuts : list R) : combine (seq 0 (length cuts)) cuts = map (mkp cuts) (seq 0 (length cuts)).
Proof.
  apply (nth_ext _ _ (0%nat, 0) (mkp cuts 0%nat)).
  - rewrite combine_length, map_length, seq_length. lia.
  - intros k Hk. rewrite combine_length, seq_length, Nat.min_id in Hk.
    rewrite combine_nth by (rewrite seq_length; reflexivity).
    rewrite (Proofs.Douglas.nth_map_in (mkp cuts) (seq 0 (length cuts)) k (mkp cuts 0%nat) 0%nat) by (rewrite seq_length; exact Hk).
    rewrite seq_nth by exact Hk. reflexivity.
Qed.
Lemma argsort_pairs_idx cuts :
  argsort_pairs Rops cuts = map (mkp cuts) (sort_idx (cut_le cuts) (seq 0 (length cuts))).
Proof. unfold argsort_pairs. rewrite combine_seq_mkp. apply sort_pairs_idx. Qed.
Lemma argsort_idx cuts : argsort Rops cuts = sort_idx (cut_le cuts) (seq 0 (length cuts)).
Proof. unfold argsort. rewrite argsort_pairs_idx, map_map. cbn [fst mkp]. apply map_id. Qed.

(* hence: `order` is a permutation of 0..c-1 and sorted[q] = cuts[order[q]] — for any cut points *)
Lemma argsort_is_order cuts : is_order (length cuts) (argsort Rops cuts).
Proof.
  rewrite argsort_idx. pose proof (sort_idx_perm (cut_le cuts) (seq 0 (length cuts))) as P. split; [|split].
  - rewrite (Permutation_length P). apply seq_length.
  - apply (Permutation_NoDup (Permutation_sym P)). apply seq_NoDup.
  - intros p Hp. apply (Permutation_in _ P) in Hp. apply in_seq in Hp. lia.
Qed.
Lemma sort_cuts_by_order cuts : sort_cuts Rops cuts = map (fun p => nth p cuts 0) (argsort Rops cuts).
Proof. rewrite <- argsort_pairs_sorted, argsort_idx, argsort_pairs_idx, map_map. reflexivity. Qed.

(* ================================================================== Part 2: local constancy of the sort order *)
(* cut points perturbed along dc *)
Definition pert_cuts (cuts : list R) (dc : nat -> R) (t : R) : list R :=
  map (fun p => nth p cuts 0 + t * dc p) (seq 0 (length cuts)).
Lemma pert_cuts_length cuts dc t : length (pert_cuts cuts dc t) = length cuts.
Proof. unfold pert_cuts. rewrite map_length, seq_length. reflexivity. Qed.
Lemma pert_cuts_nth cuts dc t p : (p < length cuts)%nat -> nth p (pert_cuts cuts dc t) 0 = nth p cuts 0 + t * dc p.
Proof.
  intros Hp. unfold pert_cuts.
  rewrite (Proofs.Douglas.nth_map_in (fun p0 => nth p0 cuts 0 + t * dc p0) (seq 0 (length cuts)) p 0 0%nat) by (rewrite seq_length; exact Hp).
  rewrite seq_nth by exact Hp. reflexivity.
Qed.

Lemma locally_lt_lin (a b da db : R) : a < b -> locally 0 (fun t => a + t * da < b + t * db).
Proof.
  intros Hab.
  assert (Hc : continuous (fun t : R => (b + t * db) - (a + t * da)) 0).
  { apply (ex_derive_continuous (fun t : R => (b + t * db) - (a + t * da))). exists (db - da).
    apply dR_minus; apply dR_lin. }
  assert (HL : locally 0 (fun t => 0 < (b + t * db) - (a + t * da))).
  { apply (Hc (fun y => 0 < y)). apply (open_gt 0). lra. }
  revert HL. apply filter_imp. intros t Ht. lra.
Qed.

(* pairwise distinct cut points: on a neighbourhood of t = 0 the comparison table, hence argsort, does not change *)
Theorem argsort_locally_constant cuts dc : NoDup cuts ->
  locally 0 (fun t => argsort Rops (pert_cuts cuts dc t) = argsort Rops cuts).
Proof.
  intros Hnd. set (c := length cuts).
  assert (HT : locally 0 (fun t => forall a, (a < c)%nat -> forall b, (b < c)%nat ->
               cut_le (pert_cuts cuts dc t) a b = cut_le cuts a b)).
  { apply (locally_forall_lt c (fun a t => forall b, (b < c)%nat -> cut_le (pert_cuts cuts dc t) a b = cut_le cuts a b)).
    intros a Ha. apply (locally_forall_lt c (fun b t => cut_le (pert_cuts cuts dc t) a b = cut_le cuts a b)). intros b Hb.
    destruct (Nat.eq_dec a b) as [->|Hab].
    - exists (mkposreal 1 Rlt_0_1). intros t _. unfold cut_le, Rleb.
      destruct (Rle_dec _ _) as [_|N]; [|exfalso; apply N; lra]. destruct (Rle_dec _ _) as [_|N]; [reflexivity | exfalso; apply N; lra].
    - assert (Hne : nth a cuts 0 <> nth b cuts 0).
      { intros E. apply Hab. apply (proj1 (NoDup_nth cuts 0) Hnd a b Ha Hb E). }
      destruct (Rlt_le_dec (nth a cuts 0) (nth b cuts 0)) as [Hlt|Hge].
      + generalize (locally_lt_lin _ _ (dc a) (dc b) Hlt). apply filter_imp. intros t Ht.
        unfold cut_le, Rleb. rewrite !pert_cuts_nth by assumption.
        destruct (Rle_dec _ _) as [_|N]; [|exfalso; apply N; lra]. destruct (Rle_dec _ _) as [_|N]; [reflexivity | exfalso; apply N; lra].
      + assert (Hgt : nth b cuts 0 < nth a cuts 0) by lra.
        generalize (locally_lt_lin _ _ (dc b) (dc a) Hgt). apply filter_imp. intros t Ht.
        unfold cut_le, Rleb. rewrite !pert_cuts_nth by assumption.
        destruct (Rle_dec _ _) as [Y|_]; [exfalso; lra|]. destruct (Rle_dec _ _) as [Y|_]; [exfalso; lra | reflexivity]. }
  revert HT. apply filter_imp. intros t Ht. rewrite !argsort_idx, pert_cuts_length. fold c.
  apply sort_idx_ext. intros a b Ha Hb. apply in_seq in Ha. apply in_seq in Hb. apply Ht; lia.
Qed.

(* ================================================================== Part 3: the list-style forward pass, entry by entry *)
Lemma psum_rsum j (s : list R) : (j <= length s)%nat -> psum j s = rsum j (fun q => nth q s 0).
Proof.
  induction j as [|j IH]; intros Hj; [reflexivity|]. rewrite psum_S by lia. rewrite IH by lia. rewrite rsum_S. reflexivity.
Qed.

(* one binning of Model/Douglas.v = the function-style softmax over the bin logits, with order = argsort cuts *)
Lemma bins_fixed_order temp x (cuts : list R) k : (k <= length cuts)%nat ->
  nth k (bins Rops temp x cuts) 0
  = softmax_row Rops (length cuts + 1) (dg_bin_logit temp x (argsort Rops cuts) (fun p => nth p cuts 0)) k.
Proof.
  intros Hk. rewrite bins_nth by exact Hk. unfold smx. rewrite Nat.add_1_r.
  apply (smx_ext (S (length cuts))); [|lia]. intros j Hj. unfold zrow, dg_bin_logit.
  rewrite bin_logits_closed by lia. rewrite sort_cuts_by_order.
  destruct (argsort_is_order cuts) as (Hl & _ & _).
  rewrite psum_rsum by (rewrite map_length, Hl; lia).
  rewrite (rsum_ext j (fun q => nth q (map (fun p => nth p cuts 0) (argsort Rops cuts)) 0)
             (fun q => nth (nth q (argsort Rops cuts) 0%nat) cuts 0)).
  2:{ intros q Hq. apply (Proofs.Douglas.nth_map_in (fun p => nth p cuts 0) (argsort Rops cuts) q 0 0%nat). rewrite Hl. lia. }
  rewrite Nat.add_1_r. f_equal. ring.
Qed.

(* the leaf vector of Model/Douglas.v is the Kronecker product of the binnings with row-major (digit) indexing *)
Lemma digit_last m B l : digit (S m) B m l = (l mod B)%nat.
Proof. unfold digit. replace (S m - 1 - m)%nat with 0%nat by lia. rewrite Nat.pow_0_r, Nat.div_1_r. reflexivity. Qed.
Lemma digit_shift m B f' l : (0 < B)%nat -> (f' < m)%nat -> digit (S m) B f' l = digit m B f' (l / B).
Proof.
  intros HB Hf. unfold digit. replace (S m - 1 - f')%nat with (S (m - 1 - f')) by lia.
  rewrite Nat.pow_succ_r', Nat.div_div by (try apply Nat.pow_nonzero; lia). reflexivity.
Qed.
Lemma fold_merge_prod B r : (0 < B)%nat -> forall pre b,
  length b = (B ^ length pre)%nat ->
  (forall l, (l < B ^ length pre)%nat ->
     nth l b 0 = prod_bins (length pre) (fun f' => nth (digit (length pre) B f' l) (nth f' pre []) 0)) ->
  List.Forall (fun v : list R => length v = B) r ->
  length (fold_left (merge Rops) r b) = (B ^ length (pre ++ r))%nat /\
  forall l, (l < B ^ length (pre ++ r))%nat ->
    nth l (fold_left (merge Rops) r b) 0
    = prod_bins (length (pre ++ r)) (fun f' => nth (digit (length (pre ++ r)) B f' l) (nth f' (pre ++ r) []) 0).
Proof.
  intros HB. induction r as [|bn r IH]; intros pre b Lb Hb Hr.
  - rewrite app_nil_r. cbn [fold_left]. split; assumption.
  - inversion Hr as [|? ? Lbn Hr']; subst. cbn [fold_left].
    replace (pre ++ bn :: r) with ((pre ++ [bn]) ++ r) by (rewrite <- app_assoc; reflexivity).
    set (m := length pre) in *.
    assert (Lpre' : length (pre ++ [bn]) = S m) by (rewrite app_length; cbn [length]; unfold m; lia).
    apply IH; [| |exact Hr'].
    + rewrite Lpre', merge_length, Lb. cbn [Nat.pow]. lia.
    + rewrite Lpre'. intros l Hl. cbn [Nat.pow] in Hl.
      assert (Ha : (l / length bn < length bn ^ m)%nat) by (apply Nat.div_lt_upper_bound; lia).
      assert (Hq : (l mod length bn < length bn)%nat) by (apply Nat.mod_upper_bound; lia).
      rewrite (Nat.div_mod l (length bn)) at 1 by lia. rewrite (Nat.mul_comm (length bn)).
      rewrite merge_nth by (try exact Hq; rewrite Lb; exact Ha).
      cbn [prod_bins]. rewrite digit_last, (app_nth2 pre [bn]) by (fold m; lia). fold m. rewrite Nat.sub_diag. cbn [nth].
      f_equal. rewrite (Hb _ Ha). apply prod_bins_ext. intros f' Hf'.
      rewrite (digit_shift m (length bn) f' l) by lia. rewrite app_nth1 by (fold m; exact Hf'). reflexivity.
Qed.
Lemma leaf_of_bins_prod B (bsl : list (list R)) lf : (0 < B)%nat ->
  List.Forall (fun v : list R => length v = B) bsl -> leaf_of_bins Rops bsl = Some lf ->
  length lf = (B ^ length bsl)%nat /\
  forall l, (l < B ^ length bsl)%nat ->
    nth l lf 0 = prod_bins (length bsl) (fun f' => nth (digit (length bsl) B f' l) (nth f' bsl []) 0).
Proof.
  intros HB Hall E. destruct bsl as [|b r]; [discriminate|]. cbn [leaf_of_bins] in E. injection E as <-.
  inversion Hall as [|? ? Lb Hr]; subst.
  apply (fold_merge_prod (length b) r HB [b] b); [cbn; lia | | exact Hr].
  intros l Hl. cbn [length Nat.pow] in Hl. cbn [length prod_bins nth]. rewrite digit_last, Nat.mod_small by lia. ring.
Qed.

(* ---- the retained state of _infer, read off Model/Douglas.v as functions (what Backprop.douglas_compute_grads takes) *)
Definition cpl_nth (cpl : list (nat * list R)) (f : nat) : nat * list R := nth f cpl (0%nat, []).
Definition dgl_bins (temp : R) (cpl : list (nat * list R)) (X : mat) : nat -> mat :=
  fun f i m => nth m (bins Rops temp (X i (fst (cpl_nth cpl f))) (snd (cpl_nth cpl f))) 0.
Definition dgl_leaf (temp : R) (cpl : list (nat * list R)) (X : mat) : mat :=
  fun i l => match leaf Rops temp cpl (X i) with Some lf => nth l lf 0 | None => 0 end.
Definition dgl_orders (cpl : list (nat * list R)) : nat -> list nat := fun f => argsort Rops (snd (cpl_nth cpl f)).
Definition dgl_pred (temp : R) (cpl : list (nat * list R)) (K : nat) (Sc X : mat) : mat :=
  fun i k => match infer_row Rops temp cpl K Sc (X i) with Some p => p k | None => 0 end.
(* every used feature carries c cut points (_init_params) *)
Definition uniform_cuts (c : nat) (cpl : list (nat * list R)) : Prop := List.Forall (fun fc => length (snd fc) = c) cpl.

Lemma uniform_nth c cpl f : uniform_cuts c cpl -> (f < length cpl)%nat -> length (snd (cpl_nth cpl f)) = c.
Proof. intros H Hf. unfold uniform_cuts in H. rewrite Forall_forall in H. apply H. apply nth_In. exact Hf. Qed.

Lemma dgl_leaf_prod temp c cpl (X : mat) i : cpl <> [] -> uniform_cuts c cpl ->
  exists lf, leaf Rops temp cpl (X i) = Some lf /\ length lf = ((c + 1) ^ length cpl)%nat /\
    forall l, (l < (c + 1) ^ length cpl)%nat -> nth l lf 0 = leaf_prod (length cpl) (c + 1) (dgl_bins temp cpl X) i l.
Proof.
  intros Hne Hu. unfold leaf.
  assert (Hall : List.Forall (fun v : list R => length v = (c + 1)%nat) (all_bins Rops temp cpl (X i))).
  { unfold all_bins. apply Forall_forall. intros v Hv. apply in_map_iff in Hv. destruct Hv as (fc & <- & Hfc).
    rewrite bins_length. unfold uniform_cuts in Hu. rewrite Forall_forall in Hu. rewrite (Hu fc Hfc). lia. }
  destruct (leaf_of_bins Rops (all_bins Rops temp cpl (X i))) as [lf|] eqn:E.
  2:{ exfalso. unfold all_bins in E. destruct cpl; [contradiction | discriminate]. }
  exists lf. split; [reflexivity|].
  destruct (leaf_of_bins_prod (c + 1) _ lf ltac:(lia) Hall E) as [L1 L2].
  assert (Lab : length (all_bins Rops temp cpl (X i)) = length cpl) by (unfold all_bins; apply map_length).
  rewrite Lab in L1, L2. split; [exact L1|]. intros l Hl. rewrite (L2 l Hl). unfold leaf_prod. apply prod_bins_ext.
  intros f' Hf'. unfold dgl_bins, all_bins, cpl_nth. f_equal.
  apply (Proofs.Douglas.nth_map_in (fun fc => bins Rops temp (X i (fst fc)) (snd fc)) cpl f' [] (0%nat, [])). exact Hf'.
Qed.
Lemma dgl_leaf_is_prod temp c cpl (X : mat) i l : cpl <> [] -> uniform_cuts c cpl -> (l < (c + 1) ^ length cpl)%nat ->
  dgl_leaf temp cpl X i l = leaf_prod (length cpl) (c + 1) (dgl_bins temp cpl X) i l.
Proof.
  intros Hne Hu Hl. destruct (dgl_leaf_prod temp c cpl X i Hne Hu) as (lf & E & _ & H). unfold dgl_leaf. rewrite E. apply H, Hl.
Qed.
(* the prediction of Model/Douglas.v = softmax of (leaf @ leaf scores) over the (c+1)^F leaves *)
Lemma dgl_pred_softmax temp c cpl K (Sc X : mat) i k : cpl <> [] -> uniform_cuts c cpl ->
  dgl_pred temp cpl K Sc X i k
  = softmax_row Rops K (fun k' => rsum ((c + 1) ^ length cpl) (fun l => dgl_leaf temp cpl X i l * Sc l k')) k.
Proof.
  intros Hne Hu. destruct (dgl_leaf_prod temp c cpl X i Hne Hu) as (lf & E & Llf & _).
  unfold dgl_pred, infer_row, dgl_leaf. rewrite E. cbn [option_map]. apply softmax_row_ext. intros k'.
  rewrite leaf_logits_R, Llf. reflexivity.
Qed.

(* C03 (b) for Douglas on the state of Model/Douglas.v itself: no structural hypothesis left *)
Theorem douglas_adjoint_list_model n c K temp cpl (Sc X g dS : mat) (dcs : nat -> nat -> R) :
  temp <> 0 -> cpl <> [] -> uniform_cuts c cpl ->
  let F := length cpl in
  let grads := douglas_compute_grads Rops n F c K temp Sc (dgl_leaf temp cpl X) (dgl_bins temp cpl X) (dgl_orders cpl)
                 (dgl_pred temp cpl K Sc X) g in
  inner n K g (douglas_jvp F c K temp Sc (dgl_leaf temp cpl X) (dgl_bins temp cpl X) (dgl_orders cpl) (dgl_pred temp cpl K Sc X) dS dcs)
  = - (inner ((c + 1) ^ F) K (fst grads) dS + rsum F (fun f => inner_vec c (snd grads f) (dcs f))).
Proof.
  intros Htemp Hne Hu. cbv zeta. apply douglas_adjoint; [exact Htemp | |].
  - intros f Hf. unfold dgl_orders. rewrite <- (uniform_nth c cpl f Hu Hf). apply argsort_is_order.
  - intros i l _ Hl. apply (dgl_leaf_is_prod temp c cpl X i l Hne Hu Hl).
Qed.

(* ================================================================== Part 4: derivative of the real forward pass in one feature's cut points *)
Lemma set_nth_same {A} (l : list A) f d : set_nth f (nth f l d) l = l.
Proof.
  revert f. induction l as [|y r IH]; intros [|f]; cbn [set_nth nth]; try reflexivity. f_equal. apply IH.
Qed.
Lemma cpl_nth_set cpl f v f' : (f < length cpl)%nat ->
  cpl_nth (set_nth f v cpl) f' = if (f' =? f)%nat then v else cpl_nth cpl f'.
Proof.
  intros Hf. unfold cpl_nth. destruct (Nat.eqb_spec f' f) as [->|Hne].
  - apply nth_set_nth_eq. exact Hf.
  - apply nth_set_nth_neq. congruence.
Qed.

(* the function-style forward pass of Proofs/Backprop.v (order and the other features' factors as parameters) *)
Definition dgf_leaf (F c f : nat) (temp : R) (rest : mat) (x : nat -> R) (order : list nat) (cu : nat -> R) : mat :=
  fun i l => dg_bins_fixed (c + 1) temp x order cu i (digit F (c + 1) f l) * rest i l.
Definition dgf_pred (F c K f : nat) (temp : R) (Sc rest : mat) (x : nat -> R) (order : list nat) (cu : nat -> R) : mat :=
  softmax Rops K (matmul Rops ((c + 1) ^ F) (dgf_leaf F c f temp rest x order cu) Sc).

(* only the cut points listed by `order` matter *)
Lemma dg_bins_fixed_ext c temp (x : nat -> R) order (cu cu' : nat -> R) i m : is_order c order -> (m < c + 1)%nat ->
  (forall p, (p < c)%nat -> cu p = cu' p) ->
  dg_bins_fixed (c + 1) temp x order cu i m = dg_bins_fixed (c + 1) temp x order cu' i m.
Proof.
  intros (Hl & _ & Hr) Hm H. unfold dg_bins_fixed. apply (smx_ext (c + 1)); [|exact Hm].
  intros m' Hm'. unfold dg_bin_logit. f_equal. f_equal. f_equal. apply rsum_ext. intros q Hq.
  apply H, Hr, nth_In. lia.
Qed.
Lemma dgf_pred_ext F c K f temp (Sc rest : mat) x order (cu cu' : nat -> R) i k : is_order c order ->
  (forall p, (p < c)%nat -> cu p = cu' p) ->
  dgf_pred F c K f temp Sc rest x order cu i k = dgf_pred F c K f temp Sc rest x order cu' i k.
Proof.
  intros Ho H. unfold dgf_pred, softmax. apply softmax_row_ext. intros k'. rewrite !matmul_R. apply rsum_ext. intros l Hl.
  unfold dgf_leaf. rewrite (dg_bins_fixed_ext c temp x order cu cu' i _ Ho (digit_lt F c f l) H). reflexivity.
Qed.

(* the list model with the cut points of feature f replaced by cuts' = the function-style pass with order = argsort cuts' *)
Lemma fixed_order_state temp c cpl f (cuts' : list R) (X : mat) : uniform_cuts c cpl -> (f < length cpl)%nat -> length cuts' = c ->
  let F := length cpl in let feat := fst (cpl_nth cpl f) in
  let cpl' := set_nth f (feat, cuts') cpl in
  let x := fun i => X i feat in let order := argsort Rops cuts' in let cu := fun p => nth p cuts' 0 in
  let rest := rest_prod F (c + 1) f (dgl_bins temp cpl X) in
  (forall i m, (m < c + 1)%nat -> dgl_bins temp cpl' X f i m = dg_bins_fixed (c + 1) temp x order cu i m) /\
  (forall i l, (l < (c + 1) ^ F)%nat -> dgl_leaf temp cpl' X i l = dgf_leaf F c f temp rest x order cu i l) /\
  (forall K Sc i k, dgl_pred temp cpl' K Sc X i k = dgf_pred F c K f temp Sc rest x order cu i k).
Proof.
  intros Hu Hf Lc. cbv zeta. set (F := length cpl). set (feat := fst (cpl_nth cpl f)).
  set (cpl' := set_nth f (feat, cuts') cpl).
  assert (LF : length cpl' = F) by (unfold cpl'; apply length_set_nth).
  assert (Hne' : cpl' <> []) by (intros E; rewrite E in LF; cbn in LF; unfold F in *; lia).
  assert (Hu' : uniform_cuts c cpl') by (unfold cpl', uniform_cuts; apply Forall_set_nth; [exact Hu | exact Lc]).
  assert (Hb : forall i m, (m < c + 1)%nat ->
            dgl_bins temp cpl' X f i m = dg_bins_fixed (c + 1) temp (fun i0 => X i0 feat) (argsort Rops cuts') (fun p => nth p cuts' 0) i m).
  { intros i m Hm. unfold dgl_bins, cpl'. rewrite (cpl_nth_set cpl f (feat, cuts') f Hf), Nat.eqb_refl. cbn [fst snd].
    rewrite bins_fixed_order by lia. rewrite Lc. reflexivity. }
  assert (Hl : forall i l, (l < (c + 1) ^ F)%nat ->
            dgl_leaf temp cpl' X i l
            = dgf_leaf F c f temp (rest_prod F (c + 1) f (dgl_bins temp cpl X)) (fun i0 => X i0 feat) (argsort Rops cuts') (fun p => nth p cuts' 0) i l).
  { intros i l Hl. rewrite (dgl_leaf_is_prod temp c cpl' X i l Hne' Hu') by (rewrite LF; exact Hl). rewrite LF.
    rewrite (leaf_prod_split F (c + 1) f (dgl_bins temp cpl' X) i l Hf). unfold dgf_leaf.
    rewrite (Hb i _ (digit_lt F c f l)). f_equal. unfold rest_prod. apply prod_bins_ext. intros f' Hf'.
    destruct (Nat.eqb_spec f' f) as [_|Hne]; [reflexivity|]. unfold dgl_bins, cpl'.
    rewrite (cpl_nth_set cpl f (feat, cuts') f' Hf). destruct (Nat.eqb_spec f' f); [contradiction | reflexivity]. }
  split; [exact Hb|]. split; [exact Hl|].
  intros K Sc i k. rewrite (dgl_pred_softmax temp c cpl' K Sc X i k Hne' Hu'), LF. unfold dgf_pred, softmax.
  apply softmax_row_ext. intros k'. rewrite matmul_R. apply rsum_ext. intros l Hl'. rewrite (Hl i l Hl'). reflexivity.
Qed.

(* the cut direction depends on the retained state only through its entries in range *)
Lemma tau_hat_ext_range K (Y Y' g : mat) i k : (forall k', (k' < K)%nat -> Y i k' = Y' i k') -> (k < K)%nat ->
  tau_hat Rops K Y g i k = tau_hat Rops K Y' g i k.
Proof.
  intros H Hk. rewrite !tau_hat_R, (H k Hk). f_equal. f_equal. apply rsum_ext. intros c0 Hc0. rewrite (H c0 Hc0). reflexivity.
Qed.
Lemma dg_cut_direction_ext n F c L K f temp (Sc leafm leafm' bin bin' : mat) order (tau tau' : mat) p :
  (forall i l, (i < n)%nat -> (l < L)%nat -> leafm i l = leafm' i l) ->
  (forall i m, (i < n)%nat -> (m < c + 1)%nat -> bin i m = bin' i m) ->
  (forall i k, (i < n)%nat -> (k < K)%nat -> tau i k = tau' i k) ->
  dg_cut_direction Rops n F c L K f temp Sc leafm bin order tau p
  = dg_cut_direction Rops n F c L K f temp Sc leafm' bin' order tau' p.
Proof.
  intros Hlf Hb Ht. unfold dg_cut_direction. f_equal. unfold dg_cumsum_grad. f_equal.
  apply bsum_ext. intros r Hr. unfold dg_bias_grad. apply bsum_ext. intros i Hi.
  assert (Hbb : forall l, (l < L)%nat -> dg_binning_backprop Rops K tau Sc leafm i l = dg_binning_backprop Rops K tau' Sc leafm' i l).
  { intros l Hl. unfold dg_binning_backprop. rewrite (Hlf i l Hi Hl). f_equal. apply bsum_ext. intros k Hk. rewrite (Ht i k Hi Hk). reflexivity. }
  assert (Hsg : forall m, (m < c + 1)%nat ->
            dg_softmax_grad Rops F (c + 1) L f (dg_binning_backprop Rops K tau Sc leafm) bin i m
            = dg_softmax_grad Rops F (c + 1) L f (dg_binning_backprop Rops K tau' Sc leafm') bin' i m).
  { intros m Hm. unfold dg_softmax_grad. rewrite (Hb i m Hi Hm).
    replace (bsum Rops L (fun l => if (digit F (c + 1) f l =? m)%nat then dg_binning_backprop Rops K tau Sc leafm i l else n0 Rops))
      with (bsum Rops L (fun l => if (digit F (c + 1) f l =? m)%nat then dg_binning_backprop Rops K tau' Sc leafm' i l else n0 Rops)).
    2:{ apply bsum_ext. intros l Hl. rewrite (Hbb l Hl). reflexivity. } reflexivity. }
  unfold dg_bin_grad. assert (Hm : (S (c - 1 - r) < c + 1)%nat) by lia.
  rewrite (Hb i _ Hi Hm), (Hsg _ Hm). f_equal. f_equal. f_equal.
  apply bsum_ext. intros c' Hc'. rewrite (Hb i c' Hi Hc'), (Hsg c' Hc'). reflexivity.
Qed.

(* C03, Douglas cut points, on Model/Douglas.v itself: temperature > 0, pairwise distinct cut points for the
   feature considered; nothing else.  cpl with the cut points of used feature number f moved along dc. *)
Theorem douglas_cut_direction_is_gradient n c K f temp cpl (Sc X g : mat) (dc : nat -> R) :
  (0 < K)%nat -> 0 < temp -> uniform_cuts c cpl -> (f < length cpl)%nat -> NoDup (snd (cpl_nth cpl f)) ->
  let F := length cpl in let feat := fst (cpl_nth cpl f) in let cuts := snd (cpl_nth cpl f) in
  is_derive (fun t : R => inner n K g (dgl_pred temp (set_nth f (feat, pert_cuts cuts dc t) cpl) K Sc X)) 0
            (- inner_vec c (snd (douglas_compute_grads Rops n F c K temp Sc (dgl_leaf temp cpl X) (dgl_bins temp cpl X)
                                   (dgl_orders cpl) (dgl_pred temp cpl K Sc X) g) f) dc).
Proof.
  intros HK Htemp Hu Hf Hnd. cbv zeta.
  set (F := length cpl). set (feat := fst (cpl_nth cpl f)). set (cuts := snd (cpl_nth cpl f)).
  assert (Lc : length cuts = c) by (apply uniform_nth; assumption).
  set (order0 := argsort Rops cuts). set (cu0 := fun p => nth p cuts 0).
  set (rest := rest_prod F (c + 1) f (dgl_bins temp cpl X)). set (x := fun i => X i feat).
  assert (Ho : is_order c order0) by (unfold order0; rewrite <- Lc; apply argsort_is_order).
  pose proof (douglas_cut_direction_is_gradient_fixed_order n F c K f temp Sc rest x order0 cu0 dc g HK ltac:(lra) Ho) as H.
  cbv zeta in H.
  (* the unperturbed state, presented function-style *)
  destruct (fixed_order_state temp c cpl f cuts X Hu Hf Lc) as (S1 & S2 & S3). cbv zeta in S1, S2, S3.
  fold F feat in S1, S2, S3. replace (set_nth f (feat, cuts) cpl) with cpl in S1, S2, S3.
  2:{ symmetry. replace (feat, cuts) with (nth f cpl (0%nat, [])); [apply set_nth_same|]. unfold feat, cuts, cpl_nth. destruct (nth f cpl (0%nat, [])); reflexivity. }
  fold order0 cu0 rest x in S1, S2, S3.
  apply (dR_ext_loc (fun t : R => inner n K g (dgf_pred F c K f temp Sc rest x order0 (fun p => cu0 p + t * dc p)))).
  { generalize (argsort_locally_constant cuts dc Hnd). apply filter_imp. intros t Ht. apply inner_ext; [reflexivity|].
    intros i k _ _. symmetry.
    destruct (fixed_order_state temp c cpl f (pert_cuts cuts dc t) X Hu Hf ltac:(rewrite pert_cuts_length; exact Lc)) as (_ & _ & T3).
    cbv zeta in T3. fold F feat rest x in T3. rewrite T3, Ht. fold order0.
    apply dgf_pred_ext; [exact Ho|]. intros p Hp. unfold cu0. apply pert_cuts_nth. rewrite Lc. exact Hp. }
  eapply dR_val; [|exact H]. eqR. f_equal. unfold inner_vec. apply rsum_ext. intros p Hp. f_equal.
  unfold douglas_compute_grads. cbn [snd]. fold F. unfold dgl_orders. fold cuts order0.
  apply dg_cut_direction_ext.
  - intros i l _ Hl. symmetry. apply (S2 i l Hl).
  - intros i m _ Hm. symmetry. apply (S1 i m Hm).
  - intros i k _ Hk. apply tau_hat_ext_range; [|exact Hk]. intros k' _. symmetry. apply S3.
Qed.

(* the leaf scores, on Model/Douglas.v itself *)
Theorem douglas_leaf_direction_is_gradient_list_model n c K temp cpl (Sc dS X g : mat) :
  (0 < K)%nat -> cpl <> [] -> uniform_cuts c cpl ->
  let F := length cpl in
  is_derive (fun t : R => inner n K g (dgl_pred temp cpl K (fun l k => Sc l k + t * dS l k) X)) 0
            (- inner ((c + 1) ^ F) K
                 (fst (douglas_compute_grads Rops n F c K temp Sc (dgl_leaf temp cpl X) (dgl_bins temp cpl X)
                         (dgl_orders cpl) (dgl_pred temp cpl K Sc X) g)) dS).
Proof.
  intros HK Hne Hu. cbv zeta. set (F := length cpl). set (L := ((c + 1) ^ F)%nat). set (leafm := dgl_leaf temp cpl X).
  apply (dR_ext (fun t : R => inner n K g (softmax Rops K (matmul Rops L leafm (fun l k => Sc l k + t * dS l k))))).
  { intros t. apply inner_ext; [reflexivity|]. intros i k _ _. symmetry. apply (dgl_pred_softmax temp c cpl K _ X i k Hne Hu). }
  eapply dR_val; [|apply (douglas_leaf_direction_is_gradient n F c K temp Sc dS leafm (dgl_bins temp cpl X) (dgl_orders cpl) g HK)].
  eqR. f_equal. unfold douglas_compute_grads. cbn [fst]. apply inner_ext; [|reflexivity]. intros l k _ Hk.
  rewrite !mneg_R, !tmatmul_R. f_equal. apply rsum_ext. intros i Hi. f_equal.
  apply tau_hat_ext_range; [|assumption]. intros k' _. symmetry. apply (dgl_pred_softmax temp c cpl K Sc X i k' Hne Hu).
Qed.

(* non-vacuity witness for Props/C03.v: the earlier witness plus a Douglas parameter list with unsorted, pairwise
   distinct cut points whose argsort is a genuine permutation *)
Lemma argsort_2_0 : argsort Rops [2; 0] = [1; 0]%nat.
Proof.
  unfold argsort, argsort_pairs. cbn [length seq combine sort_pairs insert_p snd nleb Rops map fst].
  unfold Rleb. destruct (Rle_dec 2 0) as [H|_]; [exfalso; lra | reflexivity].
Qed.
Lemma nonvacuous_witness_c03 :
  (let X : mat := fun i _ => match i with O => 1 | _ => -2 end in
   let th : @MlpP R := {| mW1 := fun _ j => match j with O => 1 | _ => -1 end; mW2 := fun _ _ => 1;
                          mb1 := fun _ => /2; mb2 := fun _ => 0 |} in
   relu_off_kink 2 2 (preact 1 X th)) /\
  is_order 2 [1; 0]%nat /\ sym_on 2 (fun j l => INR (j + l)) /\ length [7; 3; 11]%nat = 3%nat /\
  prefix_mlp_formula_violates_adjoint /\
  (let cpl := [(0%nat, [2; 0]); (2%nat, [1; -1])] in
   uniform_cuts 2 cpl /\ (1 < length cpl)%nat /\ NoDup (snd (cpl_nth cpl 1)) /\ argsort Rops (snd (cpl_nth cpl 0)) = [1; 0]%nat).
Proof.
  destruct nonvacuous_witness as (A & B & C & D & E).
  split; [exact A|]. split; [exact B|]. split; [exact C|]. split; [exact D|]. split; [exact E|].
  cbv zeta. split; [repeat constructor|]. split; [cbn; lia|]. split.
  - cbn [cpl_nth nth snd]. constructor; [|constructor; [intros []|constructor]]. intros [H|[]]. lra.
  - exact argsort_2_0.
Qed.
