(* C06 — proofs about Model/Selection.v at the real-number instance Rops:
   selection = non-zero rows; inertness of zero rows for the linear and the sparse-MLP forward passes of
   Model/Forward.v; consequences of the two facts about the proximal operators that C06 needs (C05 proves them
   about Model/Prox.v; here they are premises: [common_factor] and [hier_feasible]); completion of group lists;
   _update_weights = prox after the optimiser step. *)
From Coq Require Import Reals Lra Lia List Bool Arith Permutation Sorted.
From GV Require Import Common.Num Common.NumR Model.Forward Model.Selection Proofs.RSumLib.
Import ListNotations.
Open Scope R_scope.

Local Notation mat := (nat -> nat -> R).

(* ================================================================================ 1. selection = non-zero rows *)
Definition rowsq (K : nat) (W : mat) (j : nat) : R := rsum K (fun k => W j k * W j k).
Definition row_zero (K : nat) (W : mat) (j : nat) : Prop := forall k, (k < K)%nat -> W j k = 0.

Lemma row_norm_R K W j : row_norm Rops K W j = sqrt (rowsq K W j).
Proof. reflexivity. Qed.

Lemma rsum_sq_zero n (f : nat -> R) : rsum n (fun k => f k * f k) = 0 <-> (forall k, (k < n)%nat -> f k = 0).
Proof.
  induction n as [|n IH].
  - split; [intros _ k Hk; lia | intros _; reflexivity].
  - rewrite rsum_S. split.
    + intros H.
      assert (H0 : 0 <= rsum n (fun k => f k * f k)).
      { apply rsum_nonneg. intros i _. apply Rle_0_sqr. }
      assert (H1 : 0 <= f n * f n) by apply Rle_0_sqr.
      assert (Ha : rsum n (fun k => f k * f k) = 0) by lra.
      assert (Hb : f n * f n = 0) by lra.
      intros k Hk. destruct (Nat.eq_dec k n) as [->|Hne].
      * apply Rmult_integral in Hb. destruct Hb; assumption.
      * apply IH; [exact Ha | lia].
    + intros H. assert (Ha : rsum n (fun k => f k * f k) = 0) by (apply IH; intros k Hk; apply H; lia).
      rewrite Ha, (H n) by lia. lra.
Qed.

Lemma rowsq_nonneg K W j : 0 <= rowsq K W j.
Proof. apply rsum_nonneg. intros i _. apply Rle_0_sqr. Qed.
Lemma rowsq_zero_iff K W j : rowsq K W j = 0 <-> row_zero K W j.
Proof. apply (rsum_sq_zero K (W j)). Qed.

(* the Euclidean norm of a row vanishes exactly when every entry of the row is zero *)
Lemma row_norm_zero_iff K W j : row_norm Rops K W j = 0 <-> row_zero K W j.
Proof.
  rewrite row_norm_R, <- rowsq_zero_iff. split.
  - intros H. apply sqrt_eq_0; [apply rowsq_nonneg | exact H].
  - intros ->. apply sqrt_0.
Qed.

Lemma selected_true_iff K W j : selected Rops K W j = true <-> ~ row_zero K W j.
Proof.
  unfold selected. cbn [neqb n0 Rops]. unfold Reqb. rewrite <- row_norm_zero_iff.
  destruct (Req_EM_T (row_norm Rops K W j) 0) as [E|E]; cbn [negb]; split; intros H; try discriminate; try reflexivity; tauto.
Qed.
Lemma selected_false_iff K W j : selected Rops K W j = false <-> row_zero K W j.
Proof.
  pose proof (selected_true_iff K W j) as H. destruct (selected Rops K W j).
  - split; [discriminate|]. intros Hz. exfalso. apply (proj1 H); [reflexivity | exact Hz].
  - split; [|reflexivity]. intros _. rewrite <- row_norm_zero_iff.
    destruct (Req_EM_T (row_norm Rops K W j) 0) as [E|E]; [exact E|].
    exfalso. assert (Hn : ~ row_zero K W j) by (rewrite <- row_norm_zero_iff; exact E).
    apply (proj2 H) in Hn. discriminate.
Qed.

Lemma In_selection d K W j : In j (selection Rops d K W) <-> (j < d)%nat /\ ~ row_zero K W j.
Proof. unfold selection. rewrite filter_In, in_seq, selected_true_iff. split; intros [H1 H2]; split; try assumption; lia. Qed.

Lemma seq_sorted_lt n s : StronglySorted lt (seq s n).
Proof.
  revert s. induction n as [|n IH]; intros s; simpl; constructor; [apply IH|].
  apply Forall_forall. intros x Hx. apply in_seq in Hx. lia.
Qed.
Lemma filter_sorted_lt (f : nat -> bool) l : StronglySorted lt l -> StronglySorted lt (filter f l).
Proof.
  induction l as [|x r IH]; intros H; simpl; [constructor|]. inversion H as [|? ? Hr Hx]; subst.
  destruct (f x); [constructor|]; auto.
  apply Forall_forall. intros y Hy. apply filter_In in Hy. rewrite Forall_forall in Hx. apply Hx. tauto.
Qed.
Lemma selection_sorted d K W : StronglySorted lt (selection Rops d K W).
Proof. apply filter_sorted_lt, seq_sorted_lt. Qed.

Lemma n_selected_length d K W : n_selected Rops d K W = length (selection Rops d K W).
Proof.
  unfold selection. induction d as [|d IH]; [reflexivity|].
  cbn [n_selected]. rewrite IH, seq_S, filter_app, app_length. cbn [filter Nat.add].
  destruct (selected Rops K W d); reflexivity.
Qed.

Lemma selection_is_nonzero_rows : forall d K (W : mat),
  (forall j, row_norm Rops K W j = 0 <-> (forall k, (k < K)%nat -> W j k = 0)) /\
  (forall j, In j (selection Rops d K W) <-> (j < d)%nat /\ exists k, (k < K)%nat /\ W j k <> 0) /\
  StronglySorted lt (selection Rops d K W) /\
  n_selected Rops d K W = length (selection Rops d K W).
Proof.
  intros d K W. split; [intros j; apply row_norm_zero_iff|]. split; [|split; [apply selection_sorted | apply n_selected_length]].
  intros j. rewrite In_selection. split; intros [Hj H]; split; try exact Hj.
  - (* a non-zero row has a non-zero entry: decidable bounded search *)
    assert (G : forall n, (forall k, (k < n)%nat -> W j k = 0) \/ exists k, (k < n)%nat /\ W j k <> 0).
    { induction n as [|n [IH|IH]].
      - left. intros k Hk. lia.
      - destruct (Req_EM_T (W j n) 0) as [E|E].
        + left. intros k Hk. destruct (Nat.eq_dec k n) as [->|Hne]; [exact E | apply IH; lia].
        + right. exists n. split; [lia | exact E].
      - right. destruct IH as (k & Hk & Hne). exists k. split; [lia | exact Hne]. }
    destruct (G K) as [Hz|Hex]; [contradiction | exact Hex].
  - intros Hz. destruct H as (k & Hk & Hne). apply Hne, Hz, Hk.
Qed.

(* ================================================================================ 2. zero rows are inert *)
Lemma vmax_SS (m : nat) (z : nat -> R) : vmax Rops (S (S m)) z = nmax Rops (vmax Rops (S m) z) (z (S m)).
Proof. reflexivity. Qed.
Lemma vmax_ext K (z z' : nat -> R) : (forall c, (c < K)%nat -> z c = z' c) -> vmax Rops K z = vmax Rops K z'.
Proof.
  induction K as [|K IH]; intros H; [reflexivity|]. destruct K as [|K].
  - cbn [vmax]. apply H. lia.
  - rewrite !vmax_SS. rewrite IH by (intros c Hc; apply H; lia). rewrite (H (S K)) by lia. reflexivity.
Qed.
(* the softmax of a row of K logits reads only those K logits *)
Lemma softmax_row_ext K (z z' : nat -> R) k : (forall c, (c < K)%nat -> z c = z' c) -> (k < K)%nat ->
  softmax_row Rops K z k = softmax_row Rops K z' k.
Proof.
  intros H Hk. unfold softmax_row. rewrite (vmax_ext K z z' H). cbn [ndiv nexp nsub Rops].
  rewrite (H k Hk). f_equal. apply (rsum_ext K). intros c Hc. rewrite (H c Hc). reflexivity.
Qed.

(* X and X' agree on every column whose weight entry in column k is non-zero *)
Lemma affine_agree d (X X' W : mat) (b : nat -> R) i k :
  (forall j, (j < d)%nat -> W j k = 0 \/ X i j = X' i j) -> affine Rops d X W b i k = affine Rops d X' W b i k.
Proof.
  intros H. unfold affine. cbn [nadd nmul Rops]. f_equal. apply (rsum_ext d). intros j Hj.
  destruct (H j Hj) as [E|E]; rewrite E; [lra | reflexivity].
Qed.
Lemma matmul_agree d (X X' W : mat) i k :
  (forall j, (j < d)%nat -> W j k = 0 \/ X i j = X' i j) -> matmul Rops d X W i k = matmul Rops d X' W i k.
Proof.
  intros H. unfold matmul. cbn [nmul Rops]. apply (rsum_ext d). intros j Hj.
  destruct (H j Hj) as [E|E]; rewrite E; [lra | reflexivity].
Qed.

Lemma zero_row_inert_linear : forall d K (W : mat) (b : nat -> R) (X X' : mat),
  (forall j, (j < d)%nat -> (forall k, (k < K)%nat -> W j k = 0) \/ (forall i, X i j = X' i j)) ->
  forall i k, (k < K)%nat -> linear_infer Rops d K W b X i k = linear_infer Rops d K W b X' i k.
Proof.
  intros d K W b X X' H i k Hk. unfold linear_infer, softmax. apply softmax_row_ext; [|exact Hk].
  intros c Hc. apply affine_agree. intros j Hj. destruct (H j Hj) as [Hz|He]; [left; apply Hz, Hc | right; apply He].
Qed.

Lemma zero_rows_inert_sparse_mlp : forall d h K (W1 : mat) (b1 : nat -> R) (W2 : mat) (b2 : nat -> R) (Wskip X X' : mat),
  (forall j, (j < d)%nat ->
     ((forall k, (k < K)%nat -> Wskip j k = 0) /\ (forall c, (c < h)%nat -> W1 j c = 0)) \/ (forall i, X i j = X' i j)) ->
  forall i k, (k < K)%nat ->
    sparse_mlp_infer Rops d h K W1 b1 W2 b2 Wskip X i k = sparse_mlp_infer Rops d h K W1 b1 W2 b2 Wskip X' i k.
Proof.
  intros d h K W1 b1 W2 b2 Wskip X X' H i k Hk. unfold sparse_mlp_infer, softmax. apply softmax_row_ext; [|exact Hk].
  intros c Hc. f_equal.
  - unfold affine. cbn [nadd nmul Rops]. f_equal. apply (rsum_ext h). intros a Ha. f_equal.
    unfold mlp_hidden. f_equal. apply affine_agree. intros j Hj.
    destruct (H j Hj) as [[_ Hz]|He]; [left; apply Hz, Ha | right; apply He].
  - apply matmul_agree. intros j Hj. destruct (H j Hj) as [[Hz _]|He]; [left; apply Hz, Hc | right; apply He].
Qed.

(* the same, phrased with get_selection: inputs that agree on the selected features get the same prediction *)
Lemma unselected_inert_linear : forall d K (W : mat) (b : nat -> R) (X X' : mat),
  (forall j, In j (selection Rops d K W) -> forall i, X i j = X' i j) ->
  forall i k, (k < K)%nat -> linear_infer Rops d K W b X i k = linear_infer Rops d K W b X' i k.
Proof.
  intros d K W b X X' H. apply zero_row_inert_linear. intros j Hj.
  destruct (selected Rops K W j) eqn:E.
  - right. apply H. apply In_selection. split; [exact Hj | apply selected_true_iff; exact E].
  - left. apply selected_false_iff. exact E.
Qed.

(* ================================================================================ 3. what C06 needs of the proximal operators *)
(* groups of rows; the plain (ungrouped) operators act on the singleton groups *)
Definition group_sq (K : nat) (W : mat) (g : list nat) : R := lsumR (map (rowsq K W) g).
Definition group_norm (K : nat) (W : mat) (g : list nat) : R := sqrt (group_sq K W g).
Definition singletons (d : nat) : list (list nat) := map (fun i => [i]) (seq 0 d).

(* FACT 1 (C05: beta* = x* . v on the flattened group; linear: W* = max(|w|-a,0)/|w| . w): all rows of a group are
   multiplied by one common factor *)
Definition common_factor (K : nat) (gs : list (list nat)) (W W' : mat) : Prop :=
  forall g, In g gs -> exists c : R, forall j, In j g -> forall k, (k < K)%nat -> W' j k = c * W j k.
(* FACT 2 (C05: hierarchy feasibility |theta_j| <= M ||beta||, on the flattened group) *)
Definition hier_feasible (h K : nat) (M : R) (gs : list (list nat)) (Wskip W1 : mat) : Prop :=
  forall g, In g gs -> forall j, In j g -> forall c, (c < h)%nat -> Rabs (W1 j c) <= M * group_norm K Wskip g.
(* the ungrouped form of FACT 2 *)
Definition row_feasible (d h K : nat) (M : R) (Wskip W1 : mat) : Prop :=
  forall j, (j < d)%nat -> forall c, (c < h)%nat -> Rabs (W1 j c) <= M * row_norm Rops K Wskip j.

Lemma In_singletons d g : In g (singletons d) <-> exists j, (j < d)%nat /\ g = [j].
Proof.
  unfold singletons. rewrite in_map_iff. split.
  - intros (j & E & Hj). apply in_seq in Hj. exists j. split; [lia | symmetry; exact E].
  - intros (j & Hj & E). exists j. split; [symmetry; exact E | apply in_seq; lia].
Qed.
Lemma group_sq_single K W j : group_sq K W [j] = rowsq K W j.
Proof. unfold group_sq. simpl. lra. Qed.
Lemma row_feasible_singletons d h K M Wskip W1 :
  row_feasible d h K M Wskip W1 <-> hier_feasible h K M (singletons d) Wskip W1.
Proof.
  split.
  - intros H g Hg j Hj c Hc. apply In_singletons in Hg. destruct Hg as (j0 & Hj0 & ->).
    destruct Hj as [<-|[]]. unfold group_norm. rewrite group_sq_single, <- row_norm_R. apply H; assumption.
  - intros H j Hj c Hc. specialize (H [j] (proj2 (In_singletons d [j]) (ex_intro _ j (conj Hj eq_refl))) j (or_introl eq_refl) c Hc).
    unfold group_norm in H. rewrite group_sq_single, <- row_norm_R in H. exact H.
Qed.

Lemma group_sq_zero K W g : (forall j, In j g -> row_zero K W j) -> group_sq K W g = 0.
Proof.
  unfold group_sq. induction g as [|x g IH]; intros H; simpl; [reflexivity|].
  rewrite IH by (intros j Hj; apply H; right; exact Hj).
  rewrite (proj2 (rowsq_zero_iff K W x)) by (apply H; left; reflexivity). lra.
Qed.

(* a zero skip group forces zero first-layer rows (feasibility with ||beta|| = 0) *)
Lemma hierarchy_zero_propagates_group : forall h K M gs (Wskip W1 : mat),
  hier_feasible h K M gs Wskip W1 ->
  forall g, In g gs -> (forall j, In j g -> row_zero K Wskip j) ->
  forall j, In j g -> forall c, (c < h)%nat -> W1 j c = 0.
Proof.
  intros h K M gs Wskip W1 HF g Hg Hz j Hj c Hc. specialize (HF g Hg j Hj c Hc).
  unfold group_norm in HF. rewrite (group_sq_zero K Wskip g Hz), sqrt_0, Rmult_0_r in HF.
  pose proof (Rabs_pos (W1 j c)) as Hp. assert (E : Rabs (W1 j c) = 0) by lra.
  destruct (Req_EM_T (W1 j c) 0) as [E0|E0]; [exact E0|]. exfalso. apply (Rabs_no_R0 _ E0). exact E.
Qed.
Lemma hierarchy_zero_propagates_row : forall d h K M (Wskip W1 : mat),
  row_feasible d h K M Wskip W1 ->
  forall j, (j < d)%nat -> row_norm Rops K Wskip j = 0 -> forall c, (c < h)%nat -> W1 j c = 0.
Proof.
  intros d h K M Wskip W1 HF j Hj Hz c Hc. apply row_feasible_singletons in HF.
  apply (hierarchy_zero_propagates_group h K M (singletons d) Wskip W1 HF [j]).
  - apply In_singletons. exists j. split; [exact Hj | reflexivity].
  - intros j0 [<-|[]]. apply row_norm_zero_iff. exact Hz.
  - left. reflexivity.
  - exact Hc.
Qed.

(* rows of a group after a common factor c: a row is zero iff c = 0 or it was zero already *)
Lemma scaled_row_zero K (W W' : mat) c j : (forall k, (k < K)%nat -> W' j k = c * W j k) ->
  (row_zero K W' j <-> c = 0 \/ row_zero K W j).
Proof.
  intros H. split.
  - intros Hz. destruct (Req_EM_T c 0) as [E|E]; [left; exact E|]. right. intros k Hk.
    specialize (Hz k Hk). rewrite (H k Hk) in Hz. apply Rmult_integral in Hz. destruct Hz; [contradiction | assumption].
  - intros [E|Hz] k Hk; rewrite (H k Hk); [rewrite E | rewrite (Hz k Hk)]; lra.
Qed.

Lemma group_whole : forall K gs (W W' : mat), common_factor K gs W W' -> forall g, In g gs ->
  (* in general: the group is dropped as a whole, or its pattern of zero rows is exactly what it was
     (rows that were already zero stay zero, no other row becomes zero) *)
  ((forall j, In j g -> row_zero K W' j) \/ (forall j, In j g -> (row_zero K W' j <-> row_zero K W j))) /\
  (* hence a group whose rows were all non-zero is kept whole or dropped whole *)
  ((forall j, In j g -> ~ row_zero K W j) ->
     (forall j, In j g -> row_zero K W' j) \/ (forall j, In j g -> ~ row_zero K W' j)).
Proof.
  intros K gs W W' HC g Hg. destruct (HC g Hg) as (c & Hc).
  assert (A : (forall j, In j g -> row_zero K W' j) \/ (forall j, In j g -> (row_zero K W' j <-> row_zero K W j))).
  { destruct (Req_EM_T c 0) as [E|E].
    - left. intros j Hj. apply (scaled_row_zero K W W' c j (Hc j Hj)). left. exact E.
    - right. intros j Hj. rewrite (scaled_row_zero K W W' c j (Hc j Hj)). tauto. }
  split; [exact A|]. intros Hnz. destruct A as [A|A]; [left; exact A|].
  right. intros j Hj Hz. apply (Hnz j Hj). apply (A j Hj). exact Hz.
Qed.

(* the same in terms of get_selection *)
Lemma group_whole_selection : forall d K gs (W W' : mat), common_factor K gs W W' -> forall g, In g gs ->
  (forall j, In j g -> (j < d)%nat) ->
  (forall j, In j g -> In j (selection Rops d K W)) ->
  (forall j, In j g -> In j (selection Rops d K W')) \/ (forall j, In j g -> ~ In j (selection Rops d K W')).
Proof.
  intros d K gs W W' HC g Hg Hr Hsel.
  destruct (proj2 (group_whole K gs W W' HC g Hg)) as [A|A].
  - intros j Hj. apply (proj1 (In_selection d K W j)), Hsel, Hj.
  - right. intros j Hj Hin. apply In_selection in Hin. apply (proj2 Hin), A, Hj.
  - left. intros j Hj. apply In_selection. split; [apply Hr, Hj | apply A, Hj].
Qed.

(* sharpness: with a row that is already zero a group can stay split (factor 1/2 on rows (1) and (0)) *)
Lemma group_whole_needs_nonzero_rows :
  exists (W W' : mat), common_factor 1 [[0; 1]%nat] W W' /\ ~ row_zero 1 W' 0 /\ row_zero 1 W' 1.
Proof.
  exists (fun j _ => match j with O => 1 | _ => 0 end), (fun j _ => match j with O => /2 | _ => 0 end).
  split; [|split].
  - intros g [<-|[]]. exists (/2). intros j [<-|[<-|[]]] k _; lra.
  - intros H. specialize (H O (Nat.lt_0_1)). simpl in H. lra.
  - intros k _. reflexivity.
Qed.

(* ================================================================================ 4. group lists completed with singletons *)
Lemma mem_In x l : mem x l = true <-> In x l.
Proof.
  unfold mem. rewrite existsb_exists. split.
  - intros (y & Hy & E). apply Nat.eqb_eq in E. subst. exact Hy.
  - intros H. exists x. split; [exact H | apply Nat.eqb_refl].
Qed.
Lemma mem_false x l : mem x l = false <-> ~ In x l.
Proof. rewrite <- mem_In. destruct (mem x l); split; intros H; try discriminate; try reflexivity; exfalso; auto. Qed.

Lemma sorted_lt_NoDup l : StronglySorted lt l -> NoDup l.
Proof.
  induction l as [|x r IH]; intros H; constructor; inversion H as [|? ? Hr Hx]; subst.
  - intros Hin. rewrite Forall_forall in Hx. specialize (Hx _ Hin). lia.
  - apply IH. assumption.
Qed.
Lemma dedup_length_le l : (length (dedup l) <= length l)%nat.
Proof. induction l as [|x r IH]; simpl; [lia|]. destruct (mem x r); simpl; lia. Qed.
Lemma dedup_nodup l : length (dedup l) = length l <-> NoDup l.
Proof.
  induction l as [|x r IH]; simpl.
  - split; [constructor | reflexivity].
  - destruct (mem x r) eqn:E.
    + split.
      * intros H. pose proof (dedup_length_le r). lia.
      * intros H. inversion H; subst. apply mem_In in E. contradiction.
    + simpl. split.
      * intros H. constructor; [apply mem_false; exact E|]. apply IH. lia.
      * intros H. inversion H; subst. f_equal. apply IH. assumption.
Qed.
Lemma set_eqb_spec a b : set_eqb a b = true <-> (incl a b /\ incl b a).
Proof.
  unfold set_eqb. rewrite andb_true_iff, !forallb_forall. split.
  - intros [H1 H2]. split; intros x Hx; apply mem_In; auto.
  - intros [H1 H2]. split; intros x Hx; apply mem_In; auto.
Qed.

Definition in_range (d : nat) (l : list nat) : Prop := Forall (fun i => (i < d)%nat) l.
Lemma range_bad_spec all d : existsb (fun i => d <=? i)%nat all = false <-> in_range d all.
Proof.
  unfold in_range. rewrite Forall_forall. split.
  - intros H x Hx. destruct (Nat.ltb_spec x d) as [L|L]; [exact L|]. exfalso.
    assert (E : existsb (fun i => (d <=? i)%nat) all = true).
    { apply existsb_exists. exists x. split; [exact Hx | apply Nat.leb_le; exact L]. }
    congruence.
  - intros H. destruct (existsb (fun i => (d <=? i)%nat) all) eqn:E; [|reflexivity].
    apply existsb_exists in E. destruct E as (x & Hx & L). apply Nat.leb_le in L. specialize (H x Hx). lia.
Qed.

Definition missing (all : list nat) (d : nat) : list nat := filter (fun i => negb (mem i all)) (seq 0 d).
Lemma complete_groups_unfold groups d : complete_groups groups d = groups ++ map (fun i => [i]) (missing (concat groups) d).
Proof. reflexivity. Qed.
Lemma missing_spec all d x : In x (missing all d) <-> ((x < d)%nat /\ ~ In x all).
Proof. unfold missing. rewrite filter_In, in_seq, negb_true_iff, mem_false. split; intros [H1 H2]; split; try assumption; lia. Qed.
Lemma concat_singletons (l : list nat) : concat (map (fun i => [i]) l) = l.
Proof. induction l as [|x r IH]; simpl; [|rewrite IH]; reflexivity. Qed.
Lemma filter_none (f : nat -> bool) l : (forall x, In x l -> f x = false) -> filter f l = [].
Proof.
  induction l as [|x r IH]; intros H; simpl; [reflexivity|].
  rewrite (H x (or_introl eq_refl)). apply IH. intros y Hy. apply H. right. exact Hy.
Qed.
Lemma nodup_app (a b : list nat) : NoDup a -> NoDup b -> (forall x, In x a -> ~ In x b) -> NoDup (a ++ b).
Proof.
  induction a as [|x r IH]; intros Ha Hb Hd; simpl; [exact Hb|]. inversion Ha; subst. constructor.
  - rewrite in_app_iff. intros [H|H]; [contradiction|]. apply (Hd x (or_introl eq_refl)). exact H.
  - apply IH; auto. intros y Hy. apply Hd. right. exact Hy.
Qed.

Lemma full_cover_nodup all d : in_range d all -> length all = d -> (set_eqb all (seq 0 d) = true <-> NoDup all).
Proof.
  intros Hr Hl. rewrite set_eqb_spec. split.
  - intros [_ H2]. apply (NoDup_incl_NoDup (l := seq 0 d)); [apply seq_NoDup | rewrite seq_length; lia | exact H2].
  - intros Hn. assert (Hi : incl all (seq 0 d)).
    { intros x Hx. apply in_seq. unfold in_range in Hr. rewrite Forall_forall in Hr. specialize (Hr x Hx). lia. }
    split; [exact Hi|]. apply NoDup_length_incl; [exact Hn | rewrite seq_length; lia | exact Hi].
Qed.

(* accepted <-> every index lies in [0, d) and no index occurs twice (C16 proves this about its Z model too) *)
Lemma check_groups_accepts groups d :
  check_groups groups d <> None <-> (in_range d (concat groups) /\ NoDup (concat groups)).
Proof.
  unfold check_groups. cbv zeta. set (all := concat groups).
  destruct (existsb (fun i => (d <=? i)%nat) all) eqn:Er.
  - split; [intros H; contradiction|]. intros [H _]. apply range_bad_spec in H. congruence.
  - apply range_bad_spec in Er. destruct (Nat.eqb (length all) d) eqn:El.
    + apply Nat.eqb_eq in El. pose proof (full_cover_nodup all d Er El) as F.
      destruct (set_eqb all (seq 0 d)).
      * split; [intros _; split; [exact Er | apply F; reflexivity] | discriminate].
      * split; [intros H; contradiction|]. intros [_ Hn]. apply F in Hn. discriminate.
    + destruct (Nat.eqb (length (dedup all)) (length all)) eqn:Ed; cbn [negb].
      * apply Nat.eqb_eq in Ed. apply dedup_nodup in Ed. split; [intros _; tauto | discriminate].
      * apply Nat.eqb_neq in Ed. split; [intros H; contradiction|]. intros [_ Hn]. apply dedup_nodup in Hn. contradiction.
Qed.
(* the result is always the input followed by the singleton groups of the missing indices, in increasing order *)
Lemma check_groups_result groups d r : check_groups groups d = Some r -> r = complete_groups groups d.
Proof.
  unfold check_groups. cbv zeta. set (all := concat groups).
  destruct (existsb (fun i => (d <=? i)%nat) all) eqn:Er; [discriminate|].
  destruct (Nat.eqb (length all) d) eqn:El.
  - destruct (set_eqb all (seq 0 d)) eqn:Es; [|discriminate]. intros H. inversion H. subst r.
    apply set_eqb_spec in Es. destruct Es as [_ Hi]. rewrite complete_groups_unfold. fold all. unfold missing.
    rewrite filter_none; [simpl; rewrite app_nil_r; reflexivity|].
    intros x Hx. apply Hi in Hx. apply mem_In in Hx. rewrite Hx. reflexivity.
  - destruct (negb (Nat.eqb (length (dedup all)) (length all))); [discriminate|]. intros H. inversion H. reflexivity.
Qed.

Lemma groups_completed_partition : forall groups d r, check_groups groups d = Some r ->
  r = groups ++ map (fun i => [i]) (missing (concat groups) d) /\
  StronglySorted lt (missing (concat groups) d) /\
  (forall i, In i (missing (concat groups) d) <-> (i < d)%nat /\ ~ In i (concat groups)) /\
  NoDup (concat r) /\ Permutation (concat r) (seq 0 d) /\
  (forall i, (i < d)%nat -> exists g, In g r /\ In i g).
Proof.
  intros groups d r H. assert (Hacc : check_groups groups d <> None) by (rewrite H; discriminate).
  apply check_groups_accepts in Hacc. destruct Hacc as [Hr Hn]. apply check_groups_result in H. subst r.
  rewrite complete_groups_unfold. set (all := concat groups) in *.
  assert (E : concat (groups ++ map (fun i => [i]) (missing all d)) = all ++ missing all d).
  { rewrite concat_app, concat_singletons. reflexivity. }
  assert (Hs : StronglySorted lt (missing all d)) by (apply filter_sorted_lt, seq_sorted_lt).
  assert (Hnd : NoDup (all ++ missing all d)).
  { apply nodup_app; [exact Hn | apply sorted_lt_NoDup; exact Hs|]. intros x Hx Hm. apply missing_spec in Hm. tauto. }
  assert (Hp : Permutation (all ++ missing all d) (seq 0 d)).
  { apply NoDup_Permutation; [exact Hnd | apply seq_NoDup|].
    intros x. rewrite in_app_iff, missing_spec, in_seq. unfold in_range in Hr. rewrite Forall_forall in Hr. split.
    - intros [Hx|[Hx _]]; [specialize (Hr x Hx)|]; lia.
    - intros Hx. destruct (mem x all) eqn:Em; [left; apply mem_In; exact Em | right; split; [lia | apply mem_false; exact Em]]. }
  split; [reflexivity|]. split; [exact Hs|]. split; [intros i; apply missing_spec|].
  rewrite E. split; [exact Hnd|]. split; [exact Hp|].
  intros i Hi. assert (Hin : In i (concat (groups ++ map (fun i => [i]) (missing all d)))).
  { rewrite E. apply (Permutation_in i (Permutation_sym Hp)). apply in_seq. lia. }
  apply in_concat in Hin. destruct Hin as (g & Hg & Hig). exists g. split; assumption.
Qed.

(* ================================================================================ 5. _update_weights = prox after the optimiser step *)
Section UpdateSpec.
Context {St : Type}.

Lemma update_linear_is_prox_of_step :
  forall (opt_step : St -> lin_params -> lin_params -> St * lin_params) (opt_lr : St -> R)
         (prox : mat -> R -> mat) (gprox : list (list nat) -> mat -> R -> mat)
         (groups_ : option (list (list nat))) (alpha : R) (s : St) (w g : lin_params),
  let stepped := opt_step s w g in
  let thr := alpha * opt_lr (fst stepped) in
  let r := update_weights_linear Rops opt_step opt_lr prox gprox groups_ alpha s w g in
  fst r = fst stepped /\ lb (snd r) = lb (snd stepped) /\
  lW (snd r) = match groups_ with None => prox (lW (snd stepped)) thr | Some gs => gprox gs (lW (snd stepped)) thr end.
Proof. intros. repeat split. Qed.

Lemma update_mlp_is_prox_of_step :
  forall (opt_step : St -> mlp_params -> mlp_params -> St * mlp_params) (opt_lr : St -> R)
         (prox : mat -> mat -> R -> R -> mat * mat) (gprox : list (list nat) -> mat -> mat -> R -> R -> mat * mat)
         (groups_ : option (list (list nat))) (alpha M : R) (s : St) (w g : mlp_params),
  let stepped := opt_step s w g in
  let thr := alpha * opt_lr (fst stepped) in
  let r := update_weights_mlp Rops opt_step opt_lr prox gprox groups_ alpha M s w g in
  fst r = fst stepped /\
  mW2 (snd r) = mW2 (snd stepped) /\ mb1 (snd r) = mb1 (snd stepped) /\ mb2 (snd r) = mb2 (snd stepped) /\
  (mWskip (snd r), mW1 (snd r)) =
    match groups_ with
    | None => prox (mWskip (snd stepped)) (mW1 (snd stepped)) thr M
    | Some gs => gprox gs (mWskip (snd stepped)) (mW1 (snd stepped)) thr M
    end.
Proof. intros. repeat split. cbn [snd mWskip mW1 update_weights_mlp]. destruct groups_; symmetry; apply surjective_pairing. Qed.

(* every state of a fit / path history after at least one step is the output of one _update_weights call *)
Lemma train_last_is_update {P : Type} (upd : St -> P -> P -> St * P) (grad : nat -> P -> P) steps s w :
  exists s' w' g', train upd grad (S steps) s w = upd s' w' g'.
Proof. cbn [train]. eexists _, _, _. reflexivity. Qed.
End UpdateSpec.

(* the rate read by _update_weights when the optimiser is Adam: the bias-corrected rate of the step just made *)
Lemma npow_R x t : npow Rops x t = x ^ t.
Proof. induction t as [|t IH]; [reflexivity|]. cbn [npow nmul Rops pow]. rewrite IH. reflexivity. Qed.
Lemma adam_lr_R lr0 b1 b2 t : adam_lr Rops lr0 b1 b2 t = lr0 * sqrt (1 - b2 ^ t) / (1 - b1 ^ t).
Proof. unfold adam_lr. cbn [ndiv nmul nsqrt nsub n1 Rops]. rewrite !npow_R. reflexivity. Qed.

(* ================================================================================ 6. end to end: after any update, unselected features are inert *)
Lemma covered_by_singletons d j : (j < d)%nat -> exists g, In g (singletons d) /\ In j g.
Proof. intros Hj. exists [j]. split; [apply In_singletons; exists j; split; [exact Hj | reflexivity] | left; reflexivity]. Qed.

(* weights that satisfy the hierarchy constraint on groups that are whole: unselected features are inert *)
Lemma feasible_whole_unselected_inert : forall d h K M gs (W1 : mat) b1 (W2 : mat) b2 (Wskip : mat),
  hier_feasible h K M gs Wskip W1 ->
  (forall j, (j < d)%nat -> exists g, In g gs /\ In j g) ->
  (forall g, In g gs -> (forall j, In j g -> row_zero K Wskip j) \/ (forall j, In j g -> ~ row_zero K Wskip j)) ->
  forall X X' : mat, (forall j, In j (selection Rops d K Wskip) -> forall i, X i j = X' i j) ->
  forall i k, (k < K)%nat ->
    sparse_mlp_infer Rops d h K W1 b1 W2 b2 Wskip X i k = sparse_mlp_infer Rops d h K W1 b1 W2 b2 Wskip X' i k.
Proof.
  intros d h K M gs W1 b1 W2 b2 Wskip HF Hcov Hwhole X X' Hagree. apply zero_rows_inert_sparse_mlp. intros j Hj.
  destruct (selected Rops K Wskip j) eqn:E.
  - right. apply Hagree. apply In_selection. split; [exact Hj | apply selected_true_iff; exact E].
  - left. apply selected_false_iff in E. split; [exact E|].
    destruct (Hcov j Hj) as (g & Hg & Hjg). destruct (Hwhole g Hg) as [Hz|Hnz].
    + intros c Hc. apply (hierarchy_zero_propagates_group h K M gs Wskip W1 HF g Hg Hz j Hjg c Hc).
    + exfalso. apply (Hnz j Hjg). exact E.
Qed.

(* what check_groups guarantees of groups_ (same shape as C05's groups_wf) *)
Definition groups_wf (d : nat) (gs : list (list nat)) : Prop := NoDup (concat gs) /\ in_range d (concat gs).
Lemma groups_wf_lt d gs g j : groups_wf d gs -> In g gs -> In j g -> (j < d)%nat.
Proof.
  intros [_ Hr] Hg Hj. unfold in_range in Hr. rewrite Forall_forall in Hr. apply Hr. apply in_concat. exists g. split; assumption.
Qed.
Lemma check_groups_wf groups d r : check_groups groups d = Some r -> groups_wf d r.
Proof.
  intros H. destruct (groups_completed_partition groups d r H) as (_ & _ & _ & Hnd & Hp & _).
  split; [exact Hnd|]. apply Forall_forall. intros i Hi. apply (Permutation_in i Hp) in Hi. apply in_seq in Hi. lia.
Qed.

Section EndToEnd.
Context {St : Type}.
Variable opt_step : St -> @mlp_params R -> @mlp_params R -> St * @mlp_params R.
Variable opt_lr : St -> R.
Variable prox : mat -> mat -> R -> R -> mat * mat.
Variable gprox : list (list nat) -> mat -> mat -> R -> R -> mat * mat.
Variables d h K : nat.
(* the facts about the proximal operators, taken from C05 as hypotheses, under C05's guards: non-negative threshold and
   M, non-zero skip rows handed to the operator, well-formed groups *)
Hypothesis prox_feasible : forall Ws W1 thr M, 0 <= thr -> 0 <= M -> (forall j, (j < d)%nat -> ~ row_zero K Ws j) ->
  row_feasible d h K M (fst (prox Ws W1 thr M)) (snd (prox Ws W1 thr M)).
Hypothesis gprox_facts : forall gs Ws W1 thr M, groups_wf d gs -> 0 <= thr -> 0 <= M ->
  (forall g, In g gs -> forall j, In j g -> ~ row_zero K Ws j) ->
  hier_feasible h K M gs (fst (gprox gs Ws W1 thr M)) (snd (gprox gs Ws W1 thr M)) /\
  common_factor K gs Ws (fst (gprox gs Ws W1 thr M)).

(* no groups: after any _update_weights, every feature outside get_selection() is inert *)
Lemma update_unselected_inert_mlp : forall alpha M s w g,
  0 <= alpha * opt_lr (fst (opt_step s w g)) -> 0 <= M ->
  (forall j, (j < d)%nat -> ~ row_zero K (mWskip (snd (opt_step s w g))) j) ->
  let w' := snd (update_weights_mlp Rops opt_step opt_lr prox gprox None alpha M s w g) in
  forall X X' : mat, (forall j, In j (selection Rops d K (mWskip w')) -> forall i, X i j = X' i j) ->
  forall i k, (k < K)%nat ->
    sparse_mlp_infer Rops d h K (mW1 w') (mb1 w') (mW2 w') (mb2 w') (mWskip w') X i k =
    sparse_mlp_infer Rops d h K (mW1 w') (mb1 w') (mW2 w') (mb2 w') (mWskip w') X' i k.
Proof.
  intros alpha M s w g Hthr HM Hnz w' X X' Hagree. apply (feasible_whole_unselected_inert d h K M (singletons d)).
  - apply row_feasible_singletons. subst w'. cbn [snd update_weights_mlp mWskip mW1]. apply prox_feasible; assumption.
  - apply covered_by_singletons.
  - intros g0 Hg0. apply In_singletons in Hg0. destruct Hg0 as (j & _ & ->).
    destruct (selected Rops K (mWskip w') j) eqn:E.
    + right. intros j0 [<-|[]]. apply selected_true_iff. exact E.
    + left. intros j0 [<-|[]]. apply selected_false_iff. exact E.
  - exact Hagree.
Qed.

(* declared groups (groups_ = Some gs: well-formed and a cover of [0,d), as check_groups returns): the same, and every
   group is selected or discarded as a whole, provided the skip rows the optimiser hands to the proximal step are all
   non-zero (true of every state reached from a random initialisation on data without a constant-zero column; a row
   that is exactly zero at that point may leave its group split, see group_whole_needs_nonzero_rows) *)
Lemma update_unselected_inert_mlp_groups : forall gs alpha M s w g,
  groups_wf d gs -> (forall j, (j < d)%nat -> exists g0, In g0 gs /\ In j g0) ->
  0 <= alpha * opt_lr (fst (opt_step s w g)) -> 0 <= M ->
  (forall g0, In g0 gs -> forall j, In j g0 -> ~ row_zero K (mWskip (snd (opt_step s w g))) j) ->
  let w' := snd (update_weights_mlp Rops opt_step opt_lr prox gprox (Some gs) alpha M s w g) in
  (forall g0, In g0 gs -> (forall j, In j g0 -> In j (selection Rops d K (mWskip w'))) \/
                          (forall j, In j g0 -> ~ In j (selection Rops d K (mWskip w')))) /\
  forall X X' : mat, (forall j, In j (selection Rops d K (mWskip w')) -> forall i, X i j = X' i j) ->
  forall i k, (k < K)%nat ->
    sparse_mlp_infer Rops d h K (mW1 w') (mb1 w') (mW2 w') (mb2 w') (mWskip w') X i k =
    sparse_mlp_infer Rops d h K (mW1 w') (mb1 w') (mW2 w') (mb2 w') (mWskip w') X' i k.
Proof.
  intros gs alpha M s w g Hwf Hcov Hthr HM Hnz w'.
  destruct (gprox_facts gs (mWskip (snd (opt_step s w g))) (mW1 (snd (opt_step s w g))) (alpha * opt_lr (fst (opt_step s w g))) M Hwf Hthr HM Hnz)
    as [HF HC].
  assert (Hwhole : forall g0, In g0 gs -> (forall j, In j g0 -> row_zero K (mWskip w') j) \/ (forall j, In j g0 -> ~ row_zero K (mWskip w') j)).
  { intros g0 Hg0. subst w'. cbn [snd update_weights_mlp mWskip].
    apply (proj2 (group_whole K gs _ _ HC g0 Hg0)). apply Hnz, Hg0. }
  split.
  - intros g0 Hg0. destruct (Hwhole g0 Hg0) as [Hz|Hn].
    + right. intros j Hj Hin. apply In_selection in Hin. apply (proj2 Hin), Hz, Hj.
    + left. intros j Hj. apply In_selection. split; [apply (groups_wf_lt d gs g0 j Hwf Hg0 Hj) | apply Hn, Hj].
  - intros X X' Hagree. apply (feasible_whole_unselected_inert d h K M gs); try assumption.
Qed.
End EndToEnd.

(* the linear model with declared groups: after _update_weights every group is selected or discarded as a whole *)
Lemma update_groups_whole_linear : forall (St : Type) (opt_step : St -> @lin_params R -> @lin_params R -> St * @lin_params R)
    (opt_lr : St -> R) (prox : mat -> R -> mat) (gprox : list (list nat) -> mat -> R -> mat) (d K : nat),
  (forall gs W thr, groups_wf d gs -> common_factor K gs W (gprox gs W thr)) ->
  forall gs alpha s w g, groups_wf d gs ->
  (forall g0, In g0 gs -> forall j, In j g0 -> ~ row_zero K (lW (snd (opt_step s w g))) j) ->
  let w' := snd (update_weights_linear Rops opt_step opt_lr prox gprox (Some gs) alpha s w g) in
  forall g0, In g0 gs -> (forall j, In j g0 -> In j (selection Rops d K (lW w'))) \/
                         (forall j, In j g0 -> ~ In j (selection Rops d K (lW w'))).
Proof.
  intros St opt_step opt_lr prox gprox d K HC gs alpha s w g Hwf Hnz w' g0 Hg0.
  subst w'. cbn [snd update_weights_linear lW].
  destruct (proj2 (group_whole K gs _ _ (HC gs (lW (snd (opt_step s w g))) (prox_threshold Rops alpha (opt_lr (fst (opt_step s w g)))) Hwf) g0 Hg0) (Hnz g0 Hg0)) as [Hz|Hn].
  - right. intros j Hj Hin. apply In_selection in Hin. apply (proj2 Hin), Hz, Hj.
  - left. intros j Hj. apply In_selection. split; [apply (groups_wf_lt d gs g0 j Hwf Hg0 Hj) | apply Hn, Hj].
Qed.
