(* C20 - lemmas about the model of the synthetic data generators (Model/DataGen.v). *)
From Coq Require Import List Arith Bool ZArith QArith Qreals Reals Lra Lia Psatz Permutation.
From GV Require Import Common.Num Common.NumR Gen.DataConstants Model.DataGen Model.DataDoc.
Import ListNotations.
Close Scope Q_scope.
Open Scope nat_scope.

(* ================================================================ A. lists *)
Lemma first_some_none {A} (l : list (option A)) : first_some l = None <-> Forall (fun x => x = None) l.
Proof.
  induction l as [|[a|] l IH]; cbn [first_some].
  - split; auto.
  - split; [discriminate | intros H; inversion H; discriminate].
  - rewrite IH. split; [intros H; constructor; auto | intros H; inversion H; auto].
Qed.

Lemma first_some_indexed_none {A B} (f : nat * A -> option B) (l : list A) (a : nat) :
  first_some (map f (combine (seq a (length l)) l)) = None <->
  forall k x, nth_error l k = Some x -> f (a + k, x) = None.
Proof.
  revert a. induction l as [|x l IH]; intros a; cbn [length seq combine map first_some].
  - split; [intros _ k x H; destruct k; discriminate | auto].
  - destruct (f (a, x)) eqn:Hf.
    + split; [discriminate |]. intros H. specialize (H 0 x eq_refl). rewrite Nat.add_0_r in H. congruence.
    + rewrite IH. split.
      * intros H [|k] y Hy; cbn in Hy.
        -- inversion Hy; subst. rewrite Nat.add_0_r. exact Hf.
        -- specialize (H k y Hy). replace (a + S k) with (S a + k) by lia. exact H.
      * intros H k y Hy. specialize (H (S k) y Hy). replace (a + S k) with (S a + k) in H by lia. exact H.
Qed.

Lemma nth_map_in {A B} (f : A -> B) (l : list A) (i : nat) (d : B) (d' : A) :
  i < length l -> nth i (map f l) d = f (nth i l d').
Proof.
  intros H. rewrite (nth_indep (map f l) d (f d')) by (rewrite map_length; exact H). apply map_nth.
Qed.

Lemma nth_indexed {A} (l : list A) (i : nat) (d : A) : i < length l -> nth i (indexed l) (0, d) = (i, nth i l d).
Proof.
  intros H. unfold indexed. rewrite combine_nth by apply seq_length. rewrite seq_nth by exact H. reflexivity.
Qed.

Lemma indexed_length {A} (l : list A) : length (indexed l) = length l.
Proof. unfold indexed. rewrite combine_length, seq_length. apply Nat.min_id. Qed.

Lemma gmm_select_length {A} (d : A) y X : length (gmm_select d y X) = length y.
Proof. unfold gmm_select. rewrite map_length. apply indexed_length. Qed.

Lemma gmm_select_nth {A} (d d' : A) y X i : i < length y ->
  nth i (gmm_select d y X) d' = nth i (nth (nth i y 0) X []) d.
Proof.
  intros H. unfold gmm_select.
  rewrite (nth_map_in _ _ _ _ (0, 0)) by (rewrite indexed_length; exact H).
  rewrite nth_indexed by exact H. reflexivity.
Qed.

Lemma take_rows_length {A} (d : A) l order : length (take_rows d l order) = length order.
Proof. apply map_length. Qed.

Lemma take_rows_nth {A} (d d' : A) l order i : i < length order ->
  nth i (take_rows d l order) d' = nth (nth i order 0) l d.
Proof. intros H. unfold take_rows. apply (nth_map_in (fun i => nth i l d)). exact H. Qed.

Lemma map_nth_seq {A} (d : A) (l : list A) : map (fun i => nth i l d) (seq 0 (length l)) = l.
Proof.
  induction l as [|x l IH]; [reflexivity|].
  cbn [length seq map nth]. f_equal. rewrite <- seq_shift, map_map. exact IH.
Qed.

Lemma take_rows_perm {A} (d : A) l order : Permutation order (seq 0 (length l)) -> Permutation (take_rows d l order) l.
Proof.
  intros H. unfold take_rows. eapply Permutation_trans; [apply Permutation_map; exact H|].
  rewrite map_nth_seq. apply Permutation_refl.
Qed.

Lemma count_occ_repeat_same (x : nat) m : count_occ Nat.eq_dec (repeat x m) x = m.
Proof. induction m; cbn; [reflexivity|]. destruct (Nat.eq_dec x x); congruence. Qed.

Lemma count_occ_lt (l : list nat) b : Forall (fun k => k < b) l -> count_occ Nat.eq_dec l b = 0.
Proof.
  intros H. apply count_occ_not_In. intros Hin. rewrite Forall_forall in H. specialize (H b Hin). lia.
Qed.

Definition is_mat {A} (n d : nat) (m : list (list A)) : Prop := length m = n /\ Forall (fun r => length r = d) m.

Lemma is_mat_row {A} n d (m : list (list A)) i : is_mat n d m -> i < n -> length (nth i m []) = d.
Proof.
  intros [Hn Hr] Hi. rewrite Forall_forall in Hr. apply Hr. apply nth_In. lia.
Qed.

(* ================================================================ B. the oracle contract *)
(* What is assumed of numpy.random.RandomState (checked on every recorded call by the harness): the shapes and
   ranges of the answers. *)
Inductive resp_ok {T : Type} : call (T := T) -> draw (T := T) -> Prop :=
| ok_choice K p n l : length l = n -> Forall (fun k => k < K) l -> resp_ok (CChoice K p n) (DLabels l)
| ok_normal loc sd n v : length v = n -> resp_ok (CNormal loc sd n) (DVec v)
| ok_stdnormal n p m : is_mat n p m -> resp_ok (CStdNormal n p) (DMat m)
| ok_mvn mean cov n m : is_mat n (length mean) m -> resp_ok (CMvn mean cov n) (DMat m)
| ok_chisq df n v : length v = n -> resp_ok (CChisq df n) (DVec v)
| ok_perm n l : Permutation l (seq 0 n) -> resp_ok (CPerm n) (DLabels l).

(* a request for the n draws of one d-dimensional component *)
Definition comp_call {T} (n d : nat) (c : call (T := T)) : Prop :=
  match c with
  | CNormal _ _ n' => n' = n /\ d = 1
  | CMvn mean _ n' => n' = n /\ length mean = d
  | _ => False
  end.

Lemma comp_call_rows {T} n d (c : call (T := T)) r : comp_call n d c -> resp_ok c r ->
  exists Xk, comp_rows r = Some Xk /\ is_mat n d Xk.
Proof.
  intros Hc Hr. destruct Hr; cbn in Hc; try contradiction.
  - destruct Hc as [-> ->]. eexists. split; [reflexivity|]. split; [rewrite map_length; assumption|].
    apply Forall_forall. intros r Hin. apply in_map_iff in Hin. destruct Hin as (x & <- & _). reflexivity.
  - destruct Hc as [-> <-]. eexists. split; [reflexivity | assumption].
Qed.

Lemma comp_calls_rows {T} n d (cs : list (call (T := T))) comps :
  Forall (comp_call n d) cs -> Forall2 resp_ok cs comps ->
  exists Xs, all_some (map comp_rows comps) = Some Xs /\ length Xs = length cs /\
             Forall2 (fun r Xk => comp_rows r = Some Xk) comps Xs /\ Forall (is_mat n d) Xs.
Proof.
  intros Hc H2. induction H2 as [|c r cs comps Hr H2 IH].
  - exists []. repeat split; constructor.
  - inversion Hc as [|? ? Hc1 Hc2]; subst. destruct (IH Hc2) as (Xs & Ha & Hl & Hf & Hm).
    destruct (comp_call_rows n d c r Hc1 Hr) as (Xk & Hk & Hmk).
    exists (Xk :: Xs). cbn [map all_some length]. rewrite Hk, Ha. repeat split; auto.
Qed.

Lemma F2_length {A B} (P : A -> B -> Prop) l l' : Forall2 P l l' -> length l = length l'.
Proof. induction 1; cbn; congruence. Qed.

Lemma Forall2_nth_l {A B} (P : A -> B -> Prop) l l' k da db : Forall2 P l l' -> k < length l -> P (nth k l da) (nth k l' db).
Proof.
  intros H. revert k. induction H; intros k Hk; cbn in Hk; [lia|]. destruct k; cbn; [assumption | apply IHForall2; lia].
Qed.

(* the core of draw_gmm: labels from the categorical draw, one draw array per component, row i of the output is
   row i of the draw array of component y_i *)
Lemma gmm_rows_shape {T} (K n d : nat) (p : list T) (cs : list (call (T := T))) rs :
  length cs = K -> Forall (comp_call n d) cs -> Forall2 resp_ok (CChoice K p n :: cs) rs ->
  exists y comps X Xs,
    rs = DLabels y :: comps /\ length comps = K /\ gmm_run rs = Some (X, y) /\
    length y = n /\ Forall (fun k => k < K) y /\
    length Xs = K /\ Forall2 (fun r Xk => comp_rows r = Some Xk) comps Xs /\ Forall (is_mat n d) Xs /\
    X = gmm_select [] y Xs /\ is_mat n d X.
Proof.
  intros HK Hc H2. inversion H2 as [|c r cs' comps Hr H2']; subst.
  inversion Hr as [K' p' n' y Hy Hrange| | | | |]; subst.
  destruct (comp_calls_rows (length y) d cs comps Hc H2') as (Xs & Ha & Hl & Hf & Hm).
  exists y, comps, (gmm_select [] y Xs), Xs.
  assert (Hlc : length comps = length cs) by (symmetry; eapply F2_length; eauto).
  repeat split; auto.
  - cbn [gmm_run]. rewrite Ha. reflexivity.
  - apply gmm_select_length.
  - apply Forall_forall. intros r Hin. destruct (In_nth _ _ [] Hin) as (i & Hi & <-).
    rewrite gmm_select_length in Hi. rewrite (gmm_select_nth [] []) by exact Hi.
    rewrite Forall_forall in Hrange. assert (Hk : nth i y 0 < length cs) by (apply Hrange, nth_In; exact Hi).
    rewrite Forall_forall in Hm. assert (Hmk : is_mat (length y) d (nth (nth i y 0) Xs [])) by (apply Hm, nth_In; lia).
    apply (is_mat_row _ _ _ _ Hmk Hi).
Qed.

(* ================================================================ C. validation of draw_gmm *)
Section Generic.
Context {T : Type} (o : NumOps T).

Lemma check_var_none (s : list (list T)) : check_var o s = None <->
  Forall (fun row => exists v, row = [v] /\ nleb o v (n0 o) = false) s.
Proof.
  unfold check_var, indexed. rewrite (first_some_indexed_none _ s 0). split.
  - intros H. apply Forall_forall. intros row Hin. destruct (In_nth_error _ _ Hin) as [k Hk].
    specialize (H k row Hk). cbn [snd fst] in H. destruct row as [|v [|]]; try discriminate.
    exists v. split; [reflexivity|]. destruct (nleb o v (n0 o)); [discriminate | reflexivity].
  - intros H k row Hk. rewrite Forall_forall in H. destruct (H row (nth_error_In _ _ Hk)) as (v & -> & Hv).
    cbn. rewrite Hv. reflexivity.
Qed.

(* component k passes the covariance tests *)
Definition cov_ok (eig : nat -> list T) (k : nat) (m : list (list T)) : Prop :=
  sym_close o m = true /\ existsb (fun e => nltb o e (nneg o (atol o))) (eig k) = false /\
  forallb (forallb (fun x => neqb o x (n0 o))) m = false.

Lemma check_cov_none s eig : check_cov o s eig = None <-> forall k m, nth_error s k = Some m -> cov_ok eig k m.
Proof.
  unfold check_cov, indexed. rewrite (first_some_indexed_none _ s 0). unfold cov_ok. cbn [fst snd plus].
  split; intros H k m Hk; specialize (H k m Hk).
  - destruct (sym_close o m); cbn [negb orb] in H; [|discriminate].
    destruct (existsb _ (eig k)); [discriminate|]. destruct (forallb _ m); [discriminate|]. auto.
  - destruct H as (-> & -> & ->). reflexivity.
Qed.

Definition gmm_ok (g : gmm_in (T := T)) (eig : nat -> list T) : Prop :=
  2 <= g_K g /\ 1 <= g_d g /\ scale_len (g_scale g) = g_K g /\ length (g_p g) = g_K g /\
  existsb (fun x => nleb o x (n0 o)) (g_p g) = false /\ isclose o (suml o (g_p g)) (n1 o) = true /\
  ((g_d g = 1 /\ exists s, g_scale g = Sc2 s /\ Forall (fun row => exists v, row = [v] /\ nleb o v (n0 o) = false) s) \/
   (g_d g <> 1 /\ exists s, g_scale g = Sc3 s /\ length (hd [] s) = g_d g /\ length (hd [] (hd [] s)) = g_d g /\
      forall k m, nth_error s k = Some m -> cov_ok eig k m)).

Lemma gmm_check_none g eig : gmm_check o g eig = None <-> gmm_ok g eig.
Proof.
  unfold gmm_check, gmm_ok. cbv zeta.
  destruct ((g_K g <? 2) || (g_d g <? 1) || (scale_len (g_scale g) <? 2) || (length (g_p g) <? 2)) eqn:E0.
  { split; [discriminate|]. intros (H1 & H2 & H3 & H4 & _). exfalso.
    rewrite !orb_true_iff, !Nat.ltb_lt in E0. lia. }
  rewrite !orb_false_iff, !Nat.ltb_ge in E0. destruct E0 as (((E1 & E2) & E3) & E4).
  destruct (g_K g =? scale_len (g_scale g)) eqn:E5; cbn [negb].
  2:{ apply Nat.eqb_neq in E5. split; [discriminate|]. intros (_ & _ & H3 & _). congruence. }
  apply Nat.eqb_eq in E5.
  destruct (g_d g =? 1) eqn:Ed; cbn [negb andb].
  - apply Nat.eqb_eq in Ed.
    destruct (g_K g =? length (g_p g)) eqn:E6; cbn [negb].
    2:{ apply Nat.eqb_neq in E6. split; [discriminate|]. intros (_ & _ & _ & H4 & _). congruence. }
    apply Nat.eqb_eq in E6.
    destruct (existsb (fun x => nleb o x (n0 o)) (g_p g)) eqn:E7.
    { split; [discriminate|]. intros (_ & _ & _ & _ & H5 & _). discriminate. }
    destruct (isclose o (suml o (g_p g)) (n1 o)) eqn:E8; cbn [negb].
    2:{ split; [discriminate|]. intros (_ & _ & _ & _ & _ & H6 & _). discriminate. }
    destruct (g_scale g) as [s|s] eqn:Es.
    + rewrite check_var_none. split.
      * intros H. repeat split; auto. left. split; [exact Ed|]. exists s. auto.
      * intros (_ & _ & _ & _ & _ & _ & [(_ & s' & Hs' & H)|(Hd & _)]); [|congruence]. inversion Hs'; subst. exact H.
    + split; [discriminate|]. intros (_ & _ & _ & _ & _ & _ & [(_ & s' & Hs' & _)|(Hd & _)]); congruence.
  - apply Nat.eqb_neq in Ed.
    destruct (scale_square (g_d g) (g_scale g)) eqn:Esq; cbn [negb].
    2:{ split; [discriminate|]. intros (_ & _ & _ & _ & _ & _ & [(Hd & _)|(_ & s & Hs & Hr & Hc & _)]); [congruence|].
        rewrite Hs in Esq. cbn [scale_square] in Esq. rewrite Hr, Hc, Nat.eqb_refl in Esq. discriminate. }
    destruct (g_scale g) as [s|s] eqn:Es; cbn [scale_square] in Esq; [discriminate|].
    apply andb_true_iff in Esq. destruct Esq as [Er Ec]. apply Nat.eqb_eq in Er, Ec.
    destruct (g_K g =? length (g_p g)) eqn:E6; cbn [negb].
    2:{ apply Nat.eqb_neq in E6. split; [discriminate|]. intros (_ & _ & _ & H4 & _). congruence. }
    apply Nat.eqb_eq in E6.
    destruct (existsb (fun x => nleb o x (n0 o)) (g_p g)) eqn:E7.
    { split; [discriminate|]. intros (_ & _ & _ & _ & H5 & _). discriminate. }
    destruct (isclose o (suml o (g_p g)) (n1 o)) eqn:E8; cbn [negb].
    2:{ split; [discriminate|]. intros (_ & _ & _ & _ & _ & H6 & _). discriminate. }
    rewrite check_cov_none. split.
    + intros H. repeat split; auto. right. split; [exact Ed|]. exists s. auto.
    + intros (_ & _ & _ & _ & _ & _ & [(Hd & _)|(_ & s' & Hs' & _ & _ & H)]); [congruence|]. inversion Hs'; subst. exact H.
Qed.

(* the requests of a valid mixture: the categorical draw, then one request per component *)
Lemma gmm_calls_valid n g eig : gmm_check o g eig = None -> Forall (fun r => length r = g_d g) (g_loc g) ->
  exists cs, gmm_calls o n g = CChoice (g_K g) (g_p g) n :: cs /\ length cs = g_K g /\ Forall (comp_call n (g_d g)) cs /\
    ((g_d g = 1 /\ exists s, g_scale g = Sc2 s /\
        cs = map (fun lv => CNormal (fst lv) (map (nsqrt o) (snd lv)) n) (combine (g_loc g) s)) \/
     (g_d g <> 1 /\ exists s, g_scale g = Sc3 s /\ cs = map (fun lm => CMvn (fst lm) (snd lm) n) (combine (g_loc g) s))).
Proof.
  intros Hc Hrect. apply gmm_check_none in Hc. destruct Hc as (_ & _ & HsK & _ & _ & _ & Hbr). unfold gmm_calls.
  destruct Hbr as [(Hd & s & Hs & _)|(Hd & s & Hs & _)]; rewrite Hs in *; cbn [scale_len] in HsK.
  - destruct (g_d g =? 1) eqn:E; [|apply Nat.eqb_neq in E; congruence].
    eexists. split; [reflexivity|]. split; [|split].
    + rewrite map_length, combine_length. unfold g_K in *. lia.
    + apply Forall_forall. intros c Hin. apply in_map_iff in Hin. destruct Hin as (lv & <- & _). cbn. auto.
    + left. split; [exact Hd|]. exists s. auto.
  - destruct (g_d g =? 1) eqn:E; [apply Nat.eqb_eq in E; congruence|].
    eexists. split; [reflexivity|]. split; [|split].
    + rewrite map_length, combine_length. unfold g_K in *. lia.
    + apply Forall_forall. intros c Hin. apply in_map_iff in Hin. destruct Hin as ([l m] & <- & Hin). cbn. split; [reflexivity|].
      apply in_combine_l in Hin. rewrite Forall_forall in Hrect. auto.
    + right. split; [exact Hd|]. exists s. auto.
Qed.

(* C20_gmm_row_from_labelled_component *)
Theorem gmm_row_from_labelled_component n g eig rs :
  gmm_check o g eig = None -> Forall (fun r => length r = g_d g) (g_loc g) ->
  Forall2 resp_ok (gmm_calls o n g) rs ->
  exists y comps X,
    rs = DLabels y :: comps /\ length comps = g_K g /\ gmm_run rs = Some (X, y) /\
    length X = n /\ Forall (fun r => length r = g_d g) X /\
    length y = n /\ Forall (fun k => k < g_K g) y /\
    forall i, i < n -> exists Xk,
      comp_rows (nth (nth i y 0) comps (DLabels [])) = Some Xk /\ is_mat n (g_d g) Xk /\ nth i X [] = nth i Xk [].
Proof.
  intros Hc Hrect H2. destruct (gmm_calls_valid n g eig Hc Hrect) as (cs & Hcs & Hlen & Hcomp & _).
  rewrite Hcs in H2. destruct (gmm_rows_shape _ _ _ _ _ _ Hlen Hcomp H2) as (y & comps & X & Xs & -> & Hlc & Hrun & Hy & Hrange & HlX & Hf & Hm & HX & HmX).
  exists y, comps, X. destruct HmX as [HXn HXr]. repeat split; auto.
  intros i Hi. rewrite Forall_forall in Hrange. assert (Hk : nth i y 0 < g_K g) by (apply Hrange, nth_In; lia).
  exists (nth (nth i y 0) Xs []). split; [|split].
  - apply (Forall2_nth_l _ _ _ _ (DLabels []) [] Hf). lia.
  - rewrite Forall_forall in Hm. apply Hm, nth_In. lia.
  - rewrite HX. apply gmm_select_nth. lia.
Qed.
End Generic.

(* ================================================================ D. the real-number instance *)
Lemma forallb_false_exists {A} (f : A -> bool) l : forallb f l = false <-> exists x, In x l /\ f x = false.
Proof.
  induction l as [|a l IH]; cbn.
  - split; [discriminate | intros (x & [] & _)].
  - rewrite andb_false_iff, IH. split.
    + intros [H|(x & Hin & Hx)]; [exists a; auto | exists x; auto].
    + intros (x & [->|Hin] & Hx); [left; exact Hx | right; exists x; auto].
Qed.

Lemma existsb_false_forall {A} (f : A -> bool) l : existsb f l = false <-> forall x, In x l -> f x = false.
Proof.
  induction l as [|a l IH]; cbn.
  - split; [intros _ x [] | reflexivity].
  - rewrite orb_false_iff, IH. split.
    + intros [Ha H] x [<-|Hin]; auto.
    + intros H. split; [apply H; auto | intros x Hin; apply H; auto].
Qed.

Open Scope R_scope.

Lemma Rleb_true x y : Rleb x y = true <-> x <= y.
Proof. unfold Rleb. destruct (Rle_dec x y); split; auto; discriminate. Qed.
Lemma Rleb_false x y : Rleb x y = false <-> y < x.
Proof. unfold Rleb. destruct (Rle_dec x y); split; try discriminate; auto; lra. Qed.
Lemma Rltb_false x y : Rltb x y = false <-> y <= x.
Proof. unfold Rltb. destruct (Rlt_dec x y); split; try discriminate; auto; lra. Qed.
Lemma Reqb_false x y : Reqb x y = false <-> x <> y.
Proof. unfold Reqb. destruct (Req_EM_T x y); split; try discriminate; auto; congruence. Qed.

Lemma pow10_R k : pow10 Rops k = 10 ^ k.
Proof.
  induction k as [|k IH]; cbn [pow10 pow]; [reflexivity|]. rewrite IH. cbn [nmul nofnat Rops]. rewrite INR_IZR_INZ.
  change (IZR (Z.of_nat 10)) with 10. ring.
Qed.
Lemma atol_R : atol Rops = / 100000000.
Proof. unfold atol, declit. rewrite pow10_R. cbn [ndiv nofnat Rops INR]. cbn [pow]. field. Qed.
Lemma rtol_R : rtol Rops = / 100000.
Proof. unfold rtol, declit. rewrite pow10_R. cbn [ndiv nofnat Rops INR]. cbn [pow]. field. Qed.

Lemma isclose_R a b : isclose Rops a b = true <-> Rabs (a - b) <= / 100000000 + / 100000 * Rabs b.
Proof. unfold isclose, isclose_with. rewrite atol_R, rtol_R. cbn [nleb nabs nsub nadd nmul Rops]. apply Rleb_true. Qed.

Lemma sym_close_R m : sym_close Rops m = true <->
  forall i j, (i < length m)%nat -> (j < length m)%nat ->
    Rabs (mget Rops m i j - mget Rops m j i) <= / 100000000 + / 100000 * Rabs (mget Rops m j i).
Proof.
  unfold sym_close. rewrite forallb_forall. split.
  - intros H i j Hi Hj. apply isclose_R. specialize (H i). rewrite forallb_forall in H. apply H; apply in_seq; lia.
  - intros H i Hi. apply forallb_forall. intros j Hj. apply isclose_R. apply in_seq in Hi, Hj. apply H; lia.
Qed.

(* the documented / intended validity of a mixture description, in plain real-number terms *)
Definition gmm_spec (g : gmm_in (T := R)) (eig : nat -> list R) : Prop :=
  (2 <= g_K g)%nat /\ (1 <= g_d g)%nat /\ scale_len (g_scale g) = g_K g /\ length (g_p g) = g_K g /\
  (forall x, In x (g_p g) -> 0 < x) /\
  Rabs (fold_left Rplus (g_p g) 0 - 1) <= / 100000000 + / 100000 /\
  ((g_d g = 1%nat /\ exists s, g_scale g = Sc2 s /\ Forall (fun row => exists v, row = [v] /\ 0 < v) s) \/
   (g_d g <> 1%nat /\ exists s, g_scale g = Sc3 s /\ length (hd [] s) = g_d g /\ length (hd [] (hd [] s)) = g_d g /\
     forall k m, nth_error s k = Some m ->
       (forall i j, (i < length m)%nat -> (j < length m)%nat ->
          Rabs (mget Rops m i j - mget Rops m j i) <= / 100000000 + / 100000 * Rabs (mget Rops m j i)) /\
       (forall e, In e (eig k) -> - / 100000000 <= e) /\
       (exists row x, In row m /\ In x row /\ x <> 0))).

Lemma cov_ok_R eig k m : cov_ok Rops eig k m <->
  (forall i j, (i < length m)%nat -> (j < length m)%nat ->
     Rabs (mget Rops m i j - mget Rops m j i) <= / 100000000 + / 100000 * Rabs (mget Rops m j i)) /\
  (forall e, In e (eig k) -> - / 100000000 <= e) /\
  (exists row x, In row m /\ In x row /\ x <> 0).
Proof.
  unfold cov_ok. rewrite sym_close_R, existsb_false_forall, forallb_false_exists, atol_R.
  split; intros (H1 & H2 & H3); (split; [exact H1|]); split.
  - intros e He. specialize (H2 e He). cbn [nltb nneg nsub n0 Rops] in H2. apply Rltb_false in H2. lra.
  - destruct H3 as (row & Hin & Hrow). apply forallb_false_exists in Hrow. destruct Hrow as (x & Hx & Hne).
    exists row, x. repeat split; auto. apply Reqb_false. exact Hne.
  - intros e He. specialize (H2 e He). cbn [nltb nneg nsub n0 Rops]. apply Rltb_false. lra.
  - destruct H3 as (row & x & Hin & Hx & Hne). exists row. split; [exact Hin|]. apply forallb_false_exists.
    exists x. split; [exact Hx|]. apply Reqb_false. exact Hne.
Qed.

(* C20_validation_spec *)
Theorem validation_spec g eig : gmm_check Rops g eig = None <-> gmm_spec g eig.
Proof.
  rewrite gmm_check_none. unfold gmm_ok, gmm_spec.
  rewrite existsb_false_forall, isclose_R.
  replace (Rabs (n1 Rops)) with 1 by (cbn; rewrite Rabs_R1; reflexivity). rewrite Rmult_1_r.
  change (suml Rops (g_p g)) with (fold_left Rplus (g_p g) 0). change (n1 Rops) with 1.
  split; intros (H1 & H2 & H3 & H4 & H5 & H6 & H7); repeat (split; [assumption|]).
  - split; [intros x Hx; apply Rleb_false, (H5 x Hx)|]. split; [exact H6|].
    destruct H7 as [(Hd & s & Hs & H)|(Hd & s & Hs & Hr & Hc & H)]; [left | right]; (split; [exact Hd|]); exists s.
    + split; [exact Hs|]. eapply Forall_impl; [|exact H]. intros row (v & -> & Hv). exists v. split; [reflexivity|].
      apply Rleb_false. exact Hv.
    + repeat (split; [assumption|]). intros k m Hk. apply cov_ok_R. exact (H k m Hk).
  - split; [intros x Hx; apply Rleb_false, (H5 x Hx)|]. split; [exact H6|].
    destruct H7 as [(Hd & s & Hs & H)|(Hd & s & Hs & Hr & Hc & H)]; [left | right]; (split; [exact Hd|]); exists s.
    + split; [exact Hs|]. eapply Forall_impl; [|exact H]. intros row (v & -> & Hv). exists v. split; [reflexivity|].
      apply Rleb_false. exact Hv.
    + repeat (split; [assumption|]). intros k m Hk. apply cov_ok_R. exact (H k m Hk).
Qed.

(* C20_one_d_uses_sqrt_of_variance: a one-dimensional mixture passes sqrt(variance) - a number whose square is the
   documented variance - as the scale argument of normal(), with the component's mean as location *)
Theorem one_d_uses_sqrt_of_variance n g eig :
  gmm_check Rops g eig = None -> g_d g = 1%nat ->
  exists s, g_scale g = Sc2 s /\ length s = g_K g /\
    gmm_calls Rops n g = CChoice (g_K g) (g_p g) n ::
                         map (fun lv => CNormal (fst lv) (map sqrt (snd lv)) n) (combine (g_loc g) s) /\
    Forall (fun row => exists v, row = [v] /\ 0 < v /\ map sqrt row = [sqrt v] /\ sqrt v * sqrt v = v) s.
Proof.
  intros Hc Hd. apply validation_spec in Hc. destruct Hc as (_ & _ & HsK & _ & _ & _ & [(_ & s & Hs & H)|(Hd' & _)]); [|congruence].
  exists s. rewrite Hs in HsK. cbn [scale_len] in HsK. repeat split; auto.
  - unfold gmm_calls. rewrite Hd, Hs. reflexivity.
  - eapply Forall_impl; [|exact H]. intros row (v & -> & Hv). exists v. repeat split; auto. apply sqrt_sqrt. lra.
Qed.
Close Scope R_scope.

(* ================================================================ E. Student-t, gstm *)
Section Generic2.
Context {T : Type} (o : NumOps T).

Lemma student_rows_length df loc nx u : length (student_rows o df loc nx u) = Nat.min (length nx) (length u).
Proof. unfold student_rows, entry_rows. rewrite map_length. apply combine_length. Qed.

(* X[i, j] = sqrt(df / u[i]) * nx[i, j] + loc[j] *)
Lemma student_rows_nth df loc nx u n d i :
  is_mat n d nx -> length u = n -> length loc = d -> i < n ->
  length (nth i (student_rows o df loc nx u) []) = d /\
  forall j, j < d ->
    nth j (nth i (student_rows o df loc nx u) []) (n0 o)
    = nadd o (nmul o (nsqrt o (ndiv o df (nth i u (n0 o)))) (nth j (nth i nx []) (n0 o))) (nth j loc (n0 o)).
Proof.
  intros Hm Hu Hl Hi. pose proof (is_mat_row _ _ _ i Hm Hi) as Hrow. destruct Hm as [Hn _].
  unfold student_rows, entry_rows, student_entry.
  rewrite (nth_map_in _ _ _ _ ([], n0 o)) by (rewrite combine_length; lia).
  rewrite combine_nth by lia. cbn [fst snd]. split.
  - rewrite map_length, combine_length. lia.
  - intros j Hj. rewrite (nth_map_in _ _ _ _ (n0 o, n0 o)) by (rewrite combine_length; lia).
    rewrite combine_nth by lia. reflexivity.
Qed.

Lemma Forall_nth_lt {A} (P : A -> Prop) l d : (forall i, i < length l -> P (nth i l d)) -> Forall P l.
Proof. intros H. apply Forall_forall. intros x Hin. destruct (In_nth _ _ d Hin) as (i & Hi & <-). auto. Qed.

Lemma perm_range_lt order n : Permutation order (seq 0 n) -> Forall (fun j => j < n) order.
Proof.
  intros H. apply Forall_forall. intros j Hj. apply (Permutation_in _ H) in Hj. apply in_seq in Hj. lia.
Qed.

(* C20_gstm_counts *)
Theorem gstm_counts n alpha df rs :
  Forall2 resp_ok (gstm_calls o n alpha df) rs ->
  let ng := 3 * n / 4 in
  exists yg m0 m1 m2 zx u order,
    rs = [DLabels yg; DMat m0; DMat m1; DMat m2; DMat zx; DVec u; DLabels order] /\
    (* the Gaussian part: 3n//4 samples of a three-component mixture *)
    length yg = ng /\ Forall (fun k => k < 3) yg /\
    is_mat ng 2 m0 /\ is_mat ng 2 m1 /\ is_mat ng 2 m2 /\
    (* the Student-t part: the n - 3n//4 remaining samples *)
    is_mat (n - ng) 2 zx /\ length u = n - ng /\
    Permutation order (seq 0 n) /\
    let Xg := gmm_select [] yg [m0; m1; m2] in
    let Xs := student_rows o df (gstm_student_loc o alpha) zx u in
    let Xall := Xg ++ Xs in
    let yall := yg ++ repeat 3 (n - ng) in
    exists X y,
      gstm_run o n alpha df rs = Some (X, y) /\
      X = take_rows [] Xall order /\ y = take_rows 0 yall order /\       (* X and y are shuffled by the same order *)
      length X = n /\ length y = n /\ Forall (fun r => length r = 2) X /\
      Permutation y yall /\ Permutation X Xall /\
      count_occ Nat.eq_dec y 3 = n - ng /\ Forall (fun k => k <= 3) y /\
      forall i, i < n ->
        let j := nth i order 0 in
        (j < ng -> nth i y 0 = nth j yg 0 /\ nth j yg 0 < 3 /\
                   nth i X [] = nth j (nth (nth j yg 0) [m0; m1; m2] []) []) /\
        (ng <= j -> nth i y 0 = 3 /\ nth i X [] = nth (j - ng) Xs []).
Proof.
  intros H2 ng.
  assert (Hcalls : gstm_calls o n alpha df =
    [CChoice 3 (map (ofQ o) gstm_gmm_pvals) ng;
     CMvn (nth 0 (scaled o alpha gstm_gmm_loc_over_alpha) []) (nth 0 (map (matQ o) gstm_gmm_cov) []) ng;
     CMvn (nth 1 (scaled o alpha gstm_gmm_loc_over_alpha) []) (nth 1 (map (matQ o) gstm_gmm_cov) []) ng;
     CMvn (nth 2 (scaled o alpha gstm_gmm_loc_over_alpha) []) (nth 2 (map (matQ o) gstm_gmm_cov) []) ng;
     CMvn (repeat (n0 o) (length (gstm_student_loc o alpha))) (matQ o gstm_student_scale) (n - ng);
     CChisq df (n - ng); CPerm n]) by reflexivity.
  rewrite Hcalls in H2. clear Hcalls.
  inversion H2 as [|c0 r0 cs0 rs0 Hr0 H20]; subst. inversion H20 as [|c1 r1 cs1 rs1 Hr1 H21]; subst.
  inversion H21 as [|c2 r2 cs2 rs2 Hr2 H22]; subst. inversion H22 as [|c3 r3 cs3 rs3 Hr3 H23]; subst.
  inversion H23 as [|c4 r4 cs4 rs4 Hr4 H24]; subst. inversion H24 as [|c5 r5 cs5 rs5 Hr5 H25]; subst.
  inversion H25 as [|c6 r6 cs6 rs6 Hr6 H26]; subst. inversion H26; subst.
  inversion Hr0 as [? ? ? yg Hyg Hrange| | | | |]; subst.
  inversion Hr1 as [| | |? ? ? m0 Hm0| |]; subst. inversion Hr2 as [| | |? ? ? m1 Hm1| |]; subst.
  inversion Hr3 as [| | |? ? ? m2 Hm2| |]; subst. inversion Hr4 as [| | |? ? ? zx Hzx| |]; subst.
  inversion Hr5 as [| | | |? ? u Hu|]; subst. inversion Hr6 as [| | | | |? order Hperm]; subst.
  clear H2 H20 H21 H22 H23 H24 H25 H26 Hr0 Hr1 Hr2 Hr3 Hr4 Hr5 Hr6.
  change (length (nth 0 (scaled o alpha gstm_gmm_loc_over_alpha) [])) with 2 in Hm0.
  change (length (nth 1 (scaled o alpha gstm_gmm_loc_over_alpha) [])) with 2 in Hm1.
  change (length (nth 2 (scaled o alpha gstm_gmm_loc_over_alpha) [])) with 2 in Hm2.
  change (length (repeat (n0 o) (length (gstm_student_loc o alpha)))) with 2 in Hzx.
  exists yg, m0, m1, m2, zx, u, order. fold ng in Hyg. fold ng.
  repeat (split; [first [reflexivity | assumption]|]).
  cbv zeta.
  set (Xg := gmm_select [] yg [m0; m1; m2]). set (Xs := student_rows o df (gstm_student_loc o alpha) zx u).
  set (yall := yg ++ repeat 3 (n - ng)).
  assert (Hng : ng <= n) by (unfold ng; apply Nat.div_le_upper_bound; lia).
  assert (HlXg : length Xg = ng) by (unfold Xg; rewrite gmm_select_length; exact Hyg).
  assert (HlXs : length Xs = n - ng).
  { unfold Xs. rewrite student_rows_length. destruct Hzx as [-> _]. rewrite Hu. apply Nat.min_id. }
  assert (Hlall : length (Xg ++ Xs) = n) by (rewrite app_length; lia).
  assert (Hlyall : length yall = n) by (unfold yall; rewrite app_length, repeat_length; lia).
  assert (Hlord : length order = n) by (rewrite (Permutation_length Hperm); apply seq_length).
  assert (Hord : Forall (fun j => j < n) order) by (apply perm_range_lt; exact Hperm).
  assert (HrowXg : forall j, j < ng -> nth j Xg [] = nth j (nth (nth j yg 0) [m0; m1; m2] []) []).
  { intros j Hj. unfold Xg. apply gmm_select_nth. lia. }
  assert (Hyglt : forall j, j < ng -> nth j yg 0 < 3).
  { intros j Hj. rewrite Forall_forall in Hrange. apply Hrange, nth_In. lia. }
  assert (HlenXg : forall j, j < ng -> length (nth j Xg []) = 2).
  { intros j Hj. rewrite (HrowXg j Hj). specialize (Hyglt j Hj).
    destruct (nth j yg 0) as [|[|[|k]]]; cbn [nth]; [| | |lia]; eapply is_mat_row; eauto. }
  assert (HlenXs : forall j, j < n - ng -> length (nth j Xs []) = 2).
  { intros j Hj. unfold Xs. eapply (student_rows_nth df _ zx u (n - ng) 2 j); eauto. }
  exists (take_rows [] (Xg ++ Xs) order), (take_rows 0 yall order).
  split.
  { unfold gstm_run. change (S (length gstm_gmm_loc_over_alpha)) with 4. cbn [firstn skipn gmm_run map comp_rows all_some student_run].
    reflexivity. }
  split; [reflexivity|]. split; [reflexivity|].
  split; [rewrite take_rows_length; exact Hlord|]. split; [rewrite take_rows_length; exact Hlord|].
  assert (HpermY : Permutation (take_rows 0 yall order) yall) by (apply take_rows_perm; rewrite Hlyall; exact Hperm).
  split.
  { apply (Forall_nth_lt _ _ []). intros i Hi. rewrite take_rows_length in Hi.
    rewrite (take_rows_nth [] []) by exact Hi. rewrite Forall_forall in Hord.
    assert (Hj : nth i order 0 < n) by (apply Hord, nth_In; exact Hi).
    destruct (Nat.lt_ge_cases (nth i order 0) ng) as [Hlt|Hge].
    - rewrite app_nth1 by lia. apply HlenXg. exact Hlt.
    - rewrite app_nth2 by lia. rewrite HlXg. apply HlenXs. lia. }
  split; [exact HpermY|].
  split; [apply take_rows_perm; rewrite Hlall; exact Hperm|].
  split.
  { rewrite (Permutation_count_occ Nat.eq_dec) in HpermY. rewrite HpermY. unfold yall.
    rewrite count_occ_app, count_occ_repeat_same, (count_occ_lt yg 3 Hrange). reflexivity. }
  split.
  { eapply Permutation_Forall; [apply Permutation_sym; exact HpermY|]. unfold yall. apply Forall_app. split.
    - eapply Forall_impl; [|exact Hrange]. cbn. intros; lia.
    - apply Forall_forall. intros x Hx. apply repeat_spec in Hx. lia. }
  intros i Hi. cbv zeta. rewrite (take_rows_nth 0 0), (take_rows_nth [] []) by lia.
  split.
  - intros Hj. unfold yall. rewrite !app_nth1 by lia. repeat split; auto.
  - intros Hj. unfold yall. rewrite !app_nth2 by lia. rewrite Hyg, HlXg. split; [|reflexivity].
    rewrite Forall_forall in Hord. assert (Hjn : nth i order 0 < n) by (apply Hord, nth_In; lia).
    apply (repeat_spec (n - ng)). apply nth_In. rewrite repeat_length. lia.
Qed.
End Generic2.

(* ================================================================ F. constants, celeux_two, noise covariance *)
(* C20_constants_match_documented: what the translator reads in the source now = the hand-written documented values *)
Theorem constants_match_documented :
  (gstm_split_num, gstm_split_den) = doc_gstm_gaussian_share /\
  gstm_gmm_loc_over_alpha = firstn doc_gstm_gaussians doc_gstm_locations_over_alpha /\
  gstm_gmm_cov = repeat doc_gstm_cov doc_gstm_gaussians /\
  gstm_gmm_pvals = doc_gstm_gmm_pvals /\
  gstm_student_loc_over_alpha = nth doc_gstm_student_label doc_gstm_locations_over_alpha [] /\
  gstm_student_scale = doc_gstm_cov /\
  gstm_student_label = doc_gstm_student_label /\
  c1_loc_over_mu = doc_c1_loc_over_mu /\ c1_cov = repeat doc_c1_cov 3 /\ c1_pvals = doc_c1_pvals /\
  c2_loc = doc_c2_loc /\ c2_cov = repeat doc_c2_cov 4 /\ c2_pvals = doc_c2_pvals /\
  c2_offsets = doc_c2_offsets /\ c2_b = doc_c2_b /\
  c2_noise_mean = doc_c2_noise_mean /\ c2_cov_noise = doc_c2_cov_noise /\
  c2_tail_mean = doc_c2_tail_mean /\ c2_tail_cov = doc_c2_tail_cov.
Proof. repeat split; vm_compute; reflexivity. Qed.

Lemma c2_offsets_doc : c2_offsets = doc_c2_offsets. Proof. apply constants_match_documented. Qed.
Lemma c2_b_doc : c2_b = doc_c2_b. Proof. apply constants_match_documented. Qed.

Open Scope R_scope.
Lemma ofpos_R p : ofpos Rops p = IZR (Zpos p).
Proof. unfold ofpos. cbn [nofnat Rops]. rewrite INR_IZR_INZ, positive_nat_Z. reflexivity. Qed.
Lemma ofZ_R z : ofZ Rops z = IZR z.
Proof.
  destruct z as [|p|p]; cbn [ofZ]; [reflexivity | apply ofpos_R|].
  unfold nneg. cbn [nsub n0 Rops]. rewrite ofpos_R. change (Zneg p) with (- Zpos p)%Z. rewrite opp_IZR. ring.
Qed.
Lemma ofQ_R q : ofQ Rops q = Q2R q.
Proof. unfold ofQ, Q2R. cbn [ndiv Rops]. rewrite ofZ_R, ofpos_R. reflexivity. Qed.

(* C20_celeux_two_linear_part *)
Theorem celeux_two_linear_part n rs :
  Forall2 resp_ok (c2_calls Rops n) rs ->
  exists y m0 m1 m2 m3 noise tail X,
    rs = [DLabels y; DMat m0; DMat m1; DMat m2; DMat m3; DMat noise; DMat tail] /\
    length y = n /\ Forall (fun k => (k < 4)%nat) y /\
    is_mat n 2 m0 /\ is_mat n 2 m1 /\ is_mat n 2 m2 /\ is_mat n 2 m3 /\ is_mat n 9 noise /\ is_mat n 3 tail /\
    c2_run Rops rs = Some (X, y) /\ length X = n /\ Forall (fun r => length r = 14%nat) X /\
    forall i, (i < n)%nat ->
      let good := nth i (nth (nth i y 0%nat) [m0; m1; m2; m3] []) [] in
      let g0 := nth 0 good 0 in let g1 := nth 1 good 0 in
      nth 0 (nth i X []) 0 = g0 /\ nth 1 (nth i X []) 0 = g1 /\
      (forall j, (j < 9)%nat ->
         nth (2 + j) (nth i X []) 0 =
         Q2R (nth j doc_c2_offsets 0%Q)
         + (g0 * Q2R (nth j (nth 0 doc_c2_b []) 0%Q) + g1 * Q2R (nth j (nth 1 doc_c2_b []) 0%Q))
         + nth j (nth i noise []) 0) /\
      (forall j, (j < 3)%nat -> nth (11 + j) (nth i X []) 0 = nth j (nth i tail []) 0).
Proof.
  intros H2.
  assert (Hcalls : c2_calls Rops n =
    [CChoice 4 (map (ofQ Rops) c2_pvals) n;
     CMvn (nth 0 (matQ Rops c2_loc) []) (nth 0 (map (matQ Rops) c2_cov) []) n;
     CMvn (nth 1 (matQ Rops c2_loc) []) (nth 1 (map (matQ Rops) c2_cov) []) n;
     CMvn (nth 2 (matQ Rops c2_loc) []) (nth 2 (map (matQ Rops) c2_cov) []) n;
     CMvn (nth 3 (matQ Rops c2_loc) []) (nth 3 (map (matQ Rops) c2_cov) []) n;
     CMvn (map (ofQ Rops) c2_noise_mean) (c2_cov_noise_T Rops (sqrt3 Rops)) n;
     CMvn (map (ofQ Rops) c2_tail_mean) (matQ Rops c2_tail_cov) n]) by reflexivity.
  rewrite Hcalls in H2. clear Hcalls.
  inversion H2 as [|c0 r0 cs0 rs0 Hr0 H20]; subst. inversion H20 as [|c1 r1 cs1 rs1 Hr1 H21]; subst.
  inversion H21 as [|c2 r2 cs2 rs2 Hr2 H22]; subst. inversion H22 as [|c3 r3 cs3 rs3 Hr3 H23]; subst.
  inversion H23 as [|c4 r4 cs4 rs4 Hr4 H24]; subst. inversion H24 as [|c5 r5 cs5 rs5 Hr5 H25]; subst.
  inversion H25 as [|c6 r6 cs6 rs6 Hr6 H26]; subst. inversion H26; subst.
  inversion Hr0 as [? ? ? y Hy Hrange| | | | |]; subst.
  inversion Hr1 as [| | |? ? ? m0 Hm0| |]; subst. inversion Hr2 as [| | |? ? ? m1 Hm1| |]; subst.
  inversion Hr3 as [| | |? ? ? m2 Hm2| |]; subst. inversion Hr4 as [| | |? ? ? m3 Hm3| |]; subst.
  inversion Hr5 as [| | |? ? ? noise Hnoise| |]; subst. inversion Hr6 as [| | |? ? ? tail Htail| |]; subst.
  clear H2 H20 H21 H22 H23 H24 H25 H26 Hr0 Hr1 Hr2 Hr3 Hr4 Hr5 Hr6.
  change (length (nth 0 (matQ Rops c2_loc) [])) with 2%nat in Hm0.
  change (length (nth 1 (matQ Rops c2_loc) [])) with 2%nat in Hm1.
  change (length (nth 2 (matQ Rops c2_loc) [])) with 2%nat in Hm2.
  change (length (nth 3 (matQ Rops c2_loc) [])) with 2%nat in Hm3.
  change (length (map (ofQ Rops) c2_noise_mean)) with 9%nat in Hnoise.
  change (length (map (ofQ Rops) c2_tail_mean)) with 3%nat in Htail.
  set (G := gmm_select [] y [m0; m1; m2; m3]).
  set (f := fun r : list R * list R * list R => fst (fst r) ++ c2_linear_row Rops (fst (fst r)) (snd (fst r)) ++ snd r).
  exists y, m0, m1, m2, m3, noise, tail, (map f (combine (combine G noise) tail)).
  repeat (split; [first [reflexivity | assumption]|]).
  assert (HlG : length G = length y) by apply gmm_select_length.
  assert (HrowG : forall i, (i < length y)%nat -> nth i G [] = nth i (nth (nth i y 0%nat) [m0; m1; m2; m3] []) []).
  { intros i Hi. apply gmm_select_nth. exact Hi. }
  assert (HlenG : forall i, (i < length y)%nat -> length (nth i G []) = 2%nat).
  { intros i Hi. rewrite (HrowG i Hi). rewrite Forall_forall in Hrange.
    assert (Hk : (nth i y 0 < 4)%nat) by (apply Hrange, nth_In; exact Hi).
    destruct (nth i y 0%nat) as [|[|[|[|k]]]]; cbn [nth]; [| | | |lia]; eapply is_mat_row; eauto. }
  pose proof (proj1 Hnoise) as Hln. pose proof (proj1 Htail) as Hlt.
  assert (Hlc : length (combine (combine G noise) tail) = length y) by (rewrite !combine_length; lia).
  assert (Hrow : forall i, (i < length y)%nat ->
     nth i (map f (combine (combine G noise) tail)) [] =
     nth i G [] ++ c2_linear_row Rops (nth i G []) (nth i noise []) ++ nth i tail []).
  { intros i Hi. rewrite (nth_map_in f _ _ _ ([], [], [])) by lia.
    rewrite combine_nth by (rewrite combine_length; lia). rewrite combine_nth by lia. reflexivity. }
  assert (Hllin : forall a b, length (c2_linear_row Rops a b) = 9%nat).
  { intros a b. unfold c2_linear_row. rewrite map_length, seq_length. reflexivity. }
  split; [rewrite map_length; exact Hlc|]. split.
  { apply (Forall_nth_lt _ _ []). intros i Hi. rewrite map_length, Hlc in Hi. rewrite (Hrow i Hi).
    rewrite !app_length, Hllin, (HlenG i Hi). rewrite (is_mat_row _ _ _ i Htail) by exact Hi. reflexivity. }
  intros i Hi. cbv zeta. rewrite (Hrow i Hi). rewrite <- (HrowG i Hi).
  pose proof (HlenG i Hi) as Hlg. destruct (nth i G []) as [|g0 [|g1 [|]]]; try discriminate Hlg.
  cbn [nth app Nat.add]. split; [reflexivity|]. split; [reflexivity|]. split.
  - intros j Hj. rewrite app_nth1 by (rewrite Hllin; exact Hj).
    unfold c2_linear_row. change (length c2_offsets) with 9%nat.
    rewrite (nth_map_in _ _ _ _ 0%nat) by (rewrite seq_length; exact Hj). rewrite seq_nth by exact Hj. cbn [plus].
    rewrite c2_offsets_doc, c2_b_doc.
    assert (Hb : matQ Rops doc_c2_b = [map (ofQ Rops) (nth 0 doc_c2_b []); map (ofQ Rops) (nth 1 doc_c2_b [])]) by reflexivity.
    unfold dotcol. rewrite Hb. cbn [combine map fold_left fst snd].
    rewrite !(nth_map_in (ofQ Rops) _ _ _ 0%Q) by exact Hj.
    rewrite !ofQ_R. cbn [nadd nmul n0 Rops]. ring.
  - intros j Hj. rewrite app_nth2 by (rewrite Hllin; lia). rewrite Hllin. f_equal. lia.
Qed.

(* ---- the noise covariance *)
Definition dotR (x y : list R) : R := fold_left Rplus (map (fun p => fst p * snd p) (combine x y)) 0.
(* x' M x *)
Definition qform (M : list (list R)) (x : list R) : R := dotR x (map (fun row => dotR row x) M).

(* a conjugate R' diag(d0, d1) R of a non-negative diagonal by ANY 2x2 matrix is symmetric positive semi-definite *)
Lemma conj2_symmetric_psd r00 r01 r10 r11 d0 d1 : 0 <= d0 -> 0 <= d1 ->
  let m00 := r00 * d0 * r00 + r10 * d1 * r10 in let m01 := r00 * d0 * r01 + r10 * d1 * r11 in
  let m10 := r01 * d0 * r00 + r11 * d1 * r10 in let m11 := r01 * d0 * r01 + r11 * d1 * r11 in
  m01 = m10 /\ forall x y, 0 <= qform [[m00; m01]; [m10; m11]] [x; y].
Proof.
  intros H0 H1. cbv zeta. split; [ring|]. intros x y. unfold qform, dotR. cbn [combine map fold_left fst snd].
  replace (_ + _ + _) with (d0 * ((r00 * x + r01 * y) * (r00 * x + r01 * y)) + d1 * ((r10 * x + r11 * y) * (r10 * x + r11 * y))) by ring.
  pose proof (Rle_0_sqr (r00 * x + r01 * y)) as Ha. pose proof (Rle_0_sqr (r10 * x + r11 * y)) as Hb. unfold Rsqr in *.
  apply Rplus_le_le_0_compat; apply Rmult_le_pos; assumption.
Qed.

Definition qsR (s : R) (x : Q * Q) : R := Q2R (fst x) + Q2R (snd x) * s.
Lemma ofqs_R s x : ofqs Rops s x = qsR s x.
Proof. unfold ofqs, qsR. rewrite !ofQ_R. reflexivity. Qed.

(* the documented rotation matrices are the rotations by pi/3 and pi/6 once sqrt 3 is given its value *)
Lemma doc_rotations :
  map (map (qsR (sqrt 3))) doc_rot_pi_3 = [[cos (PI / 3); - sin (PI / 3)]; [sin (PI / 3); cos (PI / 3)]] /\
  map (map (qsR (sqrt 3))) doc_rot_pi_6 = [[cos (PI / 6); - sin (PI / 6)]; [sin (PI / 6); cos (PI / 6)]].
Proof.
  rewrite cos_PI3, sin_PI3, cos_PI6, sin_PI6. unfold doc_rot_pi_3, doc_rot_pi_6, qsR, Q2R.
  cbn [map fst snd Qnum Qden Qopp Z.opp].
  assert (E : forall a b c d a' b' c' d' : R, a = a' -> b = b' -> c = c' -> d = d' ->
              [[a; b]; [c; d]] = [[a'; b']; [c'; d']]) by (intros; subst; reflexivity).
  split; apply E; lra.
Qed.

Lemma sqrt3_R : sqrt3 Rops * sqrt3 Rops = 3.
Proof.
  unfold sqrt3. cbn [nsqrt nofnat Rops]. rewrite INR_IZR_INZ. change (IZR (Z.of_nat 3)) with 3. apply sqrt_sqrt. lra.
Qed.

(* C20_noise_cov_symmetric_psd (sqrt 3 symbolic: any s with s * s = 3) *)
Theorem noise_cov_symmetric_psd s : s * s = 3 ->
  let M := c2_cov_noise_T Rops s in
  is_mat 9 9 M /\ (forall i j, mget Rops M i j = mget Rops M j i) /\ forall x, length x = 9%nat -> 0 <= qform M x.
Proof.
  intros Hs M. split; [|split].
  - split; [reflexivity|]. unfold M, c2_cov_noise_T, c2_cov_noise. cbn [map]. repeat constructor.
  - intros i j. unfold M, c2_cov_noise_T.
    do 9 (destruct i as [|i]; [do 9 (destruct j as [|j]; [reflexivity|]); destruct j; reflexivity|]).
    do 9 (destruct j as [|j]; [destruct i; reflexivity|]). destruct i, j; reflexivity.
  - intros x Hx.
    destruct x as [|x0 [|x1 [|x2 [|x3 [|x4 [|x5 [|x6 [|x7 [|x8 [|]]]]]]]]]]; try discriminate Hx. clear Hx.
    unfold M, c2_cov_noise_T, c2_cov_noise, qform, dotR. cbn [map combine fold_left fst snd].
    rewrite !ofqs_R. unfold qsR, Q2R. cbn [fst snd Qnum Qden].
    assert (H6 : s * s * (x6 * x6) = 3 * (x6 * x6)) by (rewrite Hs; reflexivity).
    assert (H8 : s * s * (x8 * x8) = 3 * (x8 * x8)) by (rewrite Hs; reflexivity).
    pose proof (Rle_0_sqr x0) as S0. pose proof (Rle_0_sqr x1) as S1. pose proof (Rle_0_sqr x2) as S2.
    pose proof (Rle_0_sqr x3) as S3. pose proof (Rle_0_sqr x4) as S4. pose proof (Rle_0_sqr x6) as S6.
    pose proof (Rle_0_sqr x8) as S8.
    pose proof (Rle_0_sqr (x5 + s * x6 / 5)) as S56. pose proof (Rle_0_sqr (x7 + s * x8 / 3)) as S78.
    unfold Rsqr in *. nra.
Qed.
Close Scope R_scope.

(* ================================================================ G. the requests carry the documented parameters *)
Open Scope R_scope.
Ltac req_eq :=
  repeat match goal with
         | |- ?x = ?x => reflexivity
         | |- @eq (list _) (_ :: _) (_ :: _) => apply f_equal2
         | |- @eq (list _) [] [] => reflexivity
         | |- @eq R _ _ => lra
         | |- @eq nat _ _ => reflexivity
         | |- CChoice _ _ _ = CChoice _ _ _ => apply f_equal3
         | |- CMvn _ _ _ = CMvn _ _ _ => apply f_equal3
         | |- CChisq _ _ = CChisq _ _ => apply f_equal2
         | |- CStdNormal _ _ = CStdNormal _ _ => reflexivity
         | |- CPerm _ = CPerm _ => reflexivity
         end.
Ltac req_unfold :=
  unfold gmm_calls, student_calls, scaled, scaledv, matQ;
  cbn [g_d g_loc g_scale g_p g_K map combine length hd Nat.eqb app fst snd repeat];
  rewrite ?ofQ_R; unfold Q2R; cbn [Qnum Qden n0 nmul Rops].

Definition I2 : list (list R) := [[1; 0]; [0; 1]].
Definition I3 : list (list R) := [[1; 0; 0]; [0; 1; 0]; [0; 0; 1]].
Definition I5 : list (list R) := [[1; 0; 0; 0; 0]; [0; 1; 0; 0; 0]; [0; 0; 1; 0; 0]; [0; 0; 0; 1; 0]; [0; 0; 0; 0; 1]].

Lemma sqrt3_is_sqrt : sqrt3 Rops = sqrt 3.
Proof. unfold sqrt3. cbn [nsqrt nofnat Rops]. rewrite INR_IZR_INZ. reflexivity. Qed.

(* gstm: 3n//4 draws of the mixture 1/3 N((a,a),I) + 1/3 N((a,-a),I) + 1/3 N((-a,a),I), the rest Student-t at (-a,-a) *)
Theorem gstm_requests n alpha df :
  let ng := (3 * n / 4)%nat in
  gstm_calls Rops n alpha df =
  [CChoice 3 [/ 3; / 3; / 3] ng;
   CMvn [alpha; alpha] I2 ng; CMvn [alpha; - alpha] I2 ng; CMvn [- alpha; alpha] I2 ng;
   CMvn [0; 0] I2 (n - ng); CChisq df (n - ng); CPerm n].
Proof.
  cbv zeta. unfold gstm_calls, gstm_gmm_in, gstm_student_loc, gstm_n_gauss, I2.
  change gstm_split_num with 3%nat. change gstm_split_den with 4%nat.
  unfold gstm_gmm_loc_over_alpha, gstm_gmm_cov, gstm_gmm_pvals, gstm_student_loc_over_alpha, gstm_student_scale.
  req_unfold. req_eq.
Qed.

(* celeux_one: three equiprobable N(+mu 1_5, I_5), N(-mu 1_5, I_5), N(0, I_5), then an n x p block of N(0,1) noise *)
Theorem celeux_one_requests n p mu :
  c1_calls Rops n p mu =
  [CChoice 3 [/ 3; / 3; / 3] n;
   CMvn [mu; mu; mu; mu; mu] I5 n; CMvn [- mu; - mu; - mu; - mu; - mu] I5 n; CMvn [0; 0; 0; 0; 0] I5 n;
   CStdNormal n p].
Proof.
  unfold c1_calls, c1_gmm_in, I5. unfold c1_loc_over_mu, c1_cov, c1_pvals. req_unfold. req_eq.
Qed.

(* celeux_two: four equiprobable N(mu_k, I_2), the 9-dimensional noise N(0, Omega), the 3 trailing N((3.2,3.6,4), I_3) *)
Theorem celeux_two_requests n :
  c2_calls Rops n =
  [CChoice 4 [/ 4; / 4; / 4; / 4] n;
   CMvn [0; 0] I2 n; CMvn [4; 0] I2 n; CMvn [0; 2] I2 n; CMvn [4; 2] I2 n;
   CMvn [0; 0; 0; 0; 0; 0; 0; 0; 0] (c2_cov_noise_T Rops (sqrt 3)) n;
   CMvn [16 / 5; 18 / 5; 4] I3 n].
Proof.
  unfold c2_calls, c2_gmm_in, I2, I3. rewrite sqrt3_is_sqrt. generalize (c2_cov_noise_T Rops (sqrt 3)). intros Om.
  unfold c2_loc, c2_cov, c2_pvals, c2_noise_mean, c2_tail_mean, c2_tail_cov. req_unfold. req_eq.
Qed.
Close Scope R_scope.

Section Generic3.
Context {T : Type} (o : NumOps T).
(* celeux_one: 5 informative columns taken from the component named by the label, then the p noise columns *)
Theorem celeux_one_layout n p mu rs :
  Forall2 resp_ok (c1_calls o n p mu) rs ->
  exists y m0 m1 m2 noise X,
    rs = [DLabels y; DMat m0; DMat m1; DMat m2; DMat noise] /\
    length y = n /\ Forall (fun k => k < 3) y /\
    is_mat n 5 m0 /\ is_mat n 5 m1 /\ is_mat n 5 m2 /\ is_mat n p noise /\
    c1_run rs = Some (X, y) /\ length X = n /\ Forall (fun r => length r = 5 + p) X /\
    forall i, i < n -> nth i X [] = nth i (nth (nth i y 0) [m0; m1; m2] []) [] ++ nth i noise [].
Proof.
  intros H2.
  assert (Hcalls : c1_calls o n p mu =
    [CChoice 3 (map (ofQ o) c1_pvals) n;
     CMvn (nth 0 (scaled o mu c1_loc_over_mu) []) (nth 0 (map (matQ o) c1_cov) []) n;
     CMvn (nth 1 (scaled o mu c1_loc_over_mu) []) (nth 1 (map (matQ o) c1_cov) []) n;
     CMvn (nth 2 (scaled o mu c1_loc_over_mu) []) (nth 2 (map (matQ o) c1_cov) []) n;
     CStdNormal n p]) by reflexivity.
  rewrite Hcalls in H2. clear Hcalls.
  inversion H2 as [|c0 r0 cs0 rs0 Hr0 H20]; subst. inversion H20 as [|c1 r1 cs1 rs1 Hr1 H21]; subst.
  inversion H21 as [|c2 r2 cs2 rs2 Hr2 H22]; subst. inversion H22 as [|c3 r3 cs3 rs3 Hr3 H23]; subst.
  inversion H23 as [|c4 r4 cs4 rs4 Hr4 H24]; subst. inversion H24; subst.
  inversion Hr0 as [? ? ? y Hy Hrange| | | | |]; subst.
  inversion Hr1 as [| | |? ? ? m0 Hm0| |]; subst. inversion Hr2 as [| | |? ? ? m1 Hm1| |]; subst.
  inversion Hr3 as [| | |? ? ? m2 Hm2| |]; subst. inversion Hr4 as [| |? ? noise Hnoise| | |]; subst.
  clear H2 H20 H21 H22 H23 H24 Hr0 Hr1 Hr2 Hr3 Hr4.
  change (length (nth 0 (scaled o mu c1_loc_over_mu) [])) with 5 in Hm0.
  change (length (nth 1 (scaled o mu c1_loc_over_mu) [])) with 5 in Hm1.
  change (length (nth 2 (scaled o mu c1_loc_over_mu) [])) with 5 in Hm2.
  set (G := gmm_select [] y [m0; m1; m2]).
  exists y, m0, m1, m2, noise, (map (fun gn : list T * list T => fst gn ++ snd gn) (combine G noise)).
  repeat (split; [first [reflexivity | assumption]|]).
  assert (HlG : length G = length y) by apply gmm_select_length.
  assert (HrowG : forall i, i < length y -> nth i G [] = nth i (nth (nth i y 0) [m0; m1; m2] []) []).
  { intros i Hi. apply gmm_select_nth. exact Hi. }
  assert (HlenG : forall i, i < length y -> length (nth i G []) = 5).
  { intros i Hi. rewrite (HrowG i Hi). rewrite Forall_forall in Hrange.
    assert (Hk : nth i y 0 < 3) by (apply Hrange, nth_In; exact Hi).
    destruct (nth i y 0) as [|[|[|k]]]; cbn [nth]; [| | |lia]; eapply is_mat_row; eauto. }
  pose proof (proj1 Hnoise) as Hln.
  assert (Hrow : forall i, i < length y ->
     nth i (map (fun gn : list T * list T => fst gn ++ snd gn) (combine G noise)) [] = nth i G [] ++ nth i noise []).
  { intros i Hi. rewrite (nth_map_in _ _ _ _ ([], [])) by (rewrite combine_length; lia).
    rewrite combine_nth by lia. reflexivity. }
  split; [rewrite map_length, combine_length; lia|]. split.
  - apply (Forall_nth_lt _ _ []). intros i Hi. rewrite map_length, combine_length in Hi.
    rewrite Hrow by lia. rewrite app_length, HlenG by lia. rewrite (is_mat_row _ _ _ i Hnoise) by lia. reflexivity.
  - intros i Hi. rewrite Hrow by exact Hi. rewrite HrowG by exact Hi. reflexivity.
Qed.
End Generic3.

(* ================================================================ H. packaged statements, non-vacuity *)
Theorem student_t_construction {T} (o : NumOps T) (df : T) (loc : list T) (scale nx : list (list T)) (u : list T) (n i : nat) :
  is_mat n (length loc) nx -> length u = n -> i < n ->
  student_calls o n loc scale df = [CMvn (repeat (n0 o) (length loc)) scale n; CChisq df n] /\
  student_run o df loc [DMat nx; DVec u] = Some (student_rows o df loc nx u) /\
  length (student_rows o df loc nx u) = n /\
  length (nth i (student_rows o df loc nx u) []) = length loc /\
  forall j, j < length loc ->
    nth j (nth i (student_rows o df loc nx u) []) (n0 o)
    = nadd o (nmul o (nsqrt o (ndiv o df (nth i u (n0 o)))) (nth j (nth i nx []) (n0 o))) (nth j loc (n0 o)).
Proof.
  intros Hm Hu Hi. split; [reflexivity|]. split; [reflexivity|]. split.
  - rewrite student_rows_length. destruct Hm as [-> _]. rewrite Hu. apply Nat.min_id.
  - exact (student_rows_nth o df loc nx u n (length loc) i Hm Hu eq_refl Hi).
Qed.

Theorem noise_cov_statement :
  (sqrt3 Rops * sqrt3 Rops = 3)%R /\
  (forall s : R, (s * s = 3)%R ->
     let M := c2_cov_noise_T Rops s in
     is_mat 9 9 M /\ (forall i j, mget Rops M i j = mget Rops M j i) /\
     forall x, length x = 9 -> (0 <= qform M x)%R) /\
  (forall r00 r01 r10 r11 d0 d1 : R, (0 <= d0)%R -> (0 <= d1)%R ->
     let m00 := (r00 * d0 * r00 + r10 * d1 * r10)%R in let m01 := (r00 * d0 * r01 + r10 * d1 * r11)%R in
     let m10 := (r01 * d0 * r00 + r11 * d1 * r10)%R in let m11 := (r01 * d0 * r01 + r11 * d1 * r11)%R in
     m01 = m10 /\ forall x y, (0 <= qform [[m00; m01]; [m10; m11]] [x; y])%R) /\
  map (map (qsR (sqrt 3))) doc_rot_pi_3 = [[cos (PI / 3); - sin (PI / 3)]; [sin (PI / 3); cos (PI / 3)]]%R /\
  map (map (qsR (sqrt 3))) doc_rot_pi_6 = [[cos (PI / 6); - sin (PI / 6)]; [sin (PI / 6); cos (PI / 6)]]%R.
Proof.
  split; [exact sqrt3_R|]. split; [exact noise_cov_symmetric_psd|]. split; [exact conj2_symmetric_psd|]. exact doc_rotations.
Qed.

Lemma nonvacuous_example :
  let g := {| g_loc := [[0; 0]; [1; 2]]%R; g_scale := Sc3 [[[1; 0]; [0; 1]]; [[2; 1]; [1; 2]]]%R; g_p := [/ 2; / 2]%R |} in
  let eig := fun k => match k with O => [1; 1]%R | _ => [1; 3]%R end in
  let rs := [DLabels [1; 0; 1]; DMat [[10; 11]; [12; 13]; [14; 15]]%R; DMat [[20; 21]; [22; 23]; [24; 25]]%R] in
  gmm_check Rops g eig = None /\ Forall (fun r => length r = g_d g) (g_loc g) /\
  Forall2 resp_ok (gmm_calls Rops 3 g) rs /\
  gmm_run rs = Some ([[20; 21]; [12; 13]; [24; 25]]%R, [1; 0; 1]).
Proof.
  cbv zeta. split; [|split; [|split]].
  - apply validation_spec. unfold gmm_spec. cbn [g_K g_d g_loc g_scale g_p scale_len length hd].
    split; [lia|]. split; [lia|]. split; [reflexivity|]. split; [reflexivity|]. split.
    { intros x [<-|[<-|[]]]; lra. }
    split.
    { cbn [fold_left]. replace (0 + / 2 + / 2 - 1)%R with 0%R by lra. rewrite Rabs_R0. lra. }
    right. split; [lia|]. eexists. split; [reflexivity|]. split; [reflexivity|]. split; [reflexivity|].
    assert (Hsym : forall a b : R, a = b -> (Rabs (a - b) <= / 100000000 + / 100000 * Rabs b)%R).
    { intros a b ->. replace (b - b)%R with 0%R by lra. rewrite Rabs_R0. pose proof (Rabs_pos b). lra. }
    intros k m Hk. destruct k as [|[|k]]; cbn in Hk; try (destruct k; discriminate Hk); inversion Hk; subst m; clear Hk.
    + split; [|split].
      * intros i j Hi Hj. cbn [length] in Hi, Hj. apply Hsym.
        destruct i as [|[|i]]; [| |lia]; (destruct j as [|[|j]]; [| |lia]); reflexivity.
      * intros e [<-|[<-|[]]]; lra.
      * exists [1; 0]%R, 1%R. split; [left; reflexivity|]. split; [left; reflexivity|]. lra.
    + split; [|split].
      * intros i j Hi Hj. cbn [length] in Hi, Hj. apply Hsym.
        destruct i as [|[|i]]; [| |lia]; (destruct j as [|[|j]]; [| |lia]); reflexivity.
      * intros e [<-|[<-|[]]]; lra.
      * exists [2; 1]%R, 2%R. split; [left; reflexivity|]. split; [left; reflexivity|]. lra.
  - repeat constructor.
  - unfold gmm_calls. cbn [g_d g_K g_loc g_scale g_p length hd Nat.eqb combine map fst snd].
    constructor; [constructor; [reflexivity | repeat constructor]|].
    constructor; [constructor; split; [reflexivity | repeat constructor]|].
    constructor; [constructor; split; [reflexivity | repeat constructor]|]. constructor.
  - reflexivity.
Qed.

(* the provable half of "each sample is drawn from the component named by its label": row i of the output is row i
   of the answer to the request that carries the parameters (mean, covariance / sqrt(variance)) of component y_i *)
Theorem sample_from_labelled_request {T} (o : NumOps T) n g eig rs :
  gmm_check o g eig = None -> Forall (fun r => length r = g_d g) (g_loc g) ->
  Forall2 resp_ok (gmm_calls o n g) rs ->
  exists X y, gmm_run rs = Some (X, y) /\ length X = n /\ length y = n /\
    forall i, i < n ->
      let k := nth i y 0 in
      k < g_K g /\
      (exists Xk, comp_rows (nth (S k) rs (DLabels [])) = Some Xk /\ nth i X [] = nth i Xk []) /\
      match g_scale g with
      | Sc2 s => g_d g = 1 /\ nth (S k) (gmm_calls o n g) (CPerm 0) = CNormal (nth k (g_loc g) []) (map (nsqrt o) (nth k s [])) n
      | Sc3 s => g_d g <> 1 /\ nth (S k) (gmm_calls o n g) (CPerm 0) = CMvn (nth k (g_loc g) []) (nth k s []) n
      end.
Proof.
  intros Hc Hrect H2.
  destruct (gmm_row_from_labelled_component o n g eig rs Hc Hrect H2) as (y & comps & X & -> & Hlc & Hrun & HX & _ & Hy & Hrange & Hrows).
  exists X, y. repeat split; auto.
  - rewrite Forall_forall in Hrange. apply Hrange, nth_In. lia.
  - destruct (Hrows i H) as (Xk & Hk & _ & Hrow). exists Xk. cbn [nth]. auto.
  - rewrite Forall_forall in Hrange. assert (Hk : nth i y 0 < g_K g) by (apply Hrange, nth_In; lia).
    destruct (gmm_calls_valid o n g eig Hc Hrect) as (cs & Hcs & Hlen & _ & [(Hd & s & Hs & ->)|(Hd & s & Hs & ->)]);
      rewrite Hcs, Hs; cbn [nth]; (split; [exact Hd|]).
    + rewrite map_length in Hlen.
      rewrite (nth_map_in _ _ _ _ ([], [])) by lia. rewrite combine_length in Hlen. rewrite combine_nth; [reflexivity|].
      apply gmm_check_none in Hc. destruct Hc as (_ & _ & HsK & _). rewrite Hs in HsK. cbn in HsK. unfold g_K in HsK. lia.
    + rewrite map_length in Hlen.
      rewrite (nth_map_in _ _ _ _ ([], [])) by lia. rewrite combine_length in Hlen. rewrite combine_nth; [reflexivity|].
      apply gmm_check_none in Hc. destruct Hc as (_ & _ & HsK & _). rewrite Hs in HsK. cbn in HsK. unfold g_K in HsK. lia.
Qed.
