(* C20 - the definitions regenerated from draw_gmm / multivariate_student_t (Gen/DataGenRules.v) are the hand-written
   model (Model/DataGen.v), for every number system; and the theorems of Proofs/DataGen.v restated about the
   regenerated functions.  A reordered validation test, a changed threshold / strictness / shape entry, a changed
   request argument or a changed index in the row selection makes one of the equalities below unprovable. *)
From Coq Require Import List Arith Bool Reals.
From GV Require Import Common.Num Common.NumR Model.DataGen Gen.DataGenRules Proofs.DataGen.
Import ListNotations.

Lemma gen_gmm_select_eq {A} (d : A) y X : gen_gmm_select d y X = gmm_select d y X.
Proof. reflexivity. Qed.

Section Equalities.
Context {T : Type} (o : NumOps T).

(* `scale.ndim != 3 or d != scale.shape[1] or d != scale.shape[2]` = "scale is not a stack of d x d matrices" *)
Lemma notsquare_eq d (sc : scale_arr (T := T)) :
  negb (scale_ndim sc =? 3) || negb (d =? scale_dim1 sc) || negb (d =? scale_dim2 sc) = negb (scale_square d sc).
Proof.
  destruct sc as [s|s].
  - reflexivity.
  - cbn [scale_ndim scale_dim1 scale_dim2 scale_square Nat.eqb negb orb]. rewrite negb_andb. reflexivity.
Qed.

(* `if scale[k] <= 0:` on a row: one element -> its comparison, otherwise numpy's ambiguous-truth error *)
Lemma var_test_eq k (row : list T) :
  match truth1 (map (fun x => nleb o x (n0 o)) row) with
  | Some true => Some (EVar k) | Some false => None | None => Some EArray end
  = match row with [v] => if nleb o v (n0 o) then Some (EVar k) else None | _ => Some EArray end.
Proof. destruct row as [|v [|w r]]; reflexivity. Qed.

Ltac same_if := match goal with |- (if ?c then _ else _) = (if ?c then _ else _) => destruct c; [reflexivity|] end.

Lemma gen_gmm_check_eq g eig : gen_gmm_check o g eig = gmm_check o g eig.
Proof.
  unfold gen_gmm_check, gmm_check, array_check. cbv zeta.
  same_if. same_if. rewrite notsquare_eq. same_if. same_if. same_if. same_if.
  destruct (g_d g =? 1); unfold for_rows, for_mats; destruct (g_scale g) as [s|s]; try reflexivity.
  unfold check_var. f_equal. apply map_ext. intros [k row]. cbn [fst snd]. apply var_test_eq.
Qed.

Lemma gen_gmm_calls_eq n g : gen_gmm_calls o n g = gmm_calls o n g.
Proof. reflexivity. Qed.
Lemma gen_gmm_run_eq rs : gen_gmm_run rs = gmm_run (T := T) rs.
Proof. reflexivity. Qed.
Lemma gen_student_check_eq loc scale : gen_student_check loc scale = student_check (T := T) loc scale.
Proof. reflexivity. Qed.
Lemma gen_student_calls_eq n loc scale df : gen_student_calls o n loc scale df = student_calls o n loc scale df.
Proof. reflexivity. Qed.
Lemma gen_student_entry_eq df u z l : gen_student_entry o df u z l = student_entry o df u z l.
Proof. reflexivity. Qed.
Lemma gen_student_run_eq df loc rs : gen_student_run o df loc rs = student_run o df loc rs.
Proof. reflexivity. Qed.
End Equalities.

(* C20_regenerated_rules_are_documented *)
Theorem regenerated_rules_are_documented : forall (T : Type) (o : NumOps T),
  (forall g eig, gen_gmm_check o g eig = gmm_check o g eig) /\
  (forall n g, gen_gmm_calls o n g = gmm_calls o n g) /\
  (forall rs, gen_gmm_run rs = gmm_run (T := T) rs) /\
  (forall (d : list T) y X, gen_gmm_select d y X = gmm_select d y X) /\
  (forall loc scale, gen_student_check loc scale = student_check (T := T) loc scale) /\
  (forall n loc scale df, gen_student_calls o n loc scale df = student_calls o n loc scale df) /\
  (forall df u z l, gen_student_entry o df u z l = student_entry o df u z l) /\
  (forall df loc rs, gen_student_run o df loc rs = student_run o df loc rs).
Proof.
  intros T o. split; [exact (gen_gmm_check_eq o)|]. split; [exact (gen_gmm_calls_eq o)|]. split; [exact gen_gmm_run_eq|].
  split; [intros; apply gen_gmm_select_eq|]. split; [exact gen_student_check_eq|]. split; [exact (gen_student_calls_eq o)|].
  split; [exact (gen_student_entry_eq o)|]. exact (gen_student_run_eq o).
Qed.

(* ---- the theorems of Proofs/DataGen.v about the regenerated functions *)
Theorem gen_gmm_row_from_labelled_component {T} (o : NumOps T) n g eig rs :
  gen_gmm_check o g eig = None -> Forall (fun r => length r = g_d g) (g_loc g) ->
  Forall2 resp_ok (gen_gmm_calls o n g) rs ->
  exists y comps X,
    rs = DLabels y :: comps /\ length comps = g_K g /\ gen_gmm_run rs = Some (X, y) /\
    length X = n /\ Forall (fun r => length r = g_d g) X /\
    length y = n /\ Forall (fun k => k < g_K g) y /\
    forall i, i < n -> exists Xk,
      comp_rows (nth (nth i y 0) comps (DLabels [])) = Some Xk /\ is_mat n (g_d g) Xk /\ nth i X [] = nth i Xk [].
Proof. rewrite gen_gmm_check_eq, gen_gmm_calls_eq, gen_gmm_run_eq. apply gmm_row_from_labelled_component. Qed.

Theorem gen_sample_from_labelled_request {T} (o : NumOps T) n g eig rs :
  gen_gmm_check o g eig = None -> Forall (fun r => length r = g_d g) (g_loc g) ->
  Forall2 resp_ok (gen_gmm_calls o n g) rs ->
  exists X y, gen_gmm_run rs = Some (X, y) /\ length X = n /\ length y = n /\
    forall i, i < n ->
      let k := nth i y 0 in
      k < g_K g /\
      (exists Xk, comp_rows (nth (S k) rs (DLabels [])) = Some Xk /\ nth i X [] = nth i Xk []) /\
      match g_scale g with
      | Sc2 s => g_d g = 1 /\ nth (S k) (gen_gmm_calls o n g) (CPerm 0) = CNormal (nth k (g_loc g) []) (map (nsqrt o) (nth k s [])) n
      | Sc3 s => g_d g <> 1 /\ nth (S k) (gen_gmm_calls o n g) (CPerm 0) = CMvn (nth k (g_loc g) []) (nth k s []) n
      end.
Proof. rewrite gen_gmm_check_eq, gen_gmm_calls_eq, gen_gmm_run_eq. apply sample_from_labelled_request. Qed.

Theorem gen_validation_spec g eig : gen_gmm_check Rops g eig = None <-> gmm_spec g eig.
Proof. rewrite gen_gmm_check_eq. apply validation_spec. Qed.

Theorem gen_one_d_uses_sqrt_of_variance n g eig :
  gen_gmm_check Rops g eig = None -> g_d g = 1%nat ->
  exists s, g_scale g = Sc2 s /\ length s = g_K g /\
    gen_gmm_calls Rops n g = CChoice (g_K g) (g_p g) n ::
                             map (fun lv => CNormal (fst lv) (map sqrt (snd lv)) n) (combine (g_loc g) s) /\
    Forall (fun row => exists v, row = [v] /\ (0 < v)%R /\ map sqrt row = [sqrt v] /\ (sqrt v * sqrt v = v)%R) s.
Proof. rewrite gen_gmm_check_eq, gen_gmm_calls_eq. apply one_d_uses_sqrt_of_variance. Qed.

Theorem gen_student_t_construction {T} (o : NumOps T) (df : T) (loc : list T) (scale nx : list (list T)) (u : list T) (n i : nat) :
  is_mat n (length loc) nx -> length u = n -> i < n ->
  gen_student_calls o n loc scale df = [CMvn (repeat (n0 o) (length loc)) scale n; CChisq df n] /\
  (exists X, gen_student_run o df loc [DMat nx; DVec u] = Some X /\ length X = n /\ length (nth i X []) = length loc /\
     forall j, j < length loc ->
       nth j (nth i X []) (n0 o)
       = nadd o (nmul o (nsqrt o (ndiv o df (nth i u (n0 o)))) (nth j (nth i nx []) (n0 o))) (nth j loc (n0 o))).
Proof.
  intros Hm Hu Hi. destruct (student_t_construction o df loc scale nx u n i Hm Hu Hi) as (H1 & H2 & H3 & H4 & H5).
  split; [exact H1|]. exists (student_rows o df loc nx u). rewrite gen_student_run_eq. auto.
Qed.

Lemma gen_nonvacuous_example :
  let g := {| g_loc := [[0; 0]; [1; 2]]%R; g_scale := Sc3 [[[1; 0]; [0; 1]]; [[2; 1]; [1; 2]]]%R; g_p := [/ 2; / 2]%R |} in
  let eig := fun k => match k with O => [1; 1]%R | _ => [1; 3]%R end in
  let rs := [DLabels [1; 0; 1]; DMat [[10; 11]; [12; 13]; [14; 15]]%R; DMat [[20; 21]; [22; 23]; [24; 25]]%R] in
  gen_gmm_check Rops g eig = None /\ Forall (fun r => length r = g_d g) (g_loc g) /\
  Forall2 resp_ok (gen_gmm_calls Rops 3 g) rs /\
  gen_gmm_run rs = Some ([[20; 21]; [12; 13]; [24; 25]]%R, [1; 0; 1]).
Proof. cbv zeta. rewrite gen_gmm_check_eq, gen_gmm_calls_eq, gen_gmm_run_eq. exact nonvacuous_example. Qed.
