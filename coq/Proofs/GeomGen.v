(* Static tie between the hand-written model of the kernel MMD GEMINI (Model/Gemini.v: nk, mm_alpha, mm_gamma, mm_a,
   mm_b, mm_c, mm_delta_ova, mm_omega, mm_delta_ovo, mmd_score, mm_lambda, mmd_grad) and the source:
   Gen/Geom.v is regenerated on every build by translator/tr_geom.py from the numpy code of
   gemclus/gemini/_geomdistances.py :: MMDGEMINI.evaluate.

   Part 1 (ALL number systems: any NumOps T - reals, IEEE doubles, option R ...).  Every generated definition equals
           the CODE-SHAPED expression code_* below, which is written with the model's own sub-definitions (pi, nk,
           mm_alpha, mm_gamma, mm_omega, mm_delta_ova, mm_delta_ovo, maskT) and keeps the grouping of the source.
           Each proof is `rewrite <nofnat_sq>; reflexivity`: the terms are convertible once the Python integer
           N ** 2 (translated literally as nofnat o (n * n)) is identified with the model's ofn n * ofn n; that one
           identity is the explicit hypothesis [nofnat_sq o n] (true over R by mult_INR, lemma nofnat_sq_R; true for
           IEEE doubles because both sides are the correctly rounded n^2).  For the one-vs-all score the code-shaped
           expression IS the model: gen_mmd_score_ova_eq / gen_mmd_gscore_ova_eq hold for all number systems.
           The score returned with the gradient is the score returned alone: reflexivity, no hypothesis.
   Part 2 (real numbers only, lemmas named ..._eq_R).  Where the model's formulation differs from the code's:
             code_score_ovo  (pi @ delta @ pi.T: sum_c (sum_r pi_r d_rc) pi_c)   vs  sum_k sum_k' pi_k d_kk' pi_k'
             code_tau        ((np.eye(N) - 1/N) @ nk @ (alpha - 1))              vs  t_i - (sum t)/N  [in-range i]
             code_grad_ova   (tau / (delta + delta_mask), then [:, delta_mask] = 0) vs if delta == 0 then 0 else tau / delta
             code_lambda     (pi.T pi / (delta + eye) - diag(diag(.)), [delta == 0] = 0) vs mm_lambda's three cases
             code_grad_ovo   (... * 2 after the in-place updates)                vs  two * (...)
           these need distributivity / interchange of sums / x + 0 = x / x - x = 0 / commutativity.
   Part 3  the C01 / C02 theorems of Proofs/GeminiMMD.v restated on the regenerated definitions (instance Rops).
   If a lemma of Part 1 stops compiling the code no longer computes the expression written here; if one of Part 2
   stops compiling the expression is no longer equal to the model over the reals. *)
From Coq Require Import Reals Lra Lia Arith FunctionalExtensionality.
From Coquelicot Require Import Coquelicot.
From GV Require Import Common.Num Common.NumR Model.Gemini Gen.Geom Proofs.RSumLib Proofs.GeminiDefs Proofs.GeminiMMD.

(* ---------------------------------------------------------------------------------------------------- *)
(* the only identity used between Python-integer and float arithmetic: float(N ** 2) = float(N) * float(N) *)
Definition nofnat_sq {T : Type} (o : NumOps T) (n : nat) : Prop :=
  nofnat o (n * n) = nmul o (nofnat o n) (nofnat o n).
Lemma nofnat_sq_R : forall n, nofnat_sq Rops n.
Proof. intros n. unfold nofnat_sq. cbn [nofnat nmul Rops]. apply mult_INR. Qed.

(* ---------------------------------------------------------------------------------------------------- *)
(* the code's expressions over the model's sub-definitions (grouping of the source) *)
Section CodeForms.
Context {T : Type} (o : NumOps T).
Variable eps : T.
Variables n K : nat.
Variables Y A : nat -> nat -> T.
Notation "x + y" := (nadd o x y). Notation "x - y" := (nsub o x y).
Notation "x * y" := (nmul o x y). Notation "x / y" := (ndiv o x y).
Local Notation PI := (pi o eps n Y).
Local Notation AL := (mm_alpha o eps n Y).
Local Notation GA := (mm_gamma o eps n Y A).
Local Notation OM := (mm_omega o eps n Y A).
Local Notation DA := (mm_delta_ova o eps n Y A).
Local Notation DO := (mm_delta_ovo o eps n Y A).
Local Notation eye := (fun a b : nat => if Nat.eqb a b then n1 o else n0 o).
(* mmd_ova_value = np.dot(pi, delta).squeeze() *)
Definition code_score_ova : T := bsum o K (fun k => PI k * DA k).
(* mmd_ovo_value = (pi @ delta @ pi.T).squeeze() *)
Definition code_score_ovo : T := bsum o K (fun c => bsum o K (fun r => PI r * DO r c) * PI c).
(* tau_grad = (np.eye(N) - 1 / N) @ normalised_kernel @ (alpha - 1) *)
Definition code_tau (i k : nat) : T :=
  bsum o n (fun j => bsum o n (fun l => (eye i l - n1 o / ofn o n) * nk o n A l j) * (AL j k - n1 o)).
(* delta_mask = (delta == 0) ; gradient = tau_grad / (delta + delta_mask) ; gradient[:, delta_mask] = 0 ; * clip_mask *)
Definition code_grad_ova (i k : nat) : T :=
  (if neqb o (DA k) (n0 o) then n0 o
   else code_tau i k / (DA k + (if neqb o (DA k) (n0 o) then n1 o else n0 o))) * maskT o eps Y i k.
(* Lambda = (pi.T @ pi) / (delta + np.eye(len(delta))) ; Lambda -= np.diag(np.diag(Lambda)) ; Lambda[delta == 0] = 0 *)
Definition code_lambda0 (r c : nat) : T := PI r * PI c / (DO r c + eye r c).
Definition code_lambda (r c : nat) : T :=
  if neqb o (DO r c) (n0 o) then n0 o
  else code_lambda0 r c - (if Nat.eqb r c then code_lambda0 r r else n0 o).
(* the seven updates of `gradient`, then * clip_mask *)
Definition code_grad_ovo (i k : nat) : T :=
  let ls := fun c => bsum o K (fun r => code_lambda r c) in
  let gl := fun i c => bsum o K (fun r => GA i r * code_lambda r c) in
  ((GA i k * ls k - gl i k - OM k k * ls k / ofn o n + bsum o n (fun j => AL j k * gl j k) / ofn o n) / PI k
   + bsum o K (fun r => PI r * DO r k) / ofn o n) * n2 o * maskT o eps Y i k.
End CodeForms.

(* ---------------------------------------------------------------------------------------------------- *)
(* Part 1: generated = code-shaped expression over the model's sub-definitions, all NumOps *)
Lemma gen_mmd_score_ova_code : forall T (o : NumOps T) eps n K Y A, nofnat_sq o n ->
  gen_mmd_score_ova o eps n K Y A = code_score_ova o eps n K Y A.
Proof. intros T o eps n K Y A H. unfold gen_mmd_score_ova. rewrite H. reflexivity. Qed.
Lemma gen_mmd_gscore_ova_code : forall T (o : NumOps T) eps n K Y A, nofnat_sq o n ->
  gen_mmd_gscore_ova o eps n K Y A = code_score_ova o eps n K Y A.
Proof. intros T o eps n K Y A H. unfold gen_mmd_gscore_ova. rewrite H. reflexivity. Qed.
Lemma gen_mmd_grad_ova_code : forall T (o : NumOps T) eps n K Y A i k, nofnat_sq o n ->
  gen_mmd_grad_ova o eps n K Y A i k = code_grad_ova o eps n Y A i k.
Proof. intros T o eps n K Y A i k H. unfold gen_mmd_grad_ova. rewrite H. reflexivity. Qed.
Lemma gen_mmd_score_ovo_code : forall T (o : NumOps T) eps n K Y A, nofnat_sq o n ->
  gen_mmd_score_ovo o eps n K Y A = code_score_ovo o eps n K Y A.
Proof. intros T o eps n K Y A H. unfold gen_mmd_score_ovo. rewrite H. reflexivity. Qed.
Lemma gen_mmd_gscore_ovo_code : forall T (o : NumOps T) eps n K Y A, nofnat_sq o n ->
  gen_mmd_gscore_ovo o eps n K Y A = code_score_ovo o eps n K Y A.
Proof. intros T o eps n K Y A H. unfold gen_mmd_gscore_ovo. rewrite H. reflexivity. Qed.
Lemma gen_mmd_grad_ovo_code : forall T (o : NumOps T) eps n K Y A i k, nofnat_sq o n ->
  gen_mmd_grad_ovo o eps n K Y A i k = code_grad_ovo o eps n K Y A i k.
Proof. intros T o eps n K Y A i k H. unfold gen_mmd_grad_ovo. rewrite H. reflexivity. Qed.

(* one-vs-all score: the code-shaped expression is the model (convertible) *)
Lemma code_score_ova_is_model : forall T (o : NumOps T) eps n K Y A,
  code_score_ova o eps n K Y A = mmd_score o eps n K Y A false.
Proof. intros. reflexivity. Qed.
Lemma gen_mmd_score_ova_eq : forall T (o : NumOps T) eps n K Y A, nofnat_sq o n ->
  gen_mmd_score_ova o eps n K Y A = mmd_score o eps n K Y A false.
Proof. intros T o eps n K Y A H. rewrite gen_mmd_score_ova_code by exact H. reflexivity. Qed.
Lemma gen_mmd_gscore_ova_eq : forall T (o : NumOps T) eps n K Y A, nofnat_sq o n ->
  gen_mmd_gscore_ova o eps n K Y A = mmd_score o eps n K Y A false.
Proof. intros T o eps n K Y A H. rewrite gen_mmd_gscore_ova_code by exact H. reflexivity. Qed.

(* the score returned together with the gradient is the score returned alone (any number system, no hypothesis) *)
Lemma gen_mmd_gscore_ova_eq_score : forall T (o : NumOps T) eps n K Y A,
  gen_mmd_gscore_ova o eps n K Y A = gen_mmd_score_ova o eps n K Y A.
Proof. intros. reflexivity. Qed.
Lemma gen_mmd_gscore_ovo_eq_score : forall T (o : NumOps T) eps n K Y A,
  gen_mmd_gscore_ovo o eps n K Y A = gen_mmd_score_ovo o eps n K Y A.
Proof. intros. reflexivity. Qed.

(* the generated definitions selected by the flag *)
Definition gen_mmd_score {T : Type} (o : NumOps T) (eps : T) (n K : nat) (Y A : nat -> nat -> T) (ovo : bool) : T :=
  if ovo then gen_mmd_score_ovo o eps n K Y A else gen_mmd_score_ova o eps n K Y A.
Definition gen_mmd_gscore {T : Type} (o : NumOps T) (eps : T) (n K : nat) (Y A : nat -> nat -> T) (ovo : bool) : T :=
  if ovo then gen_mmd_gscore_ovo o eps n K Y A else gen_mmd_gscore_ova o eps n K Y A.
Definition gen_mmd_grad {T : Type} (o : NumOps T) (eps : T) (n K : nat) (Y A : nat -> nat -> T) (ovo : bool) (i k : nat) : T :=
  if ovo then gen_mmd_grad_ovo o eps n K Y A i k else gen_mmd_grad_ova o eps n K Y A i k.
Definition code_score {T : Type} (o : NumOps T) (eps : T) (n K : nat) (Y A : nat -> nat -> T) (ovo : bool) : T :=
  if ovo then code_score_ovo o eps n K Y A else code_score_ova o eps n K Y A.
Definition code_grad {T : Type} (o : NumOps T) (eps : T) (n K : nat) (Y A : nat -> nat -> T) (ovo : bool) (i k : nat) : T :=
  if ovo then code_grad_ovo o eps n K Y A i k else code_grad_ova o eps n Y A i k.
Lemma gen_mmd_gscore_eq_score : forall T (o : NumOps T) eps n K Y A ovo,
  gen_mmd_gscore o eps n K Y A ovo = gen_mmd_score o eps n K Y A ovo.
Proof. intros. destruct ovo; reflexivity. Qed.
Lemma gen_mmd_is_code : forall T (o : NumOps T) eps n K Y A ovo, nofnat_sq o n ->
  gen_mmd_score o eps n K Y A ovo = code_score o eps n K Y A ovo /\
  gen_mmd_gscore o eps n K Y A ovo = code_score o eps n K Y A ovo /\
  (forall i k, gen_mmd_grad o eps n K Y A ovo i k = code_grad o eps n K Y A ovo i k).
Proof.
  intros T o eps n K Y A ovo H. destruct ovo; cbn [gen_mmd_score gen_mmd_gscore gen_mmd_grad code_score code_grad].
  - split; [apply gen_mmd_score_ovo_code; exact H | split; [apply gen_mmd_gscore_ovo_code; exact H |]].
    intros i k. apply gen_mmd_grad_ovo_code; exact H.
  - split; [apply gen_mmd_score_ova_code; exact H | split; [apply gen_mmd_gscore_ova_code; exact H |]].
    intros i k. apply gen_mmd_grad_ova_code; exact H.
Qed.

(* ---------------------------------------------------------------------------------------------------- *)
(* Part 2: code-shaped expression = model, over the reals *)
Open Scope R_scope.

(* (I - 1/N) M v, entry i  =  (M v)_i - mean(M v) *)
Lemma centre_matmul_R : forall n (M : nat -> nat -> R) (v : nat -> R) i, (i < n)%nat ->
  rsum n (fun j => rsum n (fun l => ((if Nat.eqb i l then 1 else 0) - 1 / INR n) * M l j) * v j)
  = rsum n (fun j => M i j * v j) - rsum n (fun l => rsum n (fun j => M l j * v j)) / INR n.
Proof.
  intros n M v i Hi.
  assert (Hin : forall j, rsum n (fun l => ((if Nat.eqb i l then 1 else 0) - 1 / INR n) * M l j)
                          = M i j - 1 / INR n * rsum n (fun l => M l j)).
  { intros j.
    rewrite (rsum_ext n _ (fun l => (if Nat.eqb i l then 1 else 0) * M l j - 1 / INR n * M l j)) by (intros l Hl; ring).
    rewrite rsum_minus, rsum_scal. f_equal.
    rewrite (rsum_single n i (fun l => (if Nat.eqb i l then 1 else 0) * M l j) Hi).
    - rewrite Nat.eqb_refl. ring.
    - intros l Hl Hne. destruct (Nat.eqb i l) eqn:E; [apply Nat.eqb_eq in E; congruence | ring]. }
  rewrite (rsum_ext n _ (fun j => M i j * v j - 1 / INR n * (rsum n (fun l => M l j) * v j)))
    by (intros j Hj; rewrite Hin; ring).
  rewrite rsum_minus, rsum_scal. f_equal.
  rewrite (rsum_ext n (fun j => rsum n (fun l => M l j) * v j) (fun j => rsum n (fun l => M l j * v j)))
    by (intros j Hj; rewrite rsum_scal_r; reflexivity).
  rewrite (rsum_swap n n (fun j l => M l j * v j)). unfold Rdiv. ring.
Qed.

Lemma code_tau_eq_R : forall eps n (Y A : mat) i k, (i < n)%nat ->
  code_tau Rops eps n Y A i k
  = rsum n (fun j => nk Rops n A i j * (mm_alpha Rops eps n Y j k - 1))
    - rsum n (fun l => rsum n (fun j => nk Rops n A l j * (mm_alpha Rops eps n Y j k - 1))) / INR n.
Proof.
  intros eps n Y A i k Hi.
  exact (centre_matmul_R n (nk Rops n A) (fun j => mm_alpha Rops eps n Y j k - 1) i Hi).
Qed.

Lemma code_grad_ova_eq_R : forall eps n K (Y A : mat) i k, (i < n)%nat ->
  code_grad_ova Rops eps n Y A i k = mmd_grad Rops eps n K Y A false i k.
Proof.
  intros eps n K Y A i k Hi.
  change (mmd_grad Rops eps n K Y A false i k) with
    ((if Reqb (mm_delta_ova Rops eps n Y A k) 0 then 0
      else (rsum n (fun j => nk Rops n A i j * (mm_alpha Rops eps n Y j k - 1))
            - rsum n (fun l => rsum n (fun j => nk Rops n A l j * (mm_alpha Rops eps n Y j k - 1))) / INR n)
           / mm_delta_ova Rops eps n Y A k) * maskT Rops eps Y i k).
  change (code_grad_ova Rops eps n Y A i k) with
    ((if Reqb (mm_delta_ova Rops eps n Y A k) 0 then 0
      else code_tau Rops eps n Y A i k
           / (mm_delta_ova Rops eps n Y A k + (if Reqb (mm_delta_ova Rops eps n Y A k) 0 then 1 else 0)))
     * maskT Rops eps Y i k).
  rewrite (code_tau_eq_R eps n Y A i k Hi).
  destruct (Reqb (mm_delta_ova Rops eps n Y A k) 0); [reflexivity|].
  rewrite Rplus_0_r. reflexivity.
Qed.

Lemma code_score_ovo_eq_R : forall eps n K (Y A : mat),
  code_score_ovo Rops eps n K Y A = mmd_score Rops eps n K Y A true.
Proof.
  intros eps n K Y A.
  change (mmd_score Rops eps n K Y A true) with
    (rsum K (fun r => rsum K (fun c => pi Rops eps n Y r * mm_delta_ovo Rops eps n Y A r c * pi Rops eps n Y c))).
  change (code_score_ovo Rops eps n K Y A) with
    (rsum K (fun c => rsum K (fun r => pi Rops eps n Y r * mm_delta_ovo Rops eps n Y A r c) * pi Rops eps n Y c)).
  rewrite (rsum_swap K K (fun r c => pi Rops eps n Y r * mm_delta_ovo Rops eps n Y A r c * pi Rops eps n Y c)).
  apply rsum_ext. intros c Hc. rewrite <- rsum_scal_r. reflexivity.
Qed.

(* Lambda as the code builds it = the three cases of the model *)
Lemma lambda_cases_R : forall (p : nat -> R) (D : nat -> nat -> R) r c,
  (if Reqb (D r c) 0 then 0
   else p r * p c / (D r c + (if Nat.eqb r c then 1 else 0))
        - (if Nat.eqb r c then p r * p r / (D r r + (if Nat.eqb r r then 1 else 0)) else 0))
  = (if Nat.eqb r c then 0 else if Reqb (D r c) 0 then 0 else p r * p c / D r c).
Proof.
  intros p D r c. destruct (Nat.eqb r c) eqn:E.
  - apply Nat.eqb_eq in E. subst c. rewrite Nat.eqb_refl. destruct (Reqb (D r r) 0); [reflexivity | ring].
  - destruct (Reqb (D r c) 0); [reflexivity|]. rewrite Rplus_0_r, Rminus_0_r. reflexivity.
Qed.
Lemma code_lambda_eq_R : forall eps n (Y A : mat) r c,
  code_lambda Rops eps n Y A r c = mm_lambda Rops eps n Y A r c.
Proof.
  intros eps n Y A r c.
  exact (lambda_cases_R (pi Rops eps n Y) (mm_delta_ovo Rops eps n Y A) r c).
Qed.

Lemma code_grad_ovo_eq_R : forall eps n K (Y A : mat) i k,
  code_grad_ovo Rops eps n K Y A i k = mmd_grad Rops eps n K Y A true i k.
Proof.
  intros eps n K Y A i k.
  assert (HL : code_lambda Rops eps n Y A = mm_lambda Rops eps n Y A).
  { extensionality r. extensionality c. apply code_lambda_eq_R. }
  unfold code_grad_ovo. rewrite HL.
  set (ls := fun c => bsum Rops K (fun r => mm_lambda Rops eps n Y A r c)).
  set (gl := fun i c => bsum Rops K (fun r => nmul Rops (mm_gamma Rops eps n Y A i r) (mm_lambda Rops eps n Y A r c))).
  change (mmd_grad Rops eps n K Y A true i k) with
    (2 * ((mm_gamma Rops eps n Y A i k * ls k - gl i k - mm_omega Rops eps n Y A k k * ls k / INR n
           + rsum n (fun j => mm_alpha Rops eps n Y j k * gl j k) / INR n) / pi Rops eps n Y k
          + rsum K (fun r => pi Rops eps n Y r * mm_delta_ovo Rops eps n Y A r k) / INR n) * maskT Rops eps Y i k).
  subst ls gl. cbv beta zeta. unfold rsum, ofn, n2. cbn [nadd nsub nmul ndiv nofnat n1 Rops].
  change (1 + 1) with 2. ring.
Qed.

(* generated = model over R *)
Lemma gen_mmd_score_ovo_eq_R : forall eps n K (Y A : mat), gen_mmd_score_ovo Rops eps n K Y A = mmd_score Rops eps n K Y A true.
Proof. intros. rewrite gen_mmd_score_ovo_code by apply nofnat_sq_R. apply code_score_ovo_eq_R. Qed.
Lemma gen_mmd_gscore_ovo_eq_R : forall eps n K (Y A : mat), gen_mmd_gscore_ovo Rops eps n K Y A = mmd_score Rops eps n K Y A true.
Proof. intros. rewrite gen_mmd_gscore_ovo_code by apply nofnat_sq_R. apply code_score_ovo_eq_R. Qed.
Lemma gen_mmd_grad_ova_eq_R : forall eps n K (Y A : mat) i k, (i < n)%nat -> (k < K)%nat ->
  gen_mmd_grad_ova Rops eps n K Y A i k = mmd_grad Rops eps n K Y A false i k.
Proof. intros eps n K Y A i k Hi Hk. rewrite gen_mmd_grad_ova_code by apply nofnat_sq_R. apply code_grad_ova_eq_R. exact Hi. Qed.
Lemma gen_mmd_grad_ovo_eq_R : forall eps n K (Y A : mat) i k, (i < n)%nat -> (k < K)%nat ->
  gen_mmd_grad_ovo Rops eps n K Y A i k = mmd_grad Rops eps n K Y A true i k.
Proof. intros eps n K Y A i k Hi Hk. rewrite gen_mmd_grad_ovo_code by apply nofnat_sq_R. apply code_grad_ovo_eq_R. Qed.

Lemma gen_mmd_score_eq_R : forall eps n K (Y A : mat) ovo, gen_mmd_score Rops eps n K Y A ovo = mmd_score Rops eps n K Y A ovo.
Proof.
  intros eps n K Y A ovo. destruct ovo; cbn [gen_mmd_score].
  - apply gen_mmd_score_ovo_eq_R.
  - apply gen_mmd_score_ova_eq. apply nofnat_sq_R.
Qed.
Lemma gen_mmd_grad_eq_R : forall eps n K (Y A : mat) ovo i k, (i < n)%nat -> (k < K)%nat ->
  gen_mmd_grad Rops eps n K Y A ovo i k = mmd_grad Rops eps n K Y A ovo i k.
Proof.
  intros eps n K Y A ovo i k Hi Hk. destruct ovo; cbn [gen_mmd_grad];
    [apply gen_mmd_grad_ovo_eq_R | apply gen_mmd_grad_ova_eq_R]; assumption.
Qed.

(* ---------------------------------------------------------------------------------------------------- *)
(* Part 3: C01 / C02 on the regenerated definitions *)
Lemma inner_ext_in_range_g : forall n K (G G' D : mat),
  (forall i k, (i < n)%nat -> (k < K)%nat -> G i k = G' i k) -> inner n K G D = inner n K G' D.
Proof.
  intros n K G G' D H. unfold inner. apply rsum_ext. intros i Hi. apply rsum_ext. intros k Hk.
  rewrite (H i k Hi Hk). reflexivity.
Qed.

Theorem gen_mmd_score_is_definition : forall eps n K P A (ovo : bool), 0 <= eps -> (0 < n)%nat -> interior eps n K P -> sym_on n A ->
  (if ovo return Prop then forall k k', (k < K)%nat -> (k' < K)%nat -> 0 <= qovo n A P k k'
   else forall k, (k < K)%nat -> 0 <= qova n A P k) ->
  gen_mmd_score Rops eps n K P A ovo = if ovo then gemini_ovo n K P (MMDdist n A) else gemini_ova n K P (MMDdist n A).
Proof. intros. rewrite gen_mmd_score_eq_R. apply mmd_score_is_definition; assumption. Qed.

(* the clamp np.maximum(., 0): a negative quantity under the root makes the generated score use 0 for that distance;
   stated on the whole score for the one-vs-all case with every squared distance negative (then the score is 0) *)
Theorem gen_mmd_clamped_ova_zero : forall eps n K Y A,
  (forall k, (k < K)%nat -> mm_a Rops eps n Y A k + mm_c Rops n A - 2 * mm_b Rops eps n Y A k < 0) ->
  gen_mmd_score Rops eps n K Y A false = 0.
Proof.
  intros eps n K Y A H. rewrite gen_mmd_score_eq_R.
  change (mmd_score Rops eps n K Y A false) with (rsum K (fun k => pi Rops eps n Y k * mm_delta_ova Rops eps n Y A k)).
  apply rsum_zero. intros k Hk. rewrite (proj1 (mmd_clamped_uses_zero eps n Y A) k (H k Hk)). ring.
Qed.

Theorem gen_mmd_grad_is_derivative : forall eps n K P A D (ovo : bool), 0 <= eps -> (0 < n)%nat -> interior eps n K P -> sym_on n A ->
  (if ovo return Prop then forall k k', (k < K)%nat -> (k' < K)%nat -> k <> k' -> 0 < qovo n A P k k'
   else forall k, (k < K)%nat -> 0 < qova n A P k) ->
  is_derive (fun t : R => gen_mmd_score Rops eps n K (pert P D t) A ovo) 0 (inner n K (gen_mmd_grad Rops eps n K P A ovo) D).
Proof.
  intros. apply (dR_ext (fun t : R => mmd_score Rops eps n K (pert P D t) A ovo)).
  { intros t. symmetry. apply gen_mmd_score_eq_R. }
  rewrite (inner_ext_in_range_g n K (gen_mmd_grad Rops eps n K P A ovo) (mmd_grad Rops eps n K P A ovo) D).
  { apply mmd_grad_is_derivative; assumption. }
  intros i k Hi Hk. apply gen_mmd_grad_eq_R; assumption.
Qed.

(* entries clipped at the epsilon bounds receive exactly zero gradient in the regenerated gradient *)
Theorem gen_mmd_grad_clipped_zero : forall eps n K (Y A : mat) ovo i k, (i < n)%nat -> (k < K)%nat ->
  mask Rops eps Y i k = false -> gen_mmd_grad Rops eps n K Y A ovo i k = 0.
Proof.
  intros eps n K Y A ovo i k Hi Hk Hm.
  destruct (gen_mmd_is_code R Rops eps n K Y A ovo (nofnat_sq_R n)) as [_ [_ Hg]]. rewrite Hg.
  destruct ovo; cbn [code_grad]; [unfold code_grad_ovo | unfold code_grad_ova]; unfold maskT; rewrite Hm;
    cbn [nmul n0 Rops]; apply Rmult_0_r.
Qed.
