(* C17 — definedness.  [Dops : NumOps (option R)] is partial real arithmetic: division by 0, ln of a
   non-positive number and sqrt of a negative number yield None, every operation propagates None and
   comparisons involving None are false.  Evaluating a NumOps-generic model at Dops and obtaining
   [Some x] means: no undefined real operation was performed anywhere in the computation, and (transfer)
   x is the value of the same model at Rops.
   The logical relation [rel a x := a = Some x] is preserved by every operation where it is defined
   (rel_add ... rel_div/rel_ln/rel_sqrt with their side conditions, rel_bsum); the tactic [rel] walks an
   expression with these lemmas and leaves exactly the side conditions "divisor <> 0", "0 < argument of
   ln", "0 <= argument of sqrt", stated on the Rops value.  The rest of the file discharges them for the
   GEMINI evaluators (Model/Gemini.v), the shifted softmax and the forward passes (Model/Forward.v), the
   group-lasso row operator (Model/Prox.v) and the guarded Douglas gradient (Model/Backprop.v). *)
From Coq Require Import Reals Lra Lia List Bool Arith.
From GV Require Import Common.Num Common.NumR Model.Gemini Model.Forward Model.Prox Model.Backprop Proofs.RSumLib.
Import ListNotations.
Open Scope R_scope.

(* ------------------------------------------------------------------ the partial instance *)
Definition olift2 (f : R -> R -> option R) (a b : option R) : option R :=
  match a, b with Some x, Some y => f x y | _, _ => None end.
Definition olift1 (f : R -> option R) (a : option R) : option R :=
  match a with Some x => f x | None => None end.
Definition ocmp (f : R -> R -> bool) (a b : option R) : bool :=
  match a, b with Some x, Some y => f x y | _, _ => false end.
Definition pdiv (x y : R) : option R := if Req_EM_T y 0 then None else Some (x / y).
Definition psqrt (x : R) : option R := if Rlt_dec x 0 then None else Some (sqrt x).
Definition pln (x : R) : option R := if Rlt_dec 0 x then Some (ln x) else None.

Definition Dops : NumOps (option R) := {|
  n0 := Some 0; n1 := Some 1;
  nadd := olift2 (fun x y => Some (x + y)); nsub := olift2 (fun x y => Some (x - y));
  nmul := olift2 (fun x y => Some (x * y)); ndiv := olift2 pdiv;
  nsqrt := olift1 psqrt; nln := olift1 pln; nexp := olift1 (fun x => Some (exp x));
  nabs := olift1 (fun x => Some (Rabs x));
  nltb := ocmp Rltb; nleb := ocmp Rleb; neqb := ocmp Reqb; nofnat := fun n => Some (INR n) |}.

(* ------------------------------------------------------------------ None propagates; undefined operations are None *)
Lemma Dops_strict2 (op : option R -> option R -> option R) :
  In op [nadd Dops; nsub Dops; nmul Dops; ndiv Dops] -> forall a b v, op a b = Some v -> exists x y, a = Some x /\ b = Some y.
Proof.
  intros Hop a b v H. destruct a as [x|], b as [y|];
    try (exists x, y; split; reflexivity); exfalso; simpl in Hop;
    repeat (destruct Hop as [<-|Hop]; [cbn in H; discriminate|]); exact Hop.
Qed.
Lemma Dops_strict1 (op : option R -> option R) :
  In op [nsqrt Dops; nln Dops; nexp Dops; nabs Dops] -> forall a v, op a = Some v -> exists x, a = Some x.
Proof.
  intros Hop a v H. destruct a as [x|]; [exists x; reflexivity|]. exfalso. simpl in Hop.
  repeat (destruct Hop as [<-|Hop]; [cbn in H; discriminate|]). exact Hop.
Qed.
Lemma Dops_cmp_none (c : option R -> option R -> bool) : In c [nltb Dops; nleb Dops; neqb Dops] ->
  forall a, c None a = false /\ c a None = false.
Proof.
  intros Hc a. simpl in Hc. repeat (destruct Hc as [<-|Hc]; [split; destruct a; reflexivity|]). contradiction.
Qed.
Lemma Dops_div_inv a b v : ndiv Dops a b = Some v -> exists x y, a = Some x /\ b = Some y /\ y <> 0 /\ v = x / y.
Proof.
  destruct a as [x|], b as [y|]; cbn; try discriminate. unfold pdiv. destruct (Req_EM_T y 0); [discriminate|].
  intros H. injection H as <-. exists x, y. repeat split; assumption.
Qed.
Lemma Dops_ln_inv a v : nln Dops a = Some v -> exists x, a = Some x /\ 0 < x /\ v = ln x.
Proof.
  destruct a as [x|]; cbn; try discriminate. unfold pln. destruct (Rlt_dec 0 x); [|discriminate].
  intros H. injection H as <-. exists x. repeat split; assumption.
Qed.
Lemma Dops_sqrt_inv a v : nsqrt Dops a = Some v -> exists x, a = Some x /\ 0 <= x /\ v = sqrt x.
Proof.
  destruct a as [x|]; cbn; try discriminate. unfold psqrt. destruct (Rlt_dec x 0); [discriminate|].
  intros H. injection H as <-. exists x. repeat split; lra.
Qed.
Lemma Dops_div_zero a : ndiv Dops a (Some 0) = None.
Proof. destruct a; cbn; [unfold pdiv; destruct (Req_EM_T 0 0); [reflexivity | contradiction] | reflexivity]. Qed.
Lemma Dops_ln_nonpos x : x <= 0 -> nln Dops (Some x) = None.
Proof. intros H. cbn. unfold pln. destruct (Rlt_dec 0 x); [lra | reflexivity]. Qed.
Lemma Dops_sqrt_neg x : x < 0 -> nsqrt Dops (Some x) = None.
Proof. intros H. cbn. unfold psqrt. destruct (Rlt_dec x 0); [reflexivity | contradiction]. Qed.

(* ------------------------------------------------------------------ the logical relation *)
Definition rel (a : option R) (x : R) : Prop := a = Some x.
(* transfer: a Dops value that is defined is the Rops value *)
Lemma rel_eq a x : rel a x -> a = Some x. Proof. exact (fun H => H). Qed.
Lemma rel_transfer a x v : rel a x -> a = Some v -> v = x.
Proof. unfold rel. intros -> H. injection H as <-. reflexivity. Qed.

Lemma rel_n0 : rel (n0 Dops) (n0 Rops). Proof. reflexivity. Qed.
Lemma rel_n1 : rel (n1 Dops) (n1 Rops). Proof. reflexivity. Qed.
Lemma rel_ofnat m : rel (nofnat Dops m) (nofnat Rops m). Proof. reflexivity. Qed.
Lemma rel_add a b x y : rel a x -> rel b y -> rel (nadd Dops a b) (nadd Rops x y).
Proof. unfold rel. intros -> ->. reflexivity. Qed.
Lemma rel_sub a b x y : rel a x -> rel b y -> rel (nsub Dops a b) (nsub Rops x y).
Proof. unfold rel. intros -> ->. reflexivity. Qed.
Lemma rel_mul a b x y : rel a x -> rel b y -> rel (nmul Dops a b) (nmul Rops x y).
Proof. unfold rel. intros -> ->. reflexivity. Qed.
Lemma rel_div a b x y : rel a x -> rel b y -> y <> 0 -> rel (ndiv Dops a b) (ndiv Rops x y).
Proof. unfold rel. intros -> -> H. cbn. unfold pdiv. destruct (Req_EM_T y 0); [contradiction | reflexivity]. Qed.
Lemma rel_sqrt a x : rel a x -> 0 <= x -> rel (nsqrt Dops a) (nsqrt Rops x).
Proof. unfold rel. intros -> H. cbn. unfold psqrt. destruct (Rlt_dec x 0); [lra | reflexivity]. Qed.
Lemma rel_ln a x : rel a x -> 0 < x -> rel (nln Dops a) (nln Rops x).
Proof. unfold rel. intros -> H. cbn. unfold pln. destruct (Rlt_dec 0 x); [reflexivity | contradiction]. Qed.
Lemma rel_exp a x : rel a x -> rel (nexp Dops a) (nexp Rops x).
Proof. unfold rel. intros ->. reflexivity. Qed.
Lemma rel_abs a x : rel a x -> rel (nabs Dops a) (nabs Rops x).
Proof. unfold rel. intros ->. reflexivity. Qed.
Lemma rel_ltb a b x y : rel a x -> rel b y -> nltb Dops a b = nltb Rops x y.
Proof. unfold rel. intros -> ->. reflexivity. Qed.
Lemma rel_leb a b x y : rel a x -> rel b y -> nleb Dops a b = nleb Rops x y.
Proof. unfold rel. intros -> ->. reflexivity. Qed.
Lemma rel_eqb a b x y : rel a x -> rel b y -> neqb Dops a b = neqb Rops x y.
Proof. unfold rel. intros -> ->. reflexivity. Qed.
Lemma rel_bsum m f g : (forall i, (i < m)%nat -> rel (f i) (g i)) -> rel (bsum Dops m f) (bsum Rops m g).
Proof.
  induction m as [|m IH]; intros H; [reflexivity|]. cbn [bsum].
  apply rel_add; [apply IH; intros i Hi; apply H; lia | apply H; lia].
Qed.
(* derived operations of Common/Num.v *)
Lemma rel_nmax a b x y : rel a x -> rel b y -> rel (nmax Dops a b) (nmax Rops x y).
Proof. intros Ha Hb. unfold nmax. rewrite (rel_ltb _ _ _ _ Ha Hb). destruct (nltb Rops x y); assumption. Qed.
Lemma rel_nmin a b x y : rel a x -> rel b y -> rel (nmin Dops a b) (nmin Rops x y).
Proof. intros Ha Hb. unfold nmin. rewrite (rel_ltb _ _ _ _ Hb Ha). destruct (nltb Rops y x); assumption. Qed.
Lemma rel_nneg a x : rel a x -> rel (nneg Dops a) (nneg Rops x).
Proof. intros Ha. unfold nneg. apply rel_sub; [apply rel_n0 | exact Ha]. Qed.
Lemma rel_n2 : rel (n2 Dops) (n2 Rops). Proof. reflexivity. Qed.
Lemma rel_nclip lo hi a l h x : rel lo l -> rel hi h -> rel a x -> rel (nclip Dops lo hi a) (nclip Rops l h x).
Proof. intros Hl Hh Ha. unfold nclip. apply rel_nmin; [apply rel_nmax|]; assumption. Qed.
Lemma rel_nsign a x : rel a x -> rel (nsign Dops a) (nsign Rops x).
Proof.
  intros Ha. unfold nsign. rewrite (rel_ltb _ _ _ _ rel_n0 Ha), (rel_ltb _ _ _ _ Ha rel_n0).
  destruct (nltb Rops (n0 Rops) x); [apply rel_n1|]. destruct (nltb Rops x (n0 Rops)); [apply rel_nneg, rel_n1 | apply rel_n0].
Qed.
Lemma rel_relu a x : rel a x -> rel (relu Dops a) (relu Rops x).
Proof. intros Ha. unfold relu. apply rel_nmax; [exact Ha | apply rel_n0]. Qed.

(* facts about the Rops side used by the side conditions *)
Lemma Rops_n2 : n2 Rops = 2. Proof. unfold n2. cbn. lra. Qed.
Lemma nmax0_nonneg x : 0 <= nmax Rops x (n0 Rops).
Proof. unfold nmax. cbn. unfold Rltb. destruct (Rlt_dec x 0); lra. Qed.
Lemma Reqb_false_neq x y : Reqb x y = false -> x <> y.
Proof. unfold Reqb. destruct (Req_EM_T x y); [discriminate | intros _; assumption]. Qed.
Lemma Reqb_true_eq x y : Reqb x y = true -> x = y.
Proof. unfold Reqb. destruct (Req_EM_T x y); [intros _; assumption | discriminate]. Qed.
Lemma rsum_ge_term m (f : nat -> R) j : (forall i, (i < m)%nat -> 0 <= f i) -> (j < m)%nat -> f j <= rsum m f.
Proof.
  induction m as [|m IH]; intros Hf Hj; [lia|]. rewrite rsum_S.
  assert (H0 : 0 <= rsum m f) by (apply rsum_nonneg; intros; apply Hf; lia).
  destruct (Nat.eq_dec j m) as [->|Hne]; [lra|].
  assert (f j <= rsum m f) by (apply IH; [intros; apply Hf; lia | lia]). specialize (Hf m ltac:(lia)). lra.
Qed.

(* ------------------------------------------------------------------ the expression walker *)
Ltac rel_core :=
  lazymatch goal with
  | |- rel (Some _) _ => reflexivity
  | |- rel (n0 Dops) _ => apply rel_n0
  | |- rel (n1 Dops) _ => apply rel_n1
  | |- rel (n2 Dops) _ => apply rel_n2
  | |- rel (nofnat Dops _) _ => apply rel_ofnat
  | |- rel (nadd Dops _ _) _ => apply rel_add
  | |- rel (nsub Dops _ _) _ => apply rel_sub
  | |- rel (nmul Dops _ _) _ => apply rel_mul
  | |- rel (ndiv Dops _ _) _ => apply rel_div
  | |- rel (nsqrt Dops _) _ => apply rel_sqrt
  | |- rel (nln Dops _) _ => apply rel_ln
  | |- rel (nexp Dops _) _ => apply rel_exp
  | |- rel (nabs Dops _) _ => apply rel_abs
  | |- rel (nneg Dops _) _ => apply rel_nneg
  | |- rel (nsign Dops _) _ => apply rel_nsign
  | |- rel (nmax Dops _ _) _ => apply rel_nmax
  | |- rel (nmin Dops _ _) _ => apply rel_nmin
  | |- rel (nclip Dops _ _ _) _ => apply rel_nclip
  | |- rel (relu Dops _) _ => apply rel_relu
  | |- rel (bsum Dops _ _) _ => apply rel_bsum; intros ? ?; cbv beta
  | |- rel (if ?b then _ else _) (if ?b then _ else _) => destruct b
  end.

(* ================================================================== GEMINI evaluators *)
Section GeminiDefined.
Variables (eps : R) (n K : nat) (Y : mat).
Hypothesis Heps : 0 < eps < 1.
Hypothesis Hn : (0 < n)%nat.
Notation oe := (Some eps).
Notation oY := (fun i k : nat => Some (Y i k)).

Lemma INRn_pos : 0 < INR n. Proof. apply lt_0_INR. exact Hn. Qed.
Lemma ofn_pos : 0 < ofn Rops n. Proof. exact INRn_pos. Qed.
Lemma rel_ofn : rel (ofn Dops n) (ofn Rops n). Proof. reflexivity. Qed.
Lemma rel_half : rel (half Dops) (half Rops).
Proof. unfold half. apply rel_div; [apply rel_n1 | apply rel_n2 | rewrite Rops_n2; lra]. Qed.
Lemma half_val : half Rops = / 2. Proof. unfold half. rewrite Rops_n2. cbn. lra. Qed.
Lemma rel_two : rel (two Dops) (two Rops). Proof. reflexivity. Qed.

(* the clip keeps every prediction inside [min(eps,1-eps), ...], in particular strictly positive,
   whatever the input (closed simplex, one-hot rows, even entries outside [0,1]) *)
Lemma rel_P i k : rel (P Dops oe oY i k) (P Rops eps Y i k).
Proof. unfold P. apply rel_nclip; [reflexivity | apply rel_sub; reflexivity | reflexivity]. Qed.
Lemma P_pos i k : 0 < P Rops eps Y i k.
Proof.
  unfold P, nclip, nmin, nmax. cbn. unfold Rltb.
  destruct (Rlt_dec (Y i k) eps); destruct (Rlt_dec _ _); lra.
Qed.
(* with eps <= 1/2 the clipped value lies in [eps, 1 - eps] *)
Lemma P_bounds i k : eps <= 1 / 2 -> eps <= P Rops eps Y i k <= 1 - eps.
Proof.
  intros H. unfold P, nclip, nmin, nmax. cbn. unfold Rltb.
  destruct (Rlt_dec (Y i k) eps); destruct (Rlt_dec _ _); lra.
Qed.
Lemma rel_mean f g : (forall i, (i < n)%nat -> rel (f i) (g i)) -> rel (mean Dops n f) (mean Rops n g).
Proof. intros H. unfold mean. apply rel_div; [apply rel_bsum; exact H | apply rel_ofn | apply Rgt_not_eq, ofn_pos]. Qed.
Lemma mean_pos g : (forall i, (i < n)%nat -> 0 < g i) -> 0 < mean Rops n g.
Proof. intros H. unfold mean. cbn. apply Rdiv_lt_0_compat; [apply (rsum_pos n g Hn H) | apply INRn_pos]. Qed.
Lemma mean_ge g c : (forall i, (i < n)%nat -> c <= g i) -> c <= mean Rops n g.
Proof.
  intros H. unfold mean. cbn. pose proof INRn_pos as Hp.
  assert (Hs : INR n * c <= rsum n g). { rewrite <- rsum_const. apply rsum_le. exact H. }
  unfold rsum in Hs. unfold ofn. cbn. apply Rmult_le_reg_r with (INR n); [exact Hp|]. unfold Rdiv. rewrite Rmult_assoc, Rinv_l by lra. lra.
Qed.
Lemma rel_pi k : rel (pi Dops oe n oY k) (pi Rops eps n Y k).
Proof. unfold pi. apply rel_mean. intros i _. apply rel_P. Qed.
Lemma pi_pos k : 0 < pi Rops eps n Y k.
Proof. unfold pi. apply mean_pos. intros i _. apply P_pos. Qed.
Lemma pi_ge_eps k : eps <= 1 / 2 -> eps <= pi Rops eps n Y k.
Proof. intros H. unfold pi. apply mean_ge. intros i _. apply P_bounds. exact H. Qed.
Lemma rel_maskT i k : rel (maskT Dops oe oY i k) (maskT Rops eps Y i k).
Proof.
  unfold maskT, mask.
  assert (H1 : nltb Dops oe (Some (Y i k)) = nltb Rops eps (Y i k)) by reflexivity.
  assert (H2 : nltb Dops (Some (Y i k)) (nsub Dops (n1 Dops) oe) = nltb Rops (Y i k) (nsub Rops (n1 Rops) eps)) by reflexivity.
  rewrite H1, H2. destruct (_ && _); reflexivity.
Qed.
Lemma rel_he_cwe i k : rel (he_cwe Dops oe n oY i k) (he_cwe Rops eps n Y i k).
Proof.
  unfold he_cwe. apply rel_sqrt; [apply rel_mul; [apply rel_P | apply rel_pi]|].
  cbn. apply Rlt_le, Rmult_lt_0_compat; [apply P_pos | apply pi_pos].
Qed.
Lemma he_cwe_pos i k : 0 < he_cwe Rops eps n Y i k.
Proof. unfold he_cwe. cbn. apply sqrt_lt_R0, Rmult_lt_0_compat; [apply P_pos | apply pi_pos]. Qed.
Lemma rel_chi_cwe i k : rel (chi_cwe Dops oe n oY i k) (chi_cwe Rops eps n Y i k).
Proof. unfold chi_cwe. apply rel_div; [apply rel_P | apply rel_pi | apply Rgt_not_eq, pi_pos]. Qed.
Lemma chi_cwe_pos i k : 0 < chi_cwe Rops eps n Y i k.
Proof. unfold chi_cwe. cbn. apply Rdiv_lt_0_compat; [apply P_pos | apply pi_pos]. Qed.

(* side conditions: products / quotients of the positive atoms *)
Ltac pos :=
  lazymatch goal with
  | |- 0 < nmul Rops ?a ?b => apply (Rmult_lt_0_compat a b); pos
  | |- 0 < ndiv Rops ?a ?b => apply (Rdiv_lt_0_compat a b); pos
  | |- 0 < ofn Rops n => apply ofn_pos
  | |- 0 < P Rops eps Y _ _ => apply P_pos
  | |- 0 < pi Rops eps n Y _ => apply pi_pos
  | |- 0 < he_cwe Rops eps n Y _ _ => apply he_cwe_pos
  | |- 0 < chi_cwe Rops eps n Y _ _ => apply chi_cwe_pos
  end.
Ltac side :=
  lazymatch goal with
  | |- _ <> 0 => apply Rgt_not_eq; unfold Rgt; pos
  | |- 0 < _ => pos
  | |- 0 <= nmax Rops _ (n0 Rops) => apply nmax0_nonneg
  | |- 0 <= _ => apply Rlt_le; pos
  end.
Ltac rel1 :=
  lazymatch goal with
  | |- rel (P Dops _ _ _ _) _ => apply rel_P
  | |- rel (pi Dops _ _ _ _) _ => apply rel_pi
  | |- rel (mean Dops _ _) _ => apply rel_mean; intros ? ?; cbv beta
  | |- rel (maskT Dops _ _ _ _) _ => apply rel_maskT
  | |- rel (half Dops) _ => apply rel_half
  | |- rel (two Dops) _ => apply rel_two
  | |- rel (ofn Dops _) _ => apply rel_ofn
  | |- rel (he_cwe Dops _ _ _ _ _) _ => apply rel_he_cwe
  | |- rel (chi_cwe Dops _ _ _ _ _) _ => apply rel_chi_cwe
  | |- _ => rel_core
  end.
Ltac rels := cbv beta zeta; repeat rel1.

(* ---------------- KL ---------------- *)
Lemma kl_defined ovo :
  rel (kl_score Dops oe n K oY ovo) (kl_score Rops eps n K Y ovo) /\
  forall i k, rel (kl_grad Dops oe n oY ovo i k) (kl_grad Rops eps n Y ovo i k).
Proof.
  split; [|intros i k]; destruct ovo; unfold kl_score, kl_grad, kl_pred_entropy, kl_cluster_entropy; rels; side.
Qed.

(* ---------------- TV ---------------- *)
Lemma tv_defined ovo :
  rel (tv_score Dops oe n K oY ovo) (tv_score Rops eps n K Y ovo) /\
  forall i k, rel (tv_grad Dops oe n K oY ovo i k) (tv_grad Rops eps n K Y ovo i k).
Proof.
  split; [|intros i k]; destruct ovo; unfold tv_score, tv_grad, tv_diff_ova, tv_diff_ovo; rels; side.
Qed.

(* ---------------- Hellinger ---------------- *)
Lemma rel_he_est0 i : rel (he_est0 Dops oe n K oY i) (he_est0 Rops eps n K Y i).
Proof. unfold he_est0. rels. Qed.
Lemma he_est_true_nonneg i : 0 <= he_est Rops eps n K Y true i.
Proof. unfold he_est. cbn. apply Rle_0_sqr. Qed.
Lemma rel_he_est ovo i : rel (he_est Dops oe n K oY ovo i) (he_est Rops eps n K Y ovo i).
Proof. unfold he_est. destruct ovo; [apply rel_mul|]; apply rel_he_est0. Qed.
Lemma he_defined ovo :
  rel (he_score Dops oe n K oY ovo) (he_score Rops eps n K Y ovo) /\
  forall i k, rel (he_grad Dops oe n K oY ovo i k) (he_grad Rops eps n K Y ovo i k).
Proof.
  split; [|intros i k]; destruct ovo; unfold he_score, he_grad; cbv beta zeta;
    repeat first [apply rel_he_est | apply he_est_true_nonneg | rel1]; side.
Qed.

(* ---------------- chi-square ---------------- *)
Lemma chi_defined ovo :
  rel (chi_score Dops oe n K oY ovo) (chi_score Rops eps n K Y ovo) /\
  forall i k, rel (chi_grad Dops oe n K oY ovo i k) (chi_grad Rops eps n K Y ovo i k).
Proof.
  split; [|intros i k]; destruct ovo; unfold chi_score, chi_grad, chi_alpha, chi_beta; rels; side.
Qed.

(* ---------------- MMD: any kernel matrix (not necessarily PSD, possibly zero) ---------------- *)
Variable A : mat.
Notation oA := (fun i j : nat => Some (A i j)).
Lemma rel_nk i j : rel (nk Dops n oA i j) (nk Rops n A i j).
Proof. unfold nk. rels. side. Qed.
Lemma rel_alpha i k : rel (mm_alpha Dops oe n oY i k) (mm_alpha Rops eps n Y i k).
Proof. unfold mm_alpha. rels. side. Qed.
Lemma rel_gamma i k : rel (mm_gamma Dops oe n oY oA i k) (mm_gamma Rops eps n Y A i k).
Proof. unfold mm_gamma. rels; first [apply rel_nk | apply rel_alpha]. Qed.
Lemma rel_omega k k' : rel (mm_omega Dops oe n oY oA k k') (mm_omega Rops eps n Y A k k').
Proof. unfold mm_omega. rels; first [apply rel_gamma | apply rel_alpha]. Qed.
(* the argument of sqrt is max(., 0) *)
Lemma rel_delta_ova k : rel (mm_delta_ova Dops oe n oY oA k) (mm_delta_ova Rops eps n Y A k).
Proof.
  unfold mm_delta_ova, mm_a, mm_b, mm_c.
  cbv beta zeta; repeat first [apply rel_gamma | apply rel_alpha | apply rel_nk | apply nmax0_nonneg | rel1].
Qed.
Lemma rel_delta_ovo k k' : rel (mm_delta_ovo Dops oe n oY oA k k') (mm_delta_ovo Rops eps n Y A k k').
Proof.
  unfold mm_delta_ovo.
  cbv beta zeta; repeat first [apply rel_omega | apply nmax0_nonneg | rel1].
Qed.
(* the division by delta happens only under the mask delta <> 0 *)
Lemma rel_lambda k k' : rel (mm_lambda Dops oe n oY oA k k') (mm_lambda Rops eps n Y A k k').
Proof.
  unfold mm_lambda. destruct (Nat.eqb k k'); [reflexivity|].
  rewrite (rel_eqb _ _ _ _ (rel_delta_ovo k k') rel_n0).
  destruct (neqb Rops (mm_delta_ovo Rops eps n Y A k k') (n0 Rops)) eqn:E; [reflexivity|].
  apply rel_div; [apply rel_mul; apply rel_pi | apply rel_delta_ovo | apply (Reqb_false_neq _ _ E)].
Qed.
Lemma mmd_defined ovo :
  rel (mmd_score Dops oe n K oY oA ovo) (mmd_score Rops eps n K Y A ovo) /\
  forall i k, rel (mmd_grad Dops oe n K oY oA ovo i k) (mmd_grad Rops eps n K Y A ovo i k).
Proof.
  split; [|intros i k]; destruct ovo; unfold mmd_score, mmd_grad.
  - cbv beta zeta; repeat first [apply rel_delta_ovo | rel1].
  - cbv beta zeta; repeat first [apply rel_delta_ova | rel1].
  - cbv beta zeta;
      repeat first [apply rel_delta_ovo | apply rel_lambda | apply rel_gamma | apply rel_omega | apply rel_alpha | rel1]; side.
  - cbv beta zeta. apply rel_mul; [|apply rel_maskT].
    rewrite (rel_eqb _ _ _ _ (rel_delta_ova k) rel_n0).
    destruct (neqb Rops (mm_delta_ova Rops eps n Y A k) (n0 Rops)) eqn:E; [reflexivity|].
    apply rel_div; [| apply rel_delta_ova | apply (Reqb_false_neq _ _ E)].
    repeat first [apply rel_nk | apply rel_alpha | rel1]; side.
Qed.

(* ---------------- Wasserstein: relative to finite oracle values (ot.emd2 is not modelled) ---------------- *)
Variables (emd_ova : nat -> R) (u_ova : nat -> nat -> R) (emd_ovo : nat -> nat -> R) (u_ovo v_ovo : nat -> nat -> nat -> R).
Notation oe1 := (fun k : nat => Some (emd_ova k)).
Notation ou1 := (fun k i : nat => Some (u_ova k i)).
Notation oe2 := (fun a b : nat => Some (emd_ovo a b)).
Notation ou2 := (fun a b i : nat => Some (u_ovo a b i)).
Notation ov2 := (fun a b i : nat => Some (v_ovo a b i)).
Lemma rel_ws_dist a b : rel (ws_dist Dops oe2 a b) (ws_dist Rops emd_ovo a b).
Proof. unfold ws_dist. destruct (Nat.ltb a b); [reflexivity|]. destruct (Nat.ltb b a); reflexivity. Qed.
Lemma ws_defined ovo :
  rel (ws_score Dops oe n K oY oe1 oe2 ovo) (ws_score Rops eps n K Y emd_ova emd_ovo ovo) /\
  (forall i k, rel (ws_grad Dops oe n K oY oe1 ou1 oe2 ou2 ov2 ovo i k) (ws_grad Rops eps n K Y emd_ova u_ova emd_ovo u_ovo v_ovo ovo i k)) /\
  (forall k i, rel (ws_wy Dops oe n oY k i) (ws_wy Rops eps n Y k i)).
Proof.
  split; [|split; [intros i k | intros k i]]; try destruct ovo; unfold ws_score, ws_grad, ws_wy, centred;
    cbv beta zeta; repeat first [apply rel_ws_dist | rel1]; side.
Qed.
End GeminiDefined.

(* ================================================================== shifted softmax and the forward passes *)
Section Softmax.
Variables (oz : nat -> option R) (z : nat -> R).
Hypothesis Hz : forall c, rel (oz c) (z c).
Lemma rel_vmax K : rel (vmax Dops K oz) (vmax Rops K z).
Proof.
  induction K as [|K IH]; [reflexivity|]. destruct K as [|K]; [apply Hz|].
  change (rel (nmax Dops (vmax Dops (S K) oz) (oz (S K))) (nmax Rops (vmax Rops (S K) z) (z (S K)))).
  apply rel_nmax; [exact IH | apply Hz].
Qed.
Lemma vmax_ge K c : (c < K)%nat -> z c <= vmax Rops K z.
Proof.
  induction K as [|K IH]; intros Hc; [lia|]. destruct K as [|K].
  - replace c with 0%nat by lia. cbn. lra.
  - change (vmax Rops (S (S K)) z) with (nmax Rops (vmax Rops (S K) z) (z (S K))).
    unfold nmax. cbn [nltb Rops]. unfold Rltb. destruct (Rlt_dec (vmax Rops (S K) z) (z (S K))) as [Hl|Hl].
    + destruct (Nat.eq_dec c (S K)) as [->|Hne]; [lra|]. assert (z c <= vmax Rops (S K) z) by (apply IH; lia). lra.
    + destruct (Nat.eq_dec c (S K)) as [->|Hne]; [lra|]. apply IH. lia.
Qed.
Lemma vmax_attained K : (0 < K)%nat -> exists c, (c < K)%nat /\ vmax Rops K z = z c.
Proof.
  induction K as [|K IH]; intros HK; [lia|]. destruct K as [|K].
  - exists 0%nat. split; [lia | reflexivity].
  - change (vmax Rops (S (S K)) z) with (nmax Rops (vmax Rops (S K) z) (z (S K))).
    unfold nmax. destruct (nltb Rops (vmax Rops (S K) z) (z (S K))).
    + exists (S K). split; [lia | reflexivity].
    + destruct (IH ltac:(lia)) as (c & Hc & E). exists c. split; [lia | exact E].
Qed.
Definition sm_den (K : nat) : R := rsum K (fun c => exp (z c - vmax Rops K z)).
Lemma softmax_args_nonpos K c : (c < K)%nat -> z c - vmax Rops K z <= 0.
Proof. intros Hc. pose proof (vmax_ge K c Hc). lra. Qed.
Lemma softmax_den_bounds K : (0 < K)%nat -> 1 <= sm_den K <= INR K.
Proof.
  intros HK. unfold sm_den. split.
  - destruct (vmax_attained K HK) as (c & Hc & E).
    apply Rle_trans with (exp (z c - vmax Rops K z)).
    + rewrite E. replace (z c - z c) with 0 by lra. rewrite exp_0. lra.
    + apply (rsum_ge_term K (fun c => exp (z c - vmax Rops K z))); [intros i _; left; apply exp_pos | exact Hc].
  - rewrite <- (Rmult_1_r (INR K)), <- rsum_const. apply rsum_le. intros i Hi.
    rewrite <- exp_0. pose proof (softmax_args_nonpos K i Hi) as H. destruct H as [H|H]; [left; apply exp_increasing; exact H | rewrite H; lra].
Qed.
Lemma rel_softmax_row K k : (0 < K)%nat -> rel (softmax_row Dops K oz k) (softmax_row Rops K z k).
Proof.
  intros HK. unfold softmax_row. cbv zeta.
  apply rel_div.
  - apply rel_exp, rel_sub; [apply Hz | apply rel_vmax].
  - apply rel_bsum. intros c _. apply rel_exp, rel_sub; [apply Hz | apply rel_vmax].
  - pose proof (softmax_den_bounds K HK) as [H _]. unfold sm_den, rsum in H. cbn [nexp nsub Rops]. lra.
Qed.
Lemma softmax_row_range K k : (0 < K)%nat -> (k < K)%nat -> 0 < softmax_row Rops K z k <= 1.
Proof.
  intros HK Hk. unfold softmax_row. cbv zeta. cbn [ndiv nexp nsub Rops].
  pose proof (softmax_den_bounds K HK) as [H1 _]. unfold sm_den, rsum in H1.
  set (den := bsum Rops K (fun c => exp (z c - vmax Rops K z))) in *.
  pose proof (exp_pos (z k - vmax Rops K z)) as Hp.
  assert (Hle : exp (z k - vmax Rops K z) <= den).
  { apply (rsum_ge_term K (fun c => exp (z c - vmax Rops K z))); [intros i _; left; apply exp_pos | exact Hk]. }
  split; [apply Rdiv_lt_0_compat; lra|].
  apply Rmult_le_reg_r with den; [lra|]. unfold Rdiv. rewrite Rmult_assoc, Rinv_l by lra. lra.
Qed.
End Softmax.

Definition olift (M : nat -> nat -> R) : nat -> nat -> option R := fun i k => Some (M i k).
Definition olift1v (v : nat -> R) : nat -> option R := fun k => Some (v k).

Lemma softmax_shifted_bounded K z : (0 < K)%nat ->
  (forall c, (c < K)%nat -> z c - vmax Rops K z <= 0) /\
  1 <= rsum K (fun c => exp (z c - vmax Rops K z)) <= INR K /\
  (forall k, softmax_row Dops K (fun c => Some (z c)) k = Some (softmax_row Rops K z k)) /\
  (forall k, (k < K)%nat -> 0 < softmax_row Rops K z k <= 1).
Proof.
  intros HK. split; [|split; [|split]].
  - intros c Hc. apply softmax_args_nonpos. exact Hc.
  - apply (softmax_den_bounds z K HK).
  - intros k. apply (rel_softmax_row (fun c => Some (z c)) z); [intros c; reflexivity | exact HK].
  - intros k Hk. apply softmax_row_range; assumption.
Qed.

(* every forward pass is a softmax of sums of products (and ReLU): defined for all real parameters and data *)
Ltac relf := cbv beta zeta; repeat first [rel_core | reflexivity].
Lemma forward_defined d h K W1 b1 W2 b2 Ws W b X i k : (0 < K)%nat ->
  linear_infer Dops d K (olift W) (olift1v b) (olift X) i k = Some (linear_infer Rops d K W b X i k) /\
  mlp_infer Dops d h K (olift W1) (olift1v b1) (olift W2) (olift1v b2) (olift X) i k
    = Some (mlp_infer Rops d h K W1 b1 W2 b2 X i k) /\
  sparse_mlp_infer Dops d h K (olift W1) (olift1v b1) (olift W2) (olift1v b2) (olift Ws) (olift X) i k
    = Some (sparse_mlp_infer Rops d h K W1 b1 W2 b2 Ws X i k) /\
  categorical_infer Dops K (olift W) i k = Some (categorical_infer Rops K W i k).
Proof.
  intros HK. unfold linear_infer, mlp_infer, sparse_mlp_infer, categorical_infer, softmax.
  repeat split; apply rel_softmax_row; try exact HK; intros c;
    unfold affine, matmul, mlp_hidden, affine, olift, olift1v; relf.
Qed.

(* ================================================================== group-lasso row operator *)
Lemma rel_sumsq w : rel (lsum Dops (map (fun x => nmul Dops x x) (map Some w))) (lsum Rops (map (fun x => nmul Rops x x) w))
  /\ 0 <= lsum Rops (map (fun x => nmul Rops x x) w).
Proof.
  induction w as [|x w [IH1 IH2]]; [split; [reflexivity | cbn; lra]|]. cbn [map lsum]. split.
  - apply rel_add; [reflexivity | exact IH1].
  - cbn [nadd nmul Rops] in *. pose proof (Rle_0_sqr x) as Hs. unfold Rsqr in Hs. lra.
Qed.
Lemma rel_norm2 w : rel (norm2 Dops (map Some w)) (norm2 Rops w).
Proof. unfold norm2. destruct (rel_sumsq w) as [H1 H2]. apply rel_sqrt; assumption. Qed.
(* np.where(W_norms == 0, 1, W_norms) is never 0: the division is defined for every row (zero rows
   included) and every alpha *)
Lemma linear_prox_row_defined w alpha :
  linear_prox_row Dops (map Some w) (Some alpha) = map Some (linear_prox_row Rops w alpha).
Proof.
  unfold linear_prox_row. cbv zeta.
  pose proof (rel_norm2 w) as Hn. set (onw := norm2 Dops (map Some w)) in *. set (nw := norm2 Rops w) in *.
  rewrite (rel_eqb _ _ _ _ Hn rel_n0).
  set (den := if neqb Rops nw (n0 Rops) then n1 Rops else nw).
  assert (Hden : rel (if neqb Rops nw (n0 Rops) then n1 Dops else onw) den /\ den <> 0).
  { unfold den. destruct (neqb Rops nw (n0 Rops)) eqn:E; split; [reflexivity | cbn; lra | exact Hn | exact (Reqb_false_neq _ _ E)]. }
  destruct Hden as [Hd Hd0].
  assert (Hf : rel (nmax Dops (nsub Dops onw (Some alpha)) (n0 Dops)) (nmax Rops (nsub Rops nw alpha) (n0 Rops))).
  { apply rel_nmax; [apply rel_sub; [exact Hn | reflexivity] | apply rel_n0]. }
  rewrite !map_map. apply map_ext. intros x.
  apply rel_div; [apply rel_mul; [exact Hf | reflexivity] | exact Hd | exact Hd0].
Qed.
Lemma linear_prox_defined W alpha :
  linear_prox Dops (map (map Some) W) (Some alpha) = map (map Some) (linear_prox Rops W alpha).
Proof. unfold linear_prox. rewrite !map_map. apply map_ext. intros w. apply linear_prox_row_defined. Qed.

(* ================================================================== guarded Douglas gradient (after the F10 repair) *)
(* softmax_grad = np.divide(s, bins, out=zeros, where=bins != 0): the only division by data; the other one is by the
   temperature, which validation keeps > 0.  Holds for every real input, memberships that are exactly 0 included. *)
Lemma douglas_cut_direction_defined n F c L K f temp S leafm bin order tau p : temp <> 0 ->
  dg_cut_direction Dops n F c L K f (Some temp) (olift S) (olift leafm) (olift bin) order (olift tau) p
  = Some (dg_cut_direction Rops n F c L K f temp S leafm bin order tau p).
Proof.
  intros Ht. apply rel_eq. unfold dg_cut_direction. cbv zeta.
  assert (Hsg : forall i m, rel (dg_softmax_grad Dops F (c + 1) L f (dg_binning_backprop Dops K (olift tau) (olift S) (olift leafm)) (olift bin) i m)
                                (dg_softmax_grad Rops F (c + 1) L f (dg_binning_backprop Rops K tau S leafm) bin i m)).
  { intros i m. unfold dg_softmax_grad. cbv zeta.
    assert (Hb : rel (olift bin i m) (bin i m)) by reflexivity.
    rewrite (rel_eqb _ _ _ _ Hb rel_n0).
    destruct (neqb Rops (bin i m) (n0 Rops)) eqn:E; [reflexivity|].
    apply rel_div; [| exact Hb | exact (Reqb_false_neq _ _ E)].
    unfold dg_binning_backprop, olift. relf. }
  unfold dg_cumsum_grad, dg_bias_grad, dg_bin_grad.
  cbv beta zeta; repeat first [apply Hsg | rel_core | reflexivity | exact Ht].
Qed.

(* ================================================================== statements as used by Props/C17.v *)
Lemma fdiv_defined eps n K (Y : mat) (ovo : bool) : 0 < eps < 1 -> (0 < n)%nat ->
  let oY := fun i k : nat => Some (Y i k) in
  (kl_score Dops (Some eps) n K oY ovo = Some (kl_score Rops eps n K Y ovo) /\
   forall i k, kl_grad Dops (Some eps) n oY ovo i k = Some (kl_grad Rops eps n Y ovo i k)) /\
  (tv_score Dops (Some eps) n K oY ovo = Some (tv_score Rops eps n K Y ovo) /\
   forall i k, tv_grad Dops (Some eps) n K oY ovo i k = Some (tv_grad Rops eps n K Y ovo i k)) /\
  (he_score Dops (Some eps) n K oY ovo = Some (he_score Rops eps n K Y ovo) /\
   forall i k, he_grad Dops (Some eps) n K oY ovo i k = Some (he_grad Rops eps n K Y ovo i k)) /\
  (chi_score Dops (Some eps) n K oY ovo = Some (chi_score Rops eps n K Y ovo) /\
   forall i k, chi_grad Dops (Some eps) n K oY ovo i k = Some (chi_grad Rops eps n K Y ovo i k)).
Proof.
  intros He Hn oY. split; [|split; [|split]].
  - exact (kl_defined eps n K Y He Hn ovo).
  - exact (tv_defined eps n K Y Hn ovo).
  - exact (he_defined eps n K Y He Hn ovo).
  - exact (chi_defined eps n K Y He Hn ovo).
Qed.
Lemma mmd_defined_all eps n K (Y A : mat) (ovo : bool) : 0 < eps < 1 -> (0 < n)%nat ->
  let oY := fun i k : nat => Some (Y i k) in let oA := fun i j : nat => Some (A i j) in
  mmd_score Dops (Some eps) n K oY oA ovo = Some (mmd_score Rops eps n K Y A ovo) /\
  forall i k, mmd_grad Dops (Some eps) n K oY oA ovo i k = Some (mmd_grad Rops eps n K Y A ovo i k).
Proof. intros He Hn oY oA. exact (mmd_defined eps n K Y He Hn A ovo). Qed.
Lemma ws_defined_all eps n K (Y : mat) emd_ova u_ova emd_ovo u_ovo v_ovo (ovo : bool) : 0 < eps < 1 -> (0 < n)%nat ->
  let oY := fun i k : nat => Some (Y i k) in
  let oe1 := fun k : nat => Some (emd_ova k) in let ou1 := fun k i : nat => Some (u_ova k i) in
  let oe2 := fun a b : nat => Some (emd_ovo a b) in
  let ou2 := fun a b i : nat => Some (u_ovo a b i) in let ov2 := fun a b i : nat => Some (v_ovo a b i) in
  ws_score Dops (Some eps) n K oY oe1 oe2 ovo = Some (ws_score Rops eps n K Y emd_ova emd_ovo ovo) /\
  (forall i k, ws_grad Dops (Some eps) n K oY oe1 ou1 oe2 ou2 ov2 ovo i k
               = Some (ws_grad Rops eps n K Y emd_ova u_ova emd_ovo u_ovo v_ovo ovo i k)) /\
  (forall k i, ws_wy Dops (Some eps) n oY k i = Some (ws_wy Rops eps n Y k i)).
Proof. intros He Hn. cbv zeta. exact (ws_defined eps n K Y He Hn emd_ova u_ova emd_ovo u_ovo v_ovo ovo). Qed.
Lemma clip_bounds eps n (Y : mat) : 0 < eps <= 1 / 2 -> (0 < n)%nat ->
  forall i k, eps <= P Rops eps Y i k <= 1 - eps /\ eps <= pi Rops eps n Y k.
Proof.
  intros [H1 H2] Hn i k. assert (He : 0 < eps < 1) by lra. split; [apply P_bounds | apply pi_ge_eps]; assumption.
Qed.
Lemma Dops_partial :
  (forall a, ndiv Dops a (Some 0) = None) /\ (forall x, x <= 0 -> nln Dops (Some x) = None) /\
  (forall x, x < 0 -> nsqrt Dops (Some x) = None) /\
  (forall a b v, ndiv Dops a b = Some v -> exists x y, a = Some x /\ b = Some y /\ y <> 0 /\ v = x / y) /\
  (forall a v, nln Dops a = Some v -> exists x, a = Some x /\ 0 < x /\ v = ln x) /\
  (forall a v, nsqrt Dops a = Some v -> exists x, a = Some x /\ 0 <= x /\ v = sqrt x) /\
  (forall op, In op [nadd Dops; nsub Dops; nmul Dops; ndiv Dops] -> forall a b v, op a b = Some v -> exists x y, a = Some x /\ b = Some y) /\
  (forall op, In op [nsqrt Dops; nln Dops; nexp Dops; nabs Dops] -> forall a v, op a = Some v -> exists x, a = Some x) /\
  (forall c, In c [nltb Dops; nleb Dops; neqb Dops] -> forall a, c None a = false /\ c a None = false).
Proof.
  split; [exact Dops_div_zero|]. split; [exact Dops_ln_nonpos|]. split; [exact Dops_sqrt_neg|].
  split; [exact Dops_div_inv|]. split; [exact Dops_ln_inv|]. split; [exact Dops_sqrt_inv|].
  split; [exact Dops_strict2|]. split; [exact Dops_strict1 | exact Dops_cmp_none].
Qed.
Lemma linear_prox_both_defined (w : list R) (W : list (list R)) alpha :
  linear_prox_row Dops (map Some w) (Some alpha) = map Some (linear_prox_row Rops w alpha) /\
  linear_prox Dops (map (map Some) W) (Some alpha) = map (map Some) (linear_prox Rops W alpha).
Proof. exact (conj (linear_prox_row_defined w alpha) (linear_prox_defined W alpha)). Qed.
