(* Static tie between the hand-written models of the gradient-trained estimators (Model/Forward.v: the `_infer`
   methods; Model/Backprop.v: the `_compute_grads` methods and the RIM / KernelRIM penalty terms) and the source:
   Gen/Models.v is regenerated on every build by translator/tr_models.py from the numpy code of
   gemclus/linear/_linear_geminis.py, mlp/_mlp_geminis.py, sparse/_mlp_sparse.py and
   nonparametric/_categorical_models.py.
   Part 1: every generated definition equals the model, for ALL number systems (any NumOps T: reals, IEEE doubles,
           option R ...), all shapes, all parameter values and ALL indices (no in-range hypothesis is needed).
           Every proof is `reflexivity`: the generated term and the model are convertible (same operations, same
           grouping; they differ only by let / definition unfolding, eta and bound-variable names).  NO equality is
           stated over R only: there is no place where the hand model is not literally the code.
           If one of these stops compiling, the code and the model no longer compute the same expression, or no
           longer READ the same things (a generated definition takes exactly what the code reads).
   Part 2: the generated pieces assembled into the records of Model/Backprop.v and composed by the call protocol of
           the fit loop (y_pred = _infer(X_batch) with retain=True, then _compute_grads(X_batch, y_pred, grads): the
           H_ read by _compute_grads is the array written by that _infer); equal to the model's step.
   Part 3: theorems of Proofs/Backprop.v (C03) and Proofs/Rowwise.v (C18) restated on the regenerated terms. *)
From Coq Require Import Reals Lra Lia List Bool Arith.
From Coquelicot Require Import Coquelicot.
From GV Require Import Common.Num Common.NumR Model.Forward Model.Mlcl Model.Backprop Model.Rowwise Gen.Models.
From GV Require Import Proofs.RSumLib Proofs.GeminiDefs Proofs.Backprop Proofs.Rowwise.

(* ---------------------------------------------------------------------------------------------------- *)
(* Part 1: generated = model, all NumOps, all indices *)
Section AllNumberSystems.
Context {T : Type} (o : NumOps T).
Local Notation Mat := (nat -> nat -> T).
Local Notation Vec := (nat -> T).

(* LinearModel (also RIM, KernelRIM on kernel rows, the sparse linear model, which inherit these methods) *)
Lemma gen_linear_infer_eq : forall d K (W : Mat) (b : Vec) (X : Mat) i k,
  gen_linear_infer o d K W b X i k = linear_infer o d K W b X i k.
Proof. intros. reflexivity. Qed.
Lemma gen_linear_grads_W_eq : forall n K (X Y G : Mat) j k,
  gen_linear_grads_W o n K X Y G j k = lW (linear_compute_grads o n K X Y G) j k.
Proof. intros. reflexivity. Qed.
Lemma gen_linear_grads_b_eq : forall n K (X Y G : Mat) k,
  gen_linear_grads_b o n K Y G k = lb (linear_compute_grads o n K X Y G) k.
Proof. intros. reflexivity. Qed.

(* MLPModel *)
Lemma gen_mlp_infer_eq : forall d h K (W1 : Mat) (b1 : Vec) (W2 : Mat) (b2 : Vec) (X : Mat) i k,
  gen_mlp_infer o d h K W1 b1 W2 b2 X i k = mlp_infer o d h K W1 b1 W2 b2 X i k.
Proof. intros. reflexivity. Qed.
(* the array `_infer(X, retain=True)` stores into self.H_ *)
Lemma gen_mlp_retained_H_eq : forall d h (W1 : Mat) (b1 : Vec) (X : Mat) i c,
  gen_mlp_retained_H o d W1 b1 X i c = mlp_hidden o d h W1 b1 X i c.
Proof. intros. reflexivity. Qed.
Lemma gen_mlp_grads_W1_eq : forall n K (W2 H X Y G : Mat) j c,
  gen_mlp_grads_W1 o n K W2 H X Y G j c = mW1 (mlp_compute_grads o n K W2 H X Y G) j c.
Proof. intros. reflexivity. Qed.
Lemma gen_mlp_grads_W2_eq : forall n K (W2 H X Y G : Mat) c k,
  gen_mlp_grads_W2 o n K H Y G c k = mW2 (mlp_compute_grads o n K W2 H X Y G) c k.
Proof. intros. reflexivity. Qed.
Lemma gen_mlp_grads_b1_eq : forall n K (W2 H X Y G : Mat) c,
  gen_mlp_grads_b1 o n K W2 H Y G c = mb1 (mlp_compute_grads o n K W2 H X Y G) c.
Proof. intros. reflexivity. Qed.
Lemma gen_mlp_grads_b2_eq : forall n K (W2 H X Y G : Mat) k,
  gen_mlp_grads_b2 o n K Y G k = mb2 (mlp_compute_grads o n K W2 H X Y G) k.
Proof. intros. reflexivity. Qed.

(* SparseMLPModel (skip connection) *)
Lemma gen_sparse_mlp_infer_eq : forall d h K (W1 : Mat) (b1 : Vec) (W2 : Mat) (b2 : Vec) (Ws : Mat) (X : Mat) i k,
  gen_sparse_mlp_infer o d h K W1 b1 W2 b2 Ws X i k = sparse_mlp_infer o d h K W1 b1 W2 b2 Ws X i k.
Proof. intros. reflexivity. Qed.
Lemma gen_sparse_mlp_retained_H_eq : forall d h (W1 : Mat) (b1 : Vec) (X : Mat) i c,
  gen_sparse_mlp_retained_H o d W1 b1 X i c = mlp_hidden o d h W1 b1 X i c.
Proof. intros. reflexivity. Qed.
Lemma gen_sparse_mlp_grads_W1_eq : forall n K (W2 H X Y G : Mat) j c,
  gen_sparse_mlp_grads_W1 o n K W2 H X Y G j c = sW1 (sparse_mlp_compute_grads o n K W2 H X Y G) j c.
Proof. intros. reflexivity. Qed.
Lemma gen_sparse_mlp_grads_W2_eq : forall n K (W2 H X Y G : Mat) c k,
  gen_sparse_mlp_grads_W2 o n K H Y G c k = sW2 (sparse_mlp_compute_grads o n K W2 H X Y G) c k.
Proof. intros. reflexivity. Qed.
Lemma gen_sparse_mlp_grads_Wskip_eq : forall n K (W2 H X Y G : Mat) j k,
  gen_sparse_mlp_grads_Wskip o n K X Y G j k = sWskip (sparse_mlp_compute_grads o n K W2 H X Y G) j k.
Proof. intros. reflexivity. Qed.
Lemma gen_sparse_mlp_grads_b1_eq : forall n K (W2 H X Y G : Mat) c,
  gen_sparse_mlp_grads_b1 o n K W2 H Y G c = sb1 (sparse_mlp_compute_grads o n K W2 H X Y G) c.
Proof. intros. reflexivity. Qed.
Lemma gen_sparse_mlp_grads_b2_eq : forall n K (W2 H X Y G : Mat) k,
  gen_sparse_mlp_grads_b2 o n K Y G k = sb2 (sparse_mlp_compute_grads o n K W2 H X Y G) k.
Proof. intros. reflexivity. Qed.

(* CategoricalModel *)
Lemma gen_categorical_infer_eq : forall K (L : Mat) i k,
  gen_categorical_infer o K L i k = categorical_infer o K L i k.
Proof. intros. reflexivity. Qed.
Lemma gen_categorical_grads_eq : forall K (Y G : Mat) i k,
  gen_categorical_grads o K Y G i k = categorical_compute_grads o K Y G i k.
Proof. intros. reflexivity. Qed.

(* RIM._update_weights: gradients[0] += self.reg * 2 * self.W_, then the list goes to optimiser_.update_params *)
Lemma gen_rim_penalty_term_eq : forall reg (W : Mat) j k,
  gen_rim_penalty_term o W reg j k = nmul o (nmul o reg (n2 o)) (W j k).
Proof. intros. reflexivity. Qed.
Lemma gen_rim_update_grads_W_is_sum : forall reg (W GW : Mat) j k,
  gen_rim_update_grads_W o W reg GW j k = nadd o (GW j k) (gen_rim_penalty_term o W reg j k).
Proof. intros. reflexivity. Qed.
Lemma gen_rim_update_grads_W_eq : forall reg (p g : @LinP T) j k,
  gen_rim_update_grads_W o (lW p) reg (lW g) j k = lW (rim_update_grads o reg p g) j k.
Proof. intros. reflexivity. Qed.
Lemma gen_rim_update_grads_b_eq : forall reg (p g : @LinP T) k,
  gen_rim_update_grads_b o (lb g) k = lb (rim_update_grads o reg p g) k.
Proof. intros. reflexivity. Qed.

(* KernelRIM._compute_grads: super()._compute_grads, then base_grads[0] += 2 * self.reg * np.dot(training_kernel_, W_) *)
Lemma gen_kernel_rim_penalty_term_eq : forall nt reg (Kt W : Mat) l k,
  gen_kernel_rim_penalty_term o nt W Kt reg l k = nmul o (nmul o (n2 o) reg) (matmul o nt Kt W l k).
Proof. intros. reflexivity. Qed.
Lemma gen_kernel_rim_grads_W_is_sum : forall n nt K reg (Kt W X Y G : Mat) l k,
  gen_kernel_rim_grads_W o n nt K W Kt reg X Y G l k
  = nadd o (gen_linear_grads_W o n K X Y G l k) (gen_kernel_rim_penalty_term o nt W Kt reg l k).
Proof. intros. reflexivity. Qed.
Lemma gen_kernel_rim_grads_W_eq : forall n nt K reg (Kt : Mat) (p : @LinP T) (X Y G : Mat) l k,
  gen_kernel_rim_grads_W o n nt K (lW p) Kt reg X Y G l k = lW (kernel_rim_compute_grads o n nt K reg Kt p X Y G) l k.
Proof. intros. reflexivity. Qed.
Lemma gen_kernel_rim_grads_b_eq : forall n nt K reg (Kt : Mat) (p : @LinP T) (X Y G : Mat) k,
  gen_kernel_rim_grads_b o n K Y G k = lb (kernel_rim_compute_grads o n nt K reg Kt p X Y G) k.
Proof. intros. reflexivity. Qed.

(* ---------------------------------------------------------------------------------------------------- *)
(* Part 2: the generated pieces as the records of Model/Backprop.v (order of _get_weights), the forward passes
   on a parameter record, and one step of the fit loop by the call protocol *)
Definition gen_linear_compute_grads (n K : nat) (X Y G : Mat) : @LinP T :=
  {| lW := gen_linear_grads_W o n K X Y G; lb := gen_linear_grads_b o n K Y G |}.
Definition gen_linear_infer_p (d K : nat) (p : @LinP T) (X : Mat) : Mat := gen_linear_infer o d K (lW p) (lb p) X.
Definition gen_linear_step_grads (n d K : nat) (p : @LinP T) (X G : Mat) : @LinP T :=
  gen_linear_compute_grads n K X (gen_linear_infer_p d K p X) G.
Definition gen_rim_update_grads (reg : T) (p g : @LinP T) : @LinP T :=
  {| lW := gen_rim_update_grads_W o (lW p) reg (lW g); lb := gen_rim_update_grads_b o (lb g) |}.
Definition gen_rim_step_grads (n d K : nat) (reg : T) (p : @LinP T) (X G : Mat) : @LinP T :=
  gen_rim_update_grads reg p (gen_linear_step_grads n d K p X G).
Definition gen_kernel_rim_compute_grads (n nt K : nat) (reg : T) (Kt : Mat) (p : @LinP T) (X Y G : Mat) : @LinP T :=
  {| lW := gen_kernel_rim_grads_W o n nt K (lW p) Kt reg X Y G; lb := gen_kernel_rim_grads_b o n K Y G |}.
Definition gen_kernel_rim_step_grads (n nt K : nat) (reg : T) (Kt : Mat) (p : @LinP T) (X G : Mat) : @LinP T :=
  gen_kernel_rim_compute_grads n nt K reg Kt p X (gen_linear_infer_p nt K p X) G.

Definition gen_mlp_compute_grads (n K : nat) (W2 H X Y G : Mat) : @MlpP T :=
  {| mW1 := gen_mlp_grads_W1 o n K W2 H X Y G; mW2 := gen_mlp_grads_W2 o n K H Y G;
     mb1 := gen_mlp_grads_b1 o n K W2 H Y G; mb2 := gen_mlp_grads_b2 o n K Y G |}.
Definition gen_mlp_infer_p (d h K : nat) (p : @MlpP T) (X : Mat) : Mat :=
  gen_mlp_infer o d h K (mW1 p) (mb1 p) (mW2 p) (mb2 p) X.
(* self.H_ is what the preceding _infer(X, retain=True) stored; self.W2_ is the current parameter *)
Definition gen_mlp_step_grads (n d h K : nat) (p : @MlpP T) (X G : Mat) : @MlpP T :=
  gen_mlp_compute_grads n K (mW2 p) (gen_mlp_retained_H o d (mW1 p) (mb1 p) X) X (gen_mlp_infer_p d h K p X) G.

Definition gen_sparse_mlp_compute_grads (n K : nat) (W2 H X Y G : Mat) : @SMlpP T :=
  {| sW1 := gen_sparse_mlp_grads_W1 o n K W2 H X Y G; sW2 := gen_sparse_mlp_grads_W2 o n K H Y G;
     sWskip := gen_sparse_mlp_grads_Wskip o n K X Y G;
     sb1 := gen_sparse_mlp_grads_b1 o n K W2 H Y G; sb2 := gen_sparse_mlp_grads_b2 o n K Y G |}.
Definition gen_sparse_mlp_infer_p (d h K : nat) (p : @SMlpP T) (X : Mat) : Mat :=
  gen_sparse_mlp_infer o d h K (sW1 p) (sb1 p) (sW2 p) (sb2 p) (sWskip p) X.
Definition gen_sparse_mlp_step_grads (n d h K : nat) (p : @SMlpP T) (X G : Mat) : @SMlpP T :=
  gen_sparse_mlp_compute_grads n K (sW2 p) (gen_sparse_mlp_retained_H o d (sW1 p) (sb1 p) X) X (gen_sparse_mlp_infer_p d h K p X) G.

Definition gen_categorical_step_grads (K : nat) (L G : Mat) : Mat :=
  gen_categorical_grads o K (gen_categorical_infer o K L) G.

Lemma gen_linear_compute_grads_eq : forall n K X Y G, gen_linear_compute_grads n K X Y G = linear_compute_grads o n K X Y G.
Proof. intros. reflexivity. Qed.
Lemma gen_linear_infer_p_eq : forall d K p X, gen_linear_infer_p d K p X = linear_infer_p o d K p X.
Proof. intros. reflexivity. Qed.
Lemma gen_linear_step_grads_eq : forall n d K p X G, gen_linear_step_grads n d K p X G = linear_step_grads o n d K p X G.
Proof. intros. reflexivity. Qed.
Lemma gen_rim_update_grads_eq : forall reg p g, gen_rim_update_grads reg p g = rim_update_grads o reg p g.
Proof. intros. reflexivity. Qed.
Lemma gen_rim_step_grads_eq : forall n d K reg p X G, gen_rim_step_grads n d K reg p X G = rim_step_grads o n d K reg p X G.
Proof. intros. reflexivity. Qed.
Lemma gen_kernel_rim_compute_grads_eq : forall n nt K reg Kt p X Y G,
  gen_kernel_rim_compute_grads n nt K reg Kt p X Y G = kernel_rim_compute_grads o n nt K reg Kt p X Y G.
Proof. intros. reflexivity. Qed.
Lemma gen_kernel_rim_step_grads_eq : forall n nt K reg Kt p X G,
  gen_kernel_rim_step_grads n nt K reg Kt p X G = kernel_rim_step_grads o n nt K reg Kt p X G.
Proof. intros. reflexivity. Qed.
Lemma gen_mlp_compute_grads_eq : forall n K W2 H X Y G, gen_mlp_compute_grads n K W2 H X Y G = mlp_compute_grads o n K W2 H X Y G.
Proof. intros. reflexivity. Qed.
Lemma gen_mlp_infer_p_eq : forall d h K p X, gen_mlp_infer_p d h K p X = mlp_infer_p o d h K p X.
Proof. intros. reflexivity. Qed.
Lemma gen_mlp_step_grads_eq : forall n d h K p X G, gen_mlp_step_grads n d h K p X G = mlp_step_grads o n d h K p X G.
Proof. intros. reflexivity. Qed.
Lemma gen_sparse_mlp_compute_grads_eq : forall n K W2 H X Y G,
  gen_sparse_mlp_compute_grads n K W2 H X Y G = sparse_mlp_compute_grads o n K W2 H X Y G.
Proof. intros. reflexivity. Qed.
Lemma gen_sparse_mlp_infer_p_eq : forall d h K p X, gen_sparse_mlp_infer_p d h K p X = sparse_mlp_infer_p o d h K p X.
Proof. intros. reflexivity. Qed.
Lemma gen_sparse_mlp_step_grads_eq : forall n d h K p X G,
  gen_sparse_mlp_step_grads n d h K p X G = sparse_mlp_step_grads o n d h K p X G.
Proof. intros. reflexivity. Qed.
Lemma gen_categorical_step_grads_eq : forall K L G, gen_categorical_step_grads K L G = categorical_step_grads o K L G.
Proof. intros. reflexivity. Qed.

(* ---------------------------------------------------------------------------------------------------- *)
(* Part 3a (C18, every number system): the regenerated forward passes are row-wise *)
Lemma gen_linear_rowwise : forall d K (W : Mat) (b : Vec) (r : nat -> nat) (X : Mat) i k,
  gen_linear_infer o d K W b (select r X) i k = select r (gen_linear_infer o d K W b X) i k.
Proof. intros. unfold select at 2. rewrite !gen_linear_infer_eq. apply (linear_rowwise o). Qed.
Lemma gen_mlp_rowwise : forall d h K (W1 : Mat) (b1 : Vec) (W2 : Mat) (b2 : Vec) (r : nat -> nat) (X : Mat) i k,
  gen_mlp_infer o d h K W1 b1 W2 b2 (select r X) i k = select r (gen_mlp_infer o d h K W1 b1 W2 b2 X) i k.
Proof. intros. unfold select at 2. rewrite !gen_mlp_infer_eq. apply (mlp_rowwise o). Qed.
Lemma gen_sparse_mlp_rowwise : forall d h K (W1 : Mat) (b1 : Vec) (W2 : Mat) (b2 : Vec) (Ws : Mat) (r : nat -> nat) (X : Mat) i k,
  gen_sparse_mlp_infer o d h K W1 b1 W2 b2 Ws (select r X) i k = select r (gen_sparse_mlp_infer o d h K W1 b1 W2 b2 Ws X) i k.
Proof. intros. unfold select at 2. rewrite !gen_sparse_mlp_infer_eq. apply (sparse_mlp_rowwise o). Qed.
(* the retained array too: row i of H_ is a function of row i of the batch *)
Lemma gen_mlp_retained_H_rowwise : forall d (W1 : Mat) (b1 : Vec) (r : nat -> nat) (X : Mat) i c,
  gen_mlp_retained_H o d W1 b1 (select r X) i c = select r (gen_mlp_retained_H o d W1 b1 X) i c.
Proof. intros. reflexivity. Qed.

(* output row i depends on input row i (its d entries) and the parameters only *)
Lemma gen_infer_depends_only_on_row : forall d h K (W : Mat) (b : Vec) (W1 : Mat) (b1 : Vec) (W2 : Mat) (b2 : Vec) (Ws : Mat)
    (X X' : Mat) i i',
  (forall j, (j < d)%nat -> X i j = X' i' j) ->
  forall k, gen_linear_infer o d K W b X i k = gen_linear_infer o d K W b X' i' k /\
            gen_mlp_infer o d h K W1 b1 W2 b2 X i k = gen_mlp_infer o d h K W1 b1 W2 b2 X' i' k /\
            gen_sparse_mlp_infer o d h K W1 b1 W2 b2 Ws X i k = gen_sparse_mlp_infer o d h K W1 b1 W2 b2 Ws X' i' k.
Proof.
  intros d h K W b W1 b1 W2 b2 Ws X X' i i' Hrow k.
  rewrite !gen_linear_infer_eq, !gen_mlp_infer_eq, !gen_sparse_mlp_infer_eq.
  split; [|split].
  - exact (infer_row_dependence o (MLinear d K W b) X X' i i' Hrow k).
  - exact (infer_row_dependence o (MMlp d h K W1 b1 W2 b2) X X' i i' Hrow k).
  - exact (infer_row_dependence o (MSparseMlp d h K W1 b1 W2 b2 Ws) X X' i i' Hrow k).
Qed.

(* the state-passing reading of `_infer(X, retain)` (Model/Rowwise.v) in terms of the regenerated definitions: the
   output is gen_*_infer whatever H_ held and whatever retain is; retain=True stores gen_*_retained_H; retain=False
   leaves H_ alone (the translator checks the last two facts on the source; here they are tied to the model) *)
Lemma gen_mlp_infer_state : forall d h K (W1 : Mat) (b1 : Vec) (W2 : Mat) (b2 : Vec) (H_ : option Mat) (retain : bool) (X : Mat),
  (forall i k, fst (mlp_infer_st o d h K W1 b1 W2 b2 H_ retain X) i k = gen_mlp_infer o d h K W1 b1 W2 b2 X i k) /\
  (exists Hn, snd (mlp_infer_st o d h K W1 b1 W2 b2 H_ true X) = Some Hn /\
              forall i c, Hn i c = gen_mlp_retained_H o d W1 b1 X i c) /\
  snd (mlp_infer_st o d h K W1 b1 W2 b2 H_ false X) = H_.
Proof.
  intros. split; [|split].
  - intros i k. rewrite gen_mlp_infer_eq. reflexivity.
  - exists (mlp_hidden o d h W1 b1 X). split; [reflexivity|]. intros i c. rewrite (gen_mlp_retained_H_eq d h). reflexivity.
  - reflexivity.
Qed.
Lemma gen_sparse_mlp_infer_state : forall d h K (W1 : Mat) (b1 : Vec) (W2 : Mat) (b2 : Vec) (Ws : Mat) (H_ : option Mat)
    (retain : bool) (X : Mat),
  (forall i k, fst (sparse_mlp_infer_st o d h K W1 b1 W2 b2 Ws H_ retain X) i k = gen_sparse_mlp_infer o d h K W1 b1 W2 b2 Ws X i k) /\
  (exists Hn, snd (sparse_mlp_infer_st o d h K W1 b1 W2 b2 Ws H_ true X) = Some Hn /\
              forall i c, Hn i c = gen_sparse_mlp_retained_H o d W1 b1 X i c) /\
  snd (sparse_mlp_infer_st o d h K W1 b1 W2 b2 Ws H_ false X) = H_.
Proof.
  intros. split; [|split].
  - intros i k. rewrite gen_sparse_mlp_infer_eq. reflexivity.
  - exists (mlp_hidden o d h W1 b1 X). split; [reflexivity|]. intros i c. rewrite (gen_sparse_mlp_retained_H_eq d h). reflexivity.
  - reflexivity.
Qed.
End AllNumberSystems.

(* ---------------------------------------------------------------------------------------------------- *)
(* Part 3b (C03, instance Rops): adjoint identity and direction-is-gradient on the regenerated terms.
   Both sides are regenerated: the function that is differentiated is built from gen_*_infer, the direction from
   gen_*_grads_* composed by the call protocol.  [mlp_jvp], [preact], [inner_mlp], [mlp_pert] ... are the
   specification vocabulary of Proofs/Backprop.v. *)
Open Scope R_scope.

(* MLP adjoint identity (DESIGN Appendix A): <g, JVP(dtheta)> = - <direction, dtheta> *)
Theorem gen_mlp_adjoint : forall n d h K X th g dth,
  relu_off_kink n h (preact d X th) ->
  inner n K g (mlp_jvp n d h K X th dth) = - inner_mlp d h K (gen_mlp_step_grads Rops n d h K th X g) dth.
Proof. intros n d h K X th g dth Hoff. rewrite gen_mlp_step_grads_eq. apply mlp_adjoint; assumption. Qed.
(* for ANY retained y_pred (not only the one _infer produced), with H_ the array retained for the same X *)
Theorem gen_mlp_adjoint_any_state : forall n d h K (X Y g : mat) (th dth : @MlpP R),
  inner n K g (smjvp K Y (mlp_dlogits d h X th dth))
  = - inner_mlp d h K (gen_mlp_compute_grads Rops n K (mW2 th) (gen_mlp_retained_H Rops d (mW1 th) (mb1 th) X) X Y g) dth.
Proof. intros. rewrite gen_mlp_compute_grads_eq. apply mlp_adjoint_any. Qed.

Theorem gen_linear_direction_is_gradient : forall n d K (X : mat) (th dth : @LinP R) (g : mat), (0 < K)%nat ->
  is_derive (fun t : R => inner n K g (gen_linear_infer_p Rops d K (lin_pert th dth t) X)) 0
            (- inner_lin d K (gen_linear_step_grads Rops n d K th X g) dth).
Proof. intros n d K X th dth g HK. rewrite gen_linear_step_grads_eq. exact (linear_direction_is_gradient n d K X th dth g HK). Qed.

Theorem gen_rim_direction_is_gradient : forall n d K reg (X : mat) (th dth : @LinP R) (g : mat), (0 < K)%nat ->
  is_derive (fun t : R => inner n K g (gen_linear_infer_p Rops d K (lin_pert th dth t) X)
                          - reg * sqnorm d K (lW (lin_pert th dth t))) 0
            (- inner_lin d K (gen_rim_step_grads Rops n d K reg th X g) dth).
Proof. intros n d K reg X th dth g HK. rewrite gen_rim_step_grads_eq. exact (rim_direction_is_gradient n d K reg X th dth g HK). Qed.

Theorem gen_kernel_rim_direction_is_gradient : forall n nt K reg (Kt X : mat) (th dth : @LinP R) (g : mat),
  (0 < K)%nat -> sym_on nt Kt ->
  is_derive (fun t : R => inner n K g (gen_linear_infer_p Rops nt K (lin_pert th dth t) X)
                          - reg * trWKW nt K Kt (lW (lin_pert th dth t))) 0
            (- inner_lin nt K (gen_kernel_rim_step_grads Rops n nt K reg Kt th X g) dth).
Proof.
  intros n nt K reg Kt X th dth g HK Hsym. rewrite gen_kernel_rim_step_grads_eq.
  exact (kernel_rim_direction_is_gradient n nt K reg Kt X th dth g HK Hsym).
Qed.

Theorem gen_mlp_direction_is_gradient : forall n d h K (X : mat) (th dth : @MlpP R) (g : mat), (0 < K)%nat ->
  relu_off_kink n h (preact d X th) ->
  is_derive (fun t : R => inner n K g (gen_mlp_infer_p Rops d h K (mlp_pert th dth t) X)) 0
            (- inner_mlp d h K (gen_mlp_step_grads Rops n d h K th X g) dth).
Proof.
  intros n d h K X th dth g HK Hoff. rewrite gen_mlp_step_grads_eq.
  exact (mlp_direction_is_gradient n d h K X th dth g HK Hoff).
Qed.

Theorem gen_sparse_mlp_direction_is_gradient : forall n d h K (X : mat) (th dth : @SMlpP R) (g : mat), (0 < K)%nat ->
  relu_off_kink n h (preact d X (smlp_core th)) ->
  is_derive (fun t : R => inner n K g (gen_sparse_mlp_infer_p Rops d h K (smlp_pert th dth t) X)) 0
            (- inner_smlp d h K (gen_sparse_mlp_step_grads Rops n d h K th X g) dth).
Proof.
  intros n d h K X th dth g HK Hoff. rewrite gen_sparse_mlp_step_grads_eq.
  exact (sparse_mlp_direction_is_gradient n d h K X th dth g HK Hoff).
Qed.

Theorem gen_categorical_direction_is_gradient : forall n K (L dL g : mat), (0 < K)%nat ->
  is_derive (fun t : R => inner n K g (gen_categorical_infer Rops K (fun i k => L i k + t * dL i k))) 0
            (- inner n K (gen_categorical_step_grads Rops K L g) dL).
Proof. intros n K L dL g HK. rewrite gen_categorical_step_grads_eq. exact (categorical_direction_is_gradient n K L dL g HK). Qed.
