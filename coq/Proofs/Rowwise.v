(* C18 — proofs: forward passes, predict, KernelRIM and Tree.predict are per-row functions of the
   fitted model.  Everything is generic over the number system (NumOps T): no axioms. *)
From Coq Require Import List Bool Arith ZArith Lia.
From GV Require Import Common.Num Model.Forward Model.Rowwise.
Import ListNotations.

(* ------------------------------------------------------------------ generic list facts *)
Lemma Forall2_weaken {A B : Type} (R1 R2 : A -> B -> Prop) :
  (forall a b, R1 a b -> R2 a b) -> forall l1 l2, Forall2 R1 l1 l2 -> Forall2 R2 l1 l2.
Proof. intros Himp l1 l2 H. induction H as [|a b l1 l2 Hab Hl IH]; constructor; auto. Qed.

Lemma Forall2_nth {A B : Type} (R : A -> B -> Prop) (da : A) (db : B) : forall l1 l2, Forall2 R l1 l2 ->
  length l2 = length l1 /\ forall i, i < length l1 -> R (nth i l1 da) (nth i l2 db).
Proof.
  intros l1 l2 H. induction H as [|a b l1 l2 Hab Hl [IHlen IH]].
  - split; [reflexivity|]. intros i Hi. cbn [length] in Hi. lia.
  - split; [cbn [length]; lia|]. intros [|i] Hi; cbn [nth]; [exact Hab|]. apply IH. cbn [length] in Hi. lia.
Qed.

Lemma Forall2_const {A B : Type} (R : A -> B -> Prop) (b : B) : forall l, (forall a, R a b) -> Forall2 R l (map (fun _ => b) l).
Proof. intros l H. induction l as [|a l IH]; cbn [map]; constructor; auto. Qed.

Section Generic.
Context {T : Type} (o : NumOps T).
Local Notation mat := (nat -> nat -> T).
Local Notation vec := (nat -> T).

(* ------------------------------------------------------------------ 1. the select form: definitional *)
Lemma linear_rowwise : forall d K (W : mat) (b : vec) (r : nat -> nat) (X : mat) i k,
  linear_infer o d K W b (select r X) i k = select r (linear_infer o d K W b X) i k.
Proof. reflexivity. Qed.
Lemma mlp_rowwise : forall d h K (W1 : mat) (b1 : vec) (W2 : mat) (b2 : vec) (r : nat -> nat) (X : mat) i k,
  mlp_infer o d h K W1 b1 W2 b2 (select r X) i k = select r (mlp_infer o d h K W1 b1 W2 b2 X) i k.
Proof. reflexivity. Qed.
Lemma sparse_mlp_rowwise : forall d h K (W1 : mat) (b1 : vec) (W2 : mat) (b2 : vec) (Ws : mat) (r : nat -> nat) (X : mat) i k,
  sparse_mlp_infer o d h K W1 b1 W2 b2 Ws (select r X) i k = select r (sparse_mlp_infer o d h K W1 b1 W2 b2 Ws X) i k.
Proof. reflexivity. Qed.
Lemma douglas_rowwise : forall nc temp cuts nleaf K (scores : mat) (r : nat -> nat) (X : mat) i k,
  douglas_infer o nc temp cuts nleaf K scores (select r X) i k = select r (douglas_infer o nc temp cuts nleaf K scores X) i k.
Proof. reflexivity. Qed.
Lemma infer_rowwise : forall (m : model) (r : nat -> nat) (X : mat) i k,
  infer o m (select r X) i k = select r (infer o m X) i k.
Proof. intros [d K W b|d h K W1 b1 W2 b2|d h K W1 b1 W2 b2 Ws] r X i k; reflexivity. Qed.

(* predict_proba and predict: the rows of a subset / reordering / single row are the rows of the whole array *)
Lemma predict_rowwise : forall (m : model) (r : nat -> nat) (X : mat),
  (forall i k, predict_proba o m (select r X) i k = select r (predict_proba o m X) i k) /\
  (forall i, predict o m (select r X) i = select_vec r (predict o m X) i) /\
  (forall i, predict o m X i = argmax_row o (n_clusters m) (predict_proba o m X i)).
Proof.
  intros m r X. split; [|split].
  - intros i k. apply infer_rowwise.
  - intros i. destruct m; reflexivity.
  - reflexivity.
Qed.

(* predicting (any selection of) the training rows reproduces what fit stored in labels_ *)
Lemma train_predict_is_labels : forall (m : model) (Xtrain : mat) (r : nat -> nat) i,
  predict o m Xtrain i = fit_labels o m Xtrain i /\
  predict o m (select r Xtrain) i = fit_labels o m Xtrain (r i).
Proof. intros m Xtrain r i. destruct m; split; reflexivity. Qed.

(* the retained hidden activations H_ never influence an output, and retain=False leaves them alone *)
Lemma mlp_retain_irrelevant : forall d h K (W1 : mat) (b1 : vec) (W2 : mat) (b2 : vec) (H_ : option mat) (retain : bool) (X : mat),
  fst (mlp_infer_st o d h K W1 b1 W2 b2 H_ retain X) = mlp_infer o d h K W1 b1 W2 b2 X /\
  snd (mlp_infer_st o d h K W1 b1 W2 b2 H_ false X) = H_.
Proof. intros. split; reflexivity. Qed.
Lemma sparse_mlp_retain_irrelevant : forall d h K (W1 : mat) (b1 : vec) (W2 : mat) (b2 : vec) (Ws : mat) (H_ : option mat) (retain : bool) (X : mat),
  fst (sparse_mlp_infer_st o d h K W1 b1 W2 b2 Ws H_ retain X) = sparse_mlp_infer o d h K W1 b1 W2 b2 Ws X /\
  snd (sparse_mlp_infer_st o d h K W1 b1 W2 b2 Ws H_ false X) = H_.
Proof. intros. split; reflexivity. Qed.

(* ------------------------------------------------------------------ 2. dependence on the row only *)
Lemma bsum_ext : forall n (f g : nat -> T), (forall j, j < n -> f j = g j) -> bsum o n f = bsum o n g.
Proof.
  induction n as [|n IH]; intros f g H; cbn [bsum]; [reflexivity|].
  rewrite (IH f g), (H n); [reflexivity| lia |]. intros j Hj. apply H. lia.
Qed.
Lemma vmax_ext : forall K (z z' : nat -> T), (forall c, z c = z' c) -> vmax o K z = vmax o K z'.
Proof.
  induction K as [|K IH]; intros z z' H; [reflexivity|].
  cbn [vmax]. destruct K as [|K']; [apply H|]. rewrite (IH z z' H), (H (S K')). reflexivity.
Qed.
Lemma softmax_row_ext : forall K (z z' : nat -> T) k, (forall c, z c = z' c) -> softmax_row o K z k = softmax_row o K z' k.
Proof.
  intros K z z' k H. unfold softmax_row. rewrite (vmax_ext K z z' H), (H k).
  f_equal. apply bsum_ext. intros j _. rewrite (H j). reflexivity.
Qed.
Lemma argmax_row_ext : forall K (z z' : nat -> T), (forall c, z c = z' c) -> argmax_row o K z = argmax_row o K z'.
Proof.
  induction K as [|K IH]; intros z z' H; [reflexivity|].
  cbn [argmax_row]. destruct K as [|K']; [reflexivity|]. rewrite (IH z z' H), !H. reflexivity.
Qed.
Lemma affine_ext : forall d (X X' W : mat) (b : vec) i i', (forall j, j < d -> X i j = X' i' j) ->
  forall k, affine o d X W b i k = affine o d X' W b i' k.
Proof. intros d X X' W b i i' H k. unfold affine. f_equal. apply bsum_ext. intros j Hj. rewrite (H j Hj). reflexivity. Qed.
Lemma matmul_ext : forall d (X X' W : mat) i i', (forall j, j < d -> X i j = X' i' j) ->
  forall k, matmul o d X W i k = matmul o d X' W i' k.
Proof. intros d X X' W i i' H k. unfold matmul. apply bsum_ext. intros j Hj. rewrite (H j Hj). reflexivity. Qed.
Lemma mlp_hidden_ext : forall d h (W1 : mat) (b1 : vec) (X X' : mat) i i', (forall j, j < d -> X i j = X' i' j) ->
  forall j, mlp_hidden o d h W1 b1 X i j = mlp_hidden o d h W1 b1 X' i' j.
Proof. intros d h W1 b1 X X' i i' H j. unfold mlp_hidden. rewrite (affine_ext d X X' W1 b1 i i' H j). reflexivity. Qed.

Lemma linear_row_dependence : forall d K (W : mat) (b : vec) (X X' : mat) i i', (forall j, j < d -> X i j = X' i' j) ->
  forall k, linear_infer o d K W b X i k = linear_infer o d K W b X' i' k.
Proof. intros d K W b X X' i i' H k. unfold linear_infer, softmax. apply softmax_row_ext. apply affine_ext, H. Qed.

(* row i of the output is a function of row i of the input (its first n_features entries) and of the
   parameters: nothing else of the array — other rows, row position, number of rows — matters *)
Lemma infer_row_dependence : forall (m : model) (X X' : mat) i i', (forall j, j < n_features m -> X i j = X' i' j) ->
  forall k, infer o m X i k = infer o m X' i' k.
Proof.
  intros [d K W b|d h K W1 b1 W2 b2|d h K W1 b1 W2 b2 Ws] X X' i i' H k; cbn [n_features infer] in *.
  - apply linear_row_dependence, H.
  - unfold mlp_infer, softmax. apply softmax_row_ext. apply affine_ext. intros j _. apply mlp_hidden_ext, H.
  - unfold sparse_mlp_infer, softmax. apply softmax_row_ext. intros c.
    rewrite (matmul_ext d X X' Ws i i' H c). f_equal. apply affine_ext. intros j _. apply mlp_hidden_ext, H.
Qed.
Lemma predict_row_dependence : forall (m : model) (X X' : mat) i i', (forall j, j < n_features m -> X i j = X' i' j) ->
  predict o m X i = predict o m X' i'.
Proof. intros m X X' i i' H. unfold predict, predict_proba. apply argmax_row_ext. apply infer_row_dependence, H. Qed.

Lemma infer_predict_row_dependence : forall (m : model) (X X' : mat) i i', (forall j, j < n_features m -> X i j = X' i' j) ->
  (forall k, infer o m X i k = infer o m X' i' k) /\ predict o m X i = predict o m X' i'.
Proof. intros m X X' i i' H. split; [exact (infer_row_dependence m X X' i i' H) | exact (predict_row_dependence m X X' i i' H)]. Qed.

Lemma retained_state_irrelevant : forall d h K (W1 : mat) (b1 : vec) (W2 : mat) (b2 : vec) (Ws : mat) (H_ : option mat) (retain : bool) (X : mat),
  (fst (mlp_infer_st o d h K W1 b1 W2 b2 H_ retain X) = mlp_infer o d h K W1 b1 W2 b2 X /\
   snd (mlp_infer_st o d h K W1 b1 W2 b2 H_ false X) = H_) /\
  (fst (sparse_mlp_infer_st o d h K W1 b1 W2 b2 Ws H_ retain X) = sparse_mlp_infer o d h K W1 b1 W2 b2 Ws X /\
   snd (sparse_mlp_infer_st o d h K W1 b1 W2 b2 Ws H_ false X) = H_).
Proof. intros. split; [apply mlp_retain_irrelevant | apply sparse_mlp_retain_irrelevant]. Qed.

(* ------------------------------------------------------------------ 3. KernelRIM *)
(* what is assumed of the oracle (sklearn pairwise_kernels / the user's callable): row i of kernel(A, B)
   is determined by row i of A and by B. *)
Definition kernel_rowwise (kern : mat -> mat -> mat) : Prop :=
  forall (A A' B : mat) i i', (forall j, A i j = A' i' j) -> forall t, kern A B i t = kern A' B i' t.

Lemma linear_kernel_rowwise : forall d, kernel_rowwise (linear_kernel o d).
Proof. intros d A A' B i i' H t. unfold linear_kernel. apply bsum_ext. intros j _. rewrite (H j). reflexivity. Qed.

Section KRIM.
Variable kern : mat -> mat -> mat.
Hypothesis kern_rw : kernel_rowwise kern.

Lemma krim_rowwise : forall (m : krim) (r : nat -> nat) (X : mat),
  (forall i k, krim_predict_proba o kern m (select r X) i k = select r (krim_predict_proba o kern m X) i k) /\
  (forall i, krim_predict o kern m (select r X) i = select_vec r (krim_predict o kern m X) i).
Proof.
  intros m r X.
  assert (Hp : forall i k, krim_predict_proba o kern m (select r X) i k = krim_predict_proba o kern m X (r i) k).
  { intros i k. unfold krim_predict_proba, kernel_rim_infer, krim_compute_kernel.
    apply linear_row_dependence. intros t _. apply kern_rw. reflexivity. }
  split; [exact Hp|]. intros i. unfold krim_predict, select_vec. apply argmax_row_ext. intros c. apply Hp.
Qed.

(* the kernel rows used for the training points at prediction time are the rows used during fit:
   predicting (any selection of) the training data reproduces fit's probabilities and labels_ *)
Lemma krim_train : forall ntrain K (Xtrain W : mat) (b : vec) (r : nat -> nat),
  let m := krim_fit_store kern ntrain K Xtrain W b in
  (forall i t, krim_compute_kernel kern m Xtrain i t = kr_train_kernel m i t) /\
  (forall i k, krim_predict_proba o kern m Xtrain i k = krim_fit_proba o m i k) /\
  (forall i, krim_predict o kern m Xtrain i = krim_fit_labels o m i) /\
  (forall i k, krim_predict_proba o kern m (select r Xtrain) i k = krim_fit_proba o m (r i) k) /\
  (forall i, krim_predict o kern m (select r Xtrain) i = krim_fit_labels o m (r i)).
Proof.
  intros ntrain K Xtrain W b r m.
  split; [reflexivity|]. split; [reflexivity|]. split; [reflexivity|].
  destruct (krim_rowwise m r Xtrain) as [Hp Hl]. split.
  - intros i k. rewrite Hp. reflexivity.
  - intros i. rewrite Hl. reflexivity.
Qed.
End KRIM.

Lemma kernel_rim_rowwise : forall (kern : mat -> mat -> mat), kernel_rowwise kern ->
  (forall (m : krim) (r : nat -> nat) (X : mat),
     (forall i k, krim_predict_proba o kern m (select r X) i k = select r (krim_predict_proba o kern m X) i k) /\
     (forall i, krim_predict o kern m (select r X) i = select_vec r (krim_predict o kern m X) i)) /\
  (forall ntrain K (Xtrain W : mat) (b : vec) (r : nat -> nat),
     let m := krim_fit_store kern ntrain K Xtrain W b in
     (forall i t, krim_compute_kernel kern m Xtrain i t = kr_train_kernel m i t) /\
     (forall i k, krim_predict_proba o kern m Xtrain i k = krim_fit_proba o m i k) /\
     (forall i, krim_predict o kern m Xtrain i = krim_fit_labels o m i) /\
     (forall i k, krim_predict_proba o kern m (select r Xtrain) i k = krim_fit_proba o m (r i) k) /\
     (forall i, krim_predict o kern m (select r Xtrain) i = krim_fit_labels o m (r i))).
Proof. intros kern H. split; [exact (krim_rowwise kern H) | exact (krim_train kern H)]. Qed.

(* predictions after a fit do not depend on what an earlier fit left on the object, and the training
   predictions are the labels of the LAST fit.  Definitional in the model (fit re-assigns every attribute
   predict reads and there is no prediction-time cache); the tie to the code is the refit stream of the harness. *)
Lemma refit_history_independent : forall (kern : mat -> mat -> mat) (prev1 prev2 : option model) (kprev1 kprev2 : option krim)
    (learned : model) ntrain K (Xtrain W : mat) (b : vec) (X : mat) i,
  (forall k, predict_proba o (refit prev1 learned) X i k = predict_proba o (refit prev2 learned) X i k) /\
  predict o (refit prev1 learned) X i = predict o (refit None learned) X i /\
  predict o (refit prev1 learned) Xtrain i = fit_labels o learned Xtrain i /\
  (forall k, krim_predict_proba o kern (krim_refit kern kprev1 ntrain K Xtrain W b) X i k =
             krim_predict_proba o kern (krim_refit kern kprev2 ntrain K Xtrain W b) X i k) /\
  kr_input (krim_refit kern kprev1 ntrain K Xtrain W b) = Xtrain /\
  krim_predict o kern (krim_refit kern kprev1 ntrain K Xtrain W b) Xtrain i =
    krim_fit_labels o (krim_fit_store kern ntrain K Xtrain W b) i.
Proof. intros. repeat split; destruct learned; reflexivity. Qed.

(* ------------------------------------------------------------------ 4. Tree.predict *)
Lemma scatter_Forall2 {A : Type} (g : A -> bool) (R1 R2 : A -> Z -> Prop) : forall X pl pr,
  Forall2 R1 (pick true (map g X) X) pl -> Forall2 R2 (pick false (map g X) X) pr ->
  Forall2 (fun x y => if g x then R1 x y else R2 x y) X (scatter (map g X) pl pr).
Proof.
  induction X as [|x X IH]; intros pl pr Hl Hr; cbn [map pick scatter]; [constructor|].
  cbn [map pick] in Hl, Hr. destruct (g x) eqn:Hg; cbn [Bool.eqb] in Hl, Hr.
  - inversion Hl as [|a b l1 l2 Hab Hrest]; subst. constructor; [rewrite Hg; exact Hab|]. apply IH; assumption.
  - inversion Hr as [|a b l1 l2 Hab Hrest]; subst. constructor; [rewrite Hg; exact Hab|]. apply IH; assumption.
Qed.

(* the vectorised mask recursion gives every row the label that routing this row alone reaches *)
Lemma predict_vec_rowwise : forall fuel (t : @atree T) (X : list vec) node v,
  predict_vec o fuel t X node = Ok v -> Forall2 (fun x y => route o fuel t x node = Ok y) X v.
Proof.
  induction fuel as [|f IH]; intros t X node v H; cbn [predict_vec] in H; [discriminate|].
  destruct ((node <? 0) || (a_n t <? node))%Z eqn:Hg; [discriminate|].
  destruct (zn (a_left t) node) as [cl|] eqn:Hl; [|discriminate].
  destruct (cl =? -1)%Z eqn:Hleaf.
  - destruct (zn (a_target t) node) as [tg|] eqn:Ht; [|discriminate].
    injection H as <-. apply Forall2_const. intros x. cbn [route]. rewrite Hg, Hl, Hleaf, Ht. reflexivity.
  - destruct (zn (a_cat t) node) as [[|]|] eqn:Hc; try discriminate.
    destruct (zn (a_feat t) node) as [[ft|]|] eqn:Hf; try discriminate.
    destruct (zn (a_thr t) node) as [[th|]|] eqn:Hth; try discriminate.
    cbv zeta in H.
    destruct (predict_vec o f t (pick true (map (fun x : vec => nleb o (x ft) th) X) X) cl) as [pl| |] eqn:Hpl; try discriminate.
    destruct (zn (a_right t) node) as [cr|] eqn:Hr; [|discriminate].
    destruct (predict_vec o f t (pick false (map (fun x : vec => nleb o (x ft) th) X) X) cr) as [pr| |] eqn:Hpr; try discriminate.
    injection H as <-.
    apply IH in Hpl. apply IH in Hpr.
    pose proof (scatter_Forall2 (fun x : vec => nleb o (x ft) th) _ _ X pl pr Hpl Hpr) as Hs.
    revert Hs. apply Forall2_weaken. intros x y Hxy. cbn [route]. rewrite Hg, Hl, Hleaf, Hc, Hf, Hth.
    destruct (nleb o (x ft) th); [exact Hxy|]. rewrite Hr. exact Hxy.
Qed.

Lemma predict_vec_rowwise_nth : forall fuel (t : @atree T) (X : list vec) node v (dx : vec),
  predict_vec o fuel t X node = Ok v ->
  length v = length X /\ forall i, i < length X -> route o fuel t (nth i X dx) node = Ok (nth i v 0%Z).
Proof.
  intros fuel t X node v dx H.
  exact (Forall2_nth (fun x y => route o fuel t x node = Ok y) dx 0%Z X v (predict_vec_rowwise fuel t X node v H)).
Qed.

(* well-formed array-encoded tree: consistent list lengths; every node is a leaf or has two children with
   larger indices inside the arrays, a feature, a threshold and no categorical flag (what _add_child builds) *)
Definition wf (t : @atree T) : Prop :=
  let n := length (a_left t) in
  a_n t = Z.of_nat n /\ length (a_right t) = n /\ length (a_target t) = n /\
  forall a, a < n ->
    nth a (a_left t) 0%Z = (-1)%Z \/
    (exists ft th, (Z.of_nat a < nth a (a_left t) 0 < Z.of_nat n)%Z /\ (Z.of_nat a < nth a (a_right t) 0 < Z.of_nat n)%Z /\
       nth_error (a_feat t) a = Some (Some ft) /\ nth_error (a_thr t) a = Some (Some th) /\ nth_error (a_cat t) a = Some false).

Lemma zn_of_nat {A : Type} (l : list A) (a : nat) (d : A) : a < length l -> zn l (Z.of_nat a) = Some (nth a l d).
Proof.
  intros Ha. unfold zn. destruct (Z.of_nat a <? 0)%Z eqn:Hn; [apply Z.ltb_lt in Hn; lia|].
  rewrite Nat2Z.id. apply nth_error_nth'. exact Ha.
Qed.
Lemma zn_of_nat_err {A : Type} (l : list A) (a : nat) : zn l (Z.of_nat a) = nth_error l a.
Proof. unfold zn. destruct (Z.of_nat a <? 0)%Z eqn:Hn; [apply Z.ltb_lt in Hn; lia|]. rewrite Nat2Z.id. reflexivity. Qed.

(* on a well-formed tree the recursion raises nothing and fuel = number of nodes is enough, for any rows *)
Lemma predict_vec_total : forall (t : @atree T), wf t -> forall fuel a (X : list vec),
  a < length (a_left t) -> length (a_left t) - a <= fuel -> exists v, predict_vec o fuel t X (Z.of_nat a) = Ok v.
Proof.
  intros t (Hn & Hlr & Hlt & Hnodes). induction fuel as [|f IH]; intros a X Ha Hfuel; [lia|].
  cbn [predict_vec].
  assert (Hg : ((Z.of_nat a <? 0) || (a_n t <? Z.of_nat a))%Z = false).
  { apply orb_false_iff. split; apply Z.ltb_ge; lia. }
  rewrite Hg, (zn_of_nat (a_left t) a 0%Z Ha).
  destruct (Hnodes a Ha) as [Hleaf | (ft & th & Hcl & Hcr & Hft & Hth & Hcat)].
  - rewrite Hleaf. cbn [Z.eqb Pos.eqb]. rewrite (zn_of_nat (a_target t) a 0%Z) by lia. eexists. reflexivity.
  - destruct (nth a (a_left t) 0 =? -1)%Z eqn:Hne; [apply Z.eqb_eq in Hne; lia|].
    rewrite !zn_of_nat_err, Hft, Hth, Hcat. cbv zeta.
    set (cl := nth a (a_left t) 0%Z) in *. set (cr := nth a (a_right t) 0%Z) in *.
    destruct (IH (Z.to_nat cl) (pick true (map (fun x : vec => nleb o (x ft) th) X) X)) as [pl Hpl]; [lia|lia|].
    rewrite Z2Nat.id in Hpl by lia. rewrite Hpl.
    rewrite <- zn_of_nat_err, (zn_of_nat (a_right t) a 0%Z) by lia. fold cr.
    destruct (IH (Z.to_nat cr) (pick false (map (fun x : vec => nleb o (x ft) th) X) X)) as [pr Hpr]; [lia|lia|].
    rewrite Z2Nat.id in Hpr by lia. rewrite Hpr. eexists. reflexivity.
Qed.

Lemma tree_predict_total : forall (t : @atree T) (X : list vec), wf t -> 0 < length (a_left t) ->
  exists v, tree_predict o t X = Ok v.
Proof. intros t X Hwf Hn. unfold tree_predict. apply (predict_vec_total t Hwf _ 0 X); lia. Qed.

(* Kauri.predict on a well-formed tree: every row gets the label of its own route *)
Lemma tree_predict_rowwise : forall (t : @atree T) (X : list vec) v (dx : vec), tree_predict o t X = Ok v ->
  length v = length X /\ forall i, i < length X -> tree_route o t (nth i X dx) = Ok (nth i v 0%Z).
Proof. intros t X v dx H. apply predict_vec_rowwise_nth, H. Qed.

(* predicting any selection r of the rows (subset, reordering, repetitions, single row) returns the
   selection of the predictions of the whole array *)
Lemma tree_predict_select : forall (t : @atree T) (X : list vec) v (dx : vec) (r : list nat), wf t ->
  tree_predict o t X = Ok v -> Forall (fun i => i < length X) r ->
  tree_predict o t (select_rows dx r X) = Ok (select_rows 0%Z r v).
Proof.
  intros t X v dx r Hwf Hv Hr.
  assert (Hn : 0 < length (a_left t)).
  { destruct (length (a_left t)) eqn:E; [|lia]. unfold tree_predict in Hv. rewrite E in Hv. discriminate. }
  destruct (tree_predict_total t (select_rows dx r X) Hwf Hn) as [v' Hv'].
  rewrite Hv'. f_equal.
  pose proof (predict_vec_rowwise _ _ _ _ _ Hv') as H2.
  destruct (predict_vec_rowwise_nth _ _ _ _ _ dx Hv) as [_ H1].
  clear Hv Hv'. revert v' H2. unfold select_rows.
  induction r as [|i r IH]; intros v' H2; cbn [map] in *.
  - inversion H2. reflexivity.
  - inversion H2 as [|a b l1 l2 Hab Hrest]; subst. inversion Hr as [|i' r' Hi Hr']; subst.
    rewrite (H1 i Hi) in Hab. injection Hab as <-. f_equal. apply IH; assumption.
Qed.
End Generic.

(* ------------------------------------------------------------------ a concrete state for non-vacuity *)
Definition Zops : NumOps Z := {|
  n0 := 0%Z; n1 := 1%Z; nadd := Z.add; nsub := Z.sub; nmul := Z.mul; ndiv := Z.div;
  nsqrt := Z.sqrt; nln := Z.log2; nexp := fun z => (2 ^ z)%Z; nabs := Z.abs;
  nltb := Z.ltb; nleb := Z.leb; neqb := Z.eqb; nofnat := Z.of_nat |}.
(* root: feature 0 <= 5 ? node 1 (leaf, cluster 0) : node 2 (feature 1 <= 2 ? node 3 (cluster 1) : node 4 (cluster 0)) *)
Definition ex_tree : @atree Z := {|
  a_n := 5%Z; a_left := [1; -1; 3; -1; -1]%Z; a_right := [2; -1; 4; -1; -1]%Z; a_target := [0; 0; 1; 1; 0]%Z;
  a_feat := [Some 0; None; Some 1; None; None]; a_thr := [Some 5%Z; None; Some 2%Z; None; None];
  a_cat := [false; false; false; false; false] |}.
Definition ex_row (a b : Z) : nat -> Z := fun j => match j with O => a | S _ => b end.
Definition ex_rows : list (nat -> Z) := [ex_row 3 9; ex_row 7 1; ex_row 6 4; ex_row 5 0]%Z.

Lemma ex_tree_wf : wf ex_tree.
Proof.
  unfold wf. cbn [ex_tree a_n a_left a_right a_target a_feat a_thr a_cat length].
  repeat split. intros a Ha.
  destruct a as [|[|[|[|[|a]]]]]; cbn [nth nth_error]; try (left; reflexivity); try lia.
  - right. exists 0, 5%Z. repeat split; lia.
  - right. exists 1, 2%Z. repeat split; lia.
Qed.
Lemma ex_tree_predict : tree_predict Zops ex_tree ex_rows = Ok [0; 1; 0; 0]%Z /\
  tree_predict Zops ex_tree (select_rows (fun _ => 0%Z) [2; 2; 0; 1] ex_rows) = Ok [0; 0; 0; 1]%Z.
Proof. split; vm_compute; reflexivity. Qed.
