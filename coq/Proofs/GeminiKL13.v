(* C13 (and the clipped half of C02) for the KL GEMINI, plus the "clipped entry => zero gradient"
   fact for ALL six objectives, plus the empty-cluster neutrality of KL (both flags) and TV (OvA).

   Remarks on hypotheses (checked by hand, then proved):
   * as for TV, the model IS the clean form (klc / klo of Proofs/GeminiKL.v) evaluated at the CLIPPED
     matrix, for every input ([kl_score_clean], [kl_grad_clean], by reflexivity).  The permutation
     facts, the zero on equal rows and the empty-cluster neutrality are therefore proved for ALL
     inputs: no [interior], no sign condition on eps.  (Over R, [ln] is total; the code takes [ln] of
     clipped entries, which are >= min(eps, 1-eps) > 0 as soon as 0 < eps < 1 — [clip_pos] — so on
     that range the R statement speaks about the very numbers the code computes.)
   * [kl_independent_zero] was asked under (0 <= eps, interior): neither is needed, only 0 < n.
   * [kl_empty_cluster_neutral] was asked under (0 < eps, 0 < n): only 0 < n is needed; the added
     column is clipped to the constant nclip eps (1-eps) eps (= eps when eps <= 1-eps) whatever its
     entries <= eps are, and a constant column c contributes c ln c to the prediction entropy and
     c ln c to the cluster entropy (OvA) resp. to the cross term (OvO).
   * [kl_grad_perm_clusters]: column k of the KL gradient only reads column k of the input, so the
     statement holds for every re-indexing s of the clusters; the hypothesis [perm_on K s] is kept in
     the named theorem only to have the same shape as [tv_grad_perm_clusters]
     ([kl_grad_reindex_clusters] is the hypothesis-free version).
   * [kl_nonneg] (both flags) is Gibbs' inequality through [kl_score_is_definition]; in addition the
     one-vs-all score is non-negative for EVERY input when 0 < eps < 1 ([kl_ova_nonneg_all]): OvA
     needs no row-stochasticity.  OvO does (the identity klo = sum pi_a pi_b KL(a||b) uses it), and
     clipping destroys it, hence [interior] + [row_stochastic] there.
   * [mi_balanced_hard_is_lnK] is the UNCLIPPED evaluation klc on a 0/1 matrix (0 ln 0 = 0 because
     0 * _ = 0, 1 ln 1 = 0).  The code evaluates klc at the clipped matrix (entries eps and 1-eps);
     that value is within K * eps * |ln eps| (up to a constant factor) of ln K.  That bound is NOT
     proved here.
   * Empty cluster, other objectives: TV one-vs-one, Hellinger (both flags), chi-square (both
     flags), MMD and Wasserstein are NOT exactly neutral: the clipped empty column (value eps)
     contributes terms of order eps (TV OvO: 2 * (1/2) * sum_a mean_i |pi_a eps - eps P_ia| ;
     Hellinger: sqrt(eps * eps) = eps per sample; chi-square: eps per sample), so only an
     approximate statement holds.  They are not attempted here (PARTIAL: KL both flags and TV OvA
     only). *)
From Coq Require Import Reals Lra Lia Psatz Bool.
From Coquelicot Require Import Coquelicot.
From GV Require Import Common.Num Common.NumR Model.Gemini Proofs.RSumLib Proofs.GeminiDefs
  Proofs.GeminiKL Proofs.GeminiTV.
Open Scope R_scope.

(* ------------------------------------------------------------------ model = clean form at the clipped matrix *)
Lemma kl_score_clean eps n K Y ovo :
  kl_score Rops eps n K Y ovo = if ovo then klo n K (P Rops eps Y) else klc n K (P Rops eps Y).
Proof. destruct ovo; reflexivity. Qed.
Lemma kl_grad_clean eps n K Y ovo i k :
  kl_grad Rops eps n Y ovo i k
  = (if ovo then klo_grad n K (P Rops eps Y) i k else klc_grad n K (P Rops eps Y) i k) * maskT Rops eps Y i k.
Proof. destruct ovo; reflexivity. Qed.

(* the clean forms only look at the entries with i < n, k < K *)
Lemma klc_ext n K p q : (forall i k, (i < n)%nat -> (k < K)%nat -> p i k = q i k) -> klc n K p = klc n K q.
Proof.
  intros H. unfold klc. f_equal; apply rsum_ext; intros k Hk.
  - f_equal. apply rsum_ext. intros i Hi. rewrite H by assumption. reflexivity.
  - rewrite (pi0_ext n p q k) by (intros; apply H; assumption). reflexivity.
Qed.
Lemma klo_ext n K p q : (forall i k, (i < n)%nat -> (k < K)%nat -> p i k = q i k) -> klo n K p = klo n K q.
Proof.
  intros H. unfold klo. f_equal; apply rsum_ext; intros k Hk.
  - f_equal. apply rsum_ext. intros i Hi. rewrite H by assumption. reflexivity.
  - rewrite (pi0_ext n p q k) by (intros; apply H; assumption). f_equal. f_equal.
    apply rsum_ext. intros i Hi. rewrite H by assumption. reflexivity.
Qed.

(* clipped entries are positive as soon as 0 < eps < 1 (whatever the input) *)
Lemma clip_pos eps y : 0 < eps < 1 -> 0 < nclip Rops eps (1 - eps) y.
Proof.
  intros [H0 H1]. unfold nclip, nmin, nmax. cbn [nltb Rops]. unfold Rltb.
  destruct (Rlt_dec y eps); destruct (Rlt_dec (1 - eps) _); lra.
Qed.

(* ================================================================== A. C13 for KL *)
(* ------------------------------------------------------------------ permutations of samples *)
Lemma klc_perm_samples n K s p : perm_on n s -> klc n K (fun i k => p (s i) k) = klc n K p.
Proof.
  intros Hs. unfold klc. f_equal; apply rsum_ext; intros k Hk.
  - f_equal. apply (rsum_perm n s (fun i => p i k * ln (p i k))). exact Hs.
  - rewrite pi0_perm_samples by exact Hs. reflexivity.
Qed.
Lemma klo_perm_samples n K s p : perm_on n s -> klo n K (fun i k => p (s i) k) = klo n K p.
Proof.
  intros Hs. unfold klo. f_equal; apply rsum_ext; intros k Hk.
  - f_equal. apply (rsum_perm n s (fun i => p i k * ln (p i k))). exact Hs.
  - rewrite pi0_perm_samples by exact Hs. f_equal. f_equal.
    apply (rsum_perm n s (fun i => ln (p i k))). exact Hs.
Qed.
Lemma klc_grad_perm_samples n K s p i k : perm_on n s ->
  klc_grad n K (fun i k => p (s i) k) i k = klc_grad n K p (s i) k.
Proof. intros Hs. unfold klc_grad. rewrite pi0_perm_samples by exact Hs. reflexivity. Qed.
Lemma klo_grad_perm_samples n K s p i k : perm_on n s ->
  klo_grad n K (fun i k => p (s i) k) i k = klo_grad n K p (s i) k.
Proof.
  intros Hs. unfold klo_grad. rewrite pi0_perm_samples by exact Hs.
  rewrite (rsum_perm n s (fun j => ln (p j k)) Hs). reflexivity.
Qed.
(* every input, clipped or not *)
Theorem kl_perm_samples eps n K Y ovo s : perm_on n s ->
  kl_score Rops eps n K (fun i k => Y (s i) k) ovo = kl_score Rops eps n K Y ovo.
Proof.
  intros Hs. rewrite !kl_score_clean.
  destruct ovo; [apply (klo_perm_samples n K s (P Rops eps Y) Hs) | apply (klc_perm_samples n K s (P Rops eps Y) Hs)].
Qed.
(* the gradient of the row-permuted input is the row-permuted gradient (all i, k) *)
Theorem kl_grad_perm_samples eps n Y ovo s i k : perm_on n s ->
  kl_grad Rops eps n (fun i k => Y (s i) k) ovo i k = kl_grad Rops eps n Y ovo (s i) k.
Proof.
  intros Hs. rewrite !(kl_grad_clean eps n 0).
  replace (maskT Rops eps (fun i k => Y (s i) k) i k) with (maskT Rops eps Y (s i) k) by reflexivity.
  f_equal.
  destruct ovo; [apply (klo_grad_perm_samples n 0 s (P Rops eps Y) i k Hs) | apply (klc_grad_perm_samples n 0 s (P Rops eps Y) i k Hs)].
Qed.

(* ------------------------------------------------------------------ permutations of clusters *)
Lemma klc_perm_clusters n K s p : perm_on K s -> klc n K (fun i k => p i (s k)) = klc n K p.
Proof.
  intros Hs. unfold klc. f_equal.
  - apply (rsum_perm K s (fun k => rsum n (fun i => p i k * ln (p i k)) / INR n)). exact Hs.
  - apply (rsum_perm K s (fun k => pi0 n p k * ln (pi0 n p k))). exact Hs.
Qed.
Lemma klo_perm_clusters n K s p : perm_on K s -> klo n K (fun i k => p i (s k)) = klo n K p.
Proof.
  intros Hs. unfold klo. f_equal.
  - apply (rsum_perm K s (fun k => rsum n (fun i => p i k * ln (p i k)) / INR n)). exact Hs.
  - apply (rsum_perm K s (fun k => pi0 n p k * (rsum n (fun i => ln (p i k)) / INR n))). exact Hs.
Qed.
Theorem kl_perm_clusters eps n K Y ovo s : perm_on K s ->
  kl_score Rops eps n K (fun i k => Y i (s k)) ovo = kl_score Rops eps n K Y ovo.
Proof.
  intros Hs. rewrite !kl_score_clean.
  destruct ovo; [apply (klo_perm_clusters n K s (P Rops eps Y) Hs) | apply (klc_perm_clusters n K s (P Rops eps Y) Hs)].
Qed.
(* column k of the KL gradient only reads column k of the input: true for EVERY re-indexing s *)
Theorem kl_grad_reindex_clusters eps n Y ovo (s : nat -> nat) i k :
  kl_grad Rops eps n (fun i k => Y i (s k)) ovo i k = kl_grad Rops eps n Y ovo i (s k).
Proof. reflexivity. Qed.
(* same shape as tv_grad_perm_clusters (the hypothesis is not used) *)
Theorem kl_grad_perm_clusters eps n K Y ovo s i k : perm_on K s ->
  kl_grad Rops eps n (fun i k => Y i (s k)) ovo i k = kl_grad Rops eps n Y ovo i (s k).
Proof. intros _. reflexivity. Qed.

(* ------------------------------------------------------------------ zero on independent predictions *)
Lemma klc_rows_equal n K p : (0 < n)%nat -> rows_equal n K p -> klc n K p = 0.
Proof.
  intros Hn He. assert (HN : INR n <> 0) by (apply not_0_INR; lia).
  unfold klc. rewrite <- rsum_minus. apply rsum_zero. intros k Hk.
  assert (H0 : (0 < n)%nat) by exact Hn.
  rewrite (rsum_ext n _ (fun _ => p 0%nat k * ln (p 0%nat k))).
  2:{ intros i Hi. rewrite (He i 0%nat k) by assumption. reflexivity. }
  rewrite rsum_const. rewrite (pi0_rows_equal n K p 0%nat k) by assumption. field. exact HN.
Qed.
Lemma klo_rows_equal n K p : (0 < n)%nat -> rows_equal n K p -> klo n K p = 0.
Proof.
  intros Hn He. assert (HN : INR n <> 0) by (apply not_0_INR; lia).
  unfold klo. rewrite <- rsum_minus. apply rsum_zero. intros k Hk.
  rewrite (rsum_ext n (fun i => p i k * ln (p i k)) (fun _ => p 0%nat k * ln (p 0%nat k))).
  2:{ intros i Hi. rewrite (He i 0%nat k) by assumption. reflexivity. }
  rewrite (rsum_ext n (fun i => ln (p i k)) (fun _ => ln (p 0%nat k))).
  2:{ intros i Hi. rewrite (He i 0%nat k) by assumption. reflexivity. }
  rewrite !rsum_const. rewrite (pi0_rows_equal n K p 0%nat k) by assumption. field. exact HN.
Qed.
(* holds for every input with equal rows (clipping keeps rows equal): neither interior nor a sign
   condition on eps is needed *)
Theorem kl_independent_zero eps n K Y ovo : (0 < n)%nat -> rows_equal n K Y -> kl_score Rops eps n K Y ovo = 0.
Proof.
  intros Hn He. rewrite kl_score_clean.
  assert (He' : rows_equal n K (P Rops eps Y)).
  { intros i j k Hi Hj Hk. unfold P. rewrite (He i j k) by assumption. reflexivity. }
  destruct ovo; [apply klo_rows_equal | apply klc_rows_equal]; assumption.
Qed.

(* ------------------------------------------------------------------ non-negativity (Gibbs) *)
Lemma ln_le_minus1 x : 0 < x -> ln x <= x - 1.
Proof.
  intros Hx. pose proof (exp_ineq1_le (ln x)) as H. rewrite exp_ln in H by exact Hx. lra.
Qed.
(* Gibbs' inequality for two positive weight vectors of equal total mass *)
Lemma KLdiv_nonneg n a b :
  (forall i, (i < n)%nat -> 0 < a i) -> (forall i, (i < n)%nat -> 0 < b i) ->
  rsum n a = rsum n b -> 0 <= KLdiv n a b.
Proof.
  intros Ha Hb Hs. unfold KLdiv.
  apply Rle_trans with (rsum n (fun i => a i - b i)).
  - assert (E : rsum n (fun i => a i - b i) = rsum n a - rsum n b) by apply rsum_minus.
    rewrite E. lra.
  - apply rsum_le. intros i Hi. specialize (Ha i Hi). specialize (Hb i Hi).
    assert (Hq : 0 < b i / a i) by (apply Rdiv_lt_0_compat; assumption).
    pose proof (ln_le_minus1 (b i / a i) Hq) as Hl.
    rewrite ln_div in Hl by assumption. rewrite ln_div by assumption.
    assert (E : a i * (b i / a i - 1) = b i - a i) by (field; lra).
    assert (Hm : a i * (ln (b i) - ln (a i)) <= a i * (b i / a i - 1)).
    { apply Rmult_le_compat_l; lra. }
    lra.
Qed.
(* the empirical conditionals and the empirical data law are probability vectors *)
Lemma cond_sum_one n p k : (0 < n)%nat -> pi0 n p k <> 0 -> rsum n (cond n p k) = 1.
Proof.
  intros Hn Hpi. assert (HN : INR n <> 0) by (apply not_0_INR; lia).
  rewrite (rsum_ext n (cond n p k) (fun i => p i k / (INR n * pi0 n p k))) by reflexivity.
  rewrite rsum_divc.
  assert (HS : rsum n (fun i => p i k) = INR n * pi0 n p k) by (unfold pi0; field; exact HN).
  rewrite HS. field. split; assumption.
Qed.
Lemma unif_sum_one n : (0 < n)%nat -> rsum n (unif n) = 1.
Proof.
  intros Hn. rewrite (rsum_ext n (unif n) (fun _ => / INR n)) by reflexivity.
  rewrite rsum_const. field. apply not_0_INR. lia.
Qed.
Lemma cond_pos n K p k i : (0 < n)%nat -> (forall i k, (i < n)%nat -> (k < K)%nat -> 0 < p i k) ->
  (i < n)%nat -> (k < K)%nat -> 0 < cond n p k i.
Proof.
  intros Hn Hp Hi Hk. unfold cond. apply Rdiv_lt_0_compat; [apply Hp; assumption|].
  apply Rmult_lt_0_compat; [apply lt_0_INR; lia | apply (pi0_pos n K); assumption].
Qed.
(* one-vs-all: no row-stochasticity needed *)
Lemma klc_nonneg n K p : (0 < n)%nat -> (forall i k, (i < n)%nat -> (k < K)%nat -> 0 < p i k) -> 0 <= klc n K p.
Proof.
  intros Hn Hp. rewrite (klc_is_definition n K p Hn Hp). unfold gemini_ova.
  apply rsum_nonneg. intros k Hk.
  assert (Hpi : 0 < pi0 n p k) by (apply (pi0_pos n K); assumption).
  apply Rmult_le_pos; [lra|]. apply KLdiv_nonneg.
  - intros i Hi. apply (cond_pos n K); assumption.
  - intros i Hi. unfold unif. apply Rinv_0_lt_compat, lt_0_INR. lia.
  - rewrite cond_sum_one by (try assumption; lra). rewrite unif_sum_one by exact Hn. reflexivity.
Qed.
Lemma klo_nonneg n K p : (0 < n)%nat -> (forall i k, (i < n)%nat -> (k < K)%nat -> 0 < p i k) ->
  row_stochastic n K p -> 0 <= klo n K p.
Proof.
  intros Hn Hp Hr. rewrite (klo_is_definition n K p Hn Hp Hr). unfold gemini_ovo.
  apply rsum_nonneg. intros a Ha. apply rsum_nonneg. intros b Hb.
  assert (Hpa : 0 < pi0 n p a) by (apply (pi0_pos n K); assumption).
  assert (Hpb : 0 < pi0 n p b) by (apply (pi0_pos n K); assumption).
  apply Rmult_le_pos; [apply Rmult_le_pos; lra|]. apply KLdiv_nonneg.
  - intros i Hi. apply (cond_pos n K); assumption.
  - intros i Hi. apply (cond_pos n K); assumption.
  - rewrite !cond_sum_one by (try assumption; lra). reflexivity.
Qed.
Theorem kl_nonneg eps n K Y ovo : 0 <= eps -> (0 < n)%nat -> interior eps n K Y -> row_stochastic n K Y ->
  0 <= kl_score Rops eps n K Y ovo.
Proof.
  intros He Hn HI Hr. pose proof (interior_pos eps n K Y He HI) as Hp.
  rewrite (kl_score_is_definition eps n K Y ovo He Hn HI Hr).
  rewrite <- (klo_is_definition n K Y Hn Hp Hr), <- (klc_is_definition n K Y Hn Hp).
  destruct ovo; [apply klo_nonneg | apply klc_nonneg]; assumption.
Qed.
(* bonus: the one-vs-all score (mutual information of the clipped matrix) is non-negative for EVERY
   input, clipped or not, row-stochastic or not *)
Theorem kl_ova_nonneg_all eps n K Y : 0 < eps < 1 -> (0 < n)%nat -> 0 <= kl_score Rops eps n K Y false.
Proof.
  intros He Hn. rewrite kl_score_clean. apply klc_nonneg; [exact Hn|].
  intros i k _ _. unfold P. apply clip_pos. exact He.
Qed.

(* ------------------------------------------------------------------ MI of a balanced hard partition = ln K *)
(* UNCLIPPED evaluation (clean form klc on the 0/1 matrix).  The code evaluates klc at the clipped
   matrix (entries eps / 1-eps), whose value differs from ln K by at most a constant times
   K * eps * |ln eps|; that bound is not proved here. *)
Theorem mi_balanced_hard_is_lnK n K m (assign : nat -> nat) (p : mat) :
  (0 < m)%nat -> (0 < K)%nat -> n = (m * K)%nat ->
  (forall i k, (i < n)%nat -> (k < K)%nat -> p i k = if Nat.eqb (assign i) k then 1 else 0) ->
  (forall k, (k < K)%nat -> rsum n (fun i => p i k) = INR m) ->
  klc n K p = ln (INR K).
Proof.
  intros Hm HK Hn Hp Hbal.
  assert (Hm' : 0 < INR m) by (apply lt_0_INR; lia).
  assert (HK' : 0 < INR K) by (apply lt_0_INR; lia).
  assert (HN : INR n = INR m * INR K) by (rewrite Hn; apply mult_INR).
  unfold klc.
  rewrite (rsum_zero K (fun k => rsum n (fun i => p i k * ln (p i k)) / INR n)).
  2:{ intros k Hk. rewrite rsum_zero; [unfold Rdiv; ring|]. intros i Hi. rewrite (Hp i k Hi Hk).
      destruct (Nat.eqb (assign i) k); [rewrite ln_1; ring | ring]. }
  rewrite (rsum_ext K _ (fun _ => / INR K * ln (/ INR K))).
  2:{ intros k Hk. assert (E : pi0 n p k = / INR K).
      { unfold pi0. rewrite (Hbal k Hk), HN. field. lra. }
      rewrite E. reflexivity. }
  rewrite rsum_const. rewrite ln_Rinv by exact HK'. field. lra.
Qed.

(* ================================================================== B. clipped entry => zero gradient entry *)
Lemma mask_false_of_le eps (Y : mat) i k : Y i k <= eps -> mask Rops eps Y i k = false.
Proof.
  intros H. unfold mask. cbn [nltb Rops]. rewrite (Rltb_false eps (Y i k)) by lra. reflexivity.
Qed.
Lemma mask_false_of_ge eps (Y : mat) i k : 1 - eps <= Y i k -> mask Rops eps Y i k = false.
Proof.
  intros H. unfold mask. cbn [nltb nsub n1 Rops]. rewrite (Rltb_false (Y i k) (1 - eps)) by lra.
  apply andb_false_r.
Qed.
Lemma maskT_false eps (Y : mat) i k : mask Rops eps Y i k = false -> maskT Rops eps Y i k = 0.
Proof. intros H. unfold maskT. rewrite H. reflexivity. Qed.

Theorem kl_grad_clipped_zero eps n Y ovo i k :
  mask Rops eps Y i k = false -> kl_grad Rops eps n Y ovo i k = 0.
Proof. intros H. unfold kl_grad. rewrite (maskT_false eps Y i k H). apply Rmult_0_r. Qed.
Theorem tv_grad_clipped_zero eps n K Y ovo i k :
  mask Rops eps Y i k = false -> tv_grad Rops eps n K Y ovo i k = 0.
Proof. intros H. unfold tv_grad. rewrite (maskT_false eps Y i k H). apply Rmult_0_r. Qed.
Theorem he_grad_clipped_zero eps n K Y ovo i k :
  mask Rops eps Y i k = false -> he_grad Rops eps n K Y ovo i k = 0.
Proof. intros H. unfold he_grad. rewrite (maskT_false eps Y i k H). apply Rmult_0_r. Qed.
Theorem chi_grad_clipped_zero eps n K Y ovo i k :
  mask Rops eps Y i k = false -> chi_grad Rops eps n K Y ovo i k = 0.
Proof. intros H. unfold chi_grad. rewrite (maskT_false eps Y i k H). apply Rmult_0_r. Qed.
Theorem mmd_grad_clipped_zero eps n K Y A ovo i k :
  mask Rops eps Y i k = false -> mmd_grad Rops eps n K Y A ovo i k = 0.
Proof. intros H. unfold mmd_grad. rewrite (maskT_false eps Y i k H). apply Rmult_0_r. Qed.
Theorem ws_grad_clipped_zero eps n K Y emd_ova u_ova emd_ovo u_ovo v_ovo ovo i k :
  mask Rops eps Y i k = false -> ws_grad Rops eps n K Y emd_ova u_ova emd_ovo u_ovo v_ovo ovo i k = 0.
Proof. intros H. unfold ws_grad. rewrite (maskT_false eps Y i k H). apply Rmult_0_r. Qed.

(* ================================================================== C. empty cluster *)
(* an entry <= eps is clipped to the same constant as eps itself (= eps when eps <= 1 - eps) *)
Lemma nclip_le eps y : y <= eps -> nclip Rops eps (1 - eps) y = nclip Rops eps (1 - eps) eps.
Proof.
  intros H. unfold nclip. f_equal. unfold nmax. cbn [nltb Rops]. unfold Rltb.
  destruct (Rlt_dec y eps); destruct (Rlt_dec eps eps); lra.
Qed.
Lemma pi0_const_col n p k c : (0 < n)%nat -> (forall i, (i < n)%nat -> p i k = c) -> pi0 n p k = c.
Proof.
  intros Hn H. unfold pi0. rewrite (rsum_ext n _ (fun _ => c)) by exact H.
  rewrite rsum_const. field. apply not_0_INR. lia.
Qed.
(* a constant column contributes nothing to either KL form *)
Lemma klc_S_const n K p c : (0 < n)%nat -> (forall i, (i < n)%nat -> p i K = c) -> klc n (S K) p = klc n K p.
Proof.
  intros Hn H. assert (HN : INR n <> 0) by (apply not_0_INR; lia).
  unfold klc. rewrite !rsum_S. rewrite (pi0_const_col n p K c Hn H).
  rewrite (rsum_ext n (fun i => p i K * ln (p i K)) (fun _ => c * ln c)) by (intros i Hi; rewrite (H i Hi); reflexivity).
  rewrite rsum_const. field. exact HN.
Qed.
Lemma klo_S_const n K p c : (0 < n)%nat -> (forall i, (i < n)%nat -> p i K = c) -> klo n (S K) p = klo n K p.
Proof.
  intros Hn H. assert (HN : INR n <> 0) by (apply not_0_INR; lia).
  unfold klo. rewrite !rsum_S. rewrite (pi0_const_col n p K c Hn H).
  rewrite (rsum_ext n (fun i => p i K * ln (p i K)) (fun _ => c * ln c)) by (intros i Hi; rewrite (H i Hi); reflexivity).
  rewrite (rsum_ext n (fun i => ln (p i K)) (fun _ => ln c)) by (intros i Hi; rewrite (H i Hi); reflexivity).
  rewrite !rsum_const. field. exact HN.
Qed.
Lemma tvc_S_const n K p c : (0 < n)%nat -> (forall i, (i < n)%nat -> p i K = c) -> tvc n (S K) p = tvc n K p.
Proof.
  intros Hn H. unfold tvc. rewrite rsum_S. rewrite (pi0_const_col n p K c Hn H).
  rewrite (rsum_zero n (fun i => Rabs (p i K - c))).
  2:{ intros i Hi. rewrite (H i Hi). rewrite Rminus_diag_eq by reflexivity. apply Rabs_R0. }
  unfold Rdiv. ring.
Qed.

(* K+1 clusters, the last one empty (column K of the prediction <= eps on every sample, hence clipped
   to a constant and masked): the KL score is EXACTLY the score of the K-cluster prediction, both flags.
   Only the entries i < n, k <= K of Y' and i < n, k < K of Y are constrained. *)
Theorem kl_empty_cluster_neutral eps n K (Y Y' : mat) ovo : (0 < n)%nat ->
  (forall i k, (i < n)%nat -> (k < K)%nat -> Y' i k = Y i k) ->
  (forall i, (i < n)%nat -> Y' i K <= eps) ->
  kl_score Rops eps n (S K) Y' ovo = kl_score Rops eps n K Y ovo.
Proof.
  intros Hn Hsame Hemp. rewrite !kl_score_clean.
  assert (Hc : forall i, (i < n)%nat -> P Rops eps Y' i K = nclip Rops eps (1 - eps) eps).
  { intros i Hi. unfold P. cbn [nsub n1 Rops]. apply nclip_le. apply Hemp. exact Hi. }
  assert (Hx : forall i k, (i < n)%nat -> (k < K)%nat -> P Rops eps Y' i k = P Rops eps Y i k).
  { intros i k Hi Hk. unfold P. rewrite (Hsame i k Hi Hk). reflexivity. }
  destruct ovo.
  - rewrite (klo_S_const n K (P Rops eps Y') _ Hn Hc). apply klo_ext. exact Hx.
  - rewrite (klc_S_const n K (P Rops eps Y') _ Hn Hc). apply klc_ext. exact Hx.
Qed.
(* the empty cluster's gradient column is zero (it is masked) *)
Corollary kl_empty_cluster_grad_zero eps n K (Y' : mat) ovo i : Y' i K <= eps -> kl_grad Rops eps n Y' ovo i K = 0.
Proof. intros H. apply kl_grad_clipped_zero. apply mask_false_of_le. exact H. Qed.

(* TV one-vs-all: the added column has difference p - pi = 0 on every sample *)
Theorem tv_ova_empty_cluster_neutral eps n K (Y Y' : mat) : (0 < n)%nat ->
  (forall i k, (i < n)%nat -> (k < K)%nat -> Y' i k = Y i k) ->
  (forall i, (i < n)%nat -> Y' i K <= eps) ->
  tv_score Rops eps n (S K) Y' false = tv_score Rops eps n K Y false.
Proof.
  intros Hn Hsame Hemp. rewrite !tv_score_clean.
  assert (Hc : forall i, (i < n)%nat -> P Rops eps Y' i K = nclip Rops eps (1 - eps) eps).
  { intros i Hi. unfold P. cbn [nsub n1 Rops]. apply nclip_le. apply Hemp. exact Hi. }
  rewrite (tvc_S_const n K (P Rops eps Y') _ Hn Hc). apply tvc_ext.
  intros i k Hi Hk. unfold P. rewrite (Hsame i k Hi Hk). reflexivity.
Qed.
(* NOT exactly neutral (terms of order eps from the clipped empty column), not attempted:
   TV one-vs-one, Hellinger (both flags), chi-square (both flags), MMD, Wasserstein. *)
