(* C11 — the documented behaviour (written here, independently of the regenerated tables) and the
   proofs that the interpreter of Model/Forwarding.v run on Gen/Forwarding.v satisfies it. *)
From Coq Require Import List String Bool Arith Lia.
From GV Require Import Model.Forwarding Gen.Forwarding.
Import ListNotations.
Open Scope string_scope.

(* ------------------------------------------------------------------ the documentation as data *)
Inductive doc := DocMMD | DocWasserstein | DocMI | DocGeneric.

(* every DiscriminativeModel subclass of the library and what its docstring says it optimises *)
Definition documented : list (string * doc) :=
  [("LinearModel", DocGeneric); ("LinearMMD", DocMMD); ("LinearWasserstein", DocWasserstein);
   ("RIM", DocMI); ("KernelRIM", DocMI);
   ("MLPModel", DocGeneric); ("MLPMMD", DocMMD); ("MLPWasserstein", DocWasserstein);
   ("SparseLinearModel", DocGeneric); ("SparseLinearMMD", DocMMD); ("SparseLinearMI", DocMI);
   ("SparseMLPModel", DocGeneric); ("SparseMLPMMD", DocMMD);
   ("CategoricalModel", DocGeneric); ("CategoricalMMD", DocMMD); ("CategoricalWasserstein", DocWasserstein);
   ("Douglas", DocGeneric)].

(* gemini name |-> (class of the object, class whose evaluate runs, ovo) *)
Definition documented_registry : list (string * (string * string * bool)) :=
  [("mmd_ova", ("MMDGEMINI", "MMDGEMINI", false)); ("mmd_ovo", ("MMDGEMINI", "MMDGEMINI", true));
   ("wasserstein_ova", ("WassersteinGEMINI", "WassersteinGEMINI", false));
   ("wasserstein_ovo", ("WassersteinGEMINI", "WassersteinGEMINI", true));
   ("kl_ova", ("MI", "KLGEMINI", false)); ("kl_ovo", ("KLGEMINI", "KLGEMINI", true));
   ("mi", ("MI", "KLGEMINI", false));
   ("tv_ova", ("TVGEMINI", "TVGEMINI", false)); ("tv_ovo", ("TVGEMINI", "TVGEMINI", true));
   ("hellinger_ova", ("HellingerGEMINI", "HellingerGEMINI", false));
   ("hellinger_ovo", ("HellingerGEMINI", "HellingerGEMINI", true));
   ("chi2_ova", ("ChiSquareGEMINI", "ChiSquareGEMINI", false));
   ("chi2_ovo", ("ChiSquareGEMINI", "ChiSquareGEMINI", true))].

(* default GEMINIs "involve the Euclidean metric or linear kernel" with default parameters *)
Definition doc_aff (family : string) : aff_src :=
  if String.eqb family "MMDGEMINI" then AffSpec PKernels (Some (VC (CStr "linear"))) (Some (VC CNone))
  else if String.eqb family "WassersteinGEMINI" then AffSpec PDistances (Some (VC (CStr "euclidean"))) (Some (VC CNone))
  else AffNone.
Definition doc_desc (e : string * string * bool) : built_desc :=
  let '(cls, fam, ovo) := e in
  {| gd_class := cls; gd_family := Some fam; gd_ovo := Some (VC (CBool ovo)); gd_aff := doc_aff fam |}.
Definition doc_lookup (s : string) : option built_desc := option_map doc_desc (lookup s documented_registry).

(* gemini given as None / name / instance *)
Definition spec_resolve (v : value) : option gemini_desc :=
  match v with
  | VC CNone => option_map DBuilt (doc_lookup "mmd_ova")
  | VC (CStr s) => option_map DBuilt (doc_lookup s)
  | VC (CBool b) => Some (DUser (VC (CBool b)))
  | VC (CNum x) => Some (DUser (VC (CNum x)))
  | VCallable k => Some (DUser (VCallable k))
  | VDict k => Some (DUser (VDict k))
  | VObj k => Some (DUser (VObj k))
  end.

Definition expected (d : doc) (rho : string -> value) : option gemini_desc :=
  match d with
  | DocMMD => Some (DBuilt {| gd_class := "MMDGEMINI"; gd_family := Some "MMDGEMINI"; gd_ovo := Some (rho "ovo");
                              gd_aff := AffSpec PKernels (Some (rho "kernel")) (Some (rho "kernel_params")) |})
  | DocWasserstein => Some (DBuilt {| gd_class := "WassersteinGEMINI"; gd_family := Some "WassersteinGEMINI";
                              gd_ovo := Some (rho "ovo");
                              gd_aff := AffSpec PDistances (Some (rho "metric")) (Some (rho "metric_params")) |})
  | DocMI => Some (DBuilt {| gd_class := "MI"; gd_family := Some "KLGEMINI"; gd_ovo := Some (VC (CBool false));
                             gd_aff := AffNone |})
  | DocGeneric => spec_resolve (rho "gemini")
  end.

(* the affinity the documented estimator trains and scores with *)
Definition expected_affinity (d : doc) (rho : string -> value) (has_y : bool) : option (option outcome) :=
  match d with
  | DocMMD => Some (Some (affinity_dispatch {| a_kind := PKernels; a_fn := rho "kernel"; a_params := rho "kernel_params" |} has_y))
  | DocWasserstein => Some (Some (affinity_dispatch {| a_kind := PDistances; a_fn := rho "metric"; a_params := rho "metric_params" |} has_y))
  | DocMI => Some None
  | DocGeneric => match spec_resolve (rho "gemini") with
                  | Some (DBuilt b) => match gd_aff b with
                                       | AffNone => Some None
                                       | AffSpec k (Some f) (Some p) => Some (Some (affinity_dispatch {| a_kind := k; a_fn := f; a_params := p |} has_y))
                                       | _ => None
                                       end
                  | _ => None
                  end
  end.

(* constructor arguments that the documentation fixes: attribute |-> constant *)
Definition documented_fixed : list (string * list (string * const)) :=
  [("LinearMMD", [("gemini", CNone)]); ("LinearWasserstein", [("gemini", CNone)]);
   ("RIM", [("gemini", CStr "mi")]); ("KernelRIM", [("gemini", CStr "mi")]);
   ("MLPMMD", [("gemini", CNone)]); ("MLPWasserstein", [("gemini", CNone)]);
   ("SparseLinearMMD", [("gemini", CNone)]); ("SparseLinearMI", [("gemini", CStr "mi"); ("dynamic", CBool false)]);
   ("SparseMLPMMD", [("gemini", CNone)]);
   ("CategoricalMMD", [("gemini", CNone); ("batch_size", CNone)]);
   ("CategoricalWasserstein", [("gemini", CNone); ("batch_size", CNone)]);
   ("LinearModel", []); ("MLPModel", []); ("SparseLinearModel", []); ("SparseMLPModel", []);
   ("CategoricalModel", [("batch_size", CNone)]); ("Douglas", []); ("Kauri", []);
   ("MMDGEMINI", []); ("WassersteinGEMINI", []); ("KLGEMINI", []); ("TVGEMINI", []);
   ("HellingerGEMINI", []); ("ChiSquareGEMINI", []); ("MI", [("ovo", CBool false)])].
(* documented defaults of the affinity-related parameters *)
Definition documented_defaults : list (string * list (string * const)) :=
  let mmd := [("kernel", CStr "linear"); ("kernel_params", CNone); ("ovo", CBool false)] in
  let was := [("metric", CStr "euclidean"); ("metric_params", CNone); ("ovo", CBool false)] in
  let gen := [("gemini", CStr "mmd_ova")] in
  [("LinearMMD", mmd); ("MLPMMD", mmd); ("SparseLinearMMD", mmd); ("SparseMLPMMD", mmd); ("CategoricalMMD", mmd);
   ("MMDGEMINI", mmd); ("LinearWasserstein", was); ("MLPWasserstein", was); ("CategoricalWasserstein", was);
   ("WassersteinGEMINI", was); ("LinearModel", gen); ("MLPModel", gen); ("SparseLinearModel", gen);
   ("SparseMLPModel", gen); ("CategoricalModel", gen); ("Douglas", [("gemini", CStr "wasserstein_ova")]);
   ("KernelRIM", [("base_kernel", CStr "linear"); ("base_kernel_params", CNone)]); ("Kauri", [("kernel", CStr "linear")])].

Definition extras (params : list string) (attrs : list (string * value)) : list (string * value) :=
  filter (fun kv => negb (mem (fst kv) params)) attrs.
Definition full_call (cls : string) (rho : string -> value) : estimator_config :=
  {| e_class := cls; e_kwargs := kw_of classes cls rho |}.

(* ------------------------------------------------------------------ constructors *)
Ltac split_in H := simpl In in H; repeat (destruct H as [H | H]; [ | ]); try contradiction.

(* every constructor argument ends up, unmodified, in the attribute of the same name; all other
   attributes the constructor chain sets hold literal constants *)
Lemma ctor_stores_own_names : forall cls, In cls (map c_name classes) -> forall rho : string -> value,
  exists attrs, construct classes cls [] (kw_of classes cls rho) = Some attrs /\
    (forall p, In p (param_names classes cls) -> lookup p attrs = Some (rho p)) /\
    Forall (fun kv => In (fst kv) (param_names classes cls) \/ exists k, snd kv = VC k) attrs.
Proof.
  intros cls Hin rho. vm_compute in Hin. split_in Hin; subst cls;
    (eexists; split; [ vm_compute; reflexivity | split;
      [ intros p Hp; vm_compute in Hp; repeat (destruct Hp as [Hp | Hp]; [ subst p; reflexivity | ]); contradiction
      | repeat (apply Forall_cons;
                [ first [ left; vm_compute; solve [ repeat (first [ left; reflexivity | right ]) ]
                        | right; eexists; reflexivity ] | ]); apply Forall_nil ] ]).
Qed.

Lemma ctor_fixed_arguments : forall cls fx, In (cls, fx) documented_fixed -> forall rho : string -> value,
  exists attrs, estimator_attrs classes (full_call cls rho) = Some attrs /\
    extras (param_names classes cls) attrs = map (fun ac => (fst ac, VC (snd ac))) fx.
Proof.
  intros cls fx Hin rho. unfold documented_fixed in Hin. split_in Hin; inversion Hin; subst;
    (eexists; split; [ vm_compute; reflexivity | vm_compute; reflexivity ]).
Qed.

Lemma ctor_defaults : forall cls dl, In (cls, dl) documented_defaults ->
  exists attrs, construct classes cls [] [] = Some attrs /\
    Forall (fun ac => lookup (fst ac) attrs = Some (VC (snd ac))) dl.
Proof.
  intros cls dl Hin. unfold documented_defaults in Hin. split_in Hin; inversion Hin; subst;
    (eexists; split; [ vm_compute; reflexivity | repeat constructor ]).
Qed.

(* ------------------------------------------------------------------ registry *)
Definition model_str_desc (s : string) : option gemini_desc :=
  option_map (describe classes) (str_to_gemini classes gemini_registry s).

Lemma registry_table : forall name e, In (name, e) documented_registry ->
  model_str_desc name = Some (DBuilt (doc_desc e)).
Proof.
  intros name e Hin. unfold documented_registry in Hin. split_in Hin; inversion Hin; subst; vm_compute; reflexivity.
Qed.

Lemma registry_available : forall s, In s (r_available gemini_registry) <-> In s (map fst documented_registry).
Proof. intro s. vm_compute. tauto. Qed.

Lemma registry_available_count : List.length (r_available gemini_registry) = 13 /\ NoDup (r_available gemini_registry).
Proof.
  split; [ reflexivity | ].
  unfold gemini_registry, r_available.
  repeat (constructor; [ simpl In; intro H; repeat (destruct H as [H | H]; [ discriminate H | ]); exact H | ]).
  constructor.
Qed.

Lemma mem_false : forall s l, ~ In s l -> mem s l = false.
Proof.
  intros s l. induction l as [| x r IH]; intro Hn; [ reflexivity | ].
  cbn [mem]. destruct (String.eqb_spec s x) as [Heq | Hne].
  - exfalso. apply Hn. left. symmetry. exact Heq.
  - apply IH. intro Hr. apply Hn. right. exact Hr.
Qed.
Lemma lookup_none : forall (A : Type) s (l : list (string * A)), ~ In s (map fst l) -> lookup s l = None.
Proof.
  intros A s l. induction l as [| [k v] r IH]; intro Hn; [ reflexivity | ].
  cbn [lookup]. destruct (String.eqb_spec s k) as [Heq | Hne].
  - exfalso. apply Hn. left. symmetry. exact Heq.
  - apply IH. intro Hr. apply Hn. right. exact Hr.
Qed.

Lemma registry_unknown : forall s, ~ In s (map fst documented_registry) ->
  str_to_gemini classes gemini_registry s = None /\ doc_lookup s = None.
Proof.
  intros s Hn. split.
  - unfold str_to_gemini. rewrite mem_false; [ reflexivity | ]. intro H. apply Hn. apply registry_available. exact H.
  - unfold doc_lookup. rewrite lookup_none; [ reflexivity | exact Hn ].
Qed.

Lemma str_to_gemini_spec : forall s, model_str_desc s = option_map DBuilt (doc_lookup s).
Proof.
  intro s. destruct (in_dec string_dec s (map fst documented_registry)) as [Hin | Hn].
  - apply in_map_iff in Hin. destruct Hin as [[n e] [Hs Hin]]. cbn [fst] in Hs. subst n.
    rewrite (registry_table s e Hin).
    unfold documented_registry in Hin. split_in Hin; inversion Hin; subst; vm_compute; reflexivity.
  - destruct (registry_unknown s Hn) as [H1 H2]. unfold model_str_desc. rewrite H1, H2. reflexivity.
Qed.

(* ------------------------------------------------------------------ get_gemini *)
(* DiscriminativeModel.get_gemini as the model runs it, as a function of the value of self.gemini *)
Definition model_resolve (v : value) : option gemini_desc :=
  match v with
  | VC CNone => model_str_desc "mmd_ova"
  | VC (CStr s) => model_str_desc s
  | VC (CBool b) => Some (DUser (VC (CBool b)))
  | VC (CNum x) => Some (DUser (VC (CNum x)))
  | VCallable k => Some (DUser (VCallable k))
  | VDict k => Some (DUser (VDict k))
  | VObj k => Some (DUser (VObj k))
  end.
Lemma model_resolve_spec : forall v, model_resolve v = spec_resolve v.
Proof.
  intro v. destruct v as [c | k | k | k]; try reflexivity.
  destruct c as [| b | s | x]; try reflexivity; cbn [model_resolve spec_resolve]; apply str_to_gemini_spec.
Qed.

Lemma generic_resolves : forall cls, In (cls, DocGeneric) documented -> forall rho : string -> value,
  resolve_gemini classes gemini_registry (full_call cls rho) = model_resolve (rho "gemini").
Proof.
  intros cls Hin rho. unfold documented in Hin. split_in Hin; inversion Hin; subst;
    (unfold resolve_gemini, estimator_gemini, full_call;
     cbn [e_class e_kwargs];
     match goal with |- option_map _ (obind ?a _) = _ =>
       let x := eval vm_compute in a in change a with x end;
     cbn [obind];
     match goal with |- option_map _ (get_gemini _ _ ?c ?at_) = _ =>
       let g := eval cbv in (find_method classes (chain_fuel classes) c "get_gemini") in
       unfold get_gemini; change (find_method classes (chain_fuel classes) c "get_gemini") with g end;
     cbv beta iota; cbn [c_get_gemini lookup String.eqb Ascii.eqb Bool.eqb];
     unfold model_resolve, model_str_desc;
     destruct (rho "gemini") as [[| b | s | x] | k | k | k]; reflexivity).
Qed.

Lemma get_gemini_table : forall cls d, In (cls, d) documented -> forall rho : string -> value,
  resolve_gemini classes gemini_registry (full_call cls rho) = expected d rho.
Proof.
  intros cls d Hin rho. destruct d.
  1-3: unfold documented in Hin; split_in Hin; inversion Hin; subst; vm_compute; reflexivity.
  rewrite (generic_resolves cls Hin rho). apply model_resolve_spec.
Qed.

(* the affinity each documented estimator trains and scores with *)
Lemma training_affinity_table : forall cls d, In (cls, d) documented -> forall (rho : string -> value) has_y,
  training_affinity classes gemini_registry (full_call cls rho) has_y = expected_affinity d rho has_y.
Proof.
  intros cls d Hin rho has_y.
  assert (Hg := get_gemini_table cls d Hin rho).
  assert (Hown : method_owner classes cls "get_gemini" <> None /\
                 estimator_attrs classes (full_call cls rho) <> None).
  { unfold documented in Hin. split_in Hin; inversion Hin; subst; split; vm_compute; discriminate. }
  destruct Hown as [Hown Hat].
  unfold training_affinity. unfold resolve_gemini, estimator_gemini in Hg.
  destruct (estimator_attrs classes (full_call cls rho)) as [attrs |]; [ | contradiction ].
  cbn [obind] in Hg |- *. cbn [e_class full_call] in Hg |- *.
  destruct (method_owner classes cls "get_gemini") as [o |]; [ | contradiction ].
  destruct (get_gemini classes gemini_registry cls attrs) as [g |]; cbn [option_map obind] in Hg |- *.
  - destruct d; cbn [expected expected_affinity] in Hg |- *.
    1-3: injection Hg as Hg; rewrite Hg; reflexivity.
    rewrite <- Hg. destruct (describe classes g) as [v | b]; reflexivity.
  - destruct d; cbn [expected expected_affinity] in Hg |- *; try discriminate Hg. rewrite <- Hg. reflexivity.
Qed.

Lemma kauri_training_affinity : forall (rho : string -> value) has_y,
  training_affinity classes gemini_registry (full_call "Kauri" rho) has_y = Some (Some (fst (kauri_dispatch (rho "kernel") has_y))).
Proof. intros rho has_y. vm_compute. reflexivity. Qed.

(* ------------------------------------------------------------------ affinity dispatch *)
Lemma affinity_dispatch_spec : forall (s : affinity_spec) (has_y : bool),
  (forall f, a_fn s = VCallable f -> affinity_dispatch s has_y = CallUser f) /\
  (a_fn s = VC (CStr "precomputed") ->
     affinity_dispatch s has_y = if has_y then UseGiven else ErrorMissing) /\
  (forall name, a_fn s = VC (CStr name) -> name <> "precomputed" ->
     affinity_dispatch s has_y = Pairwise (a_kind s) (VC (CStr name)) (params_of (a_params s))) /\
  params_of (VC CNone) = PEmpty /\ (forall d, params_of (VDict d) = PGiven (VDict d)) /\
  (affinity_warns s = true <-> (exists f, a_fn s = VCallable f) /\ a_params s <> VC CNone).
Proof.
  intros [k fn ps] has_y. cbn [a_fn a_kind a_params].
  split; [ | split; [ | split; [ | split; [ | split ] ] ] ].
  - intros f ->. reflexivity.
  - intros ->. reflexivity.
  - intros name -> Hne. unfold affinity_dispatch. cbn [a_fn a_kind a_params is_precomputed].
    destruct (String.eqb_spec name "precomputed") as [Heq | _]; [ contradiction | reflexivity ].
  - reflexivity.
  - intro d. reflexivity.
  - unfold affinity_warns; cbn [a_fn a_params]. split.
    + intro H. destruct fn as [c | f | d | o]; try discriminate H. split; [ exists f; reflexivity | ].
      destruct ps as [[| b | x | x] | f' | d | o]; try discriminate H; discriminate.
    + intros [[f Hf] Hp]. subst fn.
      destruct ps as [[| b | x | x] | f' | d | o]; try reflexivity. contradiction.
Qed.

Lemma kernelrim_dispatch_spec : forall bk bkp,
  (forall f, bk = VCallable f -> kernelrim_dispatch bk bkp = CallUser f) /\
  (forall name, bk = VC (CStr name) -> kernelrim_dispatch bk bkp = Pairwise PKernels (VC (CStr name)) (params_of bkp)).
Proof. intros bk bkp. split; [ intros f -> | intros name -> ]; reflexivity. Qed.

Lemma kauri_dispatch_spec : forall kernel has_y,
  (kernel = VC (CStr "precomputed") -> kauri_dispatch kernel true = (UseGiven, false)) /\
  (forall name, kernel = VC (CStr name) -> name <> "precomputed" ->
     kauri_dispatch kernel has_y = (Pairwise PKernels (VC (CStr name)) PEmpty, false)).
Proof.
  intros kernel has_y. split.
  - intros ->. reflexivity.
  - intros name -> Hne. unfold kauri_dispatch. cbn [is_precomputed].
    destruct (String.eqb_spec name "precomputed") as [Heq | _]; [ contradiction | reflexivity ].
Qed.

(* the property asks: a missing matrix is an error.  Kauri as it is: a warning and the linear kernel *)
Lemma kauri_missing_matrix_refuted :
  exists kernel, is_precomputed kernel = true /\ fst (kauri_dispatch kernel false) <> ErrorMissing /\
    kauri_dispatch kernel false = (Pairwise PKernels (VC (CStr "linear")) PEmpty, true).
Proof. exists (VC (CStr "precomputed")). repeat split. discriminate. Qed.

(* ------------------------------------------------------------------ precomputed = named *)
Section Congruence.
Context {T St : Type}.

Lemma mat_tab_ext : forall n (A B : nat -> nat -> T),
  (forall i j, i < n -> j < n -> A i j = B i j) -> mat_tab n A = mat_tab n B.
Proof.
  intros n A B H. unfold mat_tab. apply map_ext_in. intros i Hi. apply in_seq in Hi.
  apply map_ext_in. intros j Hj. apply in_seq in Hj. apply H; lia.
Qed.

(* training sees the affinity only through its entries: equal entries, equal histories *)
Lemma history_congruence : forall n (step : list (list T) -> nat -> St -> St) (A B : nat -> nat -> T) t steps s,
  (forall i j, i < n -> j < n -> A i j = B i j) ->
  history step (mat_tab n A) t steps s = history step (mat_tab n B) t steps s.
Proof. intros n step A B t steps s H. rewrite (mat_tab_ext n A B H). reflexivity. Qed.

Lemma precomputed_equals_named : forall n (step : list (list T) -> nat -> St -> St) steps s0
    (pwf : pw -> value -> pwparams -> nat -> nat -> T) (callf : nat -> nat -> nat -> T)
    (kind : pw) (name : string) (params anyparams : value) (Y : nat -> nat -> T),
  name <> "precomputed" ->
  (forall i j, i < n -> j < n -> Y i j = pwf kind (VC (CStr name)) (params_of params) i j) ->
  let named := {| a_kind := kind; a_fn := VC (CStr name); a_params := params |} in
  let pre := {| a_kind := kind; a_fn := VC (CStr "precomputed"); a_params := anyparams |} in
  fit_history n step steps s0 pwf callf None (affinity_dispatch named false)
    = fit_history n step steps s0 pwf callf (Some Y) (affinity_dispatch pre true) /\
  fit_history n step steps s0 pwf callf None (affinity_dispatch named false) <> None.
Proof.
  intros n step steps s0 pwf callf kind name params anyparams Y Hne HY named pre.
  destruct (affinity_dispatch_spec named false) as (_ & _ & Hn & _).
  rewrite (Hn name eq_refl Hne). cbn [a_kind a_params named].
  change (affinity_dispatch pre true) with UseGiven.
  unfold fit_history. cbn [affinity_matrix option_map]. split; [ | discriminate ].
  f_equal. symmetry. apply history_congruence. exact HY.
Qed.

Lemma kauri_precomputed_equals_named : forall n (step : list (list T) -> nat -> St -> St) steps s0
    (pwf : pw -> value -> pwparams -> nat -> nat -> T) (callf : nat -> nat -> nat -> T)
    (name : string) (Y : nat -> nat -> T),
  name <> "precomputed" ->
  (forall i j, i < n -> j < n -> Y i j = pwf PKernels (VC (CStr name)) PEmpty i j) ->
  fit_history n step steps s0 pwf callf None (fst (kauri_dispatch (VC (CStr name)) false))
    = fit_history n step steps s0 pwf callf (Some Y) (fst (kauri_dispatch (VC (CStr "precomputed")) true)) /\
  fit_history n step steps s0 pwf callf None (fst (kauri_dispatch (VC (CStr name)) false)) <> None.
Proof.
  intros n step steps s0 pwf callf name Y Hne HY.
  destruct (kauri_dispatch_spec (VC (CStr name)) false) as [_ Hn].
  rewrite (Hn name eq_refl Hne). cbn [fst].
  change (fst (kauri_dispatch (VC (CStr "precomputed")) true)) with UseGiven.
  unfold fit_history. cbn [affinity_matrix option_map]. split; [ | discriminate ].
  f_equal. symmetry. apply history_congruence. exact HY.
Qed.

(* a missing matrix never trains: the GEMINI route raises *)
Lemma missing_matrix_is_error : forall n (step : list (list T) -> nat -> St -> St) steps s0 pwf callf kind anyparams,
  fit_history n step steps s0 pwf callf None
    (affinity_dispatch {| a_kind := kind; a_fn := VC (CStr "precomputed"); a_params := anyparams |} false) = None.
Proof. reflexivity. Qed.
End Congruence.

(* ------------------------------------------------------------------ score resolves the GEMINI at call time *)
(* documented: score(X, y) = GEMINI described by the CURRENT hyper-parameters, evaluated on predict_proba(X)
   with the affinity that GEMINI computes from (X, y): both come from self.get_gemini() called inside score;
   no attribute is read directly (in particular nothing remembered from fit) and none is written *)
Definition doc_score_discriminative : mexpr :=
  let g := MSelfCall "get_gemini" [] in
  MApply g [MSelfCall "predict_proba" [MVar "X"]; MMeth g "compute_affinity" [MVar "X"; MVar "y"]].
(* Kauri: its own objective on predict(X) with _compute_kernel(X, y), which reads self.kernel when called *)
Definition doc_score_kauri : mexpr :=
  MFn "gemini_objective" [MSelfCall "predict" [MVar "X"]; MSelfCall "_compute_kernel" [MVar "X"; MVar "y"]].
Definition score_core (cls : string) : option (mexpr * list string) :=
  option_map (fun tw => (strip_conv (fst tw), snd tw)) (score_term classes cls).

Lemma score_uses_current_params :
  (forall cls d, In (cls, d) documented -> score_core cls = Some (doc_score_discriminative, [])) /\
  score_core "Kauri" = Some (doc_score_kauri, []).
Proof.
  split; [ | vm_compute; reflexivity ].
  intros cls d Hin. unfold documented in Hin. split_in Hin; inversion Hin; subst; vm_compute; reflexivity.
Qed.

(* ------------------------------------------------------------------ fit_predict hands the matrix on *)
(* documented: fit_predict(X, y) = fit(X, y).labels_ : the (precomputed) matrix y reaches fit unchanged *)
Definition doc_fit_predict : mexpr := MField (MSelfCall "fit" [MVar "X"; MVar "y"]) "labels_".
Lemma fit_predict_forwards_matrix :
  (forall cls d, In (cls, d) documented -> fit_predict_term classes cls = Some (doc_fit_predict, [])) /\
  fit_predict_term classes "Kauri" = Some (doc_fit_predict, []).
Proof.
  split; [ | vm_compute; reflexivity ].
  intros cls d Hin. unfold documented in Hin. split_in Hin; inversion Hin; subst; vm_compute; reflexivity.
Qed.
