(* C16 — proofs about Model/Validation.v, Model/Doc.v and the regenerated Gen/Constraints.v. *)
From Coq Require Import List ZArith QArith String Bool Arith Lia Btauto Permutation Sorted.
From GV Require Import Model.Validation Model.Doc Gen.Constraints Gen.ValidationRules.
Import ListNotations.
Open Scope string_scope.
Open Scope list_scope.

(* ================================================================================================ order facts *)
Lemma qltb_antisym : forall x y, negb (qltb x y) = qleb y x.
Proof. intros x y. unfold qltb, qleb. rewrite Z.ltb_antisym, negb_involutive. reflexivity. Qed.
Lemma qleb_antisym : forall x y, negb (qleb x y) = qltb y x.
Proof. intros x y. unfold qltb, qleb. rewrite Z.leb_antisym, negb_involutive. reflexivity. Qed.
Lemma ext_ltb_antisym : forall x y, negb (ext_ltb x y) = ext_leb y x.
Proof. intros [|x|] [|y|]; simpl; try reflexivity. apply qltb_antisym. Qed.
Lemma ext_leb_antisym : forall x y, negb (ext_leb x y) = ext_ltb y x.
Proof. intros [|x|] [|y|]; simpl; try reflexivity. apply qleb_antisym. Qed.
Lemma qleb_inject : forall a b, qleb (inject_Z a) (inject_Z b) = (a <=? b)%Z.
Proof. intros a b. unfold qleb, inject_Z. simpl. rewrite !Z.mul_1_r. reflexivity. Qed.
Lemma qltb_inject : forall a b, qltb (inject_Z a) (inject_Z b) = (a <? b)%Z.
Proof. intros a b. unfold qltb, inject_Z. simpl. rewrite !Z.mul_1_r. reflexivity. Qed.

(* ================================================================================================ normal form of constraint lists *)
(* A constraint list is normalised to a [dom] (Model/Doc.v); [None] = shape outside the supported fragment. *)
Definition int_of_q (q : Q) : option Z := if Pos.eqb (Qden q) 1 then Some (Qnum q) else None.
Definition norm_zlo (lo : option ext) (closed : bool) : option (option Z) :=
  match lo with
  | None | Some NInf => Some None
  | Some (Fin q) => match int_of_q q with Some z => Some (Some (if closed then z else (z + 1)%Z)) | None => None end
  | Some PInf => None
  end.
Definition norm_zhi (hi : option ext) (closed : bool) : option (option Z) :=
  match hi with
  | None | Some PInf => Some None
  | Some (Fin q) => match int_of_q q with Some z => Some (Some (if closed then z else (z - 1)%Z)) | None => None end
  | Some NInf => None
  end.
Definition dom_ints (i : zitv) : dom :=
  {| d_ints := [i]; d_reals := []; d_bool := false; d_npbool := false; d_strs := []; d_none := false; d_callable := false;
     d_array := false; d_dict := false; d_list := false; d_tuple := false; d_sized := false; d_insts := [] |}.
Definition norm_inst (cls : string) : dom :=
  {| d_ints := []; d_reals := []; d_bool := String.eqb cls "bool"; d_npbool := String.eqb cls "bool_"; d_strs := []; d_none := false;
     d_callable := false; d_array := String.eqb cls "ndarray"; d_dict := String.eqb cls "dict"; d_list := String.eqb cls "list";
     d_tuple := String.eqb cls "tuple"; d_sized := false; d_insts := [cls] |}.
Definition dom_boolc : dom :=
  {| d_ints := []; d_reals := []; d_bool := true; d_npbool := true; d_strs := []; d_none := false; d_callable := false;
     d_array := false; d_dict := false; d_list := false; d_tuple := false; d_sized := false; d_insts := [] |}.
Definition dom_arraylikec : dom :=
  {| d_ints := []; d_reals := []; d_bool := false; d_npbool := false; d_strs := []; d_none := false; d_callable := false;
     d_array := true; d_dict := true; d_list := true; d_tuple := true; d_sized := true; d_insts := [] |}.
Definition ext_lo (lo : option ext) : ext := match lo with None => NInf | Some b => b end.
Definition ext_hi (hi : option ext) : ext := match hi with None => PInf | Some b => b end.

Definition norm_c (c : constraint) : option dom :=
  match c with
  | Interval TIntegral lo hi cl =>
      match norm_zlo lo (closed_left cl), norm_zhi hi (closed_right cl) with
      | Some l, Some h => Some (dom_ints {| zlo := l; zhi := h |})
      | _, _ => None
      end
  | Interval TReal lo hi cl =>
      Some (reals {| qlo := ext_lo lo; qlo_closed := closed_left cl; qhi := ext_hi hi; qhi_closed := closed_right cl |})
  | Interval TRealNotInt _ _ _ => None
  | StrOptions l => Some (strs l)
  | InstanceOf cls => if String.eqb cls "str" then None else Some (norm_inst cls)
  | NoneC => Some none_
  | BoolC => Some dom_boolc
  | CallableC => Some callable_
  | RandomStateC => Some (dom_union (dom_union (dom_ints {| zlo := Some 0%Z; zhi := Some seed_max |}) (norm_inst "RandomState")) none_)
  | ArrayLikeC => Some dom_arraylikec
  end.
Fixpoint norm_cs (cs : list constraint) : option dom :=
  match cs with
  | [] => Some dom_empty
  | c :: r => match norm_c c, norm_cs r with Some a, Some b => Some (dom_union a b) | _, _ => None end
  end.

Lemma dom_sem_union : forall t a b v, dom_sem t (dom_union a b) v = dom_sem t a v || dom_sem t b v.
Proof.
  intros t a b v. destruct v; simpl; unfold str_in; rewrite ?existsb_app; try btauto.
Qed.
Lemma dom_sem_empty : forall t v, dom_sem t dom_empty v = false.
Proof. intros t v. destruct v; reflexivity. Qed.

Lemma int_of_q_spec : forall q z, int_of_q q = Some z -> q = inject_Z z.
Proof.
  intros [n d] z H. unfold int_of_q in H. cbn [Qden Qnum] in H. destruct (Pos.eqb d 1) eqn:E; [|discriminate].
  apply Pos.eqb_eq in E. inversion H. subst. reflexivity.
Qed.

(* an Integral interval with integer bounds, on an integer: closed integer bounds *)
Lemma contains_int : forall lo hi cl l h z,
  norm_zlo lo (closed_left cl) = Some l -> norm_zhi hi (closed_right cl) = Some h ->
  contains lo hi cl (Fin (inject_Z z)) = in_zitv z {| zlo := l; zhi := h |}.
Proof.
  intros lo hi cl l h z Hl Hh. unfold contains, in_zitv. simpl zlo. simpl zhi. f_equal.
  - destruct lo as [[|q|]|]; simpl in Hl; try discriminate.
    + inversion Hl. subst. destruct (closed_left cl); reflexivity.
    + destruct (int_of_q q) as [z0|] eqn:E; [|discriminate]. apply int_of_q_spec in E. subst q.
      inversion Hl. subst l. destruct (closed_left cl); simpl.
      * rewrite qltb_inject. rewrite Z.ltb_antisym, negb_involutive. reflexivity.
      * rewrite qleb_inject. destruct (Z.leb_spec z z0), (Z.leb_spec (z0 + 1) z); simpl; try reflexivity; lia.
    + inversion Hl. subst. destruct (closed_left cl); reflexivity.
  - destruct hi as [[|q|]|]; simpl in Hh; try discriminate.
    + destruct (int_of_q q) as [z0|] eqn:E; [|discriminate]. apply int_of_q_spec in E. subst q.
      inversion Hh. subst h. destruct (closed_right cl); simpl.
      * rewrite qltb_inject. rewrite Z.ltb_antisym, negb_involutive. reflexivity.
      * rewrite qleb_inject. destruct (Z.leb_spec z0 z), (Z.leb_spec z (z0 - 1)); simpl; try reflexivity; lia.
    + inversion Hh. subst. destruct (closed_right cl); reflexivity.
    + inversion Hh. subst. destruct (closed_right cl); reflexivity.
Qed.

Lemma contains_real : forall lo hi cl x,
  contains lo hi cl x = in_qitv x {| qlo := ext_lo lo; qlo_closed := closed_left cl; qhi := ext_hi hi; qhi_closed := closed_right cl |}.
Proof.
  intros lo hi cl x. unfold contains, in_qitv, ext_lo, ext_hi. simpl.
  destruct (closed_left cl), (closed_right cl); rewrite ?ext_ltb_antisym, ?ext_leb_antisym; reflexivity.
Qed.

Lemma norm_inst_sound : forall t cls v, String.eqb cls "str" = false -> sat_instance t cls v = dom_sem t (norm_inst cls) v.
Proof.
  intros t cls v Hs. destruct v; simpl; rewrite ?orb_false_r; try reflexivity. exact Hs.
Qed.

Lemma seed_int_sound : forall t v,
  sat_interval TIntegral (Some (Fin 0)) (Some (Fin (inject_Z seed_max))) CBoth v = dom_sem t (dom_ints {| zlo := Some 0%Z; zhi := Some seed_max |}) v.
Proof.
  intros t v. unfold sat_interval. destruct v; simpl; try reflexivity.
  - rewrite (contains_int (Some (Fin 0)) (Some (Fin (inject_Z seed_max))) CBoth (Some 0%Z) (Some seed_max) z); try reflexivity.
    rewrite !orb_false_r. reflexivity.
  - rewrite (contains_int (Some (Fin 0)) (Some (Fin (inject_Z seed_max))) CBoth (Some 0%Z) (Some seed_max) (Z.b2z b)); try reflexivity.
    rewrite !orb_false_r. reflexivity.
Qed.
Lemma none_sound : forall t v, match v with VNone => true | _ => false end = dom_sem t none_ v.
Proof. intros t v. destruct v; reflexivity. Qed.

Lemma norm_c_sound : forall t c d v, norm_c c = Some d -> satisfied t c v = dom_sem t d v.
Proof.
  intros t c d v H. destruct c as [ty lo hi cl|l|cls| | | | |]; simpl in H.
  - destruct ty.
    + destruct (norm_zlo lo (closed_left cl)) as [l|] eqn:El; [|discriminate].
      destruct (norm_zhi hi (closed_right cl)) as [h|] eqn:Eh; [|discriminate]. inversion H. subst d. clear H.
      simpl. unfold sat_interval. destruct v; simpl; try reflexivity.
      * rewrite (contains_int _ _ _ _ _ z El Eh). rewrite !orb_false_r. reflexivity.
      * rewrite (contains_int _ _ _ _ _ (Z.b2z b) El Eh). rewrite !orb_false_r. reflexivity.
    + inversion H. subst d. clear H. simpl. unfold sat_interval, zq.
      destruct v; simpl; rewrite ?contains_real, ?orb_false_r; reflexivity.
    + discriminate.
  - inversion H. subst d. destruct v; reflexivity.
  - destruct (String.eqb cls "str") eqn:Es; [discriminate|]. inversion H. subst d. apply norm_inst_sound. exact Es.
  - inversion H. subst d. destruct v; reflexivity.
  - inversion H. subst d. destruct v; reflexivity.
  - inversion H. subst d. destruct v; simpl; rewrite ?orb_false_r; reflexivity.
  - inversion H. subst d. clear H. simpl satisfied. rewrite !dom_sem_union.
    rewrite <- norm_inst_sound by reflexivity. rewrite <- seed_int_sound. rewrite <- none_sound. reflexivity.
  - inversion H. subst d. destruct v; simpl; rewrite ?orb_false_r; reflexivity.
Qed.

Lemma norm_cs_sound : forall t cs d v, norm_cs cs = Some d -> satisfied_any t cs v = dom_sem t d v.
Proof.
  intros t cs. induction cs as [|c r IH]; intros d v H; simpl in H.
  - inversion H. subst d. rewrite dom_sem_empty. reflexivity.
  - destruct (norm_c c) as [a|] eqn:Ea; [|discriminate]. destruct (norm_cs r) as [b|] eqn:Eb; [|discriminate].
    inversion H. subst d. unfold satisfied_any in *. simpl. rewrite dom_sem_union.
    rewrite (norm_c_sound t c a v Ea). rewrite (IH b v eq_refl). reflexivity.
Qed.

(* ================================================================================================ comparing normal forms *)
Definition oz_eqb (a b : option Z) : bool :=
  match a, b with None, None => true | Some x, Some y => Z.eqb x y | _, _ => false end.
Definition zitv_eqb (a b : zitv) : bool := oz_eqb (zlo a) (zlo b) && oz_eqb (zhi a) (zhi b).
Definition q_eqb (a b : Q) : bool := Z.eqb (Qnum a) (Qnum b) && Pos.eqb (Qden a) (Qden b).
Definition ext_eqb (a b : ext) : bool :=
  match a, b with NInf, NInf => true | PInf, PInf => true | Fin x, Fin y => q_eqb x y | _, _ => false end.
Definition qitv_eqb (a b : qitv) : bool :=
  ext_eqb (qlo a) (qlo b) && Bool.eqb (qlo_closed a) (qlo_closed b) && ext_eqb (qhi a) (qhi b) && Bool.eqb (qhi_closed a) (qhi_closed b).
Fixpoint list_eqb {A} (f : A -> A -> bool) (l1 l2 : list A) : bool :=
  match l1, l2 with [] , [] => true | x :: r, y :: s => f x y && list_eqb f r s | _, _ => false end.
Definition incl_b (a b : list string) : bool := forallb (fun s => str_in s b) a.
Definition seteq_b (a b : list string) : bool := incl_b a b && incl_b b a.
(* equal interval lists, equal flags, equal string / class sets *)
Definition dom_equiv (a b : dom) : bool :=
  list_eqb zitv_eqb (d_ints a) (d_ints b) && list_eqb qitv_eqb (d_reals a) (d_reals b) &&
  Bool.eqb (d_bool a) (d_bool b) && Bool.eqb (d_npbool a) (d_npbool b) && seteq_b (d_strs a) (d_strs b) &&
  Bool.eqb (d_none a) (d_none b) && Bool.eqb (d_callable a) (d_callable b) && Bool.eqb (d_array a) (d_array b) &&
  Bool.eqb (d_dict a) (d_dict b) && Bool.eqb (d_list a) (d_list b) && Bool.eqb (d_tuple a) (d_tuple b) &&
  Bool.eqb (d_sized a) (d_sized b) && seteq_b (d_insts a) (d_insts b).

Lemma list_eqb_eq : forall A (f : A -> A -> bool), (forall x y, f x y = true -> x = y) ->
  forall l1 l2, list_eqb f l1 l2 = true -> l1 = l2.
Proof.
  intros A f Hf l1. induction l1 as [|x r IH]; intros [|y s] H; simpl in H; try discriminate; [reflexivity|].
  apply andb_true_iff in H. destruct H as [H1 H2]. rewrite (Hf _ _ H1), (IH _ H2). reflexivity.
Qed.
Lemma oz_eqb_eq : forall a b, oz_eqb a b = true -> a = b.
Proof. intros [x|] [y|] H; simpl in H; try discriminate; [apply Z.eqb_eq in H; subst|]; reflexivity. Qed.
Lemma zitv_eqb_eq : forall a b, zitv_eqb a b = true -> a = b.
Proof.
  intros [a1 a2] [b1 b2] H. unfold zitv_eqb in H. simpl in H. apply andb_true_iff in H. destruct H as [H1 H2].
  rewrite (oz_eqb_eq _ _ H1), (oz_eqb_eq _ _ H2). reflexivity.
Qed.
Lemma q_eqb_eq : forall a b, q_eqb a b = true -> a = b.
Proof.
  intros [n d] [n' d'] H. unfold q_eqb in H. cbn [Qnum Qden] in H. apply andb_true_iff in H. destruct H as [H1 H2].
  apply Z.eqb_eq in H1. apply Pos.eqb_eq in H2. subst. reflexivity.
Qed.
Lemma ext_eqb_eq : forall a b, ext_eqb a b = true -> a = b.
Proof. intros [|x|] [|y|] H; simpl in H; try discriminate; try reflexivity. rewrite (q_eqb_eq _ _ H). reflexivity. Qed.
Lemma qitv_eqb_eq : forall a b, qitv_eqb a b = true -> a = b.
Proof.
  intros [a1 a2 a3 a4] [b1 b2 b3 b4] H. unfold qitv_eqb in H. simpl in H.
  repeat (apply andb_true_iff in H; destruct H as [H ?]).
  rewrite (ext_eqb_eq _ _ H). rewrite (ext_eqb_eq a3 b3) by assumption.
  rewrite (eqb_prop a2 b2) by assumption. rewrite (eqb_prop a4 b4) by assumption. reflexivity.
Qed.

Lemma str_in_In : forall s l, str_in s l = true <-> In s l.
Proof.
  intros s l. unfold str_in. rewrite existsb_exists. split.
  - intros [x [Hx E]]. apply String.eqb_eq in E. subst. exact Hx.
  - intros H. exists s. split; [exact H|apply String.eqb_refl].
Qed.
Lemma incl_b_incl : forall a b, incl_b a b = true -> incl a b.
Proof. intros a b H x Hx. unfold incl_b in H. rewrite forallb_forall in H. apply str_in_In. apply H. exact Hx. Qed.
Lemma existsb_incl : forall A (f : A -> bool) a b, incl a b -> existsb f a = true -> existsb f b = true.
Proof. intros A f a b Hi H. apply existsb_exists in H. destruct H as [x [Hx Hf]]. apply existsb_exists. exists x. split; [apply Hi; exact Hx|exact Hf]. Qed.
Lemma existsb_seteq : forall (f : string -> bool) a b, seteq_b a b = true -> existsb f a = existsb f b.
Proof.
  intros f a b H. unfold seteq_b in H. apply andb_true_iff in H. destruct H as [H1 H2].
  apply incl_b_incl in H1. apply incl_b_incl in H2.
  destruct (existsb f a) eqn:Ea.
  - symmetry. eapply existsb_incl; eauto.
  - destruct (existsb f b) eqn:Eb; [|reflexivity]. rewrite (existsb_incl _ f b a H2 Eb) in Ea. discriminate.
Qed.

Lemma dom_equiv_sound : forall a b, dom_equiv a b = true -> forall t v, dom_sem t a v = dom_sem t b v.
Proof.
  intros a b H t v. unfold dom_equiv in H.
  repeat (apply andb_true_iff in H; let H' := fresh "E" in destruct H as [H H']).
  apply (list_eqb_eq _ _ zitv_eqb_eq) in H. apply (list_eqb_eq _ _ qitv_eqb_eq) in E10.
  apply eqb_prop in E9, E8, E6, E5, E4, E3, E2, E1, E0.
  destruct v; simpl; rewrite ?H, ?E10, ?E9, ?E8, ?E6, ?E5, ?E4, ?E3, ?E2, ?E1, ?E0; try reflexivity.
  - unfold str_in. apply existsb_seteq. exact E7.
  - rewrite (existsb_seteq (subclass_of t cls) _ _ E). reflexivity.
Qed.

(* ================================================================================================ the table theorem *)
Definition agree (oc : option (list constraint)) (d : option dom) : bool :=
  match oc, d with
  | Some cs, Some d => match norm_cs cs with Some n => dom_equiv n d | None => false end
  | _, _ => false
  end.
Lemma agree_sound : forall oc e p, agree oc (doc_dom e p) = true ->
  forall t v, effective_sat t oc v = in_doc_domain t e p v.
Proof.
  intros oc e p H t v. unfold agree in H. unfold in_doc_domain. destruct oc as [cs|]; [|discriminate].
  destruct (doc_dom e p) as [d|]; [|discriminate]. destruct (norm_cs cs) as [n|] eqn:En; [|discriminate].
  simpl. rewrite (norm_cs_sound t cs n v En). apply dom_equiv_sound. exact H.
Qed.

(* structural equality of declared constraints, to recognise the frozen as-is rows of Doc.known_asis *)
Definition numty_eqb (a b : numty) : bool :=
  match a, b with TIntegral, TIntegral | TReal, TReal | TRealNotInt, TRealNotInt => true | _, _ => false end.
Definition closed_eqb (a b : closedness) : bool :=
  match a, b with CLeft, CLeft | CRight, CRight | CBoth, CBoth | CNeither, CNeither => true | _, _ => false end.
Definition oext_eqb (a b : option ext) : bool :=
  match a, b with None, None => true | Some x, Some y => ext_eqb x y | _, _ => false end.
Definition constraint_eqb (a b : constraint) : bool :=
  match a, b with
  | Interval t1 l1 h1 c1, Interval t2 l2 h2 c2 => numty_eqb t1 t2 && oext_eqb l1 l2 && oext_eqb h1 h2 && closed_eqb c1 c2
  | StrOptions l1, StrOptions l2 => list_eqb String.eqb l1 l2
  | InstanceOf c1, InstanceOf c2 => String.eqb c1 c2
  | NoneC, NoneC | BoolC, BoolC | CallableC, CallableC | RandomStateC, RandomStateC | ArrayLikeC, ArrayLikeC => true
  | _, _ => false
  end.
Definition ocs_eqb (a b : option (list constraint)) : bool :=
  match a, b with None, None => true | Some x, Some y => list_eqb constraint_eqb x y | _, _ => false end.
Lemma oext_eqb_eq : forall a b, oext_eqb a b = true -> a = b.
Proof. intros [x|] [y|] H; simpl in H; try discriminate; [rewrite (ext_eqb_eq _ _ H)|]; reflexivity. Qed.
Lemma constraint_eqb_eq : forall a b, constraint_eqb a b = true -> a = b.
Proof.
  intros a b H. destruct a, b; simpl in H; try discriminate; try reflexivity.
  - repeat (apply andb_true_iff in H; destruct H as [H ?]).
    rewrite (oext_eqb_eq lo lo0) by assumption. rewrite (oext_eqb_eq hi hi0) by assumption.
    destruct ty, ty0; try discriminate; destruct c, c0; try discriminate; reflexivity.
  - rewrite (list_eqb_eq _ String.eqb (fun x y E => proj1 (String.eqb_eq x y) E) _ _ H). reflexivity.
  - apply String.eqb_eq in H. subst. reflexivity.
Qed.
Lemma ocs_eqb_eq : forall a b, ocs_eqb a b = true -> a = b.
Proof.
  intros [x|] [y|] H; simpl in H; try discriminate; [|reflexivity].
  rewrite (list_eqb_eq _ _ constraint_eqb_eq _ _ H). reflexivity.
Qed.

Definition is_known (e p : string) (oc : option (list constraint)) : bool :=
  existsb (fun r => match r with (e', p', oc', _) => String.eqb e e' && String.eqb p p' && ocs_eqb oc oc' end) known_asis.
Lemma is_known_sound : forall e p oc, is_known e p oc = true -> exists w, In (e, p, oc, w) known_asis.
Proof.
  intros e p oc H. unfold is_known in H. apply existsb_exists in H. destruct H as [[[[e' p'] oc'] w] [Hin H]].
  repeat (apply andb_true_iff in H; destruct H as [H ?]).
  apply String.eqb_eq in H. apply String.eqb_eq in H1. apply ocs_eqb_eq in H0. subst. exists w. exact Hin.
Qed.

Definition all_tables : list (string * ptable) := estimators ++ functions.
Definition entry_ok (e : string) (pe : string * option (list constraint)) : bool :=
  agree (snd pe) (doc_dom e (fst pe)) || is_known e (fst pe) (snd pe).
Definition tables_ok : bool := forallb (fun ep => forallb (entry_ok (fst ep)) (snd ep)) all_tables.
Lemma tables_ok_true : tables_ok = true.
Proof. vm_compute. reflexivity. Qed.

Lemma accepts_iff_documented : forall e ps p oc,
  In (e, ps) all_tables -> In (p, oc) ps ->
  (forall v, effective_sat classes oc v = in_doc_domain classes e p v) \/ (exists w, In (e, p, oc, w) known_asis).
Proof.
  intros e ps p oc He Hp. pose proof tables_ok_true as H. unfold tables_ok in H.
  rewrite forallb_forall in H. specialize (H _ He). simpl in H. rewrite forallb_forall in H. specialize (H _ Hp).
  unfold entry_ok in H. simpl in H. apply orb_true_iff in H. destruct H as [H|H].
  - left. intros v. apply agree_sound. exact H.
  - right. apply is_known_sound. exact H.
Qed.

(* the frozen as-is rows do disagree with the documentation, at their witness *)
Definition known_refuted_b : bool :=
  forallb (fun r => match r with (e, p, oc, w) => negb (Bool.eqb (effective_sat classes oc w) (in_doc_domain classes e p w)) end) known_asis.
Lemma known_disagreements_refuted : forall e p oc w, In (e, p, oc, w) known_asis ->
  effective_sat classes oc w <> in_doc_domain classes e p w.
Proof.
  intros e p oc w Hin. assert (H : known_refuted_b = true) by (vm_compute; reflexivity).
  unfold known_refuted_b in H. rewrite forallb_forall in H. specialize (H _ Hin). simpl in H.
  intros E. rewrite E in H. rewrite eqb_reflx in H. discriminate.
Qed.

(* which table entries hold by agreement / by a known as-is row (counts, for the evidence) *)
Definition count_entries (f : string -> string * option (list constraint) -> bool) : nat :=
  list_sum (map (fun ep => List.length (filter (f (fst ep)) (snd ep))) all_tables).
Definition n_entries : nat := count_entries (fun _ _ => true).
Definition n_agree : nat := count_entries (fun e pe => agree (snd pe) (doc_dom e (fst pe))).

Open Scope nat_scope.
(* ================================================================================================ check_groups *)
Lemma zmem_In : forall x l, zmem x l = true <-> In x l.
Proof.
  intros x l. unfold zmem. rewrite existsb_exists. split.
  - intros [y [Hy E]]. apply Z.eqb_eq in E. subst. exact Hy.
  - intros H. exists x. split; [exact H|apply Z.eqb_refl].
Qed.
Lemma zmem_false : forall x l, zmem x l = false <-> ~ In x l.
Proof. intros x l. rewrite <- zmem_In. destruct (zmem x l); split; intros; try discriminate; try reflexivity; exfalso; auto. Qed.

Lemma zrange_In : forall d i, In i (zrange d) <-> (0 <= i < Z.of_nat d)%Z.
Proof.
  intros d i. unfold zrange. rewrite in_map_iff. split.
  - intros [k [E Hk]]. apply in_seq in Hk. lia.
  - intros H. exists (Z.to_nat i). split; [lia|]. apply in_seq. lia.
Qed.
Lemma zrange_length : forall d, List.length (zrange d) = d.
Proof. intros d. unfold zrange. rewrite map_length, seq_length. reflexivity. Qed.
Lemma seq_sorted : forall n s, StronglySorted Z.lt (map Z.of_nat (seq s n)).
Proof.
  induction n as [|n IH]; intros s; simpl; constructor.
  - apply IH.
  - apply Forall_forall. intros x Hx. apply in_map_iff in Hx. destruct Hx as [k [E Hk]]. apply in_seq in Hk. lia.
Qed.
Lemma zrange_sorted : forall d, StronglySorted Z.lt (zrange d).
Proof. intros d. apply seq_sorted. Qed.
Lemma sorted_NoDup : forall l, StronglySorted Z.lt l -> NoDup l.
Proof.
  induction l as [|x r IH]; intros H; constructor; inversion H; subst.
  - intros Hin. rewrite Forall_forall in H3. specialize (H3 _ Hin). lia.
  - apply IH. assumption.
Qed.
Lemma sorted_filter : forall (f : Z -> bool) l, StronglySorted Z.lt l -> StronglySorted Z.lt (filter f l).
Proof.
  intros f. induction l as [|x r IH]; intros H; simpl; [constructor|]. inversion H; subst.
  destruct (f x); [constructor|]; auto.
  apply Forall_forall. intros y Hy. apply filter_In in Hy. rewrite Forall_forall in H3. apply H3. tauto.
Qed.

Lemma zmin_spec : forall l x, In (zmin x l) (x :: l) /\ (forall y, In y (x :: l) -> (zmin x l <= y)%Z).
Proof.
  induction l as [|a r IH]; intros x; simpl.
  - split; [left; reflexivity|]. intros y [E|[]]. lia.
  - destruct (IH (Z.min x a)) as [H1 H2]. split.
    + destruct H1 as [E|H1]; [|right; right; exact H1]. rewrite <- E. destruct (Z.min_spec x a) as [[_ M]|[_ M]]; rewrite M; auto.
    + intros y [E|[E|Hy]].
      * specialize (H2 (Z.min x a) (or_introl eq_refl)). lia.
      * specialize (H2 (Z.min x a) (or_introl eq_refl)). lia.
      * apply H2. right. exact Hy.
Qed.
Lemma zmax_spec : forall l x, In (zmax x l) (x :: l) /\ (forall y, In y (x :: l) -> (y <= zmax x l)%Z).
Proof.
  induction l as [|a r IH]; intros x; simpl.
  - split; [left; reflexivity|]. intros y [E|[]]. lia.
  - destruct (IH (Z.max x a)) as [H1 H2]. split.
    + destruct H1 as [E|H1]; [|right; right; exact H1]. rewrite <- E. destruct (Z.max_spec x a) as [[_ M]|[_ M]]; rewrite M; auto.
    + intros y [E|[E|Hy]].
      * specialize (H2 (Z.max x a) (or_introl eq_refl)). lia.
      * specialize (H2 (Z.max x a) (or_introl eq_refl)). lia.
      * apply H2. right. exact Hy.
Qed.

Definition in_range (d : nat) (x : Z) : Prop := (0 <= x < Z.of_nat d)%Z.
Definition range_bad (all : list Z) (d : nat) : bool :=
  match all with [] => false | x :: r => (zmin x r <? 0)%Z || (Z.of_nat d <=? zmax x r)%Z end.
Lemma range_bad_spec : forall all d, range_bad all d = false <-> Forall (in_range d) all.
Proof.
  intros [|x r] d; simpl.
  - split; [constructor|reflexivity].
  - destruct (zmin_spec r x) as [M1 M2]. destruct (zmax_spec r x) as [X1 X2]. rewrite orb_false_iff, Z.ltb_ge, Z.leb_gt. split.
    + intros [H1 H2]. apply Forall_forall. intros y Hy. specialize (M2 _ Hy). specialize (X2 _ Hy). unfold in_range. lia.
    + intros H. rewrite Forall_forall in H. specialize (H _ M1) as Ha. specialize (H _ X1) as Hb. unfold in_range in *. lia.
Qed.

Lemma dedup_length_le : forall l, List.length (dedup l) <= List.length l.
Proof. induction l as [|x r IH]; simpl; [lia|]. destruct (zmem x r); simpl; lia. Qed.
Lemma dedup_nodup : forall l, List.length (dedup l) = List.length l <-> NoDup l.
Proof.
  induction l as [|x r IH]; simpl.
  - split; [constructor|reflexivity].
  - destruct (zmem x r) eqn:E.
    + split.
      * intros H. pose proof (dedup_length_le r). lia.
      * intros H. inversion H; subst. apply zmem_In in E. contradiction.
    + simpl. split.
      * intros H. constructor; [apply zmem_false; exact E|]. apply IH. lia.
      * intros H. inversion H; subst. f_equal. apply IH. assumption.
Qed.

Lemma set_eqb_spec : forall a b, set_eqb a b = true <-> (incl a b /\ incl b a).
Proof.
  intros a b. unfold set_eqb. rewrite andb_true_iff, !forallb_forall. split.
  - intros [H1 H2]. split; intros x Hx; apply zmem_In; auto.
  - intros [H1 H2]. split; intros x Hx; apply zmem_In; auto.
Qed.

Definition missing (all : list Z) (d : nat) : list Z := filter (fun i => negb (zmem i all)) (zrange d).
Definition completed (groups : list (list Z)) (d : nat) : list (list Z) := groups ++ map (fun i => [i]) (missing (List.concat groups) d).

Lemma concat_singletons : forall l : list Z, List.concat (map (fun i => [i]) l) = l.
Proof. induction l as [|x r IH]; simpl; [|rewrite IH]; reflexivity. Qed.

Lemma filter_none : forall (f : Z -> bool) l, (forall x, In x l -> f x = false) -> filter f l = [].
Proof.
  intros f. induction l as [|x r IH]; intros H; simpl; [reflexivity|].
  rewrite (H x (or_introl eq_refl)). apply IH. intros y Hy. apply H. right. exact Hy.
Qed.

Lemma full_cover_nodup : forall all d, Forall (in_range d) all -> List.length all = d ->
  (set_eqb all (zrange d) = true <-> NoDup all).
Proof.
  intros all d Hr Hl. rewrite set_eqb_spec. split.
  - intros [_ H2]. apply (NoDup_incl_NoDup (l := zrange d)).
    + apply sorted_NoDup, zrange_sorted.
    + rewrite zrange_length. lia.
    + exact H2.
  - intros Hn. assert (Hi : incl all (zrange d)).
    { intros x Hx. apply zrange_In. rewrite Forall_forall in Hr. apply Hr. exact Hx. }
    split; [exact Hi|]. apply NoDup_length_incl; [exact Hn| rewrite zrange_length; lia | exact Hi].
Qed.

Lemma check_groups_unfold : forall groups d, check_groups groups d =
  let all := List.concat groups in
  if range_bad all d then None
  else if Nat.eqb (List.length all) d then (if set_eqb all (zrange d) then Some groups else None)
  else if negb (Nat.eqb (List.length (dedup all)) (List.length all)) then None else Some (completed groups d).
Proof. reflexivity. Qed.

(* accepted <-> every index lies in [0, d) and no index occurs twice (within or across groups) *)
Lemma check_groups_accepts : forall groups d,
  check_groups groups d <> None <-> (Forall (in_range d) (List.concat groups) /\ NoDup (List.concat groups)).
Proof.
  intros groups d. rewrite check_groups_unfold. cbv zeta. set (all := List.concat groups).
  destruct (range_bad all d) eqn:Er.
  - split; [intros H; contradiction|]. intros [H _]. apply range_bad_spec in H. congruence.
  - apply range_bad_spec in Er. destruct (Nat.eqb (List.length all) d) eqn:El.
    + apply Nat.eqb_eq in El. pose proof (full_cover_nodup all d Er El) as F.
      destruct (set_eqb all (zrange d)).
      * split; [intros _; split; [exact Er|apply F; reflexivity]|discriminate].
      * split; [intros H; contradiction|]. intros [_ Hn]. apply F in Hn. discriminate.
    + destruct (Nat.eqb (List.length (dedup all)) (List.length all)) eqn:Ed; simpl.
      * apply Nat.eqb_eq in Ed. apply dedup_nodup in Ed. split; [intros _; tauto|discriminate].
      * apply Nat.eqb_neq in Ed. split; [intros H; contradiction|]. intros [_ Hn]. apply dedup_nodup in Hn. contradiction.
Qed.

(* the result is the input followed by the singleton groups of the missing indices, in increasing order *)
Lemma check_groups_result : forall groups d r, check_groups groups d = Some r -> r = completed groups d.
Proof.
  intros groups d r. rewrite check_groups_unfold. cbv zeta. set (all := List.concat groups).
  destruct (range_bad all d) eqn:Er; [discriminate|]. apply range_bad_spec in Er.
  destruct (Nat.eqb (List.length all) d) eqn:El.
  - apply Nat.eqb_eq in El. destruct (set_eqb all (zrange d)) eqn:Es; [|discriminate]. intros H. inversion H. subst r.
    apply set_eqb_spec in Es. destruct Es as [_ Hi]. unfold completed, missing. fold all.
    replace (filter (fun i => negb (zmem i all)) (zrange d)) with (@nil Z); [simpl; rewrite app_nil_r; reflexivity|].
    symmetry. apply filter_none. intros x Hx. apply Hi in Hx. apply zmem_In in Hx. rewrite Hx. reflexivity.
  - destruct (negb (Nat.eqb (List.length (dedup all)) (List.length all))); [discriminate|]. intros H. inversion H. reflexivity.
Qed.

Lemma missing_spec : forall all d x, In x (missing all d) <-> (in_range d x /\ ~ In x all).
Proof.
  intros all d x. unfold missing. rewrite filter_In, zrange_In, negb_true_iff, zmem_false. reflexivity.
Qed.
Lemma nodup_app : forall (a b : list Z), NoDup a -> NoDup b -> (forall x, In x a -> ~ In x b) -> NoDup (a ++ b).
Proof.
  induction a as [|x r IH]; intros b Ha Hb Hd; simpl; [exact Hb|]. inversion Ha; subst. constructor.
  - rewrite in_app_iff. intros [H|H]; [contradiction|]. apply (Hd x (or_introl eq_refl)). exact H.
  - apply IH; auto. intros y Hy. apply Hd. right. exact Hy.
Qed.

(* an accepted result is a partition of [0, d): its groups, concatenated, are a duplicate-free enumeration of 0..d-1 *)
Lemma check_groups_partition : forall groups d r, check_groups groups d = Some r ->
  List.concat r = List.concat groups ++ missing (List.concat groups) d /\
  StronglySorted Z.lt (missing (List.concat groups) d) /\
  NoDup (List.concat r) /\ Permutation (List.concat r) (zrange d).
Proof.
  intros groups d r H. assert (Hacc : check_groups groups d <> None) by (rewrite H; discriminate).
  apply check_groups_accepts in Hacc. destruct Hacc as [Hr Hn]. apply check_groups_result in H. subst r.
  set (all := List.concat groups) in *.
  assert (E : List.concat (completed groups d) = all ++ missing all d).
  { unfold completed. rewrite concat_app, concat_singletons. reflexivity. }
  assert (Hs : StronglySorted Z.lt (missing all d)) by (apply sorted_filter, zrange_sorted).
  assert (Hnd : NoDup (all ++ missing all d)).
  { apply nodup_app; [exact Hn|apply sorted_NoDup; exact Hs|]. intros x Hx Hm. apply missing_spec in Hm. tauto. }
  rewrite E. repeat split; try assumption.
  apply NoDup_Permutation; [exact Hnd|apply sorted_NoDup, zrange_sorted|].
  intros x. rewrite in_app_iff, missing_spec, zrange_In. rewrite Forall_forall in Hr. split.
  - intros [Hx|[Hx _]]; [apply Hr; exact Hx|exact Hx].
  - intros Hx. destruct (zmem x all) eqn:Em; [left; apply zmem_In; exact Em|right; split; [exact Hx|apply zmem_false; exact Em]].
Qed.

(* ================================================================================================ cross-parameter rules *)
Lemma kauri_cross_spec : forall leaf split, kauri_cross_ok leaf split = true <-> (2 * leaf <= split)%Z.
Proof. intros leaf split. unfold kauri_cross_ok. rewrite negb_true_iff, Z.ltb_ge. lia. Qed.
Lemma douglas_mask_spec : forall m d, douglas_mask_ok m d = true <->
  (m = None \/ exists l, m = Some l /\ List.length l = d /\ In true l).
Proof.
  intros [l|] d; simpl.
  - rewrite andb_true_iff, Nat.eqb_eq, existsb_exists. split.
    + intros [Hl [b [Hb E]]]. subst b. right. exists l. auto.
    + intros [H|[l' [E [Hl Hi]]]]; [discriminate|]. inversion E. subst l'. split; [exact Hl|]. exists true. auto.
  - split; [left; reflexivity|reflexivity].
Qed.
Lemma data_ok_spec : forall ndim n d numeric finite m, data_ok ndim n d numeric finite m = true <->
  (ndim = 2 /\ numeric = true /\ finite = true /\ 1 <= d /\ 1 <= n /\ m <= n).
Proof.
  intros. unfold data_ok. rewrite !andb_true_iff, Nat.eqb_eq, !Nat.leb_le. tauto.
Qed.

(* ================================================================================================ fit: checks and writes *)
Lemma no_check_accepts : forall steps w, no_check steps = true -> run steps w = (true, rev (map (fun s => match s with Write a => a | Check _ => EmptyString end) steps) ++ w).
Proof.
  induction steps as [|[ok|a] r IH]; intros w H; simpl in *; try discriminate; [reflexivity|].
  rewrite (IH _ H). rewrite <- app_assoc. reflexivity.
Qed.
(* "validate; then write": a rejected fit has written nothing *)
Lemma validate_first_unfitted : forall steps w, validate_first steps = true -> fst (run steps w) = false -> snd (run steps w) = w.
Proof.
  induction steps as [|[ok|a] r IH]; intros w Hv Hr; simpl in *.
  - discriminate.
  - destruct ok; [apply IH; assumption|reflexivity].
  - rewrite (no_check_accepts r (a :: w) Hv) in Hr. discriminate.
Qed.
Lemma writes_no_check : forall l, no_check (writes l) = true.
Proof. induction l; simpl; auto. Qed.
Lemma fit_validate_first_ok : forall attrs k, validate_first (fit_validate_first attrs k) = true.
Proof. intros attrs k. unfold fit_validate_first. simpl. destruct attrs; simpl; [reflexivity|apply writes_no_check]. Qed.
Lemma rejected_leaves_unfitted : forall attrs k,
  fst (run (fit_validate_first attrs k) []) = false -> snd (run (fit_validate_first attrs k) []) = [].
Proof. intros attrs k. apply validate_first_unfitted, fit_validate_first_ok. Qed.
(* ... and it is rejected exactly when one of the checks fails, accepted with every attribute written otherwise *)
Lemma fit_validate_first_outcome : forall attrs k,
  run (fit_validate_first attrs k) [] =
  if params_ok k && x_ok k && samples_ok k && groups_ok k && cross_ok k && affinity_ok k then (true, rev attrs) else (false, []).
Proof.
  intros attrs [p x m g c a]. unfold fit_validate_first. simpl.
  destruct p, x, m, g, c, a; simpl; try reflexivity.
  rewrite (no_check_accepts (writes attrs) [] (writes_no_check attrs)). unfold writes. rewrite map_map, map_id, app_nil_r. reflexivity.
Qed.

(* the fit models are the golden event lists read with the outcomes of the checks; spelled out: *)
Lemma fit_base_steps : forall w k, fit_base w k =
  [Check (params_ok k); Check (x_ok k); Check (x_ok k); Check (samples_ok k); Write "n_features_in_"%string; Check (affinity_ok k); Check (cross_ok k)] ++
  writes w ++ [Write "optimiser_"; Write "labels_"; Write "n_iter_"]%string.
Proof. intros w k. unfold fit_base, interp, golden_base_fit. simpl. reflexivity. Qed.
Lemma fit_sparse_steps : forall w k, fit_sparse w k =
  [Check (params_ok k); Check (x_ok k); Check (samples_ok k); Write "n_features_in_"%string; Check (groups_ok k); Write "groups_"%string] ++ fit_base w k.
Proof. intros w k. unfold fit_sparse, interp, golden_sparse_fit. cbn -[fit_base]. rewrite app_nil_r. reflexivity. Qed.
Lemma fit_kernelrim_steps : forall k, fit_kernelrim k =
  [Check (params_ok k); Check (x_ok k); Write "input_data_"%string; Check (affinity_ok k); Write "training_kernel_"%string] ++
  fit_base ["W_"; "b_"]%string k ++ [Write "n_features_in_"%string].
Proof. intros k. unfold fit_kernelrim, interp, golden_kernelrim_fit. cbn -[fit_base]. reflexivity. Qed.
Lemma fit_kauri_steps : forall k, fit_kauri k =
  [Check (params_ok k); Check (x_ok k); Check (x_ok k); Check (samples_ok k); Write "n_features_in_"; Check (cross_ok k); Check (affinity_ok k);
   Write "n_features_in_"; Write "tree_"; Write "labels_"; Write "leaves_"]%string.
Proof. reflexivity. Qed.
Lemma fit_douglas_steps : forall mask_none len_ok sel_ok k, fit_douglas mask_none len_ok sel_ok k =
  [Check (params_ok k); Check (x_ok k); Check (x_ok k); Check (samples_ok k); Write "n_features_in_"%string; Check (affinity_ok k)] ++
  (if mask_none then [Write "cut_points_list_"%string] else [Check len_ok; Check sel_ok; Write "cut_points_list_"%string]) ++
  [Write "leaf_scores_"; Write "optimiser_"; Write "labels_"; Write "n_iter_"]%string.
Proof. intros [] len_ok sel_ok k; reflexivity. Qed.

Lemma run_writes : forall l w tail, run (writes l ++ tail) w = run tail (rev l ++ w).
Proof. induction l as [|a r IH]; intros w tail; simpl; [reflexivity|]. rewrite IH, <- app_assoc. reflexivity. Qed.

(* the code as it is.  DiscriminativeModel.fit and Kauri.fit: every check precedes every write except that of
   n_features_in_ (made by validate_data itself): a rejected fit has written nothing (hyper-parameters, data) or
   n_features_in_ only (affinity, cross-parameter rule). *)
Lemma fit_base_rejection : forall w k, fst (run (fit_base w k) []) = false ->
  snd (run (fit_base w k) []) = (if params_ok k && x_ok k && samples_ok k then ["n_features_in_"%string] else []).
Proof.
  intros w [p x m g c a]. rewrite fit_base_steps. simpl. destruct p, x, m, a, c; simpl; intros H; try reflexivity.
  rewrite run_writes in H. discriminate.
Qed.
Lemma fit_kauri_rejection : forall k, fst (run (fit_kauri k) []) = false ->
  snd (run (fit_kauri k) []) = (if params_ok k && x_ok k && samples_ok k then ["n_features_in_"%string] else []).
Proof.
  intros [p x m g c a]. rewrite fit_kauri_steps. simpl. destruct p, x, m, c, a; simpl; intros H; try discriminate; reflexivity.
Qed.
(* Douglas, with _init_params spelled out: both feature-mask tests come before cut_points_list_ *)
Lemma fit_douglas_rejection : forall mask_none len_ok sel_ok k, fst (run (fit_douglas mask_none len_ok sel_ok k) []) = false ->
  snd (run (fit_douglas mask_none len_ok sel_ok k) []) = (if params_ok k && x_ok k && samples_ok k then ["n_features_in_"%string] else []).
Proof.
  intros mn lo so [p x m g c a]. rewrite fit_douglas_steps. simpl. destruct p, x, m, a, mn, lo, so; simpl; intros H; try discriminate; reflexivity.
Qed.
(* the sparse models: hyper-parameters, data and sample count are validated before anything is stored; the group check
   follows n_features_in_; only the bookkeeping attributes n_features_in_ / groups_ can survive a later rejection *)
Lemma fit_sparse_rejection : forall w k, fst (run (fit_sparse w k) []) = false ->
  snd (run (fit_sparse w k) []) =
    (if params_ok k && x_ok k && samples_ok k then (if groups_ok k then ["n_features_in_"; "groups_"; "n_features_in_"]%string else ["n_features_in_"%string]) else []).
Proof.
  intros w [p x m g c a]. rewrite fit_sparse_steps, fit_base_steps. simpl. destruct p, x, m, g, a, c; simpl; intros H; try reflexivity.
  rewrite run_writes in H. discriminate.
Qed.
(* KernelRIM: hyper-parameters and data first; the training data and its kernel are stored before the sample count is
   compared with n_clusters *)
Lemma fit_kernelrim_rejection : forall k, fst (run (fit_kernelrim k) []) = false ->
  snd (run (fit_kernelrim k) []) =
    (if params_ok k && x_ok k then
       (if affinity_ok k then (if samples_ok k then ["n_features_in_"; "training_kernel_"; "input_data_"]%string else ["training_kernel_"; "input_data_"]%string)
        else ["input_data_"%string])
     else []).
Proof.
  intros [p x m g c a]. rewrite fit_kernelrim_steps, fit_base_steps. simpl. destruct p, x, a, m, c; simpl; intros H; try discriminate; reflexivity.
Qed.
Definition all_ok : checks := {| params_ok := true; x_ok := true; samples_ok := true; groups_ok := true; cross_ok := true; affinity_ok := true |}.
Definition bad_affinity : checks := {| params_ok := true; x_ok := true; samples_ok := true; groups_ok := true; cross_ok := true; affinity_ok := false |}.
Definition bad_params : checks := {| params_ok := false; x_ok := true; samples_ok := true; groups_ok := true; cross_ok := true; affinity_ok := true |}.
Definition bad_samples : checks := {| params_ok := true; x_ok := true; samples_ok := false; groups_ok := true; cross_ok := true; affinity_ok := true |}.
(* regression statements for the repaired orders (each was a leak before the fix: commits f3fd784, c877076, 529a37a, 5d14425) *)
Lemma fit_asis_repaired :
  run (fit_base ["W_"; "b_"]%string bad_affinity) [] = (false, ["n_features_in_"]%string) /\
  run (fit_sparse ["W_"; "b_"]%string bad_params) [] = (false, []) /\
  run (fit_sparse ["W_"; "b_"]%string bad_samples) [] = (false, []) /\
  run (fit_kernelrim bad_params) [] = (false, []) /\
  run (fit_douglas false true false all_ok) [] = (false, ["n_features_in_"]%string).
Proof. repeat split. Qed.
(* what is still not "validate first": KernelRIM with fewer samples than n_clusters *)
Lemma fit_asis_leaves_attributes :
  validate_first (fit_kernelrim all_ok) = false /\
  run (fit_kernelrim bad_samples) [] = (false, ["training_kernel_"; "input_data_"]%string).
Proof. repeat split. Qed.

(* check_groups on arbitrary entries: accepted exactly when every entry is an integer (not a bool) and the integer
   group list is accepted *)
Lemma all_ints_spec : forall l zs, all_ints l = Some zs <-> l = map GInt zs.
Proof.
  induction l as [|e r IH]; intros zs; simpl.
  - split; [intros H; inversion H; reflexivity|intros H; destruct zs; [reflexivity|discriminate]].
  - destruct e as [z|b|]; simpl.
    + destruct (all_ints r) as [zr|] eqn:E.
      * split; [intros H; inversion H; subst; simpl; f_equal; apply IH; reflexivity|].
        intros H. destruct zs as [|z' zs']; [discriminate|]. simpl in H. inversion H. subst.
        f_equal. f_equal. assert (Some zr = Some zs') by (apply IH; reflexivity). congruence.
      * split; [discriminate|]. intros H. destruct zs as [|z' zs']; [discriminate|]. simpl in H. inversion H.
        assert (None = Some zs') by (apply IH; assumption). discriminate.
    + split; [discriminate|]. intros H. destruct zs; discriminate.
    + split; [discriminate|]. intros H. destruct zs; discriminate.
Qed.
Lemma all_int_groups_spec : forall g gz, all_int_groups g = Some gz <-> g = map (map GInt) gz.
Proof.
  induction g as [|x r IH]; intros gz; simpl.
  - split; [intros H; inversion H; reflexivity|intros H; destruct gz; [reflexivity|discriminate]].
  - destruct (all_ints x) as [a|] eqn:Ea.
    + apply all_ints_spec in Ea. destruct (all_int_groups r) as [b|] eqn:Eb.
      * split; [intros H; inversion H; subst; simpl; f_equal; apply IH; reflexivity|].
        intros H. destruct gz as [|a' gz']; [discriminate|]. simpl in H. inversion H.
        assert (Ha : all_ints (map GInt a') = Some a') by (apply all_ints_spec; reflexivity).
        assert (Ha2 : all_ints (map GInt a') = Some a) by (apply all_ints_spec; congruence).
        assert (Some b = Some gz') by (apply IH; assumption). congruence.
      * split; [discriminate|]. intros H. destruct gz as [|a' gz']; [discriminate|]. simpl in H. inversion H.
        assert (None = Some gz') by (apply IH; assumption). discriminate.
    + split; [discriminate|]. intros H. destruct gz as [|a' gz']; [discriminate|]. simpl in H. inversion H.
      assert (all_ints x = Some a') by (apply all_ints_spec; assumption). congruence.
Qed.
Lemma check_groups_entries_spec : forall g d r, check_groups_entries g d = Some r <->
  exists gz, g = map (map GInt) gz /\ check_groups gz d = Some r.
Proof.
  intros g d r. unfold check_groups_entries. destruct (all_int_groups g) as [gz|] eqn:E.
  - apply all_int_groups_spec in E. split; [intros H; exists gz; auto|].
    intros [gz' [H1 H2]]. assert (all_int_groups g = Some gz') by (apply all_int_groups_spec; exact H1).
    assert (all_int_groups g = Some gz) by (apply all_int_groups_spec; exact E). congruence.
  - split; [discriminate|]. intros [gz' [H1 _]]. apply all_int_groups_spec in H1. congruence.
Qed.
Lemma precomputed_ok_spec : forall ndim rows cols n numeric finite, precomputed_ok ndim rows cols n numeric finite = true <->
  (ndim = 2 /\ numeric = true /\ finite = true /\ rows = cols /\ rows = n).
Proof. intros. unfold precomputed_ok. rewrite !andb_true_iff, !Nat.eqb_eq. tauto. Qed.

(* ================================================================================================ the regenerated rules *)
(* check_groups, translated statement by statement (check_groups_golden = the regenerated check_groups_gen, Props/C16.v),
   computes what the hand model computes *)
Definition bad_entry (i : gentry) : bool := py_is_bool i || negb (py_is_int i).
Lemma bad_entry_ints : forall l, existsb bad_entry (map GInt l) = false.
Proof. induction l; simpl; auto. Qed.
Lemma all_ints_none : forall l, all_ints l = None -> existsb bad_entry l = true.
Proof.
  induction l as [|e r IH]; simpl; [discriminate|]. destruct e as [z|b|]; simpl; try reflexivity.
  destruct (all_ints r); [discriminate|]. intros _. apply IH. reflexivity.
Qed.
Lemma all_int_groups_none : forall g, all_int_groups g = None -> existsb bad_entry (List.concat g) = true.
Proof.
  induction g as [|x r IH]; simpl; [discriminate|]. rewrite existsb_app. destruct (all_ints x) eqn:Ex.
  - destruct (all_int_groups r); [discriminate|]. intros _. rewrite IH by reflexivity. apply orb_true_r.
  - intros _. rewrite (all_ints_none x Ex). reflexivity.
Qed.
Lemma concat_ints : forall gz, List.concat (map (map GInt) gz) = map GInt (List.concat gz).
Proof. induction gz as [|x r IH]; simpl; [reflexivity|]. rewrite IH, map_app. reflexivity. Qed.
Lemma entry_z_ints : forall l, map entry_z (map GInt l) = l.
Proof. induction l; simpl; [|f_equal]; auto. Qed.
Lemma py_in_ints : forall x l, py_in (GInt x) (map GInt l) = zmem x l.
Proof. intros x l. unfold py_in, zmem. induction l; simpl; [|f_equal]; auto. Qed.
Lemma py_range_ints : forall d, py_range d = map GInt (zrange d).
Proof. intros d. unfold py_range, zrange. rewrite map_map. reflexivity. Qed.
Lemma forallb_map : forall A B (f : B -> bool) (g : A -> B) l, forallb f (map g l) = forallb (fun x => f (g x)) l.
Proof. induction l; simpl; [|f_equal]; auto. Qed.
Lemma forallb_ext' : forall A (f g : A -> bool) l, (forall x, f x = g x) -> forallb f l = forallb g l.
Proof. intros A f g l H. induction l; simpl; [|rewrite H, IHl]; reflexivity. Qed.
Lemma py_set_eq_ints : forall a b, py_set_eq (map GInt a) (map GInt b) = set_eqb a b.
Proof.
  intros a b. unfold py_set_eq, set_eqb. rewrite !forallb_map. f_equal; apply forallb_ext'; intros x; apply py_in_ints.
Qed.
Lemma py_set_ints : forall l, py_set (map GInt l) = map GInt (dedup l).
Proof.
  induction l as [|x r IH]; simpl; [reflexivity|]. rewrite py_in_ints. destruct (zmem x r); simpl; [|f_equal]; exact IH.
Qed.
Lemma filter_map_ints : forall (f : gentry -> bool) l, filter f (map GInt l) = map GInt (filter (fun z => f (GInt z)) l).
Proof. induction l as [|x r IH]; simpl; [reflexivity|]. destruct (f (GInt x)); simpl; [f_equal|]; exact IH. Qed.

Lemma listify_id : forall g : list (list gentry), map py_listify g = g.
Proof. intros g. unfold py_listify. induction g as [|x r IH]; simpl; [reflexivity|]. rewrite map_id, IH. reflexivity. Qed.
Lemma check_groups_golden_ints : forall gz d,
  check_groups_golden (map (map GInt) gz) d = option_map (map (map GInt)) (check_groups gz d).
Proof.
  intros gz d. unfold check_groups_golden, check_groups. cbv zeta. rewrite listify_id, concat_ints.
  set (all := List.concat gz). fold bad_entry. rewrite bad_entry_ints. rewrite map_length.
  assert (Hr : (Nat.ltb 0 (List.length all) && (Z.ltb (py_min (map GInt all)) 0 || Z.geb (py_max (map GInt all)) (Z.of_nat d)))
               = match all with [] => false | x :: r => (zmin x r <? 0)%Z || (Z.of_nat d <=? zmax x r)%Z end).
  { destruct all as [|x r]; [reflexivity|]. simpl. rewrite entry_z_ints, Z.geb_leb. reflexivity. }
  rewrite Hr. destruct (match all with [] => false | x :: r => (zmin x r <? 0)%Z || (Z.of_nat d <=? zmax x r)%Z end); [reflexivity|].
  destruct (Nat.eqb (List.length all) d).
  - rewrite py_range_ints, py_set_eq_ints. destruct (set_eqb all (zrange d)); reflexivity.
  - rewrite py_set_ints, map_length. destruct (Nat.eqb (List.length (dedup all)) (List.length all)); simpl; [|reflexivity].
    f_equal. rewrite map_app. f_equal. rewrite py_range_ints, filter_map_ints, !map_map. simpl.
    f_equal. apply filter_ext. intros z. rewrite py_in_ints. reflexivity.
Qed.
Lemma check_groups_golden_spec : forall g d,
  check_groups_golden g d = option_map (map (map GInt)) (check_groups_entries g d).
Proof.
  intros g d. unfold check_groups_entries. destruct (all_int_groups g) as [gz|] eqn:E.
  - apply all_int_groups_spec in E. subst g. apply check_groups_golden_ints.
  - unfold check_groups_golden. cbv zeta. fold bad_entry. rewrite (all_int_groups_none g E). reflexivity.
Qed.

(* the scalar rules as regenerated are the rules of the hand model — proved semantically (case analysis on every comparison
   + lia), so that an equivalent way of writing a test in the sources is accepted *)
Ltac cmp_cases :=
  rewrite ?Z.gtb_ltb, ?Z.geb_leb;
  repeat match goal with
  | |- context [Z.ltb ?a ?b] => destruct (Z.ltb_spec a b)
  | |- context [Z.leb ?a ?b] => destruct (Z.leb_spec a b)
  | |- context [Z.eqb ?a ?b] => destruct (Z.eqb_spec a b)
  | |- context [Nat.ltb ?a ?b] => destruct (Nat.ltb_spec a b)
  | |- context [Nat.leb ?a ?b] => destruct (Nat.leb_spec a b)
  | |- context [Nat.eqb ?a ?b] => destruct (Nat.eqb_spec a b)
  end; simpl; try reflexivity; try lia.
Lemma kauri_cross_gen : forall leaf split, kauri_cross_ok leaf split = negb (kauri_cross_violated_gen leaf split).
Proof. intros leaf split. unfold kauri_cross_ok, kauri_cross_violated_gen. cmp_cases. Qed.
Lemma douglas_mask_gen : forall m d, douglas_mask_ok (Some m) d = negb (existsb (fun b => b) (douglas_mask_violated_gen m d)).
Proof.
  intros m d. unfold douglas_mask_ok, douglas_mask_violated_gen. simpl.
  destruct (existsb (fun b => b) m); cmp_cases.
Qed.
Lemma precomputed_gen : forall ndim rows cols n numeric finite,
  precomputed_ok ndim rows cols n numeric finite =
    Nat.eqb ndim 2 && numeric && finite && negb (precomputed_shape_bad_gen rows cols n) /\
  precomputed_shape_bad_gen rows cols n = kauri_precomputed_shape_bad_gen rows cols n.
Proof.
  intros. unfold precomputed_ok, precomputed_shape_bad_gen, kauri_precomputed_shape_bad_gen.
  split; [destruct (Nat.eqb ndim 2), numeric, finite; simpl|]; cmp_cases.
Qed.

(* the regenerated definitions are, literally, the golden copies the models are built from (conversion): a moved store, a
   changed comparison, a dropped test in the sources breaks these *)
Lemma regenerated_check_groups_golden : forall g d, check_groups_gen g d = check_groups_golden g d.
Proof. reflexivity. Qed.
Lemma regenerated_events_golden :
  base_fit_events = golden_base_fit /\ sparse_linear_fit_events = golden_sparse_fit /\ sparse_mlp_fit_events = golden_sparse_fit /\
  kernelrim_fit_events = golden_kernelrim_fit /\ kauri_fit_events = golden_kauri_fit /\ douglas_init_events = golden_douglas_init.
Proof. repeat split; reflexivity. Qed.
Lemma regenerated_rules_golden :
  (forall leaf split, kauri_cross_violated_gen leaf split = Z.gtb (leaf * 2) split) /\
  (forall m d, douglas_mask_violated_gen m d = [negb (Nat.eqb (List.length m) d); negb (existsb (fun b => b) m)]) /\
  (forall rows cols n, precomputed_shape_bad_gen rows cols n = negb (Nat.eqb rows cols) || negb (Nat.eqb rows n)) /\
  (forall rows cols n, kauri_precomputed_shape_bad_gen rows cols n = negb (Nat.eqb rows cols) || negb (Nat.eqb rows n)).
Proof.
  split; [|split; [|split]]; intros.
  - unfold kauri_cross_violated_gen. cmp_cases.
  - unfold douglas_mask_violated_gen. repeat f_equal; destruct (existsb (fun b => b) m); cmp_cases.
  - unfold precomputed_shape_bad_gen. cmp_cases.
  - unfold kauri_precomputed_shape_bad_gen. cmp_cases.
Qed.

(* the fit models instantiated with the REGENERATED event lists *)
Definition gen_fit_base (w : list string) (k : checks) : list step :=
  interp k (fun _ => true) (fun _ => cross_ok k) (Check (cross_ok k) :: writes w) [] base_fit_events.
Definition gen_fit_sparse_linear (w : list string) (k : checks) : list step :=
  interp k (fun _ => true) (fun _ => cross_ok k) [] (gen_fit_base w k) sparse_linear_fit_events.
Definition gen_fit_sparse_mlp (w : list string) (k : checks) : list step :=
  interp k (fun _ => true) (fun _ => cross_ok k) [] (gen_fit_base w k) sparse_mlp_fit_events.
Definition gen_fit_kernelrim (k : checks) : list step :=
  interp k (fun _ => true) (fun _ => cross_ok k) [] (gen_fit_base ["W_"; "b_"]%string k) kernelrim_fit_events.
Definition gen_fit_kauri (k : checks) : list step :=
  interp k (fun _ => true) (fun _ => cross_ok k) [] [] kauri_fit_events.
Definition gen_fit_douglas (mask_none len_ok sel_ok : bool) (k : checks) : list step :=
  interp k (fun _ => true) (fun _ => true)
    (interp k (fun _ => mask_none) (fun t => if String.eqb t douglas_len_test then len_ok else sel_ok) [] [] douglas_init_events) [] base_fit_events.
Lemma gen_fits : (forall w k, gen_fit_base w k = fit_base w k) /\ (forall w k, gen_fit_sparse_linear w k = fit_sparse w k) /\
  (forall w k, gen_fit_sparse_mlp w k = fit_sparse w k) /\ (forall k, gen_fit_kernelrim k = fit_kernelrim k) /\
  (forall k, gen_fit_kauri k = fit_kauri k) /\ (forall a b c k, gen_fit_douglas a b c k = fit_douglas a b c k).
Proof. repeat split; reflexivity. Qed.
