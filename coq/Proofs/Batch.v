From Coq Require Import List Arith Lia ZArith.
From GV Require Import Model.Batch.
Import ListNotations.
Ltac Zify.zify_post_hook ::= Z.div_mod_to_equations.

Lemma chunks_nil fuel bs : chunks_fuel fuel bs [] = [].
Proof. destruct fuel; reflexivity. Qed.

Lemma chunks_concat fuel bs l : 1 <= bs -> length l <= fuel -> concat (chunks_fuel fuel bs l) = l.
Proof.
  revert l. induction fuel as [|f IH]; intros l Hbs Hl.
  - destruct l; [reflexivity | simpl in Hl; lia].
  - destruct l as [|x l]; [reflexivity|]. cbn [chunks_fuel concat].
    rewrite IH; [apply firstn_skipn | exact Hbs |].
    rewrite skipn_length. simpl length in *. lia.
Qed.

Lemma chunks_sizes fuel bs l : 1 <= bs ->
  Forall (fun b => 1 <= length b <= bs) (chunks_fuel fuel bs l).
Proof.
  revert l. induction fuel as [|f IH]; intros l Hbs; [constructor|].
  destruct l as [|x l]; [constructor|]. cbn [chunks_fuel]. constructor; [|apply IH; exact Hbs].
  rewrite firstn_length. simpl length. lia.
Qed.

Lemma chunks_count fuel bs l : 1 <= bs -> length l <= fuel ->
  length (chunks_fuel fuel bs l) = (length l + bs - 1) / bs.
Proof.
  revert l. induction fuel as [|f IH]; intros l Hbs Hl.
  - destruct l; [|simpl in Hl; lia]. simpl. symmetry. apply Nat.div_small. lia.
  - destruct l as [|x l]. { simpl. symmetry. apply Nat.div_small. lia. }
    cbn [chunks_fuel length]. rewrite IH; [| exact Hbs | rewrite skipn_length; simpl length in *; lia].
    rewrite skipn_length. cbn [length].
    destruct (le_lt_dec (S (length l)) bs) as [Hle|Hgt].
    + replace (S (length l) - bs) with 0 by lia.
      assert ((0 + bs - 1) / bs = 0) as -> by (apply Nat.div_small; lia).
      apply (Nat.div_unique _ _ 1 (S (length l) - 1)); lia.
    + replace (S (length l) + bs - 1) with ((S (length l) - bs + bs - 1) + 1 * bs) by lia.
      rewrite Nat.div_add by lia. lia.
Qed.

(* every batch but the last is full *)
Lemma chunks_all_but_last_full fuel bs l j : 1 <= bs -> length l <= fuel ->
  S j < length (chunks_fuel fuel bs l) -> length (nth j (chunks_fuel fuel bs l) []) = bs.
Proof.
  revert l j. induction fuel as [|f IH]; intros l j Hbs Hl Hj; [simpl in Hj; lia|].
  destruct l as [|x l]; [simpl in Hj; lia|]. cbn [chunks_fuel] in *.
  destruct j as [|j].
  - cbn [nth]. rewrite firstn_length. cbn [length] in Hj.
    destruct (le_lt_dec bs (length (x :: l))) as [H|H]; [lia|].
    rewrite skipn_all2 in Hj by lia. rewrite chunks_nil in Hj. simpl in Hj. lia.
  - cbn [nth]. apply IH; [exact Hbs | rewrite skipn_length; simpl length in *; lia | cbn [length] in Hj; lia].
Qed.

Lemma nth_firstn_lt {A} (d : A) bs : forall a l, a < bs -> nth a (firstn bs l) d = nth a l d.
Proof.
  induction bs as [|bs IH]; intros a l Ha; [lia|]. destruct l as [|x l]; [reflexivity|].
  destruct a as [|a]; [reflexivity|]. cbn [firstn nth]. apply IH. lia.
Qed.
Lemma nth_skipn_add {A} (d : A) bs : forall a l, nth a (skipn bs l) d = nth (bs + a) l d.
Proof.
  induction bs as [|bs IH]; intros a l; [reflexivity|]. destruct l as [|x l]; [destruct a; reflexivity|].
  cbn [skipn Nat.add nth]. apply IH.
Qed.

(* positional alignment: element a of batch j is element j*bs+a of the permutation *)
Lemma chunks_nth fuel bs l j a : 1 <= bs -> length l <= fuel ->
  j < length (chunks_fuel fuel bs l) -> a < length (nth j (chunks_fuel fuel bs l) []) ->
  nth a (nth j (chunks_fuel fuel bs l) []) 0 = nth (j * bs + a) l 0.
Proof.
  revert l j. induction fuel as [|f IH]; intros l j Hbs Hl Hj Ha; [simpl in Hj; lia|].
  destruct l as [|x l]; [simpl in Hj; lia|]. cbn [chunks_fuel] in *.
  destruct j as [|j].
  - change (a < length (firstn bs (x :: l))) in Ha. rewrite firstn_length in Ha.
    change (nth a (firstn bs (x :: l)) 0 = nth (0 * bs + a) (x :: l) 0).
    replace (0 * bs + a) with a by lia. apply nth_firstn_lt. lia.
  - change (a < length (nth j (chunks_fuel f bs (skipn bs (x :: l))) [])) in Ha. cbn [length] in Hj.
    change (nth a (nth j (chunks_fuel f bs (skipn bs (x :: l))) []) 0 = nth (S j * bs + a) (x :: l) 0).
    rewrite IH; [| exact Hbs | rewrite skipn_length; simpl length in *; lia | lia | exact Ha].
    rewrite nth_skipn_add. f_equal. lia.
Qed.

Lemma nodup_concat_unique (ls : list (list nat)) x j j' :
  NoDup (concat ls) -> j < length ls -> j' < length ls ->
  In x (nth j ls []) -> In x (nth j' ls []) -> j = j'.
Proof.
  revert j j'. induction ls as [|b ls IH]; intros j j' Hnd Hj Hj' Hx Hx'; [simpl in Hj; lia|].
  cbn [concat] in Hnd.
  assert (Hdis : forall y, In y b -> In y (concat ls) -> False).
  { intros y Hb Hc. revert Hnd Hb Hc. clear. induction b as [|z b IHb]; intros Hnd Hb Hc; [destruct Hb|].
    simpl in Hnd. inversion Hnd as [|? ? Hnot Hnd']; subst. destruct Hb as [->|Hb].
    - apply Hnot. apply in_or_app. right. exact Hc.
    - apply IHb; assumption. }
  assert (Hnd' : NoDup (concat ls)).
  { revert Hnd. clear. induction b as [|z b IHb]; intros H; [exact H|]. simpl in H. inversion H; subst. apply IHb; assumption. }
  assert (Hin : forall k, k < length ls -> In x (nth k ls []) -> In x (concat ls)).
  { intros k Hk Hk'. apply in_concat. exists (nth k ls []). split; [apply nth_In; exact Hk | exact Hk']. }
  destruct j as [|j], j' as [|j']; cbn [nth length] in *.
  - reflexivity.
  - exfalso. apply (Hdis x Hx). apply (Hin j'); [lia | exact Hx'].
  - exfalso. apply (Hdis x Hx'). apply (Hin j); [lia | exact Hx].
  - f_equal. apply IH; try assumption; lia.
Qed.

Definition is_perm_of_range (n : nat) (p : list nat) : Prop :=
  NoDup p /\ length p = n /\ Forall (fun i => i < n) p.

Lemma perm_range_complete n p : is_perm_of_range n p -> forall i, i < n -> In i p.
Proof.
  intros (Hnd & Hlen & Hall) i Hi.
  assert (Hincl : incl p (seq 0 n)).
  { intros x Hx. apply in_seq. rewrite Forall_forall in Hall. specialize (Hall x Hx). lia. }
  assert (Hincl' : incl (seq 0 n) p).
  { apply NoDup_length_incl; [exact Hnd | rewrite seq_length; lia | exact Hincl]. }
  apply Hincl'. apply in_seq. lia.
Qed.

Lemma batches_partition n bs perm : 1 <= bs -> is_perm_of_range n perm ->
  concat (batches bs perm) = perm /\
  Forall (fun b => 1 <= length b <= bs) (batches bs perm) /\
  length (batches bs perm) = (n + bs - 1) / bs /\
  (forall i, i < n -> exists! j, j < length (batches bs perm) /\ In i (nth j (batches bs perm) [])).
Proof.
  intros Hbs Hp. pose proof Hp as (Hnd & Hlen & Hall). unfold batches.
  assert (Hc : concat (chunks_fuel (length perm) bs perm) = perm) by (apply chunks_concat; [exact Hbs | lia]).
  split; [exact Hc|]. split; [apply chunks_sizes; exact Hbs|].
  split; [rewrite chunks_count by (try exact Hbs; lia); rewrite Hlen; reflexivity|].
  intros i Hi. pose proof (perm_range_complete n perm Hp i Hi) as Hin.
  rewrite <- Hc in Hin. apply in_concat in Hin. destruct Hin as (b & Hb & Hib).
  apply (In_nth _ _ []) in Hb. destruct Hb as (j & Hj & Hjb).
  exists j. split; [split; [exact Hj | rewrite Hjb; exact Hib]|].
  intros j' (Hj' & Hij'). apply (nodup_concat_unique (chunks_fuel (length perm) bs perm) i j j');
    try assumption; [rewrite Hc; exact Hnd | rewrite Hjb; exact Hib].
Qed.

Lemma batches_alignment bs perm j a : 1 <= bs ->
  j < length (batches bs perm) -> a < length (nth j (batches bs perm) []) ->
  nth a (nth j (batches bs perm) []) 0 = nth (j * bs + a) perm 0.
Proof. intros. unfold batches in *. apply chunks_nth; try assumption; lia. Qed.

Lemma block_alignment {T} (A : nat -> nat -> T) bs perm j a b : 1 <= bs ->
  let B := nth j (batches bs perm) [] in
  j < length (batches bs perm) -> a < length B -> b < length B ->
  block A B a b = A (nth (j * bs + a) perm 0) (nth (j * bs + b) perm 0).
Proof. intros Hbs B Hj Ha Hb. unfold block, B in *. rewrite !batches_alignment by assumption. reflexivity. Qed.

Lemma rows_alignment {T} (X : nat -> T) (d : T) bs perm j a : 1 <= bs ->
  let B := nth j (batches bs perm) [] in
  j < length (batches bs perm) -> a < length B ->
  nth a (rows X B) d = X (nth (j * bs + a) perm 0).
Proof.
  intros Hbs B Hj Ha. unfold rows, B in *.
  rewrite (nth_indep _ d (X 0)) by (rewrite map_length; exact Ha).
  rewrite (map_nth X). rewrite batches_alignment by assumption. reflexivity.
Qed.

Lemma batches_all_but_last_full bs perm j : 1 <= bs -> S j < length (batches bs perm) ->
  length (nth j (batches bs perm) []) = bs.
Proof. intros. unfold batches in *. apply chunks_all_but_last_full; try assumption; lia. Qed.

Lemma seq_is_perm n : is_perm_of_range n (seq 0 n).
Proof.
  split; [apply seq_NoDup|]. split; [apply seq_length|].
  apply Forall_forall. intros x Hx. apply in_seq in Hx. lia.
Qed.

Lemma fit_steps_count max_iter n bs perms : 1 <= eff_bs n bs ->
  (forall e, e < max_iter -> is_perm_of_range n (perms e)) ->
  fit_steps max_iter n bs perms = max_iter * ((n + eff_bs n bs - 1) / eff_bs n bs).
Proof.
  intros Hbs Hp. unfold fit_steps, epoch.
  assert (H : forall k s, (forall e, s <= e < s + k -> is_perm_of_range n (perms e)) ->
     list_sum (map (fun e => length (batches (eff_bs n bs) (perms e))) (seq s k)) = k * ((n + eff_bs n bs - 1) / eff_bs n bs)).
  { induction k as [|k IH]; intros s Hs; [reflexivity|]. cbn [seq map].
    match goal with |- list_sum (?x :: ?r) = _ => change (list_sum (x :: r)) with (x + list_sum r) end.
    rewrite IH by (intros e He; apply Hs; lia).
    destruct (batches_partition n (eff_bs n bs) (perms s) Hbs (Hs s ltac:(lia))) as (_ & _ & -> & _). lia. }
  apply H. intros e He. apply Hp. lia.
Qed.

Lemma decorated_indices_true n bs perm : is_perm_of_range n perm ->
  Forall (fun p => fst p = snd p) (decorated_epoch n bs perm).
Proof.
  intros (Hnd & Hlen & Hall). unfold decorated_epoch. apply Forall_forall. intros p Hp.
  apply in_map_iff in Hp. destruct Hp as (b & <- & Hb). cbn [fst snd].
  assert (Hsub : Forall (fun i => i < n) b).
  { apply Forall_forall. intros i Hi. rewrite Forall_forall in Hall. apply Hall.
    unfold epoch, batches in Hb.
    assert (Hg : forall fuel bs0 l, forall c, In c (chunks_fuel fuel bs0 l) -> incl c l).
    { clear. induction fuel as [|f IH]; intros bs0 l c Hc; [destruct Hc|].
      destruct l as [|x l]; [destruct Hc|]. cbn [chunks_fuel] in Hc. destruct Hc as [<-|Hc].
      - intros y Hy. rewrite <- (firstn_skipn bs0 (x :: l)). apply in_or_app. left. exact Hy.
      - intros y Hy. rewrite <- (firstn_skipn bs0 (x :: l)). apply in_or_app. right. apply (IH _ _ _ Hc). exact Hy. }
    apply (Hg _ _ _ _ Hb). exact Hi. }
  clear Hb. induction b as [|i b IHb]; [reflexivity|]. inversion Hsub; subst. cbn [map].
  rewrite seq_nth by assumption. simpl. f_equal. apply IHb. assumption.
Qed.

Lemma cat_epoch_full n : concat (cat_epoch n) = seq 0 n /\ length (cat_epoch n) = 1.
Proof. unfold cat_epoch. simpl. rewrite app_nil_r. split; reflexivity. Qed.
