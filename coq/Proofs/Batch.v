From Coq Require Import List Arith Lia ZArith.
From GV Require Import Model.Batch.
Import ListNotations.
Ltac Zify.zify_post_hook ::= Z.div_mod_to_equations.

Lemma chunks_nil fuel bs : chunks_fuel fuel bs [] = [].
Proof. destruct fuel; reflexivity. Qed.

Lemma chunks_concat fuel bs l : 1 <= bs -> length l <= fuel -> concat (chunks_fuel fuel bs l) = l.
Proof.
  revert l. induction fuel as [|f IH]; intros l Hbs Hl.
  - destruct l; [reflexivity | simpl in Hl; lia].
  - destruct l as [|x l]; [reflexivity|]. cbn [chunks_fuel concat].
    rewrite IH; [apply firstn_skipn | exact Hbs |].
    rewrite skipn_length. simpl length in *. lia.
Qed.

Lemma chunks_sizes fuel bs l : 1 <= bs ->
  Forall (fun b => 1 <= length b <= bs) (chunks_fuel fuel bs l).
Proof.
  revert l. induction fuel as [|f IH]; intros l Hbs; [constructor|].
  destruct l as [|x l]; [constructor|]. cbn [chunks_fuel]. constructor; [|apply IH; exact Hbs].
  rewrite firstn_length. simpl length. lia.
Qed.

Lemma chunks_count fuel bs l : 1 <= bs -> length l <= fuel ->
  length (chunks_fuel fuel bs l) = (length l + bs - 1) / bs.
Proof.
  revert l. induction fuel as [|f IH]; intros l Hbs Hl.
  - destruct l; [|simpl in Hl; lia]. simpl. symmetry. apply Nat.div_small. lia.
  - destruct l as [|x l]. { simpl. symmetry. apply Nat.div_small. lia. }
    cbn [chunks_fuel length]. rewrite IH; [| exact Hbs | rewrite skipn_length; simpl length in *; lia].
    rewrite skipn_length. cbn [length].
    destruct (le_lt_dec (S (length l)) bs) as [Hle|Hgt].
    + replace (S (length l) - bs) with 0 by lia.
      assert ((0 + bs - 1) / bs = 0) as -> by (apply Nat.div_small; lia).
      apply (Nat.div_unique _ _ 1 (S (length l) - 1)); lia.
    + replace (S (length l) + bs - 1) with ((S (length l) - bs + bs - 1) + 1 * bs) by lia.
      rewrite Nat.div_add by lia. lia.
Qed.

(* every batch but the last is full *)
Lemma chunks_all_but_last_full fuel bs l j : 1 <= bs -> length l <= fuel ->
  S j < length (chunks_fuel fuel bs l) -> length (nth j (chunks_fuel fuel bs l) []) = bs.
Proof.
  revert l j. induction fuel as [|f IH]; intros l j Hbs Hl Hj; [simpl in Hj; lia|].
  destruct l as [|x l]; [simpl in Hj; lia|]. cbn [chunks_fuel] in *.
  destruct j as [|j].
  - cbn [nth]. rewrite firstn_length. cbn [length] in Hj.
    destruct (le_lt_dec bs (length (x :: l))) as [H|H]; [lia|].
    rewrite skipn_all2 in Hj by lia. rewrite chunks_nil in Hj. simpl in Hj. lia.
  - cbn [nth]. apply IH; [exact Hbs | rewrite skipn_length; simpl length in *; lia | cbn [length] in Hj; lia].
Qed.

Lemma nth_firstn_lt {A} (d : A) bs : forall a l, a < bs -> nth a (firstn bs l) d = nth a l d.
Proof.
  induction bs as [|bs IH]; intros a l Ha; [lia|]. destruct l as [|x l]; [reflexivity|].
  destruct a as [|a]; [reflexivity|]. cbn [firstn nth]. apply IH. lia.
Qed.
Lemma nth_skipn_add {A} (d : A) bs : forall a l, nth a (skipn bs l) d = nth (bs + a) l d.
Proof.
  induction bs as [|bs IH]; intros a l; [reflexivity|]. destruct l as [|x l]; [destruct a; reflexivity|].
  cbn [skipn Nat.add nth]. apply IH.
Qed.

(* positional alignment: element a of batch j is element j*bs+a of the permutation *)
Lemma chunks_nth fuel bs l j a : 1 <= bs -> length l <= fuel ->
  j < length (chunks_fuel fuel bs l) -> a < length (nth j (chunks_fuel fuel bs l) []) ->
  nth a (nth j (chunks_fuel fuel bs l) []) 0 = nth (j * bs + a) l 0.
Proof.
  revert l j. induction fuel as [|f IH]; intros l j Hbs Hl Hj Ha; [simpl in Hj; lia|].
  destruct l as [|x l]; [simpl in Hj; lia|]. cbn [chunks_fuel] in *.
  destruct j as [|j].
  - change (a < length (firstn bs (x :: l))) in Ha. rewrite firstn_length in Ha.
    change (nth a (firstn bs (x :: l)) 0 = nth (0 * bs + a) (x :: l) 0).
    replace (0 * bs + a) with a by lia. apply nth_firstn_lt. lia.
  - change (a < length (nth j (chunks_fuel f bs (skipn bs (x :: l))) [])) in Ha. cbn [length] in Hj.
    change (nth a (nth j (chunks_fuel f bs (skipn bs (x :: l))) []) 0 = nth (S j * bs + a) (x :: l) 0).
    rewrite IH; [| exact Hbs | rewrite skipn_length; simpl length in *; lia | lia | exact Ha].
    rewrite nth_skipn_add. f_equal. lia.
Qed.

Lemma nodup_concat_unique (ls : list (list nat)) x j j' :
  NoDup (concat ls) -> j < length ls -> j' < length ls ->
  In x (nth j ls []) -> In x (nth j' ls []) -> j = j'.
Proof.
  revert j j'. induction ls as [|b ls IH]; intros j j' Hnd Hj Hj' Hx Hx'; [simpl in Hj; lia|].
  cbn [concat] in Hnd.
  assert (Hdis : forall y, In y b -> In y (concat ls) -> False).
  { intros y Hb Hc. revert Hnd Hb Hc. clear. induction b as [|z b IHb]; intros Hnd Hb Hc; [destruct Hb|].
    simpl in Hnd. inversion Hnd as [|? ? Hnot Hnd']; subst. destruct Hb as [->|Hb].
    - apply Hnot. apply in_or_app. right. exact Hc.
    - apply IHb; assumption. }
  assert (Hnd' : NoDup (concat ls)).
  { revert Hnd. clear. induction b as [|z b IHb]; intros H; [exact H|]. simpl in H. inversion H; subst. apply IHb; assumption. }
  assert (Hin : forall k, k < length ls -> In x (nth k ls []) -> In x (concat ls)).
  { intros k Hk Hk'. apply in_concat. exists (nth k ls []). split; [apply nth_In; exact Hk | exact Hk']. }
  destruct j as [|j], j' as [|j']; cbn [nth length] in *.
  - reflexivity.
  - exfalso. apply (Hdis x Hx). apply (Hin j'); [lia | exact Hx'].
  - exfalso. apply (Hdis x Hx'). apply (Hin j); [lia | exact Hx].
  - f_equal. apply IH; try assumption; lia.
Qed.

Definition is_perm_of_range (n : nat) (p : list nat) : Prop :=
  NoDup p /\ length p = n /\ Forall (fun i => i < n) p.

Lemma perm_range_complete n p : is_perm_of_range n p -> forall i, i < n -> In i p.
Proof.
  intros (Hnd & Hlen & Hall) i Hi.
  assert (Hincl : incl p (seq 0 n)).
  { intros x Hx. apply in_seq. rewrite Forall_forall in Hall. specialize (Hall x Hx). lia. }
  assert (Hincl' : incl (seq 0 n) p).
  { apply NoDup_length_incl; [exact Hnd | rewrite seq_length; lia | exact Hincl]. }
  apply Hincl'. apply in_seq. lia.
Qed.

Lemma batches_partition n bs perm : 1 <= bs -> is_perm_of_range n perm ->
  concat (batches bs perm) = perm /\
  Forall (fun b => 1 <= length b <= bs) (batches bs perm) /\
  length (batches bs perm) = (n + bs - 1) / bs /\
  (forall i, i < n -> exists! j, j < length (batches bs perm) /\ In i (nth j (batches bs perm) [])).
Proof.
  intros Hbs Hp. pose proof Hp as (Hnd & Hlen & Hall). unfold batches.
  assert (Hc : concat (chunks_fuel (length perm) bs perm) = perm) by (apply chunks_concat; [exact Hbs | lia]).
  split; [exact Hc|]. split; [apply chunks_sizes; exact Hbs|].
  split; [rewrite chunks_count by (try exact Hbs; lia); rewrite Hlen; reflexivity|].
  intros i Hi. pose proof (perm_range_complete n perm Hp i Hi) as Hin.
  rewrite <- Hc in Hin. apply in_concat in Hin. destruct Hin as (b & Hb & Hib).
  apply (In_nth _ _ []) in Hb. destruct Hb as (j & Hj & Hjb).
  exists j. split; [split; [exact Hj | rewrite Hjb; exact Hib]|].
  intros j' (Hj' & Hij'). apply (nodup_concat_unique (chunks_fuel (length perm) bs perm) i j j');
    try assumption; [rewrite Hc; exact Hnd | rewrite Hjb; exact Hib].
Qed.

Lemma batches_alignment bs perm j a : 1 <= bs ->
  j < length (batches bs perm) -> a < length (nth j (batches bs perm) []) ->
  nth a (nth j (batches bs perm) []) 0 = nth (j * bs + a) perm 0.
Proof. intros. unfold batches in *. apply chunks_nth; try assumption; lia. Qed.

Lemma block_alignment {T} (A : nat -> nat -> T) bs perm j a b : 1 <= bs ->
  let B := nth j (batches bs perm) [] in
  j < length (batches bs perm) -> a < length B -> b < length B ->
  block A B a b = A (nth (j * bs + a) perm 0) (nth (j * bs + b) perm 0).
Proof. intros Hbs B Hj Ha Hb. unfold block, B in *. rewrite !batches_alignment by assumption. reflexivity. Qed.

Lemma rows_alignment {T} (X : nat -> T) (d : T) bs perm j a : 1 <= bs ->
  let B := nth j (batches bs perm) [] in
  j < length (batches bs perm) -> a < length B ->
  nth a (rows X B) d = X (nth (j * bs + a) perm 0).
Proof.
  intros Hbs B Hj Ha. unfold rows, B in *.
  rewrite (nth_indep _ d (X 0)) by (rewrite map_length; exact Ha).
  rewrite (map_nth X). rewrite batches_alignment by assumption. reflexivity.
Qed.

Lemma batches_all_but_last_full bs perm j : 1 <= bs -> S j < length (batches bs perm) ->
  length (nth j (batches bs perm) []) = bs.
Proof. intros. unfold batches in *. apply chunks_all_but_last_full; try assumption; lia. Qed.

Lemma seq_is_perm n : is_perm_of_range n (seq 0 n).
Proof.
  split; [apply seq_NoDup|]. split; [apply seq_length|].
  apply Forall_forall. intros x Hx. apply in_seq in Hx. lia.
Qed.

Lemma fit_steps_count max_iter n bs perms : 1 <= eff_bs n bs ->
  (forall e, e < max_iter -> is_perm_of_range n (perms e)) ->
  fit_steps max_iter n bs perms = max_iter * ((n + eff_bs n bs - 1) / eff_bs n bs).
Proof.
  intros Hbs Hp. unfold fit_steps, epoch.
  assert (H : forall k s, (forall e, s <= e < s + k -> is_perm_of_range n (perms e)) ->
     list_sum (map (fun e => length (batches (eff_bs n bs) (perms e))) (seq s k)) = k * ((n + eff_bs n bs - 1) / eff_bs n bs)).
  { induction k as [|k IH]; intros s Hs; [reflexivity|]. cbn [seq map].
    match goal with |- list_sum (?x :: ?r) = _ => change (list_sum (x :: r)) with (x + list_sum r) end.
    rewrite IH by (intros e He; apply Hs; lia).
    destruct (batches_partition n (eff_bs n bs) (perms s) Hbs (Hs s ltac:(lia))) as (_ & _ & -> & _). lia. }
  apply H. intros e He. apply Hp. lia.
Qed.

Lemma decorated_indices_true n bs perm : is_perm_of_range n perm ->
  Forall (fun p => fst p = snd p) (decorated_epoch n bs perm).
Proof.
  intros (Hnd & Hlen & Hall). unfold decorated_epoch. apply Forall_forall. intros p Hp.
  apply in_map_iff in Hp. destruct Hp as (b & <- & Hb). cbn [fst snd].
  assert (Hsub : Forall (fun i => i < n) b).
  { apply Forall_forall. intros i Hi. rewrite Forall_forall in Hall. apply Hall.
    unfold epoch, batches in Hb.
    assert (Hg : forall fuel bs0 l, forall c, In c (chunks_fuel fuel bs0 l) -> incl c l).
    { clear. induction fuel as [|f IH]; intros bs0 l c Hc; [destruct Hc|].
      destruct l as [|x l]; [destruct Hc|]. cbn [chunks_fuel] in Hc. destruct Hc as [<-|Hc].
      - intros y Hy. rewrite <- (firstn_skipn bs0 (x :: l)). apply in_or_app. left. exact Hy.
      - intros y Hy. rewrite <- (firstn_skipn bs0 (x :: l)). apply in_or_app. right. apply (IH _ _ _ Hc). exact Hy. }
    apply (Hg _ _ _ _ Hb). exact Hi. }
  clear Hb. induction b as [|i b IHb]; [reflexivity|]. inversion Hsub; subst. cbn [map].
  rewrite seq_nth by assumption. simpl. f_equal. apply IHb. assumption.
Qed.

Lemma cat_epoch_full n : concat (cat_epoch n) = seq 0 n /\ length (cat_epoch n) = 1.
Proof. unfold cat_epoch. simpl. rewrite app_nil_r. split; reflexivity. Qed.

(* ====================================================================================== *)
(* The code model (index arithmetic, rules records) against the reference model.           *)
(* Everything here is stated for an arbitrary rules record satisfying the semantic         *)
(* conditions [*_ok]; Proofs/BatchGen.v shows that the REGENERATED records satisfy them.   *)
(* ====================================================================================== *)

(* Python's l[j : j+bs] for non-negative j, bs is firstn bs (skipn j l) *)
Lemma py_slice_nat {A} (l : list A) j bs :
  py_slice (Z.of_nat j) (Z.of_nat j + Z.of_nat bs)%Z l = firstn bs (skipn j l).
Proof.
  unfold py_slice, py_clip.
  destruct (Z.ltb_spec (Z.of_nat j) 0) as [H0|_]; [lia|].
  destruct (Z.ltb_spec (Z.of_nat j + Z.of_nat bs) 0) as [H0|_]; [lia|].
  destruct (le_lt_dec j (length l)) as [Hj|Hj].
  - rewrite (Z.min_l (Z.of_nat j)) by lia. rewrite Nat2Z.id.
    destruct (le_lt_dec (j + bs) (length l)) as [Hb|Hb].
    + rewrite Z.min_l by lia.
      replace (Z.to_nat (Z.of_nat j + Z.of_nat bs - Z.of_nat j)) with bs by lia. reflexivity.
    + rewrite Z.min_r by lia.
      rewrite !firstn_all2; [reflexivity | rewrite skipn_length; lia | rewrite skipn_length; lia].
  - rewrite (Z.min_r (Z.of_nat j)) by lia. rewrite (Z.min_r (Z.of_nat j + Z.of_nat bs)%Z) by lia.
    rewrite Nat2Z.id. rewrite !skipn_all2 by lia. rewrite !firstn_nil. reflexivity.
Qed.

Lemma skipn_skipn_add {A} (a b : nat) : forall l : list A, skipn a (skipn b l) = skipn (a + b) l.
Proof.
  induction b as [|b IH]; intros l; [rewrite Nat.add_0_r; reflexivity|].
  rewrite Nat.add_succ_r. destruct l as [|x l]; [rewrite !skipn_nil; reflexivity|]. cbn [skipn]. apply IH.
Qed.

Lemma option_map_cons {X Y} (F : X -> Y) x (r : option (list X)) :
  option_map (map F) (option_map (cons x) r) = option_map (cons (F x)) (option_map (map F) r).
Proof. destruct r; reflexivity. Qed.

(* the loop `j = 0; while j < len: yield F j; j += bs` visits exactly the chunks of the reference model *)
Lemma j_loop_chunks {Y} (guard : Z -> Z -> bool) (step : Z -> Z -> Z) (F : Z -> Y) (G : list nat -> Y)
      (all : list nat) (bs : nat) :
  (forall j n, guard j n = (j <? n)%Z) -> (forall j b, step j b = (j + b)%Z) -> 1 <= bs ->
  (forall j, F (Z.of_nat j) = G (firstn bs (skipn j all))) ->
  forall f2 f1 j, length (skipn j all) <= f1 -> S (length (skipn j all)) <= f2 ->
  option_map (map F) (j_loop guard step f2 (Z.of_nat (length all)) (Z.of_nat bs) (Z.of_nat j))
  = Some (map G (chunks_fuel f1 bs (skipn j all))).
Proof.
  intros Hg Hs Hbs HF. induction f2 as [|f IH]; intros f1 j H1 H2; [lia|].
  cbn [j_loop]. rewrite Hg.
  destruct (Z.ltb_spec (Z.of_nat j) (Z.of_nat (length all))) as [Hlt|Hge].
  - pose proof (skipn_length j all) as Hlen.
    destruct f1 as [|f1]; [lia|].
    remember (skipn j all) as l eqn:El. destruct l as [|x l]; [simpl in Hlen; lia|].
    cbn [chunks_fuel map]. rewrite El. rewrite skipn_skipn_add.
    rewrite option_map_cons. rewrite Hs.
    replace (Z.of_nat j + Z.of_nat bs)%Z with (Z.of_nat (bs + j)) by lia.
    rewrite (IH f1 (bs + j)).
    + cbn [option_map]. rewrite HF. reflexivity.
    + rewrite skipn_length. simpl length in H1, Hlen. lia.
    + rewrite skipn_length. simpl length in H2, Hlen. lia.
  - rewrite skipn_all2 by lia. rewrite chunks_nil. reflexivity.
Qed.

(* ---- conditions on the rules ---- *)
Definition none_default_ok (f : Z -> option Z -> Z) : Prop :=
  forall n o, f n o = match o with None => n | Some b => b end.
Definition batch_rules_ok (B : BatchRules) : Prop :=
  (forall n, r_perm_len B n = n) /\ none_default_ok (r_bs B) /\ r_start B = 0%Z /\
  (forall j n, r_guard B j n = (j <? n)%Z) /\
  (forall j b, r_lo B j b = j) /\ (forall j b, r_hi B j b = (j + b)%Z) /\
  (forall b, r_rows B b = b) /\ (forall b, r_aff_rows B b = b) /\ (forall b, r_aff_cols B b = b) /\
  (forall j b, r_step B j b = (j + b)%Z).
Definition deco_rules_ok (D : DecoRules) : Prop :=
  (forall n, d_arange D n = n) /\ (forall s, d_recorded D s = s) /\ (forall s, d_rows D s = s).
Definition step_rules_ok (S : StepRules) : Prop :=
  s_infer_x S = SrcBatch /\ s_gemini_aff S = SrcBatch /\ s_grads_x S = SrcBatch.
Definition fit_rules_ok (F : FitRules) : Prop :=
  (forall m, f_epochs F m = m) /\ (forall m, f_n_iter F m = m) /\ step_rules_ok (f_step F) /\ f_iter F = IterLazy.
(* the index part of compute_val_score's rules (any number type) *)
Definition val_idx_ok {T} (V : ValRules (T := T)) : Prop :=
  v_start V = 0%Z /\ (forall j n, v_guard V j n = (j <? n)%Z) /\ (forall j b, v_step V j b = (j + b)%Z) /\
  (forall j b, v_x_lo V j b = j) /\ (forall j b, v_x_hi V j b = (j + b)%Z) /\
  (forall j b, v_yr_lo V j b = j) /\ (forall j b, v_yr_hi V j b = (j + b)%Z) /\
  (forall j b, v_yc_lo V j b = j) /\ (forall j b, v_yc_hi V j b = (j + b)%Z) /\
  none_default_ok (v_path_bs V).

Lemma none_default_eff_bs f n bs : none_default_ok f ->
  f (Z.of_nat n) (option_map Z.of_nat bs) = Z.of_nat (eff_bs n bs).
Proof. intros H. rewrite H. destruct bs; reflexivity. Qed.

(* ---- _batchify ---- *)
Lemma code_index_batches_ok B : batch_rules_ok B -> forall n bs P,
  1 <= eff_bs n bs -> length (P (Z.of_nat n)) = n ->
  code_index_batches B n bs P = Some (epoch n bs (P (Z.of_nat n))).
Proof.
  intros (Hp & Hb & H0 & Hg & Hlo & Hhi & _ & _ & _ & Hs) n bs P Hbs Hlen.
  unfold code_index_batches, epoch, batches. rewrite Hp, H0, (none_default_eff_bs _ _ _ Hb).
  set (all := P (Z.of_nat n)) in *. rewrite <- Hlen at 2.
  change 0%Z with (Z.of_nat 0).
  rewrite (j_loop_chunks (r_guard B) (r_step B) _ (fun b => b) all (eff_bs n bs) Hg Hs Hbs) with (f1 := length all).
  - cbn [skipn]. rewrite map_id. reflexivity.
  - intros j. rewrite Hlo, Hhi. apply py_slice_nat.
  - cbn [skipn]. lia.
  - cbn [skipn]. lia.
Qed.

Definition dup3 (b : list nat) : Yield := (b, (b, b)).

Lemma code_batchify_ok B : batch_rules_ok B -> forall n bs P,
  1 <= eff_bs n bs -> length (P (Z.of_nat n)) = n ->
  code_batchify B n bs P = Some (map dup3 (epoch n bs (P (Z.of_nat n)))).
Proof.
  intros HB n bs P Hbs Hlen. unfold code_batchify. rewrite (code_index_batches_ok B HB) by assumption.
  destruct HB as (_ & _ & _ & _ & _ & _ & Hr & Har & Hac & _). cbn [option_map]. f_equal.
  apply map_ext. intros b. unfold yield_of, dup3. rewrite Hr, Har, Hac. reflexivity.
Qed.

(* ---- decorate_batch ---- *)
Lemma chunks_incl fuel bs l c : In c (chunks_fuel fuel bs l) -> incl c l.
Proof.
  revert l. induction fuel as [|f IH]; intros l Hc; [destruct Hc|].
  destruct l as [|x l]; [destruct Hc|]. cbn [chunks_fuel] in Hc. destruct Hc as [<-|Hc].
  - intros y Hy. rewrite <- (firstn_skipn bs (x :: l)). apply in_or_app. left. exact Hy.
  - intros y Hy. rewrite <- (firstn_skipn bs (x :: l)). apply in_or_app. right. apply (IH _ Hc). exact Hy.
Qed.
Lemma take_arange_id n b : Forall (fun i => i < n) b -> map (fun i => nth i (seq 0 n) 0) b = b.
Proof.
  induction b as [|i b IHb]; intros H; [reflexivity|]. inversion H; subst. cbn [map].
  rewrite seq_nth by assumption. simpl. f_equal. apply IHb. assumption.
Qed.

Definition dup4 (b : list nat) : list nat * (list nat * (list nat * list nat)) := (b, (b, (b, b))).

Lemma code_decorated_ok B D : batch_rules_ok B -> deco_rules_ok D -> forall n bs P,
  1 <= eff_bs n bs -> is_perm_of_range n (P (Z.of_nat n)) ->
  code_decorated B D n bs P = Some (map dup4 (epoch n bs (P (Z.of_nat n)))).
Proof.
  intros HB (Ha & Hrec & Hrows) n bs P Hbs (Hnd & Hlen & Hall). unfold code_decorated.
  rewrite Ha, Nat2Z.id, seq_length. rewrite (code_batchify_ok B HB) by assumption.
  cbn [option_map]. f_equal. rewrite map_map. apply map_ext_in. intros b Hb.
  unfold dup3, dup4. cbn [fst snd]. rewrite Hrec, Hrows.
  rewrite take_arange_id; [reflexivity|].
  apply Forall_forall. intros i Hi. rewrite Forall_forall in Hall. apply Hall.
  unfold epoch, batches in Hb. apply (chunks_incl _ _ _ _ Hb). exact Hi.
Qed.

(* with lazy iteration the indices _compute_grads sees are those of the rows of its own batch *)
Lemma map_nth_seq {X Y} (f : X -> Y) (d : X) (l : list X) : map (fun k => f (nth k l d)) (seq 0 (length l)) = map f l.
Proof.
  induction l as [|x l IH]; [reflexivity|]. cbn [length seq map nth]. f_equal.
  rewrite <- seq_shift, map_map. exact IH.
Qed.

Lemma code_decorated_visible_ok B D F : batch_rules_ok B -> deco_rules_ok D -> f_iter F = IterLazy -> forall n bs P,
  1 <= eff_bs n bs -> is_perm_of_range n (P (Z.of_nat n)) ->
  code_decorated_visible B D F n bs P = Some (map (fun b => (b, b)) (epoch n bs (P (Z.of_nat n)))).
Proof.
  intros HB HD HF n bs P Hbs Hp. unfold code_decorated_visible. rewrite (code_decorated_ok B D HB HD) by assumption.
  rewrite HF. cbn [option_map visible_indices]. f_equal. set (Y := map dup4 _).
  set (d := (@nil nat, (@nil nat, (@nil nat, @nil nat)))).
  assert (E : map (fun b : list nat => (b, b)) (epoch n bs (P (Z.of_nat n))) = map (fun y => (fst y, fst (snd y))) Y)
    by (unfold Y; rewrite map_map; reflexivity).
  rewrite E. rewrite <- (map_nth_seq (fun y => (fst y, fst (snd y))) d Y). apply map_ext. intros k.
  f_equal. exact (map_nth fst Y d k).
Qed.

(* ---- fit / _run_path training loops ---- *)
Definition reads_of (b : list nat) : Reads := (b, ((b, b), b)).

Lemma step_reads_ok S n b : step_rules_ok S -> step_reads S n (dup3 b) = reads_of b.
Proof. intros (H1 & H2 & H3). unfold step_reads. rewrite H1, H2, H3. reflexivity. Qed.

Lemma code_epochs_all (E : nat -> option (list Yield)) (Y : nat -> list Yield) l :
  (forall e, In e l -> E e = Some (Y e)) -> code_epochs E l = Some (concat (map Y l)).
Proof.
  induction l as [|e l IH]; intros H; [reflexivity|]. cbn [code_epochs map concat].
  rewrite (H e (or_introl eq_refl)). rewrite IH by (intros e' He'; apply H; right; exact He'). reflexivity.
Qed.

Lemma code_fit_trace_ok B F : batch_rules_ok B -> fit_rules_ok F -> forall max_iter n bs (P : nat -> Z -> list nat),
  1 <= eff_bs n bs -> (forall e, e < max_iter -> length (P e (Z.of_nat n)) = n) ->
  code_fit_trace B F max_iter n bs P
  = Some (concat (map (fun e => map reads_of (epoch n bs (P e (Z.of_nat n)))) (seq 0 max_iter))).
Proof.
  intros HB (He & _ & HS & _) max_iter n bs P Hbs HP. unfold code_fit_trace, py_range.
  rewrite He, Nat2Z.id.
  rewrite (code_epochs_all _ (fun e => map dup3 (epoch n bs (P e (Z.of_nat n))))).
  - cbn [option_map]. f_equal. rewrite concat_map, map_map. f_equal. apply map_ext. intros e.
    rewrite map_map. apply map_ext. intros b. apply step_reads_ok. exact HS.
  - intros e Hin. apply in_seq in Hin. apply (code_batchify_ok B HB); [exact Hbs | apply HP; lia].
Qed.

Lemma length_concat_map_epochs {X} (f : list nat -> X) n bs (perms : nat -> list nat) max_iter :
  length (concat (map (fun e => map f (epoch n bs (perms e))) (seq 0 max_iter))) = fit_steps max_iter n bs perms.
Proof.
  unfold fit_steps. generalize 0 as s. induction max_iter as [|k IH]; intros s; [reflexivity|].
  cbn [seq map concat]. rewrite app_length, map_length, IH.
  match goal with |- _ = list_sum (?x :: ?r) => change (list_sum (x :: r)) with (x + list_sum r) end. reflexivity.
Qed.

Lemma code_path_epoch_ok B S : batch_rules_ok B -> step_rules_ok S -> forall n bs P,
  1 <= eff_bs n bs -> length (P (Z.of_nat n)) = n ->
  code_path_epoch B S n bs P = Some (map reads_of (epoch n bs (P (Z.of_nat n)))).
Proof.
  intros HB HS n bs P Hbs Hlen. unfold code_path_epoch. rewrite (code_batchify_ok B HB) by assumption.
  cbn [option_map]. f_equal. rewrite map_map. apply map_ext. intros b. apply step_reads_ok. exact HS.
Qed.

(* ---- compute_val_score: the blocks ---- *)
Lemma code_val_blocks_ok {T} (V : ValRules (T := T)) : val_idx_ok V -> forall n bs, 1 <= bs ->
  code_val_blocks V n (Z.of_nat bs) = Some (map dup3 (val_blocks n bs)).
Proof.
  intros (H0 & Hg & Hs & Hxl & Hxh & Hrl & Hrh & Hcl & Hch & _) n bs Hbs.
  unfold code_val_blocks, val_blocks, batches. rewrite H0. change 0%Z with (Z.of_nat 0).
  replace (Z.of_nat n) with (Z.of_nat (length (seq 0 n))) by (rewrite seq_length; reflexivity).
  rewrite (j_loop_chunks (v_guard V) (v_step V) _ dup3 (seq 0 n) bs Hg Hs Hbs) with (f1 := length (seq 0 n)).
  - reflexivity.
  - intros j. rewrite Hxl, Hxh, Hrl, Hrh, Hcl, Hch, !py_slice_nat. reflexivity.
  - cbn [skipn]. lia.
  - cbn [skipn]. rewrite seq_length. lia.
Qed.
