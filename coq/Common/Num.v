(* Number-system record: every numerical model is written once over [NumOps T] and then used at
   T = R (theorems) and T = OCaml float (correspondence, after extraction).  No proofs here. *)
From Coq Require Import List Bool Arith.
Import ListNotations.

Record NumOps (T : Type) := {
  n0 : T; n1 : T;
  nadd : T -> T -> T; nsub : T -> T -> T; nmul : T -> T -> T; ndiv : T -> T -> T;
  nsqrt : T -> T; nln : T -> T; nexp : T -> T; nabs : T -> T;
  nltb : T -> T -> bool; nleb : T -> T -> bool; neqb : T -> T -> bool;
  nofnat : nat -> T
}.
Arguments n0 {T}. Arguments n1 {T}. Arguments nadd {T}. Arguments nsub {T}. Arguments nmul {T}.
Arguments ndiv {T}. Arguments nsqrt {T}. Arguments nln {T}. Arguments nexp {T}. Arguments nabs {T}.
Arguments nltb {T}. Arguments nleb {T}. Arguments neqb {T}. Arguments nofnat {T}.

Section Generic.
Context {T : Type} (o : NumOps T).
Definition nmax (a b : T) : T := if nltb o a b then b else a.
Definition nmin (a b : T) : T := if nltb o b a then b else a.
Definition nneg (a : T) : T := nsub o (n0 o) a.
Definition n2 : T := nadd o (n1 o) (n1 o).
(* sum_{i<n} f i, left fold (numpy sums pairwise: compared with a tolerance, never bit-wise) *)
Fixpoint bsum (n : nat) (f : nat -> T) : T :=
  match n with O => n0 o | S m => nadd o (bsum m f) (f m) end.
Fixpoint lsum (l : list T) : T := match l with [] => n0 o | x :: r => nadd o x (lsum r) end.
Definition norm2 (l : list T) : T := nsqrt o (lsum (map (fun x => nmul o x x) l)).
(* np.clip(x, lo, hi) = minimum(maximum(x, lo), hi) *)
Definition nclip (lo hi x : T) : T := nmin (nmax x lo) hi.
(* np.sign *)
Definition nsign (x : T) : T := if nltb o (n0 o) x then n1 o else if nltb o x (n0 o) then nneg (n1 o) else n0 o.
End Generic.
(* EXTRACT: NumOps nmax nmin nneg n2 bsum lsum norm2 nclip nsign *)
