(* The real-number instance of NumOps: the instance the theorems are about. *)
From Coq Require Import Reals List Bool.
From GV Require Import Common.Num.
Definition Rltb (x y : R) : bool := if Rlt_dec x y then true else false.
Definition Rleb (x y : R) : bool := if Rle_dec x y then true else false.
Definition Reqb (x y : R) : bool := if Req_EM_T x y then true else false.
Definition Rops : NumOps R := {|
  n0 := 0%R; n1 := 1%R; nadd := Rplus; nsub := Rminus; nmul := Rmult; ndiv := Rdiv;
  nsqrt := sqrt; nln := ln; nexp := exp; nabs := Rabs; nltb := Rltb; nleb := Rleb; neqb := Reqb; nofnat := INR |}.
