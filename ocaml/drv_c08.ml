(* C08 driver: tree states for KauriGain (find_best as-is / repaired, brute-force best_spec, true gains).
   state tokens: <kernel n n ...> <X n d ...> <leaves: list of lists> <cl list> nc kmax minleaf <explore list> <feats list> *)
open Common

let next_state t =
  let (_, _, kap) = next_mat t in
  let (_, _, x) = next_mat t in
  let leaves = next_list (next_list next_nat) t in
  let cl = next_list next_nat t in
  let nc = next_nat t in
  let kmax = next_nat t in
  let minleaf = next_nat t in
  let explore = next_list next_nat t in
  let feats = next_list next_nat t in
  { KauriGain.ks_kernel = kap; ks_X = x; ks_leaves = leaves; ks_cl = cl; ks_nc = nc; ks_kmax = kmax;
    ks_minleaf = minleaf; ks_explore = explore; ks_feats = feats }

let next_cand t =
  let leaf = next_nat t in let feat = next_nat t in let thr = next_float t in
  let a = next_nat t in let b = next_nat t in
  { KauriGain.c_leaf = leaf; c_feat = feat; c_thr = thr; c_left = a; c_right = b }

let out_cand (c : float KauriGain.cand) =
  out_nat c.KauriGain.c_leaf; out_nat c.KauriGain.c_feat; out_float c.KauriGain.c_thr;
  out_nat c.KauriGain.c_left; out_nat c.KauriGain.c_right

let out_split (s : float KauriGain.split) =
  out_float s.KauriGain.sp_gain; out_opt out_cand s.KauriGain.sp_cand

let () =
  (* find <fix7> <fix8> <state> -> gain, optional candidate *)
  register "c08.find" (fun t ->
    let f7 = next_bool t in let f8 = next_bool t in let st = next_state t in
    out_split (KauriGain.find_best fops f7 f8 st));
  (* all <state> -> as-is, F7 repaired, F8 repaired, both repaired, number of candidates, best_spec gain + candidate, objective *)
  register "c08.all" (fun t ->
    let st = next_state t in
    out_split (KauriGain.find_best_asis fops st);
    out_split (KauriGain.find_best fops true false st);
    out_split (KauriGain.find_best fops false true st);
    out_split (KauriGain.find_best_fixed fops st);
    let cs = KauriGain.candidates fops st in
    out_int (Stdlib.List.length cs);
    let (g, c) = KauriGain.best_spec_pair fops st in
    out_float g; out_cand c;
    out_float (KauriGain.objective fops st));
  (* gain <state> <cand> -> true gain of the candidate, membership in candidates *)
  register "c08.gain" (fun t ->
    let st = next_state t in let c = next_cand t in
    out_float (KauriGain.gain fops st c);
    let cs = KauriGain.candidates fops st in
    out_bool (Stdlib.List.exists (fun (x : float KauriGain.cand) ->
      x.KauriGain.c_leaf = c.KauriGain.c_leaf && x.KauriGain.c_feat = c.KauriGain.c_feat &&
      x.KauriGain.c_left = c.KauriGain.c_left && x.KauriGain.c_right = c.KauriGain.c_right &&
      KauriGain.left_part fops st x.KauriGain.c_leaf x.KauriGain.c_feat x.KauriGain.c_thr
        = KauriGain.left_part fops st c.KauriGain.c_leaf c.KauriGain.c_feat c.KauriGain.c_thr) cs));
  (* history <state> <list of cands> -> objective before, list of true gains, objective after *)
  register "c08.history" (fun t ->
    let st = next_state t in let cs = next_list next_cand t in
    out_float (KauriGain.objective fops st);
    out_list out_float (KauriGain.gains_along fops st cs);
    out_float (KauriGain.objective fops (KauriGain.run_splits fops st cs)))
