(* C04 driver: the output relations of a fitted model (Model/Coherence.v) on the float instance.
   family := lin <X n d> <W d K> <b K> | mlp <X> <W1 d h> <b1 h> <W2 h K> <b2 K> | smlp <X> <W1> <b1> <W2> <b2> <Wskip d K>
           | cat <logits n K> | krim <Kx n ntrain> <W ntrain K> <b K> | logits <Z n K>
   c04.model   <n> <K> family                 -> n*K predict_proba entries, n predict labels, n fit_labels
   c04.labels  <n> <K> <P n K>                -> n labels_of entries
   c04.softmax <K> <z K>                      -> K softmax_row entries, left-fold row sum, vmax, argmax_row of z, argmax_row of the softmax row
   c04.score   <obj> <ovo> <eps> <n> <K> family <A n n | 0 0>   -> score = gemini-model(predict_proba, A); obj in kl tv he chi mmd
   c04.fitmeta <max_iter> <solver>            -> n_iter, epochs_run, optimiser (sgd|adam), accepted 0/1 *)
open Common
open Datatypes

let ascii_of_char ch = let c = Char.code ch in let b i = (c lsr i) land 1 = 1 in
  Ascii.Ascii (b 0, b 1, b 2, b 3, b 4, b 5, b 6, b 7)
let cstr (s : string) : String.string =
  let r = ref String.EmptyString in
  for i = Stdlib.String.length s - 1 downto 0 do r := String.String (ascii_of_char (Stdlib.String.get s i), !r) done; !r

let parse_family t : float Coherence.params * (nat -> nat -> float) =
  match next t with
  | "lin" ->
    let (_, d, x) = next_mat t in let (_, _, w) = next_mat t in let (_, b) = next_vec t in
    (Coherence.PLinear (nat_of_int d, w, b), x)
  | "mlp" ->
    let (_, d, x) = next_mat t in let (_, h, w1) = next_mat t in let (_, b1) = next_vec t in
    let (_, _, w2) = next_mat t in let (_, b2) = next_vec t in
    (Coherence.PMlp (nat_of_int d, nat_of_int h, w1, b1, w2, b2), x)
  | "smlp" ->
    let (_, d, x) = next_mat t in let (_, h, w1) = next_mat t in let (_, b1) = next_vec t in
    let (_, _, w2) = next_mat t in let (_, b2) = next_vec t in let (_, _, ws) = next_mat t in
    (Coherence.PSparseMlp (nat_of_int d, nat_of_int h, w1, b1, w2, b2, ws), x)
  | "cat" ->
    let (_, _, l) = next_mat t in (Coherence.PCategorical l, (fun _ _ -> 0.0))
  | "krim" ->
    let (_, nt, kx) = next_mat t in let (_, _, w) = next_mat t in let (_, b) = next_vec t in
    (Coherence.PKernelRim (nat_of_int nt, w, b), kx)
  | "logits" ->
    let (_, _, z) = next_mat t in (Coherence.PLogits (fun _ -> z), (fun _ _ -> 0.0))
  | f -> failwith ("unknown family " ^ f)

let () =
  register "c04.model" (fun t ->
    let n = next_int t in let k = next_int t in
    let (p, x) = parse_family t in
    let kk = nat_of_int k in
    out_mat n k (Coherence.predict_proba fops kk p x);
    for i = 0 to n - 1 do out_nat (Coherence.predict fops kk p x (nat_of_int i)) done;
    for i = 0 to n - 1 do out_nat (Coherence.fit_labels fops kk p x (nat_of_int i)) done);
  register "c04.labels" (fun t ->
    let n = next_int t in let k = next_int t in let (_, _, pm) = next_mat t in
    for i = 0 to n - 1 do out_nat (Coherence.labels_of fops (nat_of_int k) pm (nat_of_int i)) done);
  register "c04.softmax" (fun t ->
    let k = next_int t in let (_, z) = next_vec t in
    let kk = nat_of_int k in
    let row c = Forward.softmax_row fops kk z c in
    for c = 0 to k - 1 do out_float (row (nat_of_int c)) done;
    out_float (Num.bsum fops kk row);
    out_float (Forward.vmax fops kk z);
    out_nat (Forward.argmax_row fops kk z);
    out_nat (Forward.argmax_row fops kk row));
  register "c04.score" (fun t ->
    let obj = next t in let ovo = next_bool t in let eps = next_float t in
    let n = next_int t in let k = next_int t in
    let (p, x) = parse_family t in
    let (_, _, a) = next_mat t in
    let nn = nat_of_int n and kk = nat_of_int k in
    let gem (y0 : nat -> nat -> float) (aff : nat -> nat -> float) : float =
      (* tabulate the probabilities once (the model functions are un-memoised closures) *)
      let ya = Array.init n (fun i -> Array.init k (fun c -> y0 (nat_of_int i) (nat_of_int c))) in
      let y i c = ya.(int_of_nat i).(int_of_nat c) in
      match obj with
      | "kl" -> Gemini.kl_score fops eps nn kk y ovo
      | "tv" -> Gemini.tv_score fops eps nn kk y ovo
      | "he" -> Gemini.he_score fops eps nn kk y ovo
      | "chi" -> Gemini.chi_score fops eps nn kk y ovo
      | "mmd" -> Gemini.mmd_score fops eps nn kk y aff ovo
      | _ -> failwith "unknown objective" in
    out_float (Coherence.score fops gem (fun _ -> a) kk p x));
  register "c04.fitmeta" (fun t ->
    let mi = next_nat t in let s = next t in
    out_nat (Coherence.n_iter mi); out_nat (Coherence.epochs_run mi);
    out_s (match Coherence.optimiser_of (cstr s) with Coherence.SGDOptimizer -> "sgd" | Coherence.AdamOptimizer -> "adam");
    out_bool (Coherence.solver_accepted (cstr s)))
