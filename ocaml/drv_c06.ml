(* C06 driver: selection / group completion / _update_weights composition of Model/Selection.v on floats.
   The optimiser step and the proximal operators are oracles of the model: the harness supplies what the
   implementation's optimiser produced and what the library operator returned; the driver reports which operator the
   model called, with which threshold and on which matrix. *)
open Common
open Datatypes

let out_groups gs = out_list (out_list out_nat) gs
let next_groups t = next_list (next_list next_nat) t

let () =
  (* c06.selection <W: d K floats> -> selection list, n_selected, group-lasso penalty, row norms *)
  register "c06.selection" (fun t ->
    let (d, k, w) = next_mat t in
    let dd = nat_of_int d and kk = nat_of_int k in
    out_list out_nat (Selection.selection fops dd kk w);
    out_nat (Selection.n_selected fops dd kk w);
    out_float (Selection.group_lasso_penalty fops dd kk w);
    for j = 0 to d - 1 do out_float (Selection.row_norm fops kk w (nat_of_int j)) done);
  (* c06.check_groups <d> <groups> -> option of completed groups *)
  register "c06.check_groups" (fun t ->
    let d = next_nat t in let gs = next_groups t in
    out_opt out_groups (Selection.check_groups gs d));
  (* c06.fit_groups <d> <groups option> -> outer option (N = ValueError), inner option (N = groups_ is None) *)
  register "c06.fit_groups" (fun t ->
    let d = next_nat t in let gs = next_opt next_groups t in
    out_opt (out_opt out_groups) (Selection.fit_groups gs d));
  (* c06.lr <adam|sgd> <lr0> <b1> <b2> <t> -> learning_rate attribute after t update_params calls *)
  register "c06.lr" (fun t ->
    let kind = next t in let lr0 = next_float t in let b1 = next_float t in let b2 = next_float t in let n = next_nat t in
    out_float (if kind = "adam" then Selection.adam_lr fops lr0 b1 b2 n else Selection.sgd_lr lr0 n));
  (* c06.update_linear <alpha> <lr after the step> <groups_ option> <W stepped: d K> <b stepped: K> <oracle: d K>
     -> kind (0 plain, 1 group), groups handed to the operator, threshold, matrix handed to the operator (d*K),
        new W (d*K), new b (K), selection of the new W, optimiser state returned *)
  register "c06.update_linear" (fun t ->
    let alpha = next_float t in let lr = next_float t in let gs = next_opt next_groups t in
    let (d, k, ws) = next_mat t in let (_, bs) = next_vec t in let (_, _, ans) = next_mat t in
    let called = ref None in
    let opt_step _ _ _ = (lr, { Selection.lW = ws; lb = bs }) in
    let prox w thr = called := Some (0, [], thr, w); ans in
    let gprox g w thr = called := Some (1, g, thr, w); ans in
    let dummy = { Selection.lW = (fun _ _ -> nan); lb = (fun _ -> nan) } in
    let (s', w') = Selection.update_weights_linear fops opt_step (fun s -> s) prox gprox gs alpha nan dummy dummy in
    (match !called with
     | None -> failwith "operator not called"
     | Some (kind, g, thr, w) -> out_int kind; out_groups g; out_float thr; out_mat d k w);
    out_mat d k w'.Selection.lW;
    for c = 0 to k - 1 do out_float (w'.Selection.lb (nat_of_int c)) done;
    out_list out_nat (Selection.selection fops (nat_of_int d) (nat_of_int k) w'.Selection.lW);
    out_float s');
  (* c06.update_mlp <alpha> <M> <lr after the step> <groups_ option> <Wskip stepped: d K> <W1 stepped: d h>
                    <oracle Wskip: d K> <oracle W1: d h>
     -> kind, groups, threshold, M handed over, matrices handed over (d*K, d*h), new Wskip (d*K), new W1 (d*h),
        selection of new Wskip, whether W2/b1/b2 are the stepped ones (tags) *)
  register "c06.update_mlp" (fun t ->
    let alpha = next_float t in let m = next_float t in let lr = next_float t in let gs = next_opt next_groups t in
    let (d, k, vs) = next_mat t in let (_, h, us) = next_mat t in
    let (_, _, ansv) = next_mat t in let (_, _, ansu) = next_mat t in
    let called = ref None in
    let stepped = { Selection.mW1 = us; mW2 = (fun _ _ -> 2.0); mWskip = vs; mb1 = (fun _ -> 3.0); mb2 = (fun _ -> 4.0) } in
    let opt_step _ _ _ = (lr, stepped) in
    let prox v u thr mm = called := Some (0, [], thr, mm, v, u); (ansv, ansu) in
    let gprox g v u thr mm = called := Some (1, g, thr, mm, v, u); (ansv, ansu) in
    let dummy = { Selection.mW1 = (fun _ _ -> nan); mW2 = (fun _ _ -> nan); mWskip = (fun _ _ -> nan);
                  mb1 = (fun _ -> nan); mb2 = (fun _ -> nan) } in
    let (_, w') = Selection.update_weights_mlp fops opt_step (fun s -> s) prox gprox gs alpha m nan dummy dummy in
    (match !called with
     | None -> failwith "operator not called"
     | Some (kind, g, thr, mm, v, u) -> out_int kind; out_groups g; out_float thr; out_float mm; out_mat d k v; out_mat d h u);
    out_mat d k w'.Selection.mWskip; out_mat d h w'.Selection.mW1;
    out_list out_nat (Selection.selection fops (nat_of_int d) (nat_of_int k) w'.Selection.mWskip);
    out_bool (w'.Selection.mW2 O O = 2.0 && w'.Selection.mb1 O = 3.0 && w'.Selection.mb2 O = 4.0));
  (* c06.thresholds <adam|sgd> <alpha> <lr0> <b1> <b2> <steps> -> the thresholds handed to the proximal operator by
     `steps` successive _update_weights calls (model: train over update_weights_linear, state = number of steps made) *)
  register "c06.thresholds" (fun t ->
    let kind = next t in let alpha = next_float t in let lr0 = next_float t in
    let b1 = next_float t in let b2 = next_float t in let steps = next_nat t in
    let seen = ref [] in
    let opt_step s w _ = (S s, w) in
    let opt_lr s = if kind = "adam" then Selection.adam_lr fops lr0 b1 b2 s else Selection.sgd_lr lr0 s in
    let prox w thr = seen := thr :: !seen; w in
    let gprox _ w thr = seen := thr :: !seen; w in
    let w0 = { Selection.lW = (fun _ _ -> 0.0); lb = (fun _ -> 0.0) } in
    let upd = Selection.update_weights_linear fops opt_step opt_lr prox gprox None alpha in
    let (s', _) = Selection.train upd (fun _ w -> w) steps O w0 in
    out_list out_float (Stdlib.List.rev !seen); out_nat s')
