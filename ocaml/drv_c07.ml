(* C07 driver: replays a traced path() run through the extracted state machine Path.path with the
   regenerated rules PathRules.path_rules; the trace is the oracle. *)
open Common
let rec pos_of_int n = if n <= 1 then BinNums.Coq_xH else if n land 1 = 0 then BinNums.Coq_xO (pos_of_int (n lsr 1)) else BinNums.Coq_xI (pos_of_int (n lsr 1))
let z_of_int n = if n = 0 then BinNums.Z0 else if n > 0 then BinNums.Zpos (pos_of_int n) else BinNums.Zneg (pos_of_int (- n))
let rec int_of_pos = function BinNums.Coq_xH -> 1 | BinNums.Coq_xO p -> 2 * int_of_pos p | BinNums.Coq_xI p -> 2 * int_of_pos p + 1
let int_of_z = function BinNums.Z0 -> 0 | BinNums.Zpos p -> int_of_pos p | BinNums.Zneg p -> - (int_of_pos p)
let next_score t = let x = next_float t in if Float.is_nan x then None else Some x
let out_score = function None -> out_s "nan" | Some x -> out_float x
let rules = PathRules.path_rules fops
let () =
  register "c07.path" (fun t ->
    let a_alpha = next_float t in let a_mult = next_float t in let a_minf = z_of_int (next_int t) in
    let a_keep = next_float t in let a_esf = next_float t in let a_patience = z_of_int (next_int t) in
    let a_max_iter = next_nat t in let a_d = next_nat t in let fuel = next_nat t in
    let args = { Path.a_alpha; a_mult; a_minf; a_keep; a_esf; a_patience; a_max_iter; a_d } in
    let rd_obs t = let s = next_score t in let p = next_float t in let n = next_nat t in { Path.ob_score = s; ob_pen = p; ob_nsel = n } in
    let init = rd_obs t in
    let nsteps = next_int t in
    let steps = Array.init nsteps (fun _ ->
      let vs = next_score t in let vp = next_float t in
      let ne = next_int t in let eps = Array.init ne (fun _ -> rd_obs t) in (vs, vp, eps)) in
    let exhausted = ref false in
    let dummy = { Path.ob_score = Some 0.0; ob_pen = 0.0; ob_nsel = O } in
    let orc = { Path.or_init = init;
      or_val = (fun k _ -> let k = int_of_nat k in
        if k < nsteps then (let (vs, vp, _) = steps.(k) in (vs, vp)) else (exhausted := true; (Some 0.0, 0.0)));
      or_epoch = (fun k _ i -> let k = int_of_nat k in let i = int_of_nat i in
        if k < nsteps then (let (_, _, eps) = steps.(k) in
          if i < Array.length eps then eps.(i) else (exhausted := true; dummy)) else (exhausted := true; dummy)) } in
    let res = Path.path fops rules args orc fuel in
    let (tag, st, nan) = match res with
      | Path.Returned (st, nan) -> ("R", st, nan) | Path.Unbound st -> ("U", st, false) | Path.OutOfFuel st -> ("F", st, false) in
    out_s tag; out_bool nan; out_nat st.Path.s_t; out_float (Path.alpha_after args res); out_float st.Path.s_alpha;
    out_opt out_nat st.Path.s_bidx;
    out_list out_float st.Path.s_alphas; out_list out_nat st.Path.s_nfeat; out_list out_float st.Path.s_gem;
    out_list out_float st.Path.s_pens; out_list out_nat st.Path.s_epochs; out_bool !exhausted;
    let w = Path.arg_warnings rules args in
    out_bool w.Path.w_mult; out_bool w.Path.w_keep; out_bool w.Path.w_minf; out_bool w.Path.w_minf_ge_d;
    out_float (Path.eff_mult rules args); out_float (Path.eff_keep rules args); out_int (int_of_z (Path.eff_minf rules args));
    out_score st.Path.s_best);
  (* wrapper: restore dynamic has_y -> restores?, warn(restore&dynamic), warn(precomputed&dynamic); bidx given as option *)
  register "c07.wrap" (fun t ->
    let restore = next_bool t in let dynamic = next_bool t in let has_y = next_bool t in
    out_bool (Path.wrapper_restores restore dynamic);
    out_bool (Path.wrapper_warn_restore_dynamic restore dynamic);
    out_bool (Path.wrapper_warn_dynamic_precomputed has_y dynamic));
  (* documented signature defaults *)
  register "c07.sig" (fun _ ->
    out_float rules.Path.r_sig_mult; out_int (int_of_z rules.Path.r_sig_minf); out_float rules.Path.r_sig_keep;
    out_float rules.Path.r_sig_esf; out_int (int_of_z rules.Path.r_sig_patience))
