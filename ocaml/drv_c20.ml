(* C20 - driver for the extracted model of the synthetic data generators (Model/DataGen.v, Gen/DataGenRules.v).
   draw_gmm and multivariate_student_t are answered TWICE: first by the definitions regenerated from the source
   (module DataGenRules), then by the hand-written model they are proved equal to (module DataGen); the harness compares the
   implementation with the first and the first with the second.
   Token formats.  vec = <n> x1..xn;  mat = <r> vec..vec (list of rows);  mats = <k> mat..mat
     gmm_in = <loc:mat> <scale: "2" mat | "3" mats> <pvals:vec>
     draws  = <m> draw..draw,  draw = "L" <n> i1..in | "V" vec | "M" mat
   Answers.  err = "N" | "S" <site> <k or -1>;  call = <tag 0..5> args (see out_call);  run = "N" | "S" mat <n> labels *)
open Common
open DataGen

let next_vec_l t = next_list next_float t
let next_mat_l t = next_list next_vec_l t
let next_mats_l t = next_list next_mat_l t

let next_gmm t =
  let loc = next_mat_l t in
  let scale = (match next t with
    | "2" -> Sc2 (next_mat_l t)
    | "3" -> Sc3 (next_mats_l t)
    | s -> failwith ("bad scale tag " ^ s)) in
  let p = next_vec_l t in
  { g_loc = loc; g_scale = scale; g_p = p }

let next_draw t =
  match next t with
  | "L" -> DLabels (next_list next_nat t)
  | "V" -> DVec (next_vec_l t)
  | "M" -> DMat (next_mat_l t)
  | s -> failwith ("bad draw tag " ^ s)
let next_draws t = next_list next_draw t

let out_vec v = out_list out_float v
let out_matl m = out_list out_vec m

let out_err = function
  | None -> out_s "N"
  | Some e ->
    out_s "S";
    (match e with
     | EArrayCheck -> out_int 0; out_int (-1)
     | ECountCov -> out_int 1; out_int (-1)
     | ENotSquare -> out_int 2; out_int (-1)
     | ECountP -> out_int 3; out_int (-1)
     | ENonPosP -> out_int 4; out_int (-1)
     | ESumP -> out_int 5; out_int (-1)
     | EVar k -> out_int 6; out_nat k
     | ENotPSD k -> out_int 7; out_nat k
     | EAllZero k -> out_int 8; out_nat k
     | EArray -> out_int 9; out_int (-1))

let out_call = function
  | CChoice (k, p, n) -> out_int 0; out_nat k; out_vec p; out_nat n
  | CNormal (loc, sd, n) -> out_int 1; out_vec loc; out_vec sd; out_nat n
  | CStdNormal (n, p) -> out_int 2; out_nat n; out_nat p
  | CMvn (mean, cov, n) -> out_int 3; out_vec mean; out_matl cov; out_nat n
  | CChisq (df, n) -> out_int 4; out_float df; out_nat n
  | CPerm n -> out_int 5; out_nat n
let out_calls cs = out_list out_call cs

let out_run = function
  | None -> out_s "N"
  | Some (x, y) -> out_s "S"; out_matl x; out_list out_nat y

let () =
  (* gmm_check <gmm_in> <eig: list of vec> -> err *)
  register "c20.gmm_check" (fun t ->
    let g = next_gmm t in
    let eigs = Array.of_list (next_list next_vec_l t) in
    let eig k = let i = int_of_nat k in if i < Array.length eigs then eigs.(i) else [] in
    out_err (DataGenRules.gen_gmm_check fops g eig); out_err (gmm_check fops g eig));
  (* gmm <n> <gmm_in> <draws> -> calls, run *)
  register "c20.gmm" (fun t ->
    let n = next_nat t in let g = next_gmm t in let rs = next_draws t in
    out_calls (DataGenRules.gen_gmm_calls fops n g); out_run (DataGenRules.gen_gmm_run rs);
    out_calls (gmm_calls fops n g); out_run (gmm_run rs));
  (* student <n> <loc> <scale> <df> <draws> -> check, calls, run (option mat) *)
  register "c20.student" (fun t ->
    let n = next_nat t in let loc = next_vec_l t in let scale = next_mat_l t in let df = next_float t in
    let rs = next_draws t in
    let out_x = function None -> out_s "N" | Some x -> out_s "S"; out_matl x in
    out_bool (DataGenRules.gen_student_check loc scale);
    out_calls (DataGenRules.gen_student_calls fops n loc scale df);
    out_x (DataGenRules.gen_student_run fops df loc rs);
    out_bool (student_check loc scale);
    out_calls (student_calls fops n loc scale df);
    out_x (student_run fops df loc rs));
  (* gstm <n> <alpha> <df> <draws> -> n_gaussian, calls, run *)
  register "c20.gstm" (fun t ->
    let n = next_nat t in let alpha = next_float t in let df = next_float t in let rs = next_draws t in
    out_nat (gstm_n_gauss n);
    out_calls (gstm_calls fops n alpha df); out_run (gstm_run fops n alpha df rs));
  (* c1 <n> <p> <mu> <draws> -> calls, run *)
  register "c20.c1" (fun t ->
    let n = next_nat t in let p = next_nat t in let mu = next_float t in let rs = next_draws t in
    out_calls (c1_calls fops n p mu); out_run (c1_run rs));
  (* c2 <n> <draws> -> calls, run *)
  register "c20.c2" (fun t ->
    let n = next_nat t in let rs = next_draws t in
    out_calls (c2_calls fops n); out_run (c2_run fops rs))
