(* C11 driver: runs the extracted interpreter of Model/Forwarding.v (module Forwarding) on the
   regenerated tables of Gen/Forwarding.v (module Forwarding0: same base name, extraction renames
   the second one).  Strings travel hex-encoded: x<hex>.  Values: N | T | F | s<hex> | n<hex> |
   c<k> callable | d<k> dict | o<k> other object. *)
open Common
module F = Forwarding
module G = Forwarding0

let coq_char c =
  let n = Char.code c in let b i = (n lsr i) land 1 = 1 in
  Ascii.Ascii (b 0, b 1, b 2, b 3, b 4, b 5, b 6, b 7)
let ocaml_char (Ascii.Ascii (b0, b1, b2, b3, b4, b5, b6, b7)) =
  let v b i = if b then 1 lsl i else 0 in
  Char.chr (v b0 0 + v b1 1 + v b2 2 + v b3 3 + v b4 4 + v b5 5 + v b6 6 + v b7 7)
let coq_string (s : Stdlib.String.t) =
  let rec go i = if i >= Stdlib.String.length s then String.EmptyString else String.String (coq_char (Stdlib.String.get s i), go (i + 1)) in go 0
let ocaml_string cs =
  let b = Buffer.create 16 in
  let rec go = function String.EmptyString -> () | String.String (c, r) -> Buffer.add_char b (ocaml_char c); go r in
  go cs; Buffer.contents b

let hex_of s = let b = Buffer.create 32 in Stdlib.String.iter (fun c -> Buffer.add_string b (Printf.sprintf "%02x" (Char.code c))) s; Buffer.contents b
let unhex h = Stdlib.String.init (Stdlib.String.length h / 2) (fun i -> Char.chr (int_of_string ("0x" ^ Stdlib.String.sub h (2 * i) 2)))
let tail s = Stdlib.String.sub s 1 (Stdlib.String.length s - 1)

let next_str t = let tok = next t in if Stdlib.String.get tok 0 <> 'x' then failwith "string token expected" else coq_string (unhex (tail tok))
let out_str cs = out_s ("x" ^ hex_of (ocaml_string cs))

let value_of_tok tok =
  match Stdlib.String.get tok 0 with
  | 'N' -> F.VC F.CNone
  | 'T' -> F.VC (F.CBool true)
  | 'F' -> F.VC (F.CBool false)
  | 's' -> F.VC (F.CStr (coq_string (unhex (tail tok))))
  | 'n' -> F.VC (F.CNum (coq_string (unhex (tail tok))))
  | 'c' -> F.VCallable (nat_of_int (int_of_string (tail tok)))
  | 'd' -> F.VDict (nat_of_int (int_of_string (tail tok)))
  | 'o' -> F.VObj (nat_of_int (int_of_string (tail tok)))
  | _ -> failwith ("bad value token " ^ tok)
let next_value t = value_of_tok (next t)
let out_const = function
  | F.CNone -> out_s "N"
  | F.CBool b -> out_s (if b then "T" else "F")
  | F.CStr s -> out_s ("s" ^ hex_of (ocaml_string s))
  | F.CNum s -> out_s ("n" ^ hex_of (ocaml_string s))
let out_value = function
  | F.VC c -> out_const c
  | F.VCallable k -> out_s ("c" ^ string_of_int (int_of_nat k))
  | F.VDict k -> out_s ("d" ^ string_of_int (int_of_nat k))
  | F.VObj k -> out_s ("o" ^ string_of_int (int_of_nat k))

let next_kwargs t = next_list (fun t -> let k = next_str t in let v = next_value t in (k, v)) t
let out_attrs l = out_list (fun (k, v) -> out_str k; out_value v) l
let out_pw = function F.PKernels -> out_s "K" | F.PDistances -> out_s "D"
let next_pw t = if next t = "K" then F.PKernels else F.PDistances

let out_outcome = function
  | F.CallUser k -> out_s "CU"; out_nat k
  | F.UseGiven -> out_s "UG"
  | F.ErrorMissing -> out_s "EM"
  | F.Pairwise (k, m, p) -> out_s "PW"; out_pw k; out_value m;
    (match p with F.PEmpty -> out_s "PE" | F.PGiven v -> out_s "PG"; out_value v)

let out_desc = function
  | F.DUser v -> out_s "DU"; out_value v
  | F.DBuilt d -> out_s "DB"; out_str d.F.gd_class; out_opt out_str d.F.gd_family; out_opt out_value d.F.gd_ovo;
    (match d.F.gd_aff with
     | F.AffNone -> out_s "AN"
     | F.AffUnknown -> out_s "AU"
     | F.AffSpec (k, f, p) -> out_s "AS"; out_pw k; out_opt out_value f; out_opt out_value p)

let out_gobj = function
  | None -> out_s "E"
  | Some g ->
    (match g with
     | F.GUser v -> out_s "U"; out_value v
     | F.GNew (c, attrs) -> out_s "G"; out_str c; out_attrs attrs);
    out_desc (F.describe G.classes g)

let () =
  (* the model's view of the class table: name, parent, owner of get_gemini, constructor parameters *)
  register "c11.classes" (fun _ ->
    out_list (fun c ->
      out_str c.F.c_name; out_opt out_str c.F.c_parent;
      out_opt out_str (F.method_owner G.classes c.F.c_name (coq_string "get_gemini"));
      out_list (fun (p, d) -> out_str p; out_opt out_const d) (F.ctor_params G.classes c.F.c_name)) G.classes);
  register "c11.registry" (fun _ ->
    out_list out_str G.gemini_registry.F.r_available;
    out_list (fun (n, _) -> out_str n) G.gemini_registry.F.r_chain);
  (* construct <cls> <pos list> <kwargs> -> E | S attrs *)
  register "c11.construct" (fun t ->
    let cls = next_str t in let pos = next_list next_value t in let kw = next_kwargs t in
    match F.construct G.classes cls pos kw with None -> out_s "E" | Some a -> out_s "S"; out_attrs a);
  (* gemini <cls> <kwargs> -> E | (U v | G cls attrs) desc *)
  register "c11.gemini" (fun t ->
    let cls = next_str t in let kw = next_kwargs t in
    out_gobj (F.estimator_gemini G.classes G.gemini_registry { F.e_class = cls; e_kwargs = kw }));
  register "c11.str" (fun t -> let n = next_str t in out_gobj (F.str_to_gemini G.classes G.gemini_registry n));
  (* affinity <cls> <kwargs> <has_y> -> E | NONE | outcome *)
  register "c11.affinity" (fun t ->
    let cls = next_str t in let kw = next_kwargs t in let hy = next_bool t in
    match F.training_affinity G.classes G.gemini_registry { F.e_class = cls; e_kwargs = kw } hy with
    | None -> out_s "E" | Some None -> out_s "NONE" | Some (Some o) -> out_outcome o);
  (* dispatch <K|D> <fn> <params> <has_y> -> outcome warn *)
  register "c11.dispatch" (fun t ->
    let k = next_pw t in let f = next_value t in let p = next_value t in let hy = next_bool t in
    let s = { F.a_kind = k; a_fn = f; a_params = p } in
    out_outcome (F.affinity_dispatch s hy); out_bool (F.affinity_warns s));
  register "c11.kauri" (fun t ->
    let k = next_value t in let hy = next_bool t in
    let (o, w) = F.kauri_dispatch k hy in out_outcome o; out_bool w);
  register "c11.kernelrim" (fun t ->
    let k = next_value t in let p = next_value t in out_outcome (F.kernelrim_dispatch k p));
  register "c11.owner" (fun t ->
    let c = next_str t in let m = next_str t in out_opt out_str (F.method_owner G.classes c m))
