(* C18 — driver for the extracted row-wise prediction models (coq/Model/Rowwise.v over Model/Forward.v).
   Every command takes the data matrix X and an index list r and evaluates the model on select r X,
   i.e. on the rows X[r]; outputs are the len(r) x K probabilities (hex floats) followed by len(r) labels. *)
open Common
open Datatypes

let rec pos_of_int n = if n <= 1 then BinNums.Coq_xH
  else if n land 1 = 0 then BinNums.Coq_xO (pos_of_int (n lsr 1)) else BinNums.Coq_xI (pos_of_int (n lsr 1))
let z_of_int n = if n = 0 then BinNums.Z0 else if n > 0 then BinNums.Zpos (pos_of_int n) else BinNums.Zneg (pos_of_int (-n))
let rec int_of_pos = function BinNums.Coq_xH -> 1 | BinNums.Coq_xO p -> 2 * int_of_pos p | BinNums.Coq_xI p -> 2 * int_of_pos p + 1
let int_of_z = function BinNums.Z0 -> 0 | BinNums.Zpos p -> int_of_pos p | BinNums.Zneg p -> - (int_of_pos p)
let next_z t = z_of_int (next_int t)

let mat_of t = let (_, _, f) = next_mat t in f
let vec_of t = let (_, f) = next_vec t in f
(* index map r : nat -> nat from a list (total: indices past the list map to 0) *)
let next_rmap t =
  let a = Array.of_list (next_list next_int t) in
  (Array.length a, (fun i -> let k = int_of_nat i in nat_of_int (if k < Array.length a then a.(k) else 0)))

let out_probs_labels nr k (p : nat -> nat -> float) (lab : nat -> nat) =
  out_mat nr k p;
  for i = 0 to nr - 1 do out_nat (lab (nat_of_int i)) done

(* <kind 0 linear | 1 mlp | 2 sparse mlp> <d> [<h>] <K> params... *)
let next_model t =
  let kind = next_int t in
  if kind = 0 then begin
    let d = next_nat t in let k = next_nat t in let w = mat_of t in let b = vec_of t in
    Rowwise.MLinear (d, k, w, b) end
  else begin
    let d = next_nat t in let h = next_nat t in let k = next_nat t in
    let w1 = mat_of t in let b1 = vec_of t in let w2 = mat_of t in let b2 = vec_of t in
    if kind = 1 then Rowwise.MMlp (d, h, k, w1, b1, w2, b2)
    else let ws = mat_of t in Rowwise.MSparseMlp (d, h, k, w1, b1, w2, b2, ws) end

let () =
  (* c18.model <model> <X> <r> <Xtrain-or-empty> : predict_proba / predict on X[r]; then fit_labels on the ntrain rows of Xtrain *)
  register "c18.model" (fun t ->
    let m = next_model t in
    let x = mat_of t in
    let (nr, r) = next_rmap t in
    let (ntr, _, xtr) = next_mat t in
    let k = int_of_nat (Rowwise.n_clusters m) in
    let xs = Rowwise.select r x in
    out_probs_labels nr k (Rowwise.predict_proba fops m xs) (Rowwise.predict fops m xs);
    for i = 0 to ntr - 1 do out_nat (Rowwise.fit_labels fops m xtr (nat_of_int i)) done);

  (* c18.mlp_st <kind 1|2> <d> <h> <K> W1 b1 W2 b2 [Ws] <Hprev opt mat> <retain> <X> :
     state-passing _infer: probabilities (n x K), then the H_ attribute afterwards (N | S rows cols entries) *)
  register "c18.mlp_st" (fun t ->
    let kind = next_int t in
    let d = next_nat t in let h = next_nat t in let k = next_nat t in
    let w1 = mat_of t in let b1 = vec_of t in let w2 = mat_of t in let b2 = vec_of t in
    let ws = if kind = 2 then Some (mat_of t) else None in
    let hprev = next_opt (fun t -> next_mat t) t in
    let retain = next_bool t in
    let (n, _, x) = next_mat t in
    let hp = match hprev with None -> None | Some (_, _, f) -> Some f in
    let (p, st) = match ws with
      | None -> Rowwise.mlp_infer_st fops d h k w1 b1 w2 b2 hp retain x
      | Some w -> Rowwise.sparse_mlp_infer_st fops d h k w1 b1 w2 b2 w hp retain x in
    out_mat n (int_of_nat k) p;
    (match st with
     | None -> out_s "N"
     | Some f ->
       let rows = if retain then n else (match hprev with Some (r0, _, _) -> r0 | None -> 0) in
       out_s "S"; out_int rows; out_int (int_of_nat h); out_mat rows (int_of_nat h) f));

  (* c18.krim <d> <ntrain> <K> <Xtrain> <Ktrain> <W> <b> <X> <Kx> <r>
     The kernel oracle is realised from the recorded python values as a function of the ROW CONTENT:
     kern A B i = recorded kernel row of the row (A i 0 .. A i (d-1)); first recording wins.
     out: <unknown-row count> ; predict_proba/predict on X[r] ; fit probabilities (ntrain x K) ; fit labels *)
  register "c18.krim" (fun t ->
    let d = next_int t in let ntrain = next_int t in let k = next_nat t in
    let (_, _, xtr) = next_mat t in let (_, _, ktr) = next_mat t in
    let w = mat_of t in let b = vec_of t in
    let (n, _, x) = next_mat t in let (_, _, kx) = next_mat t in
    let (nr, r) = next_rmap t in
    let tbl : (float list, nat -> float) Hashtbl.t = Hashtbl.create 64 in
    let key (a : nat -> nat -> float) i = Stdlib.List.init d (fun j -> a i (nat_of_int j)) in
    for i = 0 to ntrain - 1 do
      let i' = nat_of_int i in let ky = key xtr i' in
      if not (Hashtbl.mem tbl ky) then Hashtbl.add tbl ky (fun tt -> ktr i' tt) done;
    for i = 0 to n - 1 do
      let i' = nat_of_int i in let ky = key x i' in
      if not (Hashtbl.mem tbl ky) then Hashtbl.add tbl ky (fun tt -> kx i' tt) done;
    let unknown = ref 0 in
    let kern (a : nat -> nat -> float) (_ : nat -> nat -> float) i tt =
      match Hashtbl.find_opt tbl (key a i) with Some f -> f tt | None -> incr unknown; nan in
    let m = Rowwise.krim_fit_store kern (nat_of_int ntrain) k xtr w b in
    let xs = Rowwise.select r x in
    let kk = int_of_nat k in
    (* evaluate everything first so that the unknown-row counter is final before it is printed *)
    let ev rows cols (f : nat -> nat -> float) = Array.init rows (fun i -> Array.init cols (fun c -> f (nat_of_int i) (nat_of_int c))) in
    let pp = Rowwise.krim_predict_proba fops kern m xs in
    let probs = ev nr kk pp in
    let labs = Array.init nr (fun i -> Rowwise.krim_predict fops kern m xs (nat_of_int i)) in
    let fprobs = ev ntrain kk (Rowwise.krim_fit_proba fops m) in
    let flabs = Array.init ntrain (fun i -> Rowwise.krim_fit_labels fops m (nat_of_int i)) in
    out_int !unknown;
    Array.iter (Array.iter out_float) probs; Array.iter out_nat labs;
    Array.iter (Array.iter out_float) fprobs; Array.iter out_nat flabs);

  (* c18.linkern <d> <A> <B> : the model's linear kernel (non-vacuity witness of the oracle hypothesis) *)
  register "c18.linkern" (fun t ->
    let d = next_nat t in let (n, _, a) = next_mat t in let (m, _, b) = next_mat t in
    out_mat n m (Rowwise.linear_kernel fops d a b));

  (* c18.douglas <nc> <temp> <cuts: list of (feature, sorted cut vec)> <nleaf> <K> <scores> <X> <r> *)
  register "c18.douglas" (fun t ->
    let nc = next_nat t in let temp = next_float t in
    let cuts = next_list (fun t -> let f = next_nat t in let v = vec_of t in (f, v)) t in
    let nleaf = next_nat t in let k = next_nat t in let scores = mat_of t in
    let x = mat_of t in let (nr, r) = next_rmap t in
    let p = Rowwise.douglas_infer fops nc temp cuts nleaf k scores (Rowwise.select r x) in
    out_probs_labels nr (int_of_nat k) p (fun i -> Forward.argmax_row fops k (p i)));

  (* c18.tree <n_nodes> <left> <right> <target> <feat opt list> <thr opt list> <cat> <X> <r> <node> <fuel opt>
     out: status (0 ok | 1 exception | 2 out of fuel) [labels] of the vectorised recursion on X[r];
          then per selected row: status [label] of routing that row alone *)
  register "c18.tree" (fun t ->
    let nn = next_z t in
    let left = next_list next_z t in let right = next_list next_z t in let target = next_list next_z t in
    let feat = next_list (next_opt next_nat) t in let thr = next_list (next_opt next_float) t in
    let cat = next_list next_bool t in
    let (n, d, x) = next_mat t in
    let r = next_list next_int t in
    let node = next_z t in
    let fuel = match next_opt next_nat t with Some f -> f | None -> nat_of_int (Stdlib.List.length left) in
    let tr = { Rowwise.a_n = nn; a_left = left; a_right = right; a_target = target; a_feat = feat; a_thr = thr; a_cat = cat } in
    let rows = Stdlib.List.init n (fun i -> (fun j -> x (nat_of_int i) j)) in
    let sel = Rowwise.select_rows (fun _ -> nan) (Stdlib.List.map nat_of_int r) rows in
    (match Rowwise.predict_vec fops fuel tr sel node with
     | Rowwise.Ok v -> out_int 0; out_list (fun z -> out_int (int_of_z z)) v
     | Rowwise.Err -> out_int 1
     | Rowwise.Fuel -> out_int 2);
    Stdlib.List.iter (fun row ->
      match Rowwise.route fops fuel tr row node with
      | Rowwise.Ok z -> out_int 0; out_int (int_of_z z)
      | Rowwise.Err -> out_int 1
      | Rowwise.Fuel -> out_int 2) sel)
