open Common
(* pairs: "<n> a1 b1 a2 b2 ..." *)
let next_pair t = let a = next_nat t in let b = next_nat t in (a, b)
let next_pairs t = next_list next_pair t
(* raw input: N | S x | F <list> | R <list of lists> *)
let next_raw t = match next t with
  | "N" -> Mlcl.RNone
  | "S" -> Mlcl.RScalar (next_nat t)
  | "F" -> Mlcl.RFlat (next_list next_nat t)
  | "R" -> Mlcl.RRows (next_list (next_list next_nat) t)
  | s -> failwith ("bad raw tag " ^ s)
(* dense matrix as list of rows *)
let next_rows t = let r = next_int t in let c = next_int t in
  Stdlib.List.init r (fun _ -> Stdlib.List.init c (fun _ -> next_float t))
let () =
  (* valid <ml> <cl> -> bool *)
  register "c14.valid" (fun t ->
    let ml = next_pairs t in let cl = next_pairs t in out_bool (Mlcl.valid ml cl));
  (* structural <ml> <cl> -> option bool (N = out of fuel) *)
  register "c14.structural" (fun t ->
    let ml = next_pairs t in let cl = next_pairs t in out_opt out_bool (Mlcl.structural ml cl));
  (* accept_raw <raw> <raw> -> bool *)
  register "c14.accept_raw" (fun t ->
    let a = next_raw t in let b = next_raw t in out_bool (Mlcl.accept_raw a b));
  (* components <ml> -> list of (sample, component label over positions) *)
  register "c14.components" (fun t ->
    let ml = next_pairs t in
    let u = Mlcl.uniq ml in
    let lab = Mlcl.label (Mlcl.pos_edges u ml) in
    out_list (fun s -> out_nat s; out_nat (lab (Mlcl.index s u))) u);
  (* decorate <factor> <idx> <Y rows> <ml> <cl> <G rows> -> r c floats *)
  register "c14.decorate" (fun t ->
    let f = next_float t in let idx = next_list next_nat t in
    let y = next_rows t in let ml = next_pairs t in let cl = next_pairs t in let g = next_rows t in
    let res = Mlcl.decorate_grads fops f idx y ml cl g in
    out_list (fun row -> out_list out_float row) res)
