(* gem.eval <obj> <ovo 0|1> <eps> <Y: n K floats> <A: n n floats | 0 0> [oracle for ws]
   obj in kl tv he chi mmd ws ; reply: score then the n*K gradient entries (row major).
   ws oracle, OvA: <emd: 1 K> <u: K n>          OvO: <emd: K K> <u: K*K n> <v: K*K n>      *)
open Common
open Datatypes
let () =
  register "gem.eval" (fun t ->
    let obj = next t in let ovo = next_bool t in let eps = next_float t in
    let (n, k, y) = next_mat t in
    let (_, _, a) = next_mat t in
    let nn = nat_of_int n and kk = nat_of_int k in
    let zero1 _ = 0.0 and zero2 _ _ = 0.0 and zero3 _ _ _ = 0.0 in
    let (score, grad) = match obj with
      | "kl" -> (Gemini.kl_score fops eps nn kk y ovo, Gemini.kl_grad fops eps nn y ovo)
      | "tv" -> (Gemini.tv_score fops eps nn kk y ovo, Gemini.tv_grad fops eps nn kk y ovo)
      | "he" -> (Gemini.he_score fops eps nn kk y ovo, Gemini.he_grad fops eps nn kk y ovo)
      | "chi" -> (Gemini.chi_score fops eps nn kk y ovo, Gemini.chi_grad fops eps nn kk y ovo)
      | "mmd" -> (Gemini.mmd_score fops eps nn kk y a ovo, Gemini.mmd_grad fops eps nn kk y a ovo)
      | "ws" ->
        if ovo then begin
          let (_, _, emd) = next_mat t in let (_, _, u) = next_mat t in let (_, _, v) = next_mat t in
          let idx k1 k2 = nat_of_int (int_of_nat k1 * k + int_of_nat k2) in
          let uo k1 k2 i = u (idx k1 k2) i and vo k1 k2 i = v (idx k1 k2) i in
          (Gemini.ws_score fops eps nn kk y zero1 emd ovo, Gemini.ws_grad fops eps nn kk y zero1 zero2 emd uo vo ovo)
        end else begin
          let (_, _, emd) = next_mat t in let (_, _, u) = next_mat t in
          let e k = emd O k in
          (Gemini.ws_score fops eps nn kk y e zero2 ovo, Gemini.ws_grad fops eps nn kk y e u zero2 zero3 zero3 ovo)
        end
      | _ -> failwith "unknown objective" in
    out_float score; out_mat n k grad);
  (* gem.wy <eps> <Y> -> the K x n weights handed to the transport solver *)
  register "gem.wy" (fun t ->
    let eps = next_float t in let (n, k, y) = next_mat t in
    let nn = nat_of_int n and kk = nat_of_int k in
    out_mat k n (fun c i -> Gemini.ws_wy fops eps nn y c i))
