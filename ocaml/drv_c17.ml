(* C17 — float instance of the shifted softmax (Model/Forward.v) and of the group-lasso row operator
   (Model/Prox.v) on extreme inputs.
   c17.softmax <Z: n K>      -> n*K probabilities, then per row the largest argument handed to exp,
                                then per row the denominator
   c17.prox <alpha> <W: d h> -> d*h entries of linear_prox_row applied to every row                      *)
open Common
open Datatypes
let () =
  register "c17.softmax" (fun t ->
    let (n, k, z) = next_mat t in
    let kk = nat_of_int k in
    out_mat n k (fun i c -> Forward.softmax_row fops kk (z i) c);
    for i = 0 to n - 1 do
      let zi = z (nat_of_int i) in
      let m = Forward.vmax fops kk zi in
      let worst = ref neg_infinity in
      for c = 0 to k - 1 do let a = zi (nat_of_int c) -. m in if a > !worst then worst := a done;
      out_float !worst
    done;
    for i = 0 to n - 1 do
      let zi = z (nat_of_int i) in
      let m = Forward.vmax fops kk zi in
      out_float (Num.bsum fops kk (fun c -> exp (zi c -. m)))
    done);
  register "c17.prox" (fun t ->
    let alpha = next_float t in
    let (d, h, w) = next_mat t in
    for i = 0 to d - 1 do
      let row = Stdlib.List.init h (fun j -> w (nat_of_int i) (nat_of_int j)) in
      Stdlib.List.iter out_float (Prox.linear_prox_row fops row alpha)
    done)
