(* C16 driver: values, constraints and group lists arrive as tokens (see harness/c16.py for the encoder).
   value:       I <dec> | B 0/1 | NB 0/1 | R <num> <den> | NAN | PINF | NINF | S <hex|-> | N | C | A | D | L | T | X <class> | O
   bound:       - | NI | PI | F <num> <den>
   constraint:  IV <I|R|RN> <bound> <bound> <L|R|B|N> | SO <n> <hex>.. | IO <class> | NONE | BOOL | CALL | RS | AL
   constraints: U | K <n> <constraint>.. *)
open Common
open BinNums

(* ---- arbitrary-precision literals through the extracted arithmetic *)
let rec pos_of_int n = if n <= 1 then Coq_xH else if n land 1 = 0 then Coq_xO (pos_of_int (n lsr 1)) else Coq_xI (pos_of_int (n lsr 1))
let z_of_int n = if n = 0 then Z0 else if n > 0 then Zpos (pos_of_int n) else Zneg (pos_of_int (-n))
let z_of_string s =
  let neg = Stdlib.String.length s > 0 && Stdlib.String.get s 0 = '-' in
  let ten = z_of_int 10 in
  let acc = ref Z0 in
  Stdlib.String.iteri (fun i ch ->
    if i = 0 && ch = '-' then () else begin
      if ch < '0' || ch > '9' then failwith ("bad integer " ^ s);
      acc := Validation.zadd (Validation.zmul !acc ten) (z_of_int (Char.code ch - 48)) end) s;
  if neg then Validation.zopp !acc else !acc
let rec int_of_pos = function Coq_xH -> 1 | Coq_xO p -> 2 * int_of_pos p | Coq_xI p -> 2 * int_of_pos p + 1
let int_of_z = function Z0 -> 0 | Zpos p -> int_of_pos p | Zneg p -> - (int_of_pos p)
let next_z t = z_of_string (next t)
let next_q t = let n = next_z t in let d = next_z t in
  match d with Zpos p -> Validation.mkq n p | _ -> failwith "denominator must be positive"

(* ---- Coq strings *)
let ascii_of_char ch = let c = Char.code ch in let b i = (c lsr i) land 1 = 1 in
  Ascii.Ascii (b 0, b 1, b 2, b 3, b 4, b 5, b 6, b 7)
let char_of_ascii (Ascii.Ascii (b0, b1, b2, b3, b4, b5, b6, b7)) =
  let v b i = if b then 1 lsl i else 0 in Char.chr (v b0 0 + v b1 1 + v b2 2 + v b3 3 + v b4 4 + v b5 5 + v b6 6 + v b7 7)
let cstr (s : string) : String.string =
  let r = ref String.EmptyString in
  for i = Stdlib.String.length s - 1 downto 0 do r := String.String (ascii_of_char (Stdlib.String.get s i), !r) done; !r
let rec ostr = function String.EmptyString -> "" | String.String (a, r) -> Stdlib.String.make 1 (char_of_ascii a) ^ ostr r
let unhex h = if h = "-" then "" else
  Stdlib.String.init (Stdlib.String.length h / 2) (fun i -> Char.chr (int_of_string ("0x" ^ Stdlib.String.sub h (2 * i) 2)))
let hex s = if s = "" then "-" else Stdlib.String.concat "" (Stdlib.List.map (fun c -> Printf.sprintf "%02x" (Char.code c)) (Stdlib.List.init (Stdlib.String.length s) (Stdlib.String.get s)))
let next_hexstr t = cstr (unhex (next t))
let next_name t = cstr (next t)

let next_value t : Validation.value =
  match next t with
  | "I" -> Validation.VInt (next_z t)
  | "B" -> Validation.VBool (next_bool t)
  | "NB" -> Validation.VNpBool (next_bool t)
  | "R" -> Validation.VReal (next_q t)
  | "NAN" -> Validation.VNaN | "PINF" -> Validation.VPosInf | "NINF" -> Validation.VNegInf
  | "S" -> Validation.VStr (next_hexstr t)
  | "N" -> Validation.VNone | "C" -> Validation.VCallable | "A" -> Validation.VArray | "D" -> Validation.VDict
  | "L" -> Validation.VList | "T" -> Validation.VTuple | "O" -> Validation.VOther
  | "X" -> Validation.VInstance (next_name t)
  | k -> failwith ("bad value tag " ^ k)

let next_bound t : Validation.ext option =
  match next t with
  | "-" -> None | "NI" -> Some Validation.NInf | "PI" -> Some Validation.PInf
  | "F" -> Some (Validation.Fin (next_q t))
  | k -> failwith ("bad bound tag " ^ k)
let next_constraint t : Validation.coq_constraint =
  match next t with
  | "IV" ->
    let ty = (match next t with "I" -> Validation.TIntegral | "R" -> Validation.TReal | "RN" -> Validation.TRealNotInt | k -> failwith ("bad numty " ^ k)) in
    let lo = next_bound t in let hi = next_bound t in
    let cl = (match next t with "L" -> Validation.CLeft | "R" -> Validation.CRight | "B" -> Validation.CBoth | "N" -> Validation.CNeither | k -> failwith ("bad closed " ^ k)) in
    Validation.Interval (ty, lo, hi, cl)
  | "SO" -> Validation.StrOptions (next_list next_hexstr t)
  | "IO" -> Validation.InstanceOf (next_name t)
  | "NONE" -> Validation.NoneC | "BOOL" -> Validation.BoolC | "CALL" -> Validation.CallableC
  | "RS" -> Validation.RandomStateC | "AL" -> Validation.ArrayLikeC
  | k -> failwith ("bad constraint tag " ^ k)
let next_ocs t = match next t with
  | "U" -> None | "K" -> Some (next_list next_constraint t) | k -> failwith ("bad constraints tag " ^ k)

(* printers in the same token language *)
let out_q (q : QArith_base.coq_Q) = out_int (int_of_z q.QArith_base.coq_Qnum); out_int (int_of_pos q.QArith_base.coq_Qden)
let out_bound = function None -> out_s "-" | Some Validation.NInf -> out_s "NI" | Some Validation.PInf -> out_s "PI"
  | Some (Validation.Fin q) -> out_s "F"; out_q q
let out_constraint = function
  | Validation.Interval (ty, lo, hi, cl) ->
    out_s "IV"; out_s (match ty with Validation.TIntegral -> "I" | Validation.TReal -> "R" | Validation.TRealNotInt -> "RN");
    out_bound lo; out_bound hi;
    out_s (match cl with Validation.CLeft -> "L" | Validation.CRight -> "R" | Validation.CBoth -> "B" | Validation.CNeither -> "N")
  | Validation.StrOptions l -> out_s "SO"; out_list (fun s -> out_s (hex (ostr s))) l
  | Validation.InstanceOf c -> out_s "IO"; out_s (ostr c)
  | Validation.NoneC -> out_s "NONE" | Validation.BoolC -> out_s "BOOL" | Validation.CallableC -> out_s "CALL"
  | Validation.RandomStateC -> out_s "RS" | Validation.ArrayLikeC -> out_s "AL"
let out_ocs = function None -> out_s "U" | Some cs -> out_s "K"; out_list out_constraint cs
let out_name s = out_s (ostr s)
let out_table (tbl : (String.string * Validation.ptable) list) =
  out_list (fun (e, ps) -> out_name e; out_list (fun (p, oc) -> out_name p; out_ocs oc) ps) tbl

let all_tables () = Stdlib.List.append Constraints.estimators Constraints.functions

let () =
  (* satisfied on constraints given by the caller (taken from the live objects), class table from Gen *)
  register "c16.sat" (fun t -> let oc = next_ocs t in let v = next_value t in
    out_bool (Validation.effective_sat Constraints.classes oc v));
  (* satisfied on the regenerated table entry *)
  register "c16.gen" (fun t -> let e = next_name t in let p = next_name t in let v = next_value t in
    match Validation.lookup_param (all_tables ()) e p with
    | None -> out_s "U"
    | Some oc -> out_bool (Validation.effective_sat Constraints.classes oc v));
  (* documented domain *)
  register "c16.doc" (fun t -> let e = next_name t in let p = next_name t in let v = next_value t in
    match Doc.doc_dom e p with
    | None -> out_s "U"
    | Some _ -> out_bool (Doc.in_doc_domain Constraints.classes e p v));
  (* the finite bounds and the strings the documented domain mentions (so that they are probed whatever the code declares) *)
  register "c16.docinfo" (fun t -> let e = next_name t in let p = next_name t in
    match Doc.doc_dom e p with
    | None -> out_s "U"
    | Some d ->
      out_s "D";
      let zb = Stdlib.List.concat_map (fun i -> Stdlib.List.filter_map (fun x -> x) [i.Doc.zlo; i.Doc.zhi]) d.Doc.d_ints in
      out_list (fun z -> out_s (string_of_int (int_of_z z))) zb;
      let qb = Stdlib.List.concat_map (fun i -> Stdlib.List.filter_map (function Validation.Fin q -> Some q | _ -> None) [i.Doc.qlo; i.Doc.qhi]) d.Doc.d_reals in
      out_list out_q qb;
      out_list (fun s -> out_s (hex (ostr s))) d.Doc.d_strs);
  register "c16.dump" (fun _ ->
    out_table Constraints.estimators; out_table Constraints.functions;
    out_list (fun (c, (bs, ms)) -> out_name c; out_list out_name bs; out_list out_name ms) Constraints.classes;
    out_list (fun (a, b) -> out_name a; out_s (hex (ostr b))) Constraints.dead_decorator_keys);
  (* rows of Doc.known_asis whose frozen constraints are what the regenerated table holds now *)
  register "c16.known" (fun _ ->
    let act = Stdlib.List.filter (fun (((e, p), oc), _) -> Validation.lookup_param (all_tables ()) e p = Some oc) Doc.known_asis in
    out_list (fun (((e, p), _), _) -> out_name e; out_name p) act);
  register "c16.subclass" (fun t -> let c = next_name t in let b = next_name t in
    out_bool (Validation.subclass_of Constraints.classes c b));
  (* check_groups <d> <groups> ; an entry is a decimal integer, b0 / b1 (a bool) or o (anything else) *)
  register "c16.groups" (fun t -> let d = next_nat t in
    let entry t = (match next t with
      | "o" -> Validation.GOther | "b0" -> Validation.GBool false | "b1" -> Validation.GBool true
      | z -> Validation.GInt (z_of_string z)) in
    let g = next_list (next_list entry) t in
    out_opt (out_list (out_list (fun z -> out_int (int_of_z z)))) (Validation.check_groups_entries g d));
  (* the REGENERATED check_groups (Gen/ValidationRules.v), same input; entries printed in the input notation *)
  register "c16.groupsgen" (fun t -> let d = next_nat t in
    let entry t = (match next t with
      | "o" -> Validation.GOther | "b0" -> Validation.GBool false | "b1" -> Validation.GBool true
      | z -> Validation.GInt (z_of_string z)) in
    let g = next_list (next_list entry) t in
    let out_entry = (function Validation.GOther -> out_s "o" | Validation.GBool b -> out_s (if b then "b1" else "b0")
      | Validation.GInt z -> out_int (int_of_z z)) in
    out_opt (out_list (out_list out_entry)) (ValidationRules.check_groups_gen g d));
  (* douglas <mask_none> <len_ok> <sel_ok> <params_ok> <x_ok> <samples_ok> <affinity_ok> -> accepted, attributes in write order *)
  register "c16.douglas" (fun t ->
    let mn = next_bool t in let lo = next_bool t in let so = next_bool t in
    let p = next_bool t in let x = next_bool t in let m = next_bool t in let a = next_bool t in
    let k = { Validation.params_ok = p; x_ok = x; samples_ok = m; groups_ok = true; cross_ok = true; affinity_ok = a } in
    let (acc, written) = Validation.run (Validation.fit_douglas mn lo so k) [] in
    out_bool acc; out_list out_name (Stdlib.List.rev written));
  register "c16.precomputed" (fun t ->
    let ndim = next_nat t in let rows = next_nat t in let cols = next_nat t in let n = next_nat t in
    let numeric = next_bool t in let finite = next_bool t in
    out_bool (Validation.precomputed_ok ndim rows cols n numeric finite));
  register "c16.cross" (fun t -> let a = next_z t in let b = next_z t in out_bool (Validation.kauri_cross_ok a b));
  register "c16.mask" (fun t -> let m = next_opt (next_list next_bool) t in let d = next_nat t in out_bool (Validation.douglas_mask_ok m d));
  register "c16.data" (fun t ->
    let ndim = next_nat t in let n = next_nat t in let d = next_nat t in let numeric = next_bool t in let finite = next_bool t in
    let m = next_nat t in out_bool (Validation.data_ok ndim n d numeric finite m));
  (* trace <family> <weights> <params_ok> <x_ok> <samples_ok> <groups_ok> <cross_ok> <affinity_ok>
     -> accepted, validate_first, attributes in write order *)
  register "c16.trace" (fun t ->
    let fam = next t in let w = next_list next_name t in
    let p = next_bool t in let x = next_bool t in let m = next_bool t in let g = next_bool t in let c = next_bool t in let a = next_bool t in
    let k = { Validation.params_ok = p; x_ok = x; samples_ok = m; groups_ok = g; cross_ok = c; affinity_ok = a } in
    let steps = (match fam with
      | "base" -> Validation.fit_base w k | "sparse" -> Validation.fit_sparse w k
      | "kernelrim" -> Validation.fit_kernelrim k | "kauri" -> Validation.fit_kauri k
      | "ideal" -> Validation.fit_validate_first w k | f -> failwith ("bad family " ^ f)) in
    let (acc, written) = Validation.run steps [] in
    out_bool acc; out_bool (Validation.validate_first steps); out_list out_name (Stdlib.List.rev written))
